/* pcp_harness.c -- in-process driver of the REAL pcp_server.c / pcp_client.c (engine `pcp`).
 *
 * One op per stdin line, one answer line per op.  Every op runs the real code in forked children so
 * that errx()/sanitizer aborts/escapes are observable and confined:
 *
 *   sink JAIL CWD DESTHEX P Y UMASK FDMODE FSIZE STREAMHEX
 *        child: chroot(JAIL); chdir(CWD); umask(UMASK); real pcp_server() with outfile = DEST,
 *        preserve = P, target_is_dir = Y, reading STREAM (FDMODE 0: one socket as infd = outfd, like
 *        dsh.c _pcp_server; 1: two pipes, like main.c _pcp_remote_server on stdin/stdout).
 *        FSIZE > 0: the receiver runs with RLIMIT_FSIZE = FSIZE bytes and SIGXFSZ ignored (write faults).
 *        answer: rc=<exit> sig=<signal> san=<0|1> replies=<hex> err=<hex tail of stderr>
 *
 *   rt JAIL CWD DESTHEX P Y UMASK FSIZE SRCDIR REVERSE HOSTHEX NAMEHEX...
 *        server child as above; client child: chdir(SRCDIR); real pcp_expand_dirs(names) + pcp_client()
 *        (pcp_client flag = REVERSE, host = HOST); the parent relays between the two and logs both
 *        directions.
 *        answer: crc=<client exit> csig= src=<server exit> ssig= san= c2slen=<n> c2scrc=<crc32>
 *                c2s=<hex | ~ when longer than the limit> s2c=<hex> err=<hex tail>
 *
 *   multi JAIL CWD P Y UMASK K (DESTHEX CHUNKHEX[,CHUNKHEX...])*K
 *        ONE child process (chroot, chdir, umask as above) runs K receivers as THREADS, each the real
 *        pcp_server() on its own socket pair -- the way rpdcp (dsh.c _rcp_thread/_pcp_server) serves its
 *        targets.  All connections are open at the same time; the feeder hands out the chunks round robin
 *        (chunk j of connection 0, 1, .., K-1, then chunk j+1 ...) and waits after each chunk until that
 *        receiver has consumed it and is waiting for input again, so the interleaving is deterministic.
 *        Then the connections are shut down one after the other.
 *        RACE (optional last token `A:B`): a forced interleaving of two _error() calls.  The first time
 *        receiver A is inside _error() -- reply stream opened, about to format the record -- it is parked;
 *        it continues as soon as receiver B has gone through an _error() of its own and is waiting for
 *        input again (or when the input is exhausted).
 *        RACE `uA:B`: a forced interleaving of the umask(2) calls at the start of two receivers:
 *        A: mask = umask(0);  B: mask = umask(0);  A: umask(mask);  B: umask(mask)   (B read A's temporary 0).
 *        The receivers are started one after the other (in every `multi` op, so that nothing depends on how
 *        the threads happen to be scheduled); with `uA:B` A is started first and parked after its first
 *        umask() call, then B likewise, then A continues, then B.
 *        RACE `e`: a connection whose chunks are exhausted is shut down at once and the feeder waits until its receiver
 *        has RETURNED from pcp_server() before it hands out the next chunk: one target of rpdcp finishes while the
 *        others are still delivering (whatever a receiver undoes on its way out hits the others in mid-copy).
 *        answer: rc= sig= san= to=<0|1> parked=<0|1> r0=<hex replies of connection 0> r1=... err=<hex tail>
 *
 *   resp N STREAMHEX
 *        child: the real pcp_response() of pcp_client.c called exactly N times on a file holding STREAM (the bytes a
 *        receiver wrote: NUL / `\01` + text + newline); answer: res=<per call 0 | 1 (= -1)> left=<bytes unread>
 *
 * The chroot confines every experiment (hostile names such as ../../x) to the per-case jail directory,
 * and makes the jail the root of the model's file system.
 * Built per run from /repo's working tree with ASan/UBSan.
 */
/* The shipped build does not define _GNU_SOURCE: with it xstring.c:xstrerrorcat would take the XSI code
 * path against the GNU strerror_r and print an uninitialised buffer.  Build like the shipped code. */
#undef _GNU_SOURCE
/* err.c first: it defines lsd_fatal_error / lsd_nomem_error, which list.c would otherwise #define */
#include "src/common/err.c"
#include "src/common/xmalloc.c"
#include "src/common/xstring.c"
#include "src/common/list.c"
#include "src/common/fd.c"
#include "src/pdsh/pcp_client.c"
/* every read(2) of the receiver goes through harness_read: a receiver thread of the `multi` op marks
 * itself idle while it waits for input, which lets the feeder interleave several connections
 * deterministically */
#include <unistd.h>
static ssize_t harness_read(int fd, void *buf, size_t n);
#define read(fd, buf, n) harness_read(fd, buf, n)
/* two more scheduling points, both inside _error(): fdopen() marks "this thread has just opened its reply
 * stream", and immediately before errf() evaluates its arguments the thread can be parked (op `multi`, RACE).
 * Parking a thread between two statements is a legitimate schedule of the unchanged code. */
static FILE *harness_fdopen(int fd, const char *mode);
static void harness_sched_point(void);
/* umask(2) is PROCESS wide: _sink's `mask = umask(0); if (!preserve) umask(mask);` is a scheduling point too
 * (op `multi`, RACE `uA:B`) */
static mode_t harness_umask(mode_t m);
#define umask(m) harness_umask(m)
/* the receiver's ENVIRONMENT as a script (op `sink`, optional last token `blk=N,rdmax=M,eintr=K,short=K:M`): what
 * fstat(2) reports as st_blksize of the file being written (file systems differ: 512, 4096, 9216, 65536, 1 MiB), how
 * many bytes one read(2) delivers at most (the kernel may fragment any stream), and which read(2) call -- counted over
 * all reads of the connection -- is interrupted (-1/EINTR, once) or short */
#include <sys/stat.h>
static int harness_fstat(int fd, struct stat *sb);
#define fstat(fd, sb) harness_fstat(fd, sb)
/* ... and which write(2) call of the receiver (file data and replies, one counter) is interrupted or short
 * (`wr=K:e` / `wr=K:s`), which open(2) fails with EMFILE (`open=K`), whether fstat(2) fails with EIO (`fstat=fail`) */
#include <fcntl.h>
static ssize_t harness_write(int fd, const void *buf, size_t n);
static int harness_open(const char *path, int flags, ...);
#define write(fd, buf, n) harness_write(fd, buf, n)
#define open(...) harness_open(__VA_ARGS__)
#define fdopen(fd, mode) harness_fdopen(fd, mode)
#define errf(stream, fmt, ap) (harness_sched_point(), (errf)(stream, fmt, ap))
#include "src/pdsh/pcp_server.c"
#undef read
#undef fstat
#undef write
#undef open
#undef fdopen
#undef errf
#undef umask
#undef atime
#undef mtime
#undef SCREWUP
#undef getnum

#include <poll.h>
#include <signal.h>
#include <sys/wait.h>
#include <sys/socket.h>
#include <stdint.h>
#include <sys/resource.h>
#include <sys/ioctl.h>
#include <pthread.h>
#include <limits.h>

#define C2S_HEX_LIMIT 30000  /* longer client streams are reported by length + crc32 only */
#define MAX_TIMEOUTS 3       /* after that many hanging cases the rest of the batch is answered `skipped` */
#define MULTI_LIMIT_MS 30000 /* one `multi` case, all receivers together (generous: the machine may be loaded) */
static int ntimeouts = 0;

static int hexval(int c)
{
    if (c >= '0' && c <= '9') return c - '0';
    if (c >= 'a' && c <= 'f') return c - 'a' + 10;
    if (c >= 'A' && c <= 'F') return c - 'A' + 10;
    return -1;
}

static unsigned char *unhex(const char *s, size_t *len)
{
    size_t n = (strcmp(s, "-") == 0) ? 0 : strlen(s) / 2;
    unsigned char *b = malloc(n + 1);
    for (size_t i = 0; i < n; i++)
        b[i] = (unsigned char) (hexval(s[2 * i]) * 16 + hexval(s[2 * i + 1]));
    b[n] = 0;
    *len = n;
    return b;
}

static void puthex(const unsigned char *b, size_t n)
{
    static const char hx[] = "0123456789abcdef";
    if (n == 0) { putchar('-'); return; }
    for (size_t i = 0; i < n; i++) { putchar(hx[b[i] >> 4]); putchar(hx[b[i] & 15]); }
}

static uint32_t crc32_buf(const unsigned char *b, size_t n)
{
    uint32_t c = 0xffffffffu;
    for (size_t i = 0; i < n; i++) {
        c ^= b[i];
        for (int k = 0; k < 8; k++)
            c = (c >> 1) ^ (0xedb88320u & (0u - (c & 1u)));
    }
    return c ^ 0xffffffffu;
}

typedef struct { unsigned char *p; size_t n, cap; } dyn_t;
static void dyn_add(dyn_t *d, const void *b, size_t n)
{
    if (d->n + n + 1 > d->cap) {
        d->cap = (d->n + n + 1) * 2;
        d->p = realloc(d->p, d->cap);
    }
    memcpy(d->p + d->n, b, n);
    d->n += n;
}

/* one direction of a relay: bytes read from `from` are logged and forwarded to `to` */
typedef struct {
    int from, to;          /* -1 when closed */
    dyn_t log;             /* everything read from `from` */
    size_t sent;           /* prefix of log already written to `to` */
    int eof;               /* `from` reached EOF */
    int to_dead;           /* write side failed (EPIPE): drop the rest */
} dir_t;

static void set_nb(int fd) { fcntl(fd, F_SETFL, fcntl(fd, F_GETFL) | O_NONBLOCK); }

/* Pump until both directions are finished or `ms` elapsed.  `half` tells how to signal EOF on `to`:
 * 1 = shutdown(SHUT_WR) (socket shared with the opposite direction), 0 = close.  errfd: stderr pipe. */
static int pump(dir_t *a, dir_t *b, int half_a, int half_b, int errfd, dyn_t *errlog, int ms)
{
    struct timespec t0, t1;
    clock_gettime(CLOCK_MONOTONIC, &t0);
    int a_done = 0, b_done = 0, err_open = errfd >= 0;
    for (;;) {
        struct pollfd pf[5];
        int n = 0, ia_r = -1, ia_w = -1, ib_r = -1, ib_w = -1, ie = -1;
        dir_t *d;
        d = a;
        if (!d->eof && d->from >= 0) { pf[n].fd = d->from; pf[n].events = POLLIN; ia_r = n++; }
        if (d->to >= 0 && !d->to_dead && d->sent < d->log.n) { pf[n].fd = d->to; pf[n].events = POLLOUT; ia_w = n++; }
        d = b;
        if (!d->eof && d->from >= 0) { pf[n].fd = d->from; pf[n].events = POLLIN; ib_r = n++; }
        if (d->to >= 0 && !d->to_dead && d->sent < d->log.n) { pf[n].fd = d->to; pf[n].events = POLLOUT; ib_w = n++; }
        if (err_open) { pf[n].fd = errfd; pf[n].events = POLLIN; ie = n++; }
        /* propagate EOF once everything pending has been forwarded */
        if (!a_done && a->eof && (a->to < 0 || a->to_dead || a->sent == a->log.n)) {
            if (a->to >= 0) { if (half_a) shutdown(a->to, SHUT_WR); else close(a->to); }
            a_done = 1;
        }
        if (!b_done && b->eof && (b->to < 0 || b->to_dead || b->sent == b->log.n)) {
            if (b->to >= 0) { if (half_b) shutdown(b->to, SHUT_WR); else close(b->to); }
            b_done = 1;
        }
        if (a_done && b_done && !err_open)
            return 0;
        if (n == 0)
            return 0;
        clock_gettime(CLOCK_MONOTONIC, &t1);
        long el = (t1.tv_sec - t0.tv_sec) * 1000 + (t1.tv_nsec - t0.tv_nsec) / 1000000;
        if (el > ms)
            return -1;
        if (poll(pf, n, 200) < 0 && errno != EINTR)
            return -1;
        unsigned char tmp[65536];
        for (int k = 0; k < 2; k++) {
            dir_t *x = k ? b : a;
            int ir = k ? ib_r : ia_r, iw = k ? ib_w : ia_w;
            if (ir >= 0 && (pf[ir].revents & (POLLIN | POLLHUP | POLLERR))) {
                ssize_t r = read(x->from, tmp, sizeof tmp);
                if (r > 0) dyn_add(&x->log, tmp, (size_t) r);
                else if (r == 0 || (errno != EAGAIN && errno != EINTR)) x->eof = 1;
            }
            if (iw >= 0 && (pf[iw].revents & (POLLOUT | POLLHUP | POLLERR))) {
                ssize_t w = write(x->to, x->log.p + x->sent, x->log.n - x->sent);
                if (w > 0) x->sent += (size_t) w;
                else if (w < 0 && errno != EAGAIN && errno != EINTR) x->to_dead = 1;
            }
        }
        if (ie >= 0 && (pf[ie].revents & (POLLIN | POLLHUP | POLLERR))) {
            ssize_t r = read(errfd, tmp, sizeof tmp);
            if (r > 0) { if (errlog->n < 200000) dyn_add(errlog, tmp, (size_t) r); }
            else if (r == 0 || (errno != EAGAIN && errno != EINTR)) err_open = 0;
        }
    }
}

static int looks_san(const dyn_t *e)
{
    if (!e->p || e->n == 0) return 0;
    e->p[e->n] = 0;   /* dyn_add keeps one spare byte */
    return strstr((char *) e->p, "Sanitizer") != NULL || strstr((char *) e->p, "runtime error") != NULL;
}

static void put_errtail(const dyn_t *e)
{
    size_t n = e->n, off = 0;
    if (e->p && n > 0) {
        /* a sanitizer report: show its head line(s), not the legend at its end */
        char *h;
        e->p[n] = 0;
        h = strstr((char *) e->p, "ERROR: ");
        if (!h) h = strstr((char *) e->p, "runtime error");
        if (h) { off = (size_t) (h - (char *) e->p); n -= off; if (n > 400) n = 400; }
    }
    if (off == 0 && n > 400) { off = n - 400; n = 400; }
    puthex(e->p ? e->p + off : (unsigned char *) "", n);
}

/* ---- children ----------------------------------------------------------------------------- */

static void env_parse(const char *e);
static int env_infd, env_on = 0;

static void server_child(const char *jail, const char *cwd, char *dest, int p, int y, int um,
                         int infd, int outfd, int errfd, long fsize, const char *env)
{
    struct pcp_server svr[1];
    dup2(errfd, 2);
    if (env) { env_parse(env); env_infd = infd; env_on = 1; }
    if (fsize > 0) {
        /* write-fault injection: like a full disk / exceeded quota, write(2) beyond the limit is short
         * or fails with EFBIG (SIGXFSZ ignored), ftruncate(2) growing beyond it fails */
        struct rlimit rl;
        rl.rlim_cur = rl.rlim_max = (rlim_t) fsize;
        signal(SIGXFSZ, SIG_IGN);
        if (setrlimit(RLIMIT_FSIZE, &rl) < 0) {
            dprintf(2, "HARNESS: setrlimit failed: %s\n", strerror(errno));
            _exit(97);
        }
    }
    if (chroot(jail) < 0 || chdir(cwd) < 0) {
        dprintf(2, "HARNESS: chroot/chdir failed: %s\n", strerror(errno));
        _exit(97);
    }
    umask(um);
    svr->infd = infd;
    svr->outfd = outfd;
    svr->preserve = p;
    svr->target_is_dir = y;
    svr->outfile = dest;
    pcp_server(svr);
    _exit(0);
}

static void client_child(const char *srcdir, int p, int reverse, char *host, char **names, int nnames,
                         int fd, int errfd)
{
    struct pcp_client pcp[1];
    List infiles;
    dup2(errfd, 2);
    if (chdir(srcdir) < 0) {
        dprintf(2, "HARNESS: chdir failed: %s\n", strerror(errno));
        _exit(97);
    }
    infiles = list_create(NULL);
    for (int i = 0; i < nnames; i++)
        list_append(infiles, names[i]);
    pcp->infd = fd;
    pcp->outfd = fd;
    pcp->preserve = p;
    pcp->pcp_client = reverse;
    pcp->host = host;
    pcp->infiles = pcp_expand_dirs(infiles);
    _exit(pcp_client(pcp) < 0 ? 1 : 0);
}

static void reap(pid_t pid, int *rc, int *sig)
{
    int st = 0;
    *rc = -1; *sig = 0;
    for (int i = 0; i < 1500; i++) {         /* up to ~15 s, then kill */
        pid_t r = waitpid(pid, &st, WNOHANG);
        if (r == pid) goto got;
        if (r < 0) return;
        usleep(10000);
    }
    kill(pid, SIGKILL);
    waitpid(pid, &st, 0);
    *sig = 999;
    return;
got:
    if (WIFEXITED(st)) *rc = WEXITSTATUS(st);
    if (WIFSIGNALED(st)) *sig = WTERMSIG(st);
}

/* ---- ops ------------------------------------------------------------------------------------ */

static char *tok(char **sp)
{
    char *s = *sp;
    while (*s == ' ') s++;
    if (!*s || *s == '\n') return NULL;
    char *b = s;
    while (*s && *s != ' ' && *s != '\n') s++;
    if (*s) *s++ = 0;
    *sp = s;
    return b;
}

static void op_sink(char *rest)
{
    char *jail = tok(&rest), *cwd = tok(&rest), *desthex = tok(&rest), *ps = tok(&rest), *ys = tok(&rest),
         *ums = tok(&rest), *fdm = tok(&rest), *fsz = tok(&rest), *shex = tok(&rest), *env = tok(&rest);
    if (!shex) { printf("bad-op\n"); return; }
    if (ntimeouts >= MAX_TIMEOUTS) { printf("skipped rc=-1 sig=997 san=0 replies=- err=-\n"); return; }
    size_t dl, sl;
    char *dest = (char *) unhex(desthex, &dl);
    unsigned char *stream = unhex(shex, &sl);
    int fdmode = atoi(fdm);
    int sv[2], pin[2], pout[2], perr[2];
    int c_in, c_out, p_w, p_r;
    if (pipe(perr) < 0) { printf("harness-error pipe\n"); return; }
    if (fdmode == 0) {
        if (socketpair(AF_UNIX, SOCK_STREAM, 0, sv) < 0) { printf("harness-error socketpair\n"); return; }
        c_in = c_out = sv[1]; p_w = p_r = sv[0];
    } else {
        if (pipe(pin) < 0 || pipe(pout) < 0) { printf("harness-error pipe\n"); return; }
        c_in = pin[0]; p_w = pin[1]; c_out = pout[1]; p_r = pout[0];
    }
    fflush(stdout);
    pid_t pid = fork();
    if (pid == 0) {
        close(perr[0]);
        if (fdmode == 0) close(sv[0]); else { close(pin[1]); close(pout[0]); }
        server_child(jail, cwd, dest, atoi(ps), atoi(ys), (int) strtol(ums, NULL, 8), c_in, c_out, perr[1],
                     atol(fsz), env);
    }
    close(perr[1]);
    if (fdmode == 0) close(sv[1]); else { close(pin[0]); close(pout[1]); }
    set_nb(p_w); set_nb(p_r); set_nb(perr[0]);
    /* direction a: the stream (already complete, "EOF" from the start) to the child;
       direction b: the child's replies, not forwarded anywhere */
    dir_t a = { -1, p_w, { NULL, 0, 0 }, 0, 1, 0 }, b = { p_r, -1, { NULL, 0, 0 }, 0, 0, 0 };
    dyn_add(&a.log, stream, sl);
    dyn_t errlog = { NULL, 0, 0 };
    dyn_add(&errlog, "", 0);
    int to = pump(&a, &b, fdmode == 0, 0, perr[0], &errlog, 25000);
    int rc, sig;
    if (to < 0) { kill(pid, SIGKILL); ntimeouts++; }
    reap(pid, &rc, &sig);
    if (to < 0) sig = 998;
    if (fdmode == 0) close(p_w); else { close(p_r); }
    close(perr[0]);
    printf("rc=%d sig=%d san=%d replies=", rc, sig, looks_san(&errlog));
    puthex(b.log.p, b.log.n);
    printf(" err=");
    put_errtail(&errlog);
    printf("\n");
    free(dest); free(stream); free(a.log.p); free(b.log.p); free(errlog.p);
}

static void op_rt(char *rest)
{
    char *jail = tok(&rest), *cwd = tok(&rest), *desthex = tok(&rest), *ps = tok(&rest), *ys = tok(&rest),
         *ums = tok(&rest), *fsz = tok(&rest), *srcdir = tok(&rest), *revs = tok(&rest), *hosthex = tok(&rest);
    if (!hosthex) { printf("bad-op\n"); return; }
    if (ntimeouts >= MAX_TIMEOUTS) {
        printf("skipped crc=-1 csig=997 src=-1 ssig=997 san=0 c2slen=0 c2scrc=0 c2s=- s2c=- err=-\n");
        return;
    }
    char *names[64];
    int nn = 0;
    char *t;
    size_t l;
    while ((t = tok(&rest)) && nn < 64)
        names[nn++] = (char *) unhex(t, &l);
    char *dest = (char *) unhex(desthex, &l);
    char *host = (char *) unhex(hosthex, &l);
    int sc[2], ss[2], perr[2];
    if (socketpair(AF_UNIX, SOCK_STREAM, 0, sc) < 0 || socketpair(AF_UNIX, SOCK_STREAM, 0, ss) < 0 ||
        pipe(perr) < 0) { printf("harness-error socketpair\n"); return; }
    fflush(stdout);
    pid_t spid = fork();
    if (spid == 0) {
        close(sc[0]); close(sc[1]); close(ss[0]); close(perr[0]);
        server_child(jail, cwd, dest, atoi(ps), atoi(ys), (int) strtol(ums, NULL, 8), ss[1], ss[1], perr[1],
                     atol(fsz), NULL);
    }
    pid_t cpid = fork();
    if (cpid == 0) {
        close(ss[0]); close(ss[1]); close(sc[0]); close(perr[0]);
        client_child(srcdir, atoi(ps), atoi(revs), host, names, nn, sc[1], perr[1]);
    }
    close(sc[1]); close(ss[1]); close(perr[1]);
    set_nb(sc[0]); set_nb(ss[0]); set_nb(perr[0]);
    dir_t a = { sc[0], ss[0], { NULL, 0, 0 }, 0, 0, 0 };   /* client -> server */
    dir_t b = { ss[0], sc[0], { NULL, 0, 0 }, 0, 0, 0 };   /* server -> client */
    dyn_t errlog = { NULL, 0, 0 };
    dyn_add(&errlog, "", 0);
    int to = pump(&a, &b, 1, 1, perr[0], &errlog, 30000);
    int crc, csig, src, ssig;
    if (to < 0) { kill(cpid, SIGKILL); kill(spid, SIGKILL); ntimeouts++; }
    reap(cpid, &crc, &csig);
    reap(spid, &src, &ssig);
    if (to < 0) csig = ssig = 998;
    close(sc[0]); close(ss[0]); close(perr[0]);
    printf("crc=%d csig=%d src=%d ssig=%d san=%d c2slen=%zu c2scrc=%u c2s=", crc, csig, src, ssig,
           looks_san(&errlog), a.log.n, (unsigned) crc32_buf(a.log.p ? a.log.p : (unsigned char *) "", a.log.n));
    if (a.log.n > C2S_HEX_LIMIT) putchar('~'); else puthex(a.log.p, a.log.n);
    printf(" s2c=");
    puthex(b.log.p, b.log.n);
    printf(" err=");
    put_errtail(&errlog);
    printf("\n");
    for (int i = 0; i < nn; i++) free(names[i]);
    free(dest); free(host); free(a.log.p); free(b.log.p); free(errlog.p);
}

/* ---- several receivers in one process ------------------------------------------------------ */

typedef struct {
    int sfd, pfd;              /* server side / feeder side of the socket pair */
    struct pcp_server svr;
    int idle, finished;        /* accessed with __atomic builtins */
    int in_error, nerrors, parked;
    int upark, urelease;       /* umask race: park after the first umask() call / continue */
    pthread_t th;
    dyn_t log;                 /* replies */
    char **chunks; size_t *clen; int nchunks;
} conn_t;

static __thread conn_t *self_conn = NULL;

static long env_blk = -1, env_rdmax = 0, env_eintr = -1, env_short_at = -1, env_short_n = 0, env_reads = 0;
static long env_wr_at = -1, env_writes = 0, env_open_at = -1, env_opens = 0;
static int env_wr_kind = 0, env_fstat_fail = 0;
static int env_infd = -1;

static void env_parse(const char *e)
{
    /* blk=N,rdmax=M,eintr=K,short=K:M */
    while (e && *e) {
        if (!strncmp(e, "blk=", 4)) env_blk = atol(e + 4);
        else if (!strncmp(e, "rdmax=", 6)) env_rdmax = atol(e + 6);
        else if (!strncmp(e, "eintr=", 6)) env_eintr = atol(e + 6);
        else if (!strncmp(e, "wr=", 3)) {
            env_wr_at = atol(e + 3);
            const char *c = strchr(e + 3, ':');
            env_wr_kind = c ? c[1] : 'e';
        }
        else if (!strncmp(e, "open=", 5)) env_open_at = atol(e + 5);
        else if (!strncmp(e, "fstat=fail", 10)) env_fstat_fail = 1;
        else if (!strncmp(e, "short=", 6)) {
            env_short_at = atol(e + 6);
            const char *c = strchr(e + 6, ':');
            env_short_n = c ? atol(c + 1) : 1;
        }
        e = strchr(e, ',');
        if (e) e++;
    }
}

static ssize_t harness_write(int fd, const void *buf, size_t n)
{
    if (env_on && fd != 2) {
        long k = env_writes++;
        if (k == env_wr_at && env_wr_kind == 'e') { errno = EINTR; return -1; }
        if (k == env_wr_at && env_wr_kind == 's' && n > 1) n = n / 2;
    }
    return write(fd, buf, n);
}

#include <stdarg.h>
static int harness_open(const char *path, int flags, ...)
{
    va_list ap;
    va_start(ap, flags);
    int mode = (flags & O_CREAT) ? va_arg(ap, int) : 0;
    va_end(ap);
    if (env_on && env_opens++ == env_open_at) { errno = EMFILE; return -1; }
    return open(path, flags, mode);
}

static int harness_fstat(int fd, struct stat *sb)
{
    if (env_fstat_fail) { errno = EIO; return -1; }
    int r = fstat(fd, sb);
    if (r == 0 && env_blk >= 0)
        sb->st_blksize = env_blk;
    return r;
}

static ssize_t harness_read(int fd, void *buf, size_t n)
{
    conn_t *c = self_conn;
    if (fd == env_infd) {
        long k = env_reads++;
        if (k == env_eintr) { errno = EINTR; return -1; }
        if (k == env_short_at && env_short_n > 0 && n > (size_t) env_short_n) n = (size_t) env_short_n;
        if (env_rdmax > 0 && n > (size_t) env_rdmax) n = (size_t) env_rdmax;
    }
    if (c && fd == c->svr.infd) {
        struct pollfd pf = { fd, POLLIN, 0 };
        __atomic_store_n(&c->idle, 1, __ATOMIC_SEQ_CST);
        while (poll(&pf, 1, -1) < 0 && errno == EINTR)
            ;
        __atomic_store_n(&c->idle, 0, __ATOMIC_SEQ_CST);
    }
    return read(fd, buf, n);
}

static conn_t *race_a = NULL;       /* the receiver to park (NULL: none) */
static int race_release = 0, race_done = 0;

static FILE *harness_fdopen(int fd, const char *mode)
{
    if (self_conn) self_conn->in_error = 1;
    return fdopen(fd, mode);
}

static void harness_sched_point(void)
{
    conn_t *c = self_conn;
    int e = errno;
    if (!c || !c->in_error) return;
    c->in_error = 0;
    if (c == race_a && !race_done) {
        race_done = 1;
        __atomic_store_n(&c->parked, 1, __ATOMIC_SEQ_CST);
        while (!__atomic_load_n(&race_release, __ATOMIC_SEQ_CST))
            usleep(50);
        __atomic_store_n(&c->parked, 0, __ATOMIC_SEQ_CST);
    }
    __atomic_add_fetch(&c->nerrors, 1, __ATOMIC_SEQ_CST);
    errno = e;
}

static mode_t harness_umask(mode_t m)
{
    conn_t *c = self_conn;
    mode_t r = umask(m);
    if (c && c->upark) {
        c->upark = 0;
        __atomic_store_n(&c->parked, 1, __ATOMIC_SEQ_CST);
        while (!__atomic_load_n(&c->urelease, __ATOMIC_SEQ_CST))
            usleep(50);
        __atomic_store_n(&c->parked, 0, __ATOMIC_SEQ_CST);
    }
    return r;
}

static void *conn_thread(void *arg)
{
    conn_t *c = arg;
    self_conn = c;
    pcp_server(&c->svr);
    __atomic_store_n(&c->finished, 1, __ATOMIC_SEQ_CST);
    return NULL;
}

/* the receiver threads of rpdcp run on small stacks: dsh.c creates every per-target thread with
 * _dsh_attr_init(&attr, DSH_THREAD_STACKSIZE) (128 KiB; the value is passed in from the tree under test).  A
 * receiver that keeps large objects in the frames of the recursive _sink() overruns such a stack on a deep tree. */
#ifndef HARNESS_THREAD_STACKSIZE
#define HARNESS_THREAD_STACKSIZE (128 * 1024)
#endif
static int create_receiver(conn_t *c)
{
    pthread_attr_t attr;
    size_t sz = (size_t) (HARNESS_THREAD_STACKSIZE);
    int rc;
    if (sz < (size_t) PTHREAD_STACK_MIN) sz = (size_t) PTHREAD_STACK_MIN;
    pthread_attr_init(&attr);
    pthread_attr_setstacksize(&attr, sz);
    rc = pthread_create(&c->th, &attr, conn_thread, c);
    pthread_attr_destroy(&attr);
    return rc;
}

static void drain_all(conn_t *cs, int k)
{
    unsigned char tmp[4096];
    for (int i = 0; i < k; i++) {
        ssize_t r;
        while ((r = recv(cs[i].pfd, tmp, sizeof tmp, MSG_DONTWAIT)) > 0)
            dyn_add(&cs[i].log, tmp, (size_t) r);
    }
}

static long ms_since(const struct timespec *t0)
{
    struct timespec t1;
    clock_gettime(CLOCK_MONOTONIC, &t1);
    return (t1.tv_sec - t0->tv_sec) * 1000 + (t1.tv_nsec - t0->tv_nsec) / 1000000;
}

/* wait until receiver i has consumed everything and waits for input again (or has returned) */
static int wait_quiet(conn_t *cs, int k, int i, int want_finished, const struct timespec *t0, long limit_ms)
{
    for (;;) {
        drain_all(cs, k);
        if (__atomic_load_n(&cs[i].finished, __ATOMIC_SEQ_CST))
            return 0;
        if (!want_finished && __atomic_load_n(&cs[i].parked, __ATOMIC_SEQ_CST))
            return 0;
        if (!want_finished && __atomic_load_n(&cs[i].idle, __ATOMIC_SEQ_CST)) {
            int pending = 0;
            if (ioctl(cs[i].sfd, FIONREAD, &pending) == 0 && pending == 0
                && __atomic_load_n(&cs[i].idle, __ATOMIC_SEQ_CST))
                return 0;
        }
        if (ms_since(t0) > limit_ms)
            return -1;
        usleep(100);
    }
}

static void multi_child(const char *jail, const char *cwd, int p, int y, int um, conn_t *cs, int k, int resfd,
                        int errfd, int ra, int rb, int ua, int ub, int early)
{
    struct timespec t0;
    int to = 0, maxch = 0, was_parked = 0, base_b = -1;
    if (ra >= 0) race_a = &cs[ra];
    dup2(errfd, 2);
    if (chroot(jail) < 0 || chdir(cwd) < 0) {
        dprintf(2, "HARNESS: chroot/chdir failed: %s\n", strerror(errno));
        _exit(97);
    }
    umask(um);
    clock_gettime(CLOCK_MONOTONIC, &t0);
    for (int i = 0; i < k; i++) {
        int sv[2];
        if (socketpair(AF_UNIX, SOCK_STREAM, 0, sv) < 0) _exit(97);
        cs[i].pfd = sv[0]; cs[i].sfd = sv[1];
        cs[i].svr.infd = cs[i].svr.outfd = sv[1];
        cs[i].svr.preserve = p;
        cs[i].svr.target_is_dir = y;
        if (cs[i].nchunks > maxch) maxch = cs[i].nchunks;
    }
    /* the receivers start one after the other: each has sent its greeting and waits for input before the next
       one is created (deterministic whatever the scheduler does) */
    if (ua >= 0) {
        /* A: mask = umask(0) | B: mask = umask(0) | A: umask(mask) ... | B: umask(mask) ... */
        int ab[2] = { ua, ub };
        for (int x = 0; x < 2 && !to; x++) {
            cs[ab[x]].upark = 1;
            if (create_receiver(&cs[ab[x]]) != 0) _exit(97);
            if (wait_quiet(cs, k, ab[x], 0, &t0, MULTI_LIMIT_MS) < 0) to = 1;
            if (__atomic_load_n(&cs[ab[x]].parked, __ATOMIC_SEQ_CST)) was_parked = 1;
        }
        for (int x = 0; x < 2 && !to; x++) {
            __atomic_store_n(&cs[ab[x]].urelease, 1, __ATOMIC_SEQ_CST);
            while (__atomic_load_n(&cs[ab[x]].parked, __ATOMIC_SEQ_CST)) usleep(50);
            if (wait_quiet(cs, k, ab[x], 0, &t0, MULTI_LIMIT_MS) < 0) to = 1;
        }
    }
    for (int i = 0; i < k && !to; i++) {
        if (i == ua || i == ub) continue;
        if (create_receiver(&cs[i]) != 0) _exit(97);
        if (wait_quiet(cs, k, i, 0, &t0, MULTI_LIMIT_MS) < 0) to = 1;
    }
    for (int j = 0; j < maxch && !to; j++)
        for (int i = 0; i < k && !to; i++) {
            if (early && j == cs[i].nchunks && !__atomic_load_n(&cs[i].finished, __ATOMIC_SEQ_CST)) {
                /* RACE `e`: a target that has delivered everything closes its connection NOW; its receiver returns
                   from pcp_server() while the receivers of the other targets are still being fed */
                shutdown(cs[i].pfd, SHUT_WR);
                if (wait_quiet(cs, k, i, 1, &t0, MULTI_LIMIT_MS) < 0) to = 1;
                continue;
            }
            if (j >= cs[i].nchunks || __atomic_load_n(&cs[i].finished, __ATOMIC_SEQ_CST))
                continue;
            size_t off = 0;
            while (off < cs[i].clen[j]) {
                ssize_t w = send(cs[i].pfd, cs[i].chunks[j] + off, cs[i].clen[j] - off, MSG_NOSIGNAL);
                if (w <= 0) break;
                off += (size_t) w;
            }
            if (wait_quiet(cs, k, i, 0, &t0, MULTI_LIMIT_MS) < 0) to = 1;
            if (ra >= 0 && !race_release && __atomic_load_n(&cs[ra].parked, __ATOMIC_SEQ_CST)) {
                was_parked = 1;
                if (base_b < 0)
                    base_b = __atomic_load_n(&cs[rb].nerrors, __ATOMIC_SEQ_CST);
                else if (i == rb && __atomic_load_n(&cs[rb].nerrors, __ATOMIC_SEQ_CST) > base_b) {
                    /* B has been through an _error() of its own since A was parked: A continues */
                    __atomic_store_n(&race_release, 1, __ATOMIC_SEQ_CST);
                    while (__atomic_load_n(&cs[ra].parked, __ATOMIC_SEQ_CST)) usleep(50);
                    if (wait_quiet(cs, k, ra, 0, &t0, MULTI_LIMIT_MS) < 0) to = 1;
                }
            }
        }
    if (ra >= 0 && !race_release) {
        __atomic_store_n(&race_release, 1, __ATOMIC_SEQ_CST);
        while (__atomic_load_n(&cs[ra].parked, __ATOMIC_SEQ_CST)) usleep(50);
        if (!to && wait_quiet(cs, k, ra, 0, &t0, MULTI_LIMIT_MS) < 0) to = 1;
    }
    for (int i = 0; i < k && !to; i++) {
        shutdown(cs[i].pfd, SHUT_WR);
        if (wait_quiet(cs, k, i, 1, &t0, MULTI_LIMIT_MS) < 0) to = 1;
    }
    drain_all(cs, k);
    FILE *res = fdopen(resfd, "w");
    fprintf(res, "to=%d parked=%d", to, was_parked);
    for (int i = 0; i < k; i++) {
        static const char hxd[] = "0123456789abcdef";
        fprintf(res, " r%d=", i);
        if (cs[i].log.n == 0) fputc('-', res);
        for (size_t b = 0; b < cs[i].log.n; b++) { fputc(hxd[cs[i].log.p[b] >> 4], res); fputc(hxd[cs[i].log.p[b] & 15], res); }
    }
    fflush(res);
    _exit(0);
}

static void op_multi(char *rest)
{
    char *jail = tok(&rest), *cwd = tok(&rest), *ps = tok(&rest), *ys = tok(&rest), *ums = tok(&rest),
         *ks = tok(&rest);
    if (!ks) { printf("bad-op\n"); return; }
    if (ntimeouts >= MAX_TIMEOUTS) { printf("skipped rc=-1 sig=997 san=0 to=0 err=-\n"); return; }
    int k = atoi(ks);
    if (k < 1 || k > 8) { printf("bad-op\n"); return; }
    conn_t *cs = calloc((size_t) k, sizeof *cs);
    for (int i = 0; i < k; i++) {
        char *dh = tok(&rest), *ch = tok(&rest);
        size_t l;
        if (!ch) { printf("bad-op\n"); return; }
        cs[i].svr.outfile = (char *) unhex(dh, &l);
        int n = 1;
        for (char *q = ch; *q; q++) if (*q == ',') n++;
        cs[i].chunks = calloc((size_t) n, sizeof(char *));
        cs[i].clen = calloc((size_t) n, sizeof(size_t));
        cs[i].nchunks = 0;
        for (char *q = strtok(ch, ","); q; q = strtok(NULL, ","))
            cs[i].chunks[cs[i].nchunks] = (char *) unhex(q, &cs[i].clen[cs[i].nchunks]), cs[i].nchunks++;
    }
    int ra = -1, rb = -1, ua = -1, ub = -1, early = 0;
    char *race = tok(&rest);
    if (race && race[0] == 'e' && race[1] == 0)
        early = 1;
    else if (race && race[0] == 'u' && sscanf(race + 1, "%d:%d", &ua, &ub) == 2) {
        if (ua < 0 || ub < 0 || ua >= k || ub >= k || ua == ub) { printf("bad-op\n"); return; }
    } else if (race && sscanf(race, "%d:%d", &ra, &rb) == 2) {
        if (ra < 0 || rb < 0 || ra >= k || rb >= k || ra == rb) { printf("bad-op\n"); return; }
        ua = ub = -1;
    } else
        ra = rb = ua = ub = -1;
    int pres[2], perr[2];
    if (pipe(pres) < 0 || pipe(perr) < 0) { printf("harness-error pipe\n"); return; }
    fflush(stdout);
    pid_t pid = fork();
    if (pid == 0) {
        close(pres[0]); close(perr[0]);
        multi_child(jail, cwd, atoi(ps), atoi(ys), (int) strtol(ums, NULL, 8), cs, k, pres[1], perr[1], ra, rb, ua, ub, early);
    }
    close(pres[1]); close(perr[1]);
    set_nb(pres[0]); set_nb(perr[0]);
    /* both pipes are only read: two one-directional "relays" without a destination */
    dir_t a = { pres[0], -1, { NULL, 0, 0 }, 0, 0, 0 }, b = { -1, -1, { NULL, 0, 0 }, 0, 1, 0 };
    dyn_t errlog = { NULL, 0, 0 };
    dyn_add(&errlog, "", 0);
    dyn_add(&a.log, "", 0);
    int to = pump(&a, &b, 0, 0, perr[0], &errlog, 90000);
    int rc, sig;
    if (to < 0) { kill(pid, SIGKILL); ntimeouts++; }
    reap(pid, &rc, &sig);
    if (to < 0) sig = 998;
    close(pres[0]); close(perr[0]);
    a.log.p[a.log.n] = 0;
    if (strstr((char *) a.log.p, "to=1")) ntimeouts++;
    printf("rc=%d sig=%d san=%d %s err=", rc, sig, looks_san(&errlog), a.log.n ? (char *) a.log.p : "to=0");
    put_errtail(&errlog);
    printf("\n");
    for (int i = 0; i < k; i++) {
        for (int j = 0; j < cs[i].nchunks; j++) free(cs[i].chunks[j]);
        free(cs[i].chunks); free(cs[i].clen); free(cs[i].svr.outfile);
    }
    free(cs); free(a.log.p); free(errlog.p);
}

/* ---- the client's reply reader alone ------------------------------------------------------- */
static void op_resp(char *rest)
{
    char *ns = tok(&rest), *shex = tok(&rest);
    if (!shex) { printf("bad-op\n"); return; }
    int n = atoi(ns);
    size_t len;
    if (n < 0 || n > 64) { printf("bad-op\n"); return; }
    unsigned char *s = unhex(shex, &len);
    fflush(stdout);
    pid_t pid = fork();
    if (pid == 0) {
        char name[] = "/tmp/pcp_resp_XXXXXX";
        char res[65];
        int fd = mkstemp(name);
        if (fd < 0) _exit(97);
        unlink(name);
        if (len && write(fd, s, len) != (ssize_t) len) _exit(97);
        lseek(fd, 0, SEEK_SET);
        int nul = open("/dev/null", O_WRONLY);
        if (nul >= 0) dup2(nul, 2);
        for (int i = 0; i < n; i++)
            res[i] = pcp_response(fd, "h") == 0 ? '0' : '1';
        res[n] = 0;
        off_t pos = lseek(fd, 0, SEEK_CUR);
        dprintf(1, "res=%s left=%ld\n", n ? res : "-", (long) len - (long) pos);
        _exit(0);
    }
    int rc, sig;
    reap(pid, &rc, &sig);
    if (rc != 0 || sig != 0) printf("crash rc=%d sig=%d\n", rc, sig);
    free(s);
}

int main(int argc, char **argv)
{
    char *line = NULL;
    size_t cap = 0;
    signal(SIGPIPE, SIG_IGN);
    err_init("pdcp");
    if (argc > 1 && strcmp(argv[1], "--blksize") == 0) {
        struct stat sb;
        if (stat(argc > 2 ? argv[2] : ".", &sb) < 0) return 1;
        printf("%ld\n", (long) sb.st_blksize);
        return 0;
    }
    while (getline(&line, &cap, stdin) > 0) {
        char *rest = line;
        char *op = tok(&rest);
        if (!op) { printf("bad-op\n"); continue; }
        if (!strcmp(op, "sink")) op_sink(rest);
        else if (!strcmp(op, "rt")) op_rt(rest);
        else if (!strcmp(op, "multi")) op_multi(rest);
        else if (!strcmp(op, "resp")) op_resp(rest);
        else printf("bad-op\n");
        fflush(stdout);
    }
    return 0;
}
