/* relay_writer.c -- the "remote command" of the real-process relay runs (checks C05/C06).
 *
 *   relay_writer DIR HOST
 *
 * reads DIR/HOST.out and DIR/HOST.err (payloads) and DIR/HOST.plan, a list of lines
 *   o N USEC     write the next N bytes of the stdout payload with ONE write(2), then sleep USEC
 *   e N USEC     same for stderr
 *   U USEC       make the command itself (argv[0]) vanish for USEC microseconds: rename it away now, a
 *                detached grandchild renames it back later -- execvp() fails with ENOENT for the targets pdsh
 *                starts in between (the transport's child fails BEFORE exec)
 *   X USEC       same, by taking away the execute permission (EACCES)
 *   C FD USEC    close descriptor FD (1 = stdout, 2 = stderr) now -- pdsh sees that stream end while the other
 *                one goes on -- then sleep USEC
 * and finally exits with the status given by an optional line `x STATUS`.
 * It leaves DIR/HOST.ran behind: a target without that file never got its command started.
 * pdsh -R exec runs it once per target with %h substituted.
 */
#include <stdio.h>
#include <stdlib.h>
#include <string.h>
#include <unistd.h>
#include <errno.h>
#include <fcntl.h>
#include <sys/stat.h>

static unsigned char *slurp(const char *dir, const char *host, const char *ext, size_t *len)
{
    char path[4096];
    FILE *f;
    unsigned char *b;
    long n;
    snprintf(path, sizeof path, "%s/%s.%s", dir, host, ext);
    f = fopen(path, "rb");
    *len = 0;
    if (!f)
        return NULL;
    fseek(f, 0, SEEK_END);
    n = ftell(f);
    fseek(f, 0, SEEK_SET);
    b = malloc(n + 1);
    if (n > 0 && fread(b, 1, n, f) != (size_t) n)
        exit(97);
    fclose(f);
    *len = n;
    return b;
}

static void write_all(int fd, const unsigned char *b, size_t n)
{
    while (n > 0) {
        ssize_t w = write(fd, b, n);
        if (w < 0) {
            if (errno == EINTR)
                continue;
            exit(98);
        }
        b += w;
        n -= w;
    }
}

/* take the command away now, give it back after `us` microseconds (from a detached process that holds none
 * of our descriptors, so that pdsh sees our streams end when we exit) */
static void vanish(const char *self, int how, long us)
{
    char off[4200], me[4096];
    pid_t pid;
    ssize_t l = readlink("/proc/self/exe", me, sizeof me - 1);   /* argv[0] may be a bare name */
    if (l > 0) { me[l] = 0; self = me; }
    snprintf(off, sizeof off, "%s.off", self);
    if (how == 'U') {
        if (rename(self, off) < 0) return;
    } else if (chmod(self, 0644) < 0)
        return;
    pid = fork();
    if (pid == 0) {
        int fd;
        setsid();
        for (fd = 0; fd < 256; fd++)
            close(fd);
        usleep(us);
        if (how == 'U') rename(off, self); else chmod(self, 0755);
        _exit(0);
    }
}

int main(int argc, char **argv)
{
    size_t olen, elen, plen, opos = 0, epos = 0;
    unsigned char *o, *e;
    char *plan, *line, *save = NULL;
    int status = 0;

    if (argc != 3)
        return 96;
    o = slurp(argv[1], argv[2], "out", &olen);
    e = slurp(argv[1], argv[2], "err", &elen);
    plan = (char *) slurp(argv[1], argv[2], "plan", &plen);
    if (!plan)
        return 95;
    plan[plen] = 0;
    {
        char mark[4096];
        int fd;
        snprintf(mark, sizeof mark, "%s/%s.ran", argv[1], argv[2]);
        fd = open(mark, O_WRONLY | O_CREAT, 0644);
        if (fd >= 0) close(fd);
    }
    for (line = strtok_r(plan, "\n", &save); line; line = strtok_r(NULL, "\n", &save)) {
        char k;
        long n = 0, us = 0;
        if (sscanf(line, "%c %ld %ld", &k, &n, &us) < 2)
            continue;
        if (k == 'o') {
            if (opos + n > olen) n = olen - opos;
            write_all(1, o + opos, n);
            opos += n;
        } else if (k == 'e') {
            if (epos + n > elen) n = elen - epos;
            write_all(2, e + epos, n);
            epos += n;
        } else if (k == 'C') {
            close((int) n);
        } else if (k == 'x') {
            status = (int) n;
        } else if (k == 'U' || k == 'X') {
            vanish(argv[0], k, n);
            continue;
        }
        if (us > 0)
            usleep(us);
    }
    return status;
}
