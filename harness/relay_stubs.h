/* relay_stubs.h -- link-time stubs for the externals of the unmodified src/pdsh/dsh.c that the
 * relay harness / relay constants probe never reach (transport modules, pcp, host lists, poll).
 * To be included AFTER "src/pdsh/dsh.c" (it uses the types dsh.c's headers declare).
 * Every stub aborts: reaching one means the harness drove dsh.c outside the relay path.
 * The one exception is rcmd_create(), which _thd_init() calls: it hands out a blank rcmd_info
 * whose fd/efd the harness then points at its scripted pipes.
 */
#ifndef RELAY_STUBS_H
#define RELAY_STUBS_H

#include <stdlib.h>

#define RELAY_STUB_ABORT(name) do { static const char m[] = "relay stub reached: " name "\n"; \
        (void) !write(2, m, sizeof(m) - 1); abort(); } while (0)

int hostlist_count(hostlist_t hl) { RELAY_STUB_ABORT("hostlist_count"); return 0; }
hostlist_iterator_t hostlist_iterator_create(hostlist_t hl) { RELAY_STUB_ABORT("hostlist_iterator_create"); return NULL; }
void hostlist_iterator_destroy(hostlist_iterator_t i) { RELAY_STUB_ABORT("hostlist_iterator_destroy"); }
char *hostlist_next(hostlist_iterator_t i) { RELAY_STUB_ABORT("hostlist_next"); return NULL; }
int list_count(List l) { RELAY_STUB_ABORT("list_count"); return 0; }
ListIterator list_iterator_create(List l) { RELAY_STUB_ABORT("list_iterator_create"); return NULL; }
void list_iterator_destroy(ListIterator i) { RELAY_STUB_ABORT("list_iterator_destroy"); }
void *list_next(ListIterator i) { RELAY_STUB_ABORT("list_next"); return NULL; }
/* pcp_client / pcp_server: the relay harness' op `rcperr` drives the real _parallel_copy(); the copy protocol
 * itself (properties C11/C12) is replaced by its return value */
static int relay_pcp_rv_set, relay_pcp_rv;
int pcp_client(struct pcp_client *cli) { if (relay_pcp_rv_set) return relay_pcp_rv; RELAY_STUB_ABORT("pcp_client"); return 0; }
List pcp_expand_dirs(List l) { RELAY_STUB_ABORT("pcp_expand_dirs"); return NULL; }
int pcp_server(struct pcp_server *s) { if (relay_pcp_rv_set) return relay_pcp_rv; RELAY_STUB_ABORT("pcp_server"); return 0; }
pers_t pdsh_personality(void) { RELAY_STUB_ABORT("pdsh_personality"); return DSH; }
int rcmd_connect(struct rcmd_info *rcmd, char *host, char *addr, char *locuser, char *remuser,
                 char *cmd, int nodeid, bool err) { RELAY_STUB_ABORT("rcmd_connect"); return -1; }
int rcmd_destroy(struct rcmd_info *r) { RELAY_STUB_ABORT("rcmd_destroy"); return 0; }
int rcmd_init(opt_t *opt) { RELAY_STUB_ABORT("rcmd_init"); return -1; }
int rcmd_signal(struct rcmd_info *r, int signum) { RELAY_STUB_ABORT("rcmd_signal"); return -1; }
#ifndef RELAY_REAL_XPOLL     /* relay_harness.c links the real src/common/xpoll.c (op `xp`) */
int xpoll(struct xpollfd *xfds, int nfds, int timeout) { RELAY_STUB_ABORT("xpoll"); return -1; }
#endif

struct rcmd_info *rcmd_create(char *host)
{
    static struct rcmd_options no_options;     /* resolve_hosts = false: _thd_init skips _gethost */
    struct rcmd_info *r = calloc(1, sizeof(*r));
    r->fd = -1;
    r->efd = -1;
    r->opts = &no_options;
    return r;
}

#endif
