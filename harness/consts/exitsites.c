/* consts/exitsites.c -- every place where src/pdsh/opt.c and src/pdsh/main.c END THE PROCESS (property C08, clause
 * "exits ... 1 when it refuses its arguments"; property C18 "rejected ... with a non-zero exit"), tied to the model.
 *
 * The probe compiles the opt.c and main.c of the tree under test into itself with `errx (...)` and `exit (...)`
 * redefined so that every CALL SITE gets a number (__COUNTER__) and reports itself before it ends the process; stubs
 * stand for the module / rcmd / dsh layer (switchable: module loading fails, a module's wcoll reader fails, a
 * module's post-option check fails, an unknown transport).  It then runs a BATTERY of command lines / environments
 * through the real main() of the tree, each in a forked child, each designed to end at one refusal (or information
 * exit), and records which site ended it and the exit status.
 *
 *   XS_TOTAL      number of errx / exit call sites in opt.c + main.c
 *   XS_BATTERY    (entry, the model's outcome the entry stands for [a constructor name of Dsh/ExitRefuse.lean: Refusal
 *                 or Info], "function:kind" of the site that ended the child | "return" | "started", exit status)
 *   XS_UNREACHED  sites no battery entry reaches and that are not in the list of sites only a failing system call
 *                 reaches (XS_SYSFAIL): a NEW exit path shows up here, and `C08.exit_sites_all_mapped` (= []) breaks
 *   XS_SYSFAIL    the sites listed as reachable only through a failing system call / after the run (fork, getcwd, ...)
 * Which site ended a child is BEHAVIOUR (folding three call sites into a helper, renaming, re-ordering do not change the
 * verdict as long as every site is still reached by some entry); function names (from __func__, registered per site in
 * a linker section) matter only for the sites that are never executed.
 */
#define _GNU_SOURCE
#include "src/common/xmalloc.c"
#include "src/common/xstring.c"
#include "src/common/err.c"
#include "src/common/list.c"
#define _next_tok split_next_tok
#define free_f split_free_f
#include "src/common/split.c"
#undef _next_tok
#undef free_f
#include "src/common/hostlist.c"
#include <sys/wait.h>
#include <sys/stat.h>
#include <sys/param.h>
#include <fcntl.h>
#include <signal.h>
#include <regex.h>
#include <pwd.h>
#include <ctype.h>
#include <getopt.h>

#include "src/common/err.h"
#include "src/pdsh/dsh.h"
#include "src/pdsh/opt.h"
#include "src/pdsh/mod.h"
#include "src/pdsh/rcmd.h"
#include "src/pdsh/wcoll.h"
#include "src/pdsh/pcp_client.h"
#include "src/pdsh/pcp_server.h"
#include "src/pdsh/privsep.h"

static int site_fd = -1;
static void site(int id, const char *fn, int line, const char *kind)
{
    char b[256];
    int n = snprintf(b, sizeof b, "%d %s %d %s\n", id, fn, line, kind);
    if (site_fd >= 0 && write(site_fd, b, (size_t) n) < 0) { }
}

/* every call site registers itself in the linker section `xsites` (so the sites that are never executed are known
 * by function and kind too) and reports itself when it is executed */
struct xsite { int id; const char *fn; int line; const char *kind; };
#define SITE(kind_) ({ static const struct xsite __attribute__((section("xsites"), used)) xs_ = \
                           { __COUNTER__, __func__, __LINE__, kind_ }; site(xs_.id, xs_.fn, xs_.line, xs_.kind); })
#define errx(...) (SITE("errx"), errx(__VA_ARGS__))
#define exit(c)   (SITE("exit"), exit(c))
#include "src/pdsh/opt.c"
#define main pdsh_main
#include "src/pdsh/main.c"
#undef main
#undef errx
#undef exit

/* ---- stubs for the layers opt.c / main.c talk to (switches through the environment of the child) ---- */
const char *pdsh_module_dir = "/nonexistent";
char *pdsh_version = "probe";
int privsep_init(void) { return 0; }
int privsep_fini(void) { return 0; }
int mod_init(void) { return 0; }
int mod_exit(void) { return 0; }
int mod_load_modules(const char *dir, opt_t *o) { return getenv("XS_NOMOD") ? -1 : 0; }
void mod_list_module_info(void) { }
int mod_process_opt(opt_t *o, int c, char *arg) { return -1; }
int mod_read_wcoll(opt_t *o) { return getenv("XS_MODWCOLL") ? -1 : 0; }
int mod_postop(opt_t *o) { return getenv("XS_POSTOP") ? 1 : 0; }
int mod_count(char *type) { return 0; }
List mod_get_module_names(char *type) { return list_create(NULL); }
List mod_get_uninitialized_module_names(char *type) { return list_create(NULL); }
void mod_print_all_options(int column) { }
int rcmd_register_defaults(char *hosts, char *rcmd_type, char *user)
{
    return (rcmd_type && !strcmp(rcmd_type, "nosuch")) ? -1 : 0;
}
int rcmd_register_default_rcmd(char *rcmd_name) { return !strcmp(rcmd_name, "nosuch") ? -1 : 0; }
char *rcmd_get_default_module(void) { return "probe-default"; }
int rcmd_exit(void) { return 0; }
hostlist_t read_wcoll(char *f, FILE *fp) { return (f && !strcmp(f, "/nonexistent")) ? NULL : hostlist_create("probehost"); }
void testcase(int n) { _exit(0); }
int dsh(opt_t *o) { site(-1, "dsh", 0, "started"); return 0; }
int pcp_server(struct pcp_server *s) { site(-1, "pcp_server", 0, "started"); return 0; }
List pcp_expand_dirs(List l) { return l; }
int pcp_client(struct pcp_client *c) { site(-1, "pcp_client", 0, "started"); return 0; }

/* ---- the battery ---- */
struct entry {
    const char *name, *model, *prog;
    const char *env;            /* "NAME=value" or NULL */
    const char *argv[8];
};
static char big[5001];
static char bigat[5010];
static char manyranges[80000];   /* a[1-2]b[0,2,4,...]: more than 10240 ranges in the part only wcoll_expand parses */

static struct entry battery[] = {
    { "env-fanout", "envNumber", "pdsh", "FANOUT=x", { "-w", "h", "cmd" } },
    { "env-connect-timeout", "envNumber", "pdsh", "PDSH_CONNECT_TIMEOUT=7x", { "-w", "h", "cmd" } },
    { "env-command-timeout", "envNumber", "pdcp", "PDSH_COMMAND_TIMEOUT=", { "-w", "h", "a", "b" } },
    { "opt-fanout", "optNumber", "pdsh", NULL, { "-w", "h", "-f", "x", "cmd" } },
    { "opt-connect-timeout", "optNumber", "pdsh", NULL, { "-w", "h", "-t", "1x", "cmd" } },
    { "opt-command-timeout", "optNumber", "pdsh", NULL, { "-w", "h", "-u", "", "cmd" } },
    { "user-too-long", "userTooLong", "pdsh", NULL, { "-w", "h", "-l", big, "cmd" } },
    { "target-user-too-long", "userTooLong", "pdsh", NULL, { "-w", bigat, "cmd" } },
    { "usage-asked", "usage", "pdsh", NULL, { "-w", "h", "-h" } },
    { "usage-unknown-option", "usage", "pdsh", NULL, { "-w", "h", "-J", "cmd" } },
    { "usage-missing-argument", "usage", "pdsh", NULL, { "-w", "h", "-f" } },
    { "usage-other-personality", "usage", "pdsh", NULL, { "-w", "h", "-e", "/x", "cmd" } },
    { "stdin-taken-no-command", "promptLoop", "pdsh", NULL, { "-w", "-" } },   /* nothing sets stdin_unavailable */
    { "hostspec-malformed", "hostSpec", "pdsh", NULL, { "-w", "bob@rsh:h", "cmd" } },
    { "hostspec-unknown-transport", "hostSpec", "pdsh", NULL, { "-w", "nosuch:h", "cmd" } },
    { "hostspec-unparsable", "hostSpec", "pdsh", NULL, { "-w", "a[1-2]b]", "cmd" } },          /* hostlist_push fails: not dropped */
    { "hostspec-unparsable-after-expansion", "hostSpec", "pdsh", NULL, { "-w", manyranges, "cmd" } },   /* ... in wcoll_expand */
    { "wcoll-file-unreadable", "wcollFile", "pdsh", NULL, { "-w", "^/nonexistent", "cmd" } },
    { "unknown-transport", "unknownRcmd", "pdsh", NULL, { "-w", "h", "-R", "nosuch", "cmd" } },
    { "no-modules", "noModules", "pdsh", "XS_NOMOD=1", { "-w", "h", "cmd" } },
    { "module-wcoll-fails", "modReadWcoll", "pdsh", "XS_MODWCOLL=1", { "-w", "h", "cmd" } },
    { "program-name", "progName", "frobnicate", NULL, { "-w", "h", "cmd" } },
    { "verify-no-hosts", "verify", "pdsh", NULL, { "cmd" } },
    { "verify-negative-connect-timeout", "verify", "pdsh", NULL, { "-w", "h", "-t", "-1", "cmd" } },
    { "verify-negative-command-timeout", "verify", "pdsh", NULL, { "-w", "h", "-u", "-1", "cmd" } },
    { "verify-fanout-zero", "verify", "pdsh", NULL, { "-w", "h", "-f", "0", "cmd" } },
    { "verify-module-postop", "verify", "pdsh", "XS_POSTOP=1", { "-w", "h", "cmd" } },
    { "verify-copy-without-files", "verify", "pdcp", NULL, { "-w", "h" } },
    { "verify-copy-y", "verify", "pdcp", NULL, { "-w", "h", "-y", "/etc/passwd", "/tmp" } },
    { "verify-copy-missing-source", "verify", "pdcp", NULL, { "-w", "h", "/nonexistent/file", "/tmp" } },
    { "verify-copy-directory-without-r", "verify", "pdcp", NULL, { "-w", "h", "/etc", "/tmp" } },
    { "verify-reverse-dest-not-directory", "verify", "rpdcp", NULL, { "-w", "h", "x", "/etc/passwd" } },
    { "verify-server-and-client", "verify", "pdcp", NULL, { "-z", "-Z", "x" } },
    { "verify-server-with-sources", "verify", "pdcp", NULL, { "-z", "a", "b" } },
    { "verify-client-without-host", "verify", "pdcp", NULL, { "-Z" } },
    { "info-modules", "listModules", "pdsh", NULL, { "-L" } },
    { "info-version", "version", "pdsh", NULL, { "-V" } },
    { "info-settings", "settings", "pdsh", NULL, { "-w", "h", "-q", "cmd" } },
    { "run-command", "started", "pdsh", NULL, { "-w", "h", "cmd" } },
    { "run-copy", "started", "pdcp", NULL, { "-w", "h", "/etc/passwd", "/tmp" } },
    { "run-prompt-loop", "promptLoop", "pdsh", NULL, { "-w", "h" } },
};
#define NBATTERY ((int) (sizeof battery / sizeof battery[0]))

/* sites reachable only through a failing system call, or only after a run was started (children of the prompt loop):
 * "function:kind:ordinal of that kind within the function" */
static const char *sysfail[] = {
    "_find_path:errx:1", "_find_path:errx:2",       /* getcwd failed, no PATH */
    "opt_default:errx:2",                           /* getpwuid: who are you? */
    "list_push_hostlist:errx:1",                    /* exclusion list longer than SIZE_MAX / 2 */
    "wcoll_arg_process:errx:2",                     /* regex_info_create: out of memory */
    "_interactive_dsh:errx:1", "_interactive_dsh:exit:1", "_interactive_dsh:errx:2", "_interactive_dsh:exit:2",
    "_shell:errx:1", "_shell:errx:2", "_shell:exit:1",
    NULL
};

struct siteinfo { char fn[64]; char kind[8]; int ord; int reached; int named; };
static struct siteinfo sites[256];

extern const struct xsite __start_xsites[], __stop_xsites[];

/* the table of all sites, from the linker section; `ord` = ordinal of that kind within its function */
static void name_sites(void)
{
    const struct xsite *x;
    int i, j;
    for (x = __start_xsites; x < __stop_xsites; x++) {
        if (x->id < 0 || x->id >= 256) continue;
        snprintf(sites[x->id].fn, sizeof sites[x->id].fn, "%s", x->fn);
        snprintf(sites[x->id].kind, sizeof sites[x->id].kind, "%s", x->kind);
        sites[x->id].named = 1;
    }
    for (i = 0; i < 256; i++) {
        if (!sites[i].named) continue;
        sites[i].ord = 1;
        for (j = 0; j < i; j++)
            if (sites[j].named && !strcmp(sites[j].fn, sites[i].fn) && !strcmp(sites[j].kind, sites[i].kind))
                sites[i].ord++;
    }
}

struct outcome { int status; char site[128]; int id; };

static void run_entry(struct entry *e, struct outcome *o)
{
    int pfd[2], st = 0;
    pid_t pid;
    char buf[8192];
    int len = 0, r;
    if (pipe(pfd) < 0) _exit(1);
    fflush(NULL);
    if ((pid = fork()) == 0) {
        char *argv[12];
        int argc = 0, i, nul = open("/dev/null", O_RDWR), rc;
        close(pfd[0]);
        dup2(nul, 0); dup2(nul, 1); dup2(nul, 2);
        site_fd = pfd[1];
        clearenv();
        setenv("PATH", "/usr/bin:/bin", 1);
        if (e->env) putenv(strdup(e->env));
        argv[argc++] = (char *) e->prog;
        for (i = 0; i < 8 && e->argv[i]; i++) argv[argc++] = (char *) e->argv[i];
        argv[argc] = NULL;
        optind = 1;
        rc = pdsh_main(argc, argv);
        site(-2, "main", 0, "return");
        _exit(rc & 0xff);
    }
    close(pfd[1]);
    while ((r = (int) read(pfd[0], buf + len, sizeof buf - 1 - len)) > 0) len += r;
    close(pfd[0]);
    buf[len] = 0;
    waitpid(pid, &st, 0);
    o->status = WIFEXITED(st) ? WEXITSTATUS(st) : 128 + WTERMSIG(st);
    o->id = -3;
    snprintf(o->site, sizeof o->site, "none");
    {   /* every site that was passed is reached; the LAST line says what ended the child */
        char *line = buf, *nl;
        int started = 0;
        while ((nl = strchr(line, '\n'))) {
            int id, ln;
            char fn[64], kind[16];
            *nl = 0;
            if (sscanf(line, "%d %63s %d %15s", &id, fn, &ln, kind) == 4) {
                if (id >= 0 && id < 256) {
                    sites[id].reached = 1;
                    if (!sites[id].named) { snprintf(sites[id].fn, sizeof sites[id].fn, "%s", fn); snprintf(sites[id].kind, sizeof sites[id].kind, "%s", kind); }
                }
                if (id == -1) started = 1;
                o->id = id;
                if (id == -2) snprintf(o->site, sizeof o->site, "%s", started ? "started" : "return");
                else if (id == -1) snprintf(o->site, sizeof o->site, "started");
                else snprintf(o->site, sizeof o->site, "%s:%s", fn, kind);
            }
            line = nl + 1;
        }
    }
}

int main(void)
{
    int i, first = 1;
    struct outcome out[NBATTERY];
    memset(big, 'u', sizeof big - 1);
    memset(bigat, 'u', 5000); strcpy(bigat + 5000, "@h");
    { int i; char *q = manyranges; q += sprintf(q, "a[1-2]b[0"); for (i = 1; i < 10300; i++) q += sprintf(q, ",%d", 2 * i); strcpy(q, "]"); }
    name_sites();
    for (i = 0; i < NBATTERY; i++) run_entry(&battery[i], &out[i]);
    printf("def XS_TOTAL : Nat := %d\n", (int) (__stop_xsites - __start_xsites));
    printf("def XS_BATTERY : List (String × String × String × Nat) := [");
    for (i = 0; i < NBATTERY; i++)
        printf("%s(\"%s\", \"%s\", \"%s\", %d)", i ? ", " : "", battery[i].name, battery[i].model, out[i].site, out[i].status);
    printf("]\n");
    printf("def XS_UNREACHED : List String := [");
    for (i = 0; i < 256; i++) {
        char key[160];
        int j, allowed = 0;
        if (sites[i].reached || !sites[i].named) continue;
        if (sites[i].named) snprintf(key, sizeof key, "%s:%s:%d", sites[i].fn, sites[i].kind, sites[i].ord);
        else snprintf(key, sizeof key, "site#%d", i);
        for (j = 0; sysfail[j]; j++) if (!strcmp(sysfail[j], key)) allowed = 1;
        if (allowed) continue;
        printf("%s\"%s\"", first ? "" : ", ", key);
        first = 0;
    }
    printf("]\n");
    printf("def XS_SYSFAIL : List String := [");
    for (i = 0; sysfail[i]; i++) printf("%s\"%s\"", i ? ", " : "", sysfail[i]);
    printf("]\n");
    return 0;
}
