/* consts/hostlist.c -- compiled against /repo's CURRENT working tree on every run.
 *
 * Built once per section (-DPROBE_xxx); each section #includes the real
 * source file / headers so that the C compiler evaluates the macros the
 * Lean models depend on, and prints Lean definitions for Gen/Consts.lean.
 */
#define _GNU_SOURCE
#include <stdio.h>
#include <string.h>

static void lean_str(const char *name, const char *s)
{
    printf("def %s : String := \"", name);
    for (; *s; s++) {
        if (*s == '"' || *s == '\\') printf("\\%c", *s);
        else printf("%c", *s);
    }
    printf("\"\n");
}
#define LEAN_NAT(name, v) printf("def %s : Nat := %lu\n", name, (unsigned long)(v))

#include "src/common/hostlist.c"
void lsd_fatal_error(char *f, int l, char *m) { (void)f; (void)l; (void)m; }
#ifdef WITH_LSD_NOMEM_ERROR_FUNC
void *lsd_nomem_error(char *f, int l, char *m) { (void)f; (void)l; (void)m; return 0; }
#endif
int main(void)
{
    LEAN_NAT("MAX_RANGE", MAX_RANGE);
    LEAN_NAT("MAX_RANGES", MAX_RANGES);
    LEAN_NAT("MAX_HOST_SUFFIX", (MAX_HOST_SUFFIX));
    LEAN_NAT("MAXHOSTRANGELEN", MAXHOSTRANGELEN);
    LEAN_NAT("HOSTLIST_CHUNK", HOSTLIST_CHUNK);
#ifdef WANT_RECKLESS_HOSTRANGE_EXPANSION
    LEAN_NAT("RECKLESS_HOSTRANGE", WANT_RECKLESS_HOSTRANGE_EXPANSION);
#else
    LEAN_NAT("RECKLESS_HOSTRANGE", 0);
#endif
    {
        struct hostlist_iterator it;
        LEAN_NAT("ITER_SUFFIX_BUF", 0); /* placeholder kept for layout stability */
        (void) it;
    }
    return 0;
}
