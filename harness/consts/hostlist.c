/* consts/hostlist.c -- compiled against /repo's CURRENT working tree on every run.
 *
 * #includes the real src/common/hostlist.c so that the C compiler evaluates the macros the Lean
 * models depend on, and RUNS small behavioural probes of the real code that tell which variant of
 * each recorded defect the source carries (FIX_Dnn : Bool).  The model is parametrised by these
 * switches (Hostlist/Basic.lean `Cfg`, Hostlist/Probed.lean `Cfg.probed`): nothing is edited when
 * a repair is committed to /repo, the next run simply models the repaired variant.
 * Every probe runs in a forked child (some of the unrepaired variants are undefined behaviour);
 * a probe whose sub-tests disagree makes this program fail (the run is then reported as broken).
 */
#define _GNU_SOURCE
#include <stdio.h>
#include <string.h>
#include <stdlib.h>
#include <unistd.h>
#include <sys/wait.h>

static void lean_str(const char *name, const char *s)
{
    printf("def %s : String := \"", name);
    for (; *s; s++) {
        if (*s == '"' || *s == '\\') printf("\\%c", *s);
        else printf("%c", *s);
    }
    printf("\"\n");
}
#define LEAN_NAT(name, v) printf("def %s : Nat := %lu\n", name, (unsigned long)(v))

#include "src/common/hostlist.c"
void lsd_fatal_error(char *f, int l, char *m) { (void)f; (void)l; (void)m; }
#ifdef WITH_LSD_NOMEM_ERROR_FUNC
void *lsd_nomem_error(char *f, int l, char *m) { (void)f; (void)l; (void)m; return 0; }
#endif

/* ---- behavioural probes: each returns 1 (repaired behaviour), 0 (recorded defect), 2 (mixed) ---- */
static int refused(const char *expr)
{
    hostlist_t h = hostlist_create(expr);
    if (h) hostlist_destroy(h);
    return h == NULL;
}
static int all_or_none(int a, int n)
{
    return a == n ? 1 : a == 0 ? 0 : 2;
}
static char *first_next(const char *expr)
{
    hostlist_t h = hostlist_create(expr);
    hostlist_iterator_t it;
    if (!h) return NULL;
    it = hostlist_iterator_create(h);
    return hostlist_next(it);
}
static int p_ulongmax(void)     /* D15/D25: is a bound of 2^64-1 (and every clamped number) refused? */
{
    return all_or_none(refused("a[18446744073709551615]") + refused("a[0-99999999999999999999]")
                       + refused("a[99999999999999999999]") + refused("a[18446744073709551614-18446744073709551615]"), 4);
}
static int p_digits(void)       /* D16: must range bounds be digit strings? */
{
    return all_or_none(refused("a[1x-3]") + refused("a[+1-3]") + refused("a[ 1-3]") + refused("a[1-]")
                       + refused("a[1- 3]"), 5);
}
static int p_itersuffix(void)   /* D17: does hostlist_next print a number of 15 characters in full? */
{
    char *a = first_next("a[000000000000001]"), *b = first_next("a[100000000000000000-100000000000000001]");
    return all_or_none((a && !strcmp(a, "a000000000000001")) + (b && !strcmp(b, "a100000000000000000")), 2);
}
static int p_curtok(void)       /* D18: does a plain word of 1500 bytes come back intact? */
{
    char w[1501], *b;
    memset(w, 'x', 1500); w[1500] = 0;
    b = first_next(w);
    return b && !strcmp(b, w);
}
static int p_suffixbal(void)    /* D22: are stray brackets outside the first pair refused? */
{
    int r = all_or_none(refused("a[1]]") + refused("a][1]") + refused("a[1]b[") + refused("a[1]b[2]]"), 4);
    if (r == 1 && refused("a[1-2]-[0-1]"))
        return 2;
    return r;
}
static int p_hostbuf(void)      /* D23: is a name of more than 4095 bytes on the suffix path kept whole? */
{
    static char e[5000];
    char *a;
    strcpy(e, "a[1]");
    memset(e + 4, 'y', 4200); e[4204] = 0;
    a = first_next(e);
    return a && strlen(a) == 4202;
}
static int p_nth(void)          /* D24: does hostlist_nth print a name with a 90-byte prefix in full? */
{
    char e[128], *a;
    hostlist_t h;
    memset(e, 'p', 90); strcpy(e + 90, "[1-2]");
    h = hostlist_create(e);
    if (!h) return 2;
    a = hostlist_nth(h, 1);
    return a && strlen(a) == 91 && a[90] == '2';
}
static int p_removedepth(void)  /* D19: after removing a one-host record the iterator goes on with the NEXT record */
{
    hostlist_t h = hostlist_create("a[1-3],b,c");
    hostlist_iterator_t it;
    char *x;
    int k;
    if (!h) return 2;
    it = hostlist_iterator_create(h);
    for (k = 0; k < 4; k++) x = hostlist_next(it);      /* a1 a2 a3 b */
    if (!x || strcmp(x, "b")) return 2;
    hostlist_remove(it);
    x = hostlist_next(it);
    if (x && !strcmp(x, "c")) return 1;
    if (x && !strcmp(x, "a2")) return 0;
    return 2;
}
static int p_popiter(void)      /* D20: pop of the record an iterator stands on, then push: the new host is seen */
{
    hostlist_t h = hostlist_create("x,y");
    hostlist_iterator_t it;
    char *x;
    if (!h) return 2;
    it = hostlist_iterator_create(h);
    hostlist_next(it); hostlist_next(it);               /* x y */
    free(hostlist_pop(h));
    hostlist_push(h, "z");
    x = hostlist_next(it);
    return x && !strcmp(x, "z");
}
static int p_cmptrunc(void)     /* D26: uniq keeps records whose low bounds are 2^31 or more apart */
{
    hostlist_t h = hostlist_create("x[0-5],x[2147483653]");
    int n;
    if (!h) return 2;
    hostlist_uniq(h);
    n = hostlist_count(h);
    return n == 7 ? 1 : n == 1 ? 0 : 2;
}
static int p_deleteall(void)    /* D1: hostlist_delete erases every occurrence of a listed name */
{
    hostlist_t h = hostlist_create("foo[1-3],foo[2-4]");
    int n;
    if (!h) return 2;
    hostlist_delete(h, "foo[2-3]");
    n = hostlist_count(h);
    return n == 2 ? 1 : n == 4 ? 0 : 2;
}
static int p_endpush(void)      /* F16-ENDPUSH: an iterator with nothing left sees the hosts pushed afterwards */
{
    hostlist_t h = hostlist_create("a[1-2]");
    hostlist_iterator_t it;
    char *x;
    int ok = 0;
    if (!h) return 2;
    it = hostlist_iterator_create(h);
    hostlist_next(it); hostlist_next(it);
    if (hostlist_next(it)) return 2;
    hostlist_push(h, "a3");                             /* joins the last record */
    x = hostlist_next(it);
    ok += x && !strcmp(x, "a3");
    free(hostlist_pop(h));                              /* the host the iterator stands on */
    hostlist_push(h, "a3");
    x = hostlist_next(it);
    ok += x && !strcmp(x, "a3");
    if (hostlist_next(it)) return 2;
    hostlist_push(h, "z");                              /* a new record: read through NULL as found */
    x = hostlist_next(it);
    ok += x && !strcmp(x, "z");
    return all_or_none(ok, 3);
}
static int p_uniqreset(void)    /* F16-UNIQ-NORESET: uniq / sort of a one-record list reset the iterators as well */
{
    hostlist_t h = hostlist_create("a[1-4]");
    hostlist_iterator_t it;
    char *x;
    int ok = 0;
    if (!h) return 2;
    it = hostlist_iterator_create(h);
    hostlist_next(it);
    hostlist_uniq(h);
    x = hostlist_next(it);
    if (!x || (strcmp(x, "a1") && strcmp(x, "a2"))) return 2;
    ok += !strcmp(x, "a1");
    hostlist_sort(h);
    x = hostlist_next(it);
    if (!x) return 2;
    ok += !strcmp(x, "a1");
    return all_or_none(ok, 2);
}
static int p_iterdelete(void)   /* F16-DELETE-UNDER-ITERATOR / F16-MULTI: iterators follow a delete inside their record */
{
    hostlist_t h = hostlist_create("a[1-9]");
    hostlist_iterator_t i0, i1;
    char *x;
    int k, ok = 0;
    if (!h) return 2;
    i0 = hostlist_iterator_create(h);
    i1 = hostlist_iterator_create(h);
    for (k = 0; k < 3; k++) hostlist_next(i0);          /* a1 a2 a3 */
    for (k = 0; k < 6; k++) hostlist_next(i1);          /* a1 .. a6 */
    hostlist_remove(i0);                                /* a3: the record is split under i1 */
    x = hostlist_next(i1);
    ok += x && !strcmp(x, "a7");
    hostlist_next(i0);                                  /* a4 */
    hostlist_delete_nth(h, 2);                          /* a4: the record shrinks under i0 (and i1) */
    x = hostlist_next(i0);
    ok += x && !strcmp(x, "a5");
    hostlist_delete_host(h, "a6");                      /* a split under i1, by name */
    x = hostlist_next(i1);
    ok += x && !strcmp(x, "a8");
    return all_or_none(ok, 3);
}
/* run a probe in a child: a crash / hang of the child means "recorded defect" (0) */
static int probe(int (*f)(void))
{
    pid_t pid;
    int st = 0;
    fflush(stdout);
    pid = fork();
    if (pid == 0) {
        alarm(5);
        _exit(f());
    }
    if (pid < 0 || waitpid(pid, &st, 0) < 0) return 2;
    if (!WIFEXITED(st)) return 0;
    return WEXITSTATUS(st);
}
static int lean_bool(const char *name, int v)
{
    if (v != 0 && v != 1) {
        fprintf(stderr, "probe %s: the sub-tests disagree (%d)\n", name, v);
        return 1;
    }
    printf("def %s : Bool := %s\n", name, v ? "true" : "false");
    return 0;
}

int main(void)
{
    int bad = 0;
    (void) lean_str;
    LEAN_NAT("MAX_RANGE", MAX_RANGE);
    LEAN_NAT("MAX_RANGES", MAX_RANGES);
    LEAN_NAT("MAX_HOST_SUFFIX", (MAX_HOST_SUFFIX));
    LEAN_NAT("MAXHOSTRANGELEN", MAXHOSTRANGELEN);
    LEAN_NAT("HOSTLIST_CHUNK", HOSTLIST_CHUNK);
#ifdef WANT_RECKLESS_HOSTRANGE_EXPANSION
    LEAN_NAT("RECKLESS_HOSTRANGE", WANT_RECKLESS_HOSTRANGE_EXPANSION);
#else
    LEAN_NAT("RECKLESS_HOSTRANGE", 0);
#endif
    LEAN_NAT("ITER_SUFFIX_BUF", 0); /* placeholder kept for layout stability */
    bad |= lean_bool("FIX_D15_ULONGMAX", probe(p_ulongmax));
    bad |= lean_bool("FIX_D16_DIGITS", probe(p_digits));
    bad |= lean_bool("FIX_D17_ITERSUFFIX", probe(p_itersuffix));
    bad |= lean_bool("FIX_D18_CURTOK", probe(p_curtok));
    bad |= lean_bool("FIX_D22_SUFFIXBAL", probe(p_suffixbal));
    bad |= lean_bool("FIX_D23_HOSTBUF", probe(p_hostbuf));
    bad |= lean_bool("FIX_D24_NTH", probe(p_nth));
    bad |= lean_bool("FIX_D19_REMOVEDEPTH", probe(p_removedepth));
    bad |= lean_bool("FIX_D20_POPITER", probe(p_popiter));
    bad |= lean_bool("FIX_D26_CMPTRUNC", probe(p_cmptrunc));
    bad |= lean_bool("FIX_D1_DELETEALL", probe(p_deleteall));
    bad |= lean_bool("FIX_F16_ENDPUSH", probe(p_endpush));
    bad |= lean_bool("FIX_F16_UNIQRESET", probe(p_uniqreset));
    bad |= lean_bool("FIX_F16_ITERDELETE", probe(p_iterdelete));
    return bad;
}
