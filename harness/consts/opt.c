/* consts/opt.c -- compiled against /repo's CURRENT working tree on every run (vlib gen_consts).
 *
 * Constants of the option model (property C18) that the C compiler can evaluate from headers:
 * the rcmd module ranking (config.h RCMD_RANK_LIST, else the built-in list of rcmd.c).
 * DFLT_FANOUT / CONNECT_TIMEOUT / RC_* are in Gen/Dsh.lean (consts/dsh.c).
 * The getopt strings GEN_ARGS/DSH_ARGS/PCP_ARGS are macros private to opt.c (a file that cannot be
 * linked stand-alone); checks/c18.py compares them textually with the model's copy on every run.
 */
#define _GNU_SOURCE
#include <stdio.h>
#include <string.h>

#include "config.h"

static char *rcmd_rank[] =
#if defined(RCMD_RANK_LIST)
    { RCMD_RANK_LIST, NULL };
#else
    { "mrsh", "rsh", "ssh", "krb4", "qsh", "mqsh", "exec", "xcpu", NULL };
#endif

int main(void)
{
    int i;
    printf("def RCMD_RANK : List String := [");
    for (i = 0; rcmd_rank[i]; i++)
        printf("%s\"%s\"", i ? ", " : "", rcmd_rank[i]);
    printf("]\n");
    return 0;
}
