/* consts/relay.c -- compiled against /repo's CURRENT working tree on every run.
 *
 * Constants of the output relay in src/pdsh/dsh.c that are literals inside functions (not
 * macros) and therefore have to be read off the running code:
 *   RELAY_CBUF_MIN/MAX   the arguments of cbuf_create() in _thd_init()
 *   RELAY_SIZE_META_ASSERT  alloc - size of a cbuf in the build flavour with assertions
 *   RELAY_TAILBUF        1 + the size of the first piece _flush_output() writes of a rest that fills the whole
 *                        buffer (a tail is cut every RELAY_TAILBUF-1 bytes; sizeof(buf) in the shipped code)
 *   RELAY_TAIL_CALLS     number of out() calls _flush_output() spends on a short labelled tail:
 *                        2 = label and data separately (defect D6), 1 = one call (repaired form)
 *   RELAY_XRC_SKIPS_DIGIT  _extract_rc on "foo" RC_MAGIC "3\n": 1 = returns 0, the status is parsed
 *                        from one past its first digit when text precedes the marker (defect D9),
 *                        0 = returns 3 (repaired form: number read before the line is cut)
 *   RELAY_RC_EVERY_LINE  _flush_lines (read_rc) on RC_MAGIC "3\nmore\n": 1 = th->rc ends up 0, every
 *                        stdout line assigns th->rc (a later line resets the status), 0 = th->rc stays
 *                        3 (repaired form: only lines carrying the marker assign)
 *   RC_MAGIC_BYTES       RC_MAGIC as a byte list
 */
#define _GNU_SOURCE
#include "src/pdsh/dsh.c"
#include "src/common/err.c"
#include "src/pdsh/cbuf.c"
#include "src/common/xmalloc.c"
#include "src/common/xstring.c"
#include "src/common/fd.c"
#include "../relay_stubs.h"

#include <stdio.h>
#include <stdarg.h>
#include <fcntl.h>

#define LEAN_NAT(name, v) printf("def %s : Nat := %lu\n", name, (unsigned long)(v))

static int ncalls;
static size_t call_len[64];

static void recorder(const char *fmt, ...)
{
    va_list ap;
    size_t n = 0;
    va_start(ap, fmt);
    for (const char *p = fmt; *p; p++) {
        if (*p == '%' && (p[1] == 's' || p[1] == 'S')) {
            n += strlen(va_arg(ap, char *));
            p++;
        } else
            n++;
    }
    va_end(ap);
    if (ncalls < 64)
        call_len[ncalls] = n;
    ncalls++;
}

int main(void)
{
    opt_t opt;
    thd_t th[2];
    char *big;
    size_t bigsz;

    err_init("probe");
    memset(&opt, 0, sizeof(opt));
    memset(th, 0, sizeof(th));
    th[0].host = "h";
    t = th;                                    /* dsh.c's global thread array */
    _thd_init(&th[0], &opt, NULL, 0);
    LEAN_NAT("RELAY_CBUF_MIN", th[0].outbuf->minsize);
    LEAN_NAT("RELAY_CBUF_MAX", th[0].outbuf->maxsize);
    /* bookkeeping cells (alloc - size) of the OTHER build flavour of cbuf.c, the one with assertions
     * (cbuf_create: `alloc = minsize + 1; #ifndef NDEBUG alloc += 2 * CBUF_MAGIC_LEN`); this probe is
     * compiled like the shipped build (NDEBUG).  The checks compare it with what the assertion-enabled
     * harness reports (`--meta`). */
#ifndef CBUF_MAGIC_LEN
#define CBUF_MAGIC_LEN (sizeof(unsigned long))
#endif
    LEAN_NAT("RELAY_SIZE_META_ASSERT", (th[0].outbuf->alloc - th[0].outbuf->size) + 2 * CBUF_MAGIC_LEN);
    LEAN_NAT("RELAY_ERRBUF_SAME", th[0].errbuf->minsize == th[0].outbuf->minsize &&
                                  th[0].errbuf->maxsize == th[0].outbuf->maxsize);

    /* the longest unterminated rest a buffer can hold: the piece size of _flush_output is learnt from what it does
     * with it (8192-byte stack buffer: pieces of 8191; a buffer sized to the rest: one piece of everything) */
    bigsz = (size_t) th[0].outbuf->maxsize;
    big = malloc(bigsz);
    memset(big, 'x', bigsz);
    th[0].labels = false;
    cbuf_write(th[0].outbuf, big, (int) bigsz, NULL);
    ncalls = 0;
    _flush_output(th[0].outbuf, (out_f) recorder, &th[0]);
    LEAN_NAT("RELAY_TAILBUF", ncalls > 0 ? call_len[0] + 1 : 0);

    th[0].labels = true;
    cbuf_write(th[0].outbuf, "ab", 2, NULL);
    ncalls = 0;
    _flush_output(th[0].outbuf, (out_f) recorder, &th[0]);
    LEAN_NAT("RELAY_TAIL_CALLS", ncalls);

    {
        /* the zero-filled Malloc(n + 1) buffer _flush_lines hands to _extract_rc */
        static const char line[] = "foo" RC_MAGIC "3\n";
        char *buf = Malloc(sizeof(line));
        memcpy(buf, line, sizeof(line));
        LEAN_NAT("RELAY_XRC_SKIPS_DIGIT", _extract_rc(buf) == 3 ? 0 : 1);
        Free((void **) &buf);
    }
    {
        static const char two[] = RC_MAGIC "3\nmore\n";
        th[0].labels = false;
        th[0].rc = 0;
        /* through the handler (the entry point the harness uses too; _flush_lines' own signature is not
         * relied upon), its output -- out() on the real stdout -- sent to /dev/null */
        int p[2], save, nul = open("/dev/null", O_WRONLY);
        if (pipe(p) < 0 || nul < 0) return 1;
        if (write(p[1], two, sizeof(two) - 1) != (ssize_t) sizeof(two) - 1) return 1;
        close(p[1]);
        th[0].rcmd->fd = p[0];
        fflush(stdout);
        save = dup(1);
        dup2(nul, 1);
        while (_handle_rcmd_stdout(&th[0]) > 0)
            ;
        fflush(stdout);
        dup2(save, 1);
        close(save);
        close(nul);
        LEAN_NAT("RELAY_RC_EVERY_LINE", th[0].rc == 3 ? 0 : 1);
    }

    /* xpoll.h's interface bits, the kernel's poll(2) bits and the two errno values the poll loop of _rsh_thread
     * distinguishes (Relay/XPoll.lean: the model of xpoll.c's HAVE_POLL flavour and of one loop iteration) */
    LEAN_NAT("XP_XPOLLREAD", XPOLLREAD);
    LEAN_NAT("XP_XPOLLWRITE", XPOLLWRITE);
    LEAN_NAT("XP_XPOLLINVAL", XPOLLINVAL);
    LEAN_NAT("XP_XPOLLERR", XPOLLERR);
    LEAN_NAT("XP_POLLIN", POLLIN);
    LEAN_NAT("XP_POLLOUT", POLLOUT);
    LEAN_NAT("XP_POLLERR", POLLERR);
    LEAN_NAT("XP_POLLHUP", POLLHUP);
    LEAN_NAT("XP_POLLNVAL", POLLNVAL);
    LEAN_NAT("XP_EINTR", EINTR);
    LEAN_NAT("XP_EINVAL", EINVAL);

    printf("def RC_MAGIC_BYTES : List Nat := [");
    for (const char *p = RC_MAGIC; *p; p++)
        printf("%s%u", p == RC_MAGIC ? "" : ", ", (unsigned) (unsigned char) *p);
    printf("]\n");
    return 0;
}
