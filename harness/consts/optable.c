/* consts/optable.c -- the settings TABLE of src/pdsh/opt.c, read off the source text of the tree under test on
 * every run (property C18).  Nothing here is typed by hand: the probe scans
 *   - the #define lines of GEN_ARGS / DSH_ARGS / PCP_ARGS            -> OT_GEN_ARGS, OT_DSH_ARGS, OT_PCP_ARGS
 *   - opt_env():   every getenv ("NAME") and what is done with it     -> OT_ENVS  (variable, opt_t field, conversion)
 *   - opt_args():  every `case 'x':` of the switch and what it does   -> OT_OPTS  (letter,   opt_t field, conversion)
 * conversion = string_to_int | atoi | copy_username | strdup | flag | none (no opt_t field touched) | other.
 * The Lean side (Props/C18.lean, table theorems) must account for every row: a new option or variable in opt.c
 * changes the generated table and the theorems stop checking until the model covers it.
 * The tree is $VERIF_REPO or /repo (the same tree the probe was compiled against).
 */
#define _GNU_SOURCE
#include <ctype.h>
#include <stdio.h>
#include <stdlib.h>
#include <string.h>

static char *slurp(const char *path)
{
    FILE *f = fopen(path, "r");
    long n;
    char *b;
    if (!f) return NULL;
    fseek(f, 0, SEEK_END);
    n = ftell(f);
    fseek(f, 0, SEEK_SET);
    b = malloc(n + 1);
    if (fread(b, 1, n, f) != (size_t) n) return NULL;
    b[n] = 0;
    fclose(f);
    return b;
}

/* body of the function whose definition starts with `head` at the beginning of a line: up to "\n}\n" */
static char *body(const char *src, const char *head)
{
    const char *p = src, *e;
    char *b;
    for (;;) {
        p = strstr(p, head);
        if (!p) return NULL;
        if (p == src || p[-1] == '\n') break;
        p++;
    }
    e = strstr(p, "\n}\n");
    if (!e) return NULL;
    b = malloc(e - p + 1);
    memcpy(b, p, e - p);
    b[e - p] = 0;
    return b;
}

/* the opt_t field a code segment sets: the first `&opt->NAME` or `opt->NAME = ` (an assignment, not `==`);
 * failing that the first `opt->NAME` mentioned */
static void field_of(const char *seg, char *field, size_t max)
{
    const char *p, *best = NULL;
    size_t n = 0;
    field[0] = 0;
    for (p = seg; (p = strstr(p, "opt->")); p += 5) {
        const char *q = p + 5;
        while (isalnum((unsigned char) *q) || *q == '_') q++;
        while (*q == ' ') q++;
        if ((p > seg && p[-1] == '&') || (q[0] == '=' && q[1] != '=')) { best = p; break; }
    }
    if (!best) best = strstr(seg, "opt->");
    if (!best) return;
    best += 5;
    while ((isalnum((unsigned char) *best) || *best == '_') && n + 1 < max) field[n++] = *best++;
    field[n] = 0;
}

static const char *conv_of(const char *seg, const char *field)
{
    char assign_true[128], assign_false[128];
    snprintf(assign_true, sizeof assign_true, "opt->%s = true", field);
    snprintf(assign_false, sizeof assign_false, "opt->%s = false", field);
    if (!field[0]) return "none";
    if (strstr(seg, "string_to_int")) return "string_to_int";
    if (strstr(seg, "atoi")) return "atoi";
    if (strstr(seg, "copy_username")) return "copy_username";
    if (strstr(seg, "Strdup")) return "strdup";
    if (strstr(seg, assign_true) || strstr(seg, assign_false)) return "flag";
    return "other";
}

static void define_of(const char *src, const char *name, int last)
{
    char pat[64];
    const char *p = src, *hit = NULL;
    snprintf(pat, sizeof pat, "#define %s", name);
    while ((p = strstr(p, pat))) {
        const char *q = p + strlen(pat);
        if (*q == ' ' || *q == '\t') { hit = q; if (!last) break; }
        p++;
    }
    printf("def OT_%s : String := \"", name);
    if (hit) {
        const char *q = strchr(hit, '"');
        if (q) for (q++; *q && *q != '"'; q++) putchar(*q);
    }
    printf("\"\n");
}

/* every `case 'x':` of the switch in the function starting with `head` */
static int scan_switch(const char *src, const char *head, const char *name)
{
    char *b = body(src, head);
    const char *p;
    int first = 1;
    if (!b) { fprintf(stderr, "%s not found\n", head); exit(1); }
    printf("def %s : List (String × String × String) := [", name);
    for (p = b; (p = strstr(p, "case '")); ) {
        char letter = p[6];
        const char *start = p + 8, *next = strstr(start, "case '"), *dflt = strstr(start, "default:");
        const char *brk = strstr(start, "break;");
        const char *end = next;
        char field[128], *seg;
        if (dflt && (!end || dflt < end)) end = dflt;
        if (brk && (!end || brk < end)) end = brk;
        seg = strndup(start, end ? (size_t) (end - start) : strlen(start));
        field_of(seg, field, sizeof field);
        printf("%s(\"%c\", \"%s\", \"%s\")", first ? "" : ", ", letter, field, conv_of(seg, field));
        first = 0;
        free(seg);
        p = start;
    }
    printf("]\n");
    return 0;
}

int main(void)
{
    const char *repo = getenv("VERIF_REPO");
    char path[4096];
    char *src, *b;
    const char *p;
    int first;

    snprintf(path, sizeof path, "%s/src/pdsh/opt.c", repo && *repo ? repo : "/repo");
    if (!(src = slurp(path))) { fprintf(stderr, "cannot read %s\n", path); return 1; }

    define_of(src, "GEN_ARGS", 0);
    define_of(src, "DSH_ARGS", 1);      /* the #else branch (no HAVE_MAGIC_RSHELL_CLEANUP) */
    define_of(src, "PCP_ARGS", 0);

    /* ---- opt_env ---- */
    if (!(b = body(src, "void opt_env("))) { fprintf(stderr, "opt_env not found\n"); return 1; }
    printf("def OT_ENVS : List (String × String × String) := [");
    first = 1;
    for (p = b; (p = strstr(p, "getenv")); ) {
        const char *q = strchr(p, '"'), *e, *next;
        char var[128], field[128], *seg;
        size_t n;
        if (!q) break;
        e = strchr(q + 1, '"');
        if (!e) break;
        n = (size_t) (e - q - 1);
        if (n >= sizeof var) n = sizeof var - 1;
        memcpy(var, q + 1, n);
        var[n] = 0;
        next = strstr(e, "getenv");
        seg = strndup(e, next ? (size_t) (next - e) : strlen(e));
        field_of(seg, field, sizeof field);
        printf("%s(\"%s\", \"%s\", \"%s\")", first ? "" : ", ", var, field, conv_of(seg, field));
        first = 0;
        free(seg);
        p = e;
    }
    printf("]\n");

    /* the early switch: in opt_args_early, or in _early_scan once the proposed repair of findings/C18.patch is in */
    scan_switch(src, body(src, "static void _early_scan (") ? "static void _early_scan (" : "void opt_args_early (", "OT_EARLY");
    scan_switch(src, "void opt_args(", "OT_OPTS");

    /* ---- opt.h: the `int` members of opt_t (the numeric settings) ---- */
    {
        char hpath[4096];
        char *h, *t, *e;
        snprintf(hpath, sizeof hpath, "%s/src/pdsh/opt.h", repo && *repo ? repo : "/repo");
        if (!(h = slurp(hpath)) || !(t = strstr(h, "typedef struct {")) || !(e = strstr(t, "} opt_t;"))) {
            fprintf(stderr, "opt_t not found\n");
            return 1;
        }
        *e = 0;
        printf("def OT_INT_FIELDS : List String := [");
        first = 1;
        for (p = t; (p = strstr(p, "\n    int ")); ) {
            const char *q = p + 9;
            printf("%s\"", first ? "" : ", ");
            while (isalnum((unsigned char) *q) || *q == '_') putchar(*q++);
            printf("\"");
            first = 0;
            p = q;
        }
        printf("]\n");
    }
    return 0;
}
