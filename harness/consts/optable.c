/* consts/optable.c -- the settings TABLE of src/pdsh/opt.c, derived from its BEHAVIOUR on every run (property C18).
 *
 * The probe compiles the opt.c of the tree under test into itself (with the real src/common files it needs and
 * stubs for the module / rcmd / wcoll layer) and EXPERIMENTS with it; nothing is read off the text of opt.c, so a
 * refactoring of opt.c cannot change the table, and a new option or variable still shows up:
 *   - the option string:   the string opt_args hands to getopt (getopt is interposed) under the pdsh and the pdcp
 *                          personality; common prefix -> OT_GEN_ARGS, the rests -> OT_DSH_ARGS, OT_PCP_ARGS
 *   - OT_ENVS:             getenv is interposed: every NAME opt_env asks for is a candidate; the candidate is set to
 *                          the sentinel "7" and opt_env called: the opt_t members whose value changed give the rows
 *                          (variable, member, conversion)
 *   - OT_OPTS / OT_EARLY:  for every letter X of the option string, opt_args / opt_args_early is called on `-X` or
 *                          `-X 7`: the members that changed give the rows (letter, member, conversion); a letter that
 *                          changes nothing gives (letter, "", "none"); one that ends the program right there gives
 *                          (letter, "", "exit0") (-V -L -T) or (letter, "", "exit1") (-h, and letters of the option
 *                          string that no `case` handles: the probe has no modules, so no module-provided options)
 *   conversion = behaviour class of the member's new value:
 *        int member:    "7x" refused (exit != 0)  -> "string_to_int"  (exact or refused)
 *                       "7x" accepted as 7        -> "atoi"           (a prefix is enough)
 *        bool member:   "flag";   char * member whose new text IS the sentinel: "strdup", or "bounded_text" when
 *                       a text of 69999 characters is refused (exit != 0);   anything else: "other"
 *   - OT_INT_FIELDS:       the `int` members of opt_t.
 * Every experiment runs in a forked child (errx / exit end the child, not the probe).
 * Member NAMES can only come from the declaration of opt_t: opt.h is parsed for (type, name) of each member, the
 * offsets are computed by the C layout rule from sizeof/_Alignof of the types named, and the result is checked
 * against sizeof (opt_t); an unknown member type or a size mismatch fails the probe (P-BROKEN).
 * Rows are printed in sorted order.  The tree is $VERIF_REPO or /repo (the tree the probe is compiled against).
 */
#define _GNU_SOURCE
#define getopt probe_getopt
#define getenv probe_getenv
#include "src/common/xmalloc.c"
#include "src/common/xstring.c"
#include "src/common/err.c"
#include "src/common/list.c"
#define _next_tok split_next_tok
#define free_f split_free_f
#include "src/common/split.c"
#undef _next_tok
#undef free_f
#include "src/common/hostlist.c"
#include "src/pdsh/opt.c"
#undef getopt
#undef getenv
#include <sys/wait.h>
#include <fcntl.h>
#include <stddef.h>

extern int getopt(int, char *const *, const char *);
extern char *getenv(const char *);

/* ---- stubs for the layers opt.c talks to ---- */
void mod_list_module_info(void) { }
int mod_process_opt(opt_t *o, int c, char *arg) { return -1; }     /* no module, hence no module-provided option */
int mod_read_wcoll(opt_t *o) { return 0; }
int mod_postop(opt_t *o) { return 0; }
int mod_count(char *type) { return 0; }
List mod_get_module_names(char *type) { return list_create(NULL); }
List mod_get_uninitialized_module_names(char *type) { return list_create(NULL); }
void mod_print_all_options(int column) { }
int rcmd_register_defaults(char *hosts, char *rcmd_type, char *user) { return 0; }
int rcmd_register_default_rcmd(char *rcmd_name) { return 0; }
char *rcmd_get_default_module(void) { return "probe-default"; }
int rcmd_exit(void) { return 0; }
hostlist_t read_wcoll(char *f, FILE *fp) { return hostlist_create("probehost"); }
void testcase(int n) { exit(0); }      /* testcase.c: runs the built-in test, then exit (0) */
char *pdsh_version = "probe";

/* ---- interposition ---- */
static char seen_optstring[512];
static char seen_env[64][128];
static int n_seen_env, record_env;

int probe_getopt(int argc, char *const *argv, const char *s)
{
    if (!seen_optstring[0]) snprintf(seen_optstring, sizeof seen_optstring, "%s", s);
    return getopt(argc, argv, s);
}

char *probe_getenv(const char *name)
{
    if (record_env && n_seen_env < 64) {
        int i;
        for (i = 0; i < n_seen_env; i++) if (!strcmp(seen_env[i], name)) break;
        if (i == n_seen_env) snprintf(seen_env[n_seen_env++], 128, "%s", name);
    }
    return getenv(name);
}

/* ---- the members of opt_t ---- */
enum { K_INT, K_BOOL, K_STR, K_PTR, K_RAW };
static struct member { char name[64]; int kind; size_t off, size; } mem[128];
static int nmem;

static char *slurp(const char *path)
{
    FILE *f = fopen(path, "r");
    long n;
    char *b;
    if (!f) return NULL;
    fseek(f, 0, SEEK_END);
    n = ftell(f);
    fseek(f, 0, SEEK_SET);
    b = malloc(n + 1);
    if (fread(b, 1, n, f) != (size_t) n) return NULL;
    b[n] = 0;
    fclose(f);
    return b;
}

static int type_of(const char *type, int ptr, int *kind, size_t *size, size_t *align)
{
    if (ptr) {
        *kind = !strcmp(type, "char") ? K_STR : K_PTR;
        *size = sizeof(void *); *align = _Alignof(void *);
        return 0;
    }
#define T(n, k) if (!strcmp(type, #n)) { *kind = k; *size = sizeof(n); *align = _Alignof(n); return 0; }
    T(int, K_INT) T(bool, K_BOOL) T(uid_t, K_RAW) T(gid_t, K_RAW) T(pid_t, K_RAW) T(long, K_RAW) T(size_t, K_RAW)
    T(hostlist_t, K_PTR) T(List, K_PTR) T(time_t, K_RAW) T(unsigned, K_RAW) T(char, K_RAW)
#undef T
    return -1;
}

static int parse_members(const char *repo)
{
    char path[4096], *h, *t, *e, *p, *q;
    size_t off = 0, maxal = 1;
    snprintf(path, sizeof path, "%s/src/pdsh/opt.h", repo);
    if (!(h = slurp(path)) || !(t = strstr(h, "typedef struct {")) || !(e = strstr(t, "} opt_t;"))) {
        fprintf(stderr, "opt_t not found\n");
        return -1;
    }
    *e = 0;
    t += strlen("typedef struct {");
    for (p = t; (p = strstr(p, "/*")); ) {                   /* blank the comments */
        q = strstr(p, "*/");
        if (!q) break;
        memset(p, ' ', q + 2 - p);
    }
    for (p = strtok(t, ";"); p; p = strtok(NULL, ";")) {      /* one declaration: TYPE [*]NAME [, [*]NAME]... */
        char type[64];
        size_t n = 0;
        while (isspace((unsigned char) *p)) p++;
        if (!*p) continue;
        while ((isalnum((unsigned char) *p) || *p == '_') && n + 1 < sizeof type) type[n++] = *p++;
        type[n] = 0;
        for (;;) {
            int ptr = 0, kind;
            size_t size, align;
            struct member *m = &mem[nmem];
            while (isspace((unsigned char) *p) || *p == '*' || *p == ',') { if (*p == '*') ptr = 1; p++; }
            if (!*p) break;
            n = 0;
            while ((isalnum((unsigned char) *p) || *p == '_') && n + 1 < sizeof m->name) m->name[n++] = *p++;
            m->name[n] = 0;
            if (!n || type_of(type, ptr, &kind, &size, &align) < 0) {
                fprintf(stderr, "opt_t: cannot place member `%s' of type `%s'\n", m->name, type);
                return -1;
            }
            off = (off + align - 1) / align * align;
            m->kind = kind; m->off = off; m->size = size;
            off += size;
            if (align > maxal) maxal = align;
            nmem++;
        }
    }
    off = (off + maxal - 1) / maxal * maxal;
    if (off != sizeof(opt_t)) {
        fprintf(stderr, "opt_t: layout computed from opt.h is %zu bytes, sizeof (opt_t) is %zu\n", off, sizeof(opt_t));
        return -1;
    }
    return 0;
}

static void dump(const opt_t *o, int fd)
{
    FILE *f = fdopen(fd, "w");
    int i;
    for (i = 0; i < nmem; i++) {
        const unsigned char *b = (const unsigned char *) o + mem[i].off;
        size_t j;
        switch (mem[i].kind) {
        case K_INT: fprintf(f, "%d\n", *(const int *) b); break;
        case K_STR: { const char *s = *(char *const *) b; fprintf(f, "%s\n", s ? s : "(null)"); break; }
        case K_PTR: fprintf(f, "%s\n", *(void *const *) b ? "set" : "null"); break;
        default: for (j = 0; j < mem[i].size; j++) fprintf(f, "%02x", b[j]); fprintf(f, "\n");
        }
    }
    fprintf(f, "END\n");
    fclose(f);
}

/* one whole line of any length, cut to max - 1 characters, without its newline; 0 at end of file */
static int rdline(FILE *f, char *buf, size_t max)
{
    char *l = NULL;
    size_t cap = 0;
    ssize_t n = getline(&l, &cap, f);
    if (n < 0) { free(l); return 0; }
    if (n > 0 && l[n - 1] == '\n') l[n - 1] = 0;
    snprintf(buf, max, "%s", l);
    free(l);
    return 1;
}

/* ---- one experiment ---- */
enum { ST_ENV, ST_EARLY, ST_ARGS };
struct res { int status, complete; char val[128][160]; };

static void experiment(const char *prog, int stage, const char *var, const char *val, const char *o1, const char *o2,
                       struct res *r)
{
    int pfd[2], st = 0, i;
    pid_t pid;
    FILE *f;
    memset(r, 0, sizeof *r);
    if (pipe(pfd) < 0) exit(1);
    fflush(NULL);
    if ((pid = fork()) == 0) {
        opt_t o;
        char *argv[4];
        int argc = 0, nul = open("/dev/null", O_RDWR);
        close(pfd[0]);
        dup2(nul, 0); dup2(nul, 1); dup2(nul, 2);
        for (i = 0; i < n_seen_env; i++) unsetenv(seen_env[i]);
        if (var) setenv(var, val, 1);
        memset(&o, 0, sizeof o);
        argv[argc++] = (char *) prog;
        if (o1) argv[argc++] = (char *) o1;
        if (o2) argv[argc++] = (char *) o2;
        argv[argc] = NULL;
        err_init((char *) prog);
        opt_default(&o, (char *) prog);
        if (stage == ST_ENV) { record_env = 1; opt_env(&o); record_env = 0; }
        else if (stage == ST_EARLY) opt_args_early(&o, argc, argv);
        else opt_args(&o, argc, argv);
        {   /* what was recorded goes to the parent first */
            FILE *g = fdopen(dup(pfd[1]), "w");
            fprintf(g, "%s\n%d\n", seen_optstring, n_seen_env);
            for (i = 0; i < n_seen_env; i++) fprintf(g, "%s\n", seen_env[i]);
            fclose(g);
        }
        dump(&o, pfd[1]);
        _exit(0);
    }
    close(pfd[1]);
    f = fdopen(pfd[0], "r");
    {
        char line[600];
        int n = 0;
        if (rdline(f, line, sizeof line)) {
            if (line[0] && !seen_optstring[0]) snprintf(seen_optstring, sizeof seen_optstring, "%s", line);
            if (rdline(f, line, sizeof line)) n = atoi(line);
            for (i = 0; i < n && rdline(f, line, sizeof line); i++) {
                int j;
                for (j = 0; j < n_seen_env; j++) if (!strcmp(seen_env[j], line)) break;
                if (j == n_seen_env && n_seen_env < 64) snprintf(seen_env[n_seen_env++], 128, "%s", line);
            }
            for (i = 0; i < nmem && rdline(f, line, sizeof line); i++)
                snprintf(r->val[i], sizeof r->val[i], "%s", line);
            if (i == nmem && rdline(f, line, sizeof line) && !strncmp(line, "END", 3)) r->complete = 1;
        }
        while (fread(line, 1, sizeof line, f) > 0) ;      /* drain: the child must not die of SIGPIPE */
    }
    fclose(f);
    waitpid(pid, &st, 0);
    r->status = WIFEXITED(st) ? WEXITSTATUS(st) : 128;
}

/* ---- rows ---- */
static char rows[3][256][256];
static int nrows[3];

static void add_row(int table, const char *key, const char *field, const char *conv)
{
    snprintf(rows[table][nrows[table]++], 256, "(\"%s\", \"%s\", \"%s\")", key, field, conv);
}

static int cmp_rows(const void *a, const void *b) { return strcmp(a, b); }

static void print_rows(const char *name, int table)
{
    int i;
    qsort(rows[table], nrows[table], 256, cmp_rows);
    printf("def %s : List (String × String × String) := [", name);
    for (i = 0; i < nrows[table]; i++) printf("%s%s", i ? ", " : "", rows[table][i]);
    printf("]\n");
}

/* rows for one stimulus: compare `r` with the baseline `b`; `again` re-runs the stimulus with the text "7x" */
static int classify(int table, const char *key, const struct res *b, const struct res *r,
                    const char *prog, int stage, const char *var, const char *o1, int takes_arg)
{
    int i, n = 0;
    if (!r->complete) return 0;
    for (i = 0; i < nmem; i++) {
        const char *conv = "other";
        if (!strcmp(b->val[i], r->val[i])) continue;
        if (mem[i].kind == K_BOOL) conv = "flag";
        else if (mem[i].kind == K_STR && !strcmp(r->val[i], "7")) {
            /* the text itself is kept; is its length limited ?  (a text far beyond any login-name limit) */
            static char big[70000];
            struct res x;
            conv = "strdup";
            if (var || takes_arg) {
                memset(big, 'u', sizeof big - 1);
                experiment(prog, stage, var, big, o1, var ? NULL : big, &x);
                if (!x.complete && x.status != 0) conv = "bounded_text";
            }
        }
        else if (mem[i].kind == K_INT && !strcmp(r->val[i], "7") && (var || takes_arg)) {
            struct res x;
            experiment(prog, stage, var, "7x", o1, var ? NULL : "7x", &x);
            if (!x.complete && x.status != 0) conv = "string_to_int";
            else if (x.complete && !strcmp(x.val[i], "7")) conv = "atoi";
        }
        add_row(table, key, mem[i].name, conv);
        n++;
    }
    return n;
}

static int takes_arg(const char *s, char c)
{
    const char *p = strchr(s, c);
    return p && p[1] == ':';
}

int main(void)
{
    const char *repo = getenv("VERIF_REPO");
    const char *progs[2] = { "pdsh", "pdcp" };
    char optstr[2][512], done_env[64][128], done_opt[256] = "", done_early[256] = "";
    struct res base, r;
    int p, i, ndone_env = 0;
    size_t lcp;

    if (parse_members(repo && *repo ? repo : "/repo") < 0) return 1;

    for (p = 0; p < 2; p++) {
        /* the option string of this personality, and the variables opt_env asks for */
        seen_optstring[0] = 0;
        experiment(progs[p], ST_ARGS, NULL, NULL, NULL, NULL, &base);
        if (!base.complete || !seen_optstring[0]) { fprintf(stderr, "%s: opt_args without options did not return\n", progs[p]); return 1; }
        snprintf(optstr[p], sizeof optstr[p], "%s", seen_optstring);

        /* ---- options ---- */
        for (i = 0; optstr[p][i]; i++) {
            char c = optstr[p][i], o1[3] = { '-', c, 0 }, key[2] = { c, 0 };
            int ta = takes_arg(optstr[p], c);
            if (c == ':') continue;
            if (!strchr(done_opt, c)) {
                experiment(progs[p], ST_ARGS, NULL, NULL, o1, ta ? "7" : NULL, &r);
                if (classify(1, key, &base, &r, progs[p], ST_ARGS, NULL, o1, ta) > 0 || p == 1 || !strchr(optstr[1], c)
                    || !r.complete) {
                    /* a letter that does nothing under pdsh but exists under pdcp is tried again there */
                    size_t n = strlen(done_opt);
                    int k, had = 0;
                    for (k = 0; k < nrows[1]; k++) if (rows[1][k][2] == c && rows[1][k][3] == '"') had = 1;
                    if (!had) add_row(1, key, "", r.complete ? "none" : r.status == 0 ? "exit0" : "exit1");
                    done_opt[n] = c; done_opt[n + 1] = 0;
                }
            }
        }
        {   /* early pass: same letters, its own baseline */
            struct res eb;
            experiment(progs[p], ST_EARLY, NULL, NULL, NULL, NULL, &eb);
            for (i = 0; optstr[p][i]; i++) {
                char c = optstr[p][i], o1[3] = { '-', c, 0 }, key[2] = { c, 0 };
                int ta = takes_arg(optstr[p], c);
                if (c == ':' || strchr(done_early, c)) continue;
                experiment(progs[p], ST_EARLY, NULL, NULL, o1, ta ? "7" : NULL, &r);
                if (classify(2, key, &eb, &r, progs[p], ST_EARLY, NULL, o1, ta) > 0) {
                    size_t n = strlen(done_early);
                    done_early[n] = c; done_early[n + 1] = 0;
                }
            }
        }
        /* ---- environment ---- */
        experiment(progs[p], ST_ENV, NULL, NULL, NULL, NULL, &base);      /* records the names asked for */
        if (!base.complete) { fprintf(stderr, "%s: opt_env did not return\n", progs[p]); return 1; }
        for (i = 0; i < n_seen_env; i++) {
            int k;
            for (k = 0; k < ndone_env; k++) if (!strcmp(done_env[k], seen_env[i])) break;
            if (k < ndone_env) continue;
            experiment(progs[p], ST_ENV, seen_env[i], "7", NULL, NULL, &r);
            if (classify(0, seen_env[i], &base, &r, progs[p], ST_ENV, seen_env[i], NULL, 0) > 0 || !r.complete)
                snprintf(done_env[ndone_env++], 128, "%s", seen_env[i]);
            if (!r.complete) add_row(0, seen_env[i], "", r.status == 0 ? "exit0" : "exit1");
        }
    }

    /* common prefix of the two option strings (never ending between a letter and its colon) */
    for (lcp = 0; optstr[0][lcp] && optstr[0][lcp] == optstr[1][lcp]; lcp++) ;
    while (lcp > 0 && (optstr[0][lcp] == ':' || optstr[1][lcp] == ':')) lcp--;
    printf("def OT_GEN_ARGS : String := \"%.*s\"\n", (int) lcp, optstr[0]);
    printf("def OT_DSH_ARGS : String := \"%s\"\n", optstr[0] + lcp);
    printf("def OT_PCP_ARGS : String := \"%s\"\n", optstr[1] + lcp);
    print_rows("OT_ENVS", 0);
    print_rows("OT_EARLY", 2);
    print_rows("OT_OPTS", 1);
    printf("def OT_INT_FIELDS : List String := [");
    for (i = 0, p = 0; i < nmem; i++)
        if (mem[i].kind == K_INT) printf("%s\"%s\"", p++ ? ", " : "", mem[i].name);
    printf("]\n");
    return 0;
}
