/* consts/pcp.c -- compiled against /repo's CURRENT working tree on every run.
 *
 * Prints the constants the Pcp models (C11/C12) depend on: the transfer block / record buffer size
 * BUFSIZ, the sender's mode mask, the leave-directory sentinel and flag, and the kernel limits the
 * file-system model uses.  pcp_client.c is #included so that the macros defined inside the .c file
 * (RCP_MODEMASK) are evaluated by the C compiler; its external references are satisfied by
 * including the common sources it links with.
 */
#define _GNU_SOURCE
#include <stdio.h>
#include <string.h>
#include <limits.h>
#include <stdlib.h>
#include <unistd.h>
#include <sys/time.h>

static void lean_str(const char *name, const char *s)
{
    printf("def %s : String := \"", name);
    for (; *s; s++) {
        if (*s == '"' || *s == '\\') printf("\\%c", *s);
        else printf("%c", *s);
    }
    printf("\"\n");
}
#define LEAN_NAT(name, v) printf("def %s : Nat := %lu\n", name, (unsigned long)(v))

/* err.c first: it defines lsd_fatal_error / lsd_nomem_error, which list.c would otherwise #define */
#include "src/common/err.c"
#include "src/common/xmalloc.c"
#include "src/common/xstring.c"
#include "src/common/list.c"
#include "src/common/fd.c"
#include "src/pdsh/pcp_client.c"

int main(void)
{
    LEAN_NAT("PCP_BUFSIZ", BUFSIZ);
    LEAN_NAT("RCP_MODEMASK", RCP_MODEMASK);
    lean_str("EXIT_SUBDIR_FILENAME", EXIT_SUBDIR_FILENAME);
    {   /* the same as bytes, for kernel-checkable proofs about the sentinel */
        const char *p = EXIT_SUBDIR_FILENAME;
        printf("def EXIT_SUBDIR_FILENAME_BYTES : List Nat := [");
        for (; *p; p++) printf("%s%u", p == EXIT_SUBDIR_FILENAME ? "" : ", ", (unsigned char) *p);
        printf("]\n");
    }
    LEAN_NAT("EXIT_SUBDIR_FLAG_LEN", strlen(EXIT_SUBDIR_FLAG));
    LEAN_NAT("EXIT_SUBDIR_FLAG_0", (unsigned char) EXIT_SUBDIR_FLAG[0]);
    LEAN_NAT("EXIT_SUBDIR_FLAG_1", (unsigned char) EXIT_SUBDIR_FLAG[1]);
    LEAN_NAT("PCP_NAME_MAX", NAME_MAX);
    LEAN_NAT("PCP_PATH_MAX", PATH_MAX);
    LEAN_NAT("PCP_MAXPATHNAMELEN", MAXPATHNAMELEN);
    LEAN_NAT("PCP_OFF_T_BITS", 8 * sizeof(off_t));
    LEAN_NAT("PCP_LONG_BITS", 8 * sizeof(long));
    {   /* does this C library's utimes(3) multiply tv_usec by 1000 before anyone checks its range?  (glibc >= 2.34:
         * utimes -> utimensat with tv_nsec = tv_usec * 1000 wrapped to 64 bits; LONG_MIN * 1000 wraps to 0) */
        char tmpl[] = "/var/tmp/pdshverif-utimes-XXXXXX";
        int fd = mkstemp(tmpl), wraps = 0;
        if (fd >= 0) {
            struct timeval tv[2];
            tv[0].tv_sec = tv[1].tv_sec = 1000000000;
            tv[0].tv_usec = tv[1].tv_usec = LONG_MIN;
            wraps = utimes(tmpl, tv) == 0;
            close(fd);
            unlink(tmpl);
        }
        LEAN_NAT("PCP_UTIMES_WRAPS", wraps);
    }
    return 0;
}
