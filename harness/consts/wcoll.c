/* consts/wcoll.c -- compiled against /repo's CURRENT working tree on every run:
 * the line buffer size wcoll.c reads files with (fgets(buf, LINEBUFSIZE, fp)). */
#define _GNU_SOURCE
#include <stdio.h>
#include <string.h>
#define LEAN_NAT(name, v) printf("def %s : Nat := %lu\n", name, (unsigned long)(v))

#include "config.h"
#include "src/common/macros.h"
int main(void)
{
    LEAN_NAT("WCOLL_LINEBUFSIZE", LINEBUFSIZE);
    return 0;
}
