/* consts/modopt.c -- constants of the option table / module loader / rcmd defaults (C17, C09),
 * regenerated from /repo's CURRENT working tree on every run.
 *
 * GEN_ARGS / DSH_ARGS / PCP_ARGS are macros private to src/pdsh/opt.c.  opt.c cannot be linked into
 * a probe on its own, so the probe lets the C preprocessor evaluate them: it runs
 * `gcc -E -include <repo>/src/pdsh/opt.c` (repo = $VERIF_REPO or /repo, the same tree the probe was
 * compiled against) and reads the expanded string literals back.  Everything else comes from the
 * headers at compile time.
 */
#define _GNU_SOURCE
#include <stdio.h>
#include <stdlib.h>
#include <string.h>

#if HAVE_CONFIG_H
#include "config.h"
#endif
#include "src/pdsh/opt.h"
#include "src/pdsh/mod.h"
#include <sys/stat.h>
#include <netinet/in.h>
#include <unistd.h>

static void lean_str(const char *name, const char *s)
{
    printf("def %s : String := \"", name);
    for (; *s; s++) {
        if (*s == '"' || *s == '\\') printf("\\%c", *s);
        else printf("%c", *s);
    }
    printf("\"\n");
}
#define LEAN_NAT(name, v) printf("def %s : Nat := %lu\n", name, (unsigned long)(v))

/* same selection as src/pdsh/rcmd.c */
static const char *rcmd_rank[] =
#if defined(RCMD_RANK_LIST)
    { RCMD_RANK_LIST, NULL };
#else
    { "mrsh", "rsh", "ssh", "krb4", "qsh", "mqsh", "exec", "xcpu", NULL };
#endif

/* concatenate the contents of the adjacent string literals in `s` ("ab" "c" -> abc) */
static int literals(const char *s, char *out, size_t max)
{
    size_t n = 0;
    int found = 0;
    while (*s) {
        if (*s == '"') {
            found = 1;
            s++;
            while (*s && *s != '"') {
                if (*s == '\\' && s[1]) s++;
                if (n + 1 < max) out[n++] = *s;
                s++;
            }
            if (*s == '"') s++;
        } else if (*s == ' ' || *s == '\t' || *s == '\n' || *s == '\r')
            s++;
        else
            return -1;      /* not a pure string-literal expansion */
    }
    out[n] = 0;
    return found ? 0 : -1;
}

int main(void)
{
    const char *repo = getenv("VERIF_REPO");
    char cmd[8192], line[8192], val[3][1024];
    int got[3] = { 0, 0, 0 }, i;
    FILE *p;

    if (!repo || !*repo) repo = "/repo";
    snprintf(cmd, sizeof cmd,
             "printf 'VERIFX0 GEN_ARGS\\nVERIFX1 DSH_ARGS\\nVERIFX2 PCP_ARGS\\n' | "
             "gcc -E -P -w -DHAVE_CONFIG_H -D_GNU_SOURCE -I%s -I%s/src/pdsh -I%s/src/common "
             "-include %s/src/pdsh/opt.c -x c - 2>/dev/null", repo, repo, repo, repo);
    if (!(p = popen(cmd, "r")))
        return 2;
    while (fgets(line, sizeof line, p)) {
        if (strncmp(line, "VERIFX", 6) == 0 && line[6] >= '0' && line[6] <= '2' && line[7] == ' ') {
            i = line[6] - '0';
            if (literals(line + 8, val[i], sizeof val[i]) == 0)
                got[i] = 1;
        }
    }
    pclose(p);
    if (!got[0] || !got[1] || !got[2]) {
        fprintf(stderr, "modopt probe: could not evaluate GEN_ARGS/DSH_ARGS/PCP_ARGS\n");
        return 3;
    }
    lean_str("MO_GEN_ARGS", val[0]);
    lean_str("MO_DSH_ARGS", val[1]);
    lean_str("MO_PCP_ARGS", val[2]);
    LEAN_NAT("MO_PERS_DSH", DSH);
    LEAN_NAT("MO_PERS_PCP", PCP);
    printf("def MO_DEFAULT_PRIORITY : Int := %d\n", DEFAULT_MODULE_PRIORITY);
    printf("def MO_RCMD_RANK_LIST : List String := [");
    for (i = 0; rcmd_rank[i]; i++)
        printf("%s\"%s\"", i ? ", " : "", rcmd_rank[i]);
    printf("]\n");
    LEAN_NAT("MO_S_IWOTH", S_IWOTH);
    LEAN_NAT("MO_S_ISVTX", S_ISVTX);
    LEAN_NAT("MO_S_IFMT", S_IFMT);
    LEAN_NAT("MO_S_IFDIR", S_IFDIR);
    LEAN_NAT("MO_S_IFREG", S_IFREG);
    /* xrcmd.c: the reserved-port range of the rsh handshake */
    LEAN_NAT("MO_IPPORT_RESERVED", IPPORT_RESERVED);
    /* opt.c login_name_max_len(): the limit on -l / user@ names on this machine */
    {
        long v = -1;
#ifdef _SC_LOGIN_NAME_MAX
        v = sysconf(_SC_LOGIN_NAME_MAX);
#endif
        LEAN_NAT("MO_LOGIN_NAME_MAX", v > 0 ? v : 16);
    }
    return 0;
}
