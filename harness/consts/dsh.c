/* consts/dsh.c -- compiled against /repo's CURRENT working tree on every run.
 *
 * Built once per section (-DPROBE_xxx); each section #includes the real
 * source file / headers so that the C compiler evaluates the macros the
 * Lean models depend on, and prints Lean definitions for Gen/Consts.lean.
 */
#define _GNU_SOURCE
#include <stdio.h>
#include <string.h>

static void lean_str(const char *name, const char *s)
{
    printf("def %s : String := \"", name);
    for (; *s; s++) {
        if (*s == '"' || *s == '\\') printf("\\%c", *s);
        else printf("%c", *s);
    }
    printf("\"\n");
}
#define LEAN_NAT(name, v) printf("def %s : Nat := %lu\n", name, (unsigned long)(v))

#include "config.h"
#include "src/common/macros.h"
#include "src/pdsh/dsh.h"
#include "src/pdsh/opt.h"
int main(void)
{
    LEAN_NAT("LINEBUFSIZE", LINEBUFSIZE);
    LEAN_NAT("INTR_TIME", INTR_TIME);
    LEAN_NAT("WDOG_POLL", WDOG_POLL);
    LEAN_NAT("RC_FAILED", RC_FAILED);
    lean_str("RC_MAGIC", RC_MAGIC);
    LEAN_NAT("CONNECT_TIMEOUT", CONNECT_TIMEOUT);
    LEAN_NAT("DFLT_FANOUT", DFLT_FANOUT);
    LEAN_NAT("MAX_GENDATTR", MAX_GENDATTR);
    return 0;
}
