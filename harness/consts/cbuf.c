/* consts/cbuf.c -- compiled against /repo's CURRENT working tree on every run.
 *
 * Built once per section (-DPROBE_xxx); each section #includes the real
 * source file / headers so that the C compiler evaluates the macros the
 * Lean models depend on, and prints Lean definitions for Gen/Consts.lean.
 */
#define _GNU_SOURCE
#include <stdio.h>
#include <string.h>

static void lean_str(const char *name, const char *s)
{
    printf("def %s : String := \"", name);
    for (; *s; s++) {
        if (*s == '"' || *s == '\\') printf("\\%c", *s);
        else printf("%c", *s);
    }
    printf("\"\n");
}
#define LEAN_NAT(name, v) printf("def %s : Nat := %lu\n", name, (unsigned long)(v))

#include "src/pdsh/cbuf.c"
void lsd_fatal_error(char *f, int l, char *m) { (void)f; (void)l; (void)m; }
#ifdef WITH_LSD_NOMEM_ERROR_FUNC
void *lsd_nomem_error(char *f, int l, char *m) { (void)f; (void)l; (void)m; return 0; }
#endif
/* every function the public header declares: identifiers `cbuf_...` followed by `(` outside
 * comments.  Props/C13.lean proves that each of them is covered by the model (`header_covered`),
 * so a function added to cbuf.h breaks the build of the theorems instead of going unnoticed.
 * The header is read from the tree under test (VERIF_REPO, default /repo). */
#include <stdlib.h>
#include <ctype.h>
static void emit_api(void)
{
    const char *repo = getenv("VERIF_REPO");
    char path[4096], *txt;
    long n, i, k = 0;
    FILE *f;
    snprintf(path, sizeof path, "%s/src/pdsh/cbuf.h", repo && *repo ? repo : "/repo");
    f = fopen(path, "r");
    if (!f) { fprintf(stderr, "cannot read %s\n", path); exit(1); }
    fseek(f, 0, SEEK_END); n = ftell(f); rewind(f);
    txt = malloc(n + 2);
    n = (long) fread(txt, 1, n, f); txt[n] = txt[n + 1] = 0;
    fclose(f);
    /* blank out comments */
    for (i = 0; i < n; i++) {
        if (txt[i] == '/' && txt[i + 1] == '*') {
            while (i < n && !(txt[i] == '*' && txt[i + 1] == '/')) txt[i++] = ' ';
            if (i < n) { txt[i] = ' '; txt[i + 1] = ' '; }
        } else if (txt[i] == '/' && txt[i + 1] == '/') {
            while (i < n && txt[i] != '\n') txt[i++] = ' ';
        }
    }
    printf("def CBUF_API : List String := [");
    for (i = 0; i < n; i++) {
        if (strncmp(txt + i, "cbuf_", 5) == 0 && (i == 0 || !(isalnum((unsigned char) txt[i - 1]) || txt[i - 1] == '_'))) {
            long j = i;
            while (isalnum((unsigned char) txt[j]) || txt[j] == '_') j++;
            long e = j;
            while (txt[j] == ' ' || txt[j] == '\t' || txt[j] == '\n') j++;
            if (txt[j] == '(') {
                printf("%s\"%.*s\"", k++ ? ", " : "", (int) (e - i), txt + i);
            }
            i = e;
        }
    }
    printf("]\n");
    if (k == 0) { fprintf(stderr, "no prototype found in %s\n", path); exit(1); }
    free(txt);
}

int main(void)
{
    emit_api();
    LEAN_NAT("CBUF_CHUNK", CBUF_CHUNK);
    LEAN_NAT("CBUF_NO_DROP", CBUF_NO_DROP);
    LEAN_NAT("CBUF_WRAP_ONCE", CBUF_WRAP_ONCE);
    LEAN_NAT("CBUF_WRAP_MANY", CBUF_WRAP_MANY);
    /* size of sentinel (+ magic cookies when assertions are compiled in) */
    {
        cbuf_t cb = cbuf_create(8, 8);
        LEAN_NAT("CBUF_SIZE_META", cb->alloc - cb->size);
        LEAN_NAT("CBUF_DEFAULT_MODE", cb->overwrite);
    }
    return 0;
}
