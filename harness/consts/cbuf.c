/* consts/cbuf.c -- compiled against /repo's CURRENT working tree on every run.
 *
 * Built once per section (-DPROBE_xxx); each section #includes the real
 * source file / headers so that the C compiler evaluates the macros the
 * Lean models depend on, and prints Lean definitions for Gen/Consts.lean.
 */
#define _GNU_SOURCE
#include <stdio.h>
#include <string.h>

static void lean_str(const char *name, const char *s)
{
    printf("def %s : String := \"", name);
    for (; *s; s++) {
        if (*s == '"' || *s == '\\') printf("\\%c", *s);
        else printf("%c", *s);
    }
    printf("\"\n");
}
#define LEAN_NAT(name, v) printf("def %s : Nat := %lu\n", name, (unsigned long)(v))

#include "src/pdsh/cbuf.c"
void lsd_fatal_error(char *f, int l, char *m) { (void)f; (void)l; (void)m; }
#ifdef WITH_LSD_NOMEM_ERROR_FUNC
void *lsd_nomem_error(char *f, int l, char *m) { (void)f; (void)l; (void)m; return 0; }
#endif
/* every function the public header declares: identifiers `cbuf_...` followed by `(` outside
 * comments.  Props/C13.lean proves that each of them is covered by the model (`header_covered`),
 * so a function added to cbuf.h breaks the build of the theorems instead of going unnoticed.
 * The header is read from the tree under test (VERIF_REPO, default /repo). */
#include <stdlib.h>
#include <ctype.h>
static void emit_api(void)
{
    const char *repo = getenv("VERIF_REPO");
    char path[4096], *txt;
    long n, i, k = 0;
    FILE *f;
    snprintf(path, sizeof path, "%s/src/pdsh/cbuf.h", repo && *repo ? repo : "/repo");
    f = fopen(path, "r");
    if (!f) { fprintf(stderr, "cannot read %s\n", path); exit(1); }
    fseek(f, 0, SEEK_END); n = ftell(f); rewind(f);
    txt = malloc(n + 2);
    n = (long) fread(txt, 1, n, f); txt[n] = txt[n + 1] = 0;
    fclose(f);
    /* blank out comments */
    for (i = 0; i < n; i++) {
        if (txt[i] == '/' && txt[i + 1] == '*') {
            while (i < n && !(txt[i] == '*' && txt[i + 1] == '/')) txt[i++] = ' ';
            if (i < n) { txt[i] = ' '; txt[i + 1] = ' '; }
        } else if (txt[i] == '/' && txt[i + 1] == '/') {
            while (i < n && txt[i] != '\n') txt[i++] = ' ';
        }
    }
    printf("def CBUF_API : List String := [");
    for (i = 0; i < n; i++) {
        if (strncmp(txt + i, "cbuf_", 5) == 0 && (i == 0 || !(isalnum((unsigned char) txt[i - 1]) || txt[i - 1] == '_'))) {
            long j = i;
            while (isalnum((unsigned char) txt[j]) || txt[j] == '_') j++;
            long e = j;
            while (txt[j] == ' ' || txt[j] == '\t' || txt[j] == '\n') j++;
            if (txt[j] == '(') {
                printf("%s\"%.*s\"", k++ ? ", " : "", (int) (e - i), txt + i);
            }
            i = e;
        }
    }
    printf("]\n");
    if (k == 0) { fprintf(stderr, "no prototype found in %s\n", path); exit(1); }
    free(txt);
}

/* every statement of cbuf.c that ADDS or SUBTRACTS (binary + -, += -=, ++ --): `(function, statement
 * with all white space removed)`, in source order, duplicates within a function removed; the source
 * line of each goes into a comment.  Cbuf/IntExprs.lean classifies each of them (which bound keeps it
 * inside a C int) and Props/C13.lean proves that the classification covers this list
 * (`int_exprs_covered`) -- an expression ADDED to cbuf.c breaks the build of the theorems instead of
 * silently escaping `index_arithmetic_no_overflow`.  The list is keyed by the statement text alone
 * (sorted, distinct): moving code into another function is not a new expression.  Comments and
 * preprocessor lines are blanked;
 * a unary minus (`-1`, `return(-1)`) is not arithmetic. */
static char *slurp_c(const char *rel, long *pn)
{
    const char *repo = getenv("VERIF_REPO");
    char path[4096], *txt;
    long n, i;
    FILE *f;
    snprintf(path, sizeof path, "%s/%s", repo && *repo ? repo : "/repo", rel);
    f = fopen(path, "r");
    if (!f) { fprintf(stderr, "cannot read %s\n", path); exit(1); }
    fseek(f, 0, SEEK_END); n = ftell(f); rewind(f);
    txt = malloc(n + 2);
    n = (long) fread(txt, 1, n, f); txt[n] = txt[n + 1] = 0;
    fclose(f);
    for (i = 0; i < n; i++) {
        if (txt[i] == '/' && txt[i + 1] == '*') {
            while (i < n && !(txt[i] == '*' && txt[i + 1] == '/')) { if (txt[i] != '\n') txt[i] = ' '; i++; }
            if (i < n) { txt[i] = ' '; txt[i + 1] = ' '; }
        } else if (txt[i] == '\'' ) {            /* character literal: keep, skip */
            i++; if (txt[i] == '\\') i++; i++;
        } else if (txt[i] == '"') {
            for (i++; i < n && txt[i] != '"'; i++) if (txt[i] == '\\') i++;
        } else if (txt[i] == '#' ) {
            long j = i - 1;
            while (j >= 0 && (txt[j] == ' ' || txt[j] == '\t')) j--;
            if (j < 0 || txt[j] == '\n') {       /* preprocessor line (with continuations) */
                while (i < n && txt[i] != '\n') { if (txt[i] == '\\' && txt[i + 1] == '\n') { txt[i] = ' '; i++; } else txt[i++] = ' '; }
            }
        }
    }
    *pn = n;
    return txt;
}
static int is_id(int c) { return isalnum(c) || c == '_'; }
/* does the statement text s[0..n) contain additive arithmetic? */
static int has_arith(const char *s, long n)
{
    long i, j;
    for (i = 0; i < n; i++) {
        if (s[i] == '\'') { i++; if (s[i] == '\\') i++; i++; continue; }
        if (s[i] == '-' && s[i + 1] == '>') { i++; continue; }
        if (s[i] != '+' && s[i] != '-') continue;
        if (s[i + 1] == s[i] || s[i + 1] == '=') return 1;                /* ++ -- += -= */
        for (j = i - 1; j >= 0 && isspace((unsigned char) s[j]); j--) ;
        if (j >= 0 && (is_id((unsigned char) s[j]) || s[j] == ')' || s[j] == ']')) {
            /* binary, unless the word before is `return` */
            long e = j + 1;
            while (j >= 0 && is_id((unsigned char) s[j])) j--;
            if (!(e - j - 1 == 6 && strncmp(s + j + 1, "return", 6) == 0)) return 1;
        }
    }
    return 0;
}
static int cmp_str(const void *a, const void *b) { return strcmp(*(char *const *) a, *(char *const *) b); }
static void emit_int_exprs(void)
{
    long n, i, start = 0, line = 1, sline = 1;
    char *txt = slurp_c("src/pdsh/cbuf.c", &n);
    static char stmts[600][512], cmt[1 << 16];
    char fn[128] = "", *order[600];
    int depth = 0, paren = 0, ns = 0, k = 0, q;
    size_t cl = 0;
    cmt[0] = 0;
    for (i = 0; i < n; i++) {
        int c = (unsigned char) txt[i];
        if (c == '\n') line++;
        if (c == '\'') { i++; if (txt[i] == '\\') i++; i++; continue; }
        if (depth == 0 && strncmp(txt + i, "cbuf_", 5) == 0 && (i == 0 || !is_id((unsigned char) txt[i - 1]))) {
            long j = i, e;
            while (is_id((unsigned char) txt[j])) j++;
            e = j;
            while (isspace((unsigned char) txt[j])) j++;
            if (txt[j] == '(' && e - i < (long) sizeof fn) { memcpy(fn, txt + i, e - i); fn[e - i] = 0; }
        }
        if (c == '(') paren++;
        if (c == ')') paren--;
        if ((c == '{' || c == '}' || c == ';') && paren == 0) {
            if (depth >= 1 && ns < 600 && has_arith(txt + start, i - start)) {
                char *s = stmts[ns];
                long j, m = 0;
                for (j = start; j < i && m < 511; j++)
                    if (!isspace((unsigned char) txt[j])) s[m++] = txt[j];
                s[m] = 0;
                order[ns++] = s;
                cl += snprintf(cmt + cl, sizeof cmt - cl, "--   %s:%ld  %s\n", fn, sline, s);
                if (cl >= sizeof cmt) cl = sizeof cmt - 1;
            }
            if (c == '{') depth++;
            if (c == '}') depth--;
            start = i + 1;
            sline = line;
        } else if (isspace(c) && start == i) {
            start = i + 1;              /* a statement starts at its first non-blank character */
            sline = line;
        }
    }
    /* the key is the statement alone, sorted and distinct: moving code between functions or
     * re-ordering functions changes nothing; a statement never seen before does */
    qsort(order, ns, sizeof order[0], cmp_str);
    printf("def CBUF_INT_EXPRS : List String := [");
    for (q = 0; q < ns; q++) {
        const char *s = order[q];
        if (q > 0 && strcmp(order[q - 1], s) == 0) continue;
        printf("%s\n  \"", k++ ? "," : "");
        for (; *s; s++) { if (*s == '"' || *s == '\\') putchar('\\'); putchar(*s); }
        printf("\"");
    }
    printf("]\n-- where they occur (function:line of the cbuf.c under test):\n%s", cmt);
    if (k == 0) { fprintf(stderr, "no arithmetic found in cbuf.c\n"); exit(1); }
    free(txt);
}

int main(void)
{
    emit_api();
    emit_int_exprs();
    LEAN_NAT("CBUF_CHUNK", CBUF_CHUNK);
    LEAN_NAT("CBUF_NO_DROP", CBUF_NO_DROP);
    LEAN_NAT("CBUF_WRAP_ONCE", CBUF_WRAP_ONCE);
    LEAN_NAT("CBUF_WRAP_MANY", CBUF_WRAP_MANY);
    /* size of sentinel (+ magic cookies when assertions are compiled in) */
    {
        cbuf_t cb = cbuf_create(8, 8);
        LEAN_NAT("CBUF_SIZE_META", cb->alloc - cb->size);
        LEAN_NAT("CBUF_DEFAULT_MODE", cb->overwrite);
    }
    return 0;
}
