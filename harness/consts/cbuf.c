/* consts/cbuf.c -- compiled against /repo's CURRENT working tree on every run.
 *
 * Built once per section (-DPROBE_xxx); each section #includes the real
 * source file / headers so that the C compiler evaluates the macros the
 * Lean models depend on, and prints Lean definitions for Gen/Consts.lean.
 */
#define _GNU_SOURCE
#include <stdio.h>
#include <string.h>

static void lean_str(const char *name, const char *s)
{
    printf("def %s : String := \"", name);
    for (; *s; s++) {
        if (*s == '"' || *s == '\\') printf("\\%c", *s);
        else printf("%c", *s);
    }
    printf("\"\n");
}
#define LEAN_NAT(name, v) printf("def %s : Nat := %lu\n", name, (unsigned long)(v))

#include "src/pdsh/cbuf.c"
void lsd_fatal_error(char *f, int l, char *m) { (void)f; (void)l; (void)m; }
#ifdef WITH_LSD_NOMEM_ERROR_FUNC
void *lsd_nomem_error(char *f, int l, char *m) { (void)f; (void)l; (void)m; return 0; }
#endif
int main(void)
{
    LEAN_NAT("CBUF_CHUNK", CBUF_CHUNK);
    LEAN_NAT("CBUF_NO_DROP", CBUF_NO_DROP);
    LEAN_NAT("CBUF_WRAP_ONCE", CBUF_WRAP_ONCE);
    LEAN_NAT("CBUF_WRAP_MANY", CBUF_WRAP_MANY);
    /* size of sentinel (+ magic cookies when assertions are compiled in) */
    {
        cbuf_t cb = cbuf_create(8, 8);
        LEAN_NAT("CBUF_SIZE_META", cb->alloc - cb->size);
        LEAN_NAT("CBUF_DEFAULT_MODE", cb->overwrite);
    }
    return 0;
}
