/* sig_helper.c -- the "remote command" of the C20 supporting runs (pdsh -R exec).
 *
 *   sig_helper <logfile> <tag> <seconds>
 *
 * Children started by pdsh's exec module inherit SIGINT/SIGTSTP *blocked* (dsh() blocks them in every thread
 * before any command is started), so a forwarded SIGINT would stay pending for ever in an ordinary command.
 * This helper unblocks everything, logs "<tag> start <time>", then sleeps; a SIGINT/SIGTERM makes it log "<tag> INT" /
 * "<tag> TERM" and exit 130/143; otherwise it prints "<tag> done" on stdout, logs "<tag> done", exits 0.
 * The log is appended with single write() calls (O_APPEND: atomic for short lines). */
#define _GNU_SOURCE
#include <fcntl.h>
#include <signal.h>
#include <stdio.h>
#include <stdlib.h>
#include <string.h>
#include <time.h>
#include <unistd.h>

static const char *logfile, *tag;

static void logline(const char *what)
{
    char buf[256];
    struct timespec now;
    int n;
    clock_gettime(CLOCK_REALTIME, &now);
    n = snprintf(buf, sizeof buf, "%s %s %ld.%03ld\n", tag, what, (long) now.tv_sec, now.tv_nsec / 1000000);
    int fd = open(logfile, O_WRONLY | O_APPEND | O_CREAT, 0666);
    if (fd >= 0) {
        if (write(fd, buf, (size_t) n) < 0) { }
        close(fd);
    }
}

static void on_sig(int sig)
{
    logline(sig == SIGINT ? "INT" : "TERM");
    _exit(128 + sig);
}

int main(int argc, char **argv)
{
    sigset_t none;
    struct timespec ts;
    double secs;
    if (argc < 4)
        return 2;
    logfile = argv[1];
    tag = argv[2];
    secs = atof(argv[3]);
    signal(SIGINT, on_sig);
    signal(SIGTERM, on_sig);
    signal(SIGTSTP, SIG_IGN);
    sigemptyset(&none);
    sigprocmask(SIG_SETMASK, &none, NULL);
    logline("start");
    ts.tv_sec = (time_t) secs;
    ts.tv_nsec = (long) ((secs - (double) ts.tv_sec) * 1e9);
    while (nanosleep(&ts, &ts) < 0)
        ;
    printf("%s done\n", tag);
    fflush(stdout);
    logline("done");
    return 0;
}
