/* argdump.c -- helper run through `pdsh -R exec`: prints its argv in hex on one line
 *   argv <n> <hex0> <hex1> ...      ("-" = empty string)
 */
#include <stdio.h>

int main(int argc, char **argv)
{
    int i;
    printf("argv %d", argc);
    for (i = 0; i < argc; i++) {
        const unsigned char *s = (const unsigned char *) argv[i];
        putchar(' ');
        if (!*s)
            putchar('-');
        for (; *s; s++)
            printf("%02x", *s);
    }
    putchar('\n');
    return 0;
}
