/* exit_helper.c -- the "remote command" of the C08 command-line runs.
 *
 *   pdsh [-S] [-k] -R exec -w h[0-n] exit_helper %n SPEC0 SPEC1 ...
 *
 * exec replaces %n by the rank; the helper acts out SPEC<rank>:
 *   SPEC = o<hex>:<end>     write the bytes <hex> ("-" = nothing; L<n> = one line of <n> characters) to stdout, then
 *   <end> = e<code>         exit with <code>
 *           s<sig>          kill itself with signal <sig> (core dumps disabled)
 *           t<secs>         sleep <secs> (to be timed out by -u), then exit 0
 *           y<ms>_e<code>   chatty: write "x\n" every <ms> milliseconds (to be timed out by -u WHILE producing output:
 *                           pdsh's worker thread then notices the expiry itself at the top of its poll loop); on SIGTERM
 *                           exit with <code> (the command traps TERM)
 *           y<ms>_d         chatty, SIGTERM has its default action (a plain command: killed by signal 15)
 *           T<secs>         like t<secs>, and a SIGTERM that arrives meanwhile is recorded (see VERIF_KTRACE) before the
 *                           command ends with 143: a sibling that pdsh -k terminates
 *   <end> may be preceded by W<ms>_ : sleep <ms> milliseconds first, before anything is written (a command that fails in mid-run)
 *   VERIF_KTRACE=<dir> (environment): the command leaves <dir>/start.<rank> when it starts, <dir>/term.<rank> when
 *   SIGTERM reaches a T command, <dir>/end.<rank> when a T command sleeps to its end
 *   <end> may be preceded by c<ms>_ : close stdin, stdout and stderr first (pdsh sees EOF on both streams and
 *   goes on to rcmd_destroy -> exec_destroy -> pipecmd_wait while the command is still running), sleep <ms>
 *   milliseconds, and only then end as <end> says
 * Plain C, no sanitizer: its exit status is the datum.
 */
#include <signal.h>
#include <stdio.h>
#include <stdlib.h>
#include <string.h>
#include <sys/resource.h>
#include <time.h>
#include <unistd.h>
#include <fcntl.h>

static int chatty_code;
static void on_term(int sig) { (void) sig; _exit(chatty_code); }

static char trace_term[4096];
static void touch(const char *dir, const char *what, int rank)
{
    char p[4096];
    FILE *f;
    if (!dir)
        return;
    snprintf(p, sizeof p, "%s/%s.%d", dir, what, rank);
    if ((f = fopen(p, "w")))
        fclose(f);
}
static void on_term_trace(int sig)
{
    (void) sig;
    if (trace_term[0]) {
        int fd = creat(trace_term, 0644);
        if (fd >= 0)
            close(fd);
    }
    _exit(143);
}

static int hexval(int c)
{
    if (c >= '0' && c <= '9') return c - '0';
    if (c >= 'a' && c <= 'f') return c - 'a' + 10;
    return -1;
}

int main(int argc, char **argv)
{
    int rank;
    char *spec, *end;
    struct rlimit nocore = { 0, 0 };

    if (argc < 3)
        return 200;
    rank = atoi(argv[1]);
    if (rank < 0 || rank + 2 >= argc)
        return 201;
    spec = argv[rank + 2];
    if (spec[0] != 'o' || !(end = strchr(spec, ':')))
        return 202;
    {   /* a T command records a SIGTERM from its very beginning (before it sleeps or writes: pdsh -k may send the signal
         * the moment it has read what is written below) */
        const char *e2 = end + 1;
        if (*e2 == 'W' && strchr(e2, '_'))
            e2 = strchr(e2, '_') + 1;
        if (*e2 == 'T') {
            sigset_t none;
            const char *d = getenv("VERIF_KTRACE");
            if (d)
                snprintf(trace_term, sizeof trace_term, "%s/term.%d", d, rank);
            sigemptyset(&none);
            sigprocmask(SIG_SETMASK, &none, NULL);
            signal(SIGTERM, on_term_trace);
        }
    }
    touch(getenv("VERIF_KTRACE"), "start", rank);
    if (end[1] == 'W') {            /* sleep BEFORE anything is written */
        int ms = atoi(end + 2);
        struct timespec ts = { ms / 1000, (ms % 1000) * 1000000L };
        while (nanosleep(&ts, &ts) < 0)
            ;
    }
    if (spec[1] == 'L') {           /* oL<n>: one line of <n> characters */
        long n = atol(spec + 2), i;
        static char blk[4096];
        memset(blk, 'x', sizeof blk);
        for (i = 0; i < n; i += (long) sizeof blk) {
            size_t m = (size_t) (n - i < (long) sizeof blk ? n - i : (long) sizeof blk);
            if (write(1, blk, m) != (ssize_t) m)
                return 203;
        }
        if (write(1, "\n", 1) != 1)
            return 203;
    } else if (spec[1] != '-') {
        char *p;
        for (p = spec + 1; p + 1 < end + 1 && p < end; p += 2) {
            unsigned char b = (unsigned char) (hexval(p[0]) * 16 + hexval(p[1]));
            if (write(1, &b, 1) != 1)
                return 203;
        }
    }
    end++;
    if (end[0] == 'W') {
        char *u = strchr(end, '_');
        if (!u)
            return 209;
        end = u + 1;
    }
    if (end[0] == 'c') {
        int ms = atoi(end + 1);
        struct timespec ts = { ms / 1000, (ms % 1000) * 1000000L };
        char *u = strchr(end, '_');
        if (!u)
            return 206;
        close(0);
        close(1);
        close(2);
        while (nanosleep(&ts, &ts) < 0)
            ;
        end = u + 1;
    }
    if (end[0] == 'y') {
        int ms = atoi(end + 1);
        struct timespec ts = { ms / 1000, (ms % 1000) * 1000000L };
        char *u = strchr(end, '_');
        sigset_t none;
        if (!u)
            return 207;
        sigemptyset(&none);
        sigprocmask(SIG_SETMASK, &none, NULL);
        if (u[1] == 'e') {
            chatty_code = atoi(u + 2);
            signal(SIGTERM, on_term);
        } else
            signal(SIGTERM, SIG_DFL);
        for (;;) {
            if (write(1, "x\n", 2) != 2)
                return 208;
            nanosleep(&ts, NULL);
        }
    }
    switch (end[0]) {
    case 'e':
        return atoi(end + 1);
    case 's':
        setrlimit(RLIMIT_CORE, &nocore);
        {   /* pdsh's threads run with SIGINT/SIGTSTP/SIGCHLD blocked and SIGPIPE ignored; both are inherited */
            sigset_t none;
            sigemptyset(&none);
            sigprocmask(SIG_SETMASK, &none, NULL);
        }
        signal(atoi(end + 1), SIG_DFL);
        kill(getpid(), atoi(end + 1));
        sleep(5);
        return 204;
    case 't':
        sleep(atoi(end + 1));
        return 0;
    case 'T':
        {
            sigset_t none;
            const char *d = getenv("VERIF_KTRACE");
            if (d)
                snprintf(trace_term, sizeof trace_term, "%s/term.%d", d, rank);
            sigemptyset(&none);
            sigprocmask(SIG_SETMASK, &none, NULL);
            signal(SIGTERM, on_term_trace);
            sleep(atoi(end + 1));
            touch(d, "end", rank);
        }
        return 0;
    }
    return 205;
}
