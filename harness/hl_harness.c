/* hl_harness.c -- in-process driver of the REAL src/common/hostlist.c (engine `hl`).
 *
 * Reads the op lines of the hl line protocol on stdin and answers one line per op on stdout in
 * the same canonical format as `pdshmodel hl model`.  Built per run from /repo's working tree
 * (ctx.cc: assertions on, ASan/UBSan).  Arbitrary bytes travel hex-encoded ("-" = empty).
 *
 *   probe  HEX LIMIT    create + count + nranges + next-sequence + shift-sequence (on a copy),
 *                       in process:   <status> | <count> <nranges> | <next> | <shift>
 *   fprobe HEX LIMIT [MS]  the same in a forked child under per-call limits (MS, default 2000, ms of CPU;
 *                       512 MiB of live heap); extra answers: `timeout`, `oom`, `crash <class>`
 *   sprobe PHEX HEX LIMIT  hostlist_create(PHEX) first (a "poisoning" text), then probe HEX with errno and the
 *                       stack left as that call left them (state carried from one library call to the next)
 *   create HEX          make HEX the current list:  ok <count> <nranges> | null <errno> <fatal>
 *   new                 current list := hostlist_create("")
 *   count | nranges | dump | hosts LIMIT | shift | pop | nth N | push HEX | find HEX |
 *   delete HEX | delete_host HEX | delete_nth N | uniq | sort | ranged N | deranged N |
 *   it_new | it_next K | it_remove K | it_reset K | it_free K
 *   ptext | psweep | pexact | pback | pmk        (C14, see hl_print_ops.h)
 *
 * status:  ok | null:<errno class>:<fatal class>      errno class: 0 EINVAL ERANGE E<n>
 * fatal class (what reached lsd_fatal_error): - invalid toomany other
 * name lists:  <k>:<hex>,<hex>,...   (`<k>+:` when cut off at LIMIT)
 *
 * lsd_fatal_error is observable instead of fatal: the class of the first message is recorded
 * and the library call continues (it then returns NULL with errno set).
 */
#define _GNU_SOURCE
#include <stdio.h>
#include <stdlib.h>
#include <string.h>
#include <stdarg.h>
#include <assert.h>
#include <errno.h>
#include <ctype.h>
#include <sys/param.h>
#include <unistd.h>
#include <pthread.h>
#include <malloc.h>
#include <signal.h>
#include <sys/time.h>
#include <sys/resource.h>
#include <sys/wait.h>
#include <fcntl.h>

/* ---- heap accounting: every allocation of hostlist.c goes through these ---- */
static size_t live_bytes = 0;
static size_t live_max = (size_t) 512 << 20;
static int in_child = 0;
static void limit_hit(const char *what);

static void *hl_malloc(size_t n)
{
    void *p = malloc(n);
    if (p) {
        live_bytes += malloc_usable_size(p);
        if (live_bytes > live_max)
            limit_hit("oom");
    }
    return p;
}
static void hl_free(void *p)
{
    if (p) {
        size_t k = malloc_usable_size(p);
        live_bytes = live_bytes > k ? live_bytes - k : 0;
    }
    free(p);
}
static void *hl_realloc(void *p, size_t n)
{
    size_t k = p ? malloc_usable_size(p) : 0;
    void *q = realloc(p, n);
    if (q) {
        live_bytes = (live_bytes > k ? live_bytes - k : 0) + malloc_usable_size(q);
        if (live_bytes > live_max)
            limit_hit("oom");
    }
    return q;
}
static char *hl_strdup(const char *s)
{
    size_t n = strlen(s) + 1;
    char *p = hl_malloc(n);
    if (p)
        memcpy(p, s, n);
    return p;
}
#undef strdup
#define malloc(n) hl_malloc(n)
#define free(p) hl_free(p)
#define realloc(p, n) hl_realloc(p, n)
#define strdup(s) hl_strdup(s)

#include "src/common/hostlist.c"

#undef malloc
#undef free
#undef realloc
#undef strdup

/* ---- fatal diagnostics made observable ---- */
static const char *fatal_class = "-";
static const char *cur_text = NULL;      /* the text being parsed by do_create() */
/* the diagnostic quotes the offending range as `TEXT': that text is what the user typed, byte for byte
 * (a message that was built by interpreting the user's text as a printf format is "garbled") */
static int echo_garbled(const char *mesg)
{
    const char *b = strchr(mesg, '`'), *e = strrchr(mesg, '\'');
    size_t n;
    if (!cur_text || !b || !e || e <= b || strlen(mesg) >= 1000)
        return 0;
    b++;
    n = (size_t) (e - b);
    if (n == 0)
        return 0;
    return memmem(cur_text, strlen(cur_text), b, n) == NULL;
}
void lsd_fatal_error(char *file, int line, char *mesg)
{
    (void) file; (void) line;
    if (strcmp(fatal_class, "-") != 0)
        return;
    if (strstr(mesg, "Invalid range"))
        fatal_class = echo_garbled(mesg) ? "invalid-garbled" : "invalid";
    else if (strstr(mesg, "Too many hosts"))
        fatal_class = echo_garbled(mesg) ? "toomany-garbled" : "toomany";
    else
        fatal_class = "other";
}
#ifdef WITH_LSD_NOMEM_ERROR_FUNC
void *lsd_nomem_error(char *file, int line, char *mesg)
{
    (void) file; (void) line; (void) mesg;
    return NULL;
}
#endif

/* ---- per-call limits ---- */
static void limit_hit(const char *what)
{
    if (in_child) {
        /* the answer line of the forked probe */
        char buf[64];
        int n = snprintf(buf, sizeof(buf), "%s\n", what);
        if (write(1, buf, n) < 0) { }
        _exit(0);
    }
    fprintf(stderr, "LIMIT %s\n", !strcmp(what, "oom") ? "OOM" : "TIMEOUT");
    _exit(!strcmp(what, "oom") ? 6 : 5);
}
static void on_cpu(int sig)
{
    (void) sig;
    limit_hit("timeout");
}
static void cpu_limit(long ms)
{
    struct itimerval it;
    memset(&it, 0, sizeof(it));
    it.it_value.tv_sec = ms / 1000;
    it.it_value.tv_usec = (ms % 1000) * 1000;
    setitimer(ITIMER_PROF, &it, NULL);       /* user + system time of this process */
}

/* ---- hex ---- */
static int hexval(int c)
{
    if (c >= '0' && c <= '9') return c - '0';
    if (c >= 'a' && c <= 'f') return c - 'a' + 10;
    if (c >= 'A' && c <= 'F') return c - 'A' + 10;
    return -1;
}
static char *unhex(const char *s)
{
    size_t n = (strcmp(s, "-") == 0) ? 0 : strlen(s) / 2;
    char *b = malloc(n + 1);
    for (size_t i = 0; i < n; i++)
        b[i] = (char) (hexval(s[2 * i]) * 16 + hexval(s[2 * i + 1]));
    b[n] = 0;
    return b;
}
static void puthex(FILE *f, const char *b)
{
    if (!*b) { fputc('-', f); return; }
    for (; *b; b++) fprintf(f, "%02x", (unsigned char) *b);
}

static const char *errno_class(int e)
{
    static char buf[32];
    if (e == 0) return "0";
    if (e == EINVAL) return "EINVAL";
    if (e == ERANGE) return "ERANGE";
    snprintf(buf, sizeof(buf), "E%d", e);
    return buf;
}

/* make the uninitialised part of the callee's frame deterministic (and non-zero) */
static void __attribute__((noinline)) dirty_stack(void)
{
    volatile char junk[600000];
    memset((void *) junk, 0xAA, sizeof(junk));
    __asm__ volatile("" : : "r"(junk) : "memory");
}

/* sprobe: the call under test runs in the state the PREVIOUS library call left behind (errno, the callee's
 * stack frames, the allocator's free lists) -- what pdsh does between two -w / -x / file-line words: it never
 * clears errno and never scrubs the stack between hostlist calls */
static int keep_state = 0;

static hostlist_t do_create(const char *expr)
{
    hostlist_t h;
    fatal_class = "-";
    if (!keep_state) {
        dirty_stack();
        errno = 0;
    }
    cur_text = expr;
    h = hostlist_create(expr);
    cur_text = NULL;
    return h;
}

/* growable text buffer */
struct sb { char *p; size_t n, cap; };
static void sb_add(struct sb *b, const char *s, size_t k)
{
    if (b->n + k + 1 > b->cap) {
        b->cap = (b->n + k + 1) * 2 + 64;
        b->p = realloc(b->p, b->cap);
    }
    memcpy(b->p + b->n, s, k);
    b->n += k;
    b->p[b->n] = 0;
}
static void sb_hex(struct sb *b, const char *s)
{
    static const char d[] = "0123456789abcdef";
    if (!*s) { sb_add(b, "-", 1); return; }
    for (; *s; s++) {
        char t[2] = { d[((unsigned char) *s) >> 4], d[((unsigned char) *s) & 15] };
        sb_add(b, t, 2);
    }
}
/* <k>[+]:<hex>,...  from a name source */
static void names_finish(struct sb *out, struct sb *names, long k, int more)
{
    char head[48];
    int n = snprintf(head, sizeof(head), "%ld%s:", k, more ? "+" : "");
    sb_add(out, head, n);
    if (names->n) sb_add(out, names->p, names->n);
}

static void next_sequence(hostlist_t h, long limit, struct sb *out)
{
    struct sb names = { 0, 0, 0 };
    hostlist_iterator_t it = hostlist_iterator_create(h);
    long k = 0;
    int more = 0;
    char *host;
    while (1) {
        if (k >= limit) {           /* is there one more? (model: same rule) */
            host = hostlist_next(it);
            if (host) { more = 1; hl_free(host); }
            break;
        }
        host = hostlist_next(it);
        if (!host) break;
        if (k) sb_add(&names, ",", 1);
        sb_hex(&names, host);
        hl_free(host);
        k++;
    }
    hostlist_iterator_destroy(it);
    names_finish(out, &names, k, more);
    free(names.p);
}

static void shift_sequence(hostlist_t h, long limit, struct sb *out)
{
    struct sb names = { 0, 0, 0 };
    long k = 0;
    int more = 0;
    char *host;
    while (1) {
        if (k >= limit) {
            host = hostlist_shift(h);
            if (host) { more = 1; hl_free(host); }
            break;
        }
        host = hostlist_shift(h);
        if (!host) break;
        if (k) sb_add(&names, ",", 1);
        sb_hex(&names, host);
        hl_free(host);
        k++;
    }
    names_finish(out, &names, k, more);
    free(names.p);
}

/* the answer of probe/fprobe into `out` */
static void probe(const char *expr, long limit, struct sb *out)
{
    hostlist_t h = do_create(expr);
    char head[128];
    int n;
    if (!h) {
        n = snprintf(head, sizeof(head), "null:%s:%s", errno_class(errno), fatal_class);
        sb_add(out, head, n);
        return;
    }
    n = snprintf(head, sizeof(head), "ok | %d %d | ", hostlist_count(h), h->nranges);
    sb_add(out, head, n);
    {
        struct sb a = { 0, 0, 0 }, b = { 0, 0, 0 };
        hostlist_t c;
        next_sequence(h, limit, &a);
        c = hostlist_copy(h);
        shift_sequence(c, limit, &b);
        hostlist_destroy(c);
        sb_add(out, a.p, a.n);
        sb_add(out, " | ", 3);
        if (a.n == b.n && memcmp(a.p, b.p, a.n) == 0)
            sb_add(out, "=", 1);
        else
            sb_add(out, b.p, b.n);
        free(a.p);
        free(b.p);
    }
    hostlist_destroy(h);
}

static char *slurp(int fd, size_t *len)
{
    struct sb b = { 0, 0, 0 };
    char buf[65536];
    ssize_t k;
    sb_add(&b, "", 0);
    while ((k = read(fd, buf, sizeof(buf))) > 0)
        sb_add(&b, buf, (size_t) k);
    *len = b.n;
    return b.p;
}

static void fprobe(const char *expr, long limit, long cpums)
{
    int po[2], pe[2], status = 0;
    pid_t pid;
    char *o, *e;
    size_t on, en;
    fflush(stdout);
    if (pipe(po) < 0 || pipe(pe) < 0) { printf("crash harness-pipe\n"); return; }
    fcntl(pe[1], F_SETPIPE_SZ, 1 << 20);
    pid = fork();
    if (pid < 0) { printf("crash harness-fork\n"); return; }
    if (pid == 0) {
        struct sb out = { 0, 0, 0 };
        struct rlimit rl = { 0, 0 };
        close(po[0]); close(pe[0]);
        dup2(po[1], 1); dup2(pe[1], 2);
        setrlimit(RLIMIT_CORE, &rl);
        rl.rlim_cur = 6; rl.rlim_max = 8;        /* backstop behind the 2 s timer */
        setrlimit(RLIMIT_CPU, &rl);
        in_child = 1;
        live_bytes = 0;
        cpu_limit(cpums);
        probe(expr, limit, &out);
        sb_add(&out, "\n", 1);
        {
            size_t off = 0;
            while (off < out.n) {
                ssize_t k = write(1, out.p + off, out.n - off);
                if (k <= 0) break;
                off += (size_t) k;
            }
        }
        _exit(0);
    }
    close(po[1]); close(pe[1]);
    o = slurp(po[0], &on);
    e = slurp(pe[0], &en);
    close(po[0]); close(pe[0]);
    waitpid(pid, &status, 0);
    if (WIFEXITED(status) && WEXITSTATUS(status) == 0 && on > 0 && o[on - 1] == '\n') {
        fwrite(o, 1, on, stdout);
    } else {
        const char *p;
        if ((p = strstr(e, "ERROR: AddressSanitizer: "))) {
            char kind[64];
            int i = 0;
            p += strlen("ERROR: AddressSanitizer: ");
            while (*p && !isspace((unsigned char) *p) && i < 63) kind[i++] = *p++;
            kind[i] = 0;
            printf("crash asan:%s\n", kind);
        } else if (strstr(e, "runtime error:"))
            printf("crash ubsan\n");
        else if (strstr(e, "Assertion"))
            printf("crash assert\n");
        else if (WIFSIGNALED(status) && (WTERMSIG(status) == SIGXCPU || WTERMSIG(status) == SIGKILL))
            printf("timeout\n");
        else if (WIFSIGNALED(status))
            printf("crash sig%d\n", WTERMSIG(status));
        else
            printf("crash exit%d\n", WIFEXITED(status) ? WEXITSTATUS(status) : -1);
    }
    free(o);
    free(e);
}

#include "hl_print_ops.h"      /* C14: ptext psweep pexact pback pmk */

#define NIT 16

int main(int argc, char **argv)
{
    static char line[1 << 22];
    static char a1[1 << 22];
    hostlist_t hl = NULL;
    hostlist_iterator_t its[NIT];
    struct sigaction sa;
    int carried_errno = 0;
    (void) argc; (void) argv;
    memset(its, 0, sizeof(its));
    memset(&sa, 0, sizeof(sa));
    sa.sa_handler = on_cpu;
    sigaction(SIGPROF, &sa, NULL);
    /* every answer line leaves the process at once: an abort (assertion, sanitizer) in a later call
     * must not take earlier answers with it */
    setvbuf(stdout, NULL, _IOLBF, 1 << 16);

    /* errno is carried from one op to the next as the LIBRARY left it (glibc's sscanf sets it to 0 at the end of
     * its input; pdsh itself never clears errno between hostlist calls): `find N` / `delete_host N` run with
     * whatever the previous library call left behind.  do_create() and `push` start from errno = 0. */
    while (carried_errno = errno, fgets(line, sizeof(line), stdin)) {
        char op[32];
        long num = 0, num2 = 2000;
        int nf;
        a1[0] = 0;
        nf = sscanf(line, "%31s %s %ld %ld", op, a1, &num, &num2);
        errno = carried_errno;
        if (nf < 1) { printf("bad-op\n"); continue; }
        if (!strcmp(op, "probe") || !strcmp(op, "fprobe")) {
            char *x = unhex(a1);
            if (nf < 3) num = 100000;
            if (op[0] == 'f') {
                fprobe(x, num, num2 > 0 ? num2 : 2000);
            } else {
                struct sb out = { 0, 0, 0 };
                live_bytes = 0;
                cpu_limit(4000);
                probe(x, num, &out);
                cpu_limit(0);
                puts(out.p);
                free(out.p);
            }
            free(x);
            continue;
        }
        if (!strcmp(op, "sprobe")) {
            /* sprobe POISONHEX HEX LIMIT: hostlist_create(POISON) (+ shift + find of its first name + destroy),
             * then the ordinary probe of HEX with NOTHING reset in between; the answer is the probe's */
            static char a2[1 << 22];
            char *x, *y;
            hostlist_t ph;
            struct sb out = { 0, 0, 0 };
            long lim = 100000;
            a2[0] = 0;
            if (sscanf(line, "%*s %s %s %ld", a1, a2, &lim) < 2) { printf("bad-arg\n"); continue; }
            x = unhex(a1);
            y = unhex(a2);
            live_bytes = 0;
            cpu_limit(8000);
            ph = do_create(x);
            if (ph) {
                char *first = hostlist_shift(ph);
                if (first) { (void) hostlist_find(ph, first); hl_free(first); }
                hostlist_destroy(ph);
            }
            keep_state = 1;
            probe(y, lim, &out);
            keep_state = 0;
            cpu_limit(0);
            puts(out.p);
            free(out.p);
            free(x);
            free(y);
            continue;
        }
        if (!strcmp(op, "create") || !strcmp(op, "new")) {
            char *x = unhex(op[0] == 'n' ? "-" : a1);
            int k;
            for (k = 0; k < NIT; k++) its[k] = NULL;     /* destroyed with the list */
            if (hl) hostlist_destroy(hl);
            hl = do_create(x);
            free(x);
            if (!hl) printf("null %s %s\n", errno_class(errno), fatal_class);
            else printf("ok %d %d\n", hostlist_count(hl), hl->nranges);
            continue;
        }
        if (!strcmp(op, "pmk")) {                       /* C14: raw record list */
            int k;
            for (k = 0; k < NIT; k++) its[k] = NULL;
            if (hl) hostlist_destroy(hl);
            hl = p_mk(line);
            if (!hl) printf("bad-arg\n");
            else printf("ok %d %d\n", hostlist_count(hl), hl->nranges);
            continue;
        }
        if (!hl) { printf("no-list\n"); continue; }
        if (print_op(hl, op, line))                     /* C14 */
            continue;
        if (!strcmp(op, "count")) {
            printf("%d\n", hostlist_count(hl));
        } else if (!strcmp(op, "nranges")) {
            printf("%d\n", hl->nranges);
        } else if (!strcmp(op, "dump")) {
            int i;
            printf("%d %d", hl->nhosts, hl->nranges);
            for (i = 0; i < hl->nranges; i++) {
                hostrange_t r = hl->hr[i];
                printf(" ");
                puthex(stdout, r->prefix);
                printf(":%lu:%lu:%d:%d", r->lo, r->hi, r->width, (int) r->singlehost);
            }
            printf("\n");
        } else if (!strcmp(op, "hosts")) {
            struct sb out = { 0, 0, 0 };
            next_sequence(hl, nf >= 2 ? atol(a1) : 100000, &out);
            puts(out.p);
            free(out.p);
        } else if (!strcmp(op, "shift") || !strcmp(op, "pop")) {
            char *h = op[0] == 's' ? hostlist_shift(hl) : hostlist_pop(hl);
            if (h) { puthex(stdout, h); printf("\n"); hl_free(h); } else printf("null\n");
        } else if (!strcmp(op, "nth")) {
            char *h = hostlist_nth(hl, atoi(a1));
            if (h) { puthex(stdout, h); printf("\n"); hl_free(h); } else printf("null\n");
        } else if (!strcmp(op, "push")) {
            char *x = unhex(a1);
            fatal_class = "-";
            errno = 0;
            printf("%d %s\n", hostlist_push(hl, x), fatal_class);
            free(x);
        } else if (!strcmp(op, "find")) {
            char *x = unhex(a1);
            printf("%d\n", hostlist_find(hl, x));
            free(x);
        } else if (!strcmp(op, "delete") || !strcmp(op, "delete_host")) {
            char *x = unhex(a1);
            fatal_class = "-";
            printf("%d\n", op[6] ? hostlist_delete_host(hl, x) : hostlist_delete(hl, x));
            free(x);
        } else if (!strcmp(op, "delete_nth")) {
            int n = atoi(a1);
            if (n < 0 || n >= hostlist_count(hl)) printf("bad-arg\n");
            else printf("%d\n", hostlist_delete_nth(hl, n));
        } else if (!strcmp(op, "uniq")) {
            hostlist_uniq(hl);
            printf("ok %d %d\n", hostlist_count(hl), hl->nranges);
        } else if (!strcmp(op, "sort")) {
            hostlist_sort(hl);
            printf("ok %d %d\n", hostlist_count(hl), hl->nranges);
        } else if (!strcmp(op, "ranged") || !strcmp(op, "deranged")) {
            long n = atol(a1), i, bad = -1;
            size_t g = 64;
            char *raw;
            ssize_t ret;
            if (n < 0 || n > (1 << 24)) { printf("bad-arg\n"); continue; }
            raw = malloc(n + 2 * g + 1);
            memset(raw, 0xA5, n + 2 * g);
            raw[n + 2 * g] = 0;
            ret = op[0] == 'r' ? hostlist_ranged_string(hl, (size_t) n, raw + g)
                               : hostlist_deranged_string(hl, (size_t) n, raw + g);
            for (i = 0; i < (long) g; i++) {
                if ((unsigned char) raw[i] != 0xA5) { bad = i - (long) g; break; }
                if ((unsigned char) raw[g + n + i] != 0xA5) { bad = n + i; break; }
            }
            printf("%ld ", (long) ret);
            {
                /* buffer contents up to the first NUL inside [0,n) */
                long k = 0;
                while (k < n && raw[g + k]) k++;
                if (k == 0) printf("-");
                for (i = 0; i < k; i++) printf("%02x", (unsigned char) raw[g + i]);
                printf(" %s", k < n ? "nul" : "no-nul");
            }
            if (bad == -1) printf(" guard-ok\n"); else printf(" guard-bad@%ld\n", bad);
            free(raw);
        } else if (!strcmp(op, "it_new")) {
            int k;
            for (k = 0; k < NIT && its[k]; k++) ;
            if (k == NIT) printf("full\n");
            else { its[k] = hostlist_iterator_create(hl); printf("%d\n", k); }
        } else if (!strncmp(op, "it_", 3)) {
            int k = atoi(a1);
            if (nf < 2 || k < 0 || k >= NIT || !its[k]) { printf("bad-arg\n"); continue; }
            if (!strcmp(op, "it_next")) {
                char *h = hostlist_next(its[k]);
                if (h) { puthex(stdout, h); printf("\n"); hl_free(h); } else printf("null\n");
            } else if (!strcmp(op, "it_remove")) {
                printf("%d\n", hostlist_remove(its[k]));
            } else if (!strcmp(op, "it_reset")) {
                hostlist_iterator_reset(its[k]);
                printf("ok\n");
            } else if (!strcmp(op, "it_free")) {
                hostlist_iterator_destroy(its[k]);
                its[k] = NULL;
                printf("ok\n");
            } else
                printf("bad-op\n");
        } else
            printf("bad-op\n");
    }
    fflush(stdout);
    return 0;
}
