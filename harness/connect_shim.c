/* connect_shim.c -- LD_PRELOAD shim for the real-module part of C07: connect() follows a per-address script.
 *
 *   VERIF_CONNECT_SCRIPT = "a.b.c.d=hang;a.b.c.e=refuse:2;..."     (addresses not listed: the real connect)
 *     hang       block until a signal handler has run, then fail with EINTR (what connect() to a host that
 *                drops SYNs does when the watchdog's SIGALRM arrives); every call blocks again; if the SIGALRM
 *                handler was installed with SA_RESTART the call goes on blocking, as the kernel's would
 *     refuse:D   fail with ECONNREFUSED, D seconds after the call (interruptible: EINTR if a signal arrives first)
 *   VERIF_CONNECT_LOG    = file; one line "connect <addr> <hang|refuse|real>" per call (optional)
 *
 * Everything else is the real libc.  The unmodified pdsh and its dlopen'ed rsh module (xrcmd.c) run on top. */
#define _GNU_SOURCE
#include <arpa/inet.h>
#include <dlfcn.h>
#include <errno.h>
#include <fcntl.h>
#include <netinet/in.h>
#include <signal.h>
#include <stdio.h>
#include <stdlib.h>
#include <string.h>
#include <sys/socket.h>
#include <time.h>
#include <unistd.h>

static void logline(const char *addr, const char *what)
{
    const char *p = getenv("VERIF_CONNECT_LOG");
    char buf[128];
    int fd, n;
    if (!p) return;
    fd = open(p, O_WRONLY | O_CREAT | O_APPEND, 0644);
    if (fd < 0) return;
    n = snprintf(buf, sizeof buf, "connect %s %s\n", addr, what);
    if (write(fd, buf, (size_t) n) < 0) { }
    close(fd);
}

int connect(int fd, const struct sockaddr *sa, socklen_t len)
{
    static int (*real) (int, const struct sockaddr *, socklen_t);
    const char *script = getenv("VERIF_CONNECT_SCRIPT");
    if (!real) real = dlsym(RTLD_NEXT, "connect");
    if (script && sa && sa->sa_family == AF_INET) {
        char addr[64], key[80];
        const char *p;
        inet_ntop(AF_INET, &((const struct sockaddr_in *) sa)->sin_addr, addr, sizeof addr);
        snprintf(key, sizeof key, "%s=", addr);
        p = strstr(script, key);
        if (p && (p == script || p[-1] == ';')) {
            p += strlen(key);
            if (strncmp(p, "hang", 4) == 0) {
                logline(addr, "hang");
                for (;;) {
                    struct sigaction sa;
                    pause();                    /* returns only after a signal handler has run */
                    /* what the kernel does with a blocked connect(): if the handler was installed with SA_RESTART
                     * the call is restarted and the caller never sees the signal; otherwise it fails with EINTR.
                     * (SIGALRM is the signal pdsh's watchdog uses to interrupt a worker.) */
                    if (sigaction(SIGALRM, NULL, &sa) == 0 && (sa.sa_flags & SA_RESTART))
                        continue;
                    break;
                }
                errno = EINTR;
                return -1;
            }
            if (strncmp(p, "refuse", 6) == 0) {
                struct timespec ts = { 0, 0 };
                if (p[6] == ':') ts.tv_sec = atoi(p + 7);
                logline(addr, "refuse");
                if ((ts.tv_sec > 0) && nanosleep(&ts, NULL) < 0) {
                    errno = EINTR;
                    return -1;
                }
                errno = ECONNREFUSED;
                return -1;
            }
        }
        logline(addr, "real");
    }
    return real(fd, sa, len);
}
