/* connect_shim.c -- LD_PRELOAD shim for the real-module part of C07: connect() follows a per-address script.
 *
 *   VERIF_CONNECT_SCRIPT = "a.b.c.d=hang;a.b.c.e=refuse:2;..."     (addresses not listed: the real connect)
 *     hang       block until a signal handler has run, then fail with EINTR (what connect() to a host that
 *                drops SYNs does when the watchdog's SIGALRM arrives); every call blocks again; if the SIGALRM
 *                handler was installed with SA_RESTART the call goes on blocking, as the kernel's would
 *     refuse:D   fail with ECONNREFUSED, D seconds after the call (interruptible: EINTR if a signal arrives first)
 *   VERIF_CONNECT_LOG    = file; one line "connect <addr> <hang|refuse|real>" per call (optional)
 *
 *   VERIF_POLL_RACE_ADDR = a.b.c.d    the thread whose poll() covers a socket connected to that address is HELD at the
 *                entry of poll() -- when nothing is ready yet -- until pthread_kill(that thread, SIGALRM) has been
 *                called once (at most 12 s): the signal finds the thread outside its blocking call (pdsh's handler is
 *                a no-op: the signal is lost), the poll then blocks.  A watchdog that signals an overdue worker every
 *                period gets it out one period later; one that signals once per phase never does.
 *
 * Everything else is the real libc.  The unmodified pdsh and its dlopen'ed rsh module (xrcmd.c) run on top. */
#define _GNU_SOURCE
#include <arpa/inet.h>
#include <dlfcn.h>
#include <errno.h>
#include <fcntl.h>
#include <netinet/in.h>
#include <signal.h>
#include <stdio.h>
#include <stdlib.h>
#include <string.h>
#include <sys/socket.h>
#include <time.h>
#include <unistd.h>
#include <poll.h>
#include <pthread.h>

/* threads that have been sent SIGALRM (pthread_kill interposed below) */
#define MAXALARMED 64
static pthread_t alarmed[MAXALARMED];
static volatile int nalarmed;
static pthread_mutex_t alarmed_mx = PTHREAD_MUTEX_INITIALIZER;

int pthread_kill(pthread_t t, int sig)
{
    static int (*real) (pthread_t, int);
    int rc;
    if (!real) real = dlsym(RTLD_NEXT, "pthread_kill");
    rc = real(t, sig);
    if (sig == SIGALRM && getenv("VERIF_POLL_RACE_ADDR")) {
        pthread_mutex_lock(&alarmed_mx);
        if (nalarmed < MAXALARMED) alarmed[nalarmed++] = t;
        pthread_mutex_unlock(&alarmed_mx);
    }
    return rc;
}

static int was_alarmed(pthread_t t)
{
    int i, r = 0;
    pthread_mutex_lock(&alarmed_mx);
    for (i = 0; i < nalarmed; i++)
        if (pthread_equal(alarmed[i], t)) r = 1;
    pthread_mutex_unlock(&alarmed_mx);
    return r;
}

int poll(struct pollfd *fds, nfds_t n, int timeout)
{
    static int (*real) (struct pollfd *, nfds_t, int);
    const char *victim = getenv("VERIF_POLL_RACE_ADDR");
    if (!real) real = dlsym(RTLD_NEXT, "poll");
    if (victim && timeout != 0 && !was_alarmed(pthread_self())) {
        nfds_t i;
        int mine = 0, other = 0;
        /* only the poll of the relay loop: every polled descriptor is a connection to the victim (the circuit setup
         * of the rsh protocol also polls a listening socket: not held) */
        for (i = 0; i < n; i++) {
            struct sockaddr_in sin;
            socklen_t sl = sizeof sin;
            char addr[64];
            if (fds[i].fd < 0) continue;
            if (getpeername(fds[i].fd, (struct sockaddr *) &sin, &sl) < 0 || sin.sin_family != AF_INET) { other = 1; continue; }
            inet_ntop(AF_INET, &sin.sin_addr, addr, sizeof addr);
            if (strcmp(addr, victim) == 0) mine = 1; else other = 1;
        }
        if (mine && !other && real(fds, n, 0) == 0) {
            /* nothing ready: hold the entry (signals do not end the hold) until this thread has been sent SIGALRM */
            struct timespec t0, now, nap = { 0, 20 * 1000 * 1000 };
            clock_gettime(CLOCK_MONOTONIC, &t0);
            for (;;) {
                if (was_alarmed(pthread_self())) break;
                clock_gettime(CLOCK_MONOTONIC, &now);
                if (now.tv_sec - t0.tv_sec >= 12) break;
                nanosleep(&nap, NULL);
            }
        }
    }
    return real(fds, n, timeout);
}

static void logline(const char *addr, const char *what)
{
    const char *p = getenv("VERIF_CONNECT_LOG");
    char buf[128];
    int fd, n;
    if (!p) return;
    fd = open(p, O_WRONLY | O_CREAT | O_APPEND, 0644);
    if (fd < 0) return;
    n = snprintf(buf, sizeof buf, "connect %s %s\n", addr, what);
    if (write(fd, buf, (size_t) n) < 0) { }
    close(fd);
}

int connect(int fd, const struct sockaddr *sa, socklen_t len)
{
    static int (*real) (int, const struct sockaddr *, socklen_t);
    const char *script = getenv("VERIF_CONNECT_SCRIPT");
    if (!real) real = dlsym(RTLD_NEXT, "connect");
    if (script && sa && sa->sa_family == AF_INET) {
        char addr[64], key[80];
        const char *p;
        inet_ntop(AF_INET, &((const struct sockaddr_in *) sa)->sin_addr, addr, sizeof addr);
        snprintf(key, sizeof key, "%s=", addr);
        p = strstr(script, key);
        if (p && (p == script || p[-1] == ';')) {
            p += strlen(key);
            if (strncmp(p, "hang", 4) == 0) {
                logline(addr, "hang");
                for (;;) {
                    struct sigaction sa;
                    pause();                    /* returns only after a signal handler has run */
                    /* what the kernel does with a blocked connect(): if the handler was installed with SA_RESTART
                     * the call is restarted and the caller never sees the signal; otherwise it fails with EINTR.
                     * (SIGALRM is the signal pdsh's watchdog uses to interrupt a worker.) */
                    if (sigaction(SIGALRM, NULL, &sa) == 0 && (sa.sa_flags & SA_RESTART))
                        continue;
                    break;
                }
                errno = EINTR;
                return -1;
            }
            if (strncmp(p, "refuse", 6) == 0) {
                struct timespec ts = { 0, 0 };
                if (p[6] == ':') ts.tv_sec = atoi(p + 7);
                logline(addr, "refuse");
                if ((ts.tv_sec > 0) && nanosleep(&ts, NULL) < 0) {
                    errno = EINTR;
                    return -1;
                }
                errno = ECONNREFUSED;
                return -1;
            }
        }
        logline(addr, "real");
    }
    return real(fd, sa, len);
}
