/* sched/vsched.h -- interface between the controlled scheduler (sched.c) and the transport stub
 * (rcmd_stub.c).  See DESIGN.md appendix A.1 and harness/sched/README in FRAMEWORK terms:
 * every pdsh thread is a real pthread gated by a baton; every wrapped call is an operation that is
 * published, possibly blocks, and is performed by the scheduler on VIRTUAL primitives. */
#ifndef VERIF_SCHED_H
#define VERIF_SCHED_H
#include <stdio.h>

#define VFD_BASE 1000           /* virtual fds: 1000+2h = stdout of host h, 1001+2h = stderr */
#define MAXHOSTS 256
#define MAXITEMS 64

enum { IT_DATA = 0, IT_EOF = 1, IT_ERR = 2 };
struct item {
    long at;                    /* virtual time from which the item is available */
    int kind;
    unsigned char *bytes;
    int len, off;
};
struct script {
    struct item it[MAXITEMS];
    int n, cur;
    int closed;                 /* close() seen */
};
enum { CONN_OK = 0, CONN_REFUSE = 1, CONN_HANG = 2 };
struct vhost {
    char name[128];
    int conn_kind;
    long conn_at;
    long conn_rel;              /* with `reltime 1`: delay of the connect result after connectBegin */
    int destroy_rc;
    int destroy_hang;
    /* life of the remote command: `life D` = it exits D seconds after the connect by itself (-1: never; not given:
     * it is gone as soon as pdsh tears the connection down); a forwarded SIGTERM/SIGINT ends it at once unless
     * `ignoreterm 1` (SIGKILL always does).  rcmd_destroy() (= waitpid for the exec transport) returns when the
     * command has exited -- or with EINTR if a signal handler runs in the waiting worker, and then the command has
     * NOT been reaped: the connection stays in flight. */
    long life;
    int life_set, ignoreterm;
    long termgrace;             /* a SIGTERM / SIGINT that is not ignored ends the command this many seconds later */
    long death;                 /* absolute virtual time at which the command is gone */
    struct script s[2];         /* 0 stdout, 1 stderr */
    int nbegin, nend;           /* connectBegin / connectEnd seen */
    int ndbegin, ndend;         /* destroyBegin / destroyEnd seen */
    int want_efd;
    int connected;
};
extern int stub_connerr;        /* stub module reports connect failures the way xrcmd.c does */
extern int stub_resolve;        /* `resolve 1`: the transport wants resolved addresses (like rsh): dsh.c looks every
                                 * target up (gethostbyname is served by the harness: ONE static buffer, as in libc)
                                 * and the stub checks that the address it is handed is the target's own */
extern int stub_wrong_addr;     /* connects that were handed another target's address */
extern void stub_addr_of(int h, unsigned char *out4);
extern struct vhost vhosts[MAXHOSTS];
extern int nvhosts;

/* operation kinds (a pending operation of a thread) */
enum {
    OP_NONE = 0, OP_CREATE, OP_LOCK, OP_UNLOCK, OP_WAIT, OP_WAKE, OP_RELOCK, OP_SIGNAL, OP_BCAST,
    OP_KILL, OP_CANCEL, OP_SIGMASK, OP_SIGWAIT, OP_RAISE, OP_TIME, OP_SLEEP, OP_POLL, OP_READ,
    OP_CLOSE, OP_FPUTS, OP_CONNBEGIN, OP_CONNEND, OP_DESTROYBEGIN, OP_DESTROYEND, OP_FWD,
    OP_RETURN, OP_JOIN, OP_MEM, OP_NKINDS
};

/* yield classes */
#define Y_FAN   0x01            /* threadcount mutex/cond, worker creation, connect/destroy, return */
#define Y_THD   0x02            /* thd_mutex */
#define Y_MISC  0x04            /* every other mutex (cbuf, list, hostlist, xmalloc) */
#define Y_TIME  0x08            /* time() */
#define Y_IO    0x10            /* poll read close fputs */
#define Y_SIG   0x20            /* pthread_kill/cancel/sigmask, sigwait, raise, fwd, creation of wdog/signals thread */
#define Y_SLEEP 0x40
#define Y_MEM   0x80            /* loads / stores of `threadcount` (only in the `mem` build flavour, see mem_hooks.c) */

struct op {
    int kind, cls;
    void *obj, *obj2;           /* mutex / cond / buffer / pollfd array ... */
    long a, b;                  /* small arguments */
    long ret;
    int err;                    /* errno for the caller */
    void *(*fn) (void *);
    void *arg;
};

/* called by wrappers and by the stub: publish the current thread's operation, block until the
 * scheduler has performed it; results are in the returned op (ret, err). */
struct op *sched_do(struct op o);
void sched_mem(struct op o);    /* like sched_do, but a no-op outside pdsh threads and inside the scheduler */
long sched_now(void);
void sched_bug(const char *fmt, ...);
#endif
