/* sched/rcmd_stub.c -- scripted transport below the REAL rcmd.c of the tree being checked.
 *
 * rcmd.c (rcmd_create / rcmd_connect / rcmd_destroy / rcmd_signal / rcmd_init) is linked
 * unmodified; what is stubbed is the layer underneath it: the module loader interface (mod_*)
 * hands out one rcmd module "sched" whose connect/destroy/signal functions are operations of the
 * controlled scheduler (connectBegin, connectEnd, destroyBegin, destroyEnd, fwd) working on
 * virtual fds whose contents come from the case file.  Also the pcp_* entry points dsh.c
 * references.
 */
#define _GNU_SOURCE
#include <errno.h>
#include <stdio.h>
#include <stdlib.h>
#include <string.h>

#include "config.h"
#include "src/common/list.h"
#include "src/pdsh/mod.h"
#include "src/pdsh/opt.h"
#include "src/pdsh/pcp_client.h"
#include "src/pdsh/pcp_server.h"
#include "vsched.h"

struct vhost vhosts[MAXHOSTS];
int nvhosts;
int stub_connerr;
int stub_resolve;
int stub_wrong_addr;
void stub_addr_of(int h, unsigned char *out4)
{
    out4[0] = 10; out4[1] = 77; out4[2] = (unsigned char) (h >> 8); out4[3] = (unsigned char) (h & 255);
}
extern void err(char *format, ...);

static int host_index(const char *name, int rank)
{
    int i;
    if (rank >= 0 && rank < nvhosts && strcmp(vhosts[rank].name, name) == 0)
        return rank;
    for (i = 0; i < nvhosts; i++)
        if (strcmp(vhosts[i].name, name) == 0)
            return i;
    sched_bug("connect to a host that is not a target: %s", name);
    return -1;
}

extern int rcmd_opt_set(int id, void *value);
#define RCMD_OPT_RESOLVE_HOSTS 0x1

static int stub_init(opt_t *opt)
{
    (void) opt;
    /* like the exec module: host names are not resolved (no DNS in the harness) */
    rcmd_opt_set(RCMD_OPT_RESOLVE_HOSTS, (void *) (long) (stub_resolve ? 1 : 0));
    return 0;
}

static int stub_rcmd(char *ahost, char *addr, char *luser, char *ruser, char *cmd, int rank,
                     int *fd2p, void **arg)
{
    int h = host_index(ahost, rank);
    struct op b = { .kind = OP_CONNBEGIN, .cls = Y_FAN, .a = h, .b = rank, .obj = ruser, .obj2 = cmd };
    struct op e = { .kind = OP_CONNEND, .cls = Y_FAN, .a = h };
    struct op *r;
    (void) luser;
    if (stub_resolve && addr) {         /* the command of target h must go to the address of target h */
        unsigned char want[4];
        stub_addr_of(h, want);
        if (memcmp(addr, want, 4) != 0) {
            stub_wrong_addr++;
            fprintf(stdout, "I W%d wrong-address %d %u.%u.%u.%u\n", h, h, (unsigned char) addr[0],
                    (unsigned char) addr[1], (unsigned char) addr[2], (unsigned char) addr[3]);
        }
    }
    *arg = &vhosts[h];
    vhosts[h].want_efd = fd2p != NULL;
    sched_do(b);
    r = sched_do(e);
    if (r->ret < 0) {
        errno = r->err;
        if (stub_connerr) {     /* what src/modules/xrcmd.c prints when connect() fails */
            if (errno == EINTR)
                err("%p: %S: connect: timed out\n", ahost);
            else
                err("%p: %S: connect: %m\n", ahost);
        }
        return -1;
    }
    if (fd2p)
        *fd2p = (int) r->b;
    return (int) r->ret;
}

static int stub_destroy(void *arg)
{
    struct vhost *vh = arg;
    long h;
    struct op *r;
    if (vh == NULL)
        sched_bug("rcmd_destroy without a connect");
    h = vh - vhosts;
    {
        struct op b = { .kind = OP_DESTROYBEGIN, .cls = Y_FAN, .a = h };
        struct op e = { .kind = OP_DESTROYEND, .cls = Y_FAN, .a = h };
        sched_do(b);
        r = sched_do(e);
    }
    return (int) r->ret;
}

static int stub_signal(int efd, void *arg, int signum)
{
    struct vhost *vh = arg;
    struct op o = { .kind = OP_FWD, .cls = Y_SIG, .a = vh ? vh - vhosts : -1, .b = signum };
    extern int sched_is_efd_of(int fd, int h);
    /* the rsh protocol sends the signal over the stderr connection: a descriptor number that is no longer this
     * target's open stderr connection (closed, or handed to somebody else meanwhile) reaches the wrong peer */
    if (vh && efd >= 0 && !sched_is_efd_of(efd, (int) (vh - vhosts)))
        o.err = 1;
    sched_do(o);
    return 0;
}

/* ---- module loader interface used by rcmd.c ---- */
static int the_module;
mod_t mod_get_module(const char *type, const char *name)
{
    if (strcmp(type, "rcmd") == 0 && strcmp(name, "sched") == 0)
        return (mod_t) &the_module;
    return NULL;
}
char *mod_get_name(mod_t mod) { (void) mod; return "sched"; }
char *mod_get_type(mod_t mod) { (void) mod; return "rcmd"; }
RcmdInitF mod_get_rcmd_init(mod_t mod) { (void) mod; return stub_init; }
RcmdSigF mod_get_rcmd_signal(mod_t mod) { (void) mod; return stub_signal; }
RcmdF mod_get_rcmd(mod_t mod) { (void) mod; return stub_rcmd; }
RcmdDestroyF mod_get_rcmd_destroy(mod_t mod) { (void) mod; return stub_destroy; }

/* ---- pcp entry points referenced by dsh.c (PCP personality: a copy is a no-op exchange) ---- */
List pcp_expand_dirs(List infile_names)
{
    return infile_names ? infile_names : list_create(NULL);
}
int pcp_client(struct pcp_client *cli) { (void) cli; return 0; }
int pcp_server(struct pcp_server *s) { (void) s; return 0; }
