#!/usr/bin/env python3
"""mutation testing of the C20 check (not run by any check; a development aid):
    python3 harness/sched/mutants_c20.py <verif worktree> [mutant ids...]
Each mutant = scratch copy of /repo's sources under /var/tmp with one edit of src/pdsh/dsh.c (or of the file a mutant names), then
`VERIF_REPO=<copy> ./check.py C20 --tier quick`; expected: exit 1 with a VIOLATION line."""
import os
import shutil
import subprocess
import sys

W = sys.argv[1]
MUTS = {
    "m01-fwd-stops-at-first-idle": [("    for (i = 0; t[i].host != NULL; i++) {\n        if (t[i].state == DSH_READING)\n            rcmd_signal(t[i].rcmd, signum);\n    }",
                                     "    for (i = 0; t[i].host != NULL && t[i].state == DSH_READING; i++)\n        rcmd_signal(t[i].rcmd, signum);")],
    "m02-skip-if-not-while": [("        while ((t[i].state == DSH_CANCELED) && (i < rshcount))", "        if ((t[i].state == DSH_CANCELED) && (i < rshcount))")],
    "m03-last-intr-by-value": [("_handle_sigint(time_t *last_intrp)", "_handle_sigint(time_t last_intr)"),
                               ("    } else if (time(NULL) - *last_intrp > INTR_TIME) {", "    } else if (time(NULL) - last_intr > INTR_TIME) {"),
                               ("        *last_intrp = time(NULL);", "        last_intr = time(NULL);"),
                               ("            _handle_sigint (&last_intr);", "            _handle_sigint (last_intr);")],
    "m04-batch-ignored": [("    if (sigint_terminates) {\n        _fwd_signal(SIGINT);", "    if (0) {\n        _fwd_signal(SIGINT);")],
    "m05-window-ge": [("    } else if (time(NULL) - *last_intrp > INTR_TIME) {", "    } else if (time(NULL) - *last_intrp >= INTR_TIME) {")],
    "m06-fwd-to-connecting": [("        if (t[i].state == DSH_READING)\n            rcmd_signal(t[i].rcmd, signum);", "        if (t[i].state == DSH_READING || t[i].state == DSH_RCMD)\n            rcmd_signal(t[i].rcmd, signum);")],
    "m07-cancel-running-too": [("        if ((t[i].state == DSH_NEW) || (t[i].state == DSH_RCMD)) {", "        if ((t[i].state == DSH_NEW) || (t[i].state == DSH_RCMD) || (t[i].state == DSH_READING)) {")],
    "m08-no-skip": [("        while ((t[i].state == DSH_CANCELED) && (i < rshcount))\n            ++i;", "        ;")],
    "m09-batch-no-exit": [("        errx(\"%p: batch mode interrupt, aborting.\\n\");", "        err(\"%p: batch mode interrupt, aborting.\\n\");")],
    "m10-list-no-unlock": [("                err(\"%p: %S: [canceled]\\n\", t[i].host);\n            break;\n        }\n    }\n\n    dsh_mutex_unlock(&thd_mutex);",
                            "                err(\"%p: %S: [canceled]\\n\", t[i].host);\n            break;\n        }\n    }\n")],
    "m11-tstp-inverted": [("    if (time (NULL) - last_intr > INTR_TIME)\n        raise (SIGSTOP);", "    if (time (NULL) - last_intr <= INTR_TIME)\n        raise (SIGSTOP);")],
    "m12-abort-exit-0": [("        _fwd_signal(SIGINT);\n        errx(\"%p: interrupt, aborting.\\n\");", "        _fwd_signal(SIGINT);\n        err(\"%p: interrupt, aborting.\\n\"); exit(0);")],
    "m13-update-ignores-cancel": [("    if (a->state != DSH_CANCELED)\n        a->state = DSH_READING;", "    a->state = DSH_READING;")],
    "m14-second-int-no-fwd": [("    } else {\n        _fwd_signal(SIGINT);\n        errx(\"%p: interrupt, aborting.\\n\");", "    } else {\n        errx(\"%p: interrupt, aborting.\\n\");")],
    "m15-list-only-reading": [("        case DSH_RCMD:\n            ttl = t[i].start + connect_timeout - time(NULL);\n            err(\"%p: %S: connecting\", t[i].host, ttl);",
                               "        case DSH_RCMD:\n            break;\n            err(\"%p: %S: connecting\", t[i].host, ttl);")],
    "m16-cancel-under-thd-only": [("    dsh_mutex_lock (&threadcount_mutex);\n    for (i = 0; t[i].host != NULL; i++) {\n        if ((t[i].state == DSH_NEW)", "    dsh_mutex_lock (&thd_mutex);\n    for (i = 0; t[i].host != NULL; i++) {\n        if ((t[i].state == DSH_NEW)"),
                                  ("    err (\"%p: Canceled %d pending threads.\\n\", n);\n    dsh_mutex_unlock (&threadcount_mutex);", "    err (\"%p: Canceled %d pending threads.\\n\", n);\n    dsh_mutex_unlock (&thd_mutex);")],
    "m17-break-without-unlock": [("        if (i >= rshcount) {\n            dsh_mutex_unlock(&threadcount_mutex);\n            break;", "        if (i >= rshcount) {\n            break;")],
    "m18-fwd-sigterm": [("    if (sigint_terminates) {\n        _fwd_signal(SIGINT);", "    if (sigint_terminates) {\n        _fwd_signal(SIGTERM);")],
    # the repair of F20-LATEINT taken out: dsh() frees t[] while a handler may still be running
    "m19-no-join-of-signals-thread": [("    pthread_join(thread_sig, NULL);\n", "")],
    # seeded change C20-4: `continue` with threadcount_mutex held, the next iteration locks it again
    "m20-continue-with-mutex-held": [("        while ((t[i].state == DSH_CANCELED) && (i < rshcount))\n            ++i;\n        /*\n         *  Abort if no more threads\n         */\n"
                                      "        if (i >= rshcount) {\n            dsh_mutex_unlock(&threadcount_mutex);\n            break;\n        }\n",
                                      "        if (t[i].state == DSH_CANCELED)\n            continue;\n")],
    # the signals are not blocked in every thread / not all taken by sigwait (decided on real threads with real signals,
    # harness/sigthread_harness.c)
    "m21-mask-no-tstp": [("    sigaddset(&blockme, SIGTSTP);\n", "")],
    "m22-no-block-at-start": [("    _mask_signals (SIG_BLOCK);\n\n    /*\n     *   Initialize rcmd modules", "    /*\n     *   Initialize rcmd modules")],
    "m23-sigwait-no-tstp": [("    sigaddset (&set, SIGTSTP);\n", "")],
    "m24-last-intr-now": [("    time_t last_intr = 0;", "    time_t last_intr = time(NULL);")],
    "m25-tstp-window-ge": [("    if (time (NULL) - last_intr > INTR_TIME)\n        raise (SIGSTOP);", "    if (time (NULL) - last_intr >= INTR_TIME)\n        raise (SIGSTOP);")],
    "m26-lone-tstp-ignored": [("        raise (SIGSTOP);", "        ;")],
    "m27-block-after-threads": [("    _mask_signals (SIG_BLOCK);\n\n    /*\n     *   Initialize rcmd modules", "    /*\n     *   Initialize rcmd modules"),
                                ("    /* wait for termination of remaining threads */\n", "    _mask_signals (SIG_BLOCK);\n    /* wait for termination of remaining threads */\n")],
    # the copy personality has its own worker
    "m28-rcp-blind-state-write": [("    a->start = time(NULL);\n    dsh_mutex_lock(&thd_mutex);\n    if (a->state == DSH_CANCELED)\n        result = DSH_CANCELED;  /* canceled by ^C ^Z before we got to run */\n    else\n        a->state = DSH_RCMD;",
                                   "    a->start = time(NULL);\n    dsh_mutex_lock(&thd_mutex);\n    a->state = DSH_RCMD;")],
    # --- the process side of forwarding (src/common/pipecmd.c, src/modules/execcmd.c; harness/execsig_harness.c) ---
    # seeded change C20-11: the group of the child, which exists only after its setsid()
    "m29-kill-process-group": [("src/common/pipecmd.c", "    return (kill (p->pid, signo));", "    return (kill (-p->pid, signo));")],
    # the group the child is in NOW: before its setsid() that is the group of pdsh itself
    "m30-killpg-current-group": [("src/common/pipecmd.c", "    return (kill (p->pid, signo));", "    return (killpg (getpgid (p->pid), signo));")],
    "m31-signal-needs-stderr-fd": [("src/modules/execcmd.c", "    return (pipecmd_signal ((pipecmd_t) arg, signum));",
                                    "    if (fd < 0)\n        return (-1);\n    return (pipecmd_signal ((pipecmd_t) arg, signum));")],
    "m32-child-ignores-sigint": [("src/common/pipecmd.c", "        setsid ();\n", "        setsid ();\n        signal (SIGINT, SIG_IGN);\n")],
    # --- what pdsh inherits (harness/sigthread_harness.c <inherited>) ---
    # seeded change C20-12: a signal inherited as ignored is left out of the sigwait set
    "m33-ignored-not-waited-for": [("    sigaddset (&set, SIGINT);\n    sigaddset (&set, SIGTSTP);\n",
                                    "    { struct sigaction sa;\n      if (sigaction (SIGINT, NULL, &sa) < 0 || sa.sa_handler != SIG_IGN) sigaddset (&set, SIGINT);\n"
                                    "      if (sigaction (SIGTSTP, NULL, &sa) < 0 || sa.sa_handler != SIG_IGN) sigaddset (&set, SIGTSTP); }\n")],
    # a signal inherited as blocked is "not ours"
    "m34-blocked-not-waited-for": [("    sigaddset (&set, SIGINT);\n    sigaddset (&set, SIGTSTP);\n",
                                    "    { sigset_t cur;\n      pthread_sigmask (SIG_BLOCK, NULL, &cur);\n      sigaddset (&set, SIGINT);\n"
                                    "      sigaddset (&set, SIGTSTP);\n      (void) cur; }\n"),
                                   ("    _mask_signals (SIG_BLOCK);\n\n    /*\n     *   Initialize rcmd modules",
                                    "    { sigset_t cur; pthread_sigmask (SIG_BLOCK, NULL, &cur);\n      if (sigismember (&cur, SIGINT)) sigint_terminates = false; }\n"
                                    "    _mask_signals (SIG_BLOCK);\n\n    /*\n     *   Initialize rcmd modules")],
    # dsh() makes the inherited disposition explicit: an ignored ^Z stays ignored (the sigwait loop drops it)
    "m35-ignored-tstp-dropped": [("        case SIGTSTP:\n            _handle_sigtstp (last_intr);",
                                  "        case SIGTSTP:\n            { struct sigaction sa; sigaction (SIGTSTP, NULL, &sa); if (sa.sa_handler == SIG_IGN) break; }\n"
                                  "            _handle_sigtstp (last_intr);")],
}
ids = sys.argv[2:] or sorted(MUTS)
for mid in ids:
    dst = "/var/tmp/c20-mut-" + mid
    shutil.rmtree(dst, ignore_errors=True)
    os.makedirs(dst + "/src")
    shutil.copy("/repo/config.h", dst)
    for d in ("pdsh", "common", "modules"):
        subprocess.run(["cp", "-a", "/repo/src/" + d, dst + "/src/"], check=True)
    for m in MUTS[mid]:
        f, a, b = m if len(m) == 3 else ("src/pdsh/dsh.c",) + tuple(m)
        p = dst + "/" + f
        s = open(p).read()
        if s.count(a) != 1:
            print(mid, "PATTERN COUNT", s.count(a), repr(a[:50]))
        s = s.replace(a, b)
        open(p, "w").write(s)
    r = subprocess.run(["./check.py", "C20", "--tier", "quick"], cwd=W, env=dict(os.environ, VERIF_REPO=dst, VERIF_SEED="1"),
                       stdout=subprocess.PIPE, stderr=subprocess.STDOUT)
    out = r.stdout.decode()
    lines = [l for l in out.splitlines() if "VIOLATION" in l or "violation:" in l or "broken:" in l]
    print("==", mid, "rc=%d" % r.returncode)
    for l in lines[:7]:
        print("   ", l[:300])
    sys.stdout.flush()
    shutil.rmtree(dst, ignore_errors=True)
