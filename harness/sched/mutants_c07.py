#!/usr/bin/env python3
"""mutation testing of the C07 check (not run by any check; a development aid):
    python3 harness/sched/mutants_c07.py <verif worktree> [mutant ids...]
Each mutant = scratch copy of /repo under /var/tmp with one edit of src/pdsh/dsh.c, then
`VERIF_REPO=<copy> ./check.py C07 --tier quick`; expected: exit 1."""
import os
import shutil
import subprocess
import sys

W = sys.argv[1]
MUTS = {
    "t01-connect-le": [("        if (th->start + connect_timeout < time (NULL))", "        if (th->start + connect_timeout <= time (NULL))")],
    "t02-cmd-from-start": [("        if (th->connect + command_timeout < time (NULL))", "        if (th->start + command_timeout < time (NULL))")],
    "t03-wdog-period": [("        sleep (WDOG_POLL);", "        sleep (2 * WDOG_POLL);")],
    "t04-no-rcmd-case": [("            case DSH_RCMD:\n                if (_thd_connect_timeout (&t[i]))\n                        pthread_kill(t[i].thread, SIGALRM);\n                break;",
                          "            case DSH_RCMD:\n                break;")],
    "t05-eintr-always-continue": [("                else if (_thd_command_timeout (a))\n                    err(\"%p: %S: command timeout\\n\", a->host);\n                else\n                    continue;",
                                   "                else\n                    continue;")],
    "t06-timeout-no-break": [("                result = DSH_FAILED;\n                rcmd_signal (a->rcmd, SIGTERM);\n                break;",
                              "                result = DSH_FAILED;\n                rcmd_signal (a->rcmd, SIGTERM);\n                continue;")],
    "t07-cmd-timeout-zero-active": [("    if ((command_timeout > 0) && (th->connect != ((time_t) -1))) {", "    if ((command_timeout >= 0) && (th->connect != ((time_t) -1))) {")],
    "t08-connect-failure-fatal": [("    if (a->rcmd->fd == -1) {\n        result = DSH_FAILED;    /* connect failed */",
                                   "    if (a->rcmd->fd == -1) {\n        errx(\"%p: %S: connect failed\\n\", a->host);\n        result = DSH_FAILED;    /* connect failed */")],
    "t09-report-wrong-host": [("                    err(\"%p: %S: command timeout\\n\", a->host);", "                    err(\"%p: %S: command timeout\\n\", t[0].host);")],
    "t10-kill-wrong-thread": [("                if (_thd_command_timeout (&t[i]))\n                        pthread_kill(t[i].thread, SIGALRM);",
                               "                if (_thd_command_timeout (&t[i]))\n                        pthread_kill(t[0].thread, SIGALRM);")],
    "t11-scan-first-only": [("        for (i = 0; t[i].host != NULL; i++) {\n            switch (t[i].state) {\n            case DSH_RCMD:",
                             "        for (i = 0; t[i].host != NULL && i < 1; i++) {\n            switch (t[i].state) {\n            case DSH_RCMD:")],
    "t12-connect-stamp-missing": [("    a->connect = time(NULL);\n    if (a->state != DSH_CANCELED)", "    if (a->state != DSH_CANCELED)")],
    "t13-stderr-not-drained": [("        while (xpfds[0].fd >= 0 || xpfds[1].fd >= 0) {", "        while (xpfds[0].fd >= 0) {")],
    "t14-kill-done-hosts": [("            case DSH_NEW:\n            case DSH_DONE:\n            case DSH_FAILED:\n            case DSH_CANCELED:\n                break;\n            }\n        }\n        sleep",
                             "            case DSH_NEW:\n                break;\n            case DSH_DONE:\n            case DSH_FAILED:\n            case DSH_CANCELED:\n                pthread_kill(t[(i + 1) % 2].thread, SIGALRM);\n                break;\n            }\n        }\n        sleep")],
    # ---- the teardown phase
    # no SIGTERM at the command timeout (EINTR branch): a command that would die of it lives on, the teardown waits
    "t15-no-sigterm-eintr": [("                result = DSH_FAILED;\n                rcmd_signal (a->rcmd, SIGTERM);\n                break;\n            }\n\n            /* stdout ready",
                              "                result = DSH_FAILED;\n                break;\n            }\n\n            /* stdout ready")],
    # ... nor in the worker's own test at the top of the poll loop
    "t16-no-sigterm-selfcheck": [("                err(\"%p: %S: command timeout\\n\", a->host);\n                result = DSH_FAILED;\n                rcmd_signal (a->rcmd, SIGTERM);",
                                  "                err(\"%p: %S: command timeout\\n\", a->host);\n                result = DSH_FAILED;")],
    # SIGTERM also after a normal end of the streams (a command that outlives its streams is killed)
    "t17-sigterm-always": [("    rv = rcmd_destroy (a->rcmd);\n    if ((a->rc == 0) && (rv > 0))\n        a->rc = rv;\n\n    /* if a single qshell",
                            "    rcmd_signal (a->rcmd, SIGTERM);\n    rv = rcmd_destroy (a->rcmd);\n    if ((a->rc == 0) && (rv > 0))\n        a->rc = rv;\n\n    /* if a single qshell")],
    # the slot is released before the teardown (the epilogue moved above rcmd_destroy is C03's; here: no teardown
    # at all for a host that was given up on)
    "t18-no-destroy-after-timeout": [("    rv = rcmd_destroy (a->rcmd);\n    if ((a->rc == 0) && (rv > 0))\n        a->rc = rv;\n\n    /* if a single qshell",
                                      "    rv = (result == DSH_FAILED && a->rcmd->fd != -1) ? 0 : rcmd_destroy (a->rcmd);\n    if ((a->rc == 0) && (rv > 0))\n        a->rc = rv;\n\n    /* if a single qshell")],
    # the slot's state is updated only after the teardown: the watchdog's SIGALRM interrupts the wait (seeded C04-5)
    "t19-state-after-destroy": [("    /* update status */\n    dsh_mutex_lock(&thd_mutex);\n    a->state = result;\n    a->finish = time(NULL);\n    dsh_mutex_unlock(&thd_mutex);\n\n    /* flush any pending output */\n    _flush_output (a->outbuf, (out_f) out, a);\n    _flush_output (a->errbuf, (out_f) err, a);\n\n    rv = rcmd_destroy (a->rcmd);\n    if ((a->rc == 0) && (rv > 0))\n        a->rc = rv;\n",
                                 "    /* flush any pending output */\n    _flush_output (a->outbuf, (out_f) out, a);\n    _flush_output (a->errbuf, (out_f) err, a);\n\n    rv = rcmd_destroy (a->rcmd);\n    if ((a->rc == 0) && (rv > 0))\n        a->rc = rv;\n\n    dsh_mutex_lock(&thd_mutex);\n    a->state = result;\n    a->finish = time(NULL);\n    dsh_mutex_unlock(&thd_mutex);\n")],
}
ids = sys.argv[2:] or sorted(MUTS)
for mid in ids:
    dst = "/var/tmp/c07-mut-" + mid
    shutil.rmtree(dst, ignore_errors=True)
    subprocess.run(["cp", "-a", "/repo", dst], check=True)
    p = dst + "/src/pdsh/dsh.c"
    s = open(p).read()
    for a, b in MUTS[mid]:
        if s.count(a) != 1:
            print(mid, "PATTERN COUNT", s.count(a), repr(a[:60]))
        s = s.replace(a, b)
    open(p, "w").write(s)
    r = subprocess.run(["./check.py", "C07", "--tier", "quick"], cwd=W, env=dict(os.environ, VERIF_REPO=dst, VERIF_SEED="1"),
                       stdout=subprocess.PIPE, stderr=subprocess.STDOUT)
    out = r.stdout.decode(errors="replace")
    lines = [l for l in out.splitlines() if "VIOLATION" in l or "KNOWN-FINDING" in l or "violation:" in l or "broken:" in l]
    print("==", mid, "rc=%d" % r.returncode)
    for l in lines[:7]:
        print("   ", l[:260])
    sys.stdout.flush()
    shutil.rmtree(dst, ignore_errors=True)
