#!/usr/bin/env python3
"""mutation testing of the C07 check (not run by any check; a development aid):
    python3 harness/sched/mutants_c07.py <verif worktree> [mutant ids...]
Each mutant = scratch copy of /repo under /var/tmp with one edit of src/pdsh/dsh.c, then
`VERIF_REPO=<copy> ./check.py C07 --tier quick`; expected: exit 1."""
import os
import shutil
import subprocess
import sys

W = sys.argv[1]
MUTS = {
    "t01-connect-le": [("        if (th->start + connect_timeout < time (NULL))", "        if (th->start + connect_timeout <= time (NULL))")],
    "t02-cmd-from-start": [("        if (th->connect + command_timeout < time (NULL))", "        if (th->start + command_timeout < time (NULL))")],
    "t03-wdog-period": [("        sleep (WDOG_POLL);", "        sleep (2 * WDOG_POLL);")],
    "t04-no-rcmd-case": [("            case DSH_RCMD:\n                if (_thd_connect_timeout (&t[i]))\n                        pthread_kill(t[i].thread, SIGALRM);\n                break;",
                          "            case DSH_RCMD:\n                break;")],
    "t05-eintr-always-continue": [("                else if (_thd_command_timeout (a))\n                    err(\"%p: %S: command timeout\\n\", a->host);\n                else\n                    continue;",
                                   "                else\n                    continue;")],
    "t06-timeout-no-break": [("                result = DSH_FAILED;\n                rcmd_signal (a->rcmd, SIGTERM);\n                break;",
                              "                result = DSH_FAILED;\n                rcmd_signal (a->rcmd, SIGTERM);\n                continue;")],
    "t07-cmd-timeout-zero-active": [("    if ((command_timeout > 0) && (th->connect != ((time_t) -1))) {", "    if ((command_timeout >= 0) && (th->connect != ((time_t) -1))) {")],
    "t08-connect-failure-fatal": [("    if (a->rcmd->fd == -1) {\n        result = DSH_FAILED;    /* connect failed */",
                                   "    if (a->rcmd->fd == -1) {\n        errx(\"%p: %S: connect failed\\n\", a->host);\n        result = DSH_FAILED;    /* connect failed */")],
    "t09-report-wrong-host": [("                    err(\"%p: %S: command timeout\\n\", a->host);", "                    err(\"%p: %S: command timeout\\n\", t[0].host);")],
    "t10-kill-wrong-thread": [("                if (_thd_command_timeout (&t[i]))\n                        pthread_kill(t[i].thread, SIGALRM);",
                               "                if (_thd_command_timeout (&t[i]))\n                        pthread_kill(t[0].thread, SIGALRM);")],
    "t11-scan-first-only": [("        for (i = 0; t[i].host != NULL; i++) {\n            switch (t[i].state) {\n            case DSH_RCMD:",
                             "        for (i = 0; t[i].host != NULL && i < 1; i++) {\n            switch (t[i].state) {\n            case DSH_RCMD:")],
    "t12-connect-stamp-missing": [("    a->connect = time(NULL);\n    if (a->state != DSH_CANCELED)", "    if (a->state != DSH_CANCELED)")],
    "t13-stderr-not-drained": [("        while (xpfds[0].fd >= 0 || xpfds[1].fd >= 0) {", "        while (xpfds[0].fd >= 0) {")],
    "t14-kill-done-hosts": [("            case DSH_NEW:\n            case DSH_DONE:\n            case DSH_FAILED:\n            case DSH_CANCELED:\n                break;\n            }\n        }\n        sleep",
                             "            case DSH_NEW:\n                break;\n            case DSH_DONE:\n            case DSH_FAILED:\n            case DSH_CANCELED:\n                pthread_kill(t[(i + 1) % 2].thread, SIGALRM);\n                break;\n            }\n        }\n        sleep")],
}
ids = sys.argv[2:] or sorted(MUTS)
for mid in ids:
    dst = "/var/tmp/c07-mut-" + mid
    shutil.rmtree(dst, ignore_errors=True)
    subprocess.run(["cp", "-a", "/repo", dst], check=True)
    p = dst + "/src/pdsh/dsh.c"
    s = open(p).read()
    for a, b in MUTS[mid]:
        if s.count(a) != 1:
            print(mid, "PATTERN COUNT", s.count(a), repr(a[:60]))
        s = s.replace(a, b)
    open(p, "w").write(s)
    r = subprocess.run(["./check.py", "C07", "--tier", "quick"], cwd=W, env=dict(os.environ, VERIF_REPO=dst, VERIF_SEED="1"),
                       stdout=subprocess.PIPE, stderr=subprocess.STDOUT)
    out = r.stdout.decode(errors="replace")
    lines = [l for l in out.splitlines() if "VIOLATION" in l or "KNOWN-FINDING" in l or "violation:" in l or "broken:" in l]
    print("==", mid, "rc=%d" % r.returncode)
    for l in lines[:7]:
        print("   ", l[:260])
    sys.stdout.flush()
    shutil.rmtree(dst, ignore_errors=True)
