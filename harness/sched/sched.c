/* sched/sched.c -- controlled deterministic scheduler around the unmodified dsh.c.
 *
 * usage: sched_run <casefile>            (trace on stdout; one run per process)
 *
 * Every pdsh thread is a real pthread, but exactly one runs at a time (baton = one semaphore per
 * thread).  Every call that dsh.c and the objects linked with it make to pthread_create,
 * pthread_mutex_lock/unlock, pthread_cond_wait/signal, pthread_kill/cancel/sigmask, sigwait,
 * raise, time, sleep, poll, read, close, fcntl, fputs, fflush, exit is redirected here at link
 * time (-Wl,--wrap=...).  A redirected call publishes an *operation*; operations whose class is
 * in the yield mask (or that would block) are scheduling points: the schedule (a list of choices
 * or a seeded strategy) decides which thread's pending operation is performed next, whether a
 * parked condition-variable waiter is woken spuriously, or whether the virtual clock ticks.  The
 * real pthread primitives are never used by pdsh code; mutexes, the condition variable, the
 * clock, the fds of the transport and signal delivery are virtual.
 *
 * POSIX condition variable semantics: wait = release mutex + park; a parked thread is woken by
 * a signal or spuriously; a woken thread re-acquires the mutex as a separate step; a signal
 * that finds no (unsignalled) waiter is lost.
 *
 * Trace (stdout), one line per item:
 *   S k tc=<threadcount> R=<runnable> P=<parked,unsignalled> B=<blocked on tc mutex/cond>
 *       X=<blocked otherwise> T=<0|1 time can help> h=<state signature>
 *       [ts=<t[i].state digit per target>   only with case key `tstates 1` (C20)]
 *   E k <thread> <event> <args>      the operation performed at step k
 *   I <thread> <event> <args>        an operation performed inline (not a scheduling point)
 *   C <choice tokens>                the schedule actually taken (replayable: strategy list)
 *   M status=... peak=... ...        monitors, computed here, independent of any model
 *   K <kind>:<hex offset> ...        the distinct CALL SITES (return address minus __executable_start) from which
 *                                    pthread_cond_wait / _signal / _broadcast and pthread_create were called in
 *                                    this run; vlib/sched.py compares them with the call sites that exist in the
 *                                    object code of dsh.c (a site no run ever reaches is reported)
 */
#define _GNU_SOURCE
#include <errno.h>
#include <fcntl.h>
#include <poll.h>
#include <pthread.h>
#include <sched.h>
#include <semaphore.h>
#include <signal.h>
#include <stdarg.h>
#include <stdint.h>
#include <stdio.h>
#include <stdlib.h>
#include <string.h>
#include <time.h>
#include <unistd.h>
#include <sys/resource.h>
#include <netdb.h>
#include <sys/socket.h>

#include "config.h"
#include "src/common/hostlist.h"
#include "src/common/list.h"
#include "src/common/err.h"
#include "src/common/xmalloc.h"
#include "src/common/xstring.h"
#include "src/pdsh/dsh.h"
#include "src/pdsh/opt.h"
#include "src/pdsh/rcmd.h"
#include "vsched.h"

/* accessors appended to dsh.c in dsh_tu.c */
extern void *verif_tc_mutex(void), *verif_tc_cond(void), *verif_thd_mutex(void);
extern int verif_threadcount(void), verif_t_index(void *), verif_fn_kind(void *(*)(void *));
extern int verif_t_state(int), verif_t_rc(int), verif_have_t(void);

/* the real functions behind the wrapped names */
extern int __real_pthread_create(pthread_t *, const pthread_attr_t *, void *(*)(void *), void *);
extern ssize_t __real_read(int, void *, size_t);
extern int __real_close(int);
extern int __real_poll(struct pollfd *, nfds_t, int);
extern int __real_fputs(const char *, FILE *);
extern int __real_fflush(FILE *);
extern int __real_fcntl(int, int, ...);

#define MAXT 600
#define MAXM 8192
#define MAXCH 200000

struct vthread {
    int id, alive, kind, widx;  /* kind: 0 main 1 worker 2 wdog 3 signals 4 rcp worker 5 other */
    char name[16];
    pthread_t real;
    sem_t sem;
    struct op pend;
    int eager;                  /* running from creation to its first scheduling point */
    int ended;                  /* its start routine returned (as opposed to: it was pthread_cancel()ed) */
    int signaled;               /* parked on a cond and signalled */
    void *waitc;                /* cond it is parked on */
    long waitseq;
    int interrupted;            /* pthread_kill hit it inside an interruptible call */
    uint64_t hist;              /* hash of its own event history (local state) */
    int prio;
    void *(*fn) (void *);
    void *arg;
    int cancel_pending;         /* pthread_cancel seen; acts at the next cancellation point (deferred) */
    long vid;                   /* virtual thread id handed to pdsh as its pthread_t */
    int vid_reused;             /* the id belonged to an earlier, finished thread */
};
static struct vthread th[MAXT];
static int nth;
static __thread struct vthread *self;
static sem_t handback;

struct vmutex { void *addr; int owner; int cls; char name[12]; };
static struct vmutex mtx[MAXM];
static int nmtx;

static long vclock = 1000000, step_no, budget = 20000, waitseq;
static int yield_mask = Y_FAN, trace_inline = 1;
static int fanout = 1;
static int ct = 10, ut = 0;

/* schedule */
enum { ST_LIST, ST_UNIFORM, ST_PCT, ST_STARVED, ST_EAGERD, ST_FIRST };
static int strategy = ST_FIRST;
static uint64_t rng = 88172645463325252ULL;
static int spur_rate, spur_max = 0, spur_used, tick_rate = 100;
static char **choices;
static int nchoices, choice_pos, diverged;
static int pct_depth = 3, pct_len = 200, pct_cp[16], pct_next_low;
static char *taken;             /* C line */
static size_t taken_len, taken_cap;
struct sigat { long step; int sig; int done; };
static struct sigat sigats[32];
static int nsigat;
static int sigq[32], nsigq;
static int show_ts;

/* monitors */
static int inflight, peak, peak_step = -1, early_return, nfwd;
static long inline_run, spin_limit = 200000;
#define NEVER (1L << 60)        /* script time "never": `out -1 EOF` = the stream hangs from there on */
static int reltime;             /* script times relative to the host's own connectBegin / connectEnd */
static int createfail = -1;     /* `createfail i`: the FIRST pthread_create for worker i fails with EAGAIN (default: none) */
static long nofile;             /* `nofile N`: RLIMIT_NOFILE (soft = hard = N) while dsh() runs (default: untouched) */
static long nofile_soft = -1;   /* `nofile_soft N`: with `nofile H`: soft = N, hard = H (the prologue of dsh() may raise it) */
static int *fanout_in_use;      /* &opt.fanout: what dsh() left there (reported on the L line) */
static struct rlimit rl_at_call;/* RLIMIT_NOFILE when dsh() was called */
static long nsteps_spurious;

/* ------------------------------------------------------------------ utilities */
static uint64_t rnd(void)
{
    rng ^= rng >> 12; rng ^= rng << 25; rng ^= rng >> 27;
    return rng * 2685821657736338717ULL;
}
static uint64_t mix(uint64_t h, uint64_t v)
{
    h ^= v + 0x9e3779b97f4a7c15ULL + (h << 6) + (h >> 2);
    return h * 1099511628211ULL;
}
long sched_now(void) { return vclock; }
static int vmap(int fd);
static struct script *script_of(int fd);
/* is `fd` (as pdsh knows it) the open stderr descriptor of host h?  (rcmd_signal sends the signal over it) */
int sched_is_efd_of(int fd, int h)
{
    struct script *sc = script_of(fd);
    return vmap(fd) == VFD_BASE + 2 * h + 1 && sc && !sc->closed;
}

static void finish(const char *status, int code);
static int finish_exit;         /* exit status of the harness process: 0, or 128+signo after a fault */

void sched_bug(const char *fmt, ...)
{
    va_list ap;
    va_start(ap, fmt);
    fprintf(stdout, "BUG ");
    vfprintf(stdout, fmt, ap);
    fprintf(stdout, "\n");
    va_end(ap);
    finish("harness-bug", 0);
}

static void hexout(const unsigned char *p, long n)
{
    static const char *hx = "0123456789abcdef";
    long i;
    if (n <= 0) { fputc('-', stdout); return; }
    for (i = 0; i < n; i++) { fputc(hx[p[i] >> 4], stdout); fputc(hx[p[i] & 15], stdout); }
}

static struct vmutex *mutex_of(void *addr)
{
    int i;
    for (i = 0; i < nmtx; i++)
        if (mtx[i].addr == addr)
            return &mtx[i];
    if (nmtx >= MAXM)
        sched_bug("too many mutexes");
    mtx[nmtx].addr = addr;
    mtx[nmtx].owner = -1;
    if (addr == verif_tc_mutex()) { mtx[nmtx].cls = Y_FAN; strcpy(mtx[nmtx].name, "tc"); }
    else if (addr == verif_thd_mutex()) { mtx[nmtx].cls = Y_THD; strcpy(mtx[nmtx].name, "thd"); }
    else { mtx[nmtx].cls = Y_MISC; strcpy(mtx[nmtx].name, "m"); }
    return &mtx[nmtx++];
}
static const char *cond_name(void *c) { return c == verif_tc_cond() ? "tc" : "c"; }

/* Thread ids.  pdsh never sees the real pthread_t: pthread_create hands out a VIRTUAL id, so that a run does
 * not depend on which ids glibc happens to reuse.  Like NPTL (whose pthread_t is the address of a cached
 * thread descriptor), the id of a finished detached thread is reused by the next thread created (LIFO):
 * using a stale id after the thread has ended -- undefined behaviour in POSIX -- reaches the thread that
 * owns the id NOW, deterministically. */
static long free_vids[MAXT], nfree_vids, next_vid = 1;
#define VID_HANDLE(v) ((pthread_t) (0x7a000000UL + 64UL * (unsigned long) (v)))
static long vid_alloc(int *reused)
{
    if (nfree_vids > 0) { *reused = 1; return free_vids[--nfree_vids]; }
    *reused = 0;
    return next_vid++;
}
static void vid_release(struct vthread *t)
{
    if (t->vid > 0 && nfree_vids < MAXT) free_vids[nfree_vids++] = t->vid;
}
static struct vthread *thread_of(pthread_t p)
{
    int i;
    struct vthread *dead = NULL;
    for (i = nth - 1; i >= 1; i--)
        if (th[i].vid > 0 && VID_HANDLE(th[i].vid) == p) {
            if (th[i].alive) return &th[i];
            if (!dead) dead = &th[i];
        }
    return dead;
}

/* ------------------------------------------------------------------ transport helpers */
/* Descriptor NUMBERS.  By default a connection to host h is handed the numbers VFD_BASE+2h (stdout) and
 * VFD_BASE+2h+1 (stderr).  `lowfds <mask>` says which of the descriptors 0, 1, 2 are FREE when dsh() starts (pdsh
 * started with stdin closed: mask 1; with all of stdio closed: 7): like the kernel, the transport then hands out
 * the lowest free number first, and a close() gives it back.  rcmd_connect() returning 0 is a SUCCESS.
 * low_owner[k] = the virtual descriptor that number k currently stands for, -1 = free, -2 = not ours. */
static int low_owner[3] = { -2, -2, -2 };
static int vmap(int fd)
{
    return (fd >= 0 && fd < 3 && low_owner[fd] >= 0) ? low_owner[fd] : fd;
}
static int low_take(int vfd)
{
    int k;
    for (k = 0; k < 3; k++)
        if (low_owner[k] == -1) { low_owner[k] = vfd; return k; }
    return vfd;
}
static struct script *script_of(int fd)
{
    int h;
    fd = vmap(fd);
    h = (fd - VFD_BASE) / 2;
    if (fd < VFD_BASE || h >= nvhosts)
        return NULL;
    return &vhosts[h].s[(fd - VFD_BASE) & 1];
}
/* 0 not ready, 1 data/eof ready, 2 error ready, 3 closed/invalid */
static int fd_ready(int fd)
{
    struct script *s = script_of(fd);
    if (!s || s->closed)
        return 3;
    if (s->cur >= s->n)
        return 1;               /* exhausted script = EOF */
    if (s->it[s->cur].at > vclock)
        return 0;
    return s->it[s->cur].kind == IT_ERR ? 2 : 1;
}
static long fd_next_time(int fd)
{
    struct script *s = script_of(fd);
    if (!s || s->closed || s->cur >= s->n)
        return -1;
    if (s->it[s->cur].at >= NEVER) return -1;
    return s->it[s->cur].at > vclock ? s->it[s->cur].at : -1;
}

/* ------------------------------------------------------------------ enabledness */
static int poll_ready(struct vthread *t)
{
    struct pollfd *p = t->pend.obj;
    long i;
    for (i = 0; i < t->pend.a; i++)
        if (p[i].fd >= 0 && fd_ready(p[i].fd) != 0)
            return 1;
    return 0;
}
static int op_enabled(struct vthread *t)
{
    switch (t->pend.kind) {
    case OP_LOCK: return mutex_of(t->pend.obj)->owner < 0;
    case OP_RELOCK: return mutex_of(t->pend.obj2)->owner < 0;
    case OP_WAKE: return t->signaled;
    case OP_SIGWAIT: return nsigq > 0;
    case OP_SLEEP: return vclock >= t->pend.b;
    case OP_POLL:
        if (t->interrupted || poll_ready(t)) return 1;
        return t->pend.b >= 0 && vclock >= t->pend.ret;     /* ret holds the deadline */
    case OP_CONNEND: {
        struct vhost *h = &vhosts[t->pend.a];
        if (t->interrupted) return 1;
        return h->conn_kind != CONN_HANG && h->conn_at <= vclock;
    }
    case OP_DESTROYEND:
        return t->interrupted || (!vhosts[t->pend.a].destroy_hang && vhosts[t->pend.a].death <= vclock);
    case OP_JOIN: {
        struct vthread *x = thread_of(*(pthread_t *) t->pend.obj);
        return !x || !x->alive;
    }
    case OP_NONE: return 0;
    default: return 1;
    }
}
/* can the passing of virtual time alone unblock something? */
static long next_time(void)
{
    long best = -1, c;
    int i, sleeper = 0;
    long j;
    for (i = 0; i < nth; i++)
        if (th[i].alive && th[i].pend.kind == OP_SLEEP)
            sleeper = 1;
    for (i = 0; i < nth; i++) {
        struct vthread *t = &th[i];
        if (!t->alive || op_enabled(t))
            continue;
        c = -1;
        if (t->pend.kind == OP_POLL) {
            struct pollfd *p = t->pend.obj;
            for (j = 0; j < t->pend.a; j++)
                if (p[j].fd >= 0) {
                    long x = fd_next_time(p[j].fd);
                    if (x >= 0 && (c < 0 || x < c)) c = x;
                }
            if (t->pend.b >= 0 && (c < 0 || t->pend.ret < c)) c = t->pend.ret;
            if (c < 0 && ut > 0 && sleeper) c = vclock + 1;
        } else if (t->pend.kind == OP_CONNEND) {
            struct vhost *h = &vhosts[t->pend.a];
            if (h->conn_kind != CONN_HANG) c = h->conn_at;
            else if (ct > 0 && sleeper) c = vclock + 1;
        } else if (t->pend.kind == OP_SLEEP && (t->kind == 1 || t->kind == 4)) {
            /* a WORKER sleeps (waiting out a grace period; no worker of the tree as it is does): its wake-up is a real
             * future event */
            c = t->pend.b;
        } else if (t->pend.kind == OP_DESTROYEND) {
            struct vhost *h = &vhosts[t->pend.a];
            int stt = verif_t_state((int) t->pend.a);
            if (!h->destroy_hang && h->death < NEVER) c = h->death;
            /* the watchdog still applies a timeout to this slot (only if its state was not updated) */
            else if (sleeper && ((stt == 1 && ct > 0) || (stt == 2 && ut > 0))) c = vclock + 1;
        }
        if (c >= 0 && (best < 0 || c < best))
            best = c;
    }
    if (best >= 0) {            /* a sleeper (the watchdog) may have to act before that */
        for (i = 0; i < nth; i++)
            if (th[i].alive && th[i].pend.kind == OP_SLEEP && th[i].pend.b > vclock && th[i].pend.b < best)
                best = th[i].pend.b;
        if (best <= vclock) best = vclock + 1;
    }
    return best;
}

/* ------------------------------------------------------------------ logging */
static void evhdr(struct vthread *t, int inl)
{
    if (inl) fprintf(stdout, "I %s ", t->name);
    else fprintf(stdout, "E %ld %s ", step_no, t->name);
}
static int quiet(struct vthread *t, int inl)
{
    if (t->pend.cls == Y_MISC && !(yield_mask & Y_MISC)) return 1;
    return inl && !trace_inline;
}

static void take(const char *tok)
{
    size_t l = strlen(tok);
    if (taken_len + l + 2 > taken_cap) {
        taken_cap = taken_cap ? taken_cap * 2 : 4096;
        taken = realloc(taken, taken_cap);
    }
    if (taken_len) taken[taken_len++] = ' ';
    memcpy(taken + taken_len, tok, l);
    taken_len += l;
    taken[taken_len] = 0;
}

/* call sites of the protocol operations seen in this run */
extern char __executable_start;
static struct { const char *kind; void *ret; } sites[64];
static int nsites;
static void site_note(const char *kind, void *ret)
{
    int i;
    for (i = 0; i < nsites; i++)
        if (sites[i].ret == ret) return;
    if (nsites < 64) { sites[nsites].kind = kind; sites[nsites].ret = ret; nsites++; }
}

static void finish(const char *status, int code)
{
    int i;
    fprintf(stdout, "K");
    for (i = 0; i < nsites; i++)
        fprintf(stdout, " %s:%lx", sites[i].kind, (unsigned long) ((char *) sites[i].ret - &__executable_start));
    fprintf(stdout, "\n");
    fprintf(stdout, "C %s\n", taken ? taken : "");
    if (fanout_in_use) {        /* the prologue of dsh() as a function: fanout and descriptor limit before / after */
        struct rlimit rl = { 0, 0 };
        getrlimit(RLIMIT_NOFILE, &rl);
        fprintf(stdout, "L fanout_used=%d soft0=%lu hard0=%lu soft=%lu\n", *fanout_in_use,
                (unsigned long) rl_at_call.rlim_cur, (unsigned long) rl_at_call.rlim_max, (unsigned long) rl.rlim_cur);
    }
    fprintf(stdout, "M status=%s code=%d fanout=%d n=%d peak=%d peak_step=%d early=%d steps=%ld spurious=%ld "
            "diverged=%d tc=%d clock=%ld connects=", status, code, fanout, nvhosts, peak, peak_step,
            early_return, step_no, nsteps_spurious, diverged, verif_threadcount(), vclock);
    for (i = 0; i < nvhosts; i++) fprintf(stdout, "%s%d", i ? "," : "", vhosts[i].nbegin);
    fprintf(stdout, " destroys=");
    for (i = 0; i < nvhosts; i++) fprintf(stdout, "%s%d", i ? "," : "", vhosts[i].ndend);
    if (stub_resolve) fprintf(stdout, " wrongaddr=%d", stub_wrong_addr);
    fprintf(stdout, " alive=");
    for (i = 0; i < nth; i++) if (th[i].alive) fprintf(stdout, "%s,", th[i].name);
    fprintf(stdout, "\n");
    __real_fflush(stdout);
    _exit(finish_exit);
}

#ifndef __SANITIZE_ADDRESS__
/* A pdsh thread faulted (e.g. the signals thread, whose cancellation is deferred, walking t[] after dsh() has
 * freed it).  Keep the trace: name the thread (`I <thread> fault <signo>`), write the C and M lines (status=segv)
 * and die with the conventional status 128+signo, so callers still see a crashed process but can tell what
 * happened.  Sanitizer builds keep the sanitizer's own report instead. */
static void on_fault(int sig)
{
    static int once;
    if (once++) _exit(128 + sig);
    fprintf(stdout, "I %s fault %d\n", self ? self->name : "?", sig);
    finish_exit = 128 + sig;
    finish("segv", 0);
}
#endif

static int is_cancel_point(int kind)
{
    return kind == OP_SLEEP || kind == OP_SIGWAIT || kind == OP_POLL || kind == OP_READ || kind == OP_WAIT ||
        kind == OP_WAKE || kind == OP_JOIN;
}

/* ------------------------------------------------------------------ performing an operation */
static void *tramp(void *p);

/* returns 1 when the operation is complete (the thread may run on), 0 when the thread stays
 * blocked in a follow-up operation (cond_wait: WAIT -> WAKE -> RELOCK) */
static int apply(struct vthread *t, int spurious, int inl)
{
    struct op *o = &t->pend;
    int q = quiet(t, inl), i;
    struct vmutex *m;
    t->hist = mix(t->hist, (uint64_t) o->kind * 31 + (uint64_t) spurious);
    switch (o->kind) {
    case OP_CREATE: {
        struct vthread *c;
        pthread_attr_t at;
        int k = verif_fn_kind(o->fn);
        if (nth >= MAXT) sched_bug("too many threads");
        c = &th[nth];
        memset(c, 0, sizeof *c);
        c->id = nth++;
        c->alive = 1;
        c->fn = o->fn;
        c->arg = o->arg;
        c->widx = -1;
        c->hist = 1469598103934665603ULL;
        c->prio = pct_depth + (int) (rnd() % 100000);
        if (k == 1 || k == 4) {
            c->kind = k; c->widx = verif_t_index(o->arg);
            snprintf(c->name, sizeof c->name, "W%d", c->widx);
        } else if (k == 2) { c->kind = 2; strcpy(c->name, "G"); }
        else if (k == 3) { c->kind = 3; strcpy(c->name, "Z"); }
        else { c->kind = 5; snprintf(c->name, sizeof c->name, "T%d", c->id); }
        sem_init(&c->sem, 0, 0);
        pthread_attr_init(&at);
        pthread_attr_setdetachstate(&at, PTHREAD_CREATE_DETACHED);
        pthread_attr_setstacksize(&at, 1 << 20);
        if (__real_pthread_create(&c->real, &at, tramp, c) != 0) sched_bug("real pthread_create failed");
        c->vid = vid_alloc(&c->vid_reused);
        *(pthread_t *) o->obj = VID_HANDLE(c->vid);
        if (!q) { evhdr(t, inl); fprintf(stdout, "create %s\n", c->name); }
        /* the new thread runs to its first scheduling point before anything else happens */
        c->eager = 1;
        sem_post(&c->sem);
        sem_wait(&handback);
        o->ret = 0;
        return 1;
    }
    case OP_LOCK:
        m = mutex_of(o->obj);
        if (m->owner >= 0) sched_bug("lock of a held mutex performed");
        m->owner = t->id;
        if (o->obj == verif_tc_mutex() && t->widx >= 0 && verif_have_t())   /* the worker's epilogue: its final outcome */
            fprintf(stdout, "T %s final state=%d rc=%d\n", t->name, verif_t_state(t->widx), verif_t_rc(t->widx));
        if (!q) { evhdr(t, inl); fprintf(stdout, "lock %s\n", m->name); }
        o->ret = 0;
        return 1;
    case OP_UNLOCK:
        m = mutex_of(o->obj);
        if (!q) { evhdr(t, inl); fprintf(stdout, "unlock %s%s\n", m->name, m->owner == t->id ? "" : " NOT-OWNER"); }
        m->owner = -1;
        o->ret = 0;
        return 1;
    case OP_WAIT:
        m = mutex_of(o->obj2);
        if (!q) { evhdr(t, inl); fprintf(stdout, "wait %s %s%s\n", cond_name(o->obj), m->name, m->owner == t->id ? "" : " NOT-OWNER"); }
        m->owner = -1;
        t->signaled = 0;
        t->waitc = o->obj;
        t->waitseq = ++waitseq;
        o->kind = OP_WAKE;
        return 0;
    case OP_WAKE:
        if (!q) { evhdr(t, inl); fprintf(stdout, "wake %s %d\n", cond_name(o->obj), spurious); }
        if (spurious) nsteps_spurious++;
        t->signaled = 0;
        t->waitc = NULL;
        o->kind = OP_RELOCK;
        return 0;
    case OP_RELOCK:
        m = mutex_of(o->obj2);
        m->owner = t->id;
        if (!q) { evhdr(t, inl); fprintf(stdout, "relock %s\n", m->name); }
        o->ret = 0;
        return 1;
    case OP_SIGNAL:
    case OP_BCAST: {
        int nw = 0, woken = 0;
        for (;;) {
            struct vthread *best = NULL;
            for (i = 0; i < nth; i++)
                if (th[i].alive && th[i].pend.kind == OP_WAKE && th[i].waitc == o->obj && !th[i].signaled)
                    if (!best || th[i].waitseq < best->waitseq) best = &th[i];
            if (!best) break;
            nw++;
            best->signaled = 1;
            woken++;
            if (o->kind == OP_SIGNAL) break;
        }
        if (!q) { evhdr(t, inl); fprintf(stdout, "%s %s %d\n", o->kind == OP_SIGNAL ? "signal" : "broadcast", cond_name(o->obj), woken); }
        o->ret = 0;
        return 1;
    }
    case OP_KILL: {
        struct vthread *x = thread_of(*(pthread_t *) o->obj);
        int hit = 0;
        if (x && x->alive && (x->pend.kind == OP_POLL || x->pend.kind == OP_CONNEND ||
                              x->pend.kind == OP_DESTROYEND)) { x->interrupted = 1; hit = 1; }
        if (!q) { evhdr(t, inl); fprintf(stdout, "kill %s %ld %d%s\n", x ? x->name : "?", o->a, hit,
                                          x && x->vid_reused ? " reused-id" : ""); }
        o->ret = 0;
        return 1;
    }
    case OP_CANCEL: {
        struct vthread *x = thread_of(*(pthread_t *) o->obj);
        /* deferred cancellation: the target ends at a cancellation point (sleep, sigwait, poll, read,
         * cond_wait); if it is not in one now, it ends when it reaches the next one (sched_do) */
        if (x && x->alive) {
            if (is_cancel_point(x->pend.kind)) { x->alive = 0; vid_release(x); }
            else x->cancel_pending = 1;
        }
        if (!q) { evhdr(t, inl); fprintf(stdout, "cancel %s\n", x ? x->name : "?"); }
        o->ret = 0;
        return 1;
    }
    case OP_JOIN: {
        struct vthread *x = thread_of(*(pthread_t *) o->obj);
        if (!q) { evhdr(t, inl); fprintf(stdout, "join %s\n", x ? x->name : "?"); }
        o->ret = 0;
        return 1;
    }
    case OP_MEM:
        if (!q) { evhdr(t, inl); fprintf(stdout, "mem %s tc\n", o->a ? "w" : "r"); }
        o->ret = 0;
        return 1;
    case OP_SIGMASK:
        if (!q) { evhdr(t, inl); fprintf(stdout, "sigmask %ld\n", o->a); }
        o->ret = 0;
        return 1;
    case OP_SIGWAIT:
        o->ret = sigq[0];
        memmove(sigq, sigq + 1, sizeof(int) * (size_t) (--nsigq));
        if (!q) { evhdr(t, inl); fprintf(stdout, "sigwait %ld\n", o->ret); }
        t->hist = mix(t->hist, (uint64_t) o->ret);
        return 1;
    case OP_RAISE:
        if (!q) { evhdr(t, inl); fprintf(stdout, "raise %ld\n", o->a); }
        o->ret = 0;
        return 1;
    case OP_TIME:
        o->ret = vclock;
        if (!q) { evhdr(t, inl); fprintf(stdout, "time %ld\n", vclock); }
        return 1;
    case OP_SLEEP:
        if (!q) { evhdr(t, inl); fprintf(stdout, "sleep %ld\n", o->a); }
        o->ret = 0;
        return 1;
    case OP_POLL: {
        struct pollfd *p = o->obj;
        long n = 0, j;
        if (t->interrupted) {
            t->interrupted = 0;
            o->ret = -1; o->err = EINTR;
            if (!q) { evhdr(t, inl); fprintf(stdout, "poll -1 EINTR\n"); }
            t->hist = mix(t->hist, 77);
            return 1;
        }
        if (!q) { evhdr(t, inl); fprintf(stdout, "poll"); }
        for (j = 0; j < o->a; j++) {
            int r;
            p[j].revents = 0;
            if (p[j].fd < 0) continue;
            r = fd_ready(p[j].fd);
            if (r == 1) p[j].revents = POLLIN & p[j].events;
            else if (r == 2) p[j].revents = POLLERR;
            else if (r == 3) p[j].revents = POLLNVAL;
            if (p[j].revents) n++;
            if (!q) fprintf(stdout, " %d:%d", vmap(p[j].fd), p[j].revents);
            t->hist = mix(t->hist, (uint64_t) p[j].revents);
        }
        if (!q) fprintf(stdout, " = %ld\n", n);
        o->ret = n; o->err = 0;
        return 1;
    }
    case OP_READ: {
        struct script *s = script_of((int) o->a);
        struct item *it;
        if (!s || s->closed) { o->ret = -1; o->err = EBADF; }
        else if (s->cur >= s->n) { o->ret = 0; }
        else {
            it = &s->it[s->cur];
            if (it->at > vclock) { o->ret = -1; o->err = EAGAIN; }
            else if (it->kind == IT_EOF) { o->ret = 0; }
            else if (it->kind == IT_ERR) { o->ret = -1; o->err = EIO; s->cur++; }
            else {
                long n = it->len - it->off;
                if (n > o->b) n = o->b;
                memcpy(o->obj, it->bytes + it->off, (size_t) n);
                it->off += (int) n;
                if (it->off >= it->len) s->cur++;
                o->ret = n;
            }
        }
        if (!q) {
            evhdr(t, inl); fprintf(stdout, "read %ld %ld %ld ", o->a, o->b, o->ret);
            if (o->ret > 0) hexout(o->obj, o->ret); else fprintf(stdout, "%s", o->ret == 0 ? "EOF" : (o->err == EAGAIN ? "EAGAIN" : "ERR"));
            fprintf(stdout, "\n");
        }
        t->hist = mix(t->hist, (uint64_t) o->ret);
        return 1;
    }
    case OP_CLOSE: {
        struct script *s = script_of((int) o->a);
        int k;
        if (s) s->closed = 1;
        for (k = 0; k < 3; k++)
            if (low_owner[k] == (int) o->a) low_owner[k] = -1;      /* the number is free again */
        if (!q) { evhdr(t, inl); fprintf(stdout, "close %ld\n", o->a); }
        o->ret = 0;
        return 1;
    }
    case OP_FPUTS:
        if (!q) { evhdr(t, inl); fprintf(stdout, "fputs %ld ", o->a); hexout(o->obj, (long) strlen(o->obj)); fprintf(stdout, "\n"); }
        o->ret = 1;
        return 1;
    case OP_CONNBEGIN: {
        struct vhost *h = &vhosts[o->a];
        if (reltime) h->conn_at = vclock + h->conn_rel;
        h->nbegin++;
        inflight++;
        if (inflight > peak) { peak = inflight; peak_step = (int) step_no; }
        if (!q) {
            evhdr(t, inl); fprintf(stdout, "connectBegin %ld %s %ld ", o->a, h->name, o->b);
            hexout(o->obj, (long) strlen(o->obj)); fprintf(stdout, " "); hexout(o->obj2, (long) strlen(o->obj2));
            fprintf(stdout, " inflight=%d\n", inflight);
        }
        return 1;
    }
    case OP_CONNEND: {
        struct vhost *h = &vhosts[o->a];
        h->nend++;
        if (t->interrupted) { t->interrupted = 0; o->ret = -1; o->err = EINTR; }
        else if (h->conn_kind == CONN_OK) {
            o->ret = low_take(VFD_BASE + 2 * (int) o->a); h->connected = 1;
            o->b = h->want_efd ? low_take(VFD_BASE + 2 * (int) o->a + 1) : -1;
            h->death = !h->life_set ? 0 : h->life < 0 ? NEVER : vclock + h->life;
            if (reltime) {      /* the remote side's stream script starts now */
                int k2, j2;
                for (k2 = 0; k2 < 2; k2++)
                    for (j2 = 0; j2 < h->s[k2].n; j2++)
                        if (h->s[k2].it[j2].at < NEVER) h->s[k2].it[j2].at += vclock;
            }
        }
        else { o->ret = -1; o->err = ECONNREFUSED; }
        if (!q) {
            evhdr(t, inl); fprintf(stdout, "connectEnd %ld %ld", o->a, o->ret);
            if (o->ret >= 0 && o->ret < 3) fprintf(stdout, " lowfd");
            fprintf(stdout, "\n");
        }
        t->hist = mix(t->hist, (uint64_t) o->ret);
        return 1;
    }
    case OP_DESTROYBEGIN:
        vhosts[o->a].ndbegin++;
        if (!q) { evhdr(t, inl); fprintf(stdout, "destroyBegin %ld\n", o->a); }
        return 1;
    case OP_DESTROYEND: {
        struct vhost *h = &vhosts[o->a];
        if (t->interrupted && (h->destroy_hang || h->death > vclock)) {
            /* waitpid() interrupted: the transport logs it and returns; the command is alive and not reaped */
            t->interrupted = 0;
            o->ret = 0;
            if (!q) { evhdr(t, inl); fprintf(stdout, "destroyEnd %ld -1 EINTR-not-reaped inflight=%d\n", o->a, inflight); }
            t->hist = mix(t->hist, 99);
            return 1;
        }
        t->interrupted = 0;
        h->ndend++;
        inflight--;
        o->ret = h->destroy_rc;
        if (!q) { evhdr(t, inl); fprintf(stdout, "destroyEnd %ld %ld inflight=%d\n", o->a, o->ret, inflight); }
        return 1;
    }
    case OP_FWD:
        nfwd++;
        if (o->a >= 0 && o->a < nvhosts && (o->b == SIGKILL || ((o->b == SIGTERM || o->b == SIGINT) &&
                                                                 !vhosts[o->a].ignoreterm))) {
            long when = vclock + (o->b == SIGKILL ? 0 : vhosts[o->a].termgrace);
            if (vhosts[o->a].death > when) vhosts[o->a].death = when;
        }
        if (!q) { evhdr(t, inl); fprintf(stdout, "fwd %ld %ld%s\n", o->a, o->b, o->err ? " stale-efd" : ""); }
        o->ret = 0;
        return 1;
    case OP_RETURN:
        /* monitor: dsh() returned although a started command is not torn down */
        for (i = 0; i < nvhosts; i++)
            if (vhosts[i].nbegin != vhosts[i].ndend) early_return = 1;
        evhdr(t, inl); fprintf(stdout, "return %ld\n", o->a);
        step_no++;
        finish("ok", (int) o->a);
        return 1;
    default:
        sched_bug("apply: unknown op %d", o->kind);
    }
    return 1;
}

/* ------------------------------------------------------------------ choosing */
static int find_thread(const char *name)
{
    int i;
    for (i = 0; i < nth; i++)
        if (th[i].alive && strcmp(th[i].name, name) == 0)
            return i;
    return -1;
}

static uint64_t signature(void)
{
    uint64_t h = 1469598103934665603ULL;
    int i;
    for (i = 0; i < nth; i++) {
        struct vthread *t = &th[i];
        h = mix(h, (uint64_t) t->alive);
        if (!t->alive) continue;
        h = mix(h, (uint64_t) t->pend.kind);
        h = mix(h, (uint64_t) t->signaled * 2 + (uint64_t) t->interrupted);
        h = mix(h, t->hist);
        h = mix(h, (uint64_t) t->widx + 7);
    }
    h = mix(h, (uint64_t) (verif_threadcount() + 1000));
    h = mix(h, (uint64_t) vclock);
    h = mix(h, (uint64_t) (mutex_of(verif_tc_mutex())->owner + 2));
    h = mix(h, (uint64_t) (mutex_of(verif_thd_mutex())->owner + 2));
    h = mix(h, (uint64_t) nsigq);
    return h;
}

static void plist(const char *tag, int *v, int n)
{
    int i;
    fprintf(stdout, " %s=", tag);
    if (!n) fputc('-', stdout);
    for (i = 0; i < n; i++) fprintf(stdout, "%s%s", i ? "," : "", th[v[i]].name);
}

/* one scheduling decision; returns the thread whose operation completed (to be released) or NULL */
static struct vthread *pick_and_apply(void)
{
    static int R[MAXT], P[MAXT], B[MAXT], X[MAXT];
    int nR = 0, nP = 0, nB = 0, nX = 0, i, ck = 0, ctid = -1;     /* ck: 0 run, 1 spurious, 2 tick */
    long nt;
    char tok[40];

    for (i = 0; i < nth; i++) {
        struct vthread *t = &th[i];
        if (!t->alive) continue;
        if (op_enabled(t)) R[nR++] = i;
        else if ((t->pend.kind == OP_LOCK && t->pend.obj == verif_tc_mutex()) ||
                 (t->pend.kind == OP_RELOCK && t->pend.obj2 == verif_tc_mutex()) ||
                 (t->pend.kind == OP_WAKE && t->pend.obj == verif_tc_cond())) B[nB++] = i;
        else X[nX++] = i;
        if (t->pend.kind == OP_WAKE && !t->signaled) P[nP++] = i;
    }
    if (step_no >= budget) finish("budget", 0);
    nt = next_time();
    fprintf(stdout, "S %ld tc=%d", step_no, verif_threadcount());
    plist("R", R, nR); plist("P", P, nP); plist("B", B, nB); plist("X", X, nX);
    fprintf(stdout, " T=%d h=%016llx", nt >= 0, (unsigned long long) signature());
    if (show_ts) {              /* C20: t[i].state per target (case key `tstates 1`; off by default) */
        fprintf(stdout, " ts=");
        if (!verif_have_t() || !nvhosts) fputc('-', stdout);
        else for (i = 0; i < nvhosts; i++) fputc('0' + (verif_t_state(i) & 7), stdout);
    }
    fputc('\n', stdout);

    for (i = 0; i < nsigat; i++)
        if (!sigats[i].done && sigats[i].step <= step_no) {
            sigats[i].done = 1;
            if (nsigq < 32) sigq[nsigq++] = sigats[i].sig;
            fprintf(stdout, "E %ld - deliver %d\n", step_no, sigats[i].sig);
            snprintf(tok, sizeof tok, "i%d", sigats[i].sig);
            take(tok);
            step_no++;
            return NULL;
        }
    if (nR == 0) {
        if (nt < 0) finish("deadlock", 0);
        ck = 2;
        /* a recorded schedule lists this forced tick too */
        if (choice_pos < nchoices && strcmp(choices[choice_pos], "t") == 0) choice_pos++;
    } else {
        /* 1. listed choice */
        int have = 0;
        while (!have && choice_pos < nchoices) {
            const char *c = choices[choice_pos++];
            if (strcmp(c, "t") == 0) { if (nt >= 0) { ck = 2; have = 1; } }
            else if (c[0] == 's' && (ctid = find_thread(c + 1)) >= 0 &&
                     th[ctid].pend.kind == OP_WAKE && !th[ctid].signaled) { ck = 1; have = 1; }
            else if (c[0] == 'i') {
                if (nsigq < 32) sigq[nsigq++] = atoi(c + 1);
                fprintf(stdout, "E %ld - deliver %d\n", step_no, atoi(c + 1));
                take(c);
                step_no++;
                return NULL;
            }
            else if ((ctid = find_thread(c)) >= 0 && op_enabled(&th[ctid])) { ck = 0; have = 1; }
            if (!have) { diverged = 1; choice_pos = nchoices; }   /* the listed schedule no longer fits */
        }
        /* 2. strategy */
        if (!have) {
            int st = strategy == ST_LIST ? ST_FIRST : strategy;
            if (nP > 0 && spur_used < spur_max && (int) (rnd() % 1000) < spur_rate) {
                ck = 1; ctid = P[rnd() % (uint64_t) nP];
            } else if (nt >= 0 && st != ST_FIRST && (int) (rnd() % 1000) < tick_rate) {
                ck = 2;
            } else if (st == ST_FIRST) {
                ctid = R[0];
            } else if (st == ST_UNIFORM) {
                ctid = R[rnd() % (uint64_t) nR];
            } else if (st == ST_STARVED || st == ST_EAGERD) {
                int hasD = 0, others[MAXT], no = 0;
                for (i = 0; i < nR; i++) { if (R[i] == 0) hasD = 1; else others[no++] = R[i]; }
                if (st == ST_EAGERD) ctid = hasD ? 0 : R[rnd() % (uint64_t) nR];
                else ctid = no ? others[rnd() % (uint64_t) no] : 0;
            } else {            /* PCT: highest priority enabled thread; priority drops at change points */
                int best = -1;
                for (i = 0; i < nR; i++)
                    if (best < 0 || th[R[i]].prio > th[best].prio) best = R[i];
                for (i = 0; i < pct_depth - 1 && i < 16; i++)
                    if (pct_cp[i] == step_no) { th[best].prio = pct_depth - 1 - (pct_next_low++); break; }
                best = -1;
                for (i = 0; i < nR; i++)
                    if (best < 0 || th[R[i]].prio > th[best].prio) best = R[i];
                ctid = best;
            }
        }
    }
    if (ck == 2) {
        long to = (nR == 0 && nt > vclock) ? nt : vclock + 1;
        vclock = to;
        fprintf(stdout, "E %ld - tick %ld\n", step_no, vclock);
        take("t");
        step_no++;
        return NULL;
    }
    if (ck == 1) {
        spur_used++;
        snprintf(tok, sizeof tok, "s%s", th[ctid].name);
        take(tok);
        apply(&th[ctid], 1, 0);
        step_no++;
        return NULL;
    }
    take(th[ctid].name);
    i = apply(&th[ctid], 0, 0);
    step_no++;
    return i ? &th[ctid] : NULL;
}

static void schedule_loop(struct vthread *me)
{
    for (;;) {
        struct vthread *n = pick_and_apply();
        if (!n) continue;
        if (n == me) return;
        sem_post(&n->sem);
        /* a thread whose start routine returned goes on to end; a thread that was cancelled while it
         * was the one executing the scheduler (pthread_cancel of the signals thread in the middle of
         * a handler) must never run pdsh code again: it parks for good like any other cancelled thread */
        if (me->alive || !me->ended) sem_wait(&me->sem);
        return;
    }
}

struct op *sched_do(struct op o)
{
    struct vthread *me = self;
    if (!me) sched_bug("wrapped call from an unknown thread");
    me->pend = o;
    if (me->cancel_pending && is_cancel_point(o.kind)) {
        /* the cancelled thread reaches a cancellation point: it ends here */
        me->cancel_pending = 0;
        me->alive = 0;
        vid_release(me);
        me->pend.kind = OP_NONE;
        if (trace_inline) fprintf(stdout, "I %s cancelled\n", me->name);
        if (me->eager) { me->eager = 0; sem_post(&handback); }
        else schedule_loop(me);
        for (;;) pause();
    }
    if (!(yield_mask & o.cls) && o.kind != OP_WAIT && op_enabled(me)) {
        /* not a scheduling point; a thread that performs operations forever without ever reaching
         * a scheduling point is reported (status=spin) instead of filling the disk */
        if (++inline_run > spin_limit) finish("spin", 0);
        apply(me, 0, 1);
        return &me->pend;
    }
    inline_run = 0;
    if (me->eager) {            /* first scheduling point of a new thread: hand back to the creator */
        me->eager = 0;
        sem_post(&handback);
        sem_wait(&me->sem);
        return &me->pend;
    }
    schedule_loop(me);
    return &me->pend;
}

void sched_mem(struct op o)
{
    /* only memory accesses made by pdsh code of the running pdsh thread count, and only when the case asks for them */
    if (!self || !(yield_mask & Y_MEM) || !self->alive) return;
    sched_do(o);
}

static void *tramp(void *p)
{
    struct vthread *me = p;
    self = me;
    sem_wait(&me->sem);
    me->fn(me->arg);
    me->alive = 0;
    vid_release(me);
    me->ended = 1;
    me->pend.kind = OP_NONE;
    if (trace_inline) fprintf(stdout, "I %s end\n", me->name);
    if (me->eager) { me->eager = 0; sem_post(&handback); return NULL; }
    schedule_loop(me);
    return NULL;
}

/* ------------------------------------------------------------------ the wrappers */
int __wrap_pthread_create(pthread_t *thr, const pthread_attr_t *attr, void *(*fn) (void *), void *arg)
{
    int k = verif_fn_kind(fn);
    struct op o = { .kind = OP_CREATE, .cls = (k == 1 || k == 4) ? Y_FAN : Y_SIG, .obj = thr, .fn = fn, .arg = arg };
    (void) attr;
    site_note("create", __builtin_return_address(0));
    if ((k == 1 || k == 4) && createfail >= 0 && verif_t_index(arg) == createfail) {
        fprintf(stdout, "I %s createfail W%d\n", self ? self->name : "?", createfail);
        createfail = -1;        /* once */
        return EAGAIN;
    }
    return (int) sched_do(o)->ret;
}
int __wrap_pthread_mutex_lock(pthread_mutex_t *m)
{
    struct op o = { .kind = OP_LOCK, .cls = mutex_of(m)->cls, .obj = m };
    if (self && self->alive && mutex_of(m)->owner == self->id) {
        /* a default (non-recursive) mutex locked by the thread that holds it: that thread hangs for good.  Reported
         * at once and by name (status=self-deadlock) instead of leaving the thread blocked until -- if ever --
         * nothing else can run. */
        fprintf(stdout, "I %s self-lock %s\n", self->name, mutex_of(m)->name);
        finish("self-deadlock", 0);
    }
    return (int) sched_do(o)->ret;
}
int __wrap_pthread_mutex_unlock(pthread_mutex_t *m)
{
    struct op o = { .kind = OP_UNLOCK, .cls = mutex_of(m)->cls, .obj = m };
    int rc = (int) sched_do(o)->ret;
    if (stub_resolve && o.cls == Y_MISC && self && self->alive) {
        /* `resolve 1`: a thread may be preempted right after it has dropped a mutex, before it touches what the mutex
         * protected (e.g. the resolver's static buffer): one more scheduling point of class `misc` */
        struct op y = { .kind = OP_MEM, .cls = Y_MISC, .a = 0 };
        sched_do(y);
    }
    return rc;
}
/* the resolver of the harness: like libc's, ONE static result buffer that every call overwrites */
struct hostent *__wrap_gethostbyname(const char *name)
{
    static struct hostent he;
    static unsigned char abuf[4];
    static char *alist[2];
    static char hname[128];
    int i;
    for (i = 0; i < nvhosts; i++)
        if (strcmp(vhosts[i].name, name) == 0)
            break;
    if (i >= nvhosts) return NULL;
    stub_addr_of(i, abuf);
    snprintf(hname, sizeof hname, "%s", name);
    alist[0] = (char *) abuf; alist[1] = NULL;
    he.h_name = hname; he.h_aliases = alist + 1; he.h_addrtype = AF_INET; he.h_length = 4; he.h_addr_list = alist;
    return &he;
}
int __wrap_pthread_cond_wait(pthread_cond_t *c, pthread_mutex_t *m)
{
    struct op o = { .kind = OP_WAIT, .cls = mutex_of(m)->cls, .obj = c, .obj2 = m };
    site_note("wait", __builtin_return_address(0));
    return (int) sched_do(o)->ret;
}
int __wrap_pthread_cond_signal(pthread_cond_t *c)
{
    struct op o = { .kind = OP_SIGNAL, .cls = c == verif_tc_cond() ? Y_FAN : Y_MISC, .obj = c };
    site_note("signal", __builtin_return_address(0));
    return (int) sched_do(o)->ret;
}
int __wrap_pthread_cond_broadcast(pthread_cond_t *c)
{
    struct op o = { .kind = OP_BCAST, .cls = c == verif_tc_cond() ? Y_FAN : Y_MISC, .obj = c };
    site_note("broadcast", __builtin_return_address(0));
    return (int) sched_do(o)->ret;
}
int __wrap_pthread_kill(pthread_t p, int sig)
{
    pthread_t pp = p;
    struct op o = { .kind = OP_KILL, .cls = Y_SIG, .obj = &pp, .a = sig };
    return (int) sched_do(o)->ret;
}
int __wrap_pthread_cancel(pthread_t p)
{
    pthread_t pp = p;
    struct op o = { .kind = OP_CANCEL, .cls = Y_SIG, .obj = &pp };
    return (int) sched_do(o)->ret;
}
int __wrap_pthread_join(pthread_t p, void **ret)
{
    static pthread_t pp[MAXT];
    struct vthread *me = self;
    struct op o = { .kind = OP_JOIN, .cls = Y_SIG };
    if (!me) return 0;
    pp[me->id] = p;             /* the handle must outlive this frame while the operation is pending */
    o.obj = &pp[me->id];
    if (ret) *ret = NULL;
    return (int) sched_do(o)->ret;
}
int __wrap_pthread_sigmask(int how, const sigset_t *set, sigset_t *old)
{
    struct op o = { .kind = OP_SIGMASK, .cls = Y_SIG, .a = how };
    (void) set; (void) old;
    return (int) sched_do(o)->ret;
}
int __wrap_sigwait(const sigset_t *set, int *sig)
{
    struct op o = { .kind = OP_SIGWAIT, .cls = Y_SIG };
    (void) set;
    *sig = (int) sched_do(o)->ret;
    return 0;
}
int __wrap_raise(int sig)
{
    struct op o = { .kind = OP_RAISE, .cls = Y_SIG, .a = sig };
    return (int) sched_do(o)->ret;
}
time_t __wrap_time(time_t *tp)
{
    struct op o = { .kind = OP_TIME, .cls = Y_TIME };
    time_t v = (time_t) sched_do(o)->ret;
    if (tp) *tp = v;
    return v;
}
unsigned int __wrap_sleep(unsigned int n)
{
    struct op o = { .kind = OP_SLEEP, .cls = Y_SLEEP, .a = n, .b = vclock + (long) n };
    sched_do(o);
    return 0;
}
int __wrap_poll(struct pollfd *fds, nfds_t n, int timeout)
{
    nfds_t i;
    struct op o = { .kind = OP_POLL, .cls = Y_IO, .obj = fds, .a = (long) n, .b = timeout };
    struct op *r;
    for (i = 0; i < n; i++)
        if (fds[i].fd >= 0 && vmap(fds[i].fd) < VFD_BASE)
            return __real_poll(fds, n, timeout);
    o.ret = timeout >= 0 ? vclock + (timeout + 999) / 1000 : 0;
    r = sched_do(o);
    if (r->ret < 0) errno = r->err;
    return (int) r->ret;
}
ssize_t __wrap_read(int fd, void *buf, size_t n)
{
    struct op o = { .kind = OP_READ, .cls = Y_IO, .obj = buf, .a = fd, .b = (long) n };
    struct op *r;
    o.a = fd = vmap(fd);
    if (fd < VFD_BASE) return __real_read(fd, buf, n);
    r = sched_do(o);
    if (r->ret < 0) errno = r->err;
    return (ssize_t) r->ret;
}
int __wrap_close(int fd)
{
    struct op o = { .kind = OP_CLOSE, .cls = Y_IO, .a = vmap(fd) };
    if (vmap(fd) < VFD_BASE) return __real_close(fd);
    return (int) sched_do(o)->ret;
}
int __wrap_fcntl(int fd, int cmd, ...)
{
    va_list ap;
    long arg;
    va_start(ap, cmd);
    arg = va_arg(ap, long);
    va_end(ap);
    if (vmap(fd) >= VFD_BASE) return 0;
    return __real_fcntl(fd, cmd, arg);
}
int __wrap_fputs(const char *s, FILE *f)
{
    struct op o = { .kind = OP_FPUTS, .cls = Y_IO, .obj = (void *) s, .a = f == stdout ? 1 : f == stderr ? 2 : 3 };
    if (!self) return __real_fputs(s, f);
    return (int) sched_do(o)->ret;
}
int __wrap_fflush(FILE *f)
{
    (void) f;                   /* pdsh's own streams are virtual */
    return 0;
}
void __wrap_exit(int code)
{
    struct vthread *me = self;
    fprintf(stdout, "I %s exit %d\n", me ? me->name : "?", code);
    finish("exit", code);
    for (;;) ;
}

/* ------------------------------------------------------------------ case file */
static unsigned char *unhex(const char *s, int *len)
{
    size_t n = strlen(s), i;
    unsigned char *b = malloc(n / 2 + 1);
    if (strcmp(s, "-") == 0) { *len = 0; b[0] = 0; return b; }
    for (i = 0; i + 1 < n; i += 2) {
        unsigned v;
        sscanf(s + i, "%2x", &v);
        b[i / 2] = (unsigned char) v;
    }
    *len = (int) (n / 2);
    b[n / 2] = 0;
    return b;
}

static int yield_of(const char *s)
{
    int m = 0;
    if (strstr(s, "fan")) m |= Y_FAN;
    if (strstr(s, "thd")) m |= Y_THD;
    if (strstr(s, "misc")) m |= Y_MISC;
    if (strstr(s, "time")) m |= Y_TIME;
    if (strstr(s, "io")) m |= Y_IO;
    if (strstr(s, "sig")) m |= Y_SIG;
    if (strstr(s, "sleep")) m |= Y_SLEEP;
    if (strstr(s, "mem")) m |= Y_MEM;
    if (strstr(s, "all")) m |= Y_FAN | Y_THD | Y_TIME | Y_IO | Y_SIG | Y_SLEEP;
    return m;
}

static int pers = DSH;
pers_t pdsh_personality(void) { return pers; }

int main(int argc, char **argv)
{
    static opt_t opt;
    static char line[1 << 20];
    FILE *f;
    char *cmd = NULL;
    int cmdlen = 0, i, rc;
    struct vhost *h = NULL;

    if (argc < 2 || !(f = fopen(argv[1], "r"))) { fprintf(stderr, "usage: sched_run <case>\n"); return 3; }
    {   /* all threads on one CPU: the baton hand-over is then a plain context switch (10x faster
         * than cross-CPU futex wake-ups in a VM); which CPU is irrelevant for the result */
        cpu_set_t set;
        const char *e = getenv("SCHED_CPU");
        int cpu = e ? atoi(e) : sched_getcpu();
        CPU_ZERO(&set);
        CPU_SET(cpu >= 0 ? cpu : 0, &set);
        sched_setaffinity(0, sizeof set, &set);
    }
    setvbuf(stdout, NULL, _IOFBF, 1 << 20);
    choices = calloc(MAXCH, sizeof(char *));
    memset(&opt, 0, sizeof opt);
    opt.progname = "pdsh";
    opt.luser = "luser";
    opt.ruser = "ruser";
    opt.fanout = 1;
    opt.connect_timeout = 10;
    opt.labels = true;
    while (fgets(line, sizeof line, f)) {
        char *k = strtok(line, " \t\n"), *v;
        if (!k || k[0] == '#') continue;
        v = strtok(NULL, " \t\n");
        if (!strcmp(k, "fanout")) opt.fanout = atoi(v);
        else if (!strcmp(k, "labels")) opt.labels = atoi(v);
        else if (!strcmp(k, "sopt")) opt.separate_stderr = atoi(v);
        else if (!strcmp(k, "S")) opt.ret_remote_rc = atoi(v);
        else if (!strcmp(k, "k")) opt.kill_on_fail = atoi(v);
        else if (!strcmp(k, "K")) { if (atoi(v)) err_no_strip_domain(); }   /* -K as opt.c does (C05/C06 relay part) */
        else if (!strcmp(k, "batch")) opt.sigint_terminates = atoi(v);
        else if (!strcmp(k, "ct")) opt.connect_timeout = atoi(v);
        else if (!strcmp(k, "ut")) opt.command_timeout = atoi(v);
        else if (!strcmp(k, "debug")) opt.debug = atoi(v);
        else if (!strcmp(k, "pers")) pers = strcmp(v, "pcp") == 0 ? PCP : DSH;
        else if (!strcmp(k, "cmd")) cmd = (char *) unhex(v, &cmdlen);
        else if (!strcmp(k, "clock0")) vclock = atol(v);
        else if (!strcmp(k, "yield")) yield_mask = yield_of(v);
        else if (!strcmp(k, "inline")) trace_inline = atoi(v);
        else if (!strcmp(k, "budget")) budget = atol(v);
        else if (!strcmp(k, "tstates")) show_ts = atoi(v);
        else if (!strcmp(k, "spinlimit")) spin_limit = atol(v);
        else if (!strcmp(k, "reltime")) reltime = atoi(v);
        else if (!strcmp(k, "createfail")) createfail = atoi(v);
        else if (!strcmp(k, "nofile")) nofile = atol(v);
        else if (!strcmp(k, "nofile_soft")) nofile_soft = atol(v);
        else if (!strcmp(k, "resolve")) stub_resolve = atoi(v);
        else if (!strcmp(k, "connerr")) stub_connerr = atoi(v);
        else if (!strcmp(k, "lowfds")) { int m = atoi(v), b; for (b = 0; b < 3; b++) low_owner[b] = (m >> b) & 1 ? -1 : -2; }
        else if (!strcmp(k, "seed")) { rng = 88172645463325252ULL ^ ((uint64_t) atoll(v) * 0x9e3779b97f4a7c15ULL); if (!rng) rng = 1; rnd(); rnd(); }
        else if (!strcmp(k, "spurious")) { spur_rate = atoi(v); v = strtok(NULL, " \t\n"); spur_max = v ? atoi(v) : 1000000; }
        else if (!strcmp(k, "tickrate")) tick_rate = atoi(v);
        else if (!strcmp(k, "pct")) { pct_depth = atoi(v); v = strtok(NULL, " \t\n"); if (v) pct_len = atoi(v); }
        else if (!strcmp(k, "strategy")) {
            strategy = !strcmp(v, "list") ? ST_LIST : !strcmp(v, "uniform") ? ST_UNIFORM : !strcmp(v, "pct") ? ST_PCT :
                !strcmp(v, "starveD") ? ST_STARVED : !strcmp(v, "eagerD") ? ST_EAGERD : ST_FIRST;
        } else if (!strcmp(k, "choices")) {
            for (; v; v = strtok(NULL, " \t\n"))
                if (nchoices < MAXCH) choices[nchoices++] = strdup(v);
        } else if (!strcmp(k, "signal")) {
            if (nsigat < 32) { sigats[nsigat].step = atol(v); v = strtok(NULL, " \t\n"); sigats[nsigat].sig = v ? atoi(v) : SIGINT; nsigat++; }
        } else if (!strcmp(k, "host")) {
            if (nvhosts >= MAXHOSTS) { fprintf(stderr, "too many hosts\n"); return 3; }
            h = &vhosts[nvhosts++];
            memset(h, 0, sizeof *h);
            snprintf(h->name, sizeof h->name, "%s", v);
        } else if (h && !strcmp(k, "connect")) {
            h->conn_kind = !strcmp(v, "refuse") ? CONN_REFUSE : !strcmp(v, "hang") ? CONN_HANG : CONN_OK;
            v = strtok(NULL, " \t\n");
            h->conn_at = v ? atol(v) : 0;
            h->conn_rel = h->conn_at;
        } else if (h && !strcmp(k, "rc")) h->destroy_rc = atoi(v);
        else if (h && !strcmp(k, "life")) { h->life = atol(v); h->life_set = 1; }
        else if (h && !strcmp(k, "ignoreterm")) h->ignoreterm = atoi(v);
        else if (h && !strcmp(k, "termgrace")) h->termgrace = atol(v);
        else if (h && !strcmp(k, "destroyhang")) h->destroy_hang = atoi(v);
        else if (h && (!strcmp(k, "out") || !strcmp(k, "err"))) {
            struct script *s = &h->s[k[0] == 'e'];
            struct item *it;
            char *d = strtok(NULL, " \t\n");
            if (s->n >= MAXITEMS) { fprintf(stderr, "too many script items\n"); return 3; }
            it = &s->it[s->n++];
            it->at = atol(v) < 0 ? NEVER : atol(v);
            if (!d || !strcmp(d, "EOF")) it->kind = IT_EOF;
            else if (!strcmp(d, "ERR")) it->kind = IT_ERR;
            else { it->kind = IT_DATA; it->bytes = unhex(d, &it->len); }
        } else { fprintf(stderr, "bad case line: %s\n", k); return 3; }
    }
    fclose(f);
    /* script times are relative to the start of the run */
    for (i = 0; i < nvhosts; i++) {
        int j, k;
        if (reltime) continue;
        vhosts[i].conn_at += vclock;
        for (k = 0; k < 2; k++)
            for (j = 0; j < vhosts[i].s[k].n; j++)
                if (vhosts[i].s[k].it[j].at < NEVER) vhosts[i].s[k].it[j].at += vclock;
    }
    fanout = opt.fanout;
    ct = opt.connect_timeout;
    ut = opt.command_timeout;
    if (strategy == ST_PCT)
        for (i = 0; i < pct_depth - 1 && i < 16; i++)
            pct_cp[i] = (int) (rnd() % (uint64_t) (pct_len > 0 ? pct_len : 1));

#ifndef __SANITIZE_ADDRESS__
    signal(SIGSEGV, on_fault);
    signal(SIGBUS, on_fault);
#endif
    sem_init(&handback, 0, 0);
    memset(&th[0], 0, sizeof th[0]);
    th[0].alive = 1;
    th[0].widx = -1;
    th[0].hist = 1469598103934665603ULL;
    th[0].prio = pct_depth + 50000;
    strcpy(th[0].name, "D");
    sem_init(&th[0].sem, 0, 0);
    nth = 1;
    self = &th[0];             /* from here on wrapped calls are operations of thread D */

    err_init("pdsh");
    opt.cmd = Strdup(cmd ? cmd : "true");
    if (pers == PCP) {          /* pdcp: dsh() builds the remote command itself, workers are _rcp_thread */
        opt.remote_program_path = "/usr/bin/pdcp";
        opt.outfile_name = "/tmp/dest";
        opt.infile_names = list_create(NULL);
        list_append(opt.infile_names, "/etc/hostname");
    }
    opt.wcoll = hostlist_create(NULL);
    for (i = 0; i < nvhosts; i++)
        hostlist_push_host(opt.wcoll, vhosts[i].name);
    if (rcmd_register_default_rcmd("sched") < 0) { fprintf(stderr, "cannot register stub rcmd module\n"); return 3; }

    fprintf(stdout, "H fanout=%d n=%d yield=%d\n", opt.fanout, nvhosts, yield_mask);
    if (nofile > 0) {           /* a tight descriptor limit: dsh() must not let it change what the fanout means */
        struct rlimit rl = { (rlim_t) nofile, (rlim_t) nofile };
        if (nofile_soft >= 0 && nofile_soft < nofile) rl.rlim_cur = (rlim_t) nofile_soft;
        __real_fflush(stdout);
        setrlimit(RLIMIT_NOFILE, &rl);
    }
    getrlimit(RLIMIT_NOFILE, &rl_at_call);
    fanout_in_use = &opt.fanout;

    rc = dsh(&opt);

    {
        struct op o = { .kind = OP_RETURN, .cls = Y_FAN, .a = rc };
        sched_do(o);
    }
    finish("ok", rc);
    return 0;
}
