#!/usr/bin/env python3
"""mutation testing of the C03/C04 checks (not run by any check; a development aid):
    python3 harness/sched/mutants.py <verif worktree> [mutant ids...]
Each mutant = scratch copy of /repo under /var/tmp with one edit of src/pdsh/dsh.c, then
`VERIF_REPO=<copy> ./check.py C03|C04 --tier quick`; expected: exit 1 (except the equivalent mutants m19, m20)."""
import os
import shutil
import subprocess
import sys

W = sys.argv[1]
MUTS = {
    "m01-no-increment": [("        threadcount++;\n", "        ;\n")],
    "m02-off-by-one": [("if (opt->fanout == threadcount)", "if (opt->fanout + 1 == threadcount)")],
    "m03-wrong-comparison": [("if (opt->fanout == threadcount)", "if (opt->fanout < threadcount)")],
    "m04-inc-outside-mutex": [("        threadcount++;\n\n        dsh_mutex_unlock(&threadcount_mutex);",
                               "        dsh_mutex_unlock(&threadcount_mutex);\n        threadcount++;")],
    "m05-signal-before-dec-rsh": [("    threadcount--;\n    pthread_cond_signal(&threadcount_cond);\n    dsh_mutex_unlock(&threadcount_mutex);\n    return NULL;",
                                   "    pthread_cond_signal(&threadcount_cond);\n    threadcount--;\n    dsh_mutex_unlock(&threadcount_mutex);\n    return NULL;")],
    "m06-no-signal-rsh": [("    threadcount--;\n    pthread_cond_signal(&threadcount_cond);\n    dsh_mutex_unlock(&threadcount_mutex);\n    return NULL;",
                           "    threadcount--;\n    dsh_mutex_unlock(&threadcount_mutex);\n    return NULL;")],
    "m07-drain-if": [("    while (threadcount > 0)\n", "    if (threadcount > 0)\n")],
    "m08-drain-gt1": [("    while (threadcount > 0)\n", "    while (threadcount > 1)\n")],
    "m09-drain-ge0": [("    while (threadcount > 0)\n", "    while (threadcount >= 0)\n")],
    "m10-skip-last": [("    for (i = 0; i < rshcount; i++) {\n\n        /* wait until", "    for (i = 0; i < rshcount - 1; i++) {\n\n        /* wait until")],
    "m11-same-slot": [("? _rsh_thread : _rcp_thread, (void *) &t[i]);", "? _rsh_thread : _rcp_thread, (void *) &t[i > 1 ? 1 : i]);")],
    "m12-double-dec-rsh": [("    threadcount--;\n    pthread_cond_signal(&threadcount_cond);\n    dsh_mutex_unlock(&threadcount_mutex);\n    return NULL;",
                            "    threadcount -= 2;\n    pthread_cond_signal(&threadcount_cond);\n    dsh_mutex_unlock(&threadcount_mutex);\n    return NULL;")],
    "m13-no-unlock-rsh": [("    pthread_cond_signal(&threadcount_cond);\n    dsh_mutex_unlock(&threadcount_mutex);\n    return NULL;",
                           "    pthread_cond_signal(&threadcount_cond);\n    return NULL;")],
    "m14-signal-after-unlock-rsh": [("    pthread_cond_signal(&threadcount_cond);\n    dsh_mutex_unlock(&threadcount_mutex);\n    return NULL;",
                                     "    dsh_mutex_unlock(&threadcount_mutex);\n    pthread_cond_signal(&threadcount_cond);\n    return NULL;")],
    "m15-dec-before-destroy": [("    rv = rcmd_destroy (a->rcmd);\n    if ((a->rc == 0) && (rv > 0))\n        a->rc = rv;\n",
                                "    dsh_mutex_lock(&threadcount_mutex);\n    threadcount--;\n    pthread_cond_signal(&threadcount_cond);\n    dsh_mutex_unlock(&threadcount_mutex);\n    rv = rcmd_destroy (a->rcmd);\n    threadcount++;\n"),
                               ],
    "m16-no-dispatcher-lock": [("        /* wait until \"room\" for another thread */\n        dsh_mutex_lock(&threadcount_mutex);\n",
                                "        /* wait until \"room\" for another thread */\n"),
                               ("        threadcount++;\n\n        dsh_mutex_unlock(&threadcount_mutex);", "        threadcount++;\n")],
    "m17-wait-when-not-full": [("if (opt->fanout == threadcount)", "if (opt->fanout == threadcount || threadcount == 1)")],
    "m18-connect-twice": [("    rcmd_connect (a->rcmd, a->host, a->addr, a->luser, a->ruser,\n                  a->cmd, a->nodeid, a->dsh_sopt);\n\n    if (a->rcmd->fd == -1) {\n        result = DSH_FAILED;    /* connect failed */",
                           "    rcmd_connect (a->rcmd, a->host, a->addr, a->luser, a->ruser,\n                  a->cmd, a->nodeid, a->dsh_sopt);\n    if (a->rcmd->fd == -1) rcmd_connect (a->rcmd, a->host, a->addr, a->luser, a->ruser,\n                  a->cmd, a->nodeid, a->dsh_sopt);\n\n    if (a->rcmd->fd == -1) {\n        result = DSH_FAILED;    /* connect failed */")],
    "m21-no-signal-rcp": [("    threadcount--;\n    pthread_cond_signal(&threadcount_cond);\n    dsh_mutex_unlock(&threadcount_mutex);\n\n    return NULL;",
                           "    threadcount--;\n    dsh_mutex_unlock(&threadcount_mutex);\n\n    return NULL;")],
    "m19-while-fix": [("if (opt->fanout == threadcount)", "while (opt->fanout == threadcount)")],
    "m20-while-le": [("if (opt->fanout == threadcount)", "while (opt->fanout <= threadcount)")],
    # descriptor 0 taken for a failed connect (seeded C03-8): needs a run in which a connection gets number 0 (`lowfds`)
    "m22-fd0-is-failure": [("    if (a->rcmd->fd == -1) {\n        result = DSH_FAILED;    /* connect failed */\n    } else if (_update_connect_state(a) != DSH_CANCELED) {\n\n        /* prep for poll call */",
                            "    if (a->rcmd->fd <= 0) {\n        result = DSH_FAILED;    /* connect failed */\n    } else if (_update_connect_state(a) != DSH_CANCELED) {\n\n        /* prep for poll call */")],
}
ids = sys.argv[2:] or sorted(MUTS)
for mid in ids:
    dst = "/var/tmp/fan-mut-" + mid
    shutil.rmtree(dst, ignore_errors=True)
    subprocess.run(["cp", "-a", "/repo", dst], check=True)
    p = dst + "/src/pdsh/dsh.c"
    s = open(p).read()
    for a, b in MUTS[mid]:
        if s.count(a) != 1:
            print(mid, "PATTERN COUNT", s.count(a), repr(a[:50]))
        s = s.replace(a, b)
    open(p, "w").write(s)
    for prop in ("C03", "C04"):
        r = subprocess.run(["./check.py", prop, "--tier", "quick"], cwd=W, env=dict(os.environ, VERIF_REPO=dst, VERIF_SEED="1"),
                           stdout=subprocess.PIPE, stderr=subprocess.STDOUT)
        out = r.stdout.decode()
        lines = [l for l in out.splitlines() if "VIOLATION" in l or "KNOWN-FINDING" in l or "violation:" in l or "broken:" in l]
        print("==", mid, prop, "rc=%d" % r.returncode)
        for l in lines[:6]:
            print("   ", l[:330])
        sys.stdout.flush()
    shutil.rmtree(dst, ignore_errors=True)
