/* sched/mem_hooks.c -- memory-access scheduling points without touching dsh.c.
 *
 * In the `mem` flavour of the harness, dsh_tu.c (= the unmodified dsh.c + accessors) is COMPILED with
 * -fsanitize=thread, but the ThreadSanitizer runtime is NOT linked: the compiler merely inserts a call
 * __tsan_read<N>(addr) / __tsan_write<N>(addr) before every load / store of dsh.c, and this file supplies those
 * functions.  An access to `threadcount` becomes an operation of the controlled scheduler (class `mem`), so that
 * `threadcount++` is no longer atomic: load, <other threads>, store.  Everything else is a no-op.
 * The instrumentation only adds calls; the code of dsh.c is otherwise what the compiler makes of it anyway. */
#include <stddef.h>
#include "vsched.h"

extern void *verif_threadcount_addr(void);

static void access(void *a, int write)
{
    if (a == verif_threadcount_addr()) {
        struct op o = { .kind = OP_MEM, .cls = Y_MEM, .a = write };
        sched_mem(o);
    }
}

void __tsan_init(void) { }
void __tsan_func_entry(void *pc) { (void) pc; }
void __tsan_func_exit(void) { }
void __tsan_read1(void *a) { (void) a; }
void __tsan_read2(void *a) { (void) a; }
void __tsan_read4(void *a) { access(a, 0); }
void __tsan_read8(void *a) { (void) a; }
void __tsan_read16(void *a) { (void) a; }
void __tsan_write1(void *a) { (void) a; }
void __tsan_write2(void *a) { (void) a; }
void __tsan_write4(void *a) { access(a, 1); }
void __tsan_write8(void *a) { (void) a; }
void __tsan_write16(void *a) { (void) a; }
void __tsan_unaligned_read2(void *a) { (void) a; }
void __tsan_unaligned_read4(void *a) { access(a, 0); }
void __tsan_unaligned_read8(void *a) { (void) a; }
void __tsan_unaligned_read16(void *a) { (void) a; }
void __tsan_unaligned_write2(void *a) { (void) a; }
void __tsan_unaligned_write4(void *a) { access(a, 1); }
void __tsan_unaligned_write8(void *a) { (void) a; }
void __tsan_unaligned_write16(void *a) { (void) a; }
void __tsan_read_range(void *a, unsigned long n) { (void) a; (void) n; }
void __tsan_write_range(void *a, unsigned long n) { (void) a; (void) n; }
void __tsan_vptr_update(void **p, void *v) { (void) p; (void) v; }
void __tsan_vptr_read(void **p) { (void) p; }
