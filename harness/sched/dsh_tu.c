/* sched/dsh_tu.c -- the UNMODIFIED dsh.c of the tree being checked, followed by accessors only.
 * Nothing here changes the behaviour of dsh.c: the accessors expose static state to the
 * controlled scheduler (sched.c) and the transport stub (rcmd_stub.c). */
#include "src/pdsh/dsh.c"

/* the accessors are never instrumented (mem flavour): they are the harness looking, not pdsh */
#define NOINSTR __attribute__((no_sanitize("thread")))
NOINSTR void *verif_threadcount_addr(void) { return (void *) &threadcount; }
void *verif_tc_mutex(void) { return (void *) &threadcount_mutex; }
void *verif_tc_cond(void) { return (void *) &threadcount_cond; }
void *verif_thd_mutex(void) { return (void *) &thd_mutex; }
NOINSTR int verif_threadcount(void) { return threadcount; }
int verif_have_t(void) { return t != NULL; }

/* index of a thd_t (the start-routine argument of a worker) in t[] */
int verif_t_index(void *arg)
{
    if (t == NULL || arg == NULL)
        return -1;
    return (int) ((thd_t *) arg - t);
}

/* 0 unknown, 1 _rsh_thread, 2 _wdog, 3 _signals_thread, 4 _rcp_thread */
int verif_fn_kind(void *(*fn) (void *))
{
    if (fn == _rsh_thread)
        return 1;
    if (fn == _wdog)
        return 2;
    if (fn == _signals_thread)
        return 3;
    if (fn == _rcp_thread)
        return 4;
    return 0;
}

int verif_t_state(int i) { return t ? (int) t[i].state : -1; }
int verif_t_rc(int i) { return t ? t[i].rc : -1; }
const char *verif_t_host(int i) { return t ? t[i].host : NULL; }
long verif_t_start(int i) { return t ? (long) t[i].start : -1; }
long verif_t_connect(int i) { return t ? (long) t[i].connect : -1; }
long verif_t_finish(int i) { return t ? (long) t[i].finish : -1; }
