/* relay_harness.c -- in-process, single-threaded driver of the REAL output relay of pdsh
 * (engine `relay`, properties C05/C06).
 *
 * The translation unit #includes the unmodified src/pdsh/dsh.c, src/common/err.c and
 * src/pdsh/cbuf.c and is linked with the real xmalloc.c, xstring.c, fd.c (all taken from the
 * tree under test on every run).  It drives dsh.c's static functions
 *     _thd_init, _handle_rcmd_stdout/_handle_rcmd_stderr (-> _do_output -> _flush_lines ->
 *     _extract_rc), _flush_output
 * over non-blocking pipes into which it writes the scripted chunks between the calls, one
 * thd_t per target in the global array `t` exactly as dsh() lays it out.
 *
 * Observable: every stdio call that reaches stdout/stderr.  err.c's _verr() ends in ONE
 * fputs(buf, stream) per out()/err() call; fputs is interposed with -Wl,--wrap=fputs and each
 * call on stdout/stderr is recorded as one emission (stream, bytes) instead of being written.
 * Anything that reaches the two FILEs by another route (fwrite, fprintf, putc, ... -- e.g.
 * after a patch) lands in a memfd behind the FILE and is reported as a `raw` emission
 * (r1:/r2:), so no output can escape the record.
 *
 * What is NOT the real code here: (a) the 8-line loop of dsh() that decides whether labels
 * keep the domain ("targets span different domains") is inline in dsh() and not separately
 * callable; it is replicated in compute_domain_flag() below and then calls the real
 * err_no_strip_domain(); the real-process part of checks/c06.py exercises dsh()'s own loop.
 * (b) -K calls err_no_strip_domain() as opt.c does.  (c) rcmd_create() is a stub handing out a
 * blank rcmd_info (relay_stubs.h).
 *
 * Line protocol (one answer line per op line; bytes in hex, "-" = empty):
 *   begin L K N name_0 .. name_{N-1}   labels 0|1, -K 0|1, N targets        -> ok <keep_domain> <meta>
 *   feed  i s HEX [CAP [NEINTR]]   write HEX into host i's pipe s (o|e), call the handler once
 *   eof   i s [CAP [NEINTR]]       close the write end, call the handler once
 *   drain i s [CAP [NEINTR]]       call the handler until it returns <= 0 (as _rsh_thread's loop does)
 *                     CAP (a number; `-` = none): the descriptor delivers at most CAP bytes during each of these
 *                     handler calls (short read; 0 = EAGAIN although data is there); NEINTR: the first NEINTR
 *                     read(2) calls of each handler call fail with EINTR; CAP = `E`: the read fails with EIO
 *                     (the handler prints its diagnostic through err() and closes the descriptor)
 *   run   i s HEX..   a whole stream at once (the model's runStream): one handler call after each
 *                     chunk, close, drain, this stream's _flush_output     -> run <th->rc|-> | S:HEX ...
 *   rcperr i e POPT RV HEX..  pdcp/rpdcp: the real _parallel_copy() of target i (pcp_Popt = POPT, the copy
 *                     protocol stubbed to return RV) with HEX.. as the remote stderr   -> rcp <RV> | S:HEX ...
 *   flush i           _flush_output(outbuf, out, th); _flush_output(errbuf, err, th)
 *   xrc HEX           _extract_rc on a copy of the string                   -> <ret> <string after>
 *   xp NFDS TIMEOUT null|fd:ev:rev,.. KANS   the REAL xpoll() (src/common/xpoll.c, linked from the tree under test)
 *                     on that array; poll(2) is interposed (-Wl,--wrap=poll) and answers KANS = E<errno> (fails) or
 *                     R<rv>:<revents>,.. (return value, one revents word per entry)
 *                     -> <rv> <errno afterwards> | -|<timeout>;fd:events,.. (what poll(2) was called with) | fd:ev:rev,..
 * Answers of feed/eof/drain/flush:  <ncalls> <last ret> <th->rc> | S:HEX S:HEX ...   (S = 1 stdout,
 * 2 stderr, r1/r2 raw) in call order.
 */
#include "src/pdsh/dsh.c"
#include "src/common/err.c"
#include "src/pdsh/cbuf.c"
#define RELAY_REAL_XPOLL 1
#include "relay_stubs.h"

#include <stdio.h>
#include <fcntl.h>
#include <sys/mman.h>

/* ------------------------------------------------------------------ emission record */
struct emission { int stream; size_t len; char *bytes; };
static struct emission *em;
static int nem, capem;
static FILE *real_stdout_file, *real_stderr_file;   /* the FILE objects err.c writes to */
static int proto_fd = -1;                           /* the harness' own answer channel */
static int memfd_out = -1, memfd_err = -1;

static void record(int stream, const char *s, size_t len)
{
    if (nem == capem) {
        capem = capem ? 2 * capem : 64;
        em = realloc(em, capem * sizeof(*em));
    }
    em[nem].stream = stream;
    em[nem].len = len;
    em[nem].bytes = malloc(len + 1);
    memcpy(em[nem].bytes, s, len);
    nem++;
}

int __real_fputs(const char *s, FILE *f);
int __wrap_fputs(const char *s, FILE *f)
{
    if (f == real_stdout_file) { record(1, s, strlen(s)); return 1; }
    if (f == real_stderr_file) { record(2, s, strlen(s)); return 1; }
    return __real_fputs(s, f);
}

/* ------------------------------------------------------------------ scripted poll(2) underneath the real xpoll() */
#define FP_MAX 16
static struct {
    int active, called, fail_errno, rv, nrevs, timeout;
    short revs[FP_MAX];
    unsigned long n;
    struct pollfd seen[FP_MAX];
} fp;
int __real_poll(struct pollfd *fds, nfds_t n, int timeout);
int __wrap_poll(struct pollfd *fds, nfds_t n, int timeout)
{
    if (!fp.active)
        return __real_poll(fds, n, timeout);
    fp.called++;
    fp.timeout = timeout;
    fp.n = (unsigned long) n;
    for (nfds_t i = 0; i < n && i < FP_MAX; i++)
        fp.seen[i] = fds[i];
    if (fp.fail_errno) {
        errno = fp.fail_errno;
        return -1;
    }
    for (nfds_t i = 0; i < n; i++)
        fds[i].revents = i < (nfds_t) fp.nrevs ? fp.revs[i] : 0;
    errno = EAGAIN;             /* errno is unspecified after a successful call: xpoll() promises 0 to its callers */
    return fp.rv;
}

/* ------------------------------------------------------------------ scripted read(2) faults
 * read(2) is interposed (-Wl,--wrap=read).  For the duration of ONE handler call on descriptor
 * `fault_fd` the harness can (a) limit the bytes the descriptor delivers to `fault_budget` in total -- a
 * SHORT read; with nothing left of the budget the read fails with EAGAIN although data may be there (a
 * spurious wake-up); EOF on an empty descriptor still shows -- and (b) let the first `fault_eintr` reads
 * fail with EINTR (cbuf.c's cbuf_get_fd retries those: the handler must not notice). */
#include <sys/ioctl.h>
static int fault_fd = -1;
static long fault_budget = -1;      /* < 0: no limit */
static int fault_eintr;
static int fault_eio;               /* the next read fails with EIO */
static long fault_reads;            /* read(2) calls seen on fault_fd during the handler call */

ssize_t __real_read(int fd, void *buf, size_t n);
ssize_t __wrap_read(int fd, void *buf, size_t n)
{
    ssize_t r;
    if (fd != fault_fd || fd < 0)
        return __real_read(fd, buf, n);
    fault_reads++;
    if (fault_eintr > 0) {
        fault_eintr--;
        errno = EINTR;
        return -1;
    }
    if (fault_eio) {
        fault_eio = 0;
        errno = EIO;
        return -1;
    }
    if (fault_budget < 0)
        return __real_read(fd, buf, n);
    if (fault_budget == 0) {
        int avail = 0;
        if (ioctl(fd, FIONREAD, &avail) == 0 && avail > 0) {
            errno = EAGAIN;
            return -1;
        }
        return __real_read(fd, buf, n);         /* nothing there: EAGAIN, or 0 at EOF */
    }
    r = __real_read(fd, buf, n < (size_t) fault_budget ? n : (size_t) fault_budget);
    if (r > 0)
        fault_budget -= r;
    return r;
}

/* ------------------------------------------------------------------ answer channel */
static char *ans;
static size_t anslen, anscap;

static void ans_put(const char *s, size_t n)
{
    if (anslen + n + 1 > anscap) {
        anscap = 2 * (anslen + n + 1);
        ans = realloc(ans, anscap);
    }
    memcpy(ans + anslen, s, n);
    anslen += n;
}
static void ans_str(const char *s) { ans_put(s, strlen(s)); }
static void ans_int(long v) { char b[32]; snprintf(b, sizeof b, "%ld", v); ans_str(b); }
static void ans_hex(const unsigned char *b, size_t n)
{
    static const char hx[] = "0123456789abcdef";
    if (n == 0) { ans_str("-"); return; }
    if (anslen + 2 * n + 1 > anscap) {
        anscap = 2 * (anslen + 2 * n + 1);
        ans = realloc(ans, anscap);
    }
    for (size_t i = 0; i < n; i++) {
        ans[anslen++] = hx[b[i] >> 4];
        ans[anslen++] = hx[b[i] & 15];
    }
}
static void ans_flush(void)
{
    size_t off = 0;
    ans_str("\n");
    while (off < anslen) {
        ssize_t w = write(proto_fd, ans + off, anslen - off);
        if (w <= 0) _exit(4);
        off += w;
    }
    anslen = 0;
}

/* raw bytes that reached the FILEs without passing fputs */
static void collect_raw(int memfd, int tag)
{
    off_t n = lseek(memfd, 0, SEEK_END);
    if (n > 0) {
        char *b = malloc(n);
        if (pread(memfd, b, n, 0) == n)
            record(tag, b, n);
        free(b);
        if (ftruncate(memfd, 0) < 0) _exit(5);
        lseek(memfd, 0, SEEK_SET);
    }
}

static void ans_emissions(void)
{
    fflush(real_stdout_file);
    fflush(real_stderr_file);
    collect_raw(memfd_out, 11);
    collect_raw(memfd_err, 12);
    ans_str(" |");
    for (int i = 0; i < nem; i++) {
        ans_str(em[i].stream == 1 ? " 1:" : em[i].stream == 2 ? " 2:" : em[i].stream == 11 ? " r1:" : " r2:");
        ans_hex((unsigned char *) em[i].bytes, em[i].len);
        free(em[i].bytes);
    }
    nem = 0;
}

/* ------------------------------------------------------------------ helpers */
static int hexval(int c)
{
    if (c >= '0' && c <= '9') return c - '0';
    if (c >= 'a' && c <= 'f') return c - 'a' + 10;
    if (c >= 'A' && c <= 'F') return c - 'A' + 10;
    return -1;
}

static unsigned char *unhex(const char *s, size_t *len)
{
    size_t n = (strcmp(s, "-") == 0) ? 0 : strlen(s) / 2;
    unsigned char *b = malloc(n + 1);
    for (size_t i = 0; i < n; i++)
        b[i] = (unsigned char) (hexval(s[2 * i]) * 16 + hexval(s[2 * i + 1]));
    b[n] = 0;
    *len = n;
    return b;
}

/* ------------------------------------------------------------------ the case state */
static int nhosts;
static int *wfd[2];          /* write ends of the scripted pipes: [0] stdout, [1] stderr */

static void teardown(void)
{
    if (!t)
        return;
    for (int i = 0; i < nhosts; i++) {
        for (int s = 0; s < 2; s++)
            if (wfd[s][i] >= 0) close(wfd[s][i]);
        if (t[i].rcmd) {
            if (t[i].rcmd->fd >= 0) close(t[i].rcmd->fd);
            if (t[i].rcmd->efd >= 0) close(t[i].rcmd->efd);
            free(t[i].rcmd);
        }
        if (t[i].outbuf) cbuf_destroy(t[i].outbuf);
        if (t[i].errbuf) cbuf_destroy(t[i].errbuf);
        free(t[i].host);
    }
    Free((void **) &t);
    free(wfd[0]);
    free(wfd[1]);
    wfd[0] = wfd[1] = NULL;
    nhosts = 0;
}

/* replica of the loop in dsh() (dsh.c "Require domain names in labels if hosts have different
 * domains"); calls the real err_no_strip_domain() */
static void compute_domain_flag(void)
{
    const char *domain = NULL;
    bool domain_in_label = false;
    for (int i = 0; i < nhosts; i++) {
        char *d;
        if (!domain_in_label && (d = strchr(t[i].host, '.'))) {
            if (domain == NULL)
                domain = d;
            else if (strcmp(d, domain) != 0)
                domain_in_label = true;
        }
    }
    if (domain_in_label)
        err_no_strip_domain();
}

static int pipe_write_all(int fd, const unsigned char *b, size_t n)
{
    size_t off = 0;
    int grown = 0;
    while (off < n) {
        ssize_t w = write(fd, b + off, n - off);
        if (w > 0) { off += w; continue; }
        if (w < 0 && errno == EINTR) continue;
        if (w < 0 && errno == EAGAIN && !grown) {
            /* scripted chunk larger than the pipe: enlarge the pipe (root may exceed pipe-max-size) */
            int cur = fcntl(fd, F_GETPIPE_SZ);
            long want = (long) cur + (long) (n - off) + 65536;
            if (fcntl(fd, F_SETPIPE_SZ, want) < 0) return -1;
            grown = 1;
            continue;
        }
        return -1;
    }
    return 0;
}

static int call_handler(thd_t *th, int s)
{
    return s == 0 ? _handle_rcmd_stdout(th) : _handle_rcmd_stderr(th);
}

/* one handler call under the read faults given by the op's optional arguments `CAP [NEINTR]` */
static int call_handler_faulty(thd_t *th, int s, const char *cap, const char *neintr)
{
    int rc;
    fault_fd = (s == 0) ? th->rcmd->fd : th->rcmd->efd;
    fault_budget = (cap && cap[0] >= '0' && cap[0] <= '9') ? atol(cap) : -1;
    fault_eio = (cap && cap[0] == 'E');
    fault_eintr = neintr ? atoi(neintr) : 0;
    rc = call_handler(th, s);
    fault_fd = -1;
    fault_budget = -1;
    fault_eintr = 0;
    fault_eio = 0;
    return rc;
}

static int stream_fd(thd_t *th, int s) { return s == 0 ? th->rcmd->fd : th->rcmd->efd; }

/* an op that does not come back is an observable too (e.g. a flush loop that never advances) */
static void op_timeout(int sig)
{
    static const char m[] = "TIMEOUT: relay op did not return\n";
    (void) sig;
    (void) !write(2, m, sizeof(m) - 1);
    _exit(124);
}

int main(int argc, char **argv)
{
    char *line = NULL;
    size_t cap = 0;
    ssize_t got;

    if (argc > 1 && strcmp(argv[1], "--meta") == 0) {
        /* size of the cbuf bookkeeping cells of this build flavour (1, or 1 + 2 magic cookies) */
        cbuf_t cb = cbuf_create(8, 8);
        printf("%d\n", cb->alloc - cb->size);
        cbuf_destroy(cb);
        return 0;
    }

    /* answer channel = the original fd 1; stdout/stderr FILEs are re-pointed at memfds */
    proto_fd = dup(1);
    memfd_out = memfd_create("relay-stdout", 0);
    memfd_err = memfd_create("relay-stderr", 0);
    if (proto_fd < 0 || memfd_out < 0 || memfd_err < 0) return 2;
    fflush(stdout);
    if (dup2(memfd_out, 1) < 0) return 2;
    real_stdout_file = stdout;
    /* fd 2 stays the real stderr (sanitizer reports); only the FILE is re-pointed */
    real_stderr_file = fdopen(memfd_err, "w");
    if (!real_stderr_file) return 2;
    stderr = real_stderr_file;
    err_init("pdsh");
    signal(SIGALRM, op_timeout);

    while ((got = getline(&line, &cap, stdin)) > 0) {
        char *save = NULL;
        alarm(getenv("RELAY_OP_TIMEOUT") ? atoi(getenv("RELAY_OP_TIMEOUT")) : 20);
        char *op = strtok_r(line, " \t\r\n", &save);
        if (!op) { ans_str("bad-op"); ans_flush(); continue; }

        if (!strcmp(op, "begin")) {
            char *a1 = strtok_r(NULL, " \t\r\n", &save);
            char *a2 = strtok_r(NULL, " \t\r\n", &save);
            char *a3 = strtok_r(NULL, " \t\r\n", &save);
            opt_t opt;
            int n;
            if (!a1 || !a2 || !a3 || (n = atoi(a3)) < 1) { ans_str("bad-op"); ans_flush(); continue; }
            teardown();
            keep_host_domain = false;         /* err.c static: fresh process state per case */
            memset(&opt, 0, sizeof(opt));
            opt.labels = atoi(a1) != 0;
            opt.separate_stderr = true;
            nhosts = n;
            if (atoi(a2) != 0)
                err_no_strip_domain();        /* opt.c: case 'K' -- option parsing precedes dsh(), hence _thd_init() */
            /* thread array as dsh() builds it: terminated with t[i].host == NULL */
            t = (thd_t *) Malloc(sizeof(thd_t) * (n + 1));
            wfd[0] = malloc(n * sizeof(int));
            wfd[1] = malloc(n * sizeof(int));
            for (int i = 0; i < n; i++) {
                char *hx = strtok_r(NULL, " \t\r\n", &save);
                size_t len;
                int p[2];
                t[i].host = (char *) unhex(hx ? hx : "-", &len);
                _thd_init(&t[i], &opt, NULL, i);
                for (int s = 0; s < 2; s++) {
                    if (pipe2(p, O_NONBLOCK) < 0) _exit(6);
                    if (s == 0) t[i].rcmd->fd = p[0]; else t[i].rcmd->efd = p[0];
                    wfd[s][i] = p[1];
                }
                /* _rsh_thread: fd_set_nonblocking (a->rcmd->fd) / (a->rcmd->efd) */
                fd_set_nonblocking(t[i].rcmd->fd);
                fd_set_nonblocking(t[i].rcmd->efd);
            }
            compute_domain_flag();
            ans_str("ok ");
            ans_int(keep_host_domain ? 1 : 0);
            ans_str(" ");
            ans_int((long) (t[0].outbuf->alloc - t[0].outbuf->size));
            ans_flush();
            continue;
        }

        if (!strcmp(op, "xrc")) {
            char *hx = strtok_r(NULL, " \t\r\n", &save);
            size_t len;
            unsigned char *b = unhex(hx ? hx : "-", &len);
            /* _flush_lines hands _extract_rc a zero-filled Malloc(n + 1) buffer */
            char *buf = Malloc(len + 1);
            int rc;
            memcpy(buf, b, len);
            rc = _extract_rc(buf);
            ans_int(rc);
            ans_str(" ");
            ans_hex((unsigned char *) buf, strlen(buf));
            ans_flush();
            Free((void **) &buf);
            free(b);
            continue;
        }

        if (!strcmp(op, "xp")) {
            char *a1 = strtok_r(NULL, " \t\r\n", &save);
            char *a2 = strtok_r(NULL, " \t\r\n", &save);
            char *a3 = strtok_r(NULL, " \t\r\n", &save);
            char *a4 = strtok_r(NULL, " \t\r\n", &save);
            struct xpollfd xf[FP_MAX];
            int nx = 0, isnull, rv, e;
            if (!a1 || !a2 || !a3 || !a4) { ans_str("bad-op"); ans_flush(); continue; }
            isnull = !strcmp(a3, "null");
            if (!isnull && strcmp(a3, "-")) {
                char *sv2 = NULL;
                for (char *e1 = strtok_r(a3, ",", &sv2); e1 && nx < FP_MAX; e1 = strtok_r(NULL, ",", &sv2)) {
                    int fd = 0, ev = 0, rev = 0;
                    if (sscanf(e1, "%d:%d:%d", &fd, &ev, &rev) != 3) { nx = -1; break; }
                    xf[nx].fd = fd; xf[nx].events = (short) ev; xf[nx].revents = (short) rev;
                    nx++;
                }
            }
            if (nx < 0 || (!isnull && atoi(a1) > nx)) { ans_str("bad-op"); ans_flush(); continue; }   /* never read past the array */
            memset(&fp, 0, sizeof fp);
            fp.active = 1;
            if (a4[0] == 'E')
                fp.fail_errno = atoi(a4 + 1);
            else {
                char *c = strchr(a4, ':');
                fp.rv = atoi(a4 + 1);
                for (c = c ? c + 1 : NULL; c && *c && fp.nrevs < FP_MAX; ) {
                    fp.revs[fp.nrevs++] = (short) atoi(c);
                    c = strchr(c, ',');
                    if (c) c++;
                }
            }
            errno = 0;
            rv = xpoll(isnull ? NULL : xf, atoi(a1), atoi(a2));
            e = errno;
            fp.active = 0;
            ans_int(rv); ans_str(" "); ans_int(e); ans_str(" | ");
            if (!fp.called) ans_str("-");
            else {
                ans_int(fp.timeout); ans_str(";");
                for (unsigned long i = 0; i < fp.n && i < FP_MAX; i++) {
                    if (i) ans_str(",");
                    ans_int(fp.seen[i].fd); ans_str(":"); ans_int(fp.seen[i].events);
                }
                if (fp.called > 1) ans_str(";calls="), ans_int(fp.called);
            }
            ans_str(" | ");
            if (isnull || nx == 0) ans_str("-");
            for (int i = 0; !isnull && i < nx; i++) {
                if (i) ans_str(",");
                ans_int(xf[i].fd); ans_str(":"); ans_int(xf[i].events); ans_str(":"); ans_int(xf[i].revents);
            }
            ans_flush();
            continue;
        }

        if (!t) { ans_str("no-case"); ans_flush(); continue; }

        {
            char *ai = strtok_r(NULL, " \t\r\n", &save);
            int i = ai ? atoi(ai) : -1;
            thd_t *th;
            if (i < 0 || i >= nhosts) { ans_str("bad-op"); ans_flush(); continue; }
            th = &t[i];

            if (!strcmp(op, "flush")) {
                /* end of _rsh_thread: "flush any pending output" */
                _flush_output(th->outbuf, (out_f) out, th);
                _flush_output(th->errbuf, (out_f) err, th);
                ans_str("2 0 ");
                ans_int(th->rc);
                ans_emissions();
                ans_flush();
                continue;
            }

            char *as = strtok_r(NULL, " \t\r\n", &save);
            int s = (as && as[0] == 'e') ? 1 : 0;
            if (!as) { ans_str("bad-op"); ans_flush(); continue; }
            if (stream_fd(th, s) < 0) { ans_str("closed"); ans_flush(); continue; }

            if (!strcmp(op, "feed")) {
                char *hx = strtok_r(NULL, " \t\r\n", &save);
                size_t len;
                unsigned char *b = unhex(hx ? hx : "-", &len);
                int rc;
                if (wfd[s][i] < 0 && len > 0) { free(b); ans_str("bad-op"); ans_flush(); continue; }
                if (len > 0 && pipe_write_all(wfd[s][i], b, len) < 0) {
                    free(b); ans_str("bad-op pipe"); ans_flush(); continue;
                }
                free(b);
                {
                    char *cap = strtok_r(NULL, " \t\r\n", &save);
                    char *ne = cap ? strtok_r(NULL, " \t\r\n", &save) : NULL;
                    rc = call_handler_faulty(th, s, cap, ne);
                }
                ans_str("1 ");
                ans_int(rc);
                ans_str(" ");
                ans_int(th->rc);
                ans_emissions();
                ans_flush();
                continue;
            }
            if (!strcmp(op, "eof")) {
                int rc;
                if (wfd[s][i] >= 0) { close(wfd[s][i]); wfd[s][i] = -1; }
                {
                    char *cap = strtok_r(NULL, " \t\r\n", &save);
                    char *ne = cap ? strtok_r(NULL, " \t\r\n", &save) : NULL;
                    rc = call_handler_faulty(th, s, cap, ne);
                }
                ans_str("1 ");
                ans_int(rc);
                ans_str(" ");
                ans_int(th->rc);
                ans_emissions();
                ans_flush();
                continue;
            }
            if (!strcmp(op, "rcperr")) {
                /* pdcp/rpdcp: the real _parallel_copy() with the copy protocol stubbed to return RV; the whole
                 * remote stderr is in the pipe and the remote side has closed (the loop inside does not give
                 * control back).  _parallel_copy closes both descriptors itself. */
                char *ap = strtok_r(NULL, " \t\r\n", &save);
                char *arv = strtok_r(NULL, " \t\r\n", &save);
                char *hx;
                int bad = 0;
                if (!ap || !arv || s != 1 || wfd[1][i] < 0) { ans_str("bad-op"); ans_flush(); continue; }
                while ((hx = strtok_r(NULL, " \t\r\n", &save))) {
                    size_t len;
                    unsigned char *b = unhex(hx, &len);
                    if (len > 0 && pipe_write_all(wfd[1][i], b, len) < 0) bad = 1;
                    free(b);
                }
                if (bad) { ans_str("bad-op pipe"); ans_flush(); continue; }
                close(wfd[1][i]);
                wfd[1][i] = -1;
                th->pcp_Popt = atoi(ap) != 0;
                th->dsh_sopt = true;
                relay_pcp_rv_set = 1;
                relay_pcp_rv = atoi(arv);
                _parallel_copy(th);
                relay_pcp_rv_set = 0;
                th->rcmd->fd = -1;               /* closed by _parallel_copy */
                th->rcmd->efd = -1;
                ans_str("rcp ");
                ans_int(atoi(arv));
                ans_emissions();
                ans_flush();
                continue;
            }
            if (!strcmp(op, "run")) {
                /* a whole stream in one op (the model's `runStream`): one handler call after each
                 * arriving chunk, then the remote side closes, the loop drains, and the stream's
                 * own _flush_output runs */
                char *hx;
                int rc = 1;
                long calls = 0;
                if (wfd[s][i] < 0) { ans_str("bad-op"); ans_flush(); continue; }
                while ((hx = strtok_r(NULL, " \t\r\n", &save))) {
                    size_t len;
                    unsigned char *b = unhex(hx, &len);
                    if (len > 0 && pipe_write_all(wfd[s][i], b, len) < 0) { free(b); rc = -99; break; }
                    free(b);
                    rc = call_handler(th, s);
                    if (rc <= 0) break;          /* cannot happen before the remote side closes */
                }
                if (rc == -99 || rc <= 0) { ans_str("bad-op pipe"); ans_flush(); continue; }
                close(wfd[s][i]);
                wfd[s][i] = -1;
                while (rc > 0 && calls++ < 10000000)
                    rc = call_handler(th, s);
                if (s == 0)
                    _flush_output(th->outbuf, (out_f) out, th);
                else
                    _flush_output(th->errbuf, (out_f) err, th);
                ans_str("run ");
                if (s == 0) ans_int(th->rc); else ans_str("-");
                ans_emissions();
                ans_flush();
                continue;
            }
            if (!strcmp(op, "drain")) {
                int rc = 1, calls = 0;
                if (wfd[s][i] >= 0) { ans_str("bad-op not-eof"); ans_flush(); continue; }
                {
                    char *cap = strtok_r(NULL, " \t\r\n", &save);
                    char *ne = cap ? strtok_r(NULL, " \t\r\n", &save) : NULL;
                    if (cap && !strcmp(cap, "0")) { ans_str("bad-op cap"); ans_flush(); continue; }
                    while (rc > 0 && calls < 10000000) {
                        rc = call_handler_faulty(th, s, cap, ne);
                        calls++;
                    }
                }
                ans_int(calls);
                ans_str(" ");
                ans_int(rc);
                ans_str(" ");
                ans_int(th->rc);
                ans_emissions();
                ans_flush();
                continue;
            }
        }
        ans_str("bad-op");
        ans_flush();
    }
    teardown();
    return 0;
}
