/* modtmpl.c -- template of the generated pdsh modules of the `preload` engine (C17, C09).
 *
 * A pool module is a tiny file that #defines the descriptor and #includes this template:
 *
 *   MOD_ID        "p07"         pool identifier (also the option description shown by -L / -h)
 *   MOD_TYPE      "misc"|"rcmd"|...   (or MOD_NO_TYPE: type pointer NULL)
 *   MOD_NAME      "alpha"             (or MOD_NO_NAME: name pointer NULL)
 *   MOD_PRIO      100           (leave undefined: the module exports no pdsh_module_priority)
 *   MOD_PERS      DSH | PCP
 *   MOD_OPTS      { 'a', NULL, MOD_ID, DSH|PCP, (optFunc) optf }, ...   (option table rows, may be empty)
 *   MOD_NO_OPTS   define: opt_table pointer NULL
 *   MOD_INIT_RC   0 | -1        (MOD_NO_INIT: no init function at all)
 *   MOD_RCMD      define: export rcmd operations (fake transport)
 *   MOD_NO_INFO   define: the object has no pdsh_module_info symbol at all
 *
 * Side effects go to the file named by $VERIF_LOG, one line per event, written with one write():
 *   init <id>
 *   opt <id> <char-code> <arg-hex|~>
 *   rcmd <id> <name> <host-hex> <luser-hex> <ruser-hex> <rank> <cmd-hex> <fd2p 0|1>
 * Only pdsh_module_info and pdsh_module_priority are exported (version script, like tests/test-modules).
 */
#if HAVE_CONFIG_H
#include "config.h"
#endif
#include <fcntl.h>
#include <stdio.h>
#include <stdlib.h>
#include <string.h>
#include <unistd.h>

#include "src/pdsh/mod.h"
#include "src/pdsh/rcmd.h"

static void vlog(const char *line)
{
    const char *path = getenv("VERIF_LOG");
    int fd;
    if (!path)
        return;
    if ((fd = open(path, O_WRONLY | O_APPEND | O_CREAT, 0644)) >= 0) {
        if (write(fd, line, strlen(line)) < 0) { }
        close(fd);
    }
}

static void hexcat(char *dst, size_t max, const char *s)
{
    size_t n = strlen(dst);
    if (s == NULL) { snprintf(dst + n, max - n, "~"); return; }
    if (*s == 0) { snprintf(dst + n, max - n, "-"); return; }
    for (; *s && n + 3 < max; s++, n += 2)
        snprintf(dst + n, max - n, "%02x", (unsigned char) *s);
}

#ifndef MOD_NO_INIT
static int initf(void)
{
    vlog("init " MOD_ID "\n");
    return MOD_INIT_RC;
}
#endif

static int optf(opt_t *o, int c, char *arg)
{
    char buf[4096];
    (void) o;
    snprintf(buf, sizeof buf, "opt " MOD_ID " %d ", c);
    hexcat(buf, sizeof buf - 2, arg);
    strcat(buf, "\n");
    vlog(buf);
    return 0;
}

#ifdef MOD_RCMD
static int rinit(opt_t *o)
{
    (void) o;
    /* the targets are invented names: no resolver */
    rcmd_opt_set(RCMD_OPT_RESOLVE_HOSTS, 0);
    return 0;
}

static int rsig(int fd, void *arg, int sig)
{
    (void) fd; (void) arg; (void) sig;
    return 0;
}

static int eof_fd(void)
{
    int p[2];
    if (pipe(p) < 0)
        return -1;
    close(p[1]);
    return p[0];
}

static int rcmdf(char *ahost, char *addr, char *luser, char *ruser, char *cmd, int rank, int *fd2p,
                 void **arg)
{
    static char buf[1 << 16];
    char *b = malloc(1 << 16);
    (void) addr; (void) arg;
    if (!b) b = buf;
    snprintf(b, 1 << 16, "rcmd " MOD_ID " %s ",
#ifdef MOD_NO_NAME
             "~"
#else
             MOD_NAME
#endif
             );
    hexcat(b, (1 << 16) - 64, ahost); strcat(b, " ");
    hexcat(b, (1 << 16) - 64, luser); strcat(b, " ");
    hexcat(b, (1 << 16) - 64, ruser);
    snprintf(b + strlen(b), 32, " %d ", rank);
    hexcat(b, (1 << 16) - 8, cmd);
    strcat(b, fd2p ? " 1\n" : " 0\n");
    vlog(b);
    if (b != buf) free(b);
    if (fd2p)
        *fd2p = eof_fd();
    return eof_fd();
}
#endif

#ifndef MOD_NO_INFO

#ifdef MOD_PRIO
int pdsh_module_priority = MOD_PRIO;
#endif

static struct pdsh_module_operations mops = {
#ifndef MOD_NO_INIT
    (ModInitF) initf,
#else
    (ModInitF) NULL,
#endif
    (ModExitF) NULL, (ModReadWcollF) NULL, (ModPostOpF) NULL
};

static struct pdsh_rcmd_operations rops = {
#ifdef MOD_RCMD
    (RcmdInitF) rinit, (RcmdSigF) rsig, (RcmdF) rcmdf, (RcmdDestroyF) NULL
#else
    (RcmdInitF) NULL, (RcmdSigF) NULL, (RcmdF) NULL, (RcmdDestroyF) NULL
#endif
};

#ifndef MOD_NO_OPTS
static struct pdsh_module_option opts[] = {
    MOD_OPTS
    PDSH_OPT_TABLE_END
};
#endif

struct pdsh_module pdsh_module_info = {
#ifdef MOD_NO_TYPE
    NULL,
#else
    MOD_TYPE,
#endif
#ifdef MOD_NO_NAME
    NULL,
#else
    MOD_NAME,
#endif
    "verif", MOD_ID, MOD_PERS,
    &mops, &rops,
#ifndef MOD_NO_OPTS
    &opts[0]
#else
    NULL
#endif
};
#endif /* !MOD_NO_INFO */
