/* optmod_g.c -- a pdsh misc module "G" for the C18 check: it registers ONE option that takes an
 * argument (-g name), like the genders / nodeupdown / slurm modules of a real installation do
 * (-g, -v, -j ...).  The shipped test modules A and B only have a flag (-a).
 *
 * Built by checks/c18.py against the scratch copy of /repo (its mod.h / opt.h) into the scratch copy's
 * tests/test-modules/.libs next to a.so and b.so; never installed anywhere else.
 * Purpose: opt_args_early runs BEFORE the modules are loaded, so "-g name" is unknown to it; the check
 * observes whether a -M that follows "-g name" still selects the module.
 */
#if HAVE_CONFIG_H
#  include "config.h"
#endif

#include <stdio.h>

#include "src/pdsh/mod.h"

int pdsh_module_priority = DEFAULT_MODULE_PRIORITY;

static int opt_g(opt_t *, int, char *);

struct pdsh_module_operations g_module_ops = {
    (ModInitF)       NULL,
    (ModExitF)       NULL,
    (ModReadWcollF)  NULL,
    (ModPostOpF)     NULL,
};

struct pdsh_rcmd_operations g_rcmd_ops = {
    (RcmdInitF)  NULL,
    (RcmdSigF)   NULL,
    (RcmdF)      NULL,
};

struct pdsh_module_option g_module_options[] =
 { { 'g', "name", "the g option (takes an argument) for Module G", DSH | PCP, (optFunc) opt_g },
   PDSH_OPT_TABLE_END
 };

struct pdsh_module pdsh_module_info = {
  "misc",
  "G",
  "pdsh verification",
  "Module test G",
  DSH | PCP,

  &g_module_ops,
  &g_rcmd_ops,
  &g_module_options[0],
};

static int opt_g(opt_t *pdsh_opt, int opt, char *arg)
{
    (void) pdsh_opt; (void) opt; (void) arg;
    return 0;
}
