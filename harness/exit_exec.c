/* exit_exec.c -- second translation unit of the C08 harness: the REAL src/modules/execcmd.c
 * (static exec_destroy) run on a real child created by the real pipecmd().
 *   how = "e<code>"  child exits with <code>
 *         "s<sig>"   child kills itself with signal <sig>
 *         "null"     exec_destroy (NULL)  (what _rsh_thread reaches after pipecmd() failed)
 *         "c<ms>_e<code>" / "c<ms>_s<sig>"   the child first closes stdin, stdout and stderr, sleeps <ms> ms and
 *                    only then exits / kills itself: exec_destroy must block until it is gone and report
 *                    the status it really ended with
 */
#include "src/modules/execcmd.c"

#include <stdio.h>
#include <stdlib.h>
#include <sys/resource.h>

/* referenced by execcmd.c, not reached through exec_destroy */
int rcmd_opt_set(int id, void *value) { (void) id; (void) value; return 0; }
const char **pdsh_remote_argv(void) { return NULL; }

int harness_exec_destroy(const char *how)
{
    char script[128];
    const char *args[] = { "-c", script, NULL };
    pipecmd_t p;
    struct rlimit nocore = { 0, 0 };

    if (strcmp(how, "null") == 0)
        return exec_destroy(NULL);
    setrlimit(RLIMIT_CORE, &nocore);
    if (how[0] == 'c') {
        int ms = atoi(how + 1);
        const char *u = strchr(how, '_');
        if (!u || (u[1] != 'e' && u[1] != 's'))
            return -997;
        if (u[1] == 'e')
            snprintf(script, sizeof(script), "exec 0<&- 1>&- 2>&-; sleep %d.%03d; exit %d", ms / 1000, ms % 1000, atoi(u + 2));
        else
            snprintf(script, sizeof(script), "exec 0<&- 1>&- 2>&-; sleep %d.%03d; kill -%d $$; sleep 5", ms / 1000, ms % 1000, atoi(u + 2));
    } else if (how[0] == 'e')
        snprintf(script, sizeof(script), "exit %d", atoi(how + 1));
    else if (how[0] == 's')
        snprintf(script, sizeof(script), "kill -%d $$; sleep 5", atoi(how + 1));
    else
        return -999;
    if (!(p = pipecmd("/bin/sh", args, "h0", "user", 0)))
        return -998;
    return exec_destroy(p);
}
