/* exit_harness.c -- in-process harness for property C08 (exit status).
 *
 * Includes the REAL src/pdsh/dsh.c (so that the static `_extract_rc` and the whole `dsh()` with its
 * real threads, cbufs, poll loop and the -S loop are the code under test) and replaces only the rcmd
 * layer (rcmd.h: rcmd_init/create/connect/signal/destroy) by a scripted transport:
 * per target: connect ok/fail, the bytes its stdout delivers, a delay before EOF (so that completion
 * order varies), "hang until signalled" (command time-out), and the value rcmd_destroy returns.
 *
 * Line protocol (one answer line per op line):
 *   xrc HEX                          -> "<ret> <hex of the C string left in buf>"   (_extract_rc)
 *   dsh S K FANOUT CMDTMO SCRIPT[;SCRIPT...]
 *        SCRIPT = c<0|1>,o<hex>,v<int>,d<ms>,t<0|1|2>[,e<hex>]   |   x1  (rcmd_create fails for this target: _thd_init leaves
 *                 it in state DSH_CANCELED and its thread is never started, as after ^C ^Z)
 *                                    -> "ret <int> exit <status>" | "noret exit <status>" | "noret sig <n>"
 *        t1 = stdout stays open and silent until rcmd_signal (an idle command: the time-out is noticed through
 *        the watchdog's SIGALRM interrupting xpoll); t2 = the command keeps writing "x\n" every 20 ms until
 *        rcmd_signal (a chatty command: the worker is busy and notices the expiry itself at the top of its poll
 *        loop), then writes the bytes e<hex> (what a command that traps TERM still prints, e.g. the marker line)
 *        and closes.
 *        dsh() runs in a forked child (it is a once-per-process function); the child's main-like
 *        wrapper does `return dsh (&opt)`, i.e. the exit status is the low 8 bits, as in main.c.
 *   dshk S K FANOUT CMDTMO SCRIPT[;SCRIPT...]
 *        the same run, with the transport's event log: the answer of `dsh` followed by " ev=<events>" where events is
 *        the comma separated sequence (in the order they happened) of C<i> (rcmd_connect called for target i),
 *        G<i> (rcmd_signal: the target was sent a signal by _fwd_signal / the time-out), D<i> (rcmd_destroy called),
 *        "-" = none; a run that does not end within 15 s is killed: "hung ev=...".
 *        t3 = after d<ms> milliseconds the bytes e<hex> arrive on stdout, which stays open until rcmd_signal (a command
 *        that fails in mid-run, e.g. the marker line of a killed command, while the stream is still open).
 *        t4 = the same, and the stream is closed d<ms> milliseconds after the bytes were written.
 *   xd e<code> | xd s<sig> | xd null -> "<ret>"      (exec_destroy of execcmd.c on a real child; exit_exec.c)
 *   cmd S K HEX [DEFAULT-RCMD]       -> "<hex of the command string dsh() hands to rcmd_connect for its one target>"
 *        (what the transport is asked to run when the user's command is HEX: with -S / -k the request for the
 *        status marker must have been appended, otherwise an in-band transport can never report a failure)
 */
#include "src/pdsh/dsh.c"

#include <sys/wait.h>
#include <poll.h>
#include <signal.h>
#include <ctype.h>

#include "src/common/hostlist.h"

/* lsd_fatal_error / lsd_nomem_error come from the real src/common/err.c (linked) */

/* ---- pieces of pdsh that dsh.c references but a DSH run never calls ---- */
pers_t pdsh_personality(void) { return DSH; }
int pcp_client(struct pcp_client *c) { (void) c; abort(); return -1; }
int pcp_server(struct pcp_server *s) { (void) s; abort(); return -1; }
List pcp_expand_dirs(List l) { (void) l; abort(); return NULL; }

/* ---- scripted transport ---- */
#define MAXHOSTS 64
struct script {
    int connect_ok;
    unsigned char *out;
    int outlen;
    int rv;
    int delay_ms;
    int hang;                   /* 1: keep stdout open until rcmd_signal; 2: keep writing until rcmd_signal */
    volatile int signalled;
    unsigned char *epilogue;    /* written after the signal (hang == 2) */
    int epilen;
    int canceled;               /* rcmd_create returns NULL */
    int wfd;
};
static struct script scripts[MAXHOSTS];
static int nscripts;
static struct rcmd_options stub_opts = { false };

int rcmd_init(opt_t * opt) { (void) opt; return 0; }

struct rcmd_info *rcmd_create(char *host)
{
    struct rcmd_info *r;
    int idx = (host && host[0] == 'h') ? atoi(host + 1) : 0;
    if (idx >= 0 && idx < nscripts && scripts[idx].canceled)
        return NULL;
    r = calloc(1, sizeof(*r));
    r->fd = -1;
    r->efd = -1;
    r->opts = &stub_opts;
    return r;
}

static void *_closer(void *arg)
{
    struct script *s = arg;
    struct timespec ts = { s->delay_ms / 1000, (s->delay_ms % 1000) * 1000000L };
    nanosleep(&ts, NULL);
    close(s->wfd);
    s->wfd = -1;
    return NULL;
}

static void *_big_writer(void *arg)
{
    struct script *s = arg;
    struct timespec ts = { s->delay_ms / 1000, (s->delay_ms % 1000) * 1000000L };
    int off = 0;
    while (off < s->outlen) {
        int n = (int) write(s->wfd, s->out + off, (size_t) (s->outlen - off));
        if (n <= 0)
            break;                  /* the reader has gone away */
        off += n;
    }
    nanosleep(&ts, NULL);
    close(s->wfd);
    s->wfd = -1;
    return NULL;
}

static void *_chatter(void *arg)
{
    struct script *s = arg;
    struct timespec ts = { 0, 20 * 1000000L };
    while (!s->signalled) {
        if (write(s->wfd, "x\n", 2) != 2)
            break;
        nanosleep(&ts, NULL);
    }
    if (s->epilen > 0 && write(s->wfd, s->epilogue, s->epilen) != s->epilen)
        ;
    close(s->wfd);
    s->wfd = -1;
    return NULL;
}

static void start_thread(void *(*fn)(void *), struct script *s)
{
    pthread_t th;
    pthread_attr_t at;
    sigset_t all, old;
    pthread_attr_init(&at);
    pthread_attr_setdetachstate(&at, PTHREAD_CREATE_DETACHED);
    sigfillset(&all);
    pthread_sigmask(SIG_BLOCK, &all, &old);
    pthread_create(&th, &at, fn, s);
    pthread_sigmask(SIG_SETMASK, &old, NULL);
}

static int cmd_report_fd = -1;      /* op `cmd`: where rcmd_connect reports the command it was given */
static char *cmd_default_rcmd;     /* op `cmd`: opt->rcmd_name */
static int event_fd = -1;           /* op `dshk`: the transport's event log */

static void log_event(char what, int idx)
{
    char b[16];
    int n;
    if (event_fd < 0)
        return;
    n = snprintf(b, sizeof b, "%c%d,", what, idx);
    if (write(event_fd, b, (size_t) n) < 0) { }
}

static void *_late_writer(void *arg)
{
    struct script *s = arg;
    struct timespec ts = { s->delay_ms / 1000, (s->delay_ms % 1000) * 1000000L };
    nanosleep(&ts, NULL);
    if (!s->signalled && s->wfd >= 0 && s->epilen > 0 && write(s->wfd, s->epilogue, s->epilen) != s->epilen)
        ;
    if (s->hang == 4) {             /* ... and is closed after the same time again */
        nanosleep(&ts, NULL);
        if (!s->signalled && s->wfd >= 0) {
            close(s->wfd);
            s->wfd = -1;
        }
    }
    return NULL;                    /* t3: the stream stays open until rcmd_signal */
}

int rcmd_connect(struct rcmd_info *rcmd, char *host, char *addr, char *locuser, char *remuser, char *cmd,
                 int nodeid, bool error_fd)
{
    struct script *s = &scripts[nodeid];
    int pfd[2];
    (void) host; (void) addr; (void) locuser; (void) remuser; (void) error_fd;
    log_event('C', nodeid);
    if (cmd_report_fd >= 0 && cmd) {
        if (write(cmd_report_fd, cmd, strlen(cmd)) < 0)
            abort();
        close(cmd_report_fd);
        cmd_report_fd = -1;
    }
    rcmd->arg = s;
    if (!s->connect_ok) {
        if (s->delay_ms > 0) {      /* a host that refuses only after a while */
            struct timespec ts = { s->delay_ms / 1000, (s->delay_ms % 1000) * 1000000L };
            nanosleep(&ts, NULL);
        }
        rcmd->fd = -1;
        return -1;
    }
    if (pipe(pfd) < 0)
        abort();
    s->wfd = pfd[1];
    if (s->outlen > 60000 && !s->hang) {
        /* more than a pipe holds: written by a thread of its own (then the delay, then the close) */
        start_thread(_big_writer, s);
        rcmd->fd = pfd[0];
        return pfd[0];
    }
    if (s->outlen > 0 && write(pfd[1], s->out, s->outlen) != s->outlen)
        abort();
    if (s->hang == 2) {
        start_thread(_chatter, s);
    } else if (s->hang == 3 || s->hang == 4) {
        start_thread(_late_writer, s);
    } else if (s->hang) {
        /* stays open until rcmd_signal */
    } else if (s->delay_ms > 0) {
        start_thread(_closer, s);
    } else {
        close(pfd[1]);
        s->wfd = -1;
    }
    rcmd->fd = pfd[0];
    return pfd[0];
}

int rcmd_signal(struct rcmd_info *rcmd, int signum)
{
    struct script *s = rcmd->arg;
    (void) signum;
    if (s)
        log_event('G', (int) (s - scripts));
    if (s && (s->hang == 3 || s->hang == 4)) {
        s->signalled = 1;
        if (s->wfd >= 0) {
            close(s->wfd);
            s->wfd = -1;
        }
    } else if (s && s->hang == 2)
        s->signalled = 1;           /* the chatter thread writes its epilogue and closes */
    else if (s && s->hang && s->wfd >= 0) {
        close(s->wfd);
        s->wfd = -1;
    }
    return 0;
}

int rcmd_destroy(struct rcmd_info *rcmd)
{
    struct script *s;
    int rv;
    if (rcmd == NULL)
        return 0;
    s = rcmd->arg;
    rv = s ? s->rv : 0;
    if (s)
        log_event('D', (int) (s - scripts));
    free(rcmd);
    return rv;
}

/* ---- protocol helpers ---- */
static int hexval(int c)
{
    if (c >= '0' && c <= '9') return c - '0';
    if (c >= 'a' && c <= 'f') return c - 'a' + 10;
    if (c >= 'A' && c <= 'F') return c - 'A' + 10;
    return -1;
}

static unsigned char *unhex(const char *s, int *len)
{
    int n = 0;
    unsigned char *b;
    if (strcmp(s, "-") == 0 || *s == '\0') {
        *len = 0;
        return calloc(1, 1);
    }
    b = malloc(strlen(s) / 2 + 1);
    while (s[0] && s[1] && hexval(s[0]) >= 0 && hexval(s[1]) >= 0) {
        b[n++] = (unsigned char) (hexval(s[0]) * 16 + hexval(s[1]));
        s += 2;
    }
    *len = n;
    return b;
}

static void puthex(const unsigned char *b, int n)
{
    int i;
    if (n == 0) {
        printf("-");
        return;
    }
    for (i = 0; i < n; i++)
        printf("%02x", b[i]);
}

static void op_xrc(char *arg)
{
    int n, ret;
    unsigned char *raw = unhex(arg, &n);
    /* exact-size heap copy (n bytes + NUL) so that ASan sees any access past the string */
    char *buf = malloc(n + 1);
    memcpy(buf, raw, n);
    buf[n] = '\0';
    ret = _extract_rc(buf);
    printf("%d ", ret);
    puthex((unsigned char *) buf, (int) strlen(buf));
    printf("\n");
    free(buf);
    free(raw);
}

static int parse_scripts(char *spec)
{
    char *save = NULL, *tok;
    nscripts = 0;
    for (tok = strtok_r(spec, ";", &save); tok && nscripts < MAXHOSTS; tok = strtok_r(NULL, ";", &save)) {
        struct script *s = &scripts[nscripts];
        char *save2 = NULL, *f;
        memset(s, 0, sizeof(*s));
        s->wfd = -1;
        s->connect_ok = 1;
        for (f = strtok_r(tok, ",", &save2); f; f = strtok_r(NULL, ",", &save2)) {
            switch (f[0]) {
            case 'c': s->connect_ok = atoi(f + 1); break;
            case 'o': s->out = unhex(f + 1, &s->outlen); break;
            case 'v': s->rv = atoi(f + 1); break;
            case 'd': s->delay_ms = atoi(f + 1); break;
            case 't': s->hang = atoi(f + 1); break;
            case 'e': s->epilogue = unhex(f + 1, &s->epilen); break;
            case 'x': s->canceled = atoi(f + 1); break;
            default: return -1;
            }
        }
        nscripts++;
    }
    return nscripts;
}

static void op_dsh(char *line, int with_events)
{
    int S, K, fanout, cmdtmo, consumed = 0;
    pid_t pid;
    int rp[2], ep[2] = { -1, -1 }, status;
    if (sscanf(line, "%d %d %d %d %n", &S, &K, &fanout, &cmdtmo, &consumed) < 4 || parse_scripts(line + consumed) <= 0) {
        printf("bad-op\n");
        return;
    }
    fflush(stdout);
    if (pipe(rp) < 0 || (with_events && pipe(ep) < 0))
        abort();
    pid = fork();
    if (pid == 0) {
        opt_t opt;
        char hosts[64];
        int ret, devnull;
        close(rp[0]);
        if (with_events) {
            close(ep[0]);
            event_fd = ep[1];
        }
        /* fd 0 must not stay shared with the parent: exit() in the child would lseek a seekable
         * stdin back to the unread position and the parent would read its input again */
        devnull = open("/dev/null", O_RDWR);
        dup2(devnull, 0);
        dup2(devnull, 1);
        dup2(devnull, 2);
        memset(&opt, 0, sizeof(opt));
        err_init("pdsh");
        opt.progname = "pdsh";
        opt.luser = "luser";
        opt.ruser = "ruser";
        opt.fanout = fanout;
        opt.connect_timeout = 10;
        opt.command_timeout = cmdtmo;
        opt.labels = true;
        opt.separate_stderr = false;
        opt.cmd = Strdup("cmd");
        opt.ret_remote_rc = S;
        opt.kill_on_fail = K;
        snprintf(hosts, sizeof(hosts), "h[0-%d]", nscripts - 1);
        opt.wcoll = hostlist_create(nscripts == 1 ? "h0" : hosts);
        ret = dsh(&opt);
        if (write(rp[1], &ret, sizeof(ret)) != sizeof(ret))
            _exit(99);
        /* main.c: `return retval;` -> exit (retval) */
        exit(ret);
    }
    close(rp[1]);
    {
        int ret = 0, got, hung = 0, elen = 0;
        static char ev[65536];
        if (with_events) {
            /* the log ends (EOF) when the child and all its threads are gone; a child that does not end is killed */
            struct pollfd pf = { ep[0], POLLIN, 0 };
            int waited = 0;
            close(ep[1]);
            for (;;) {
                int r = poll(&pf, 1, 500);
                if (r > 0) {
                    int n = (int) read(ep[0], ev + elen, sizeof(ev) - 1 - elen);
                    if (n <= 0)
                        break;
                    elen += n;
                } else if (r == 0 && (waited += 500) >= 15000) {
                    hung = 1;
                    kill(pid, SIGKILL);
                    break;
                }
            }
            close(ep[0]);
            ev[elen] = '\0';
            if (elen > 0 && ev[elen - 1] == ',')
                ev[elen - 1] = '\0';
        }
        got = hung ? 0 : (int) read(rp[0], &ret, sizeof(ret));
        close(rp[0]);
        while (waitpid(pid, &status, 0) < 0 && errno == EINTR)
            ;
        if (hung)
            printf("hung");
        else {
            if (got == (int) sizeof(ret))
                printf("ret %d ", ret);
            else
                printf("noret ");
            if (WIFEXITED(status))
                printf("exit %d", WEXITSTATUS(status));
            else
                printf("sig %d", WTERMSIG(status));
        }
        if (with_events)
            printf(" ev=%s", elen > 0 && ev[0] ? ev : "-");
        printf("\n");
    }
}

/* cmd S K HEX: one target that connects and ends at once; reports the command string dsh() asked the transport for */
static void op_cmd(char *line)
{
    int S, K, consumed = 0, n, cp[2], status;
    unsigned char *raw;
    char *ucmd;
    pid_t pid;
    if (sscanf(line, "%d %d %n", &S, &K, &consumed) < 2) {
        printf("bad-op\n");
        return;
    }
    raw = unhex(line + consumed, &n);
    ucmd = malloc(n + 1);
    memcpy(ucmd, raw, n);
    ucmd[n] = '\0';
    {   /* optional: the name of the DEFAULT transport (opt->rcmd_name); the target itself is served by the scripted
         * in-band transport whatever that name says, as a `-w other:host` target is */
        char *sp = strchr(line + consumed, ' ');
        cmd_default_rcmd = (sp && sp[1]) ? sp + 1 : NULL;
    }
    memset(&scripts[0], 0, sizeof(scripts[0]));
    scripts[0].wfd = -1;
    scripts[0].connect_ok = 1;
    scripts[0].out = calloc(1, 1);
    nscripts = 1;
    fflush(stdout);
    if (pipe(cp) < 0)
        abort();
    pid = fork();
    if (pid == 0) {
        opt_t opt;
        int devnull = open("/dev/null", O_RDWR);
        close(cp[0]);
        dup2(devnull, 0);
        dup2(devnull, 1);
        dup2(devnull, 2);
        cmd_report_fd = cp[1];
        memset(&opt, 0, sizeof(opt));
        err_init("pdsh");
        opt.progname = "pdsh";
        opt.luser = "luser";
        opt.ruser = "ruser";
        opt.fanout = 1;
        opt.connect_timeout = 10;
        opt.labels = true;
        opt.cmd = Strdup(ucmd);
        opt.ret_remote_rc = S;
        opt.kill_on_fail = K;
        opt.rcmd_name = cmd_default_rcmd ? Strdup(cmd_default_rcmd) : NULL;
        opt.wcoll = hostlist_create("h0");
        exit(dsh(&opt) & 0xff);
    }
    close(cp[1]);
    {
        unsigned char buf[65536];
        int len = 0, r;
        while ((r = (int) read(cp[0], buf + len, sizeof(buf) - len)) > 0)
            len += r;
        close(cp[0]);
        while (waitpid(pid, &status, 0) < 0 && errno == EINTR)
            ;
        puthex(buf, len);
        printf("\n");
    }
    free(raw);
    free(ucmd);
}

extern int harness_exec_destroy(const char *how);

int main(int argc, char **argv)
{
    char *line = NULL;
    size_t cap = 0;
    ssize_t n;
    (void) argc; (void) argv;
    err_init("pdsh");
    while ((n = getline(&line, &cap, stdin)) > 0) {
        while (n > 0 && (line[n - 1] == '\n' || line[n - 1] == '\r'))
            line[--n] = '\0';
        if (strncmp(line, "xrc ", 4) == 0)
            op_xrc(line + 4);
        else if (strncmp(line, "dsh ", 4) == 0)
            op_dsh(line + 4, 0);
        else if (strncmp(line, "dshk ", 5) == 0)
            op_dsh(line + 5, 1);
        else if (strncmp(line, "xd ", 3) == 0)
            printf("%d\n", harness_exec_destroy(line + 3));
        else if (strncmp(line, "cmd ", 4) == 0)
            op_cmd(line + 4);
        else
            printf("bad-op\n");
        fflush(stdout);
    }
    return 0;
}
