/* xrcmd_harness.c -- in-process harness around the UNMODIFIED src/modules/xrcmd.c (property C09):
 * the privileged-port loop, the stderr back-connection and the request, with the network scripted.
 *
 * xrcmd() is static: the source file is #included.  Its calls on sockets are routed (by macros that are
 * defined AFTER every system header has been read) to the h_* functions below, which follow the script of
 * the case and log one event per call, sockets named by the port privsep_rresvport() "bound" them to:
 *
 *   b<p>        privsep_rresvport returned a socket bound to p   (scripted: first port <= *lport, >= 512,
 *                                                                 not in BUSY; none: -1/EAGAIN, no event)
 *   c<p>:<r>    connect() on that socket, r = o ok | a EADDRINUSE | r ECONNREFUSED | x EHOSTUNREACH
 *   x<p>        close() of that socket            X   close() of the accepted stderr socket
 *   s<n>        sleep(n)                          l<p> listen()
 *   w<hex>      write() on the connected socket (consecutive writes are merged: what a peer can see)
 *   a<src>      accept() returned a connection from source port src
 *   leak<p> / leakX   a socket that is still open when xrcmd returns (other than the one it returns)
 *
 * protocol:  xr ERRCH LUSER RUSER CMD BUSY CONNS SLEEPS POLL ACC REPLY   ->  ok|fail EVENT EVENT ...
 *   ERRCH 0|1 (fd2p NULL or not)   LUSER RUSER CMD hex ("-" empty)   BUSY p,p,...|-   CONNS string over {o,a,r,x}
 *   SLEEPS 0|1 (sleep returns 0 / is interrupted)   POLL 0|1 (xpoll: listening socket readable / the other one)
 *   ACC src|~ (accept fails)   REPLY hex|- (end of file)|~ (read error): what the peer sends after the request
 */
#define _GNU_SOURCE
#include <errno.h>
#include <fcntl.h>
#include <stdarg.h>
#include <stdio.h>
#include <stdlib.h>
#include <string.h>
#include <unistd.h>
#include <signal.h>
#include <pthread.h>
#include <pwd.h>
#include <netdb.h>
#include <ctype.h>
#include <strings.h>
#include <sys/param.h>
#include <sys/types.h>
#include <sys/time.h>
#include <sys/socket.h>
#include <sys/stat.h>
#include <netinet/in.h>
#include <arpa/inet.h>

#if HAVE_CONFIG_H
#include "config.h"
#endif
#include "src/common/err.h"
#include "src/common/list.h"
#include "src/common/xpoll.h"
#include "src/pdsh/dsh.h"
#include "src/pdsh/mod.h"
#include "src/pdsh/privsep.h"

#define MAXFD 4096
static int fdport[MAXFD];          /* fd -> port (0: not one of xrcmd's sockets) */
static int busy[2048];
static char conns[256];
static int conn_i, sleeps_ok, poll_ok, acc_src, acc_fd = -1, peer_fd = -1, conn_fd = -1;
static int reply_mode;             /* 0 bytes (possibly none = EOF), 1 read error */
static unsigned char reply[4096];
static int reply_len;
static char *evbuf;
static size_t evlen, evcap;
static int last_was_write;

static void ev(const char *fmt, ...)
{
    va_list ap;
    char tmp[64];
    int n;
    va_start(ap, fmt);
    n = vsnprintf(tmp, sizeof tmp, fmt, ap);
    va_end(ap);
    if (evlen + n + 2 > evcap) {
        evcap = (evlen + n + 2) * 2;
        evbuf = realloc(evbuf, evcap);
    }
    evbuf[evlen++] = ' ';
    memcpy(evbuf + evlen, tmp, n);
    evlen += n;
    evbuf[evlen] = 0;
    last_was_write = 0;
}

static void ev_write(const unsigned char *b, size_t n)
{
    size_t i;
    if (evlen + 2 * n + 4 > evcap) {
        evcap = (evlen + 2 * n + 4) * 2;
        evbuf = realloc(evbuf, evcap);
    }
    if (!last_was_write) {
        evbuf[evlen++] = ' ';
        evbuf[evlen++] = 'w';
    }
    for (i = 0; i < n; i++) {
        static const char hexd[] = "0123456789abcdef";
        evbuf[evlen++] = hexd[b[i] >> 4];
        evbuf[evlen++] = hexd[b[i] & 15];
    }
    evbuf[evlen] = 0;
    last_was_write = 1;
}

/* ---- the world ------------------------------------------------------------------------------ */

/* the diagnostic that relays the server's refusal -- err("%S: %s", ahost, tmpbuf) -- is an observable of the `xe` op:
 * a format that takes the host (%S) and then ONE string (%s) and no other conversion */
#include <stdarg.h>
static char last_err[1 << 16];
static int last_err_set;
void err(char *fmt, ...)
{
    const char *s1 = strstr(fmt, "%S"), *s2 = s1 ? strstr(s1, "%s") : NULL;
    if (s2 && !strstr(s2 + 2, "%") && !strstr(fmt, "%p") && !strstr(fmt, "%m")) {
        va_list ap;
        const char *t;
        va_start(ap, fmt);
        (void) va_arg(ap, char *);
        t = va_arg(ap, char *);
        snprintf(last_err, sizeof last_err, "%s", t ? t : "");
        last_err_set = 1;
        va_end(ap);
    }
}
void errx(char *fmt, ...) { (void) fmt; exit(3); }

int privsep_rresvport(int *lport)
{
    int p;
    for (p = *lport; p >= IPPORT_RESERVED / 2 && p < 2048; p--) {
        if (!busy[p]) {
            int fd = socket(AF_INET, SOCK_STREAM, 0);
            if (fd < 0 || fd >= MAXFD)
                exit(4);
            fdport[fd] = p;
            *lport = p;
            ev("b%d", p);
            return fd;
        }
    }
    errno = EAGAIN;
    return -1;
}

int xpoll(struct xpollfd *fds, int nfds, int timeout)
{
    (void) timeout;
    if (nfds != 2)
        exit(5);
    fds[0].revents = fds[1].revents = 0;
    if (poll_ok)
        fds[1].revents = XPOLLREAD;
    else
        fds[0].revents = XPOLLREAD;
    return 1;
}

static int h_connect(int fd, const struct sockaddr *sa, socklen_t len)
{
    char r = conns[conn_i] ? conns[conn_i++] : 'x';
    (void) sa; (void) len;
    ev("c%d:%c", fdport[fd], r);
    if (r == 'o') {
        int sp[2];
        if (socketpair(AF_UNIX, SOCK_STREAM, 0, sp) < 0 || dup2(sp[0], fd) < 0)
            exit(6);
        close(sp[0]);
        peer_fd = sp[1];
        conn_fd = fd;
        if (reply_len > 0 && write(peer_fd, reply, reply_len) != reply_len)
            exit(7);
        shutdown(peer_fd, SHUT_WR);
        return 0;
    }
    errno = r == 'a' ? EADDRINUSE : r == 'r' ? ECONNREFUSED : EHOSTUNREACH;
    return -1;
}

static int h_close(int fd)
{
    if (fd >= 0 && fd < MAXFD && fdport[fd]) {
        ev("x%d", fdport[fd]);
        fdport[fd] = 0;
    } else if (fd >= 0 && fd == acc_fd) {
        ev("X");
        acc_fd = -1;
    }
    return close(fd);
}

static unsigned int h_sleep(unsigned int n)
{
    ev("s%u", n);
    return sleeps_ok ? 0 : 1;
}

static int h_listen(int fd, int n)
{
    (void) n;
    ev("l%d", fdport[fd]);
    return 0;
}

static int h_accept(int fd, struct sockaddr *sa, socklen_t *len)
{
    struct sockaddr_in *sin = (struct sockaddr_in *) sa;
    (void) fd;
    if (acc_src < 0) {
        errno = ECONNABORTED;
        return -1;
    }
    memset(sin, 0, sizeof *sin);
    sin->sin_family = AF_INET;
    sin->sin_port = htons((unsigned short) acc_src);
    *len = sizeof *sin;
    acc_fd = open("/dev/null", O_RDWR);
    ev("a%d", acc_src);
    return acc_fd;
}

static ssize_t h_write(int fd, const void *buf, size_t n)
{
    if (fd >= 0 && fd < MAXFD && fdport[fd])
        ev_write(buf, n);
    return write(fd, buf, n);
}

static ssize_t h_read(int fd, void *buf, size_t n)
{
    if (fd == conn_fd && reply_mode == 1) {
        errno = EIO;
        return -1;
    }
    return read(fd, buf, n);
}

#define connect h_connect
#define close   h_close
#define sleep   h_sleep
#define listen  h_listen
#define accept  h_accept
#define write   h_write
#define read    h_read
#include "src/modules/xrcmd.c"
#undef connect
#undef close
#undef sleep
#undef listen
#undef accept
#undef write
#undef read

/* ---- driver ----------------------------------------------------------------------------------- */

static int unhex(const char *s, unsigned char *out, int max)
{
    int n = 0;
    if (strcmp(s, "-") == 0)
        return 0;
    while (s[0] && s[1]) {
        unsigned int b;
        if (n >= max || sscanf(s, "%2x", &b) != 1)
            return -1;
        out[n++] = (unsigned char) b;
        s += 2;
    }
    return n;
}

int main(void)
{
    static char line[1 << 18];
    static unsigned char lu[1 << 12], ru[1 << 12], cmd[1 << 17];
    while (fgets(line, sizeof line, stdin)) {
        char *w[16];
        int nw = 0, errch, n, rc, efd = -1, xe = 0;
        char *tok = strtok(line, " \n");
        char addr[4] = { 127, 0, 0, 1 };
        void *arg = NULL;
        while (tok && nw < 16) {
            w[nw++] = tok;
            tok = strtok(NULL, " \n");
        }
        if (nw == 2 && strcmp(w[0], "xe") == 0) {
            /* xe REPLYHEX: a plain connection (no stderr channel), the peer answers REPLY; the answer line is the text
             * xrcmd hands to err() for the refusal: `err HEX`, `err ~` when there is none */
            static char *d[11] = { "xr", "0", "726f6f74", "626f62", "6964", "-", "o", "1", "1", "1000", NULL };
            char *r = w[1];
            memcpy(w, d, sizeof d);
            w[10] = r;
            nw = 11;
            xe = 1;
            last_err_set = 0;
        }
        if (nw != 11 || strcmp(w[0], "xr") != 0) {
            printf("bad-op\n");
            fflush(stdout);
            continue;
        }
        errch = atoi(w[1]);
        if ((n = unhex(w[2], lu, sizeof lu - 1)) < 0) { printf("bad-op\n"); fflush(stdout); continue; }
        lu[n] = 0;
        if ((n = unhex(w[3], ru, sizeof ru - 1)) < 0) { printf("bad-op\n"); fflush(stdout); continue; }
        ru[n] = 0;
        if ((n = unhex(w[4], cmd, sizeof cmd - 1)) < 0) { printf("bad-op\n"); fflush(stdout); continue; }
        cmd[n] = 0;
        memset(busy, 0, sizeof busy);
        if (strcmp(w[5], "-") != 0) {
            char *q = w[5];
            while (*q) {
                long p = strtol(q, &q, 10);
                if (p >= 0 && p < 2048)
                    busy[p] = 1;
                if (*q == ',')
                    q++;
            }
        }
        snprintf(conns, sizeof conns, "%s", strcmp(w[6], "-") == 0 ? "" : w[6]);
        conn_i = 0;
        sleeps_ok = atoi(w[7]);
        poll_ok = atoi(w[8]);
        acc_src = strcmp(w[9], "~") == 0 ? -1 : atoi(w[9]);
        reply_mode = strcmp(w[10], "~") == 0;
        reply_len = reply_mode ? 0 : unhex(w[10], reply, sizeof reply);
        if (reply_len < 0) { printf("bad-op\n"); fflush(stdout); continue; }
        memset(fdport, 0, sizeof fdport);
        acc_fd = peer_fd = conn_fd = -1;
        evlen = 0;
        last_was_write = 0;
        if (evbuf)
            evbuf[0] = 0;
        rc = xrcmd("peer", addr, (char *) lu, (char *) ru, (char *) cmd, 0, errch ? &efd : NULL, &arg);
        for (n = 0; n < MAXFD; n++)
            if (fdport[n] && n != rc)
                ev("leak%d", fdport[n]);   /* a socket xrcmd did not close on its way out */
        if (rc < 0 && acc_fd >= 0)
            ev("leakX");
        if (xe) {
            if (last_err_set) {
                const unsigned char *q = (const unsigned char *) last_err;
                printf("err ");
                if (!*q)
                    printf("-");
                for (; *q; q++)
                    printf("%02x", *q);
                printf("\n");
            } else
                printf("err ~\n");
        } else
        printf("%s%s\n", rc >= 0 ? "ok" : "fail", evbuf ? evbuf : "");
        fflush(stdout);
        if (rc >= 0)
            close(rc);
        if (acc_fd >= 0) {
            close(acc_fd);
            acc_fd = -1;
        }
        if (peer_fd >= 0)
            close(peer_fd);
        for (n = 0; n < MAXFD; n++)
            if (fdport[n] && n != rc)
                close(n);
    }
    return 0;
}
