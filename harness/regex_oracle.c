/* C02 regex oracle: libc regcomp/regexec with the flags opt.c regex_info_create() uses.
 * stdin: one query per line  "<pattern hex> <host hex>"  (an empty field is "-")
 * stdout: per line  1 = regexec() == 0, 0 = REG_NOMATCH, E = regcomp() refuses the pattern, ? = bad query */
#include <regex.h>
#include <stdio.h>
#include <stdlib.h>
#include <string.h>

static int unhex(const char *h, char *out, size_t cap)
{
    size_t n = 0;
    if (!strcmp(h, "-")) { out[0] = 0; return 0; }
    while (h[0] && h[1]) {
        unsigned v;
        if (n + 1 >= cap || sscanf(h, "%2x", &v) != 1) return -1;
        out[n++] = (char) v;
        h += 2;
    }
    out[n] = 0;
    return *h ? -1 : 0;
}

int main(void)
{
    static char line[1 << 20], pat[1 << 19], host[1 << 19], last[1 << 19];
    regex_t re;
    int have = 0, bad = 0;
    while (fgets(line, sizeof line, stdin)) {
        char *sp = strchr(line, ' ');
        size_t l = strlen(line);
        if (l && line[l - 1] == '\n') line[l - 1] = 0;
        if (!sp) { puts("?"); continue; }
        *sp++ = 0;
        if (unhex(line, pat, sizeof pat) < 0 || unhex(sp, host, sizeof host) < 0) { puts("?"); continue; }
        if (!have || strcmp(pat, last)) {
            if (have && !bad) regfree(&re);
            bad = regcomp(&re, pat, REG_EXTENDED | REG_NOSUB) != 0;
            strcpy(last, pat);
            have = 1;
        }
        if (bad) puts("E");
        else puts(regexec(&re, host, 0, NULL, 0) == 0 ? "1" : "0");
    }
    return 0;
}
