/* exit_inband_mod.c -- rcmd module "inb" for the real-binary part of property C08: a transport that can report the
 * status of the remote command ONLY IN-BAND.
 *
 * It hands the command STRING pdsh built (the user's command plus, with -S / -k, the request for the status marker) to
 * `/bin/sh -c` through the real pipecmd() and has NO destroy method: rcmd_destroy() yields nothing, the only status
 * channel is the marker line the remote shell prints.  (rsh, ssh, mrsh, ... are of this kind; this build has only rsh,
 * which needs a server.)  pipecmd() expands %h / %n / %u in the string, so the C08 helper command
 * `exit_helper %n SPEC0 SPEC1 ...` works for targets of this transport as it does for exec.
 *
 * Built by checks/c08.py into a module directory of its own, next to a copy of the tree's execcmd.so; pdsh is run as
 * uid 1000 with PDSH_MODULE_DIR (ignored for root).
 */
#if HAVE_CONFIG_H
#include "config.h"
#endif
#include <string.h>
#include <unistd.h>

#include "src/pdsh/opt.h"
#include "src/pdsh/mod.h"
#include "src/pdsh/rcmd.h"
#include "src/common/pipecmd.h"
#include "src/common/err.h"

int pdsh_module_priority = DEFAULT_MODULE_PRIORITY;

static int inb_init(opt_t *opt)
{
    (void) opt;
    if (rcmd_opt_set(RCMD_OPT_RESOLVE_HOSTS, 0) < 0)
        errx("%p: inb: rcmd_opt_set: %m\n");
    return 0;
}

static int inb_signal(int fd, void *arg, int signum)
{
    (void) fd;
    return pipecmd_signal((pipecmd_t) arg, signum);
}

static int inb_connect(char *ahost, char *addr, char *luser, char *ruser, char *cmd, int rank, int *fd2p, void **arg)
{
    const char *args[] = { "-c", cmd, NULL };
    pipecmd_t p;
    (void) addr; (void) luser;
    if (!(p = pipecmd("/bin/sh", args, ahost, ruser, rank)))
        return -1;
    if (fd2p)
        *fd2p = pipecmd_stderrfd(p);
    *arg = p;
    return pipecmd_stdoutfd(p);
}

struct pdsh_module_operations inb_module_ops = { NULL, NULL, NULL, NULL };

struct pdsh_rcmd_operations inb_rcmd_ops = {
    (RcmdInitF) inb_init,
    (RcmdSigF) inb_signal,
    (RcmdF) inb_connect,
    (RcmdDestroyF) NULL
};

struct pdsh_module_option inb_module_options[] = { PDSH_OPT_TABLE_END };

struct pdsh_module pdsh_module_info = {
    "rcmd",
    "inb",
    "pdsh verification framework",
    "in-band status only transport (C08)",
    DSH,
    &inb_module_ops,
    &inb_rcmd_ops,
    &inb_module_options[0],
};
