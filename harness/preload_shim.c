/* preload_shim.c -- LD_PRELOAD shim for the `preload` engine (properties C17, C09).
 *
 * The UNMODIFIED scratch-built pdsh binary runs under this shim, which controls exactly the
 * environment the module loader looks at:
 *
 *   VERIF_UID / VERIF_EUID   getuid() / geteuid() (set*id become no-ops: the sandbox runs as root)
 *   VERIF_MODDIR             directory whose enumeration is controlled
 *   VERIF_DIRLIST            its entries, '/'-separated, in the order readdir() returns them
 *   VERIF_STATMAP            "path=uid:mode;path=uid:mode;..."  overrides of st_uid / st_mode
 *                            (uid or mode may be '-' = keep; mode octal, full st_mode incl. type
 *                            bits; `path=!` makes stat fail with ENOENT).  A path is looked up as
 *                            given and, if that fails, by its realpath (ancestors are stat'ed as
 *                            dir/.., dir/../.. ...)
 *   VERIF_OPENDIR_FAIL       opendir() of VERIF_MODDIR fails with EACCES (after the path tests passed)
 *   VERIF_LOG                file that receives one line `dlopen <path>` per dlopen() call
 *
 * Everything else goes to the real libc via dlsym(RTLD_NEXT).  Which symbols the binary really
 * imports (stat, opendir, readdir, closedir, getuid, geteuid, dlopen) is checked by the caller
 * with `nm -D` on every run.
 */
#define _GNU_SOURCE
#include <dlfcn.h>
#include <dirent.h>
#include <errno.h>
#include <fcntl.h>
#include <limits.h>
#include <stdio.h>
#include <stdlib.h>
#include <string.h>
#include <sys/stat.h>
#include <sys/types.h>
#include <unistd.h>

static int env_id(const char *name, uid_t *out)
{
    const char *v = getenv(name);
    if (!v || !*v)
        return 0;
    *out = (uid_t) strtoul(v, NULL, 10);
    return 1;
}

uid_t getuid(void)
{
    static uid_t (*real)(void);
    uid_t u;
    if (env_id("VERIF_UID", &u))
        return u;
    if (!real) real = dlsym(RTLD_NEXT, "getuid");
    return real();
}

uid_t geteuid(void)
{
    static uid_t (*real)(void);
    uid_t u;
    if (env_id("VERIF_EUID", &u))
        return u;
    if (env_id("VERIF_UID", &u))
        return u;
    if (!real) real = dlsym(RTLD_NEXT, "geteuid");
    return real();
}

#define NOOP_ID(name, type)                                   \
    int name(type id)                                         \
    {                                                         \
        static int (*real)(type);                             \
        uid_t u;                                              \
        if (env_id("VERIF_UID", &u))                          \
            return 0;                                         \
        if (!real) real = dlsym(RTLD_NEXT, #name);            \
        return real(id);                                      \
    }
NOOP_ID(setuid, uid_t)
NOOP_ID(seteuid, uid_t)
NOOP_ID(setgid, gid_t)
NOOP_ID(setegid, gid_t)

static void logline(const char *what, const char *arg)
{
    const char *path = getenv("VERIF_LOG");
    char buf[PATH_MAX + 64];
    int fd, n;
    if (!path)
        return;
    n = snprintf(buf, sizeof buf, "%s %s\n", what, arg ? arg : "(null)");
    if ((fd = open(path, O_WRONLY | O_APPEND | O_CREAT, 0644)) >= 0) {
        if (write(fd, buf, n) < 0) { }
        close(fd);
    }
}

/* ---- stat ------------------------------------------------------------------------------ */

/* returns 1 and fills uid/mode strings when `path` has an entry */
static int map_lookup(const char *path, char *val, size_t max)
{
    const char *m = getenv("VERIF_STATMAP");
    size_t pl = strlen(path);
    while (m && *m) {
        const char *end = strchr(m, ';');
        size_t len = end ? (size_t) (end - m) : strlen(m);
        if (len > pl + 1 && strncmp(m, path, pl) == 0 && m[pl] == '=') {
            size_t vl = len - pl - 1;
            if (vl >= max) vl = max - 1;
            memcpy(val, m + pl + 1, vl);
            val[vl] = 0;
            return 1;
        }
        m = end ? end + 1 : NULL;
    }
    return 0;
}

int stat(const char *path, struct stat *st)
{
    static int (*real)(const char *, struct stat *);
    char val[128], rp[PATH_MAX];
    int found, rc;
    if (!real) real = dlsym(RTLD_NEXT, "stat");
    if (!getenv("VERIF_STATMAP"))
        return real(path, st);
    found = map_lookup(path, val, sizeof val);
    if (found && strcmp(val, "!") == 0) {
        errno = ENOENT;
        return -1;
    }
    rc = real(path, st);
    if (rc < 0)
        return rc;
    if (!found && realpath(path, rp))
        found = map_lookup(rp, val, sizeof val);
    if (found) {
        char *colon = strchr(val, ':');
        if (strcmp(val, "!") == 0) {
            errno = ENOENT;
            return -1;
        }
        if (colon) {
            *colon = 0;
            if (strcmp(val, "-") != 0)
                st->st_uid = (uid_t) strtoul(val, NULL, 10);
            if (strcmp(colon + 1, "-") != 0)
                st->st_mode = (mode_t) strtoul(colon + 1, NULL, 8);
        }
    }
    return 0;
}

/* ---- directory enumeration ----------------------------------------------------------------- */

struct fake_dir {
    unsigned long magic;
    char *list;          /* private copy of VERIF_DIRLIST */
    char *next;
    struct dirent ent;
};
#define FAKE_MAGIC 0x56455249464449UL

static int is_moddir(const char *name)
{
    const char *d = getenv("VERIF_MODDIR");
    char a[PATH_MAX], b[PATH_MAX];
    if (!d || !getenv("VERIF_DIRLIST"))
        return 0;
    if (strcmp(d, name) == 0)
        return 1;
    return realpath(d, a) && realpath(name, b) && strcmp(a, b) == 0;
}

DIR *opendir(const char *name)
{
    static DIR *(*real)(const char *);
    if (!real) real = dlsym(RTLD_NEXT, "opendir");
    if (is_moddir(name) && getenv("VERIF_OPENDIR_FAIL")) {
        logline("opendir-fails", name);
        errno = EACCES;
        return NULL;
    }
    if (is_moddir(name)) {
        struct fake_dir *f = calloc(1, sizeof *f);
        f->magic = FAKE_MAGIC;
        f->list = strdup(getenv("VERIF_DIRLIST"));
        f->next = f->list;
        logline("opendir", name);
        return (DIR *) f;
    }
    return real(name);
}

struct dirent *readdir(DIR *d)
{
    static struct dirent *(*real)(DIR *);
    struct fake_dir *f = (struct fake_dir *) d;
    if (!real) real = dlsym(RTLD_NEXT, "readdir");
    if (f && f->magic == FAKE_MAGIC) {
        char *s, *e;
        while (f->next && *f->next == '/')
            f->next++;
        if (!f->next || !*f->next)
            return NULL;
        s = f->next;
        e = strchr(s, '/');
        if (e) { *e = 0; f->next = e + 1; } else f->next = NULL;
        memset(&f->ent, 0, sizeof f->ent);
        f->ent.d_ino = 1;
        f->ent.d_type = DT_UNKNOWN;
        strncpy(f->ent.d_name, s, sizeof f->ent.d_name - 1);
        return &f->ent;
    }
    return real(d);
}

int closedir(DIR *d)
{
    static int (*real)(DIR *);
    struct fake_dir *f = (struct fake_dir *) d;
    if (!real) real = dlsym(RTLD_NEXT, "closedir");
    if (f && f->magic == FAKE_MAGIC) {
        free(f->list);
        f->magic = 0;
        free(f);
        return 0;
    }
    return real(d);
}

/* ---- dlopen ------------------------------------------------------------------------------ */

void *dlopen(const char *file, int mode)
{
    static void *(*real)(const char *, int);
    if (!real) real = dlsym(RTLD_NEXT, "dlopen");
    logline("dlopen", file);
    return real(file, mode);
}
