/* execsig_harness.c -- C20, forwarding at the module level, the PROCESS side: the REAL src/modules/execcmd.c (static
 * execcmd / exec_signal, reached through the exported operations table exactly as rcmd.c reaches them) and the real
 * src/common/pipecmd.c (included below, so that the calls its forked child makes can be stopped at) on real children.
 *
 * dsh.c's _fwd_signal() calls rcmd_signal(t[i].rcmd, signum) = (*rmod->signal)(rcmd->efd, rcmd->arg, signum) for every
 * READING target.  Two facts of dsh.c decide what "forward the signal to every command still running" asks of the module:
 *   (a) rcmd->efd is -1 when pdsh runs without -s and becomes -1 again as soon as the command's stderr reaches EOF:
 *       the module must deliver the signal whatever the value of efd               (scenarios sopt-open ... no-sopt);
 *   (b) a host is DSH_READING as soon as rcmd_connect() has returned, i.e. right after fork() in the parent: the child
 *       may be ANYWHERE between fork() and the first instruction of the command.  The signal must ARRIVE at the
 *       command wherever the child is: before/after its dup2()s, inside closeall(), before setsid() (its process group
 *       is still pdsh's), after setsid() (own session and group), before execvp()      (scenarios pt<k>:<call>[:s]).
 *
 * For (b) every libc call pipecmd.c's child makes between fork() and exec is numbered (macros below; only the child of
 * the fork counts); in scenario k the child stops itself (raise(SIGSTOP)) just before its k-th call, the parent waits for the
 * stop (waitpid WUNTRACED: no sleeping), calls the module's signal function, and continues the child.  As in pdsh
 * SIGINT/SIGTSTP are blocked in the caller (dsh.c:_mask_signals) and so in the child: a signal sent before exec stays
 * pending across exec.  The command is harness/sig_helper.c: it installs a handler, unblocks, and exits 130 when the
 * handler has run -- the arrival is observed IN THE COMMAND, not at the sender.  A signal that was sent before exec is
 * delivered at the helper's sigprocmask() or never, so an undelivered signal shows as exit 0 after the helper's short sleep.
 *
 *   usage: execsig_harness <sig_helper>     one line per scenario:  <name> delivered=<0|1> sigf=<rc> wait=<raw status>
 *
 * (a): each child is `sh -c "<prefix> exec sleep 3"`: if the signal is not delivered the wait ends after 3 s with exit 0. */
#include "src/modules/execcmd.c"

#include <stdio.h>
#include <stdlib.h>
#include <signal.h>
#include <string.h>
#include <unistd.h>
#include <fcntl.h>
#include <sys/mman.h>
#include <sys/resource.h>
#include <sys/wait.h>

/* ---- the calls of pipecmd.c's forked child, numbered ---- */
#define MAXCALLS 400
static struct shared {
    volatile int ncalls;
    char name[MAXCALLS][12];
} *sh;
static int in_child, stop_at;

static void point(const char *name)
{
    int k;
    if (!in_child || !sh)
        return;
    k = ++sh->ncalls;
    if (k <= MAXCALLS)
        strncpy(sh->name[k - 1], name, sizeof sh->name[0] - 1);
    if (k == stop_at)
        raise(SIGSTOP);
}

static pid_t h_fork(void) { pid_t p = fork(); if (p == 0) in_child = 1; return p; }
static pid_t h_vfork(void) { return h_fork(); }
static int h_close(int fd) { point("close"); return close(fd); }
static int h_dup2(int a, int b) { point("dup2"); return dup2(a, b); }
static int h_dup(int a) { point("dup"); return dup(a); }
static pid_t h_setsid(void) { point("setsid"); return setsid(); }
static int h_setpgid(pid_t a, pid_t b) { point("setpgid"); return setpgid(a, b); }
static int h_setpgrp(void) { point("setpgrp"); return setpgid(0, 0); }
static long h_sysconf(int n) { point("sysconf"); return sysconf(n); }
static int h_execvp(const char *f, char *const a[]) { point("execvp"); return execvp(f, a); }
static int h_execv(const char *f, char *const a[]) { point("execv"); return execv(f, a); }
static int h_execve(const char *f, char *const a[], char *const e[]) { point("execve"); return execve(f, a, e); }
static int h_chdir(const char *d) { point("chdir"); return chdir(d); }
/* the child lifts the signal mask it inherits from pdsh's threads: a signal forwarded while it is stopped before this
 * call is pending and blocked there; it must arrive when the mask is lifted (the child dies of it) or in the command */
static int h_sigprocmask(int how, const sigset_t *a, sigset_t *b) { point("sigprocmask"); return sigprocmask(how, a, b); }
static int h_pthread_sigmask(int how, const sigset_t *a, sigset_t *b) { point("sigmask"); return pthread_sigmask(how, a, b); }

#define fork h_fork
#define vfork h_vfork
#define close h_close
#define dup2 h_dup2
#define dup h_dup
#define setsid h_setsid
#define setpgid h_setpgid
#define setpgrp h_setpgrp
#define sysconf h_sysconf
#define execvp h_execvp
#define execv h_execv
#define execve h_execve
#define chdir h_chdir
#define sigprocmask h_sigprocmask
#define pthread_sigmask h_pthread_sigmask
#include "src/common/pipecmd.c"
#undef fork
#undef vfork
#undef close
#undef dup2
#undef dup
#undef setsid
#undef setpgid
#undef setpgrp
#undef sysconf
#undef execvp
#undef execv
#undef execve
#undef chdir
#undef sigprocmask
#undef pthread_sigmask

/* referenced by execcmd.c */
int rcmd_opt_set(int id, void *value) { (void) id; (void) value; return 0; }
static const char **remote_argv;
const char **pdsh_remote_argv(void) { return remote_argv; }

static void scenario(const char *name, const char *cmd, int want_fd2, int efd_after)
{
    int efd = -1, fd, status = 0, rc;
    void *arg = NULL;
    RcmdSigF sigf = execcmd_rcmd_ops.rcmd_signal;
    fd = execcmd("h0", NULL, "user", "user", (char *) cmd, 0, want_fd2 ? &efd : NULL, &arg);
    if (fd < 0 || arg == NULL) {
        printf("%s start-failed\n", name);
        return;
    }
    usleep(150000);             /* let the shell get to its exec */
    if (efd_after == -1)
        efd = -1;               /* what dsh.c keeps after EOF on the command's stderr / without -s */
    rc = (*sigf) (efd, arg, SIGINT);
    if (pipecmd_wait((pipecmd_t) arg, &status) < 0)
        status = -1;
    printf("%s delivered=%d sigf=%d wait=%d\n", name, WIFSIGNALED(status) && WTERMSIG(status) == SIGINT, rc, status);
    fflush(stdout);
}

/* one run of the module's execcmd with the child stopping before its k-th call (k = 0: never); the signal is sent while
 * it is stopped.  -> number of calls the child made before exec, or -1 */
static int at_point(int k, int want_fd2, const char *helper)
{
    const char *av[] = { helper, "/dev/null", "t", "0.4", NULL };
    int efd = -1, fd, status = 0, rc = 0, st, delivered, self = 0;
    void *arg = NULL;
    pid_t pid;
    sigset_t pend;
    struct timespec zero = { 0, 0 };
    char name[48];
    RcmdSigF sigf = execcmd_rcmd_ops.rcmd_signal;
    sh->ncalls = 0;
    stop_at = k;
    remote_argv = av;
    fd = execcmd("h0", NULL, "user", "user", "unused", 0, want_fd2 ? &efd : NULL, &arg);
    remote_argv = NULL;
    if (fd < 0 || arg == NULL) {
        printf("pt%d%s start-failed\n", k, want_fd2 ? ":s" : "");
        return -1;
    }
    pid = ((pipecmd_t) arg)->pid;
    if (k > 0) {
        /* the child stops itself before its k-th call -- or never gets there (k beyond its last call) */
        if (waitpid(pid, &st, WUNTRACED) != pid || !WIFSTOPPED(st)) {
            printf("pt%d%s start-failed: child did not stop (status %d)\n", k, want_fd2 ? ":s" : "", st);
            return -1;
        }
        if (!want_fd2)
            efd = -1;
        rc = (*sigf) (efd, arg, SIGINT);
        /* did the "forwarded" signal hit the sender (a signal to the group the child is still in: pdsh's own)? */
        sigpending(&pend);
        self = sigismember(&pend, SIGINT);
        if (self) {
            sigemptyset(&pend);
            sigaddset(&pend, SIGINT);
            sigtimedwait(&pend, NULL, &zero);
        }
        kill(pid, SIGCONT);
    }
    if (pipecmd_wait((pipecmd_t) arg, &status) < 0)
        status = -1;
    if (k > 0) {
        /* sig_helper: exit 130 = its SIGINT handler ran; killed by SIGINT = the signal arrived before the helper existed */
        delivered = (WIFEXITED(status) && WEXITSTATUS(status) == 130) || (WIFSIGNALED(status) && WTERMSIG(status) == SIGINT);
        snprintf(name, sizeof name, "pt%d:%s%s", k, k <= MAXCALLS ? sh->name[k - 1] : "?", want_fd2 ? ":s" : "");
        printf("%s delivered=%d sigf=%d wait=%d self=%d\n", name, delivered, rc, status, self);
        fflush(stdout);
    }
    close(fd);
    if (((pipecmd_t) arg)->efd >= 0)        /* _pipecmd always makes the second socketpair */
        close(((pipecmd_t) arg)->efd);
    pipecmd_destroy((pipecmd_t) arg);
    return sh->ncalls;
}

/* (c) an ORDINARY command (one that does not touch its signal mask: sleep, ssh, ...) started while the caller blocks
 * SIGINT/SIGTSTP/SIGCHLD as every thread of pdsh does (dsh.c:_mask_signals): the mask is inherited across fork and exec
 * unless _pipecmd's child resets it, and then the forwarded SIGINT stays pending in the command for ever.  No sleeping:
 * a signal sent before exec is pending across exec; the outcome is decided when the child has exec'd: it dies of SIGINT,
 * or /proc shows SIGINT blocked in the command (Linux; elsewhere: when it has not died within 2 s). */
static int blocked_in(pid_t pid)
{
    char path[64], line[256], comm[64] = "";
    unsigned long long blk = 0;
    FILE *f;
    snprintf(path, sizeof path, "/proc/%d/status", (int) pid);
    if (!(f = fopen(path, "r")))
        return 0;
    while (fgets(line, sizeof line, f)) {
        sscanf(line, "Name: %63s", comm);
        sscanf(line, "SigBlk: %llx", &blk);
    }
    fclose(f);
    return strcmp(comm, "sleep") == 0 && (blk & (1ULL << (SIGINT - 1)));
}

static void ordinary_command(void)
{
    const char *av[] = { "sleep", "3", NULL };
    int fd, status = 0, rc, i, delivered = 0, decided = 0;
    void *arg = NULL;
    pid_t pid;
    RcmdSigF sigf = execcmd_rcmd_ops.rcmd_signal;
    remote_argv = av;
    fd = execcmd("h0", NULL, "user", "user", "unused", 0, NULL, &arg);
    remote_argv = NULL;
    if (fd < 0 || arg == NULL) {
        printf("ordinary-command start-failed\n");
        return;
    }
    pid = ((pipecmd_t) arg)->pid;
    rc = (*sigf) (-1, arg, SIGINT);
    for (i = 0; i < 200 && !decided; i++) {
        if (waitpid(pid, &status, WNOHANG) == pid) {
            delivered = WIFSIGNALED(status) && WTERMSIG(status) == SIGINT;
            decided = 1;
        } else if (blocked_in(pid))
            break;
        else
            usleep(10000);
    }
    if (!decided) {
        kill(pid, SIGKILL);
        waitpid(pid, &status, 0);
    }
    printf("ordinary-command delivered=%d sigf=%d wait=%d\n", delivered, rc, status);
    fflush(stdout);
}

int main(int argc, char **argv)
{
    sigset_t none, blk;
    struct rlimit rl;
    int k, n, s;
    /* a check started from a background job inherits SIGINT ignored (and possibly blocked); the children would
     * inherit that across exec and the delivered signal would have no effect: start from the default state */
    signal(SIGINT, SIG_DFL);
    sigemptyset(&none);
    sigprocmask(SIG_SETMASK, &none, NULL);
    /* a process group of our own: a module that signals "the group of the child" before the child has left ours must
     * not interrupt the check that started us */
    if (setsid() < 0)
        setpgid(0, 0);
    err_init("execsig");
    /* -s: stderr fd handed out and still open */
    scenario("sopt-open", "exec sleep 3", 1, 0);
    /* -s: the command has closed its stderr, dsh.c saw EOF and set efd = -1; the command is still running */
    scenario("sopt-stderr-closed", "exec 2>&-; exec sleep 3", 1, -1);
    /* without -s: no stderr fd was ever asked for, efd is -1 from the start */
    scenario("no-sopt", "exec sleep 3", 0, -1);

    if (argc < 2)
        return 0;
    /* (b) a signal at every point between fork() and exec.  closeall() makes one close() per possible descriptor:
     * keep that loop short */
    rl.rlim_cur = rl.rlim_max = 16;
    setrlimit(RLIMIT_NOFILE, &rl);
    sh = mmap(NULL, sizeof *sh, PROT_READ | PROT_WRITE, MAP_SHARED | MAP_ANONYMOUS, -1, 0);
    if (sh == MAP_FAILED)
        return 3;
    /* as dsh() leaves every thread of pdsh before it starts a command */
    sigemptyset(&blk);
    sigaddset(&blk, SIGINT);
    sigaddset(&blk, SIGTSTP);
    sigprocmask(SIG_BLOCK, &blk, NULL);
    sigaddset(&blk, SIGCHLD);
    sigprocmask(SIG_BLOCK, &blk, NULL);
    ordinary_command();
    sigemptyset(&blk);
    sigaddset(&blk, SIGCHLD);
    sigprocmask(SIG_UNBLOCK, &blk, NULL);
    for (s = 0; s <= 1; s++) {
        n = at_point(0, s, argv[1]);
        printf("calls%s %d\n", s ? ":s" : "", n);
        for (k = 1; k <= n && k <= MAXCALLS; k++)
            at_point(k, s, argv[1]);
    }
    return 0;
}
