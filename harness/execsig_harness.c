/* execsig_harness.c -- C20, forwarding at the module level: the REAL src/modules/execcmd.c (static execcmd /
 * exec_signal, reached through the exported operations table exactly as rcmd.c reaches them) and the real
 * src/common/pipecmd.c on real children.
 *
 * dsh.c's _fwd_signal() calls rcmd_signal(t[i].rcmd, signum) = (*rmod->signal)(rcmd->efd, rcmd->arg, signum) for every
 * READING target.  rcmd->efd is -1 when pdsh runs without -s (no stderr fd was asked for) and becomes -1 again as
 * soon as the command's stderr reaches EOF (_handle_rcmd_stderr).  "Forward the signal to every command still
 * running" therefore means: the module must deliver the signal whatever the value of efd.
 *
 *   usage: execsig_harness      one line per scenario:  <name> delivered=<0|1> wait=<raw status>
 *
 * Each child is `sh -c "<prefix> exec sleep 3"`: if the signal is not delivered the wait ends after 3 s with exit 0. */
#include "src/modules/execcmd.c"

#include <stdio.h>
#include <stdlib.h>
#include <signal.h>

/* referenced by execcmd.c */
int rcmd_opt_set(int id, void *value) { (void) id; (void) value; return 0; }
const char **pdsh_remote_argv(void) { return NULL; }

static void scenario(const char *name, const char *cmd, int want_fd2, int efd_after)
{
    int efd = -1, fd, status = 0, rc;
    void *arg = NULL;
    RcmdSigF sigf = execcmd_rcmd_ops.rcmd_signal;
    fd = execcmd("h0", NULL, "user", "user", (char *) cmd, 0, want_fd2 ? &efd : NULL, &arg);
    if (fd < 0 || arg == NULL) {
        printf("%s start-failed\n", name);
        return;
    }
    usleep(150000);             /* let the shell get to its exec */
    if (efd_after == -1)
        efd = -1;               /* what dsh.c keeps after EOF on the command's stderr / without -s */
    rc = (*sigf) (efd, arg, SIGINT);
    if (pipecmd_wait((pipecmd_t) arg, &status) < 0)
        status = -1;
    printf("%s delivered=%d sigf=%d wait=%d\n", name, WIFSIGNALED(status) && WTERMSIG(status) == SIGINT, rc, status);
    fflush(stdout);
}

int main(void)
{
    sigset_t none;
    /* a check started from a background job inherits SIGINT ignored (and possibly blocked); the children would
     * inherit that across exec and the delivered signal would have no effect: start from the default state */
    signal(SIGINT, SIG_DFL);
    sigemptyset(&none);
    sigprocmask(SIG_SETMASK, &none, NULL);
    err_init("execsig");
    /* -s: stderr fd handed out and still open */
    scenario("sopt-open", "exec sleep 3", 1, 0);
    /* -s: the command has closed its stderr, dsh.c saw EOF and set efd = -1; the command is still running */
    scenario("sopt-stderr-closed", "exec 2>&-; exec sleep 3", 1, -1);
    /* without -s: no stderr fd was ever asked for, efd is -1 from the start */
    scenario("no-sopt", "exec sleep 3", 0, -1);
    return 0;
}
