/* hl_print_ops.h -- the printing ops of hl_harness.c (property C14; engine `print` on the model side).
 * Included by hl_harness.c AFTER src/common/hostlist.c and the helpers (puthex, fatal_class, do_create).
 *
 *   ptext r|d          reference call (buffer sizes 64, 128, .. until a length < n is reported):  RET HEX
 *   psweep r|d NMAX    one call per n = 1..NMAX (`+K` = reference length + K) into a buffer with guard bytes
 *                      (0xA5) on both sides; per n:  RET:K:p|X<hex>[:i+i+..]
 *                        K   position of the first NUL inside [0,n), `x` if there is none
 *                        p   the bytes before it are a prefix of the reference text (else X + the bytes in hex)
 *                        i.. guard bytes that changed, as indices relative to buf (negative: below the buffer)
 *   pexact r|d NMAX    the same calls with an EXACT-size heap allocation in a forked child under ASan; answer
 *                      `none` or `crash n:kind,n:kind,..[,more]` (after a report the sweep resumes at n+1; it
 *                      stops after 48 reports)
 *   pnrprobe           which form of _iterator_advance_range (F14-NEXTRANGE): fixed | unchanged
 *   pranges s|p|n|N    hostlist_shift_range / hostlist_pop_range (on a copy) / hostlist_next_range (iterator) until NULL:
 *                      HEX|HEX|.. or none
 *   pranges S|P        the same two on a RECORD-FOR-RECORD copy (joinable neighbours stay unjoined, as a delete leaves
 *                      them), in a forked child: HEX|HEX|..[!count=N][!crash:KIND]   (finding F14-RANGEMOVE)
 *   prmprobe           which bookkeeping hostlist_shift_range / hostlist_pop_range have: fixed | unchanged
 *   pback r|d          hostlist_create(reference text) compared host by host (the hosts the range records of
 *                      both lists denote) with the current list:  same COUNT | diff I HEXA HEXB | null:ERRNO:FATAL | no-reference
 */
#include <sys/mman.h>

#define P_FILL 0xA5
#define P_MAXREPORTS 48          /* pexact stops after this many sanitizer reports (the model does too) */

static ssize_t p_call(hostlist_t hl, int kind, size_t n, char *buf)
{
    return kind == 'r' ? hostlist_ranged_string(hl, n, buf) : hostlist_deranged_string(hl, n, buf);
}

/* reference text: malloc'd, NUL terminated at the first NUL inside the n bytes; NULL if none was found */
static char *p_reference(hostlist_t hl, int kind, ssize_t *retp, size_t *lenp)
{
    size_t n = 64, slack = 4096 + (size_t) hl->nranges;
    int round;
    for (round = 0; round <= 30 && n <= ((size_t) 1 << 28); round++, n *= 2) {
        char *raw = malloc(n + slack + 1);
        ssize_t ret;
        size_t k = 0;
        memset(raw, P_FILL, n + slack);
        raw[n + slack] = 0;
        ret = p_call(hl, kind, n, raw);
        /* accepted when a length inside the buffer is reported (the unchanged deranged code can report a
         * length >= n, see D14) */
        if ((ret < 0 || (size_t) ret >= n) && round < 30 && n * 2 <= ((size_t) 1 << 28)) {
            free(raw);
            continue;
        }
        while (k < n && raw[k]) k++;
        raw[k] = 0;
        *retp = ret;
        *lenp = k;
        return raw;
    }
    return NULL;
}

static long p_nmax(const char *s, size_t reflen)
{
    if (*s == '+')
        return (long) reflen + atol(s + 1);
    return atol(s);
}

static void p_sweep(hostlist_t hl, int kind, const char *nm)
{
    ssize_t rret;
    size_t rlen;
    char *ref = p_reference(hl, kind, &rret, &rlen);
    long nmax, n;
    size_t g = 80 + (size_t) hl->nranges;
    if (!ref) { printf("no-reference\n"); return; }
    nmax = p_nmax(nm, rlen);
    for (n = 1; n <= nmax; n++) {
        char *raw = malloc(g + (size_t) n + g);
        char *buf = raw + g;
        ssize_t ret;
        long k = 0, j;
        int first = 1;
        memset(raw, P_FILL, g + (size_t) n + g);
        ret = p_call(hl, kind, (size_t) n, buf);
        while (k < n && buf[k]) k++;
        if (n > 1) putchar(' ');
        printf("%ld:", (long) ret);
        if (k < n) printf("%ld:", k); else printf("x:");
        if ((size_t) k <= rlen && memcmp(buf, ref, (size_t) k) == 0)
            putchar('p');
        else {
            putchar('X');
            if (k == 0) putchar('-');
            for (j = 0; j < k; j++) printf("%02x", (unsigned char) buf[j]);
        }
        for (j = -(long) g; j < n + (long) g; j++) {
            if (j >= 0 && j < n) { j = n - 1; continue; }
            if ((unsigned char) buf[j] != P_FILL) {
                printf("%c%ld", first ? ':' : '+', j);
                first = 0;
            }
        }
        free(raw);
    }
    putchar('\n');
    free(ref);
}

static void p_exact(hostlist_t hl, int kind, const char *nm)
{
    ssize_t rret;
    size_t rlen;
    char *ref = p_reference(hl, kind, &rret, &rlen);
    long nmax, start = 1;
    volatile long *prog;
    int ncrash = 0;
    if (!ref) { printf("no-reference\n"); return; }
    nmax = p_nmax(nm, rlen);
    free(ref);
    prog = mmap(NULL, 4096, PROT_READ | PROT_WRITE, MAP_SHARED | MAP_ANONYMOUS, -1, 0);
    if (prog == MAP_FAILED) { printf("crash harness-mmap\n"); return; }
    fflush(stdout);
    while (start <= nmax && ncrash < P_MAXREPORTS) {
        int pe[2], status = 0;
        pid_t pid;
        char *e;
        size_t en;
        if (pipe(pe) < 0) { printf("crash harness-pipe\n"); return; }
        fcntl(pe[1], F_SETPIPE_SZ, 1 << 20);
        pid = fork();
        if (pid < 0) { printf("crash harness-fork\n"); return; }
        if (pid == 0) {
            long n;
            struct rlimit rl = { 0, 0 };
            close(pe[0]);
            dup2(pe[1], 2);
            setrlimit(RLIMIT_CORE, &rl);
            for (n = start; n <= nmax; n++) {
                char *buf;
                *prog = n;
                buf = malloc((size_t) n);          /* exact size: the redzone starts at buf[n] */
                memset(buf, P_FILL, (size_t) n);
                p_call(hl, kind, (size_t) n, buf);
                free(buf);
            }
            *prog = nmax + 1;
            _exit(0);
        }
        close(pe[1]);
        e = slurp(pe[0], &en);
        close(pe[0]);
        waitpid(pid, &status, 0);
        if (WIFEXITED(status) && WEXITSTATUS(status) == 0 && *prog == nmax + 1) {
            free(e);
            start = nmax + 1;
            break;
        } else {
            const char *p;
            char kindbuf[64] = "unknown";
            if ((p = strstr(e, "ERROR: AddressSanitizer: "))) {
                int i = 0;
                p += strlen("ERROR: AddressSanitizer: ");
                while (*p && !isspace((unsigned char) *p) && i < 63) kindbuf[i++] = *p++;
                kindbuf[i] = 0;
            } else if (strstr(e, "runtime error:"))
                strcpy(kindbuf, "ubsan");
            else if (WIFSIGNALED(status))
                snprintf(kindbuf, sizeof(kindbuf), "sig%d", WTERMSIG(status));
            if (getenv("HL_PRINT_DEBUG")) {            /* keep the child's report for diagnosis */
                FILE *df = fopen(getenv("HL_PRINT_DEBUG"), "a");
                if (df) {
                    fprintf(df, "---- pexact %c n=%ld status=%x kind=%s\n%.3000s\n", kind, (long) *prog, status, kindbuf, e);
                    fclose(df);
                }
            }
            printf("%s%ld:%s", ncrash ? "," : "crash ", (long) *prog, kindbuf);
            ncrash++;
            start = *prog + 1;
        }
        free(e);
    }
    if (!ncrash) printf("none");
    else if (start <= nmax) printf(",more");      /* stopped after P_MAXREPORTS reports */
    putchar('\n');
    munmap((void *) prog, 4096);
}

/* cursor over the hosts the range RECORDS of a list denote (prefix + zero-padded number), read straight from the
 * data structure: hostlist_shift/next/nth are not used because they cut long numbers (properties C01/C16) */
struct p_cur { hostlist_t h; int i; unsigned long j; int started; };
static char *p_cur_next(struct p_cur *c)
{
    hostrange_t r;
    char *name;
    size_t sz;
    if (c->i >= c->h->nranges)
        return NULL;
    r = c->h->hr[c->i];
    if (!c->started) { c->j = r->lo; c->started = 1; }
    sz = strlen(r->prefix) + (size_t) (r->width > 0 ? r->width : 0) + 32;
    name = malloc(sz);
    if (r->singlehost)
        snprintf(name, sz, "%s", r->prefix);
    else
        snprintf(name, sz, "%s%0*lu", r->prefix, r->width, c->j);
    if (r->singlehost || c->j >= r->hi) { c->i++; c->started = 0; }
    else c->j++;
    return name;
}

static void p_back(hostlist_t hl, int kind)
{
    ssize_t rret;
    size_t rlen;
    char *ref = p_reference(hl, kind, &rret, &rlen);
    hostlist_t h2;
    struct p_cur ca, cb;
    long i = 0;
    if (!ref || rret < 0) { printf("no-reference\n"); free(ref); return; }
    h2 = do_create(ref);
    if (!h2) {
        printf("null:%s:%s\n", errno_class(errno), fatal_class);
        free(ref);
        return;
    }
    memset(&ca, 0, sizeof(ca));
    memset(&cb, 0, sizeof(cb));
    ca.h = h2;
    cb.h = hl;
    for (;; i++) {
        char *a = p_cur_next(&ca), *b = p_cur_next(&cb);
        if (!a && !b) { printf("same %ld\n", i); break; }
        if (!a || !b || strcmp(a, b) != 0) {
            printf("diff %ld ", i);
            if (a) puthex(stdout, a); else printf("null");
            printf(" ");
            if (b) puthex(stdout, b); else printf("null");
            printf("\n");
            free(a);
            free(b);
            break;
        }
        free(a);
        free(b);
    }
    hostlist_destroy(h2);
    free(ref);
}

/* raw list construction: `pmk PRE:LO:HI:WIDTH:SINGLE ...` builds the current list from range records as
 * given, WITHOUT tail coalescing (hostlist_insert_range at the end), so that every shape of record
 * sequence the data structure admits can be printed.  Returns the new list. */
static hostlist_t p_mk(const char *line)
{
    hostlist_t h = hostlist_new();
    const char *p = line;
    while (*p && !isspace((unsigned char) *p)) p++;            /* skip the op */
    for (;;) {
        char hexpre[1 << 16];
        unsigned long lo, hi;
        int width, single, used = 0;
        char *pre;
        hostrange_t r;
        while (*p == ' ') p++;
        if (!*p || *p == '\n') break;
        if (sscanf(p, "%65535[^:]:%lu:%lu:%d:%d%n", hexpre, &lo, &hi, &width, &single, &used) != 5) {
            hostlist_destroy(h);
            return NULL;
        }
        p += used;
        pre = unhex(hexpre);
        r = single ? hostrange_create_single(pre) : hostrange_create(pre, lo, hi, width);
        free(pre);
        hostlist_insert_range(h, r, h->nranges);     /* copies r */
        h->nhosts += (int) hostrange_count(r);
        hostrange_destroy(r);
    }
    return h;
}

/* hostlist_shift_range / hostlist_pop_range on a COPY of the list until NULL (their stack buffers
 * buf[1024] / buf[MAXHOSTRANGELEN+1] are watched by ASan): the strings returned, `|`-separated */
static void p_ranges(hostlist_t hl, int which)
{
    /* the copy is built with hostlist_push_range, i.e. with tail coalescing: both functions do their bookkeeping with
     * hltmp->nranges (`hl->nranges -= hltmp->nranges`), which is only right when moving the records into hltmp merges
     * none of them - true of every list whose joinable neighbours are already joined (lists from the public API) */
    hostlist_t c = hostlist_new();
    int k = 0, i;
    char *s;
    for (i = 0; i < hl->nranges; i++)
        hostlist_push_range(c, hl->hr[i]);
    while ((s = (which == 's' ? hostlist_shift_range(c) : hostlist_pop_range(c))) != NULL) {
        if (k++) putchar('|');
        puthex(stdout, s);
        hl_free(s);
        if (k > 100000) break;
    }
    if (!k) printf("none");
    putchar('\n');
    hostlist_destroy(c);
}

/* hostlist_shift_range / hostlist_pop_range until NULL on a record-for-record copy of the list (built like `pmk`:
 * hostlist_insert_range at the end, no tail coalescing), in a forked child under the sanitizers.  Both functions
 * subtract hltmp->nranges from hl->nranges; when hostlist_push_range joined records while moving them into hltmp that
 * is fewer than the records moved (finding F14-RANGEMOVE): the next call reads a freed record / a NULL slot.
 * Answer: the pieces, `!count=N` when the list is not empty after the NULL, `!crash:KIND` when the child died. */
static int p_ranges_raw_child(hostlist_t hl, int which, int quiet)
{
    hostlist_t c = hostlist_new();
    int k = 0, i;
    char *s;
    for (i = 0; i < hl->nranges; i++) {
        hostlist_insert_range(c, hl->hr[i], c->nranges);
        c->nhosts += (int) hostrange_count(hl->hr[i]);
    }
    while ((s = (which == 'S' ? hostlist_shift_range(c) : hostlist_pop_range(c))) != NULL) {
        if (!quiet) {
            if (k) putchar('|');
            puthex(stdout, s);
            fflush(stdout);
        }
        k++;
        hl_free(s);
        if (k > 100000) break;
    }
    if (!quiet) {
        if (!k) printf("none");
        if (hostlist_count(c) != 0) printf("!count=%d", hostlist_count(c));
        fflush(stdout);
    }
    i = hostlist_count(c);
    hostlist_destroy(c);
    return k * 1000 + i;
}

static int p_forked(hostlist_t hl, int which, int quiet, char *kindbuf, size_t kn)
{
    int pe[2], status = 0;
    pid_t pid;
    char *e;
    size_t en;
    snprintf(kindbuf, kn, "none");
    fflush(stdout);
    if (pipe(pe) < 0) { snprintf(kindbuf, kn, "harness-pipe"); return -1; }
    pid = fork();
    if (pid < 0) { snprintf(kindbuf, kn, "harness-fork"); return -1; }
    if (pid == 0) {
        struct rlimit rl = { 0, 0 };
        int r;
        close(pe[0]);
        dup2(pe[1], 2);
        setrlimit(RLIMIT_CORE, &rl);
        r = p_ranges_raw_child(hl, which, quiet);
        fflush(stdout);
        _exit(quiet ? (r == 1000 ? 0 : 4) : 0);
    }
    close(pe[1]);
    e = slurp(pe[0], &en);
    close(pe[0]);
    waitpid(pid, &status, 0);
    if (!(WIFEXITED(status) && (WEXITSTATUS(status) == 0 || WEXITSTATUS(status) == 4))) {
        const char *p;
        snprintf(kindbuf, kn, "unknown");
        if ((p = strstr(e, "ERROR: AddressSanitizer: "))) {
            size_t i = 0;
            p += strlen("ERROR: AddressSanitizer: ");
            while (*p && !isspace((unsigned char) *p) && i + 1 < kn) kindbuf[i++] = *p++;
            kindbuf[i] = 0;
        } else if (strstr(e, "runtime error:"))
            snprintf(kindbuf, kn, "ubsan");
        else if (strstr(e, "Assertion"))
            snprintf(kindbuf, kn, "assert");
        else if (WIFSIGNALED(status))
            snprintf(kindbuf, kn, "sig%d", WTERMSIG(status));
        if (getenv("HL_PRINT_DEBUG")) {
            FILE *df = fopen(getenv("HL_PRINT_DEBUG"), "a");
            if (df) { fprintf(df, "---- pranges %c status=%x kind=%s\n%.3000s\n", which, status, kindbuf, e); fclose(df); }
        }
        free(e);
        return 1;
    }
    free(e);
    return WEXITSTATUS(status) == 4 ? 2 : 0;
}

static void p_ranges_raw(hostlist_t hl, int which)
{
    char kind[64];
    int r = p_forked(hl, which, 0, kind, sizeof(kind));
    if (r != 0) printf("!crash:%s", kind);
    putchar('\n');
}

/* which bookkeeping do hostlist_shift_range / hostlist_pop_range have?  `f[1-2]`, `f[3-4]` side by side: as written
 * the first call gives up one slot for two records moved and the second call (or the destroy) trips the sanitizer;
 * repaired = ONE call returns the group, the list is empty, nothing is reported - for both functions */
static void p_rangemove_probe(void)
{
    hostlist_t h = hostlist_new();
    hostrange_t a = hostrange_create("f", 1, 2, 1), b = hostrange_create("f", 3, 4, 1);
    char kind[64];
    int rs, rp;
    hostlist_insert_range(h, a, 0);
    hostlist_insert_range(h, b, 1);
    h->nhosts = 4;
    hostrange_destroy(a);
    hostrange_destroy(b);
    rs = p_forked(h, 'S', 1, kind, sizeof(kind));
    rp = p_forked(h, 'P', 1, kind, sizeof(kind));
    hostlist_destroy(h);
    if (rs == 0 && rp == 0) printf("fixed\n");
    else if (rs == 0 || rp == 0) printf("mixed:%d:%d\n", rs, rp);
    else printf("unchanged\n");
}

/* hostlist_next_range on a fresh iterator over the list itself until NULL (buf[MAXHOSTRANGELEN+1] on the stack).
 * In the UNREPAIRED _iterator_advance_range the call that returns NULL reads hl->hr[hl->nranges]; when the array is
 * full (nranges == size) that is a read past the heap block (finding F14-NEXTRANGE).  Which form the code under test
 * has is probed by `pnrprobe`; the check then asks for
 *   pranges n   (unrepaired code) when the array is full the final call is NOT made - the groups are counted
 *               beforehand - and the answer ends in `!end-read-past-hr` instead
 *   pranges N   (repaired code) the iteration is run to its NULL on every list, full arrays included */
static void p_next_ranges(hostlist_t hl, int always)
{
    hostlist_iterator_t it = hostlist_iterator_create(hl);
    int k = 0, groups = 0, i, j;
    char *s;
    for (i = 0; i < hl->nranges; i = j) {
        groups++;
        j = i;
        while (++j < hl->nranges && hostrange_within_range(hl->hr[i], hl->hr[j])) {;}
    }
    for (k = 0; k < groups; k++) {
        s = hostlist_next_range(it);
        if (k) putchar('|');
        if (!s) { printf("!null"); break; }
        puthex(stdout, s);
        hl_free(s);
    }
    if (!groups) printf("none");
    if (always || hl->nranges < hl->size) {
        s = hostlist_next_range(it);
        if (s) { printf("!extra"); hl_free(s); }
        if (always) {                                /* and once more after the end (the unrepaired code would */
            s = hostlist_next_range(it);             /* read hr[nranges+1] then)                               */
            if (s) { printf("!extra2"); hl_free(s); }
        }
    } else
        printf("!end-read-past-hr");
    putchar('\n');
    hostlist_iterator_destroy(it);
}

/* which form of _iterator_advance_range does the code under test have?  A forked child iterates a list whose record
 * array is full (HOSTLIST_CHUNK distinct names) with hostlist_next_range until NULL: `fixed` when it survives,
 * `unchanged` when the sanitizer reports the read past the array */
static void p_nextrange_probe(void)
{
    int status = 0, i;
    pid_t pid;
    fflush(stdout);
    pid = fork();
    if (pid < 0) { printf("crash harness-fork\n"); return; }
    if (pid == 0) {
        hostlist_t h = hostlist_create("");
        hostlist_iterator_t it;
        char name[32], *s;
        struct rlimit rl = { 0, 0 };
        int fd = open("/dev/null", O_WRONLY);
        setrlimit(RLIMIT_CORE, &rl);
        if (fd >= 0) dup2(fd, 2);
        for (i = 0; h->nranges < h->size && i < 100000; i++) {
            snprintf(name, sizeof(name), "p%dx", i);
            hostlist_push_host(h, name);
        }
        if (h->nranges != h->size) _exit(3);
        it = hostlist_iterator_create(h);
        while ((s = hostlist_next_range(it)) != NULL) hl_free(s);
        _exit(0);
    }
    waitpid(pid, &status, 0);
    if (WIFEXITED(status) && WEXITSTATUS(status) == 0) printf("fixed\n");
    else if (WIFEXITED(status) && WEXITSTATUS(status) == 3) printf("probe-failed\n");
    else printf("unchanged\n");
}

/* returns 1 when the op was one of ours */
static int print_op(hostlist_t hl, const char *op, const char *line)
{
    char k[8] = "", nm[64] = "";
    if (strcmp(op, "ptext") && strcmp(op, "psweep") && strcmp(op, "pexact") && strcmp(op, "pback")
        && strcmp(op, "pranges") && strcmp(op, "pnrprobe") && strcmp(op, "prmprobe"))
        return 0;
    if (!strcmp(op, "pnrprobe")) { p_nextrange_probe(); return 1; }
    if (!strcmp(op, "prmprobe")) { p_rangemove_probe(); return 1; }
    sscanf(line, "%*s %7s %63s", k, nm);
    if (!strcmp(op, "pranges")) {
        if (k[0] == 'n' || k[0] == 'N') p_next_ranges(hl, k[0] == 'N');
        else if (k[0] == 'S' || k[0] == 'P') p_ranges_raw(hl, k[0]);
        else if (k[0] != 's' && k[0] != 'p') printf("bad-arg\n"); else p_ranges(hl, k[0]);
        return 1;
    }
    if (k[0] != 'r' && k[0] != 'd') { printf("bad-arg\n"); return 1; }
    if (!strcmp(op, "ptext")) {
        ssize_t rret;
        size_t rlen;
        char *ref = p_reference(hl, k[0], &rret, &rlen);
        if (!ref) { printf("no-reference\n"); return 1; }
        printf("%ld ", (long) rret);
        puthex(stdout, ref);
        printf("\n");
        free(ref);
    } else if (!strcmp(op, "psweep"))
        p_sweep(hl, k[0], nm[0] ? nm : "+2");
    else if (!strcmp(op, "pexact"))
        p_exact(hl, k[0], nm[0] ? nm : "+2");
    else
        p_back(hl, k[0]);
    return 1;
}
