/* sigthread_harness.c -- C20 on REAL threads and REAL signals, without wall-clock races.
 *
 * Includes the real src/pdsh/dsh.c: dsh() runs in this process with its real threads, its real _mask_signals /
 * pthread_sigmask, its real _signals_thread in the real sigwait(), real raise(SIGSTOP), real errx()/exit(), real
 * pthread_cancel/pthread_join at the end.  Only two things are replaced:
 *   - the rcmd layer (rcmd.h) by a GATED transport: a target's connect returns, and its command's stdout reaches EOF,
 *     when the driver says so; every transport event is reported to the driver;
 *   - time(): dsh.c is compiled with `time` renamed, the clock is a number the driver sets.
 * The driver (vlib/sigthread.py) therefore knows in which phase every target is when it sends a signal with kill(2),
 * and how many seconds lie between two signals: nothing is decided by sleeping.
 *
 *   sigthread_harness <evfd> <cmdfd> <fanout> <N> <batch 0|1> <S 0|1> [<inherited> [<clock at start>]]
 * <inherited>: what pdsh finds when it is started -- any of  i SIGINT ignored | z SIGTSTP ignored | I SIGINT blocked |
 *              Z SIGTSTP blocked  (`pdsh ... &` from a script, nohup-like wrappers, trap '' INT, pdsh's own prompt mode:
 *              main.c sets SIGINT to SIG_IGN before it forks the run of each typed command); default: default dispositions,
 *              nothing blocked.  The property does not depend on it: dsh() blocks both signals in every thread and takes
 *              them with sigwait(), which also dequeues a signal whose disposition is SIG_IGN.
 * events (written to evfd, one line each):  C<i> connect entered | R<i> connect returned | F<i> <signo> rcmd_signal |
 *                                           D<i> rcmd_destroy | T<v> clock set | X dsh() returned <rc>
 * commands (read from cmdfd):               c<i> let the connect of target i return | e<i> end the command of target i
 *                                           (EOF on its stdout) | t<v> set the clock | q quit the command reader
 */
#define time harness_time
#include <time.h>
#include "src/pdsh/dsh.c"

#include <sys/wait.h>

pers_t pdsh_personality(void) { return DSH; }
int pcp_client(struct pcp_client *c) { (void) c; abort(); return -1; }
int pcp_server(struct pcp_server *s) { (void) s; abort(); return -1; }
List pcp_expand_dirs(List l) { (void) l; abort(); return NULL; }

#define MAXH 32
static struct gate {
    int connect_go, wfd, entered;
} gates[MAXH];
static pthread_mutex_t gmx = PTHREAD_MUTEX_INITIALIZER;
static pthread_cond_t gcv = PTHREAD_COND_INITIALIZER;
static int evfd = -1, cmdfd = -1;
static volatile long vclock = 1000000;
static struct rcmd_options stub_opts = { false };

time_t harness_time(time_t *tp)
{
    time_t v = (time_t) vclock;
    if (tp) *tp = v;
    return v;
}

static void ev(const char *fmt, long a, long b)
{
    char buf[64];
    int n = snprintf(buf, sizeof buf, fmt, a, b);
    if (write(evfd, buf, n) != n)
        _exit(97);
}

int rcmd_init(opt_t * opt) { (void) opt; return 0; }

struct rcmd_info *rcmd_create(char *host)
{
    struct rcmd_info *r = calloc(1, sizeof(*r));
    (void) host;
    r->fd = -1;
    r->efd = -1;
    r->opts = &stub_opts;
    return r;
}

int rcmd_connect(struct rcmd_info *rcmd, char *host, char *addr, char *locuser, char *remuser, char *cmd,
                 int nodeid, bool error_fd)
{
    int pfd[2];
    char line[32];
    int n;
    (void) host; (void) addr; (void) locuser; (void) remuser; (void) cmd; (void) error_fd;
    rcmd->arg = &gates[nodeid];
    ev("C%ld\n", nodeid, 0);
    pthread_mutex_lock(&gmx);
    gates[nodeid].entered = 1;
    while (!gates[nodeid].connect_go)
        pthread_cond_wait(&gcv, &gmx);
    pthread_mutex_unlock(&gmx);
    if (pipe(pfd) < 0)
        abort();
    n = snprintf(line, sizeof line, "o%d\n", nodeid);
    if (write(pfd[1], line, n) != n)
        abort();
    pthread_mutex_lock(&gmx);
    gates[nodeid].wfd = pfd[1];
    pthread_mutex_unlock(&gmx);
    rcmd->fd = pfd[0];
    ev("R%ld\n", nodeid, 0);
    return pfd[0];
}

int rcmd_signal(struct rcmd_info *rcmd, int signum)
{
    struct gate *g = rcmd->arg;
    ev("F%ld %ld\n", (long) (g - gates), signum);
    return 0;
}

int rcmd_destroy(struct rcmd_info *rcmd)
{
    struct gate *g;
    if (rcmd == NULL)
        return 0;
    g = rcmd->arg;
    if (g)
        ev("D%ld\n", (long) (g - gates), 0);
    free(rcmd);
    return 0;
}

/* the command reader: a thread of the harness, every signal blocked (so that a signal sent to the process can only be
 * taken by a thread of pdsh) */
static void *reader(void *arg)
{
    char c, kind = 0;
    long v = 0;
    (void) arg;
    while (read(cmdfd, &c, 1) == 1) {
        if (c == '\n') {
            if (kind == 'q')
                break;
            pthread_mutex_lock(&gmx);
            if (kind == 'c' && v >= 0 && v < MAXH) {
                gates[v].connect_go = 1;
                pthread_cond_broadcast(&gcv);
            } else if (kind == 'e' && v >= 0 && v < MAXH && gates[v].wfd >= 0) {
                close(gates[v].wfd);
                gates[v].wfd = -1;
            } else if (kind == 't') {
                vclock = v;
                ev("T%ld\n", v, 0);
            }
            pthread_mutex_unlock(&gmx);
            kind = 0;
            v = 0;
        } else if (!kind)
            kind = c;
        else if (c >= '0' && c <= '9')
            v = v * 10 + (c - '0');
    }
    return NULL;
}

int main(int argc, char **argv)
{
    opt_t opt;
    char hosts[64];
    pthread_t th;
    sigset_t all, old;
    int i, n, rc;
    if (argc < 7)
        return 2;
    evfd = atoi(argv[1]);
    cmdfd = atoi(argv[2]);
    n = atoi(argv[4]);
    for (i = 0; i < MAXH; i++)
        gates[i].wfd = -1;
    /* as the launcher of a login shell leaves them: default dispositions, nothing blocked */
    signal(SIGINT, SIG_DFL);
    signal(SIGTSTP, SIG_DFL);
    signal(SIGCHLD, SIG_DFL);
    sigfillset(&all);
    pthread_sigmask(SIG_BLOCK, &all, &old);
    pthread_create(&th, NULL, reader, NULL);
    sigemptyset(&old);
    if (argc > 7) {
        if (strchr(argv[7], 'i')) signal(SIGINT, SIG_IGN);
        if (strchr(argv[7], 'z')) signal(SIGTSTP, SIG_IGN);
        if (strchr(argv[7], 'I')) sigaddset(&old, SIGINT);
        if (strchr(argv[7], 'Z')) sigaddset(&old, SIGTSTP);
    }
    pthread_sigmask(SIG_SETMASK, &old, NULL);
    /* the clock pdsh is started at (time_t is as wide as the platform makes it: values beyond 2^31 and 2^32 are dates
     * after 2038 and 2106; 0 is the epoch, where last_intr's initial value 0 is "now") */
    if (argc > 8)
        vclock = strtol(argv[8], NULL, 10);

    memset(&opt, 0, sizeof(opt));
    err_init("pdsh");
    opt.progname = "pdsh";
    opt.luser = "luser";
    opt.ruser = "ruser";
    opt.fanout = atoi(argv[3]);
    opt.connect_timeout = 0;
    opt.command_timeout = 0;
    opt.labels = true;
    opt.separate_stderr = false;
    opt.cmd = Strdup("cmd");
    opt.sigint_terminates = atoi(argv[5]);
    opt.ret_remote_rc = atoi(argv[6]);
    snprintf(hosts, sizeof(hosts), "h[0-%d]", n - 1);
    opt.wcoll = hostlist_create(n == 1 ? "h0" : hosts);
    rc = dsh(&opt);
    fflush(stdout);
    ev("X%ld\n", rc, 0);
    /* main.c: `return retval;` */
    exit(rc);
}
