/* fmt_harness.c -- in-process harness around the UNMODIFIED src/common/pipecmd.c (property C09).
 *
 * The argument bytes are laid out so that the last byte given on the protocol line is the last
 * readable byte in front of a PROT_NONE guard page: any read beyond the bytes the case provides
 * faults, the handler checks that the fault address lies in the guard page and answers `ub`
 * (everything else -- ASan/UBSan reports, faults elsewhere -- still aborts the process).
 *
 *   fmt  HOST USER RANK MEM            -> ok HEX | null | ub      (pipecmd_format_arg on MEM)
 *   args HOST USER RANK PATH TAIL ARG* -> ok A0 A1 ... | ub        (cmd_args_create; Ai = HEX|null;
 *                                          ARGs contiguous, NUL separated, then TAIL bytes, then guard)
 * all fields hex, "-" = empty.  Run with ASAN_OPTIONS=detect_leaks=0:handle_segv=0:allow_user_segv_handler=1
 */
#define _GNU_SOURCE
#include <stdio.h>
#include <stdlib.h>
#include <string.h>
#include <signal.h>
#include <setjmp.h>
#include <unistd.h>
#include <sys/mman.h>

#include "src/common/xmalloc.c"
#include "src/common/xstring.c"
#include "src/common/pipecmd.c"

/* err.c is not needed for the two functions under test: stub what pipecmd.c references */
void err(char *fmt, ...) { (void) fmt; }
void errx(char *fmt, ...) { (void) fmt; exit(3); }
void lsd_fatal_error(char *f, int l, char *m) { (void) f; (void) l; (void) m; exit(3); }
void *lsd_nomem_error(char *f, int l, char *m) { (void) f; (void) l; (void) m; exit(3); return 0; }

#define REGION (1 << 20)
static unsigned char *region;      /* REGION bytes RW, then one guard page */
static long pagesz;
static sigjmp_buf jb;
static volatile int armed;

static void on_segv(int sig, siginfo_t *si, void *uc)
{
    unsigned char *a = (unsigned char *) si->si_addr;
    (void) uc;
    if (armed && a >= region + REGION && a < region + REGION + pagesz)
        siglongjmp(jb, 1);
    signal(sig, SIG_DFL);
    raise(sig);
}

static int unhex(const char *s, unsigned char *out, int max)
{
    int n = 0;
    if (strcmp(s, "-") == 0)
        return 0;
    while (s[0] && s[1]) {
        unsigned int b;
        if (n >= max || sscanf(s, "%2x", &b) != 1)
            return -1;
        out[n++] = (unsigned char) b;
        s += 2;
    }
    return n;
}

static void puthex(const char *s)
{
    if (s == NULL) { fputs("null", stdout); return; }
    if (*s == 0) { fputs("-", stdout); return; }
    for (; *s; s++)
        printf("%02x", (unsigned char) *s);
}

#define MAXF 4096
static char line[4 * 1024 * 1024];
static unsigned char hbuf[MAXF + 1], ubuf[MAXF + 1], pbuf[MAXF + 1];
static unsigned char tmp[REGION];

int main(void)
{
    struct sigaction sa;
    pagesz = sysconf(_SC_PAGESIZE);
    region = mmap(NULL, REGION + pagesz, PROT_READ | PROT_WRITE, MAP_PRIVATE | MAP_ANONYMOUS, -1, 0);
    if (region == MAP_FAILED || mprotect(region + REGION, pagesz, PROT_NONE) < 0) {
        perror("mmap");
        return 2;
    }
    memset(&sa, 0, sizeof sa);
    sa.sa_sigaction = on_segv;
    sa.sa_flags = SA_SIGINFO | SA_NODEFER;
    sigaction(SIGSEGV, &sa, NULL);
    sigaction(SIGBUS, &sa, NULL);

    while (fgets(line, sizeof line, stdin)) {
        char *w[4096];
        int nw = 0, n;
        char *tok = strtok(line, " \n");
        while (tok && nw < 4096) { w[nw++] = tok; tok = strtok(NULL, " \n"); }
        if (nw == 0) { puts("bad-op"); fflush(stdout); continue; }
        if (strcmp(w[0], "fmt") == 0 && nw == 5) {
            struct pipe_info_struct e;
            int hl = unhex(w[1], hbuf, MAXF), ul = unhex(w[2], ubuf, MAXF);
            n = unhex(w[4], tmp, REGION);
            if (hl < 0 || ul < 0 || n < 0) { puts("bad-op"); fflush(stdout); continue; }
            hbuf[hl] = 0; ubuf[ul] = 0;
            memset(&e, 0, sizeof e);
            e.target = (char *) hbuf; e.username = (char *) ubuf; e.rank = atoi(w[3]);
            memcpy(region + REGION - n, tmp, n);
            armed = 1;
            if (sigsetjmp(jb, 1) == 0) {
                char *r = pipecmd_format_arg(&e, (const char *) (region + REGION - n));
                armed = 0;
                if (r) { fputs("ok ", stdout); puthex(r); putchar('\n'); }
                else puts("null");
            } else {
                armed = 0;
                puts("ub");
            }
        } else if (strcmp(w[0], "args") == 0 && nw >= 6) {
            struct pipe_info_struct e;
            const char *argv[4096];
            int hl = unhex(w[1], hbuf, MAXF), ul = unhex(w[2], ubuf, MAXF), pl = unhex(w[4], pbuf, MAXF);
            int i, tl, total = 0, na = nw - 6, off[4096];
            if (hl < 0 || ul < 0 || pl < 0) { puts("bad-op"); fflush(stdout); continue; }
            hbuf[hl] = 0; ubuf[ul] = 0; pbuf[pl] = 0;
            for (i = 0; i < na; i++) {
                n = unhex(w[6 + i], tmp + total, REGION - total - 1);
                if (n < 0) break;
                off[i] = total;
                total += n;
                tmp[total++] = 0;
            }
            tl = (i == na) ? unhex(w[5], tmp + total, REGION - total) : -1;
            if (tl < 0) { puts("bad-op"); fflush(stdout); continue; }
            total += tl;
            memcpy(region + REGION - total, tmp, total);
            for (i = 0; i < na; i++)
                argv[i] = (const char *) (region + REGION - total + off[i]);
            argv[na] = NULL;
            memset(&e, 0, sizeof e);
            e.target = (char *) hbuf; e.username = (char *) ubuf; e.rank = atoi(w[3]);
            e.cmd = (char *) pbuf;
            armed = 1;
            if (sigsetjmp(jb, 1) == 0) {
                char **r = cmd_args_create(&e, argv);
                armed = 0;
                fputs("ok", stdout);
                for (i = 0; i < na + 1; i++) { putchar(' '); puthex(r[i]); }
                putchar('\n');
            } else {
                armed = 0;
                puts("ub");
            }
        } else
            puts("bad-op");
        fflush(stdout);
    }
    return 0;
}
