/* cbuf_harness.c -- in-process driver of the REAL src/pdsh/cbuf.c (engine `cbuf`).
 * Reads the op lines of the cbuf line protocol on stdin, answers on stdout in the
 * same canonical format as `pdshmodel cbuf model|spec`.
 * Built per run from /repo's working tree (assertion+ASan flavour and shipped flavour).
 */
#if HAVE_CONFIG_H
#  include "config.h"
#endif
#include <stdio.h>
#include <stdlib.h>
#include <string.h>
#include <errno.h>
#include <unistd.h>
#include <fcntl.h>
#include <setjmp.h>
#include <pthread.h>
#include <assert.h>

/* scripted descriptor sink: cbuf.c's write() on SINK_FD takes `sink_cap` more bytes and then fails
 * with EAGAIN (short counts included); everything else goes to the real write() */
#define SINK_FD 1000
static long sink_cap;
static unsigned char *sink_buf;
static long sink_len, sink_alloc;

/* EINTR injection (op `eintr N`): the next N read()/write() calls made by cbuf.c fail with EINTR
 * before the call is really made -- cbuf_get_fd / cbuf_put_fd must retry, so the answers of the
 * following operation must be exactly those without the interruptions */
static int eintr_left;

/* error kind (op `errno K`): the errno a source / sink that has nothing more to give or take fails
 * with -- 0: EAGAIN (a non-blocking descriptor), 1: EIO, 2: EPIPE.  cbuf.c must treat them alike:
 * a failure after a partial transfer is a short count, a failure before any byte is the error. */
static int err_kind;
static int err_no(void) { return err_kind == 1 ? EIO : err_kind == 2 ? EPIPE : EAGAIN; }

static int mt_mode;     /* real threads (--mt): the hooks below switch to their thread-safe form */

static ssize_t h_read(int fd, void *buf, size_t n)
{
    ssize_t r;
    if (eintr_left > 0) { eintr_left--; errno = EINTR; return -1; }
    r = read(fd, buf, n);
    if (r < 0 && errno == EAGAIN) errno = err_no();
    return r;
}

/* LOCKCHK: the locking discipline of cbuf.c, checked on every public call the harness makes:
 * every mutex a call takes is released by the same call (nothing held at return), no mutex is
 * taken twice by one call (the mutex is not recursive: a public function calling another public
 * function of the same buffer would deadlock; here it is reported instead), and a call that
 * changed or read the buffer did take its mutex.  This is the discipline PdshVerif/Cbuf/Lin.lean
 * models (`acquire`, critical section, `release`). */
#define LK_MAX 4
static pthread_mutex_t *lk_held[LK_MAX];
static int lk_nheld, lk_locks, lk_unlocks, lk_bad;
static char lk_what[96];
static void lk_fail(const char *w)
{
    if (!lk_bad) snprintf(lk_what, sizeof lk_what, "%s", w);
    lk_bad = 1;
}
static int lk_find(pthread_mutex_t *m)
{
    for (int i = 0; i < lk_nheld; i++) if (lk_held[i] == m) return i;
    return -1;
}
/* LOCK ORDER of the calls that take two mutexes (cbuf_copy / cbuf_move): policy-free -- whatever
 * total order the code uses, two live buffers must always be locked in the SAME order, whichever
 * is the source; a call that takes them the other way round than an earlier call can deadlock with
 * it (PdshVerif/Cbuf/LockOrder.lean: deadlock_free / naive_protocol_deadlocks).  The pair seen is
 * forgotten when one of the buffers is destroyed (addresses are re-used). */
static pthread_mutex_t *ord_first, *ord_second;
static long ord_pairs_checked;
static int ord_check(pthread_mutex_t *first, pthread_mutex_t *second)
{
    int bad = (ord_first == second && ord_second == first);
    if (!bad) { ord_first = first; ord_second = second; }
    ord_pairs_checked++;
    return bad;
}

/* ---- real threads (`--mt`): thread-safe form of the hooks.  After the FIRST lock of a call that
 * will take two, the thread waits (bounded) until the other thread has taken its own first lock or
 * is blocked on one: with a consistent lock order the other thread blocks at once and the wait ends;
 * with an inconsistent one both threads hold their first lock and want the other's -- the deadlock
 * is then certain instead of a matter of timing. */
#include <time.h>
#include <sched.h>
static __thread int mt_tid, mt_depth;
static __thread pthread_mutex_t *mt_first;
static volatile int mt_has_first[2], mt_blocked[2], mt_finished[2], mt_two[2];
static volatile int mt_order_bad;
static pthread_mutex_t mt_ord_mx = PTHREAD_MUTEX_INITIALIZER;
static double mt_now(void)
{
    struct timespec ts;
    clock_gettime(CLOCK_MONOTONIC, &ts);
    return ts.tv_sec + ts.tv_nsec / 1e9;
}
static int mt_lock(pthread_mutex_t *m)
{
    int e = pthread_mutex_trylock(m);
    if (e == EBUSY) {
        mt_blocked[mt_tid] = 1;
        e = pthread_mutex_lock(m);
        mt_blocked[mt_tid] = 0;
    }
    if (e) return e;
    if (mt_depth++ == 0) {
        mt_first = m;
        if (mt_two[mt_tid]) {
            int o = !mt_tid;
            double t0 = mt_now();
            mt_has_first[mt_tid] = 1;
            while (!mt_has_first[o] && !mt_blocked[o] && !mt_finished[o] && mt_now() - t0 < 0.002)
                sched_yield();
        }
    } else {
        pthread_mutex_lock(&mt_ord_mx);
        if (ord_check(mt_first, m)) mt_order_bad = 1;
        pthread_mutex_unlock(&mt_ord_mx);
    }
    return 0;
}
static int mt_unlock(pthread_mutex_t *m)
{
    if (--mt_depth == 0) mt_has_first[mt_tid] = 0;
    return pthread_mutex_unlock(m);
}

static int h_mutex_lock(pthread_mutex_t *m)
{
    int e;
    if (mt_mode) return mt_lock(m);
    if (lk_find(m) >= 0) { lk_fail("relock-of-held-mutex"); return EDEADLK; }
    e = pthread_mutex_lock(m);
    if (e == 0) {
        lk_locks++;
        if (lk_nheld == 1 && ord_check(lk_held[0], m)) lk_fail("lock-order-inverted");
        if (lk_nheld < LK_MAX) lk_held[lk_nheld++] = m; else lk_fail("too-many-held");
    }
    return e;
}
static int h_mutex_trylock(pthread_mutex_t *m)
{
    if (mt_mode) {
        /* cbuf_mutex_is_locked(): the caller holds it (EBUSY); should it ever be free, give it back */
        int e = pthread_mutex_trylock(m);
        if (e == 0) pthread_mutex_unlock(m);
        return e;
    }
    /* cbuf_mutex_is_locked(): EBUSY while we hold it (the expected answer inside a call) */
    if (lk_find(m) >= 0) return EBUSY;
    lk_fail("buffer-touched-without-mutex");   /* cbuf_is_valid / helper entered unlocked */
    return pthread_mutex_trylock(m) == 0 ? (pthread_mutex_unlock(m), 0) : EBUSY;
}
static int h_mutex_unlock(pthread_mutex_t *m)
{
    int i;
    if (mt_mode) return mt_unlock(m);
    i = lk_find(m);
    if (i < 0) { lk_fail("unlock-of-mutex-not-held"); return EPERM; }
    lk_held[i] = lk_held[--lk_nheld];
    lk_unlocks++;
    return pthread_mutex_unlock(m);
}
/* before / after every public call; `max` = number of buffers the call may lock */
static long lk_calls, lk_calls_locking;
static void lk_begin(void) { lk_locks = lk_unlocks = 0; lk_calls++; }
static void lk_end(int max)
{
    if (lk_nheld != 0) {
        /* release for real what the call left locked, or the next call would deadlock on it
         * (the mutex is not recursive): the violation is reported, the run goes on */
        lk_fail("mutex-held-at-return");
        while (lk_nheld > 0) pthread_mutex_unlock(lk_held[--lk_nheld]);
    }
    if (lk_locks != lk_unlocks) lk_fail("locks!=unlocks");
    if (lk_locks > max) lk_fail("locked-more-than-once");
    if (lk_locks) lk_calls_locking++;
}
#define CALL1(e) (lk_begin(), lk_tmp = (e), lk_end(1), lk_tmp)
#define CALL2(e) (lk_begin(), lk_tmp = (e), lk_end(2), lk_tmp)
static int lk_tmp;

static ssize_t h_write(int fd, const void *buf, size_t n)
{
    size_t k;
    if (eintr_left > 0 && fd == SINK_FD) { eintr_left--; errno = EINTR; return -1; }
    if (fd != SINK_FD)
        return write(fd, buf, n);
    if (sink_cap <= 0) { errno = err_no(); return -1; }
    k = n < (size_t) sink_cap ? n : (size_t) sink_cap;
    if (sink_len + (long) k > sink_alloc) {
        sink_alloc = (sink_len + (long) k) * 2 + 64;
        sink_buf = realloc(sink_buf, sink_alloc);
    }
    memcpy(sink_buf + sink_len, buf, k);
    sink_len += k;
    sink_cap -= k;
    return (ssize_t) k;
}
#define write h_write
#define read h_read
#define pthread_mutex_lock h_mutex_lock
#define pthread_mutex_unlock h_mutex_unlock
#define pthread_mutex_trylock h_mutex_trylock
#include "src/pdsh/cbuf.c"
#undef write
#undef read
#undef pthread_mutex_lock
#undef pthread_mutex_unlock
#undef pthread_mutex_trylock

void lsd_fatal_error(char *file, int line, char *mesg)
{
    printf("fatal %s\n", mesg);
    fflush(stdout);
    _exit(3);
}
#ifdef WITH_LSD_NOMEM_ERROR_FUNC
void *lsd_nomem_error(char *file, int line, char *mesg) { return NULL; }
#endif

/* OUT-PARAMETERS: every call that has one gets a POISONED value in it (never a plausible count) and
 * the answer reports what came back: cbuf.h promises "Sets [ndropped] (if not NULL) to the number of
 * bytes overwritten" for EVERY call -- also the zero-length and the refused (EINVAL) ones, which
 * overwrite nothing: 0, never what the caller's variable held before.  `nullnd 1`: the calls get NULL
 * instead ("if not NULL": must be accepted on every path); the answer then carries no drop column. */
#define ND_POISON 0x5a5a5a5a
static int null_nd;
#define NDP(nd) (null_nd ? (int *) NULL : &(nd))
static void put_ret_nd(int n, int nd)
{
    if (null_nd) printf("%d", n); else printf("%d %d", n, nd);
}

static int hexval(int c)
{
    if (c >= '0' && c <= '9') return c - '0';
    if (c >= 'a' && c <= 'f') return c - 'a' + 10;
    if (c >= 'A' && c <= 'F') return c - 'A' + 10;
    return -1;
}

/* decode "-" or hex into a malloc'd buffer (NUL-terminated for convenience) */
static unsigned char *unhex(const char *s, int *len)
{
    int n = (strcmp(s, "-") == 0) ? 0 : (int) strlen(s) / 2;
    unsigned char *b = malloc(n + 1);
    for (int i = 0; i < n; i++)
        b[i] = (unsigned char) (hexval(s[2 * i]) * 16 + hexval(s[2 * i + 1]));
    b[n] = 0;
    *len = n;
    return b;
}

static void puthex(const unsigned char *b, int n)
{
    if (n <= 0) { printf("-"); return; }
    for (int i = 0; i < n; i++) printf("%02x", b[i]);
}

/* a violation of the locking discipline since the last answer: marker at the end of the line */
static void lk_mark(void)
{
    if (lk_bad) printf(" !LOCK:%s!", lk_what);
    lk_bad = 0;
}
static void stat_mid(cbuf_t cb)
{
    int a = CALL1(cbuf_size(cb)), b = CALL1(cbuf_used(cb)), c = CALL1(cbuf_lines_used(cb)),
        d = CALL1(cbuf_reused(cb));
    /* the two getters that have no column of their own must agree with the others */
    int e = CALL1(cbuf_free(cb)), f = CALL1(cbuf_is_empty(cb)), v = -9;
    int g = CALL1(cbuf_opt_get(cb, CBUF_OPT_OVERWRITE, &v));
    int lr = CALL1(cbuf_lines_reused(cb));
    printf(" | %d %d %d %d %d", a, b, c, d, lr);
    if (e != a - b) printf(" !free=%d!", e);
    if (f != (b == 0)) printf(" !is_empty=%d!", f);
    if (g != 0 || (v != CBUF_NO_DROP && v != CBUF_WRAP_ONCE && v != CBUF_WRAP_MANY)) printf(" !opt_get=%d,%d!", g, v);
}
static void stat_tail(cbuf_t cb)
{
    stat_mid(cb);
    lk_mark();
    printf("\n");
}
static void h_destroy(cbuf_t cb)
{
    ord_first = ord_second = NULL;
    lk_begin();
    cbuf_destroy(cb);
    lk_end(1);
}

/* ---- `--mt ITERS [WATCHDOG]`: two REAL threads on two buffers, copying and moving in OPPOSITE
 * directions (thread 0: a -> b, thread 1: b -> a), interleaved with single-buffer calls on both
 * buffers.  Both buffers are NO_DROP, so nothing may ever be lost: every byte that entered (written,
 * or duplicated by a copy) leaves exactly once (entered = read + what is left at the end) -- which
 * also needs every copy / move to be ONE critical section of both buffers.  The main thread is the
 * watchdog: both threads blocked on a mutex while holding one, without progress = deadlock (certain:
 * there is nobody else to release anything); no progress at all for WATCHDOG seconds likewise. */
static cbuf_t mt_buf[2];
static int mt_iters;
static volatile long mt_progress[2];
static volatile int mt_ready[2];
static long mt_entered[2], mt_read[2], mt_moved[2], mt_copied[2], mt_failed[2];
static void *mt_thread(void *arg)
{
    int me = (int) (long) arg, i, n, nd;
    unsigned char tmp[64];
    cbuf_t src = mt_buf[me], dst = mt_buf[!me];
    mt_tid = me;
    /* start together */
    mt_ready[me] = 1;
    while (!mt_ready[!me]) sched_yield();
    for (i = 0; i < mt_iters; i++) {
        memset(tmp, 'a' + me, sizeof tmp);
        nd = -7;
        n = cbuf_write(src, tmp, 1 + (i * 7 + me) % 9, &nd);
        if (n > 0) mt_entered[me] += n;
        if ((n < 0 && errno != ENOSPC) || nd != 0) mt_failed[me]++;
        mt_two[me] = 1;
        nd = -7;
        if (i % 3 == 2) {
            n = cbuf_copy(src, dst, 1 + i % 5, &nd);
            if (n > 0) { mt_copied[me] += n; mt_entered[me] += n; }
        } else {
            n = cbuf_move(src, dst, (i % 4 == 0) ? -1 : 1 + i % 6, &nd);
            if (n > 0) mt_moved[me] += n;
        }
        mt_two[me] = 0;
        if ((n < 0 && errno != ENOSPC) || nd != 0) mt_failed[me]++;
        if (i % 2) {
            n = cbuf_read(dst, tmp, 1 + i % 11);
            if (n > 0) mt_read[me] += n;
            if (n < 0) mt_failed[me]++;
        }
        if (cbuf_used(src) < 0 || cbuf_free(dst) < 0) mt_failed[me]++;
        mt_progress[me]++;
    }
    mt_finished[me] = 1;
    return NULL;
}
static int mt_main(int iters, double watchdog)
{
    pthread_t th[2];
    long last[2] = { -1, -1 }, left;
    double t_last = mt_now();
    int i, stuck = 0;
    mt_iters = iters;
    mt_buf[0] = cbuf_create(8, 40);
    mt_buf[1] = cbuf_create(16, 16);
    cbuf_opt_set(mt_buf[0], CBUF_OPT_OVERWRITE, CBUF_NO_DROP);
    cbuf_opt_set(mt_buf[1], CBUF_OPT_OVERWRITE, CBUF_NO_DROP);
    mt_mode = 1;
    for (i = 0; i < 2; i++) pthread_create(&th[i], NULL, mt_thread, (void *) (long) i);
    while (!(mt_finished[0] && mt_finished[1])) {
        struct timespec ts = { 0, 2000000 };
        nanosleep(&ts, NULL);
        if (mt_progress[0] != last[0] || mt_progress[1] != last[1]) {
            last[0] = mt_progress[0]; last[1] = mt_progress[1];
            t_last = mt_now();
            stuck = 0;
            continue;
        }
        /* each holds its first mutex and is blocked on another one */
        stuck = (mt_blocked[0] && mt_blocked[1] && mt_has_first[0] && mt_has_first[1]) ? stuck + 1 : 0;
        if (stuck >= 100 || mt_now() - t_last > watchdog) {
            printf("mt DEADLOCK after %ld+%ld iterations (holds-first=%d,%d blocked=%d,%d order_inverted=%d)\n",
                   last[0], last[1], mt_has_first[0], mt_has_first[1], mt_blocked[0], mt_blocked[1], mt_order_bad);
            fflush(stdout);
            _exit(4);
        }
    }
    for (i = 0; i < 2; i++) pthread_join(th[i], NULL);
    mt_mode = 0;
    left = cbuf_used(mt_buf[0]) + cbuf_used(mt_buf[1]);
    printf("mt done iters=%d conserved=%d failed=%ld order_inverted=%d | entered=%ld read=%ld left=%ld pairs=%ld moved=%ld copied=%ld\n",
           iters, mt_entered[0] + mt_entered[1] == mt_read[0] + mt_read[1] + left,
           mt_failed[0] + mt_failed[1], mt_order_bad,
           mt_entered[0] + mt_entered[1], mt_read[0] + mt_read[1], left, ord_pairs_checked,
           mt_moved[0] + mt_moved[1], mt_copied[0] + mt_copied[1]);
    fflush(stdout);
    h_destroy(mt_buf[0]);
    h_destroy(mt_buf[1]);
    return 0;
}

int main(int argc, char **argv)
{
    static char line[1 << 21];
    static char a1[1 << 21], a2[1 << 21], a3[64];
    cbuf_t cb = NULL;
    cbuf_t bufs[2] = { NULL, NULL };
    int second = 0;

    if (argc > 2 && strcmp(argv[1], "--mt") == 0)
        return mt_main(atoi(argv[2]), argc > 3 ? atof(argv[3]) : 20.0);
    if (argc > 1 && strcmp(argv[1], "--meta") == 0) {
        cbuf_t t = cbuf_create(8, 8);
        printf("%d\n", t->alloc - t->size);
        fflush(stdout);
        h_destroy(t);
        return 0;
    }
    /* line-buffered answers: when cbuf.c aborts (assertion, sanitizer, fatal) the answers of the ops
     * before the fatal one have reached the checker, so the replay names the op that crashed */
    setvbuf(stdout, NULL, _IOLBF, 1 << 16);
    while (fgets(line, sizeof(line), stdin)) {
        char op[32];
        int nf;
        a1[0] = a2[0] = a3[0] = 0;
        nf = sscanf(line, "%31s %s %s %63s", op, a1, a2, a3);
        if (nf < 1) { printf("bad-op\n"); continue; }
        if (!strcmp(op, "reset")) {
            bufs[second] = cb;
            if (bufs[0]) h_destroy(bufs[0]);
            if (bufs[1]) h_destroy(bufs[1]);
            bufs[0] = bufs[1] = cb = NULL;
            second = 0;
            eintr_left = 0;
            err_kind = 0;
            null_nd = 0;
            printf("ok"); lk_mark(); printf("\n");
            continue;
        }
        if (!strcmp(op, "nullnd")) {
            null_nd = atoi(a1) == 1;
            printf("ok\n");
            continue;
        }
        if (!strcmp(op, "eintr")) {
            eintr_left = atoi(a1);
            printf("ok\n");
            continue;
        }
        if (!strcmp(op, "errno")) {
            err_kind = atoi(a1);
            printf("ok\n");
            continue;
        }
        if (!strcmp(op, "sel")) {
            bufs[second] = cb;
            second = atoi(a1) == 1;
            cb = bufs[second];
            printf("ok\n");
            continue;
        }
        if (!strcmp(op, "create")) {
            if (cb) h_destroy(cb);
            lk_begin();
            cb = cbuf_create(atoi(a1), atoi(a2));
            lk_end(1);
            bufs[second] = cb;
            if (!cb) { printf("null"); lk_mark(); printf("\n"); continue; }
            printf("ok"); stat_tail(cb);
            continue;
        }
        if (!strcmp(op, "copy") || !strcmp(op, "move")) {
            cbuf_t dst = bufs[!second];
            int nd = ND_POISON, n;
            if (nf < 2) { printf("bad-op\n"); continue; }
            if (!cb || !dst) { printf("no-cbuf\n"); continue; }
            n = (op[0] == 'c') ? CALL2(cbuf_copy(cb, dst, atoi(a1), NDP(nd))) : CALL2(cbuf_move(cb, dst, atoi(a1), NDP(nd)));
            put_ret_nd(n, nd); stat_mid(cb); stat_tail(dst);
            continue;
        }
        if (!cb) { printf("no-cbuf\n"); continue; }
        if (!strcmp(op, "opt")) {
            int rc = CALL1(cbuf_opt_set(cb, CBUF_OPT_OVERWRITE, atoi(a1)));
            printf("%d", rc); stat_tail(cb);
        } else if (!strcmp(op, "refused")) {
            /* calls the entry points must refuse (EINVAL) without touching the buffer -- and with the
             * out-parameter SET (0 bytes overwritten): 0 write(NULL source), 1 write(len -1),
             * 2 write_from_fd(fd -1), 3 copy(src == dst), 4 move(src == dst), 5 copy(src == dst, len -1), 6 write_line(NULL);
             * write_from_fd(len -2) is `wfd -2` */
            int k = atoi(a1), nd = ND_POISON, n, e;
            unsigned char tmp[4] = { 'r', 'e', 'f', 0 };
            if (k < 0 || k > 6) { printf("bad-op\n"); continue; }
            errno = 0;
            n = k == 0 ? CALL1(cbuf_write(cb, NULL, 3, NDP(nd)))
              : k == 1 ? CALL1(cbuf_write(cb, tmp, -1, NDP(nd)))
              : k == 2 ? CALL1(cbuf_write_from_fd(cb, -1, 3, NDP(nd)))
              : k == 3 ? CALL2(cbuf_copy(cb, cb, 2, NDP(nd)))
              : k == 4 ? CALL2(cbuf_move(cb, cb, -1, NDP(nd)))
              : k == 6 ? CALL1(cbuf_write_line(cb, NULL, NDP(nd)))
              :          CALL2(cbuf_copy(cb, cb, -1, NDP(nd)));
            e = errno;
            put_ret_nd(n, nd);
            if (n == -1 && e != EINVAL) printf(" !errno=%d!", e);
            stat_tail(cb);
        } else if (!strcmp(op, "write")) {
            int len, nd = ND_POISON;
            unsigned char *b = unhex(a1, &len);
            int n = CALL1(cbuf_write(cb, b, len, NDP(nd)));
            put_ret_nd(n, nd); stat_tail(cb);
            free(b);
        } else if (!strcmp(op, "wline")) {
            int len, nd = ND_POISON;
            unsigned char *b = unhex(a1, &len);
            int n = CALL1(cbuf_write_line(cb, (char *) b, NDP(nd)));
            put_ret_nd(n, nd); stat_tail(cb);
            free(b);
        } else if (!strcmp(op, "wfd")) {
            int len, nd = ND_POISON, pfd[2];
            unsigned char *b = unhex(a2, &len);
            int n;
            if (pipe(pfd) < 0) { perror("pipe"); return 2; }
            fcntl(pfd[0], F_SETFL, O_NONBLOCK);
            fcntl(pfd[1], F_SETPIPE_SZ, 1 << 20);
            if (len > 0 && write(pfd[1], b, len) != len) { perror("short pipe write"); return 2; }
            if (atoi(a3) == 1) { close(pfd[1]); pfd[1] = -1; }  /* 1: EOF behind the data; else: error */
            n = CALL1(cbuf_write_from_fd(cb, pfd[0], atoi(a1), NDP(nd)));
            put_ret_nd(n, nd); stat_tail(cb);
            close(pfd[0]);
            if (pfd[1] >= 0) close(pfd[1]);
            free(b);
        } else if (!strcmp(op, "read") || !strcmp(op, "peek")) {
            int len = atoi(a1);
            unsigned char *b = malloc(len > 0 ? len : 1);
            int n = (op[0] == 'r') ? CALL1(cbuf_read(cb, b, len)) : CALL1(cbuf_peek(cb, b, len));
            printf("%d ", n); puthex(b, n); stat_tail(cb);
            free(b);
        } else if (!strcmp(op, "replay")) {
            int len = atoi(a1);
            unsigned char *b = malloc(len > 0 ? len : 1);
            int n = CALL1(cbuf_replay(cb, b, len));
            printf("%d ", n); puthex(b, n); stat_tail(cb);
            free(b);
        } else if (!strcmp(op, "rewind")) {
            int n = CALL1(cbuf_rewind(cb, atoi(a1)));
            printf("%d", n); stat_tail(cb);
        } else if ((!strcmp(op, "rfd") && nf >= 3) || !strcmp(op, "pfd") || !strcmp(op, "yfd")) {
            int len = atoi(a1), n;
            if (nf < 3) { printf("bad-op\n"); continue; }
            sink_cap = atol(a2);
            sink_len = 0;
            n = op[0] == 'r' ? CALL1(cbuf_read_to_fd(cb, SINK_FD, len))
              : op[0] == 'p' ? CALL1(cbuf_peek_to_fd(cb, SINK_FD, len)) : CALL1(cbuf_replay_to_fd(cb, SINK_FD, len));
            printf("%d ", n); puthex(sink_buf, (int) sink_len); stat_tail(cb);
        } else if (!strcmp(op, "rfd")) {
            int len = atoi(a1), pfd[2], n;
            unsigned char *b;
            if (pipe(pfd) < 0) { perror("pipe"); return 2; }
            fcntl(pfd[1], F_SETPIPE_SZ, 1 << 20);
            n = CALL1(cbuf_read_to_fd(cb, pfd[1], len));
            close(pfd[1]);
            b = malloc(n > 0 ? n : 1);
            if (n > 0 && read(pfd[0], b, n) != n) { perror("short pipe read"); return 2; }
            close(pfd[0]);
            printf("%d ", n); puthex(b, n); stat_tail(cb);
            free(b);
        } else if (!strcmp(op, "drop")) {
            int n = CALL1(cbuf_drop(cb, atoi(a1)));
            printf("%d", n); stat_tail(cb);
        } else if (!strcmp(op, "rline") || !strcmp(op, "pline")) {
            int len = atoi(a1), lines = atoi(a2);
            /* exact-size allocation so that ASan sees any byte written at index >= len */
            char *b = malloc(len > 0 ? len : 1);
            int n;
            memset(b, 0x7e, len > 0 ? len : 1);
            n = (op[0] == 'r') ? CALL1(cbuf_read_line(cb, b, len, lines)) : CALL1(cbuf_peek_line(cb, b, len, lines));
            printf("%d ", n);
            if (n > 0 && len > 0) {
                /* stored bytes up to the terminating NUL written at index m = MIN(n, len-1) */
                int m = n < len - 1 ? n : len - 1;
                if (b[m] != 0) printf("!noNUL!");
                puthex((unsigned char *) b, m);
            } else
                printf("~");
            stat_tail(cb);
            free(b);
        } else if (!strcmp(op, "yline")) {
            int len = atoi(a1), lines = atoi(a2), n, m;
            /* exact-size allocation (ASan sees a byte written at index >= len); the fill byte lets
             * the terminating NUL be found without knowing whether a newline was supplied: it is
             * the last byte cbuf_replay_line wrote, everything behind it is still the fill */
            unsigned char *b = malloc(len > 0 ? len : 1);
            memset(b, 0xA5, len > 0 ? len : 1);
            n = CALL1(cbuf_replay_line(cb, (char *) b, len, lines));
            printf("%d ", n);
            if (n > 0 && len > 0) {
                for (m = len - 1; m > 0 && b[m] == 0xA5; m--)
                    ;
                if (b[m] != 0) printf("!noNUL!");
                puthex(b, m);
            } else
                printf("~");
            stat_tail(cb);
            free(b);
        } else if (!strcmp(op, "wrline")) {
            int n = CALL1(cbuf_rewind_line(cb, atoi(a1), atoi(a2)));
            printf("%d", n); stat_tail(cb);
        } else if (!strcmp(op, "dline")) {
            int n = CALL1(cbuf_drop_line(cb, atoi(a1), atoi(a2)));
            printf("%d", n); stat_tail(cb);
        } else if (!strcmp(op, "flush")) {
            lk_begin();
            cbuf_flush(cb);
            lk_end(1);
            printf("ok"); stat_tail(cb);
        } else
            printf("bad-op\n");
    }
    bufs[second] = cb;
    if (bufs[0]) h_destroy(bufs[0]);
    if (bufs[1]) h_destroy(bufs[1]);
    return 0;
}
