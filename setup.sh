#!/bin/sh
# Run once after a fresh restore, offline: builds the Lean library (all theorems) and the
# model driver.  Everything else (harnesses, scratch builds of /repo) is rebuilt per check.
set -e
cd "$(dirname "$0")/lean"
lake build PdshVerif pdshmodel
