import Driver.Util

/-! engine stub: filled in by the owner of this engine (see FRAMEWORK.md) -/
namespace Driver.ExitDrv

def main (_args : List String) : IO UInt32 := do
  IO.eprintln "engine not implemented"
  return 2

end Driver.ExitDrv
