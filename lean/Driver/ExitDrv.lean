import PdshVerif.Base.Hex
import PdshVerif.Dsh.Exit
import PdshVerif.Dsh.ExitSpec
import PdshVerif.Dsh.ExitKill
import PdshVerif.Dsh.ExitRefuse
import Driver.Util

/-!
  line protocol of the `exit` engine (property C08)

  `pdshmodel exit model <d7><d8><d9><late><canc>`   (five 0/1 characters: which repairs the model applies)
      xrc HEX                                    -> "<ret> <hex>"
      dsh S K FANOUT CMDTMO SCRIPT[;SCRIPT...]   -> "ret <int> exit <n>" | "noret exit 1"
          SCRIPT = comma separated fields  c<0|1> o<hex> v<int> | w<e|s><n> | wnull  d<ms> t<0|1> | x1 (canceled)
          (`w...` = the value of rcmd_destroy is exec_destroy of that wait status)
      xd e<n> | xd s<n> | xd null                -> "<ret>"
      cmd S K HEX                                -> "<hex of the command string handed to the transport>"  (`sentCommand`)
      refusals                                   -> "<comma separated names of the refusal paths of the model>"  (`Refusal.all`)
      outcome NAME                               -> "status <n>" | "unknown"   (`statusOfName`: a refusal, an information-only ending, started)
      ksched S K CMDTMO SCRIPT[;SCRIPT...] EVENTS -> "exit <n> how=<mid:i|tear:i|ret> sig=<i,j..|-> ph=<one letter per target> rest=<k>"
                                                   | "running ph=..." | "invalid <k> ph=..."
          the -k transition system `Kill.exec` (Dsh/ExitKill.lean) on an explicit schedule.  EVENTS = comma separated
          s<i> (start) c<i> (connected) p<i>.<n> (poll, n lines) a<i> (poll: all remaining lines) l<i> (leave) t<i> (teardown) r (ret);
          ph: n new, c connecting, r reading, e atEnd, f finished; rest = events left over after the process ended
  `pdshmodel exit spec`
      adm S K REFUSED OUTCOMES EXIT              -> "ok" | "bad"
          OUTCOMES = comma separated  e<n> | s<n> | cf | to   ("-" = none)
-/
namespace Driver.ExitDrv
open PdshVerif PdshVerif.Dsh PdshVerif.Dsh.Exit

def parseFixes (s : String) : Option Fixes :=
  match s.toList with
  | [a, b, c, d, e] => some ⟨a = '1', b = '1', c = '1', d = '1', e = '1'⟩
  | _ => none

def parseWait (s : String) : Option (Option Nat) :=
  if s = "null" then some none
  else
    match s.toList with
    | 'e' :: r => (String.ofList r).toNat?.map fun c => some (c % 256 * 256)
    | 's' :: r => (String.ofList r).toNat?.map fun g => some (g % 128)
    | _ => none

def parseScript (fx : Fixes) (cmdtmo : Int) (spec : String) : Option Script :=
  let fields := (spec.splitOn ",").filter (· ≠ "")
  fields.foldl (init := some { connectOk := true, stdout := [], timedOut := false, rv := 0 })
    fun acc f =>
      match acc with
      | none => none
      | some sc =>
        match f.toList with
        | 'c' :: r => some { sc with connectOk := String.ofList r ≠ "0" }
        | 'o' :: r => (Hex.decodeToChars (String.ofList r)).map fun b => { sc with stdout := b }
        | 'v' :: r => (String.ofList r).toInt?.map fun v => { sc with rv := v }
        | 'w' :: r => (parseWait (String.ofList r)).map fun w => { sc with rv := execDestroy fx w }
        | 'd' :: _ => some sc
        | 'e' :: _ => some sc     -- bytes a timed-out chatty command writes after the signal: never read
        | 't' :: r => some { sc with timedOut := String.ofList r ≠ "0" && cmdtmo > 0, viaLoopTop := String.ofList r = "2" }
        | _ => none

/-- a target whose thread was canceled before it started (^C ^Z): field `x1`; state DSH_CANCELED, rc 0 -/
def parseHost (fx : Fixes) (cmdtmo : Int) (spec : String) : Option Host :=
  if (spec.splitOn ",").contains "x1" then some { state := .canceled, rc := 0 }
  else (parseScript fx cmdtmo spec).map (hostOf fx)

def parseHosts (fx : Fixes) (cmdtmo : Int) (s : String) : Option (List Host) :=
  ((s.splitOn ";").filter (· ≠ "")).mapM (parseHost fx cmdtmo)

/-! ### `ksched`: the -k transition system on an explicit schedule -/
open Kill in
def parseTarget (fx : Fixes) (cmdtmo : Int) (spec : String) : Option Target :=
  if (spec.splitOn ",").contains "x1" then some none
  else (parseScript fx cmdtmo spec).map some

open Kill in
def phaseLetter : Phase → String
  | .new => "n" | .connecting => "c" | .reading _ _ => "r" | .atEnd _ _ => "e" | .finished _ => "f"

open Kill in
/-- the argument of `a<i>`: all lines of target i not handled yet (only the ARGUMENT of the event is computed here;
    the transition is `Kill.step`) -/
def remaining (ts : List Kill.Target) (ps : List Phase) (i : Nat) : Nat :=
  match ps[i]?, ts[i]? with
  | some (.reading seen _), some (some sc) => (linesOf sc).length - seen
  | _, _ => 0

open Kill in
def parseEv (ts : List Target) (ps : List Phase) (w : String) : Option Ev :=
  match w.toList with
  | ['r'] => some .ret
  | 's' :: r => (String.ofList r).toNat?.map .start
  | 'c' :: r => (String.ofList r).toNat?.map .connected
  | 'l' :: r => (String.ofList r).toNat?.map .leave
  | 't' :: r => (String.ofList r).toNat?.map .teardown
  | 'a' :: r => (String.ofList r).toNat?.map fun i => .poll i (remaining ts ps i)
  | 'p' :: r =>
    match (String.ofList r).splitOn "." with
    | [i, n] => do let i ← i.toNat?; let n ← n.toNat?; pure (.poll i n)
    | _ => none
  | _ => none

open Kill in
def showSt (rest : Nat) : St → String
  | .run ps => s!"running ph={String.join (ps.map phaseLetter)}"
  | .exited c how ps sg =>
    let h := match how with | .midstream i => s!"mid:{i}" | .teardown i => s!"tear:{i}" | .returned => "ret"
    let g := if sg = [] then "-" else ",".intercalate (sg.map toString)
    s!"exit {c} how={h} sig={g} ph={String.join (ps.map phaseLetter)} rest={rest}"

open Kill in
/-- feed the events one by one to `Kill.step`; stop when the process has ended -/
def runSched (fx : Fixes) (fl : Flags) (ts : List Target) : St → List String → String
  | s, [] => showSt 0 s
  | .exited c how ps sg, ws => showSt ws.length (.exited c how ps sg)
  | .run ps, w :: ws =>
    match parseEv ts ps w with
    | none => "bad-op"
    | some e =>
      match step fx fl ts (.run ps) e with
      | none => s!"invalid {ws.length + 1} ph={String.join (ps.map phaseLetter)}"
      | some s' => runSched fx fl ts s' ws

def stepModel (fx : Fixes) (line : String) : String :=
  match Driver.words line with
  | ["xrc", hx] =>
    match Hex.decodeToChars hx with
    | some b => let r := extractRc fx (cstr b); s!"{r.1} {Hex.encodeChars r.2}"
    | none => "bad-op"
  | ["dsh", s, k, _fanout, tmo, scripts] =>
    match tmo.toInt?, parseHosts fx (tmo.toInt?.getD 0) scripts with
    | some _, some hs =>
      let fl : Flags := { S := s ≠ "0", k := k ≠ "0" }
      -- the exit status is `mainExit` itself (the definition the theorems of Props/C08.lean are about)
      let e := mainExit fx fl (.started hs)
      match dshResult fx fl hs with
      | none => s!"noret exit {e}"
      | some r => s!"ret {r} exit {e}"
    | _, _ => "bad-op"
  | ["ksched", s, k, tmo, scripts, evs] =>
    match ((scripts.splitOn ";").filter (· ≠ "")).mapM (parseTarget fx (tmo.toInt?.getD 0)) with
    | some ts => runSched fx { S := s ≠ "0", k := k ≠ "0" } ts (Kill.init ts) ((evs.splitOn ",").filter (· ≠ ""))
    | none => "bad-op"
  | ["refusals"] => ",".intercalate (Refusal.all.map Refusal.name)
  | ["outcome", name] =>
    match statusOfName name with
    | some n => s!"status {n}"
    | none => "unknown"
  | ["cmd", s, k, hx] =>
    match Hex.decodeToChars hx with
    | some c => Hex.encodeChars (sentCommand { S := s ≠ "0", k := k ≠ "0" } c)
    | none => "bad-op"
  | ["xd", how] =>
    match parseWait how with
    | some w => s!"{execDestroy fx w}"
    | none => "bad-op"
  | _ => "bad-op"

def parseOutcome (s : String) : Option ExitSpec.Outcome :=
  if s = "cf" then some .connectFailed
  else if s = "to" then some .timedOut
  else
    match s.toList with
    | 'e' :: r => (String.ofList r).toNat?.map .exited
    | 's' :: r => (String.ofList r).toNat?.map .killed
    | _ => none

def stepSpec (line : String) : String :=
  match Driver.words line with
  | ["adm", s, k, refused, outs, ex] =>
    let os := if outs = "-" then some [] else ((outs.splitOn ",").filter (· ≠ "")).mapM parseOutcome
    match os, ex.toNat? with
    | some os, some ex =>
      if ExitSpec.admissible (s ≠ "0") (k ≠ "0") (refused ≠ "0") os ex then "ok" else "bad"
    | _, _ => "bad-op"
  | _ => "bad-op"

def main (args : List String) : IO UInt32 := do
  let stdin ← IO.getStdin
  match args with
  | ["model", fxs] =>
    match parseFixes fxs with
    | some fx => Driver.forLines stdin () (fun _ l => ((), stepModel fx l)); return 0
    | none => IO.eprintln "usage: pdshmodel exit model <5 bits>"; return 2
  | ["spec"] => Driver.forLines stdin () (fun _ l => ((), stepSpec l)); return 0
  | _ => IO.eprintln "usage: pdshmodel exit model <d7 d8 d9 late canc>|spec"; return 2

end Driver.ExitDrv
