import PdshVerif.Base.Hex
import PdshVerif.Relay.Model
import PdshVerif.Relay.Growth
import PdshVerif.Relay.Spec
import PdshVerif.Relay.XPoll
import Driver.Util

/-! line protocol of the relay engine (same op lines as harness/relay_harness.c):

    pdshmodel relay index <meta> [split|joined]   index-level cbuf model underneath
    pdshmodel relay fifo  <meta> [split|joined]   FIFO specification + cbuf.c policy underneath
    pdshmodel relay spec                          the property-level oracle (C05/C06)
    pdshmodel relay growth <meta>                 `growthOk <meta>` for the regenerated constants, the capacities
                                                  the buffer runs through, the first step that loses data (if any)

    begin L K N name_0 .. name_{N-1}  -> ok <keep_domain> <meta>
    feed i s HEX [CAP [NEINTR]] | eof i s [CAP [NEINTR]] | drain i s [CAP [NEINTR]] | flush i
                                                    -> <ncalls> <last ret> <th->rc> | S:HEX ...
        (CAP: the read(2) of the handler call delivers at most CAP bytes -- `handleCap`; 0 = EAGAIN although
         data is there; `E`: the read fails with EIO -- `handleFail`, the diagnostic is answered as `9:-`;
         NEINTR: that many reads fail with EINTR first -- retried inside cbuf.c, invisible here)
    run i s HEX ...  (whole stream = `runStream`)   -> run <th->rc|-> | S:HEX ...
    rcperr i e POPT RV HEX ...  (`_parallel_copy` with pcp_server/pcp_client returning RV)
                                                    -> rcp <RV> | S:HEX ...
    xrc HEX                                         -> <ret> <string left>

    pdshmodel relay xpoll                           `XPoll.xpoll` / `XPoll.loopIter` (Relay/XPoll.lean)
      xp NFDS TIMEOUT null|fd:ev:rev,.. KANS   (KANS = E<errno> | R<rv>:<revents>,.. -- what poll(2) answers)
                                                    -> <rv> <errno> | -|<timeout>;fd:ev,.. | fd:ev:rev,..
      it SOPT TBEFORE TAFTER FDO FDE STALEO STALEE KANS [ERRFIRST]   (one iteration of the loop of _rsh_thread;
                                                     ERRFIRST = 1: the code under test serves stderr first)
                                                    -> <timeoutBefore|pollFailed|timeoutInPoll|again|dispatch> <calls: - o e oe>

    spec lines:  rec <o|e> L K i N name_0 .. name_{N-1} S K' em_1 .. em_K'
                 (S = the whole byte string host i's stream carried, em_j = the observed stdio calls)
                 -> c05=<ok|bad> c06=<ok|tail-record-split|bad> dom=<0|1> label=<hex of the expected prefix>
-/
namespace Driver.RelayDrv
open PdshVerif PdshVerif.Relay

structure Host (β : Type) where
  name : Bytes
  out  : Stream β
  err  : Stream β
  rc   : Int

structure Case (β : Type) where
  cfg   : Cfg
  hosts : Array (Host β)

def emsText (ems : List Em) : String :=
  String.join (ems.map fun e => s!" {e.stream}:{Hex.encode e.bytes}")

def answer (n : Nat) (ret rc : Int) (ems : List Em) : String := s!"{n} {ret} {rc} |" ++ emsText ems

def step (ops : BufOps β) (mk : Option β) (sizeMeta : Nat) (split : Bool)
    (st : Option (Case β)) (line : String) : Option (Case β) × String :=
  match Driver.words line with
  | "begin" :: l :: k :: n :: names =>
    match n.toNat?, mk, names.mapM Hex.decode with
    | some n, some b0, some names =>
      if n = 0 ∨ names.length ≠ n then (st, "bad-op")
      else
        let keep := keepDomain (k ≠ "0") names
        let fresh : Stream β := { buf := b0, pipe := [], weof := false, closed := false }
        let hosts := names.toArray.map fun nm => ({ name := nm, out := fresh, err := fresh, rc := 0 } : Host β)
        (some { cfg := { labels := l ≠ "0", keep := keep, tailSplit := split,
                         rcSkipDigit := rcSkipDigitOfCode, rcEveryLine := rcEveryLineOfCode }, hosts := hosts },
         s!"ok {if keep then 1 else 0} {sizeMeta}")
    | _, _, _ => (st, "bad-op")
  | ["xrc", hx] =>
    match Hex.decode hx with
    | some b => let (r, c) := extractRc rcSkipDigitOfCode b; (st, s!"{r} {Hex.encode c}")
    | none => (st, "bad-op")
  | op :: i :: rest =>
    match st, i.toNat? with
    | none, _ => (st, "no-case")
    | some cs, some i =>
      if h : i < cs.hosts.size then
        let host := cs.hosts[i]
        let t0 := (cs.hosts[0]?.map (·.name)).getD []
        if op = "flush" then
          let (bo, eo) := flushOutput ops cs.cfg host.name t0 1 host.out.buf host.rc
          let (be, ee) := flushOutput ops cs.cfg host.name t0 2 host.err.buf host.rc
          let host' := { host with out := { host.out with buf := bo }, err := { host.err with buf := be } }
          (some { cs with hosts := cs.hosts.set i host' }, answer 2 0 host.rc (eo ++ ee))
        else
          match rest with
          | s :: more =>
            let isErr := s.startsWith "e"
            let strm : Stream β := if isErr then host.err else host.out
            let put (strm' : Stream β) (rc : Int) : Option (Case β) :=
              let host' := if isErr then { host with err := strm', rc := rc } else { host with out := strm', rc := rc }
              some { cs with hosts := cs.hosts.set i host' }
            let sno : Nat := if isErr then 2 else 1
            let readRc := !isErr
            -- optional read cap of the handler call(s): `feed i s HEX [CAP [NEINTR]]`, `eof i s [CAP [NEINTR]]`,
            -- `drain i s [CAP [NEINTR]]`; CAP = a number or `-` (none); the EINTR count is invisible to the model
            let capOf (w : Option String) : Option Nat := w.bind String.toNat?
            if strm.closed then (st, "closed")
            else if op = "feed" then
              match Hex.decode (more.head?.getD "-") with
              | some bs =>
                if strm.weof ∧ !bs.isEmpty then (st, "bad-op")
                else if more[1]? = some "E" then
                  -- the read fails (EIO): `handleFail`
                  let (r, strm', rc', ems) := handleFail { strm with pipe := strm.pipe ++ bs } host.rc
                  (put strm' rc', answer 1 r rc' ems)
                else
                  let (r, strm', rc', ems) :=
                    handleCap ops cs.cfg host.name sno readRc (capOf more[1]?) { strm with pipe := strm.pipe ++ bs } host.rc
                  (put strm' rc', answer 1 r rc' ems)
              | none => (st, "bad-op")
            else if op = "eof" then
              let (r, strm', rc', ems) :=
                handleCap ops cs.cfg host.name sno readRc (capOf more[0]?) { strm with weof := true } host.rc
              (put strm' rc', answer 1 r rc' ems)
            else if op = "rcperr" then
              -- `_parallel_copy`: rcperr i e POPT RV HEX.. -- the remote stderr of a pdcp/rpdcp target
              match more with
              | popt :: rv :: chunks =>
                match rv.toInt?, chunks.mapM Hex.decode with
                | some rv, some chunks =>
                  let ems := parallelCopyStderr ops cs.cfg host.name t0 (popt ≠ "0") rv strm.buf chunks
                  let strm' : Stream β := { strm with pipe := [], weof := true, closed := true }
                  (put strm' host.rc, s!"rcp {rv} |" ++ emsText ems)
                | _, _ => (st, "bad-op")
              | _ => (st, "bad-op")
            else if op = "run" then
              -- a whole stream at once: `runStream`, the function the theorems of Props/C05, C06 are about
              match more.mapM Hex.decode with
              | some chunks =>
                let r := runStream ops cs.cfg host.name t0 sno readRc strm.buf chunks
                let strm' : Stream β := { buf := r.buf, pipe := [], weof := true, closed := true }
                (put strm' (if isErr then host.rc else r.rc),
                 s!"run {if isErr then "-" else toString r.rc} |" ++ emsText r.ems)
              | none => (st, "bad-op")
            else if op = "drain" then
              if !strm.weof then (st, "bad-op not-eof")
              else
                match capOf more[0]? with
                | none =>
                  let (k, r, strm', rc', ems) :=
                    drain ops cs.cfg host.name sno readRc (strm.pipe.length + 1) strm host.rc [] 0
                  (put strm' rc', answer k r rc' ems)
                | some 0 => (st, "bad-op cap")          -- would never end
                | some c =>
                  let (k, r, strm', rc', ems) :=
                    drainCap ops cs.cfg host.name sno readRc (some c) (strm.pipe.length + 1) strm host.rc [] 0
                  (put strm' rc', answer k r rc' ems)
            else (st, "bad-op")
          | [] => (st, "bad-op")
      else (st, "bad-op")
    | _, none => (st, "bad-op")
  | _ => (st, "bad-op")

/-- the property-level oracle; also the Lean-side validator of the domain (`Spec.Dom05` on the
    stream, C strings for the names, host name shorter than LINEBUFSIZE): the check applies the
    oracle only where `dom=1` -/
def specLine (line : String) : String :=
  match Driver.words line with
  | "rec" :: kind :: l :: k :: i :: n :: rest =>
    match i.toNat?, n.toNat? with
    | some i, some n =>
      match (rest.take n).mapM Hex.decode, (rest.drop n) with
      | some names, s :: _ :: ems =>
        match Hex.decode s, ems.mapM Hex.decode, names[i]? with
        | some s, some ems, some h =>
          let p := Spec.recPrefix (l ≠ "0") (k ≠ "0") names h
          let c05 := if Spec.c05Ok p s ems then "ok" else "bad"
          let c06 := if Spec.c06Ok p s ems then "ok"
                     else if Spec.tailSplitForm p s ems then "tail-record-split" else "bad"
          let marker : Option Bytes := if kind = "o" then some magic else none
          let nameOk := names.all (fun t => t.all (· ≠ 0)) && decide (h.length < Gen.LINEBUFSIZE)
          let dom := Spec.Dom05 marker s && nameOk
          s!"c05={c05} c06={c06} dom={if dom then 1 else 0} label={Hex.encode p}"
        | _, _, _ => "bad-op"
      | _, _ => "bad-op"
    | _, _ => "bad-op"
  | _ => "bad-op"

/-- `E<errno>` | `R<rv>:<revents>,..` -/
def parseKAns (w : String) : Option XPoll.KAns :=
  if w.startsWith "E" then (w.drop 1).toString.toNat?.map XPoll.KAns.fail
  else if w.startsWith "R" then
    match (w.drop 1).toString.splitOn ":" with
    | [rv, revs] =>
      match rv.toInt?, (if revs = "" then some [] else (revs.splitOn ",").mapM String.toNat?) with
      | some rv, some revs => some (.ok rv revs)
      | _, _ => none
    | _ => none
  else none

def parseXFds (w : String) : Option (Option (List XPoll.XFd)) :=
  if w = "null" then some none
  else if w = "-" then some (some [])
  else
    ((w.splitOn ",").mapM fun (e : String) =>
      match e.splitOn ":" with
      | [fd, ev, rev] =>
        match fd.toInt?, ev.toNat?, rev.toNat? with
        | some fd, some ev, some rev => some (⟨fd, ev, rev⟩ : XPoll.XFd)
        | _, _, _ => none
      | _ => none).map some

def xpollLine (line : String) : String :=
  match Driver.words line with
  | ["xp", nfds, timeout, arr, kans] =>
    match nfds.toInt?, timeout.toInt?, parseXFds arr, parseKAns kans with
    | some nfds, some timeout, some xfds, some k =>
      let r := XPoll.xpoll xfds nfds timeout k
      let passed := match r.passed with
        | none => "-"
        | some (l, t) => s!"{t};" ++ ",".intercalate (l.map fun (p : Int × Nat) => s!"{p.1}:{p.2}")
      let xs := if r.xfds.isEmpty then "-" else ",".intercalate (r.xfds.map fun x => s!"{x.fd}:{x.events}:{x.revents}")
      s!"{r.rv} {r.errno} | {passed} | {xs}"
    | _, _, _, _ => "bad-op"
  | "it" :: sopt :: tb :: ta :: fdo :: fde :: so :: se :: kans :: more =>
    match fdo.toInt?, fde.toInt?, so.toNat?, se.toNat?, parseKAns kans with
    | some fdo, some fde, some so, some se, some k =>
      let it := (XPoll.loopIter (sopt ≠ "0") (tb ≠ "0") (ta ≠ "0") fdo fde so se k).1
      let nm := match it with
        | .timeoutBefore => "timeoutBefore"
        | .pollFailed => "pollFailed"
        | .timeoutInPoll => "timeoutInPoll"
        | .again => "again"
        | .dispatch _ _ => "dispatch"
      let calls := String.join ((it.calls (more.head? = some "1")).map fun b => if b then "e" else "o")
      s!"{nm} {if calls = "" then "-" else calls}"
    | _, _, _, _, _ => "bad-op"
  | _ => "bad-op"

def splitArg (a : List String) : Bool :=
  match a with
  | ["split"] => true
  | ["joined"] => false
  | _ => tailSplitOfCode

def main (args : List String) : IO UInt32 := do
  let stdin ← IO.getStdin
  match args with
  | "index" :: m :: rest =>
    let m := m.toNat?.getD 1
    Driver.forLines stdin (none : Option (Case Cbuf.Cbuf)) (step indexOps (mkIndexBuf m) m (splitArg rest)); return 0
  | "fifo" :: m :: rest =>
    let m := m.toNat?.getD 1
    Driver.forLines stdin (none : Option (Case PBuf)) (step fifoOps (mkFifoBuf m) m (splitArg rest)); return 0
  | ["spec"] => Driver.forLines stdin () (fun _ l => ((), specLine l)); return 0
  | ["xpoll"] => Driver.forLines stdin () (fun _ l => ((), xpollLine l)); return 0
  | ["growth", m] =>
    -- the side condition of the losslessness theorems on the regenerated constants (Relay/Growth.lean)
    let m := m.toNat?.getD 1
    let mx := Gen.RELAY_CBUF_MAX
    let path := growthPath mx Gen.CBUF_CHUNK m 4096 Gen.RELAY_CBUF_MIN
    let bad := match firstBadStep mx Gen.CBUF_CHUNK m 4096 Gen.RELAY_CBUF_MIN with
      | some (s, n) => s!"{s}:{n}"
      | none => "-"
    IO.println s!"ok={if growthOk m then 1 else 0} min={Gen.RELAY_CBUF_MIN} max={mx} chunk={Gen.CBUF_CHUNK} meta={m} meta_assert={Gen.RELAY_SIZE_META_ASSERT} magic={Hex.encode magic} bad={bad} path={",".intercalate (path.map toString)}"
    return 0
  | _ => IO.eprintln "usage: pdshmodel relay index|fifo <meta> [split|joined] | spec"; return 2

end Driver.RelayDrv
