/- shared helpers of the line-protocol driver (not part of the verified library) -/
namespace Driver

partial def forLines (h : IO.FS.Stream) (st : σ) (f : σ → String → σ × String) : IO Unit := do
  let line ← h.getLine
  if line.isEmpty then return ()
  let l := line.trimAscii.toString
  let (st', out) := f st l
  IO.println out
  forLines h st' f

def words (l : String) : List String := (l.splitOn " ").filter (· ≠ "")

end Driver
