import PdshVerif.Dsh.FanG
import PdshVerif.Dsh.FanRelay
import PdshVerif.Base.Hex
import Driver.Util

/-! engine `fan`: trace acceptor for the projected traces of the `sched` harness.

    init <if|while> <f> <N>          start a new trace                          -> ok
    st <tc> <R> <P> <X>              harness state before a step: threadcount, runnable threads,
                                     parked-unsignalled threads, threads blocked on something the
                                     model does not know (thd_mutex, poll, ...)   -> ok | reject ..
    ev D <lock|wait|wake 0|wake 1|relock|create i|unlock|return>                  -> ok | reject ..
    ev W<i> <connectBegin|connectEnd|destroyBegin|destroyEnd|lock|signal|broadcast|unlock>  -> ok | reject ..
    end <ok|deadlock|other>          ok: the model must be Final; deadlock: nothing enabled
    RELAY MODE (the protocol composed with the relay, `Dsh/FanRelay.lean`, the LTS of Props/C03 `EndToEnd`):
    initr <if|while> <f> <N> <sopt>  start a new trace in relay mode                     -> ok
    rd W<i> <0|1> <hex|->            worker i read a chunk from its stdout (0) / stderr (1)  -> ok | reject ..
    fin W<i> <0|1>                   that stream is over (EOF or error seen, descriptor closed) -> ok | reject ..
    cfail W<i>                       rcmd_connect of target i failed: no streams            -> ok | reject ..
    (in relay mode every `ev` goes through `FanRelay.step`: a worker may leave its read loop only when its polled
    streams are over, and reads happen only inside the loop)
    After a reject every line up to the next `init` answers `skip`.
    The transition function is `PdshVerif.Dsh.FanG.step`, the one the theorems are about: the LTS with the
    signalling discipline left open.  An observed call is mapped to a label by what it DOES in the state it is made
    in: `pthread_mutex_unlock(threadcount_mutex)` by a worker that has not yet made its wake-up call is
    `unlockFirst`, otherwise `unlock`; `pthread_cond_signal` / `pthread_cond_broadcast` on threadcount_cond (the same
    transition: the dispatcher is the only waiter, any other waiter is rejected as an unknown event) by a worker
    that has already unlocked is `signalAfter`, otherwise `signal`.  At most one of the two candidates is enabled in
    any state (their preconditions are different program counters). -/
namespace Driver.FanDrv
open PdshVerif.Dsh.FanG

structure Acc where
  st : Option St := none
  dead : Bool := false
  relay : Bool := false
  evs : List (PdshVerif.Relay.Key × PdshVerif.Relay.LEv) := []
  sopt : Bool := false
  nofd : List Nat := []

open PdshVerif.Dsh in
def Acc.rst (a : Acc) (s : St) : FanRelay.St := { fan := s, evs := a.evs, sopt := a.sopt, nofd := a.nofd }

open PdshVerif.Dsh in
def Acc.ofRst (a : Acc) (r : FanRelay.St) : Acc := { a with st := some r.fan, evs := r.evs, nofd := r.nofd }

def parseW (t : String) : Option Nat :=
  if t.startsWith "W" then (t.drop 1).toNat? else none

def names (t : String) : List String := if t = "-" then [] else t.splitOn ","

/-- the labels an observed call can stand for (see the header); [] = not an event of this LTS -/
def parseLabels : List String → List Label
  | ["D", "lock"] => [.d .lock]
  | ["D", "wait"] => [.d .wait]
  | ["D", "wake", "0"] => [.d (.wake false)]
  | ["D", "wake", "1"] => [.d (.wake true)]
  | ["D", "relock"] => [.d .relock]
  | ["D", "create", j] => (j.toNat?.map fun j => Label.d (.create j)).toList
  | ["D", "unlock"] => [.d .unlock]
  | ["D", "return"] => [.d .ret]
  | [t, a] =>
    match parseW t with
    | none => []
    | some i =>
      match a with
      | "connectBegin" => [.w i .connectBegin]
      | "connectEnd" => [.w i .connectEnd]
      | "destroyBegin" => [.w i .destroyBegin]
      | "destroyEnd" => [.w i .destroyEnd]
      | "lock" => [.w i .lock]
      | "signal" | "broadcast" => [.w i .signal, .w i .signalAfter]
      | "unlock" => [.w i .unlock, .w i .unlockFirst]
      | _ => []
  | _ => []

/-- perform the observed call: the first candidate label that is enabled -/
def stepObserved (s : St) (ls : List Label) : Option St := ls.findSome? (step s)

open PdshVerif.Dsh in
/-- the same in relay mode -/
def stepObservedR (r : FanRelay.St) (ls : List Label) : Option FanRelay.St :=
  ls.findSome? fun l => FanRelay.step r (.fan l)

open PdshVerif.Dsh in
/-- a relay line: which label of the composed LTS it stands for -/
def parseRelay : List String → Option FanRelay.Label
  | ["rd", w, strm, hx] =>
    match parseW w, PdshVerif.Hex.decode (if hx = "-" then "" else hx) with
    | some i, some b => some (.ev (i, strm = "1") (.feed b))
    | _, _ => none
  | ["fin", w, strm] => (parseW w).map fun i => .ev (i, strm = "1") .finish
  | ["cfail", w] => (parseW w).map .cfail
  | _ => none

def enabledNames (s : St) : List String :=
  (if dEnabled s then ["D"] else []) ++
  ((List.range s.ws.length).filter (wEnabled s)).map fun i => s!"W{i}"

def showW : W → String
  | .idle => "idle" | .started => "started" | .connecting => "connecting" | .connected => "connected"
  | .tearing => "tearing" | .torn => "torn" | .locked => "locked" | .signaled => "signaled"
  | .released => "released" | .done => "done"

def showDPC : DPC → String
  | .top => "top" | .wait => "wait" | .parked => "parked" | .woken => "woken" | .create => "create"
  | .unlock => "unlock" | .dtop => "dtop" | .dwait => "dwait" | .dparked => "dparked" | .dwoken => "dwoken"
  | .dunlock => "dunlock" | .finishing => "finishing" | .returned => "returned"

def showOwner : Owner → String
  | .none => "-" | .d => "D" | .w i => s!"W{i}"

/-- one line, no line breaks (the protocol is line based) -/
def showSt (s : St) : String :=
  s!"dpc={showDPC s.dpc} i={s.i} tc={s.tc} own={showOwner s.own} sig={s.sig} ws={",".intercalate (s.ws.map showW)}"

def checkSt (s : St) (tc r p x : String) : Option String :=
  let en := enabledNames s
  let rs := (names r).filter fun n => n = "D" || n.startsWith "W"
  let xs := names x
  let ps := names p
  if tc.toNat? ≠ some s.tc then some s!"threadcount impl={tc} model={s.tc}"
  else
    match rs.find? (fun n => !en.contains n) with
    | some n => some s!"runnable in the implementation but not enabled in the model: {n} ({showSt s})"
    | none =>
      match en.find? (fun n => !rs.contains n && !xs.contains n) with
      | some n => some s!"enabled in the model but not runnable in the implementation: {n} ({showSt s})"
      | none =>
        if spuriousEnabled s != ps.contains "D" then
          some s!"spurious wake-up of D: model={spuriousEnabled s} impl={ps.contains "D"}"
        else none

def stepLine (a : Acc) (line : String) : Acc × String :=
  match Driver.words line with
  | ["init", v, f, n] =>
    match f.toNat?, n.toNat? with
    | some f, some n =>
      let v := if v = "if" then Variant.ifWait else Variant.whileWait
      ({ st := some (init v f n), dead := false }, "ok")
    | _, _ => (a, "bad-line")
  | ["initr", v, f, n, sopt] =>
    match f.toNat?, n.toNat? with
    | some f, some n =>
      let v := if v = "if" then Variant.ifWait else Variant.whileWait
      ({ st := some (init v f n), dead := false, relay := true, evs := [], sopt := sopt = "1", nofd := [] }, "ok")
    | _, _ => (a, "bad-line")
  | "rd" :: _ | "fin" :: _ | "cfail" :: _ =>
    if a.dead then (a, "skip") else
    match a.st, parseRelay (Driver.words line) with
    | some s, some l =>
      if !a.relay then (a, "bad-line") else
      match PdshVerif.Dsh.FanRelay.step (a.rst s) l with
      | some r => (a.ofRst r, "ok")
      | none => ({ a with dead := true }, s!"reject relay event not enabled in the composed model: {line} ({showSt s})")
    | _, _ => (a, "bad-line")
  | "st" :: rest =>
    if a.dead then (a, "skip") else
    match a.st, rest with
    | some s, [tc, r, p, x] =>
      match checkSt s tc r p x with
      | none => (a, "ok")
      | some why => ({ a with dead := true }, "reject " ++ why)
    | _, _ => (a, "bad-line")
  | "ev" :: rest =>
    if a.dead then (a, "skip") else
    match a.st, parseLabels rest with
    | _, [] => ({ a with dead := true }, "reject unknown event " ++ " ".intercalate rest)
    | some s, ls =>
      if a.relay then
        match stepObservedR (a.rst s) ls with
        | some r => (a.ofRst r, "ok")
        | none =>
          let why := if (stepObserved s ls).isSome then " (enabled in the protocol LTS, refused by the composition: the worker leaves its read loop before its polled streams are over)" else ""
          ({ a with dead := true }, s!"reject not enabled in the model{why}: {" ".intercalate rest} ({showSt s})")
      else
      match stepObserved s ls with
      | some s' => ({ a with st := some s' }, "ok")
      | none => ({ a with dead := true }, s!"reject not enabled in the model: {" ".intercalate rest} ({showSt s})")
    | none, _ => ({ a with dead := true }, "reject unknown event " ++ " ".intercalate rest)
  | ["end", status] =>
    if a.dead then (a, "skip") else
    match a.st with
    | some s =>
      if status = "ok" then
        if s.dpc = .returned then (a, "ok") else (a, s!"reject run ended but the model is not final ({showSt s})")
      else if status = "deadlock" then
        if enabledNames s = [] then (a, "ok") else (a, s!"reject implementation deadlocked, model has enabled {enabledNames s}")
      else (a, "ok")
    | none => (a, "bad-line")
  | _ => (a, "bad-line")

def main (_args : List String) : IO UInt32 := do
  let stdin ← IO.getStdin
  Driver.forLines stdin ({} : Acc) stepLine
  return 0

end Driver.FanDrv
