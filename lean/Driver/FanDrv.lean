import PdshVerif.Dsh.Fan
import Driver.Util

/-! engine `fan`: trace acceptor for the projected traces of the `sched` harness.

    init <if|while> <f> <N>          start a new trace                          -> ok
    st <tc> <R> <P> <X>              harness state before a step: threadcount, runnable threads,
                                     parked-unsignalled threads, threads blocked on something the
                                     model does not know (thd_mutex, poll, ...)   -> ok | reject ..
    ev D <lock|wait|wake 0|wake 1|relock|create i|unlock|return>                  -> ok | reject ..
    ev W<i> <connectBegin|connectEnd|destroyBegin|destroyEnd|lock|signal|unlock>  -> ok | reject ..
    end <ok|deadlock|other>          ok: the model must be Final; deadlock: nothing enabled
    After a reject every line up to the next `init` answers `skip`.
    The transition function is `PdshVerif.Dsh.Fan.step`, the one the theorems are about. -/
namespace Driver.FanDrv
open PdshVerif.Dsh.Fan

structure Acc where
  st : Option St := none
  dead : Bool := false

def parseW (t : String) : Option Nat :=
  if t.startsWith "W" then (t.drop 1).toNat? else none

def names (t : String) : List String := if t = "-" then [] else t.splitOn ","

def parseLabel : List String → Option Label
  | ["D", "lock"] => some (.d .lock)
  | ["D", "wait"] => some (.d .wait)
  | ["D", "wake", "0"] => some (.d (.wake false))
  | ["D", "wake", "1"] => some (.d (.wake true))
  | ["D", "relock"] => some (.d .relock)
  | ["D", "create", j] => j.toNat?.map fun j => .d (.create j)
  | ["D", "unlock"] => some (.d .unlock)
  | ["D", "return"] => some (.d .ret)
  | [t, a] =>
    match parseW t with
    | none => none
    | some i =>
      match a with
      | "connectBegin" => some (.w i .connectBegin)
      | "connectEnd" => some (.w i .connectEnd)
      | "destroyBegin" => some (.w i .destroyBegin)
      | "destroyEnd" => some (.w i .destroyEnd)
      | "lock" => some (.w i .lock)
      | "signal" => some (.w i .signal)
      | "unlock" => some (.w i .unlock)
      | _ => none
  | _ => none

def enabledNames (s : St) : List String :=
  (if dEnabled s then ["D"] else []) ++
  ((List.range s.ws.length).filter (wEnabled s)).map fun i => s!"W{i}"

def showW : W → String
  | .idle => "idle" | .started => "started" | .connecting => "connecting" | .connected => "connected"
  | .tearing => "tearing" | .torn => "torn" | .locked => "locked" | .signaled => "signaled" | .done => "done"

def showDPC : DPC → String
  | .top => "top" | .wait => "wait" | .parked => "parked" | .woken => "woken" | .create => "create"
  | .unlock => "unlock" | .dtop => "dtop" | .dwait => "dwait" | .dparked => "dparked" | .dwoken => "dwoken"
  | .dunlock => "dunlock" | .finishing => "finishing" | .returned => "returned"

def showOwner : Owner → String
  | .none => "-" | .d => "D" | .w i => s!"W{i}"

/-- one line, no line breaks (the protocol is line based) -/
def showSt (s : St) : String :=
  s!"dpc={showDPC s.dpc} i={s.i} tc={s.tc} own={showOwner s.own} sig={s.sig} ws={",".intercalate (s.ws.map showW)}"

def checkSt (s : St) (tc r p x : String) : Option String :=
  let en := enabledNames s
  let rs := (names r).filter fun n => n = "D" || n.startsWith "W"
  let xs := names x
  let ps := names p
  if tc.toNat? ≠ some s.tc then some s!"threadcount impl={tc} model={s.tc}"
  else
    match rs.find? (fun n => !en.contains n) with
    | some n => some s!"runnable in the implementation but not enabled in the model: {n} ({showSt s})"
    | none =>
      match en.find? (fun n => !rs.contains n && !xs.contains n) with
      | some n => some s!"enabled in the model but not runnable in the implementation: {n} ({showSt s})"
      | none =>
        if spuriousEnabled s != ps.contains "D" then
          some s!"spurious wake-up of D: model={spuriousEnabled s} impl={ps.contains "D"}"
        else none

def stepLine (a : Acc) (line : String) : Acc × String :=
  match Driver.words line with
  | ["init", v, f, n] =>
    match f.toNat?, n.toNat? with
    | some f, some n =>
      let v := if v = "if" then Variant.ifWait else Variant.whileWait
      ({ st := some (init v f n), dead := false }, "ok")
    | _, _ => (a, "bad-line")
  | "st" :: rest =>
    if a.dead then (a, "skip") else
    match a.st, rest with
    | some s, [tc, r, p, x] =>
      match checkSt s tc r p x with
      | none => (a, "ok")
      | some why => ({ a with dead := true }, "reject " ++ why)
    | _, _ => (a, "bad-line")
  | "ev" :: rest =>
    if a.dead then (a, "skip") else
    match a.st, parseLabel rest with
    | some s, some l =>
      match step s l with
      | some s' => ({ a with st := some s' }, "ok")
      | none => ({ a with dead := true }, s!"reject not enabled in the model: {" ".intercalate rest} ({showSt s})")
    | _, _ => ({ a with dead := true }, "reject unknown event " ++ " ".intercalate rest)
  | ["end", status] =>
    if a.dead then (a, "skip") else
    match a.st with
    | some s =>
      if status = "ok" then
        if s.dpc = .returned then (a, "ok") else (a, s!"reject run ended but the model is not final ({showSt s})")
      else if status = "deadlock" then
        if enabledNames s = [] then (a, "ok") else (a, s!"reject implementation deadlocked, model has enabled {enabledNames s}")
      else (a, "ok")
    | none => (a, "bad-line")
  | _ => (a, "bad-line")

def main (_args : List String) : IO UInt32 := do
  let stdin ← IO.getStdin
  Driver.forLines stdin ({} : Acc) stepLine
  return 0

end Driver.FanDrv
