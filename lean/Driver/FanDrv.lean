import PdshVerif.Dsh.FanG
import PdshVerif.Dsh.FanRelay
import PdshVerif.Dsh.FanX
import PdshVerif.Dsh.FanPoll
import PdshVerif.Base.Hex
import Driver.Util

/-! engine `fan`: trace acceptor for the projected traces of the `sched` harness.

    init <if|while> <f> <N>          start a new trace                          -> ok
    st <tc> <R> <P> <X>              harness state before a step: threadcount, runnable threads,
                                     parked-unsignalled threads, threads blocked on something the
                                     model does not know (thd_mutex, poll, ...)   -> ok | reject ..
    ev D <lock|wait|wake 0|wake 1|relock|create i|unlock|return>                  -> ok | reject ..
    ev W<i> <connectBegin|connectEnd|destroyBegin|destroyEnd|lock|signal|broadcast|unlock>  -> ok | reject ..
    end <ok|deadlock|other>          ok: the model must be Final; deadlock: nothing enabled
    RELAY MODE (the protocol composed with the relay, `Dsh/FanRelay.lean`, the LTS of Props/C03 `EndToEnd`):
    initr <if|while> <f> <N> <sopt>  start a new trace in relay mode                     -> ok
    rd W<i> <0|1> <hex|->            worker i read a chunk from its stdout (0) / stderr (1)  -> ok | reject ..
    fin W<i> <0|1>                   that stream is over (EOF or error seen, descriptor closed) -> ok | reject ..
    cfail W<i>                       rcmd_connect of target i failed: no streams            -> ok | reject ..
    (in relay mode every `ev` goes through `FanRelay.step`: a worker may leave its read loop only when its polled
    streams are over, and reads happen only inside the loop; AND through `FanPoll.step`, the composition with the
    loop as code (Props/C03 `returns_after_output_delivered_poll`): a read of n > 0 bytes is `arrive` + an `xpoll`
    return reporting that descriptor, a close is `hup` + such a return, and the worker may leave the loop only when
    the loop condition of the MODEL of `_rsh_thread`'s loop, C05's `pollStep` run on those bytes, is false)
    ENVIRONMENT (`Dsh/FanX.lean`, the LTS of Props/C03 `X` / Props/C04 `X`; outside relay mode EVERY `ev` goes through
    `FanX.step`, which wraps `FanG.step`):
    initx <if|while> <setting> <N> <k> <soft> <hard>   start a new trace: `-k` or not, RLIMIT_NOFILE at the call of
                                     dsh(); performs the prologue transition `nofile soft hard`   -> ok
    ev D createfail <j>              pthread_create for worker j returned an error               -> ok | reject ..
    lim <setting> <soft0> <hard0> <fanout_used> <soft>   `_increase_nofile_limit` as a function: what the run left in
                                     opt->fanout and in the soft limit vs `FanX.increaseNofile`   -> ok | reject ..
    end exit <code>                  the process exited inside dsh(): ok iff the model has exited with that status
                                     (or, in relay mode / without a failed create, is not Final)
    (`init` = `initx` with k = 0 and limits 0 0: nothing to raise.)
    After a reject every line up to the next `init` answers `skip`.
    The transition function is `PdshVerif.Dsh.FanG.step`, the one the theorems are about: the LTS with the
    signalling discipline left open.  An observed call is mapped to a label by what it DOES in the state it is made
    in: `pthread_mutex_unlock(threadcount_mutex)` by a worker that has not yet made its wake-up call is
    `unlockFirst`, otherwise `unlock`; `pthread_cond_signal` / `pthread_cond_broadcast` on threadcount_cond (the same
    transition: the dispatcher is the only waiter, any other waiter is rejected as an unknown event) by a worker
    that has already unlocked is `signalAfter`, otherwise `signal`.  At most one of the two candidates is enabled in
    any state (their preconditions are different program counters). -/
namespace Driver.FanDrv
open PdshVerif.Dsh.FanG

structure Acc where
  st : Option St := none
  dead : Bool := false
  relay : Bool := false
  evs : List (PdshVerif.Relay.Key × PdshVerif.Relay.LEv) := []
  sopt : Bool := false
  nofd : List Nat := []
  pevs : List (Nat × PdshVerif.Relay.PEv) := []
  ph : PdshVerif.Dsh.FanX.Phase := .running
  kopt : Bool := false
  termSent : Bool := false
  soft : Nat := 0

open PdshVerif.Dsh in
def Acc.xst (a : Acc) (s : St) : FanX.St := { g := s, ph := a.ph, kopt := a.kopt, termSent := a.termSent, soft := a.soft }

open PdshVerif.Dsh in
def Acc.ofXst (a : Acc) (x : FanX.St) : Acc :=
  { a with st := some x.g, ph := x.ph, kopt := x.kopt, termSent := x.termSent, soft := x.soft }

open PdshVerif.Dsh in
/-- start of a trace outside relay mode: `FanX.init`, then the prologue transition in the given environment -/
def startX (v : Variant) (setting n : Nat) (k : Bool) (soft hard : Nat) : Acc :=
  match FanX.step (FanX.init v setting n k) (.nofile soft hard true true) with
  | some x => ({ dead := false } : Acc).ofXst x
  | none => { dead := true }

open PdshVerif.Dsh in
def Acc.rst (a : Acc) (s : St) : FanRelay.St := { fan := s, evs := a.evs, sopt := a.sopt, nofd := a.nofd }

open PdshVerif.Dsh in
def Acc.ofRst (a : Acc) (r : FanRelay.St) : Acc := { a with st := some r.fan, evs := r.evs, nofd := r.nofd }

def parseW (t : String) : Option Nat :=
  if t.startsWith "W" then (t.drop 1).toNat? else none

def names (t : String) : List String := if t = "-" then [] else t.splitOn ","

/-- the labels an observed call can stand for (see the header); [] = not an event of this LTS -/
def parseLabels : List String → List Label
  | ["D", "lock"] => [.d .lock]
  | ["D", "wait"] => [.d .wait]
  | ["D", "wake", "0"] => [.d (.wake false)]
  | ["D", "wake", "1"] => [.d (.wake true)]
  | ["D", "relock"] => [.d .relock]
  | ["D", "create", j] => (j.toNat?.map fun j => Label.d (.create j)).toList
  | ["D", "unlock"] => [.d .unlock]
  | ["D", "return"] => [.d .ret]
  | [t, a] =>
    match parseW t with
    | none => []
    | some i =>
      match a with
      | "connectBegin" => [.w i .connectBegin]
      | "connectEnd" => [.w i .connectEnd]
      | "destroyBegin" => [.w i .destroyBegin]
      | "destroyEnd" => [.w i .destroyEnd]
      | "lock" => [.w i .lock]
      | "signal" | "broadcast" => [.w i .signal, .w i .signalAfter]
      | "unlock" => [.w i .unlock, .w i .unlockFirst]
      | _ => []
  | _ => []

open PdshVerif.Dsh PdshVerif.Relay in
/-- parameters of the loop model in relay mode: what is written does not matter to the loop condition -/
def pollParams (sopt : Bool) : Option FanPoll.Params :=
  (mkFifoBuf 1).map fun b0 => { cfg := ⟨true, false, false, false, false⟩, names := fun _ => [], b0 := b0, sopt := sopt }

open PdshVerif.Dsh in
def Acc.pst (a : Acc) (s : St) : FanPoll.St := { fan := s, evs := a.pevs, nofd := a.nofd }

open PdshVerif.Dsh PdshVerif.Relay in
/-- a relay line as events of the worker's loop: the data (or the hang-up) arrives, `xpoll` reports that descriptor,
    its handler runs -/
def pollEvents : FanRelay.Label → List FanPoll.Label
  | .ev k (.feed b) => [.pev k.1 (.arrive k.2 b), .pev k.1 (if k.2 then .poll none (some none) else .poll (some none) none)]
  | .ev k .finish => [.pev k.1 (.hup k.2), .pev k.1 (if k.2 then .poll none (some none) else .poll (some none) none)]
  | .cfail i => [.cfail i]
  | .fan l => [.fan l]

open PdshVerif.Dsh in
def runPoll (P : FanPoll.Params) (p : FanPoll.St) (ls : List FanPoll.Label) : Option FanPoll.St := FanPoll.run P p ls

/-- perform the observed call: the first candidate label that is enabled -/
def stepObserved (s : St) (ls : List Label) : Option St := ls.findSome? (step s)

open PdshVerif.Dsh in
/-- the same through the environment LTS -/
def stepObservedX (x : FanX.St) (ls : List Label) : Option FanX.St := ls.findSome? fun l => FanX.step x (.g l)

/-- the candidate label that was taken (the first enabled one in the protocol LTS) -/
def pickTaken (s : St) (ls : List Label) : Label :=
  (ls.find? fun l => (step s l).isSome).getD (ls.headD (.d .lock))

open PdshVerif.Dsh in
/-- the same in relay mode -/
def stepObservedR (r : FanRelay.St) (ls : List Label) : Option FanRelay.St :=
  ls.findSome? fun l => FanRelay.step r (.fan l)

open PdshVerif.Dsh in
/-- a relay line: which label of the composed LTS it stands for -/
def parseRelay : List String → Option FanRelay.Label
  | ["rd", w, strm, hx] =>
    match parseW w, PdshVerif.Hex.decode (if hx = "-" then "" else hx) with
    | some i, some b => some (.ev (i, strm = "1") (.feed b))
    | _, _ => none
  | ["fin", w, strm] => (parseW w).map fun i => .ev (i, strm = "1") .finish
  | ["cfail", w] => (parseW w).map .cfail
  | _ => none

def enabledNames (s : St) : List String :=
  (if dEnabled s then ["D"] else []) ++
  ((List.range s.ws.length).filter (wEnabled s)).map fun i => s!"W{i}"

def showW : W → String
  | .idle => "idle" | .started => "started" | .connecting => "connecting" | .connected => "connected"
  | .tearing => "tearing" | .torn => "torn" | .locked => "locked" | .signaled => "signaled"
  | .released => "released" | .done => "done"

def showDPC : DPC → String
  | .top => "top" | .wait => "wait" | .parked => "parked" | .woken => "woken" | .create => "create"
  | .unlock => "unlock" | .dtop => "dtop" | .dwait => "dwait" | .dparked => "dparked" | .dwoken => "dwoken"
  | .dunlock => "dunlock" | .finishing => "finishing" | .returned => "returned"

def showOwner : Owner → String
  | .none => "-" | .d => "D" | .w i => s!"W{i}"

/-- one line, no line breaks (the protocol is line based) -/
def showSt (s : St) : String :=
  s!"dpc={showDPC s.dpc} i={s.i} tc={s.tc} own={showOwner s.own} sig={s.sig} ws={",".intercalate (s.ws.map showW)}"

def checkSt (s : St) (tc r p x : String) : Option String :=
  let en := enabledNames s
  let rs := (names r).filter fun n => n = "D" || n.startsWith "W"
  let xs := names x
  let ps := names p
  if tc.toNat? ≠ some s.tc then some s!"threadcount impl={tc} model={s.tc}"
  else
    match rs.find? (fun n => !en.contains n) with
    | some n => some s!"runnable in the implementation but not enabled in the model: {n} ({showSt s})"
    | none =>
      match en.find? (fun n => !rs.contains n && !xs.contains n) with
      | some n => some s!"enabled in the model but not runnable in the implementation: {n} ({showSt s})"
      | none =>
        if spuriousEnabled s != ps.contains "D" then
          some s!"spurious wake-up of D: model={spuriousEnabled s} impl={ps.contains "D"}"
        else none

def stepLine (a : Acc) (line : String) : Acc × String :=
  match Driver.words line with
  | ["init", v, f, n] =>
    match f.toNat?, n.toNat? with
    | some f, some n =>
      let v := if v = "if" then Variant.ifWait else Variant.whileWait
      (startX v f n false 0 0, "ok")
    | _, _ => (a, "bad-line")
  | ["initx", v, f, n, k, soft, hard] =>
    match f.toNat?, n.toNat?, soft.toNat?, hard.toNat? with
    | some f, some n, some soft, some hard =>
      let v := if v = "if" then Variant.ifWait else Variant.whileWait
      (startX v f n (k = "1") soft hard, "ok")
    | _, _, _, _ => (a, "bad-line")
  | ["lim", f, soft0, hard0, used, soft] =>
    if a.dead then (a, "skip") else
    match f.toNat?, soft0.toNat?, hard0.toNat?, soft.toNat? with
    | some f, some soft0, some hard0, some soft =>
      let r := PdshVerif.Dsh.FanX.increaseNofile f soft0 hard0 true true
      if used.toInt? ≠ some (Int.ofNat r.2) then
        (a, s!"reject fanout in use after _increase_nofile_limit: impl={used} model={r.2} (setting {f}, limits {soft0}/{hard0})")
      else if soft ≠ r.1 then
        (a, s!"reject soft descriptor limit after _increase_nofile_limit: impl={soft} model={r.1} (setting {f}, limits {soft0}/{hard0})")
      else (a, "ok")
    | _, _, _, _ => (a, "bad-line")
  | ["ev", "D", "createfail", j] =>
    if a.dead then (a, "skip") else
    match a.st, j.toNat? with
    | some s, some j =>
      if a.relay then (a, "bad-line") else
      match PdshVerif.Dsh.FanX.step (a.xst s) (.createFail j) with
      | some x => (a.ofXst x, "ok")
      | none => ({ a with dead := true }, s!"reject a failing pthread_create is not possible here in the model: worker {j} ({showSt s})")
    | _, _ => (a, "bad-line")
  | ["initr", v, f, n, sopt] =>
    match f.toNat?, n.toNat? with
    | some f, some n =>
      let v := if v = "if" then Variant.ifWait else Variant.whileWait
      ({ st := some (init v f n), dead := false, relay := true, evs := [], sopt := sopt = "1", nofd := [] }, "ok")
    | _, _ => (a, "bad-line")
  | "rd" :: _ | "fin" :: _ | "cfail" :: _ =>
    if a.dead then (a, "skip") else
    match a.st, parseRelay (Driver.words line) with
    | some s, some l =>
      if !a.relay then (a, "bad-line") else
      match PdshVerif.Dsh.FanRelay.step (a.rst s) l with
      | some r =>
        match pollParams a.sopt with
        | none => (a.ofRst r, "ok")
        | some P =>
          match runPoll P (a.pst s) (pollEvents l) with
          | some p => ({ a.ofRst r with pevs := p.evs }, "ok")
          | none => ({ a with dead := true }, s!"reject relay event not enabled in the composition with the loop model (FanPoll): {line} ({showSt s})")
      | none => ({ a with dead := true }, s!"reject relay event not enabled in the composed model: {line} ({showSt s})")
    | _, _ => (a, "bad-line")
  | "st" :: rest =>
    if a.dead then (a, "skip") else
    match a.st, rest with
    | some s, [tc, r, p, x] =>
      match checkSt s tc r p x with
      | none => (a, "ok")
      | some why => ({ a with dead := true }, "reject " ++ why)
    | _, _ => (a, "bad-line")
  | "ev" :: rest =>
    if a.dead then (a, "skip") else
    match a.st, parseLabels rest with
    | _, [] => ({ a with dead := true }, "reject unknown event " ++ " ".intercalate rest)
    | some s, ls =>
      if a.relay then
        match stepObservedR (a.rst s) ls with
        | some r =>
          -- the same step in the composition with the loop as code: the guard of destroyBegin is pollStep's loop condition
          let okPoll := match pollParams a.sopt with
            | none => true
            | some P => (PdshVerif.Dsh.FanPoll.step P (a.pst s) (.fan (pickTaken s ls))).isSome
          if okPoll then (a.ofRst r, "ok")
          else ({ a with dead := true }, s!"reject the worker leaves its read loop but the loop condition of the loop model (pollStep, FanPoll) still holds: {" ".intercalate rest} ({showSt s})")
        | none =>
          let why := if (stepObserved s ls).isSome then " (enabled in the protocol LTS, refused by the composition: the worker leaves its read loop before its polled streams are over)" else ""
          ({ a with dead := true }, s!"reject not enabled in the model{why}: {" ".intercalate rest} ({showSt s})")
      else
      match stepObservedX (a.xst s) ls with
      | some x => (a.ofXst x, "ok")
      | none =>
        let why := if (stepObserved s ls).isSome then " (pdsh has exited in the model: pthread_create failed)" else ""
        ({ a with dead := true }, s!"reject not enabled in the model{why}: {" ".intercalate rest} ({showSt s})")
    | none, _ => ({ a with dead := true }, "reject unknown event " ++ " ".intercalate rest)
  | ["end", "exit", code] =>
    if a.dead then (a, "skip") else
    match a.st with
    | some s =>
      match a.ph with
      | .exited c =>
        if code.toNat? = some c then (a, "ok")
        else (a, s!"reject exit status after a failed pthread_create: impl={code} model={c}")
      | _ =>
        if s.dpc = .returned then (a, s!"reject the process exited inside dsh() but the model has returned ({showSt s})")
        else (a, "ok")
    | none => (a, "bad-line")
  | ["end", status] =>
    if a.dead then (a, "skip") else
    match a.st with
    | some s =>
      if status = "ok" then
        if a.ph != .running then (a, s!"reject run ended normally but pdsh has exited in the model ({showSt s})")
        else if s.dpc = .returned then (a, "ok") else (a, s!"reject run ended but the model is not final ({showSt s})")
      else if status = "deadlock" then
        if enabledNames s = [] then (a, "ok") else (a, s!"reject implementation deadlocked, model has enabled {enabledNames s}")
      else (a, "ok")
    | none => (a, "bad-line")
  | _ => (a, "bad-line")

def main (_args : List String) : IO UInt32 := do
  let stdin ← IO.getStdin
  Driver.forLines stdin ({} : Acc) stepLine
  return 0

end Driver.FanDrv
