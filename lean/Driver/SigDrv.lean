import PdshVerif.Dsh.Signals
import PdshVerif.Dsh.SignalsOutput
import PdshVerif.Dsh.SignalsMask
import Driver.Util

/-! engine `sig`: trace acceptor for the projected traces of the `sched` harness with signals (C20).

    init <if|while> <f> <N> <batch 0|1> <clock0> <blind|guarded> <pinned|stopwdog>     start a new trace; wait
                                   construct, form of the worker's first state write and form of the shutdown
                                   (watchdog cancelled and joined first, F07-STALEID repair) are probed  -> ok
    ev D <createG|cancelG|joinG>, ev G <lockT|unlockT|wake>      only with `stopwdog`
    st <tc> <R> <P> <X> <ts|->     harness state before a step: threadcount, runnable threads, parked-
                                   unsignalled threads, threads blocked on something else, t[i].state
                                   digits (0 NEW 1 RCMD 2 READING 3 DONE 4 FAILED 5 CANCELED)  -> ok | reject ..
    ev D <createS|lock|wait|wake 0|wake 1|relock|create j|unlock|cancelS|return>
    ev D <mask|unmask>             dsh()'s `_mask_signals (SIG_BLOCK)` / `(SIG_UNBLOCK)`: steps of the wrapper
                                   `Dsh/SignalsMask.lean` (`mstep`), which lets the dispatcher act only in between.  The
                                   harness's signals are virtual (queued for sigwait wherever dsh() is): the acceptor runs
                                   the wrapper with "everything inherited blocked and ignored", so that a signal outside
                                   the masked phase is counted, never acted on
    ev W<i> <lockT|lockTF|time|unlockT|connectBegin|connectEnd 0|connectEnd 1|destroyBegin|destroyEnd|lock|signal|unlock>
    ev Z <sigwait int|sigwait tstp|time v|lockT|fwd h|unlockT|lock|unlock|stop|exit c|die>
                                   die: the thread ends on dsh()'s (deferred) cancellation request
    ev E <deliver int|deliver tstp|tick v>                                                -> ok | reject ..
    obs list <i,j,..|->            hosts named by the listing the implementation printed for the signal just handled
    obs canc <n>                   the number in "Canceled n pending threads"
    obs path <i> <reading|closing> what worker i does after _update_connect_state
    obs fwds <i,j,..|->            hosts a signal was forwarded to so far
    obs emit <W<i>|Z>              the thread makes a stdio call (fputs) now                -> ok | reject ..
    end <ok|exit c|deadlock|other> ok: dsh() returned; exit c: exit(c) was called; deadlock: nothing enabled
    After a reject every line up to the next `init` answers `skip`.
    The transition function is `PdshVerif.Dsh.Sig.mstep` (which runs `PdshVerif.Dsh.Sig.step` on every operation of the
    LTS), the ones the theorems are about. -/
namespace Driver.SigDrv
open PdshVerif.Dsh.Sig
open PdshVerif.Dsh.Fan (Variant DPC)

structure Acc where
  st : Option MSt := none
  dead : Bool := false
  /-- the signals thread has made the last clock reading of a listing it prints after releasing thd_mutex: the model
      has it back in sigwait, the implementation still writes the end of the last line (stdio calls the model does not
      see) — until its next operation it may be runnable although the model has nothing enabled for it -/
  ztail : Bool := false

def parseW (t : String) : Option Nat :=
  if t.startsWith "W" then (t.drop 1).toNat? else none

def names (t : String) : List String := if t = "-" then [] else t.splitOn ","

def natList (t : String) : Option (List Nat) :=
  if t = "-" then some [] else (t.splitOn ",").mapM fun x => x.toNat?

def parseSg : String → Option Sg
  | "int" => some .int
  | "tstp" => some .tstp
  | _ => none

def parseLabel : List String → Option Label
  | ["D", "createS"] => some (.d .createS)
  | ["D", "createG"] => some (.d .createG)
  | ["D", "cancelG"] => some (.d .cancelG)
  | ["D", "joinG"] => some (.d .joinG)
  | ["G", "lockT"] => some (.g .lockT)
  | ["G", "unlockT"] => some (.g .unlockT)
  | ["G", "wake"] => some (.g .wake)
  | ["D", "lock"] => some (.d .lock)
  | ["D", "wait"] => some (.d .wait)
  | ["D", "wake", "0"] => some (.d (.wake false))
  | ["D", "wake", "1"] => some (.d (.wake true))
  | ["D", "relock"] => some (.d .relock)
  | ["D", "create", j] => j.toNat?.map fun j => .d (.create j)
  | ["D", "unlock"] => some (.d .unlock)
  | ["D", "cancelS"] => some (.d .cancelS)
  | ["D", "return"] => some (.d .ret)
  | ["Z", "sigwait", g] => (parseSg g).map fun g => .s (.sigwait g)
  | ["Z", "time", v] => v.toNat?.map fun v => .s (.time v)
  | ["Z", "lockT"] => some (.s .lockT)
  | ["Z", "fwd", h] => h.toNat?.map fun h => .s (.fwd h)
  | ["Z", "unlockT"] => some (.s .unlockT)
  | ["Z", "lock"] => some (.s .lock)
  | ["Z", "unlock"] => some (.s .unlock)
  | ["Z", "stop"] => some (.s .stop)
  | ["Z", "die"] => some (.s .die)
  | ["Z", "exit", c] => c.toNat?.map fun c => .s (.exit c)
  | ["E", "deliver", g] => (parseSg g).map fun g => .e (.deliver g)
  | ["E", "tick", v] => v.toNat?.map fun v => .e (.tick v)
  | [t, "connectEnd", ok] =>
    match parseW t with
    | none => none
    | some i => if ok = "1" then some (.w i (.connectEnd true)) else if ok = "0" then some (.w i (.connectEnd false)) else none
  | [t, a] =>
    match parseW t with
    | none => none
    | some i =>
      match a with
      | "lockT" => some (.w i .lockT)
      | "lockTF" => some (.w i .lockTF)
      | "time" => some (.w i .time)
      | "unlockT" => some (.w i .unlockT)
      | "connectBegin" => some (.w i .connectBegin)
      | "destroyBegin" => some (.w i .destroyBegin)
      | "destroyEnd" => some (.w i .destroyEnd)
      | "lock" => some (.w i .lock)
      | "signal" => some (.w i .signal)
      | "unlock" => some (.w i .unlock)
      | _ => none
  | _ => none

/-- the harness's cancellation points of the signals thread are sigwait only (the model allows more: any point of a
    handler): in the middle of a handler `die` does not count as "runnable" -/
def zEnabled (s : St) : Bool :=
  (sActs s).any fun a => (a != .die || s.spc == .waiting) && (step s (.s a)).isSome

def enabledNamesD (s : St) (d : Bool) : List String :=
  (if d then ["D"] else []) ++
  (((List.range s.ws.length).filter (wEnabled s)).map fun i => s!"W{i}") ++
  (if zEnabled s then ["Z"] else []) ++ (if gEnabled s then ["G"] else [])

def enabledNames (m : MSt) : List String := enabledNamesD m.p (mdEnabled m)

/-- the harness's signals are virtual: see the header -/
def harnessInh : Inh := { ign := fun _ => true, blk := fun _ => true }

def showPh : MPh → String
  | .fresh => "fresh" | .masked => "masked" | .unmasked => "unmasked"

def showW : WP → String
  | .idle => "idle" | .started => "started" | .rcmdL => "rcmdL" | .skipL => "skipL" | .ready => "ready" | .connecting => "connecting"
  | .connOk => "connOk" | .connFail => "connFail" | .updT => "updT" | .updL => "updL" | .reading => "reading" | .closing => "closing"
  | .resL => "resL" | .flushed => "flushed" | .tearing => "tearing" | .torn => "torn" | .locked => "locked"
  | .signaled => "signaled" | .done => "done"

def showDPC : DPC → String
  | .top => "top" | .wait => "wait" | .parked => "parked" | .woken => "woken" | .create => "create"
  | .unlock => "unlock" | .dtop => "dtop" | .dwait => "dwait" | .dparked => "dparked" | .dwoken => "dwoken"
  | .dunlock => "dunlock" | .finishing => "finishing" | .returned => "returned"

def showSPC : SPC → String
  | .off => "off" | .waiting => "waiting" | .intT => "intT" | .intT2 => "intT2" | .listLock => "listLock"
  | .listing k => s!"listing{k}" | .printing k => s!"printing{k}" | .abLock => "abLock" | .fwding k => s!"fwding{k}" | .exiting => "exiting"
  | .tstpT => "tstpT" | .stopping => "stopping" | .cancLock => "cancLock" | .cancUnlock => "cancUnlock"
  | .cancelled => "cancelled"

def showOwn : Own → String
  | .none => "-" | .d => "D" | .w i => s!"W{i}" | .s => "Z" | .g => "G"

def showGPC : GPC → String
  | .off => "off" | .at k => s!"at{k}" | .inside k => s!"inside{k}" | .sleeping => "sleeping" | .ended => "ended"

def tsDigit : TS → Char
  | .new => '0' | .rcmd => '1' | .reading => '2' | .done => '3' | .failed => '4' | .canceled => '5'

def showTs (s : St) : String := String.ofList (s.ts.map tsDigit)

def showNats (l : List Nat) : String := if l.isEmpty then "-" else ",".intercalate (l.map toString)

/-- one line, no line breaks (the protocol is line based) -/
def showSt (s : St) : String :=
  s!"dpc={showDPC s.dpc} i={s.i} tc={s.tc} own={showOwn s.own} thd={showOwn s.thd} sig={s.sig} " ++
  s!"ws={",".intercalate (s.ws.map showW)} ts={showTs s} spc={showSPC s.spc} pend={s.pend.length} now={s.now} " ++
  s!"last={s.last} gpc={showGPC s.gpc} gcan={s.gcan} gjoin={s.gjoin} scan={s.scan}"

/-- a worker whose next protocol operation is a lock request may be runnable in the implementation on
    operations the model does not see (time(), poll/read/close/fputs) although the lock is taken -/
def mayRunUnseen (s : St) (n : String) : Bool :=
  match parseW n with
  | none => false
  | some i =>
    match s.ws[i]? with
    | some .started | some .reading | some .closing => true
    | _ => false

def checkSt (m : MSt) (ztail : Bool) (tc r p x ts : String) : Option String :=
  let s := m.p
  let en := enabledNames m
  let known := fun (n : String) => n = "D" || n = "Z" || n.startsWith "W" || (s.sw && n = "G")
  let rs := (names r).filter known
  let xs := names x
  let ps := names p
  if tc.toNat? ≠ some s.tc then some s!"threadcount impl={tc} model={s.tc} ({showSt s})"
  else if ts ≠ "-" && ts ≠ showTs s then some s!"t[].state impl={ts} model={showTs s} ({showSt s})"
  else
    match rs.find? (fun n => !en.contains n && !mayRunUnseen s n && !(ztail && n == "Z")) with
    | some n => some s!"runnable in the implementation but not enabled in the model: {n} ({showSt s})"
    | none =>
      match en.find? (fun n => !rs.contains n && !(n != "Z" && xs.contains n)) with
      | some n => some s!"enabled in the model but not runnable in the implementation: {n} ({showSt s})"
      | none =>
        if spuriousEnabled s != ps.contains "D" then
          some s!"spurious wake-up of D: model={spuriousEnabled s} impl={ps.contains "D"}"
        else none

def checkObs (s : St) : List String → Option String
  | ["list", l] =>
    match natList l with
    | some l =>
      -- sent when the signals thread has finished with the signal it took thd_mutex for (before its next sigwait, its
      -- end, the end of the run): after `_list_slowthreads` the hosts listed — whether the lines were printed with
      -- the mutex held or from a snapshot after it was released —, after `_fwd_signal` nothing may have been listed;
      -- a run that ends inside `_list_slowthreads` has printed a prefix
      let ok := match s.spc with
        | .waiting => l == s.listed
        | .listing _ | .printing _ => l.isPrefixOf s.listed
        | _ => l.isEmpty
      if ok then none else some s!"listing impl={showNats l} model={showNats s.listed} spc={showSPC s.spc}"
    | none => some "bad obs line"
  | ["canc", n] => if n.toNat? = some s.ncanc then none else some s!"canceled count impl={n} model={s.ncanc}"
  | ["path", i, p] =>
    match i.toNat? with
    | some i =>
      let m := match s.ws[i]? with | some w => showW w | none => "?"
      if m = p then none else some s!"worker {i} after connect: impl={p} model={m}"
    | none => some "bad obs line"
  | ["gkill"] =>
    -- the watchdog interrupts a worker (pthread_kill SIGALRM): only while it holds thd_mutex around that slot
    match s.gpc with
    | .inside _ => none
    | _ => some s!"the watchdog signals a worker without holding thd_mutex ({showSt s})"
  | ["emit", t] =>
    -- a stdio call (fputs on stdout / stderr) by thread t: the product model (Dsh/SignalsOutput.lean) says who can be
    -- inside one: `emits`
    let who : Option Own := if t = "Z" then some .s else (parseW t).map .w
    match who with
    | some o => if emits s o then none else some s!"{t} writes to stdout/stderr where the model has no stdio call ({showSt s})"
    | none => some "bad obs line"
  | ["fwds", l] =>
    match natList l with
    | some l => if l = s.fwds then none else some s!"forwarded impl={showNats l} model={showNats s.fwds}"
    | none => some "bad obs line"
  | _ => some "bad obs line"

def stepLine (a : Acc) (line : String) : Acc × String :=
  match Driver.words line with
  | ["init", v, f, n, b, t0, g, sw] =>
    match f.toNat?, n.toNat?, t0.toNat? with
    | some f, some n, some t0 =>
      let v := if v = "if" then Variant.ifWait else Variant.whileWait
      ({ st := some (minit harnessInh v (g = "guarded") (sw = "stopwdog") f n (b = "1") t0), dead := false, ztail := false }, "ok")
    | _, _, _ => (a, "bad-line")
  | "st" :: rest =>
    if a.dead then (a, "skip") else
    match a.st, rest with
    | some s, [tc, r, p, x, ts] =>
      match checkSt s a.ztail tc r p x ts with
      | none => (a, "ok")
      | some why => ({ a with dead := true }, "reject " ++ why)
    | _, _ => (a, "bad-line")
  | "ev" :: rest =>
    if a.dead then (a, "skip") else
    let ml : Option MLabel := match rest with
      | ["D", "mask"] => some .mask
      | ["D", "unmask"] => some .unmask
      | _ => (parseLabel rest).map .proto
    match a.st, ml with
    | some m, some l =>
      match mstep m l with
      | some m' =>
        let zt := match l with
          | .proto (.s (.time _)) => m.p.spc == .printing 0
          | .proto (.s _) => false
          | _ => a.ztail
        ({ a with st := some m', ztail := zt }, "ok")
      | none => ({ a with dead := true },
                 s!"reject not enabled in the model: {" ".intercalate rest} (dsh()={showPh m.ph} {showSt m.p})")
    | _, _ => ({ a with dead := true }, "reject unknown event " ++ " ".intercalate rest)
  | "obs" :: rest =>
    if a.dead then (a, "skip") else
    match a.st with
    | some m =>
      match checkObs m.p rest with
      | none => (a, "ok")
      | some why => ({ a with dead := true }, "reject " ++ why)
    | none => (a, "bad-line")
  | "end" :: status =>
    if a.dead then (a, "skip") else
    match a.st with
    | some m =>
      let s := m.p
      match status with
      | ["ok"] =>
        if s.dpc = .returned then (a, "ok") else (a, s!"reject run ended but the model is not final ({showSt s})")
      | ["exit", c] =>
        if c.toNat?.isSome && c.toNat? = s.exited then (a, "ok")
        else (a, s!"reject implementation called exit({c}), model: {showSt s} exited={s.exited}")
      | ["deadlock"] =>
        if enabledNames m = [] then (a, "ok")
        else (a, s!"reject implementation deadlocked, model has enabled {enabledNames m}")
      | _ => (a, "ok")
    | none => (a, "bad-line")
  | _ => (a, "bad-line")

def main (_args : List String) : IO UInt32 := do
  let stdin ← IO.getStdin
  Driver.forLines stdin ({} : Acc) stepLine
  return 0

end Driver.SigDrv
