import PdshVerif.Base.Hex
import PdshVerif.Opt.Settings
import PdshVerif.Opt.Spec
import PdshVerif.Opt.Use
import Driver.Util

/-!
  line protocol of the `opt` engine (property C18); every line is a list of `key=value` words,
  strings hex-encoded ("-" = empty string), an absent key = "not given".

  `pdshmodel opt model <d4><d5><atoi><dopt><wuser><early>`
      pers=dsh|pdcp|rpdcp luser=HEX lmax=N prog=HEX avail=HEX,HEX,.. [modopts=HEX] env=NAMEHEX:VALHEX,.. argv=HEX,HEX,..
        -> "exit N"
         | "ok <fanout> <ctmo> <utmo> <ruser> <rcmd|~> <misc|~> <path> q=<0|1> S=<0|1> k=<0|1> term=<0|1> mw=<A|B> z=<0|1>
            next=<info|server|client|run|copy|interactive> cmd=<HEX|~> in=HEX,.. out=<HEX|~> users=HOSTHEX:USERHEX,..|!"
            (`mainPlan`: main as a whole; `contacts`: the user every target is contacted with)
  `pdshmodel opt spec`
      pers=.. luser= lmax= prog= avail= dfr=HEX(default rcmd) st=0|1
      cf= ef= ct= et= cu= eu= cl= cR= eR= cM= eM= ce= ee=       (texts per setting: c* command line, e* environment)
      wt=HEX,.. wu=HEX,.. wm=0|1    (per-host transports / users given as prefixes of -w words; a malformed prefix)
      obs=rej:<diag>  |  obs=hang  |  obs=acc:<fanout>:<ctmo>:<utmo>:<ruser>:<rcmd>:<path>   [mw=HEX]
      [uown=HEX] uobs=HEX          (a target that names the user `uown` itself was contacted as `uobs`)
      peak=N [ntargets=M]          (N commands were seen running at the same time; more targets than the fanout allows,
                                    or M targets in all)
      cut=0|1 short=N long=N       (a command running between `short` and `long` seconds was / was not cut short)
      ccut=0|1 cshort=N clong=N    (a host answering the connect handshake after between `cshort` and `clong` seconds was / was not given up first)
      cgiven=0|1 cwait=N cwdog=N cslack=N   (a host that never answers was / was not given up, after N tenths of a second)
      pobs=HEX                     (the program that was run on the remote side of a copy)
        -> "ok" | space-separated violated clauses
-/
namespace Driver.OptDrv
open PdshVerif PdshVerif.Opt

def kv (ws : List String) (key : String) : Option String :=
  ws.findSome? fun w =>
    match w.splitOn "=" with
    | k :: rest => if k = key then some ("=".intercalate rest) else none
    | [] => none

def hexStr (s : String) : Option Str := Hex.decodeToChars s

def kvHex (ws : List String) (key : String) : Option Str := (kv ws key).bind hexStr

def hexList (s : String) : Option (List Str) :=
  if s = "" then some [] else (s.splitOn ",").mapM hexStr

def parsePers (s : String) : Option Pers :=
  if s = "dsh" then some .dsh else if s = "pdcp" then some .pdcp else if s = "rpdcp" then some .rpdcp else none

def parseEnv (s : String) : Option Env :=
  if s = "" then some []
  else (s.splitOn ",").mapM fun e =>
    match e.splitOn ":" with
    | [n, v] => do let n' ← hexStr n; let v' ← hexStr v; pure (n', v')
    | _ => none

def parseDefaults (ws : List String) : Option Defaults := do
  let luser ← kvHex ws "luser"
  let lmax ← (kv ws "lmax").bind String.toNat?
  let prog ← kvHex ws "prog"
  let avail ← hexList ((kv ws "avail").getD "")
  let mo := (kvHex ws "modopts").getD []
  pure { luser := luser, loginMax := lmax, progPath := prog, rcmdModules := avail, modOpts := mo }

def b01 (b : Bool) : String := if b then "1" else "0"

def optHex : Option Str → String
  | none => "~"
  | some s => Hex.encodeChars s

def nextName : Next → String
  | .info => "info"
  | .pcpServer => "server"
  | .pcpClient => "client"
  | .run (some _) => "run"
  | .run none => "copy"
  | .interactive => "interactive"

/-- `contacts` (Opt/Use.lean: the registry model of C09 on the tokens of this command line): host:user,... -/
def usersText : Rcmd.Outcome → String
  | .fatal => "!"
  | .lines ls => ",".intercalate (ls.map fun l => s!"{Hex.encodeChars l.host}:{Hex.encodeChars l.user}")

def stepModel (fx : Fixes) (line : String) : String :=
  let ws := Driver.words line
  match (kv ws "pers").bind parsePers, parseDefaults ws, parseEnv ((kv ws "env").getD ""),
        hexList ((kv ws "argv").getD "") with
  | some p, some d, some env, some argv =>
    match mainPlan fx d p env argv with
    | .error n => s!"exit {n}"
    | .ok (c, nx) =>
      let files := pcpFiles c.pcpClient (getopt (fullString d p) argv).2
      s!"ok {c.fanout} {c.connectTimeout} {c.commandTimeout} {Hex.encodeChars c.ruser} {optHex c.rcmdName} " ++
      s!"{optHex c.miscModules} {Hex.encodeChars c.remotePath} q={b01 c.infoOnly} S={b01 c.retRemoteRc} " ++
      s!"k={b01 c.killOnFail} term={b01 (runTerminates c)} mw={String.ofList (miscWinner c)} z={b01 c.pcpServer} " ++
      s!"next={nextName nx} cmd={optHex (assembleCmd (getopt (fullString d p) argv).2)} " ++
      s!"in={",".intercalate (files.1.map Hex.encodeChars)} out={optHex files.2} " ++
      s!"users={usersText (contacts d env (getopt (fullString d p) argv).1)}"
  | _, _, _, _ => "bad-op"

def sources (ws : List String) (c e : String) : Spec.Sources :=
  { cmdline := kvHex ws c, env := kvHex ws e }

def parseObs (s : String) : Option Spec.Obs :=
  match s.splitOn ":" with
  | ["rej", d] => some (.rejected (d = "1"))
  | ["hang"] => some .hang
  | ["acc", f, ct, ut, ru, rc, pa] => do
    let f ← f.toInt?
    let ct ← ct.toInt?
    let ut ← ut.toInt?
    let ru ← hexStr ru
    let rc ← hexStr rc
    let pa ← hexStr pa
    pure (.accepted f ct ut ru rc pa)
  | _ => none

def stepSpec (line : String) : String :=
  let ws := Driver.words line
  match (kv ws "pers").bind parsePers, parseDefaults ws with
  | some p, some d =>
    let cfg : Spec.Config :=
      { pcp := p.isPcp,
        fanout := sources ws "cf" "ef", ctmo := sources ws "ct" "et", utmo := sources ws "cu" "eu",
        ruser := kvHex ws "cl", rcmd := sources ws "cR" "eR", misc := sources ws "cM" "eM",
        path := sources ws "ce" "ee",
        dfltFanout := DFLT_FANOUT, dfltCtmo := CONNECT_TIMEOUT, dfltUtmo := 0,
        dfltUser := d.luser, loginMax := d.loginMax, avail := d.rcmdModules,
        dfltRcmd := kvHex ws "dfr", dfltPath := d.progPath,
        structOk := (kv ws "st") ≠ some "0",
        wTypes := ((kv ws "wt").bind hexList).getD [], wUsers := ((kv ws "wu").bind hexList).getD [],
        wMalformed := (kv ws "wm") = some "1" }
    let a := match (kv ws "obs").bind parseObs with
      | some o => some (Spec.judge cfg o)
      | none => none
    let m := match kvHex ws "mw" with
      | some w => Spec.judgeMisc cfg w
      | none => []
    -- the settings where they take effect
    let u := match kvHex ws "uobs" with
      | some o => Spec.judgeUser cfg (kvHex ws "uown") o
      | none => []
    let fu := match (kv ws "peak").bind String.toInt? with
      | some pk => Spec.judgeFanoutUsed cfg pk ((kv ws "ntargets").bind String.toInt?)
      | none => []
    let tu := match (kv ws "cut"), (kv ws "short").bind String.toInt?, (kv ws "long").bind String.toInt? with
      | some ct, some sh, some lg => Spec.judgeTimeoutUsed cfg sh lg (ct = "1")
      | _, _, _ => []
    let cu := match (kv ws "ccut"), (kv ws "cshort").bind String.toInt?, (kv ws "clong").bind String.toInt? with
      | some ct, some sh, some lg => Spec.judgeConnectUsed cfg sh lg (ct = "1")
      | _, _, _ => []
    let cg := match (kv ws "cgiven"), (kv ws "cwait").bind String.toInt?, (kv ws "cwdog").bind String.toInt?,
                    (kv ws "cslack").bind String.toInt? with
      | some g, some w, some wd, some sl => Spec.judgeConnectGiven cfg (g = "1") w wd sl
      | _, _, _, _ => []
    let pu := match kvHex ws "pobs" with
      | some o => Spec.judgePathUsed cfg o
      | none => []
    match a, kv ws "obs" with
    | none, some _ => "bad-op"
    | _, _ =>
      let all := a.getD [] ++ m ++ u ++ fu ++ tu ++ cu ++ cg ++ pu
      if all = [] then "ok" else " ".intercalate all
  | _, _ => "bad-op"

def main (args : List String) : IO UInt32 := do
  let stdin ← IO.getStdin
  match args with
  | ["model", bits] =>
    match bits.toList with
    | [a, b, c, e, f, g] =>
      let fx : Fixes := ⟨a = '1', b = '1', c = '1', e = '1', f = '1', g = '1'⟩
      Driver.forLines stdin () (fun _ l => ((), stepModel fx l)); return 0
    | _ => IO.eprintln "usage: pdshmodel opt model <d4 d5 atoi dopt wuser early>"; return 2
  | ["spec"] => Driver.forLines stdin () (fun _ l => ((), stepSpec l)); return 0
  | _ => IO.eprintln "usage: pdshmodel opt model <bits>|spec"; return 2

end Driver.OptDrv
