import PdshVerif.Base.Hex
import PdshVerif.Hostlist.Uniq
import PdshVerif.Hostlist.EditSort
import PdshVerif.Hostlist.EditSpec
import PdshVerif.Hostlist.Probed
import Driver.Util

/-! C16 sub-engines of `hl`: `pdshmodel hl edit` (the editable-list model with iterators, same op
    lines and answers as harness/hl_harness.c) and `pdshmodel hl plspec` (the plain-list spec). -/
namespace Driver.HlEdit
open PdshVerif PdshVerif.Hostlist

def cfg : Cfg := Cfg.probed

def fatalClass : Fatal → String
  | .none => "-"
  | .invalidRange => "invalid"
  | .tooMany => "toomany"

def namesField (xs : List Str) (limit : Nat) : String :=
  let shown := xs.take limit
  let more := if xs.length > limit then "+" else ""
  s!"{shown.length}{more}:" ++ ",".intercalate (shown.map Hex.encodeChars)

def optName : Option Str → String
  | none => "null"
  | some x => Hex.encodeChars x

/-- the state of the edit engine: a list, or dead after undefined behaviour -/
inductive St where
  | none
  | live (e : EL)
  | dead
  deriving Inhabited

/-- `hosts LIMIT`: a temporary iterator walks the list -/
def walk (e : EL) : Nat → ItSt → List Str → Except String (List Str)
  | 0, _, acc => .ok acc.reverse
  | n + 1, it, acc =>
    let e1 : EL := { e with its := (999, it) :: e.its.filter (·.1 != 999) }
    match itNext cfg e1 999 with
    | .error w => .error w
    | .ok (none, _) => .ok acc.reverse
    | .ok (some x, e2) =>
      match e2.getIt 999 with
      | some it' => walk e n it' (x :: acc)
      | none => .ok acc.reverse

def freeSlot (e : EL) : Option Nat := (List.range 16).find? fun k => (e.getIt k).isNone

def dumpField (e : EL) : String :=
  s!"{e.nhosts} {e.nranges}" ++ String.join (e.rs.map fun o =>
    s!" {Hex.encodeChars o.r.pre}:{o.r.lo}:{o.r.hi}:{o.r.width}:{if o.r.single then 1 else 0}")

def ub (w : String) : St × String := (.dead, "ub:" ++ w.replace " " "_")

def stepEdit (st : St) (line : String) : St × String :=
  match st, Driver.words line with
  | _, ["new"] => (.live EL.new, "ok 0 0")
  | .dead, _ => (.dead, "DEAD")
  | _, ["cfg"] => (st, cfg.describe)
  | .none, _ => (.none, "no-list")
  | .live e, ["push", hx] =>
    match Hex.decodeToChars hx with
    | some s =>
      match pushE cfg e s with
      | .ok (ret, f, e') => (.live e', s!"{ret} {fatalClass f}")
      | .error w => ub w
    | none => (st, "bad-op")
  | .live e, ["count"] => (st, s!"{e.nhosts}")
  | .live e, ["nranges"] => (st, s!"{e.nranges}")
  | .live e, ["dump"] => (st, dumpField e)
  | .live e, ["hosts", lim] =>
    match lim.toNat? with
    | some l =>
      match walk e (l + 1) e.resetIt [] with
      | .ok xs => (st, namesField xs l)
      | .error w => ub w
    | none => (st, "bad-op")
  | .live e, ["shift"] =>
    match shiftE cfg e with
    | .ok (x, e') => (.live e', optName x)
    | .error w => ub w
  | .live e, ["pop"] =>
    match popE cfg e with
    | .ok (x, e') => (.live e', optName x)
    | .error w => ub w
  | .live e, ["nth", n] =>
    match n.toNat? with
    | some n =>
      match nthE cfg e n with
      | none => (st, "null")
      | some none => ub "nth_buf"
      | some (some x) => (st, Hex.encodeChars x)
    | none => (st, "bad-op")
  | .live e, ["find", hx] =>
    match Hex.decodeToChars hx with
    | some s =>
      match findE e s with
      | (some i, e') => (.live e', s!"{i}")
      | (none, e') => (.live e', "-1")
    | none => (st, "bad-op")
  | .live e, ["delete_host", hx] =>
    match Hex.decodeToChars hx with
    | some s => let (k, e') := deleteHostE cfg e s; (.live e', s!"{k}")
    | none => (st, "bad-op")
  | .live e, ["delete", hx] =>
    match Hex.decodeToChars hx with
    | some s =>
      match deleteE cfg e s with
      | .ok (k, _, e') => (.live e', s!"{k}")
      | .error w => ub w
    | none => (st, "bad-op")
  | .live e, ["delete_nth", n] =>
    match n.toNat? with
    | some n => if (n : Int) < e.nhosts then (.live (deleteNthE cfg e n), "1") else (st, "bad-arg")
    | none => (st, "bad-arg")
  | .live e, ["uniq"] =>
    match uniqE cfg e with
    | some e' => (.live e', s!"ok {e'.nhosts} {e'.nranges}")
    | none => ub "assert_hostrange_cmp_in_hostrange_join"
  | .live e, ["sort"] =>
    match sortE cfg e with
    | .ok e' => (.live e', s!"ok {e'.nhosts} {e'.nranges}")
    | .error w => ub w
  | .live e, ["it_new"] =>
    match freeSlot e with
    | some k => (.live (itNew e k), s!"{k}")
    | none => (st, "full")
  | .live e, ["it_next", k] =>
    match k.toNat? with
    | some k =>
      if (e.getIt k).isNone then (st, "bad-arg")
      else match itNext cfg e k with
        | .ok (x, e') => (.live e', optName x)
        | .error w => ub w
    | none => (st, "bad-arg")
  | .live e, ["it_remove", k] =>
    match k.toNat? with
    | some k =>
      if (e.getIt k).isNone then (st, "bad-arg")
      else match itRemove cfg e k with
        | .ok e' => (.live e', "1")
        | .error w => ub w
    | none => (st, "bad-arg")
  | .live e, ["it_reset", k] =>
    match k.toNat? with
    | some k => if (e.getIt k).isNone then (st, "bad-arg") else (.live (itReset e k), "ok")
    | none => (st, "bad-arg")
  | .live e, ["it_free", k] =>
    match k.toNat? with
    | some k => if (e.getIt k).isNone then (st, "bad-arg") else (.live (itFree e k), "ok")
    | none => (st, "bad-arg")
  | _, _ => (st, "unsupported")

/-! the plain-list spec; `uniq` / `sort` lines carry the implementation's resulting list:
    `uniq @ <k>:<hex>,<hex>..` -/
open EditSpec in
def stepPL0 (st : Option PL) (line : String) : Option PL × String :=
  let ws := Driver.words line
  let ops := ws.takeWhile (· ≠ "@")
  let ann := (ws.dropWhile (· ≠ "@")).drop 1
  let annNames : Option (List Str) :=
    match ann with
    | [f] =>
      match f.splitOn ":" with
      | [_, rest] => if rest = "" then some [] else (rest.splitOn ",").mapM Hex.decodeToChars
      | _ => none
    | _ => none
  match st, ops with
  | _, ["new"] => (some PL.new, "ok 0")
  | none, _ => (none, "no-list")
  | some p, ["push", hx] =>
    match Hex.decodeToChars hx with
    | some s => let (n, q) := push p s; (some q, s!"{n}")
    | none => (st, "bad-op")
  | some p, ["count"] => (st, s!"{count p}")
  | some p, ["hosts", lim] =>
    match lim.toNat? with
    | some l => (st, namesField p.names l)
    | none => (st, "bad-op")
  | some p, ["shift"] => let (x, q) := shift p; (some q, optName x)
  | some p, ["pop"] => let (x, q) := pop p; (some q, optName x)
  | some p, ["nth", n] =>
    match n.toNat? with
    | some n => (st, optName (nth p n))
    | none => (st, "bad-op")
  | some p, ["find", hx] =>
    match Hex.decodeToChars hx with
    | some s => (st, match find p s with | some i => s!"{i}" | none => "-1")
    | none => (st, "bad-op")
  | some p, ["delete_host", hx] =>
    match Hex.decodeToChars hx with
    | some s => let (k, q) := deleteHost p s; (some q, s!"{k}")
    | none => (st, "bad-op")
  | some p, ["delete", hx] =>
    match Hex.decodeToChars hx with
    | some s => let (k, q) := delete p s; (some q, s!"{k}")
    | none => (st, "bad-op")
  | some p, ["delete_nth", n] =>
    match n.toNat? with
    | some n => if n < count p then (some (deleteNth p n), "1") else (st, "bad-arg")
    | none => (st, "bad-arg")
  | some p, ["uniq"] =>
    match annNames with
    | some r =>
      match uniq p r with
      | some q => (some q, s!"ok {count q}")
      | none => (st, "INADMISSIBLE")
    | none => (st, "no-annotation")
  | some p, ["sort"] =>
    match annNames with
    | some r =>
      match sort p r with
      | some q => (some q, s!"ok {count q}")
      | none => (st, "INADMISSIBLE")
    | none => (st, "no-annotation")
  | some p, ["it_new"] =>
    match (List.range 16).find? fun k => (getCur p k).isNone with
    | some k => (some (itNew p k), s!"{k}")
    | none => (st, "full")
  | some p, ["it_next", k] =>
    match k.toNat? with
    | some k =>
      match itNext p k with
      | some (x, q) => (some q, optName x)
      | none => (st, "bad-arg")
    | none => (st, "bad-arg")
  | some p, ["it_remove", k] =>
    match k.toNat? with
    | some k =>
      match itRemove p k with
      | some q => (some q, "1")
      | none => (st, "bad-arg")
    | none => (st, "bad-arg")
  | some p, ["it_reset", k] =>
    match k.toNat? with
    | some k => if (getCur p k).isNone then (st, "bad-arg") else (some (itReset p k), "ok")
    | none => (st, "bad-arg")
  | some p, ["it_free", k] =>
    match k.toNat? with
    | some k => if (getCur p k).isNone then (st, "bad-arg") else (some (itFree p k), "ok")
    | none => (st, "bad-arg")
  | _, _ => (st, "unsupported")

/-- the answer, then ` # <len> <slot>:<cursor> ..` (the spec's state AFTER the op; used by the check
    only to label differences, e.g. "the iterator stood at the end when the push came") -/
def stepPL (st : Option EditSpec.PL) (line : String) : Option EditSpec.PL × String :=
  match stepPL0 st line with
  | (st', a) =>
    let tail := match st' with
      | some p => s!" # {p.names.length}" ++ String.join (p.cur.map fun (k, c) => s!" {k}:{c}")
      | none => " # -"
    (st', a ++ tail)

end Driver.HlEdit
