import PdshVerif.Base.Hex
import PdshVerif.Cbuf.Pair
import PdshVerif.Cbuf.OutParam
import Driver.Util

/-! line protocol of the cbuf engine: the same op lines drive the index model and the FIFO spec.
    Every line is parsed into an operation of the verified library (`OpR` / `Op2`) and executed by
    the step functions the theorems of Props/C13.lean are about (`stepMR`, `stepSR`, `stepM2`,
    `stepS2`); this file only parses and prints. -/
namespace Driver.CbufDrv
open PdshVerif PdshVerif.Cbuf

def optHex : Option (List UInt8) → String
  | none => "~"
  | some bs => Hex.encode bs

/-- a descriptor that takes everything -/
def noCap : Nat := 1 <<< 40

inductive Fmt where
  | retDrop | retBytes | retOptBytes | ret | ok

def parseOp (ws : List String) : Option (OpR × Fmt) :=
  match ws with
  | ["opt", v] => v.toNat?.map fun v => (.base (.optSet v), .ret)
  | ["write", hx] => (Hex.decode hx).map fun bs => (.base (.write bs), .retDrop)
  | ["wfd", len, hx, eof] =>
    match len.toInt?, Hex.decode hx with
    | some len, some bs => some (.base (.writeFromFd len bs (eof = "1")), .retDrop)
    | _, _ => none
  | ["wline", hx] => (Hex.decode hx).map fun bs => (.base (.writeLine bs), .retDrop)
  | ["read", len] => len.toInt?.map fun len => (.base (.read len), .retBytes)
  | ["peek", len] => len.toInt?.map fun len => (.base (.peek len), .retBytes)
  | ["drop", len] => len.toInt?.map fun len => (.base (.drop len), .ret)
  | ["rline", len, lines] =>
    match len.toInt?, lines.toInt? with
    | some len, some lines => some (.base (.readLine len lines), .retOptBytes)
    | _, _ => none
  | ["pline", len, lines] =>
    match len.toInt?, lines.toInt? with
    | some len, some lines => some (.base (.peekLine len lines), .retOptBytes)
    | _, _ => none
  | ["dline", len, lines] =>
    match len.toInt?, lines.toInt? with
    | some len, some lines => some (.base (.dropLine len lines), .ret)
    | _, _ => none
  | ["flush"] => some (.base .flush, .ok)
  | ["yline", len, lines] =>
    match len.toInt?, lines.toInt? with
    | some len, some lines => some (.replayLine len lines, .retOptBytes)
    | _, _ => none
  | ["wrline", len, lines] =>
    match len.toInt?, lines.toInt? with
    | some len, some lines => some (.rewindLine len lines, .ret)
    | _, _ => none
  | ["replay", len] => len.toInt?.map fun len => (.replay len, .retBytes)
  | ["rewind", len] => len.toInt?.map fun len => (.rewind len, .ret)
  | ["rfd", len] => len.toInt?.map fun len => (.readToFd len noCap, .retBytes)
  | ["rfd", len, cap] =>
    match len.toInt?, cap.toNat? with
    | some len, some cap => some (.readToFd len cap, .retBytes)
    | _, _ => none
  | ["pfd", len, cap] =>
    match len.toInt?, cap.toNat? with
    | some len, some cap => some (.peekToFd len cap, .retBytes)
    | _, _ => none
  | ["yfd", len, cap] =>
    match len.toInt?, cap.toNat? with
    | some len, some cap => some (.replayToFd len cap, .retBytes)
    | _, _ => none
  | _ => none

/-- `nullnd`: the call got NULL for its out-parameter (`nullnd 1`): no drop column in the answer -/
def retDrop (nullnd : Bool) (o : Out) : String :=
  if nullnd then s!"{o.ret}" else s!"{o.ret} {o.ndropped}"

def fmtOut (f : Fmt) (o : Out) (nullnd : Bool := false) : String :=
  match f with
  | .retDrop => retDrop nullnd o
  | .retBytes => s!"{o.ret} {Hex.encode (o.bytes.getD [])}"
  | .retOptBytes => s!"{o.ret} {optHex o.bytes}"
  | .ret => s!"{o.ret}"
  | .ok => "ok"

structure St (α : Type) where
  a : Option α := none
  b : Option α := none
  second : Bool := false
  nullnd : Bool := false

def St.cur {α : Type} (s : St α) : Option α := if s.second then s.b else s.a
def St.other {α : Type} (s : St α) : Option α := if s.second then s.a else s.b
def St.setCur {α : Type} (s : St α) (x : Option α) : St α := if s.second then { s with b := x } else { s with a := x }
def St.setOther {α : Type} (s : St α) (x : Option α) : St α := if s.second then { s with a := x } else { s with b := x }

def statM (c : Cbuf) : String := s!" | {c.size} {c.used} {linesUsed c} {reused c} {linesReused c}"
def statS (r : Spec.RFifo) : String :=
  s!" | {r.f.size} {r.f.q.length} {Spec.linesUsed r.f} {r.hist.length} {Spec.linesReused r}"

/-- the growth policy a model step runs under: a line annotated with the implementation's own
    answer (`<op ...> @ <impl-ret> <impl-size>`, the same annotation the spec run gets) makes the
    model FOLLOW the observed capacity of the buffer written to (`pinPolicy`: admissible for every
    observation, `Cbuf.pin_admissible`, so the theorems of Props/C13.lean cover the run); an
    inadmissible observation falls back to the policy of the code as it is and shows as a
    difference.  Without annotation: the policy of the code as it is. -/
def polFor (target : Cbuf) (ann : List String) : Policy :=
  match (ann.drop 1).head?.bind String.toNat? with
  | some sz => pinPolicy chunkPolicy (target.alloc - target.size) sz
  | none => chunkPolicy

def stepModel (st : St Cbuf) (line : String) : St Cbuf × String :=
  let ws0 := Driver.words line
  let ann := (ws0.dropWhile (· ≠ "@")).drop 1
  match ws0.takeWhile (· ≠ "@") with
  | ["reset"] => ({}, "ok")
  | ["eintr", _] => (st, "ok")      -- interrupted read()/write() calls are retried: no effect
  | ["errno", _] => (st, "ok")      -- which errno an exhausted source / sink fails with: no effect
  | ["sel", i] => ({ st with second := i = "1" }, "ok")
  | ["nullnd", i] => ({ st with nullnd := i = "1" }, "ok")
  | ["refused", k] =>
    match st.cur, k.toNat?.bind Refusal.ofNat? with
    | none, _ => (st, "no-cbuf")
    | _, none => (st, "bad-op")
    | some c, some k => let (o, c') := stepMRefused c k; (st.setCur (some c'), retDrop st.nullnd o ++ statM c')
  | ["create", mn, mx, smeta] =>
    match mn.toInt?, mx.toInt?, smeta.toNat? with
    | some mn, some mx, some smeta =>
      match create mn mx smeta with
      | some c => (st.setCur (some c), "ok" ++ statM c)
      | none => (st.setCur none, "null")
    | _, _, _ => (st, "bad-op")
  | [k, len] =>
    if k = "copy" ∨ k = "move" then
      match len.toInt?, st.cur, st.other with
      | some len, some src, some dst =>
        let op : Op2 := if k = "copy" then .copy false len else .move false len
        let (o, (src', dst')) := stepM2 (src, dst) op (polFor dst ann)
        ((st.setCur (some src')).setOther (some dst'), retDrop st.nullnd o ++ statM src' ++ statM dst')
      | none, _, _ => (st, "bad-op")
      | _, _, _ => (st, "no-cbuf")
    else
      match st.cur, parseOp [k, len] with
      | none, _ => (st, "no-cbuf")
      | _, none => (st, "bad-op")
      | some c, some (op, f) =>
        let (o, c') := stepMR c op (polFor c ann); (st.setCur (some c'), fmtOut f o st.nullnd ++ statM c')
  | ws =>
    match st.cur, parseOp ws with
    | none, _ => (st, "no-cbuf")
    | _, none => (st, "bad-op")
    | some c, some (op, f) =>
      let (o, c') := stepMR c op (polFor c ann); (st.setCur (some c'), fmtOut f o st.nullnd ++ statM c')

/-- spec lines are the op lines annotated by the harness run: `<op ...> @ <impl-ret> <impl-size>` -/
def stepSpec (st : St Spec.RFifo) (line : String) : St Spec.RFifo × String :=
  let ws := Driver.words line
  let ops := ws.takeWhile (· ≠ "@")
  let ann := (ws.dropWhile (· ≠ "@")).drop 1
  let taken : Int := (ann.head?.bind String.toInt?).getD 0
  let sz : Nat := ((ann.drop 1).head?.bind String.toNat?).getD 0
  match ops with
  | ["reset"] => ({}, "ok")
  | ["eintr", _] => (st, "ok")      -- EINTR is not an answer of any call: the property is unaffected
  | ["errno", _] => (st, "ok")      -- the property does not distinguish the errors of a descriptor
  | ["sel", i] => ({ st with second := i = "1" }, "ok")
  | ["nullnd", i] => ({ st with nullnd := i = "1" }, "ok")
  | ["refused", k] =>
    match st.cur, k.toNat?.bind Refusal.ofNat? with
    | none, _ => (st, "no-cbuf")
    | _, none => (st, "bad-op")
    | some r, some k => let (o, r') := stepSRefused r k; (st.setCur (some r'), retDrop st.nullnd o ++ statS r')
  | ["create", mn, mx, _] =>
    match mn.toInt?, mx.toInt? with
    | some mn, some mx =>
      match Spec.create mn mx with
      | some f =>
        (st.setCur (some { f := f, hist := [], wrapped := false }), "ok" ++ statS { f := f, hist := [], wrapped := false })
      | none => (st.setCur none, "null")
    | _, _ => (st, "bad-op")
  | [k, len] =>
    if k = "copy" ∨ k = "move" then
      match len.toInt?, st.cur, st.other with
      | some len, some src, some dst =>
        let op : Op2 := if k = "copy" then .copy false len else .move false len
        match stepS2 (src, dst) op taken sz with
        | some (o, (src', dst')) =>
          ((st.setCur (some src')).setOther (some dst'), retDrop st.nullnd o ++ statS src' ++ statS dst')
        | none => (st, "BAD-ANSWER")
      | none, _, _ => (st, "bad-op")
      | _, _, _ => (st, "no-cbuf")
    else
      match st.cur, parseOp [k, len] with
      | none, _ => (st, "no-cbuf")
      | _, none => (st, "bad-op")
      | some r, some (op, f) =>
        match stepSR r op taken sz with
        | some (o, r') => (st.setCur (some r'), fmtOut f o st.nullnd ++ statS r')
        | none => (st, "BAD-ANSWER")
  | ws =>
    match st.cur, parseOp ws with
    | none, _ => (st, "no-cbuf")
    | _, none => (st, "bad-op")
    | some r, some (op, f) =>
      match stepSR r op taken sz with
      | some (o, r') => (st.setCur (some r'), fmtOut f o st.nullnd ++ statS r')
      | none => (st, "BAD-ANSWER")

def main (args : List String) : IO UInt32 := do
  let stdin ← IO.getStdin
  match args with
  | ["model"] => Driver.forLines stdin ({} : St Cbuf) stepModel; return 0
  | ["spec"] => Driver.forLines stdin ({} : St Spec.RFifo) stepSpec; return 0
  | _ => IO.eprintln "usage: pdshmodel cbuf model|spec"; return 2

end Driver.CbufDrv
