import PdshVerif.Base.Hex
import PdshVerif.Cbuf.Model
import PdshVerif.Cbuf.Spec
import Driver.Util

/-! line protocol of the cbuf engine: the same op lines drive the index model and the FIFO spec -/
namespace Driver.CbufDrv
open PdshVerif PdshVerif.Cbuf

def optHex : Option (List UInt8) → String
  | none => "~"
  | some bs => Hex.encode bs

def stepModel (st : Option Cbuf) (line : String) : Option Cbuf × String :=
  let stat (c : Cbuf) : String := s!" | {c.size} {c.used} {linesUsed c}"
  match Driver.words line, st with
  | ["create", mn, mx, smeta], _ =>
    match mn.toInt?, mx.toInt?, smeta.toNat? with
    | some mn, some mx, some smeta =>
      match create mn mx smeta with
      | some c => (some c, "ok" ++ stat c)
      | none => (none, "null")
    | _, _, _ => (st, "bad-op")
  | _, none => (none, "no-cbuf")
  | ["opt", v], some c =>
    match v.toNat? with
    | some v => let (r, c') := optSet c v; (some c', s!"{r}" ++ stat c')
    | none => (st, "bad-op")
  | ["write", hx], some c =>
    match Hex.decode hx with
    | some bs => let (r, d, c') := write c bs; (some c', s!"{r} {d}" ++ stat c')
    | none => (st, "bad-op")
  | ["wfd", len, hx, eof], some c =>
    match len.toInt?, Hex.decode hx with
    | some len, some bs =>
      let (r, d, c') := writeFromFd c len bs (eof = "1"); (some c', s!"{r} {d}" ++ stat c')
    | _, _ => (st, "bad-op")
  | ["wline", hx], some c =>
    match Hex.decode hx with
    | some bs => let (r, d, c') := writeLine c bs; (some c', s!"{r} {d}" ++ stat c')
    | none => (st, "bad-op")
  | ["read", len], some c =>
    match len.toInt? with
    | some len => let (r, bs, c') := read c len; (some c', s!"{r} {Hex.encode bs}" ++ stat c')
    | none => (st, "bad-op")
  | ["rfd", len], some c =>
    match len.toInt? with
    | some len =>
      if len < -1 then (st, "-1 -" ++ stat c)
      else
        let (r, bs, c') := read c (if len = -1 then c.used else len)
        (some c', s!"{r} {Hex.encode bs}" ++ stat c')
    | none => (st, "bad-op")
  | ["peek", len], some c =>
    match len.toInt? with
    | some len => let (r, bs) := peek c len; (st, s!"{r} {Hex.encode bs}" ++ stat c)
    | none => (st, "bad-op")
  | ["drop", len], some c =>
    match len.toInt? with
    | some len => let (r, c') := drop c len; (some c', s!"{r}" ++ stat c')
    | none => (st, "bad-op")
  | ["rline", len, lines], some c =>
    match len.toInt?, lines.toInt? with
    | some len, some lines =>
      let (r, o, c') := readLine c len lines; (some c', s!"{r} {optHex o}" ++ stat c')
    | _, _ => (st, "bad-op")
  | ["pline", len, lines], some c =>
    match len.toInt?, lines.toInt? with
    | some len, some lines =>
      let (r, o) := peekLine c len lines; (st, s!"{r} {optHex o}" ++ stat c)
    | _, _ => (st, "bad-op")
  | ["dline", len, lines], some c =>
    match len.toInt?, lines.toInt? with
    | some len, some lines => let (r, c') := dropLine c len lines; (some c', s!"{r}" ++ stat c')
    | _, _ => (st, "bad-op")
  | ["flush"], some c => let c' := flush c; (some c', "ok" ++ stat c')
  | _, _ => (st, "bad-op")

/-- spec lines are the op lines annotated by the harness run: `<op ...> @ <impl-ret> <impl-size>` -/
def stepSpec (st : Option Spec.Fifo) (line : String) : Option Spec.Fifo × String :=
  let stat (f : Spec.Fifo) : String := s!" | {f.size} {f.q.length} {Spec.linesUsed f}"
  let ws := Driver.words line
  let ops := ws.takeWhile (· ≠ "@")
  let ann := (ws.dropWhile (· ≠ "@")).drop 1
  let taken : Int := (ann.head?.bind String.toInt?).getD 0
  let sz : Nat := ((ann.drop 1).head?.bind String.toNat?).getD 0
  let wr (r : Option (Int × Nat × Spec.Fifo)) : Option Spec.Fifo × String :=
    match r with
    | some (r, d, f') => (some f', s!"{r} {d}" ++ stat f')
    | none => (st, "BAD-ANSWER")
  match ops, st with
  | ["create", mn, mx, _], _ =>
    match mn.toInt?, mx.toInt? with
    | some mn, some mx =>
      match Spec.create mn mx with
      | some c => (some c, "ok" ++ stat c)
      | none => (none, "null")
    | _, _ => (st, "bad-op")
  | _, none => (none, "no-cbuf")
  | ["opt", v], some f =>
    match v.toNat? with
    | some v => let (r, f') := Spec.optSet f v; (some f', s!"{r}" ++ stat f')
    | none => (st, "bad-op")
  | ["write", hx], some f =>
    match Hex.decode hx with
    | some bs => wr (Spec.write f bs sz)
    | none => (st, "bad-op")
  | ["wfd", len, hx, eof], some f =>
    match len.toInt?, Hex.decode hx with
    | some len, some bs => wr (Spec.writeFromFd f len bs (eof = "1") taken sz)
    | _, _ => (st, "bad-op")
  | ["wline", hx], some f =>
    match Hex.decode hx with
    | some bs => wr (Spec.writeLine f bs sz)
    | none => (st, "bad-op")
  | ["read", len], some f =>
    match len.toInt? with
    | some len => let (r, bs, f') := Spec.read f len; (some f', s!"{r} {Hex.encode bs}" ++ stat f')
    | none => (st, "bad-op")
  | ["rfd", len], some f =>
    match len.toInt? with
    | some len =>
      if len < -1 then (st, "-1 -" ++ stat f)
      else
        let (r, bs, f') := Spec.read f (if len = -1 then f.q.length else len)
        (some f', s!"{r} {Hex.encode bs}" ++ stat f')
    | none => (st, "bad-op")
  | ["peek", len], some f =>
    match len.toInt? with
    | some len => let (r, bs) := Spec.peek f len; (st, s!"{r} {Hex.encode bs}" ++ stat f)
    | none => (st, "bad-op")
  | ["drop", len], some f =>
    match len.toInt? with
    | some len => let (r, f') := Spec.drop f len; (some f', s!"{r}" ++ stat f')
    | none => (st, "bad-op")
  | ["rline", len, lines], some f =>
    match len.toInt?, lines.toInt? with
    | some len, some lines =>
      let (r, o, f') := Spec.readLine f len lines; (some f', s!"{r} {optHex o}" ++ stat f')
    | _, _ => (st, "bad-op")
  | ["pline", len, lines], some f =>
    match len.toInt?, lines.toInt? with
    | some len, some lines =>
      let (r, o) := Spec.peekLine f len lines; (st, s!"{r} {optHex o}" ++ stat f)
    | _, _ => (st, "bad-op")
  | ["dline", len, lines], some f =>
    match len.toInt?, lines.toInt? with
    | some len, some lines => let (r, f') := Spec.dropLine f len lines; (some f', s!"{r}" ++ stat f')
    | _, _ => (st, "bad-op")
  | ["flush"], some f => let f' := Spec.flush f; (some f', "ok" ++ stat f')
  | _, _ => (st, "bad-op")

def main (args : List String) : IO UInt32 := do
  let stdin ← IO.getStdin
  match args with
  | ["model"] => Driver.forLines stdin (none : Option Cbuf) stepModel; return 0
  | ["spec"] => Driver.forLines stdin (none : Option Spec.Fifo) stepSpec; return 0
  | _ => IO.eprintln "usage: pdshmodel cbuf model|spec"; return 2

end Driver.CbufDrv
