import PdshVerif.Dsh.Timed
import PdshVerif.Dsh.TimedK
import Driver.Util

/-! engine `timed`: trace acceptor for the C07 runs of the `sched` harness (virtual clock, scripted
    hosts, watchdog).  Times are seconds since the start of the run.

    init <if|while> <f> <ct> <ut> <sopt> <selfcheck> <stopwdog> [<killafter>]   start a new trace -> ok
                                              (killafter = 1: the model variant `Cfg.killAfter`, the repair of
                                              F07-TEARDOWN-WAIT (a): grace wait + SIGKILL before rcmd_destroy)
    host <ok|refuse|hang> <d> <out> <err> [<life|-> <grace|->]
                                              one target's script, in target order; a stream is `-` or
                                              a comma list of <t|->:<dN|e|x>  (data N bytes, eof, error);
                                              life = the command exits by itself that many seconds after
                                              the connect (- = never), grace = it is gone that many seconds
                                              after a SIGTERM (- = it ignores SIGTERM); default 0 0  -> ok
    kopt <0|1>                                -k (kill_on_fail); default 0                        -> ok
    nz                                        the remote command of the host just given exits non-zero -> ok
    go                                        all hosts given                                    -> ok
    st <tc> <R> <P> <X> <now>                 harness state before a step                        -> ok | reject ..
    ev D .. | ev W<i> <fan op> | ev W<i> wake | ev G scan <hit targets|-> | ev tick              -> ok | reject ..
    ev W<i> destroyEnd <reaped|eintr>         rcmd_destroy returned with the command gone and reaped, resp.
                                              its wait was interrupted (command given up un-reaped)     -> ok | reject ..
    obs <i> <outgot> <errgot> <outclosed> <errclosed> <res|?>   what the harness saw of target i -> ok | reject ..
    ev W<i> abort                             -k: the worker of a failed target forwards SIGTERM and exits  -> ok | reject ..
    end <ok|deadlock|exit|other>              exit: with -k the model must have exited as well
    The transition function is `PdshVerif.Dsh.TimedK.step` = `PdshVerif.Dsh.Timed.step` (over `FanG.step`) plus
    the -k exit, the functions the theorems of Props/C07.lean are about. -/
namespace Driver.TimedDrv
open PdshVerif.Dsh PdshVerif.Dsh.Timed

structure Acc where
  st : Option St := none
  dead : Bool := false
  v : FanG.Variant := .whileWait
  f : Nat := 1
  cfg : Cfg := { ct := 0, ut := 0, sopt := false, selfCheck := false, stopWdog := false }
  scripts : List Script := []
  k : Bool := false
  nz : List Bool := []
  exited : Bool := false

/-- the -k system around the timed state -/
def Acc.kst (a : Acc) (s : St) : TimedK.St := { t := s, k := a.k, nz := a.nz, exited := a.exited }

def names (t : String) : List String := if t = "-" then [] else t.splitOn ","

def parseItem (t : String) : Option Item :=
  match t.splitOn ":" with
  | [a, k] =>
    let tm : Option (Option Nat) := if a = "-" then some none else a.toNat?.map some
    let kd : Option Kind :=
      if k = "e" then some .eof else if k = "x" then some .err
      else if k.startsWith "d" then (k.drop 1).toNat?.map .data else none
    match tm, kd with
    | some tm, some kd => some { t := tm, kind := kd }
    | _, _ => none
  | _ => none

def parseItems (t : String) : Option (List Item) := (names t).mapM parseItem

/-- `unlock` / `signal` / `broadcast` of a worker: the label is chosen by `pickObserved` (what the call DOES in the
    state it is made in: an unlock before the wake-up call is `unlockFirst`, a wake-up call after the unlock is
    `signalAfter`; signal and broadcast are the same transition, the dispatcher being the only waiter) -/
def altLabel : FanG.Label → Option FanG.Label
  | .w i .signal => some (.w i .signalAfter)
  | .w i .unlock => some (.w i .unlockFirst)
  | _ => none

def pickObserved (f : FanG.St) (l : FanG.Label) : FanG.Label :=
  if (FanG.step f l).isSome then l
  else match altLabel l with
    | some l' => if (FanG.step f l').isSome then l' else l
    | none => l

def parseFanLabel : List String → Option FanG.Label
  | ["D", "lock"] => some (.d .lock)
  | ["D", "wait"] => some (.d .wait)
  | ["D", "wake", "0"] => some (.d (.wake false))
  | ["D", "wake", "1"] => some (.d (.wake true))
  | ["D", "relock"] => some (.d .relock)
  | ["D", "create", j] => j.toNat?.map fun j => .d (.create j)
  | ["D", "unlock"] => some (.d .unlock)
  | ["D", "return"] => some (.d .ret)
  | [t, a] =>
    if t.startsWith "W" then
      match (t.drop 1).toNat? with
      | none => none
      | some i =>
        match a with
        | "connectBegin" => some (.w i .connectBegin)
        | "connectEnd" => some (.w i .connectEnd)
        | "destroyBegin" => some (.w i .destroyBegin)
        | "destroyEnd" => some (.w i .destroyEnd)
        | "lock" => some (.w i .lock)
        | "signal" | "broadcast" => some (.w i .signal)
        | "unlock" => some (.w i .unlock)
        | _ => none
    else none
  | _ => none

def showPhase : Phase → String
  | .new => "new" | .rcmd => "rcmd" | .connecting => "connecting" | .reading => "reading" | .finished => "finished"
def showRes : Res → String
  | .none => "none" | .done => "done" | .connFailed => "connFailed" | .connTimedOut => "connTimedOut"
  | .cmdTimedOut => "cmdTimedOut"
def showHost (h : Host) : String :=
  let d := match h.death with
    | none => "never"
    | some d => toString d
  s!"{showPhase h.ph}/{showRes h.res}/s{h.start}/c{h.conn}/i{h.intr}/o{h.out.got}{if h.out.closed then "c" else ""}/e{h.err.got}{if h.err.closed then "c" else ""}/death={d}{if h.reaped then "/reaped" else ""}{if h.hold > 0 then s!"/hold={h.hold}" else ""}"
def showSt (s : St) : String :=
  s!"now={s.now} wake={s.wake} tc={s.fan.tc} i={s.fan.i} hosts={" ".intercalate (s.hs.map showHost)}"

def enabledNames (s : St) : List String :=
  (if dEnabled s then ["D"] else []) ++ (if gEnabled s then ["G"] else []) ++
  ((List.range s.hs.length).filter (wEnabled s)).map fun i => s!"W{i}"

def checkSt (s : St) (tc r p x now : String) : Option String :=
  let en := enabledNames s
  let rs := (names r).filter fun n => n = "D" || n = "G" || n.startsWith "W"
  let xs := names x
  let ps := names p
  if tc.toNat? ≠ some s.fan.tc then some s!"threadcount impl={tc} model={s.fan.tc}"
  else if now.toNat? ≠ some s.now then some s!"clock impl={now} model={s.now}"
  else
    match rs.find? (fun n => !en.contains n) with
    | some n => some s!"runnable in the implementation but not enabled in the model: {n} ({showSt s})"
    | none =>
      match en.find? (fun n => !rs.contains n && !xs.contains n) with
      | some n => some s!"enabled in the model but not runnable in the implementation: {n} ({showSt s})"
      | none =>
        if spuriousEnabled s != ps.contains "D" then
          some s!"spurious wake-up of D: model={spuriousEnabled s} impl={ps.contains "D"}"
        else none

def hits (s : St) : List Nat := (List.range s.hs.length).filter fun i => killed s.cfg s.now (s.host i)

def parseEv (s : St) : List String → Except String Label
  | ["tick"] => .ok .tick
  | ["G", "scan", hs] =>
    let want := (names hs).filterMap fun n => n.toNat?
    if want = hits s then .ok .scan else .error s!"watchdog hits impl={hs} model={hits s}"
  | [t, "wake"] =>
    if t.startsWith "W" then
      match (t.drop 1).toNat? with
      | some i => .ok (.wake i)
      | none => .error "bad thread"
    else .error "bad thread"
  | ws =>
    match parseFanLabel ws with
    | some l => .ok (.fan (pickObserved s.fan l))
    | none => .error ("unknown event " ++ " ".intercalate ws)

def parseOptNat (t : String) : Option (Option Nat) := if t = "-" then some none else t.toNat?.map some

def addHost (a : Acc) (k d o e life grace : String) : Acc × String :=
  match d.toNat?, parseItems o, parseItems e, parseOptNat life, parseOptNat grace with
  | some d, some o, some e, some life, some grace =>
    let c : Conn := if k = "ok" then .ok d else if k = "refuse" then .refuse d else .hang
    ({ a with scripts := a.scripts ++ [{ conn := c, out := o, err := e, life := life, grace := grace }] }, "ok")
  | _, _, _, _, _ => (a, "bad-line")

/-- `W<i> destroyEnd <reaped|eintr>`: the worker and what the implementation saw -/
def destroyWant : List String → Option (List String × Nat × Bool)
  | [t, "destroyEnd", r] =>
    if t.startsWith "W" then (t.drop 1).toNat?.map fun i => ([t, "destroyEnd"], i, r = "reaped") else none
  | _ => none

def stepLine (a : Acc) (line : String) : Acc × String :=
  match Driver.words line with
  | ["init", v, f, ct, ut, sopt, sc, sw] =>
    match f.toNat?, ct.toNat?, ut.toNat? with
    | some f, some ct, some ut =>
      ({ st := none, dead := false, v := if v = "if" then .ifWait else .whileWait, f := f,
         cfg := { ct := ct, ut := ut, sopt := sopt = "1", selfCheck := sc = "1", stopWdog := sw = "1" }, scripts := [],
         k := false, nz := [], exited := false }, "ok")
    | _, _, _ => (a, "bad-line")
  | ["init", v, f, ct, ut, sopt, sc, sw, ka] =>
    match f.toNat?, ct.toNat?, ut.toNat? with
    | some f, some ct, some ut =>
      ({ st := none, dead := false, v := if v = "if" then .ifWait else .whileWait, f := f,
         cfg := { ct := ct, ut := ut, sopt := sopt = "1", selfCheck := sc = "1", stopWdog := sw = "1",
                  killAfter := ka = "1" }, scripts := [],
         k := false, nz := [], exited := false }, "ok")
    | _, _, _ => (a, "bad-line")
  | ["host", k, d, o, e] => addHost a k d o e "0" "0"
  | ["host", k, d, o, e, life, grace] => addHost a k d o e life grace
  | ["kopt", k] => ({ a with k := k = "1" }, "ok")
  | ["nz"] => ({ a with nz := (a.nz ++ List.replicate (a.scripts.length - 1 - a.nz.length) false) ++ [true] }, "ok")
  | ["go"] => ({ a with st := some (init a.v a.f a.cfg a.scripts) }, "ok")
  | ["ev", w, "abort"] =>
    if a.dead then (a, "skip") else
    match a.st, (if w.startsWith "W" then (w.drop 1).toNat? else none) with
    | some s, some i =>
      match TimedK.step (a.kst s) (.abort i) with
      | some ks => ({ a with st := some ks.t, exited := ks.exited }, "ok")
      | none => ({ a with dead := true }, s!"reject -k exit by worker {i} not enabled in the model ({showSt s})")
    | _, _ => (a, "bad-line")
  | "st" :: rest =>
    if a.dead then (a, "skip") else
    match a.st, rest with
    | some s, [tc, r, p, x, now] =>
      match checkSt s tc r p x now with
      | none => (a, "ok")
      | some why => ({ a with dead := true }, "reject " ++ why)
    | _, _ => (a, "bad-line")
  | "ev" :: rest =>
    if a.dead then (a, "skip") else
    match a.st with
    | some s =>
      let (rest, want) := match destroyWant rest with
        | some (r, i, b) => (r, some (i, b))
        | none => (rest, none)
      match parseEv s rest with
      | .error why => ({ a with dead := true }, "reject " ++ why)
      | .ok l =>
        match (TimedK.step (a.kst s) (.t l)).map (·.t) with
        | some s' =>
          match want with
          | some (i, b) =>
            if (s'.host i).reaped = b then ({ a with st := some s' }, "ok")
            else ({ a with dead := true },
                  s!"reject teardown of target {i}: implementation {if b then "reaped the command" else "gave the command up un-reaped (EINTR)"}, model {showHost (s'.host i)} ({showSt s})")
          | none => ({ a with st := some s' }, "ok")
        | none => ({ a with dead := true }, s!"reject not enabled in the model: {" ".intercalate rest} ({showSt s})")
    | none => (a, "bad-line")
  | ["obs", i, og, eg, oc, ec, res] =>
    if a.dead then (a, "skip") else
    match a.st, i.toNat? with
    | some s, some i =>
      let h := s.host i
      let bad :=
        og.toNat? ≠ some h.out.got || (s.cfg.sopt && eg.toNat? ≠ some h.err.got) ||
        (oc = "1") != h.out.closed || (s.cfg.sopt && (ec = "1") != h.err.closed) ||
        (res ≠ "?" && res ≠ showRes h.res)
      if bad then ({ a with dead := true }, s!"reject target {i}: impl out={og}/{oc} err={eg}/{ec} res={res}, model {showHost h}")
      else (a, "ok")
    | _, _ => (a, "bad-line")
  | ["end", status] =>
    if a.dead then (a, "skip") else
    match a.st with
    | some s =>
      if status = "ok" then
        if s.fan.dpc = .returned then (a, "ok") else (a, s!"reject run ended but the model is not final ({showSt s})")
      else if status = "deadlock" then
        if enabledNames s = [] then (a, "ok") else (a, s!"reject implementation stuck, model has enabled {enabledNames s}")
      else if status = "exit" && a.k then
        if a.exited then (a, "ok") else (a, s!"reject pdsh exited but the model has not ({showSt s})")
      else (a, "ok")
    | none => (a, "bad-line")
  | _ => (a, "bad-line")

def main (_args : List String) : IO UInt32 := do
  let stdin ← IO.getStdin
  Driver.forLines stdin ({} : Acc) stepLine
  return 0

end Driver.TimedDrv
