import Std.Data.HashMap
import PdshVerif.Base.Hex
import PdshVerif.Opt.ExcludeFast
import PdshVerif.Opt.ExcludeSpec
import PdshVerif.Hostlist.Probed
import Driver.Util

/-! C02 sub-engines of `hl`: `pdshmodel hl xcl` (model of pdsh's exclusion / filter path) and
    `pdshmodel hl xspec` (the specification).  One case = the lines up to `end`:
      d2 0|1                       D2 switch as probed on the real pdsh by the check
      br2 0|1                      F02-2BR switch, probed the same way
      env NAME                     the WCOLL environment variable names this file
      file NAME EXPR…              a readable ^file and the expressions it holds
      re PAT HOST 0|1              regex oracle table (libc regcomp/regexec)
      badre PAT                    regcomp refuses PAT
      w OPTARG | x OPTARG          the options, in command-line order        (model)
      item tgt|xcl|tfile|xfile|keep|drop TEXT                                  (spec)
    every field hex; answers `.` for the lines of a case and the result at `end`. -/
namespace Driver.HlXcl
open PdshVerif PdshVerif.Hostlist PdshVerif.Opt

structure Acc where
  d2 : Bool := false
  br2 : Bool := false
  wenv : Option Str := none
  files : List (Str × List Str) := []
  tab : Std.HashMap (String × String) Bool := {}
  bad : List Str := []
  evs : List Exclude.Ev := []
  items : List ExcludeSpec.Item := []
  err : Bool := false

def namesField (xs : List Str) : String :=
  s!"{xs.length}:" ++ ",".intercalate (xs.map Hex.encodeChars)

def lookupTab (a : Acc) (p h : Str) : Option Bool := a.tab.get? (String.ofList p, String.ofList h)

def resString : Exclude.Res → String
  | .ok hs => "ok " ++ namesField hs
  | .nohosts => "nohosts"
  | .fatal w => "fatal:" ++ w.replace " " "_"
  | .diverge => "diverge"
  | .ub w => "ub:" ++ w.replace " " "_"
  | .tablemiss p h => s!"tablemiss {Hex.encodeChars p} {Hex.encodeChars h}"

/-- a hex field; `-` is the empty text -/
def dec (s : String) : Option Str := if s = "-" then some [] else Hex.decodeToChars s

def decodeAll (xs : List String) : Option (List Str) := xs.mapM dec

/-- lines common to both engines -/
def absorb (a : Acc) (ws : List String) : Option Acc :=
  match ws with
  | ["d2", v] => some { a with d2 := v == "1" }
  | ["br2", v] => some { a with br2 := v == "1" }
  | ["env", n] => (dec n).map fun n => { a with wenv := some n }
  | "file" :: name :: exprs =>
    match dec name, decodeAll exprs with
    | some n, some es => some { a with files := a.files ++ [(n, es)] }
    | _, _ => none
  | ["re", p, h, v] =>
    match dec p, dec h with
    | some p, some h => some { a with tab := a.tab.insert (String.ofList p, String.ofList h) (v == "1") }
    | _, _ => none
  | ["badre", p] => (dec p).map fun p => { a with bad := p :: a.bad }
  | ["w", o] => (dec o).map fun o => { a with evs := .w o :: a.evs }
  | ["x", o] => (dec o).map fun o => { a with evs := .x o :: a.evs }
  | ["item", k, t] =>
    match dec t with
    | some t =>
      (match k with
       | "tgt" => some (ExcludeSpec.Item.tgt t) | "xcl" => some (.xcl t) | "tfile" => some (.tfile t)
       | "xfile" => some (.xfile t) | "keep" => some (.keep t) | "drop" => some (.drop t)
       | _ => none).map fun it => { a with items := it :: a.items }
    | none => none
  | _ => none

def stepModel (a : Acc) (line : String) : Acc × String :=
  match Driver.words line with
  | ["end"] =>
    if a.err then ({}, "bad-case")
    else
      let cfg : Cfg := { Cfg.probed with fixPushLoop := a.d2, fix2Br := a.br2 }
      let env : Exclude.Env := { files := a.files, rematch := lookupTab a, badre := fun p => a.bad.contains p }
      -- `cliFinalWF` = `cliFinalW` (Opt/ExcludeFast.lean `cliFinalWF_eq`), linear in the size of the files
      ({}, resString (Exclude.cliFinalWF cfg env a.wenv a.evs.reverse))
  | ["cfg"] => (a, Cfg.probed.describe)
  | ws =>
    match absorb a ws with
    | some a' => (a', ".")
    | none => ({ a with err := true }, "bad-line")

def stepSpec (a : Acc) (line : String) : Acc × String :=
  match Driver.words line with
  | ["end"] =>
    if a.err then ({}, "bad-case")
    else
      let env : ExcludeSpec.Env := { files := a.files, rematch := lookupTab a }
      match ExcludeSpec.final env a.items.reverse with
      | .hosts hs => ({}, "ok " ++ namesField hs)
      | .outside w => ({}, "outside:" ++ w)
  | ws =>
    match absorb a ws with
    | some a' => (a', ".")
    | none => ({ a with err := true }, "bad-line")

end Driver.HlXcl
