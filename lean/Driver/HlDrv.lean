import PdshVerif.Base.Hex
import PdshVerif.Hostlist.Cli
import PdshVerif.Hostlist.CliRefuse
import PdshVerif.Hostlist.Probed
import PdshVerif.Hostlist.Spec
import Driver.Util
import Driver.HlEdit
import Driver.HlXcl

/-! line protocol of the `hl` engine (see harness/hl_harness.c for the format):
    `pdshmodel hl model`  — the executable model of hostlist.c / opt.c
    `pdshmodel hl spec`   — the independent string-level specification (C01 expansion, C15 classes) -/
namespace Driver.HlDrv
open PdshVerif PdshVerif.Hostlist

/-- the variant of the code probed from /repo on this run -/
def cfg : Cfg := Cfg.probed

def errnoClass (e : Nat) : String :=
  if e = 0 then "0" else if e = EINVAL then "EINVAL" else if e = ERANGE then "ERANGE" else s!"E{e}"

def fatalClass : Fatal → String
  | .none => "-"
  | .invalidRange => "invalid"
  | .tooMany => "toomany"

/-- `<k>[+]:<hex>,<hex>...` of the first `limit` names of `xs` (`xs` holds ≤ limit+1 names) -/
def namesField (xs : List Str) (limit : Nat) : String :=
  let shown := xs.take limit
  let more := if xs.length > limit then "+" else ""
  s!"{shown.length}{more}:" ++ ",".intercalate (shown.map Hex.encodeChars)

def probeAnswer (s : Str) (limit : Nat) : String :=
  match create cfg s with
  | .null e f => s!"null:{errnoClass e}:{fatalClass f}"
  | .ub w => "ub:" ++ (w.replace " " "_")
  | .diverge => "diverge"
  | .ok h =>
    let a := namesField (iterAll cfg h (limit + 1)) limit
    match shiftAll h (limit + 1) with
    | none => "ub:shift_no_range_record"
    | some sh =>
      let b := namesField sh limit
      s!"ok | {h.count} {h.nranges} | {a} | " ++ (if a = b then "=" else b)

def optName : Option Str → String
  | none => "null"
  | some x => Hex.encodeChars x

def dumpField (h : HL) : String :=
  s!"{h.nhosts} {h.nranges}" ++ String.join (h.ranges.toList.map fun r =>
    s!" {Hex.encodeChars r.pre}:{r.lo}:{r.hi}:{r.width}:{if r.single then 1 else 0}")

def cliAnswer (s : Str) (limit : Nat) : String :=
  match cliTargets cfg s with
  | .null _ f => s!"fatal:{fatalClass f}"
  | .ub w => "ub:" ++ (w.replace " " "_")
  | .diverge => "diverge"
  | .ok none => "unsupported"
  | .ok (some h) =>
    -- what `-Q` lists (hostlist_deranged_string prints every name in full, like hostlist_shift; the
    -- printing functions themselves are C14's model) and what dsh() walks (hostlist_next)
    match shiftAll h (limit + 1) with
    | none => "ub:shift_no_range_record"
    | some sh =>
      let a := namesField sh limit
      let b := namesField (iterAll cfg h (limit + 1)) limit
      s!"ok | {h.count} | {a} | " ++ (if a = b then "=" else b)

/-- `-w ARG` through the REPAIRED opt.c (d1c94df: a word that yields nothing is refused, quoted):
    `badword:<hex of the quoted word>`; otherwise the answer format of `cliAnswer` -/
def cliAnswerR (s : Str) (limit : Nat) : String :=
  match cliTargetsR cfg s with
  | .refused w => "badword:" ++ Hex.encodeChars w
  | .fatal _ f => s!"fatal:{fatalClass f}"
  | .ub w => "ub:" ++ (w.replace " " "_")
  | .diverge => "diverge"
  | .unsupported => "unsupported"
  | .targets h =>
    match shiftAll h (limit + 1) with
    | none => "ub:shift_no_range_record"
    | some sh =>
      let a := namesField sh limit
      let b := namesField (iterAll cfg h (limit + 1)) limit
      s!"ok | {h.count} | {a} | " ++ (if a = b then "=" else b)

def stepModel (st : Option HL) (line : String) : Option HL × String :=
  match Driver.words line, st with
  | ["probe", hx, lim], _ | ["fprobe", hx, lim], _ | ["fprobe", hx, lim, _], _ =>
    match Hex.decodeToChars hx, lim.toNat? with
    | some s, some l => (st, probeAnswer s l)
    | _, _ => (st, "bad-op")
  | ["cli", hx, lim], _ =>
    match Hex.decodeToChars hx, lim.toNat? with
    | some s, some l => (st, cliAnswer s l)
    | _, _ => (st, "bad-op")
  | ["clir", hx, lim], _ =>
    match Hex.decodeToChars hx, lim.toNat? with
    | some s, some l => (st, cliAnswerR s l)
    | _, _ => (st, "bad-op")
  | ["create", hx], _ =>
    match Hex.decodeToChars hx with
    | some s =>
      match create cfg s with
      | .ok h => (some h, s!"ok {h.count} {h.nranges}")
      | .null e f => (none, s!"null {errnoClass e} {fatalClass f}")
      | .ub w => (none, "ub:" ++ (w.replace " " "_"))
      | .diverge => (none, "diverge")
    | none => (st, "bad-op")
  | ["new"], _ => (some HL.new, "ok 0 0")
  | ["cfg"], _ => (st, cfg.describe)
  | _, none => (none, "no-list")
  | ["count"], some h => (st, s!"{h.count}")
  | ["nranges"], some h => (st, s!"{h.nranges}")
  | ["dump"], some h => (st, dumpField h)
  | ["hosts", lim], some h =>
    match lim.toNat? with
    | some l => (st, namesField (iterAll cfg h (l + 1)) l)
    | none => (st, "bad-op")
  | ["shift"], some h =>
    if shiftCrashes h then (st, "ub:shift_no_range_record")
    else match shift h with
      | (x, h') => (some h', optName x)
  | ["nth", n], some h =>
    match n.toNat? with
    | some n =>
      match nth cfg h n with
      | none => (st, "null")
      | some none => (st, "ub:nth_buf")
      | some (some x) => (st, Hex.encodeChars x)
    | none => (st, "bad-op")
  | _, _ => (st, "unsupported")

def stepSpec (_ : Unit) (line : String) : Unit × String :=
  match Driver.words line with
  | ["classify", hx, lim] =>
    match Hex.decodeToChars hx, lim.toNat? with
    | some s, some l => ((), Spec.answer s l)
    | _, _ => ((), "bad-op")
  | _ => ((), "bad-op")

def main (args : List String) : IO UInt32 := do
  let stdin ← IO.getStdin
  match args with
  | ["model"] => Driver.forLines stdin (none : Option HL) stepModel; return 0
  | ["spec"] => Driver.forLines stdin () stepSpec; return 0
  | ["edit"] => Driver.forLines stdin (Driver.HlEdit.St.none) Driver.HlEdit.stepEdit; return 0
  | ["plspec"] => Driver.forLines stdin (none : Option EditSpec.PL) Driver.HlEdit.stepPL; return 0
  | ["xcl"] => Driver.forLines stdin ({} : Driver.HlXcl.Acc) Driver.HlXcl.stepModel; return 0
  | ["xspec"] => Driver.forLines stdin ({} : Driver.HlXcl.Acc) Driver.HlXcl.stepSpec; return 0
  | _ => IO.eprintln "usage: pdshmodel hl model|spec|edit|plspec|xcl|xspec"; return 2

end Driver.HlDrv
