import PdshVerif.Base.Hex
import PdshVerif.Dshbak.Model
import PdshVerif.Dshbak.Spec
import PdshVerif.Dshbak.Options
import PdshVerif.Dshbak.DirTree
import Driver.Util

/-! line protocol of the dshbak engine

`pdshmodel dshbak model`: one case per line `MODE REPAIRED LIMIT HEXINPUT`
  MODE n (report / -d: one block per tag) or c (-c: coalesced), REPAIRED = bit 0: D21 patch applied,
  bit 1: F19-EMPTYSTEM patch applied, LIMIT = L or L/R: L = 0 or the range limit of the F19-LONGRUN patch, R = 0 or the elements-per-
  bracket limit of the F19-MANYRANGES patch (all probed
  on the real script by the check),
  HEXINPUT the bytes of stdin.  Answer: blocks separated by `;` (`.` when there is none)
  n:  HEX(tag)=HEX(line),HEX(line)...
  c:  HEX(suffix group text),...=HEX(tag),...=HEX(line),...=HEX(denoted host),...
`pdshmodel dshbak spec`: `MODE RECORDS | BLOCKS`
  RECORDS = HEX(tag):HEX(body),... (the labelled lines the generator wrote, in input order)
  BLOCKS  n: HEX(tag)=HEX(line),...;...      c: HEX(host),...=HEX(line),...;...
          (c: the hosts are what the real pdsh expanded the real header to)
  Answer `ok` or `bad <reason>`.
-/
namespace Driver.DshbakDrv
open PdshVerif PdshVerif.Dshbak

def hx (s : Str) : String := Hex.encodeChars s
def hxs (l : List Str) : String := if l.isEmpty then "~" else ",".intercalate (l.map hx)

def unhx (s : String) : Option Str := Hex.decodeToChars s
def unhxs (s : String) : Option (List Str) :=
  if s = "~" then some [] else (s.splitOn ",").mapM unhx

def semis (l : List String) : String := if l.isEmpty then "." else ";".intercalate l

/-- `LIMIT` or `LIMIT/MAXRANGES` (0 = the repair is absent) -/
def parseLimits (s : String) : Option Nat × Option Nat :=
  let opt (x : String) : Option Nat := match x.toNat? with | some 0 => none | some m => some m | none => none
  match s.splitOn "/" with
  | [a, b] => (opt a, opt b)
  | [a] => (opt a, none)
  | _ => (none, none)

def runModel (line : String) : String :=
  match Driver.words line with
  | [mode, rep, slimmr, hxin] =>
    -- HEXINPUT: the bytes of stdin, or `HEX+HEX+...` = the FILE ARGUMENTS in order (`-` = an empty file)
    match (hxin.splitOn "+").mapM (fun x => if x = "-" then some [] else unhx x) with
    | none => "bad-op"
    | some files =>
      let flags := rep.toNat?.getD 0
      let (lim, mr) := parseLimits slimmr
      let m := processLines (flags % 2 = 1) (readFiles files)
      if mode = "n" then
        semis ((normalBlocks (keys m) m).map fun b => hx b.1 ++ "=" ++ hxs b.2)
      else if mode = "c" then
        semis ((coalesce (keys m) m).map fun b =>
          let gs := compressV lim mr (flags / 2 % 2 = 1) b.1
          hxs (gs.map fun g => renderHeader [g]) ++ "=" ++ hxs b.1 ++ "=" ++ hxs b.2 ++ "=" ++ hxs (hostsOf gs))
      else "bad-op"
  | _ => "bad-op"

/-- `h FLAGS LIMIT HEX(tag),...`: only `compress (sort (@tags))` — the header of one group (used for
very large groups, where the association lists of `process_lines` make the full model slow) -/
def runHeader (line : String) : Option String :=
  match Driver.words line with
  | ["h", rep, slimmr, tags] => do
    let tags ← unhxs tags
    let flags := rep.toNat?.getD 0
    let (lim, mr) := parseLimits slimmr
    let gs := compressV lim mr (flags / 2 % 2 = 1) (strSort tags)
    pure (hxs (gs.map fun g => renderHeader [g]) ++ "=" ++ toString (hostsOf gs).length)
  | _ => none

/-- `o FORM FLAGS D DIRSTATE`: the option block (`Dshbak/Options.lean` `plan`); FORM = `d` (`defined $opt_d`: the
script since /repo 8474bb4) or `t` (the truth test of the script before it, sent only when the probe finds it).  FLAGS = letters of c h f or
`-`, D = HEX(argument of -d) or `~` (no -d; `-` = the empty string), DIRSTATE = dir | missing | notdir.
`f HEX(tag),...`: `fileNameOK` of every tag, one digit each. -/
def runOpt (line : String) : Option String :=
  match Driver.words line with
  | ["o", fix, flags, d, ds] => do
    let dv : Option Str ← if d = "~" then some none else if d = "-" then some (some []) else (unhx d).map some
    let st : DirState ← match ds with
      | "dir" => some .dir | "missing" => some .missing | "notdir" => some .notDir | _ => none
    let o : Opts := { c := flags.contains 'c', h := flags.contains 'h', f := flags.contains 'f', d := dv }
    pure (match plan (fix = "t") o st with
      | .usage => "usage" | .fatal => "fatal" | .report => "report" | .coalesced => "coalesced"
      | .perFile false => "perfile0" | .perFile true => "perfile1")
  | ["f", tags] => do
    let tags ← unhxs tags
    pure (String.ofList (tags.map fun t => if fileNameOK t then '1' else '0'))
  | _ => none

def parseInit (s : String) : Option (List (Str × List Str)) :=
  if s = "." then some [] else
  (s.splitOn ";").mapM fun b =>
    match b.splitOn "=" with
    | [a, c] => do let a ← unhx a; let c ← unhxs c; pure (a, c)
    | _ => none

/-- `w REPAIRED HEX(DIR) HEX(cwd) HEX(dir node),... HEX(key),... HEXINPUT INIT`: `dshbak -d DIR` on a directory tree;
INIT = the files that exist beforehand, `HEX(node)=HEX(line),...;...` or `.`
(`Dshbak/DirTree.lean`): nodes are `/`-joined component paths from a virtual root, the keys are `keys %lines` in the
order the real perl yields them.  Answer: `ok|fatal` and the files afterwards, `HEX(node)=HEX(line),...;...` -/
def runTree (line : String) : Option String :=
  match Driver.words line with
  | ["w", rep, dir, cwd, dirs, ks, hxin, init] => do
    let before ← parseInit init
    let dir ← unhx dir
    let cwd ← unhx cwd
    let dirs ← unhxs dirs
    let ks ← unhxs ks
    let files ← (hxin.splitOn "+").mapM (fun x => if x = "-" then some [] else unhx x)
    let node (s : Str) : Node := if s.isEmpty then [] else splitSlash s
    let m := processLines (rep.toNat?.getD 0 % 2 = 1) (readFiles files)
    let r := runWrites (dirs.map node) (node cwd) (perFileWrites dir ks m) (before.map fun e => (node e.1, e.2))
    let showNode (n : Node) : String := hx (("/".toList).intercalate n)
    pure ((if r.2 then "ok " else "fatal ") ++ semis (r.1.map fun e => showNode e.1 ++ "=" ++ hxs e.2))
  | _ => none

def parseRecs (s : String) : Option (List (Str × Str)) :=
  if s = "~" then some [] else
  (s.splitOn ",").mapM fun r =>
    match r.splitOn ":" with
    | [a, b] => do let a ← unhx a; let b ← unhx b; pure (a, b)
    | _ => none

def parseBlocks (s : String) : Option (List (List Str × List Str)) :=
  if s = "." then some [] else
  (s.splitOn ";").mapM fun b =>
    match b.splitOn "=" with
    | [a, c] => do let a ← unhxs a; let c ← unhxs c; pure (a, c)
    | _ => none

def runSpec (line : String) : String :=
  match Driver.words line with
  | [mode, recs, "|", blocks] =>
    match parseRecs recs, parseBlocks blocks with
    | some recs, some blocks =>
      if mode = "n" then
        match blocks.mapM (fun b => match b.1 with | [t] => some (t, b.2) | _ => none) with
        | some bs => Spec.explainNormal recs bs
        | none => "bad-op"
      else if mode = "c" then Spec.explainCoalesced recs blocks
      else "bad-op"
    | _, _ => "bad-op"
  | _ => "bad-op"

def main (args : List String) : IO UInt32 := do
  let stdin ← IO.getStdin
  match args with
  | ["model"] => Driver.forLines stdin () (fun _ l => ((), (((runHeader l).orElse fun _ => runOpt l).orElse fun _ => runTree l).getD (runModel l))); return 0
  | ["spec"] => Driver.forLines stdin () (fun _ l => ((), runSpec l)); return 0
  | _ => IO.eprintln "usage: pdshmodel dshbak model|spec"; return 2

end Driver.DshbakDrv
