import PdshVerif.Base.Hex
import PdshVerif.Opt.Wcoll
import PdshVerif.Opt.WcollSpec
import PdshVerif.Opt.WcollTopFd
import Driver.Util

/-! line protocol of the wcoll engine (one case per line, fields separated by blanks, byte strings
in hex, `~` = absent / empty list)

`pdshmodel wcoll model`:
   MODE STDIN ENV NARGS ARG... NFILES (PATH R CONTENT)...
   MODE = F<size> (fgets with a buffer of <size> bytes, every piece parsed on its own), G<size> (the repaired
   reader as written: fgets pieces of a <size>-byte buffer glued until a newline) or W (whole lines); ARG = one -w optarg (HEX) or
   one -x optarg (X followed by HEX)
   `read_wcoll` closes the stream it opened (the code since /repo 8d15944); a MODE ending in `+leak`: the reader
   before that commit (F10-TOPFD), sent only when the check's probe finds that form in the tree under check
   answer: STATUS NWARN CREATED EXPRS EXCL OPENED TOPOPEN REGEX  (STATUS ok|fatal|starved; lists comma separated;
   TOPOPEN = streams `read_wcoll` itself left open, `Opt/WcollTopFd.lean`)
`pdshmodel wcoll spec`:
   STDIN ENV NSRC SRC... NFILES (PATH R CONTENT)...     SRC = w:HEX | f:HEX | s | x:HEX (exclusion file)
   answer: STATUS SKIPPED EXPRS EXCLUDED                 (STATUS ok|error)
-/
namespace Driver.WcollDrv
open PdshVerif PdshVerif.Opt

abbrev Str := List Char

def hx (s : Str) : String := Hex.encodeChars s
def hxs (l : List Str) : String := if l.isEmpty then "~" else ",".intercalate (l.map hx)
def unhx (s : String) : Option Str := Hex.decodeToChars s
/-- `regex_list`: `+HEX` (a positive pattern: keep the names that match) or `-HEX` (a pattern behind a dash: drop
them), comma separated -/
def hxr (l : List (Bool × Str)) : String :=
  if l.isEmpty then "~" else ",".intercalate (l.map fun p => (if p.1 then "-" else "+") ++ hx p.2)
def optStr (s : String) : Option (Option Str) := if s = "~" then some none else (unhx s).map some

def parseFiles : Nat → List String → Option (Wcoll.FS × List String)
  | 0, rest => some ([], rest)
  | n + 1, p :: r :: c :: rest => do
    let p ← unhx p
    let c ← unhx c
    let (fs, rest') ← parseFiles n rest
    pure (⟨p, r = "1", c⟩ :: fs, rest')
  | _, _ => none

def takeN : Nat → List String → Option (List String × List String)
  | 0, rest => some ([], rest)
  | n + 1, a :: rest => do let (l, r) ← takeN n rest; pure (a :: l, r)
  | _, [] => none

def runModel (line : String) : String :=
  match Driver.words line with
  | mode :: stdin :: env :: nargs :: rest =>
    let r : Option String := do
      let leak := mode.endsWith "+leak"
      let mode := if leak then (mode.dropRight 5) else mode
      let mode : Wcoll.LineMode ←
        if mode = "W" then some .whole
        else if mode.startsWith "F" then (mode.drop 1).toString.toNat?.map .fgets
        else if mode.startsWith "G" then (mode.drop 1).toString.toNat?.map .glued else none
      let stdin ← optStr stdin
      let env ← optStr env
      let nargs ← nargs.toNat?
      let (args, rest) ← takeN nargs rest
      let args ← args.mapM fun a : String =>
        if a.startsWith "X" then (unhx (a.drop 1).toString).map Wcoll.Opt.x else (unhx a).map Wcoll.Opt.w
      match rest with
      | nf :: rest =>
        let nf ← nf.toNat?
        let (fs, _) ← parseFiles nf rest
        let stT := Wcoll.assembleOptsT leak mode fs (stdin.getD []) args env
        let st := stT.1
        let status := if st.starved then "starved" else if st.fatal then "fatal" else "ok"
        pure s!"{status} {st.nwarn} {if st.created then 1 else 0} {hxs st.exprs} {hxs st.excl} {hxs st.opened.flatten} {stT.2} {hxr st.regex}"
      | [] => none
    r.getD "bad-op"
  | _ => "bad-op"

def parseSrc (s : String) : Option WcollSpec.Source :=
  if s = "s" then some .stdin
  else if s.startsWith "w:" then (unhx (s.drop 2).toString).map .word
  else if s.startsWith "f:" then (unhx (s.drop 2).toString).map .file
  else if s.startsWith "x:" then (unhx (s.drop 2).toString).map .xfile
  else none

def runSpec (line : String) : String :=
  match Driver.words line with
  | stdin :: env :: nsrc :: rest =>
    let r : Option String := do
      let stdin ← optStr stdin
      let env ← optStr env
      let nsrc ← nsrc.toNat?
      let (srcs, rest) ← takeN nsrc rest
      let srcs ← srcs.mapM parseSrc
      match rest with
      | nf :: rest =>
        let nf ← nf.toNat?
        let (fs, _) ← parseFiles nf rest
        let res := WcollSpec.assemble fs (stdin.getD []) srcs env
        pure s!"{if res.error then "error" else "ok"} {res.skipped} {hxs res.exprs} {hxs res.excluded}"
      | [] => none
    r.getD "bad-op"
  | _ => "bad-op"

def main (args : List String) : IO UInt32 := do
  let stdin ← IO.getStdin
  match args with
  | ["model"] => Driver.forLines stdin () (fun _ l => ((), runModel l)); return 0
  | ["spec"] => Driver.forLines stdin () (fun _ l => ((), runSpec l)); return 0
  | _ => IO.eprintln "usage: pdshmodel wcoll model|spec"; return 2

end Driver.WcollDrv
