import PdshVerif.Base.Hex
import PdshVerif.Mod.Load
import PdshVerif.Mod.LoadTie
import PdshVerif.Mod.Now
import PdshVerif.Mod.SortCursor
import PdshVerif.Mod.Spec
import Driver.Util

/-!
  engine `mod` (property C17)

  one case per line, `key=value` tokens:
    pers=1|2 uid=N euid=N owner=N|~ misc=HEX|~ env=DIR|~ builtin=DIR use=CODE,CODE,...
    DIR   := PATH@FILES        PATH := STAT,STAT,...  (dir, dir/.., ..., "/")      STAT := uid:mode | !
    FILES := FILE;FILE;...     FILE := NAMEHEX,STAT,OBJ[,OID]   OID: which object the name denotes (two names may
                                       share one); without it every name is an object of its own
    OBJ   := x (dlopen fails) | n (no pdsh_module_info) | m/TYPE/NAME/PRIO/PERS/INIT/OPTS
             TYPE,NAME := HEX | ~ (NULL)   INIT := ~ | 0 (fails) | 1   OPTS := ~ (NULL) | e (empty) | ROW+ROW..
             ROW := CODE.HASARG.PERS
  `pdshmodel mod model [nopers] [notie] [wrapprio] [nosameobj] [rename] [cursor]`:
    without a switch: THE CODE AS IT IS NOW, `Mod.Now.loadAll` (the definition the theorems of Props/C17.lean are about).
    Each switch selects an older form of one function (the check probes the binary and passes the switches that fit,
    so that a revert of a repair is reported with a replay and not as a broken correspondence):
      nopers     _mod_register before 59829e8 (personality tested after the eviction; F17-PERS)
      notie      _cmp_f / _mod_register before c80ee4f (no tie-break by type / file name; F17-TIE)
      wrapprio   _cmp_f before 930abcb (32-bit subtraction, `PrioWrap.cmpFWrap`; F17-PRIO-OVERFLOW)
      nosameobj  _mod_load_dynamic before fde0027 (a second name of a registered object is registered again; the
                 real code then crashes, F17-SAMEOBJ -- the check does not compare such cases)
      rename     findings/C17-sameobj-tie.patch applied (`Mod.Now.loadAllRename`; F17-SAMEOBJ-TIE)
      cursor     list_sort executed as its POINTER LOOP (`Mod.listSortCursor`: the cursors ppPrev / pp / ppPos of list.c),
                 `Mod.Now.loadAllCursor`; equal to the form without the switch by `Now.loadAllCursor_eq` /
                 `Now.loadDirCursor_eq` (Props/C17.lean `loader_runs_pointer_loop`) -- the check runs every case both ways
       ok|fatal L=FILE:ACT,... C=FILE,... O=HEX D=FILE,... U=CODE:i|n|hFILE.ARG,...
  `pdshmodel mod spec` :  the case line additionally carries the observation
       obs=ok|fatal oL=FILE:ACT,... oC=FILE,... oD=FILE,... oU=CODE:i|n|hFILE.ARG,...
     answer: `ok` or `viol CLASS:DETAILHEX ...`
-/
namespace Driver.ModDrv
open PdshVerif PdshVerif.Mod

def hx (s : List Char) : String := Hex.encodeChars s

def splitNE (s : String) (sep : String) : List String := if s = "" then [] else s.splitOn sep

def parseStat (s : String) : Option (Option FStat) :=
  if s = "!" then some none
  else match s.splitOn ":" with
    | [u, m] => do
      let u ← u.toNat?
      let m ← m.toNat?
      pure (some ⟨u, m⟩)
    | _ => none

def parseOptStr (s : String) : Option (Option (List Char)) :=
  if s = "~" then some none else (Hex.decodeToChars s).map some

def parseRow (s : String) : Option OptRow :=
  match s.splitOn "." with
  | [c, a, p] => do
    let c ← c.toNat?
    let p ← p.toNat?
    pure ⟨Char.ofNat c, a = "1", p⟩
  | _ => none

def parseRows (s : String) : Option (Option (List OptRow)) :=
  if s = "~" then some none
  else if s = "e" then some (some [])
  else ((s.splitOn "+").mapM parseRow).map some

def parseObj (s : String) : Option Obj :=
  if s = "x" then some .noload
  else if s = "n" then some .noinfo
  else match s.splitOn "/" with
    | ["m", t, n, prio, pers, ini, opts] => do
      let t ← parseOptStr t
      let n ← parseOptStr n
      let prio ← prio.toInt?
      let pers ← pers.toNat?
      let ini : Option Bool ← (if ini = "~" then some none else if ini = "1" then some (some true)
                                else if ini = "0" then some (some false) else none)
      let opts ← parseRows opts
      pure (.mod ⟨t, n, prio, pers, opts, ini⟩)
    | _ => none

def parseFile (s : String) : Option (File × Option Nat) :=
  match s.splitOn "," with
  | [nm, st, obj] => do
    let nm ← Hex.decodeToChars nm
    let st ← parseStat st
    let obj ← parseObj obj
    pure (⟨nm, st, obj⟩, none)
  | [nm, st, obj, oid] => do
    let nm ← Hex.decodeToChars nm
    let st ← parseStat st
    let obj ← parseObj obj
    let oid ← oid.toNat?
    pure (⟨nm, st, obj⟩, some oid)
  | _ => none

/-- the directory and the object each of its names denotes -/
def parseDir (s : String) : Option (Dir × List (List Char × Nat)) :=
  match s.splitOn "@" with
  | [p, f] => do
    let p ← (splitNE p ",").mapM parseStat
    let f ← (splitNE f ";").mapM parseFile
    pure (⟨p, f.map (·.1)⟩, f.filterMap fun (x, o) => o.map fun o => (x.fname, o))
  | _ => none

/-- name → object: the given identities; a name without one is an object of its own (numbered from 2^40 by the first
    position of the name in the two directories) -/
def oidOf (given : List (List Char × Nat)) (names : List (List Char)) (nm : List Char) : Nat :=
  match given.lookup nm with
  | some o => o
  | none => 1099511627776 + names.idxOf nm

def parseFiles (s : String) : Option (List (List Char)) := (splitNE s ",").mapM Hex.decodeToChars

def parseListed (s : String) : Option (List (List Char × Bool)) :=
  (splitNE s ",").mapM fun x =>
    match x.splitOn ":" with
    | [f, a] => (Hex.decodeToChars f).map fun f => (f, a = "1")
    | _ => none

def parseUse (s : String) : Option (Char × OptUse) :=
  match s.splitOn ":" with
  | [c, u] => do
    let c ← c.toNat?
    if u = "i" then pure (Char.ofNat c, .invalid)
    else if u = "n" then pure (Char.ofNat c, .nohandler)
    else if u.startsWith "h" then
      match (u.drop 1).toString.splitOn "." with
      | [f, a] => do
        let f ← Hex.decodeToChars f
        pure (Char.ofNat c, .handled f (a = "1"))
      | _ => none
    else none
  | _ => none

structure Case where
  env : Env
  use : List Char
  obs : Spec.Obs
  oids : List (List Char × Nat) := []

def emptyCase : Case :=
  ⟨⟨0, 0, none, ⟨[], []⟩, none, 1, none⟩, [], ⟨false, [], [], [], []⟩, []⟩

def Case.oid (c : Case) : List Char → Nat :=
  oidOf c.oids (((c.env.envDir.map (·.files)).getD [] ++ c.env.builtin.files).map (·.fname))

def kv (tok : String) : Option (String × String) :=
  match tok.splitOn "=" with
  | [k, v] => some (k, v)
  | _ => none

def parseCase : List String → Case → Option Case
  | [], c => some c
  | tok :: rest, c => do
    let (k, v) ← kv tok
    let c' : Case ←
      (if k = "pers" then v.toNat?.map fun n => { c with env := { c.env with pers := n } }
       else if k = "uid" then v.toNat?.map fun n => { c with env := { c.env with uid := n } }
       else if k = "euid" then v.toNat?.map fun n => { c with env := { c.env with euid := n } }
       else if k = "owner" then
         (if v = "~" then some { c with env := { c.env with owner := none } }
          else v.toNat?.map fun n => { c with env := { c.env with owner := some n } })
       else if k = "misc" then (parseOptStr v).map fun m => { c with env := { c.env with misc := m } }
       else if k = "env" then
         (if v = "~" then some { c with env := { c.env with envDir := none } }
          else (parseDir v).map fun (d, o) => { c with env := { c.env with envDir := some d }, oids := c.oids ++ o })
       else if k = "builtin" then
         (parseDir v).map fun (d, o) => { c with env := { c.env with builtin := d }, oids := c.oids ++ o }
       else if k = "use" then
         ((splitNE v ",").mapM String.toNat?).map fun l => { c with use := l.map Char.ofNat }
       else if k = "obs" then some { c with obs := { c.obs with fatal := v = "fatal" } }
       else if k = "oL" then (parseListed v).map fun l => { c with obs := { c.obs with listed := l } }
       else if k = "oC" then (parseFiles v).map fun l => { c with obs := { c.obs with calls := l } }
       else if k = "oD" then (parseFiles v).map fun l => { c with obs := { c.obs with opened := l } }
       else if k = "oU" then ((splitNE v ",").mapM parseUse).map fun l => { c with obs := { c.obs with uses := l } }
       else none)
    parseCase rest c'

def showUse (c : Char) (u : OptUse) : String :=
  toString c.toNat ++ ":" ++
    match u with
    | .invalid => "i"
    | .nohandler => "n"
    | .handled f a => "h" ++ hx f ++ "." ++ (if a then "1" else "0")

structure Variant where
  noPers : Bool
  noTie : Bool
  wrapPrio : Bool
  noSameObj : Bool
  rename : Bool
  cursor : Bool := false

def Variant.isNow (v : Variant) : Bool := !v.noPers && !v.noTie && !v.wrapPrio && !v.noSameObj

def runVariant (v : Variant) (oid : List Char → Nat) (e : Env) : Result :=
  if v.isNow then
    (if v.cursor then Now.loadAllCursor v.rename oid e
     else if v.rename then Now.loadAllRename oid e else Now.loadAll oid e)
  else
    let env := if v.noPers then e else persFirstEnv e
    let beats := if v.noTie then beatsPrio else Tie.beats
    let cmp := if v.noTie then cmpF else if v.wrapPrio then PrioWrap.cmpFWrap else Now.cmpF
    if v.noSameObj then loadDirG beats cmp env (chooseDir env)
    else if v.cursor then Now.loadDirCursor v.rename oid beats cmp env (chooseDir env)
    else Now.loadDirG v.rename oid beats cmp env (chooseDir env)

def stepModel (v : Variant) (line : String) : String :=
  match parseCase (Driver.words line) emptyCase with
  | none => "bad-op"
  | some c =>
    let r := runVariant v c.oid c.env
    (if r.fatal then "fatal" else "ok") ++
      " L=" ++ ",".intercalate (r.mods.map fun m => hx m.file ++ ":" ++ (if m.active then "1" else "0")) ++
      " C=" ++ ",".intercalate (r.calls.map hx) ++
      " O=" ++ hx r.opts ++
      " D=" ++ ",".intercalate (r.opened.map hx) ++
      " U=" ++ ",".intercalate (c.use.map fun ch => showUse ch (optUse r ch))

def showViol : Spec.Viol → String
  | .envDirUsed f => "envDirUsed:" ++ hx f
  | .insecurePathLoaded => "insecurePathLoaded:-"
  | .insecureFileOpened f => "insecureFileOpened:" ++ hx f
  | .notLoadable f => "notLoadable:" ++ hx f
  | .dupListed f => "dupListed:" ++ hx f
  | .lowerDupListed f => "lowerDupListed:" ++ hx f
  | .missing f => "missing:" ++ hx f
  | .order f => "order:" ++ hx f
  | .active f e => "active" ++ (if e then "1" else "0") ++ ":" ++ hx f
  | .initRan f => "initRan:" ++ hx f
  | .initNotRun f => "initNotRun:" ++ hx f
  | .optAccepted c => "optAccepted:" ++ hx [c]
  | .optRefused c => "optRefused:" ++ hx [c]
  | .secureNotOpened f => "secureNotOpened:" ++ hx f

def stepSpec (line : String) : String :=
  match parseCase (Driver.words line) emptyCase with
  | none => "bad-op"
  | some c =>
    match Spec.check c.env c.obs with
    | [] => "ok"
    | vs => "viol " ++ " ".intercalate (vs.map showViol)

def main (args : List String) : IO UInt32 := do
  let stdin ← IO.getStdin
  match args with
  | "model" :: vs =>
    if vs.all (fun v => ["nopers", "notie", "wrapprio", "nosameobj", "rename", "cursor"].contains v) then
      let v : Variant := ⟨vs.contains "nopers", vs.contains "notie", vs.contains "wrapprio", vs.contains "nosameobj",
                          vs.contains "rename", vs.contains "cursor"⟩
      Driver.forLines stdin () (fun _ l => ((), stepModel v l))
      return 0
    else
      IO.eprintln "usage: pdshmodel mod model [nopers] [notie] [wrapprio] [nosameobj] [rename] [cursor]"; return 2
  | ["spec"] => Driver.forLines stdin () (fun _ l => ((), stepSpec l)); return 0
  | _ => IO.eprintln "usage: pdshmodel mod model|spec"; return 2

end Driver.ModDrv
