import PdshVerif.Base.Hex
import PdshVerif.Mod.Load
import PdshVerif.Mod.Spec
import Driver.Util

/-!
  engine `mod` (property C17)

  one case per line, `key=value` tokens:
    pers=1|2 uid=N euid=N owner=N|~ misc=HEX|~ env=DIR|~ builtin=DIR use=CODE,CODE,...
    DIR   := PATH@FILES        PATH := STAT,STAT,...  (dir, dir/.., ..., "/")      STAT := uid:mode | !
    FILES := FILE;FILE;...     FILE := NAMEHEX,STAT,OBJ
    OBJ   := x (dlopen fails) | n (no pdsh_module_info) | m/TYPE/NAME/PRIO/PERS/INIT/OPTS
             TYPE,NAME := HEX | ~ (NULL)   INIT := ~ | 0 (fails) | 1   OPTS := ~ (NULL) | e (empty) | ROW+ROW..
             ROW := CODE.HASARG.PERS
  `pdshmodel mod model [persfirst]`:  (persfirst = the repaired form of F17-PERS: _mod_register looks at the
       personality BEFORE it touches an existing module of the same type and name; for the model this is the
       same as an object without type, so the driver rewrites such descriptors and runs the same model)
       ok|fatal L=FILE:ACT,... C=FILE,... O=HEX D=FILE,... U=CODE:i|n|hFILE.ARG,...
  `pdshmodel mod spec` :  the case line additionally carries the observation
       obs=ok|fatal oL=FILE:ACT,... oC=FILE,... oD=FILE,... oU=CODE:i|n|hFILE.ARG,...
     answer: `ok` or `viol CLASS:DETAILHEX ...`
-/
namespace Driver.ModDrv
open PdshVerif PdshVerif.Mod

def hx (s : List Char) : String := Hex.encodeChars s

def splitNE (s : String) (sep : String) : List String := if s = "" then [] else s.splitOn sep

def parseStat (s : String) : Option (Option FStat) :=
  if s = "!" then some none
  else match s.splitOn ":" with
    | [u, m] => do
      let u ← u.toNat?
      let m ← m.toNat?
      pure (some ⟨u, m⟩)
    | _ => none

def parseOptStr (s : String) : Option (Option (List Char)) :=
  if s = "~" then some none else (Hex.decodeToChars s).map some

def parseRow (s : String) : Option OptRow :=
  match s.splitOn "." with
  | [c, a, p] => do
    let c ← c.toNat?
    let p ← p.toNat?
    pure ⟨Char.ofNat c, a = "1", p⟩
  | _ => none

def parseRows (s : String) : Option (Option (List OptRow)) :=
  if s = "~" then some none
  else if s = "e" then some (some [])
  else ((s.splitOn "+").mapM parseRow).map some

def parseObj (s : String) : Option Obj :=
  if s = "x" then some .noload
  else if s = "n" then some .noinfo
  else match s.splitOn "/" with
    | ["m", t, n, prio, pers, ini, opts] => do
      let t ← parseOptStr t
      let n ← parseOptStr n
      let prio ← prio.toInt?
      let pers ← pers.toNat?
      let ini : Option Bool ← (if ini = "~" then some none else if ini = "1" then some (some true)
                                else if ini = "0" then some (some false) else none)
      let opts ← parseRows opts
      pure (.mod ⟨t, n, prio, pers, opts, ini⟩)
    | _ => none

def parseFile (s : String) : Option File :=
  match s.splitOn "," with
  | [nm, st, obj] => do
    let nm ← Hex.decodeToChars nm
    let st ← parseStat st
    let obj ← parseObj obj
    pure ⟨nm, st, obj⟩
  | _ => none

def parseDir (s : String) : Option Dir :=
  match s.splitOn "@" with
  | [p, f] => do
    let p ← (splitNE p ",").mapM parseStat
    let f ← (splitNE f ";").mapM parseFile
    pure ⟨p, f⟩
  | _ => none

def parseFiles (s : String) : Option (List (List Char)) := (splitNE s ",").mapM Hex.decodeToChars

def parseListed (s : String) : Option (List (List Char × Bool)) :=
  (splitNE s ",").mapM fun x =>
    match x.splitOn ":" with
    | [f, a] => (Hex.decodeToChars f).map fun f => (f, a = "1")
    | _ => none

def parseUse (s : String) : Option (Char × OptUse) :=
  match s.splitOn ":" with
  | [c, u] => do
    let c ← c.toNat?
    if u = "i" then pure (Char.ofNat c, .invalid)
    else if u = "n" then pure (Char.ofNat c, .nohandler)
    else if u.startsWith "h" then
      match (u.drop 1).toString.splitOn "." with
      | [f, a] => do
        let f ← Hex.decodeToChars f
        pure (Char.ofNat c, .handled f (a = "1"))
      | _ => none
    else none
  | _ => none

structure Case where
  env : Env
  use : List Char
  obs : Spec.Obs

def emptyCase : Case :=
  ⟨⟨0, 0, none, ⟨[], []⟩, none, 1, none⟩, [], ⟨false, [], [], [], []⟩⟩

def kv (tok : String) : Option (String × String) :=
  match tok.splitOn "=" with
  | [k, v] => some (k, v)
  | _ => none

def parseCase : List String → Case → Option Case
  | [], c => some c
  | tok :: rest, c => do
    let (k, v) ← kv tok
    let c' : Case ←
      (if k = "pers" then v.toNat?.map fun n => { c with env := { c.env with pers := n } }
       else if k = "uid" then v.toNat?.map fun n => { c with env := { c.env with uid := n } }
       else if k = "euid" then v.toNat?.map fun n => { c with env := { c.env with euid := n } }
       else if k = "owner" then
         (if v = "~" then some { c with env := { c.env with owner := none } }
          else v.toNat?.map fun n => { c with env := { c.env with owner := some n } })
       else if k = "misc" then (parseOptStr v).map fun m => { c with env := { c.env with misc := m } }
       else if k = "env" then
         (if v = "~" then some { c with env := { c.env with envDir := none } }
          else (parseDir v).map fun d => { c with env := { c.env with envDir := some d } })
       else if k = "builtin" then (parseDir v).map fun d => { c with env := { c.env with builtin := d } }
       else if k = "use" then
         ((splitNE v ",").mapM String.toNat?).map fun l => { c with use := l.map Char.ofNat }
       else if k = "obs" then some { c with obs := { c.obs with fatal := v = "fatal" } }
       else if k = "oL" then (parseListed v).map fun l => { c with obs := { c.obs with listed := l } }
       else if k = "oC" then (parseFiles v).map fun l => { c with obs := { c.obs with calls := l } }
       else if k = "oD" then (parseFiles v).map fun l => { c with obs := { c.obs with opened := l } }
       else if k = "oU" then ((splitNE v ",").mapM parseUse).map fun l => { c with obs := { c.obs with uses := l } }
       else none)
    parseCase rest c'

def showUse (c : Char) (u : OptUse) : String :=
  toString c.toNat ++ ":" ++
    match u with
    | .invalid => "i"
    | .nohandler => "n"
    | .handled f a => "h" ++ hx f ++ "." ++ (if a then "1" else "0")

/-- repaired F17-PERS as an input transformation: a module object that does not fit the personality is
    refused before any duplicate handling, exactly like an object without a type -/
def persFirstDir (pers : Nat) (d : Dir) : Dir :=
  { d with files := d.files.map fun f =>
      match f.obj with
      | .mod ds => if ds.pers &&& pers = 0 then { f with obj := .mod { ds with type := none } } else f
      | _ => f }

def persFirstEnv (e : Env) : Env :=
  { e with envDir := e.envDir.map (persFirstDir e.pers), builtin := persFirstDir e.pers e.builtin }

def stepModel (persFirst : Bool) (line : String) : String :=
  match parseCase (Driver.words line) emptyCase with
  | none => "bad-op"
  | some c =>
    let r := loadAll (if persFirst then persFirstEnv c.env else c.env)
    (if r.fatal then "fatal" else "ok") ++
      " L=" ++ ",".intercalate (r.mods.map fun m => hx m.file ++ ":" ++ (if m.active then "1" else "0")) ++
      " C=" ++ ",".intercalate (r.calls.map hx) ++
      " O=" ++ hx r.opts ++
      " D=" ++ ",".intercalate (r.opened.map hx) ++
      " U=" ++ ",".intercalate (c.use.map fun ch => showUse ch (optUse r ch))

def showViol : Spec.Viol → String
  | .envDirUsed f => "envDirUsed:" ++ hx f
  | .insecurePathLoaded => "insecurePathLoaded:-"
  | .insecureFileOpened f => "insecureFileOpened:" ++ hx f
  | .notLoadable f => "notLoadable:" ++ hx f
  | .dupListed f => "dupListed:" ++ hx f
  | .lowerDupListed f => "lowerDupListed:" ++ hx f
  | .missing f => "missing:" ++ hx f
  | .order f => "order:" ++ hx f
  | .active f e => "active" ++ (if e then "1" else "0") ++ ":" ++ hx f
  | .initRan f => "initRan:" ++ hx f
  | .initNotRun f => "initNotRun:" ++ hx f
  | .optAccepted c => "optAccepted:" ++ hx [c]
  | .optRefused c => "optRefused:" ++ hx [c]
  | .secureNotOpened f => "secureNotOpened:" ++ hx f

def stepSpec (line : String) : String :=
  match parseCase (Driver.words line) emptyCase with
  | none => "bad-op"
  | some c =>
    match Spec.check c.env c.obs with
    | [] => "ok"
    | vs => "viol " ++ " ".intercalate (vs.map showViol)

def main (args : List String) : IO UInt32 := do
  let stdin ← IO.getStdin
  match args with
  | ["model"] => Driver.forLines stdin () (fun _ l => ((), stepModel false l)); return 0
  | ["model", "persfirst"] => Driver.forLines stdin () (fun _ l => ((), stepModel true l)); return 0
  | ["spec"] => Driver.forLines stdin () (fun _ l => ((), stepSpec l)); return 0
  | _ => IO.eprintln "usage: pdshmodel mod model|spec"; return 2

end Driver.ModDrv
