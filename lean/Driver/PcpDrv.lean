import PdshVerif.Base.Hex
import PdshVerif.Pcp.Spec
import PdshVerif.Pcp.Session
import PdshVerif.Pcp.Links
import PdshVerif.Pcp.Statics
import PdshVerif.Pcp.ClientStatics
import PdshVerif.Pcp.DeepSession
import PdshVerif.Pcp.Allocbuf
import PdshVerif.Pcp.Response
import Driver.Util

/-! line protocol of the `pcp` engine (C11, C12): the receiver model `sink`, the sender model `send`,
the command-line construction and the two specifications, driven by checks/c11.py, checks/c12.py.

    sink   P Y UMASK CNT RULE DIRCHMOD FSIZE CWD DEST STREAM FSENTRY...
    sinkl  (same arguments; FSENTRYs of kind `l` are symbolic links: <path>:l:<mode>:<mtime>:h<hex of the canonical
           path of the target>.  The receiver model runs on the link-free view `graftAll` (Pcp/Links.lean); touched paths
           and the file system are reported at their PHYSICAL places, `physicalAll` / `physLook`)
    rt     P Y UMASK CNT RULE DIRCHMOD FSIZE CWD DEST REVERSE HOST SUBSEC SENTFIX NFS FSENTRY... SRCTOKENS...
    sess   P Y UMASK CNT RULE DIRCHMOD FSIZE CWD DEST REVERSE HOST SUBSEC SENTFIX SKIPREF NFS FSENTRY... SRCTOKENS...
           (the interactive sender of Pcp/Session.lean against the receiver; answer as `rt` plus failed= dead= early=)
    spec11 P DESTPATH NFS FSENTRY... SRCTOKENS...
    spec12 DESTPATH PATH...
    cmdf   PROG R P NENT DEST            cmdr PROG R P HOST FILE...
    norm   CWD STRING                    (lexical normal form of a path string)
    deep   P Y UMASK CNT RULE DIRCHMOD FSIZE CWD DEST REVERSE HOST SUBSEC SENTFIX NFS FSENTRY... SRCTOKENS...
                                         (Pcp/Deep.lean `classifyTop`, `dTopFs`, `dTopBad`)
    cnt    ST_BLKSIZE                    (Pcp/Allocbuf.lean `allocSize`: bp->cnt for a file system block size)
    cstatics                             (Pcp/ClientStatics.lean: the same for pcp_client.c, the client threads of a forward copy)
    statics ERRFPSHARED                  (Pcp/Statics.lean: the static objects of pcp_server.c the model accounts for, the
                                         process-wide libc calls it does not cover, and those it does)

  FSENTRY   = <path>:<d|f>:<mode octal>:<mtime>:<content>     path = hex of "a/b/c" ("-" = root)
  mtime     = ? | <sec> | <sec>.<usec>          content = - | h<hex> | g<seed>.<len>
  SRCTOKENS = pre-order:  F <name> <mode> <mtime> <atime> <content>  |  D <name> <mode> <mtime> <atime> ... )
              (source times in MICROSECONDS)
  answers list file contents as <len>.<crc32>.
-/
namespace Driver.PcpDrv
open PdshVerif PdshVerif.Pcp

def octVal (s : String) : Option Nat :=
  s.toList.foldl (fun acc c => acc.bind fun a =>
    if '0' ≤ c ∧ c ≤ '7' then some (a * 8 + (c.toNat - 48)) else none) (some 0)

def toOct (n : Nat) : String := String.ofList (Nat.toDigits 8 n)

def crcStep (c : UInt32) : UInt32 := (c >>> 1) ^^^ (0xEDB88320 &&& (0 - (c &&& 1)))

def crcByte (c : UInt32) (b : UInt8) : UInt32 :=
  crcStep (crcStep (crcStep (crcStep (crcStep (crcStep (crcStep (crcStep (c ^^^ b.toUInt32))))))))

def crc32 (bs : List UInt8) : UInt32 := (bs.foldl crcByte 0xFFFFFFFF) ^^^ 0xFFFFFFFF

/-- generated file contents shared with checks/: an LCG -/
def genBytes (seed len : Nat) : Str :=
  let rec go : Nat → Nat → Str → Str
    | 0, _, acc => acc.reverse
    | n + 1, x, acc =>
      let x' := (x * 1103515245 + 12345) % 2147483648
      go n x' (UInt8.ofNat (x' / 65536 % 256) :: acc)
  go len seed []

def pathOfHex (s : String) : Option Path :=
  (Hex.decode s).map fun bs => comps bs

def hexOfPath (p : Path) : String :=
  Hex.encode (match p with
    | [] => []
    | c :: cs => cs.foldl (fun acc x => acc ++ cSlash :: x) c)

def parseTimeOpt (s : String) : Option (Option Time) :=
  if s = "?" then some none
  else match s.splitOn "." with
    | [a] => a.toInt?.map fun x => some ⟨x, 0⟩
    | [a, b] => match a.toInt?, b.toInt? with
      | some x, some y => some (some ⟨x, y⟩)
      | _, _ => none
    | _ => none

def parseContent (s : String) : Option Str :=
  match s.toList with
  | ['-'] => some []
  | 'h' :: r => Hex.decode (String.ofList r)
  | 'g' :: r =>
    match (String.ofList r).splitOn "." with
    | [a, b] => match a.toNat?, b.toNat? with
      | some seed, some len => some (genBytes seed len)
      | _, _ => none
    | _ => none
  | _ => none

def parseEntry (s : String) : Option (Path × Node) :=
  match s.splitOn ":" with
  | [p, k, m, t, c] =>
    match pathOfHex p, octVal m, parseTimeOpt t, parseContent c with
    | some p, some m, some t, some c =>
      if k = "d" then some (p, .dir m t) else if k = "f" then some (p, .file m t c) else none
    | _, _, _, _ => none
  | _ => none

def parseEntries (ws : List String) : Option (List (Path × Node)) :=
  ws.foldr (fun w acc => acc.bind fun l => (parseEntry w).map (· :: l)) (some [])

def fsOf (es : List (Path × Node)) : FS := fun q => es.lookup q

def showTime : Option Time → String
  | none => "?"
  | some t =>
    if t.sec < 0 ∨ 2147483647 < t.sec then "!"          -- outside what the checks compare
    else if t.usec = 0 then s!"{t.sec}" else s!"{t.sec}.{t.usec}"

def showNode (p : Path) : Option Node → String
  | none => s!"{hexOfPath p}:x:0:?:-"
  | some (.dir m t) => s!"{hexOfPath p}:d:{toOct m}:{showTime t}:-"
  | some (.file m t d) => s!"{hexOfPath p}:f:{toOct m}:{showTime t}:{d.length}.{(crc32 d).toNat}"

def showWhy : Why → String
  | .newline => "newline" | .lost => "lost" | .mtimeSec => "mtimeSec" | .mtimeUsec => "mtimeUsec"
  | .atimeSec => "atimeSec" | .atimeUsec => "atimeUsec" | .expected => "expected"
  | .badMode => "badMode" | .modeDelim => "modeDelim" | .sizeDelim => "sizeDelim"
  | .badName => "badName"

def showReply : Reply → String
  | .ack => "A"
  | .err .notdir => "E:notdir"
  | .err (.screwup w) => "E:screwup:" ++ showWhy w
  | .err .path => "E:path"
  | .err .trunc => "E:trunc"
  | .err .times => "E:times"
  | .err .respLost => "E:respLost"
  | .err .respBad => "E:respBad"
  | .err .read => "E:read"

def commaJoin (l : List String) : String := if l.isEmpty then "-" else ",".intercalate l

def showResult (init : List (Path × Node)) (st : St) : String :=
  let touched := st.touched.reverse
  let paths := (init.map (·.1) ++ touched).eraseDups
  let fsOut := paths.map fun p => showNode p (st.fs p)
  s!"replies={commaJoin (st.out.reverse.map showReply)} touched={commaJoin (touched.map hexOfPath)} " ++
  s!"ub={if st.ub then 1 else 0} fs={commaJoin fsOut}"

/-- `<path>:l:<mode>:<mtime>:h<hex of the target's canonical path>` -/
def parseLinkEntry (s : String) : Option (Path × Path) :=
  match s.splitOn ":" with
  | [p, "l", _, _, c] =>
    match pathOfHex p, c.toList with
    | some p, 'h' :: r => (pathOfHex (String.ofList r)).map fun t => (p, t)
    | _, _ => none
  | _ => none

def isLinkEntry (s : String) : Bool :=
  match s.splitOn ":" with
  | [_, "l", _, _, _] => true
  | _ => false

/-- `showResult` for a run on the view of a file system with symbolic links: everything at its physical place -/
def showResultL (init : List (Path × Node)) (links : List (Path × Path)) (st : St) : String :=
  let touched := st.touched.reverse.map (physicalAll links)
  let paths := (init.map (·.1) ++ touched).eraseDups
  let fsOut := paths.map fun p => showNode p (physLook st.fs links p)
  s!"replies={commaJoin (st.out.reverse.map showReply)} touched={commaJoin (touched.map hexOfPath)} " ++
  s!"ub={if st.ub then 1 else 0} fs={commaJoin fsOut}"

/-! coverage of the receiver automaton: which branches a run takes (reported by the checks as evidence;
the states are produced by `step` itself, the tags only look at them) -/

def phaseName : Phase → String
  | .start => "start" | .line _ _ => "line" | .data .. => "data" | .resp _ _ => "resp" | .done => "done"

def addTags (l : List String) (ts : List String) : List String :=
  ts.foldl (fun l t => if l.contains t then l else t :: l) l

def newReplyTags (st st' : St) : List String :=
  (st'.out.take (st'.out.length - st.out.length)).map fun r => "re:" ++ showReply r

/-- a complete record is about to be handled in state `st` -/
def recTags (o : Opts) (st : St) (line : Str) (ch : UInt8) : List String :=
  match st.stack with
  | [] => ["rec:no-level"]
  | f :: _ =>
    match classify line ch with
    | .msg => ["rec:msg"]
    | .stop => ["rec:stop"]
    | .exit => [if st.stack.length ≤ 1 then "rec:E-top" else "rec:E-nested",
                if st.stack.length > 1 && (st.stack.getD 1 f).setimes then "E:sets-times" else "E:no-times"]
    | .bad _ => ["rec:bad"]
    | .timesBad _ => ["rec:T-bad"]
    | .times _ _ => [if f.setimes then "rec:T-twice" else "rec:T"]
    | .ctl isDir _ size name =>
      if !nameOk o.rule name then ["rec:name-rejected"]
      else
        let np := if f.targisdir then joinName f.targ name else f.targ
        let ex := match stat st.fs o.cwd np with
          | some (_, .dir ..) => "on-dir"
          | some (_, .file ..) => "on-file"
          | none => "new"
        [(if isDir then "D:" else "C:") ++ ex, if f.targisdir then "targ:dir" else "targ:name",
         if f.setimes then "ctl:with-times" else "ctl:no-times", s!"depth:{min st.stack.length 4}"] ++
        (if isDir then [] else
          [if size < 0 then "size:<0" else if size = 0 then "size:0"
           else if size.toNat < BUFSZ then "size:<buf" else if size.toNat ≤ o.cnt then "size:<=cnt" else "size:>cnt"])

def covStep (o : Opts) (acc : St × List String) (b : UInt8) : St × List String :=
  let st := acc.1
  let st' := step o st b
  match st.phase with
  | .data _ _ _ left amt count _ _ _ =>
    if 1 < amt then (st', acc.2)
    else (st', addTags acc.2 ([if count == o.cnt then "data:flush" else "data:block"] ++
            (if 1 < left then [] else ["data:end>" ++ phaseName st'.phase]) ++ newReplyTags st st'))
  | .line cp bufRev =>
    if cp + 1 < BUFSZ - 1 && b ≠ cNl then (st', acc.2)
    else (st', addTags acc.2 (recTags o st (b :: bufRev).reverse b ++
            (if b ≠ cNl then ["line:buffer-full"] else []) ++ ["line>" ++ phaseName st'.phase] ++ newReplyTags st st'))
  | .start => if b = cNl then (st', addTags acc.2 (["start:newline"] ++ newReplyTags st st')) else (st', acc.2)
  | .resp _ wr =>
    (st', addTags acc.2 ([if b = 0 then "resp:ok" else "resp:bad",
                          match wr with | .no => "wr:no" | .yes => "wr:yes" | .displayed => "wr:displayed",
                          "resp>" ++ phaseName st'.phase] ++ newReplyTags st st'))
  | .done => (st', addTags acc.2 ["done:input-ignored"])

/-- `run` with the branch tags -/
def covRun (o : Opts) (fs : FS) (stream : Str) : St × List String :=
  let st0 := enter o (St.init fs) o.dest
  let t0 := addTags [] (["enter>" ++ phaseName st0.phase] ++ newReplyTags (St.init fs) st0)
  let r := stream.foldl (covStep o) (st0, t0)
  let fin := finish o r.1
  (fin, addTags r.2 (["eof:" ++ phaseName r.1.phase, s!"eof-depth:{min r.1.stack.length 4}"] ++ newReplyTags r.1 fin))

/-- the tagged step IS `step`: the tags only look at the states -/
theorem covStep_fst (o : Opts) (acc : St × List String) (b : UInt8) : (covStep o acc b).1 = step o acc.1 b := by
  unfold covStep
  dsimp only
  split <;> (try split) <;> rfl

theorem covFold_fst (o : Opts) (s : Str) (acc : St × List String) :
    (s.foldl (covStep o) acc).1 = s.foldl (step o) acc.1 := by
  induction s generalizing acc with
  | nil => rfl
  | cons b bs ih => rw [List.foldl_cons, List.foldl_cons, ih, covStep_fst]

/-- what the driver answers for `sink`, `sinkl`, `rt` is the state `run` -- the function Props/C11.lean and
Props/C12.lean are about -- ends in -/
theorem covRun_fst (o : Opts) (fs : FS) (stream : Str) : (covRun o fs stream).1 = run o fs stream := by
  unfold covRun run
  dsimp only
  rw [covFold_fst]

/-- pre-order tree tokens; returns siblings up to a closing `)` (consumed) or the end -/
def parseTrees : Nat → List String → Option (List (Str × Tree) × List String)
  | 0, _ => none
  | _ + 1, [] => some ([], [])
  | _ + 1, ")" :: r => some ([], r)
  | f + 1, "F" :: n :: m :: t :: a :: c :: r =>
    match Hex.decode n, octVal m, t.toNat?, a.toNat?, parseContent c with
    | some n, some m, some t, some a, some c =>
      (parseTrees f r).map fun (sibs, r') => ((n, Tree.file m t a c) :: sibs, r')
    | _, _, _, _, _ => none
  | f + 1, "D" :: n :: m :: t :: a :: r =>
    match Hex.decode n, octVal m, t.toNat?, a.toNat? with
    | some n, some m, some t, some a =>
      match parseTrees f r with
      | some (kids, r') => (parseTrees f r').map fun (sibs, r'') => ((n, Tree.dir m t a kids) :: sibs, r'')
      | none => none
    | _, _, _, _ => none
  | _ + 1, _ => none

def parseSrcs (ws : List String) : Option (List (Str × Tree)) :=
  match parseTrees (ws.length + 2) ws with
  | some (l, []) => some l
  | _ => none

def flag (s : String) : Bool := s = "1"

def ruleOf (s : String) : NameRule :=
  if s = "1" then .slashDotdot else if s = "2" then .scp else .none

/-- receiver options: P Y UMASK CNT RULE(0 none,1 slash-or-dotdot,2 scp) DIRCHMOD FSIZE(0 = no limit) CWD DEST -/
def mkOpts (p y um cnt rule dch fsz cwd dest : String) : Option Opts :=
  match octVal um, cnt.toNat?, fsz.toNat?, pathOfHex cwd, Hex.decode dest with
  | some um, some cnt, some fsz, some cwd, some dest =>
    some { preserve := flag p, targetIsDir := flag y, umask := um, cnt := cnt, rule := ruleOf rule,
           dirChmod := flag dch, fsize := if fsz = 0 then none else some fsz, cwd := cwd, dest := dest }
  | _, _, _, _, _ => none

def showBad : Spec.Bad → String
  | .missing => "missing" | .kind => "kind" | .data => "data" | .mode => "mode" | .mtime => "mtime"
  | .names => "names"

def handle (line : String) : String :=
  match Driver.words line with
  | "sink" :: p :: y :: um :: cnt :: rule :: dch :: fsz :: cwd :: dest :: stream :: fsw =>
    match mkOpts p y um cnt rule dch fsz cwd dest, Hex.decode stream, parseEntries fsw with
    | some o, some stream, some es =>
      let r := covRun o (fsOf es) stream
      showResult es r.1 ++ " cov=" ++ commaJoin r.2.reverse
    | _, _, _ => "bad-op"
  | "sinkl" :: p :: y :: um :: cnt :: rule :: dch :: fsz :: cwd :: dest :: stream :: fsw =>
    let lw := fsw.filter isLinkEntry
    match mkOpts p y um cnt rule dch fsz cwd dest, Hex.decode stream, parseEntries (fsw.filter (!isLinkEntry ·)),
          lw.foldr (fun w acc => acc.bind fun l => (parseLinkEntry w).map (· :: l)) (some []) with
    | some o, some stream, some es, some links =>
      let r := covRun o (graftAll (fsOf es) links) stream
      showResultL es links r.1 ++ " cov=" ++ commaJoin r.2.reverse
    | _, _, _, _ => "bad-op"
  | "rt" :: p :: y :: um :: cnt :: rule :: dch :: fsz :: cwd :: dest :: rev :: host :: ssec :: sfix :: nfs :: rest =>
    match mkOpts p y um cnt rule dch fsz cwd dest, Hex.decode host, nfs.toNat? with
    | some o, some host, some nfs =>
      match parseEntries (rest.take nfs), parseSrcs (rest.drop nfs) with
      | some es, some srcs =>
        let stream := send { preserve := o.preserve, reverse := flag rev, host := host, subsec := flag ssec,
                             sentinelFix := flag sfix } srcs
        let shown := if stream.length ≤ 30000 then Hex.encode stream else "~"
        let r := covRun o (fsOf es) stream
        s!"nent={(expandAll srcs).length} c2slen={stream.length} c2scrc={(crc32 stream).toNat} c2s={shown} " ++
          showResult es r.1 ++ " cov=" ++ commaJoin r.2.reverse
      | _, _ => "bad-op"
    | _, _, _ => "bad-op"
  | "sess" :: p :: y :: um :: cnt :: rule :: dch :: fsz :: cwd :: dest :: rev :: host :: ssec :: sfix :: skipref :: nfs :: rest =>
    match mkOpts p y um cnt rule dch fsz cwd dest, Hex.decode host, nfs.toNat? with
    | some o, some host, some nfs =>
      match parseEntries (rest.take nfs), parseSrcs (rest.drop nfs) with
      | some es, some srcs =>
        let s := session { preserve := o.preserve, reverse := flag rev, host := host, subsec := flag ssec,
                           sentinelFix := flag sfix } { skipRefused := flag skipref } o (fsOf es) (expandAll srcs)
        let shown := if s.sent.length ≤ 30000 then Hex.encode s.sent else "~"
        let early := match s.st.phase with | .done => 1 | _ => 0
        s!"nent={(expandAll srcs).length} c2slen={s.sent.length} c2scrc={(crc32 s.sent).toNat} c2s={shown} " ++
          s!"failed={if s.failed then 1 else 0} dead={if s.dead then 1 else 0} early={early} " ++
          showResult es (finish o s.st)
      | _, _ => "bad-op"
    | _, _, _ => "bad-op"
  | "deep" :: p :: y :: um :: cnt :: rule :: dch :: fsz :: cwd :: dest :: rev :: host :: ssec :: sfix :: nfs :: rest =>
    -- Pcp/Deep.lean: the sources classified against the target's file system, the file system `error_isolated_deep`
    -- says the receiver ends with, and the number of error records it says are sent; looked at where the session
    -- model (Pcp/Session.lean, repaired client) has touched something
    match mkOpts p y um cnt rule dch fsz cwd dest, Hex.decode host, nfs.toNat? with
    | some o, some host, some nfs =>
      match parseEntries (rest.take nfs), parseSrcs (rest.drop nfs) with
      | some es, some srcs =>
        let so : SOpts := { preserve := o.preserve, reverse := flag rev, host := host, subsec := flag ssec,
                            sentinelFix := flag sfix }
        match resolve (fsOf es) o.cwd o.dest with
        | some D =>
          let items := classifyTop so (fsOf es) D srcs
          let fs' := dTopFs o so (fsOf es) D items
          let s := session so { skipRefused := true } o (fsOf es) (expandAll srcs)
          let paths := (es.map (·.1) ++ (finish o s.st).touched.reverse).eraseDups
          s!"replies=- touched=- ub=0 bad={dTopBad items} fs={commaJoin (paths.map fun p => showNode p (fs' p))}"
        | none => "nodest"
      | _, _ => "bad-op"
    | _, _, _ => "bad-op"
  | "spec11" :: p :: dpath :: nfs :: rest =>
    match pathOfHex dpath, nfs.toNat? with
    | some dpath, some nfs =>
      match parseEntries (rest.take nfs), parseSrcs (rest.drop nfs) with
      | some es, some srcs =>
        let listing := es.map (·.1)
        let bad := Spec.checkKids (flag p) (fsOf es) listing dpath srcs
        if bad.isEmpty then "ok"
        else "bad " ++ commaJoin (bad.map fun (q, b) => s!"{hexOfPath q}:{showBad b}")
      | _, _ => "bad-op"
    | _, _ => "bad-op"
  | "spec12" :: dpath :: paths =>
    match pathOfHex dpath, paths.foldr (fun w acc => acc.bind fun l => (pathOfHex w).map (· :: l)) (some []) with
    | some dpath, some ps =>
      let esc := Spec.escapes dpath ps
      if esc.isEmpty then "ok" else "escape " ++ commaJoin (esc.map hexOfPath)
    | _, _ => "bad-op"
  | ["cmdf", prog, r, p, nent, dest] =>
    match Hex.decode prog, nent.toNat?, Hex.decode dest with
    | some prog, some nent, some dest => Hex.encode (pdcpCmd prog (flag r) (flag p) nent dest)
    | _, _, _ => "bad-op"
  | "cmdr" :: prog :: r :: p :: host :: files =>
    match Hex.decode prog, Hex.decode host,
          files.foldr (fun w acc => acc.bind fun l => (Hex.decode w).map (· :: l)) (some []) with
    | some prog, some host, some files => Hex.encode (rpdcpCmd prog (flag r) (flag p) files host)
    | _, _, _ => "bad-op"
  | ["statics", e] =>
    s!"defs={commaJoin ((serverStatics (flag e)).map (·.1))} forbidden={commaJoin processWideCalls} " ++
      s!"modelled={commaJoin modelledProcessWideCalls}"
  | ["cnt", blk] =>
    match blk.toNat? with
    | some b => toString (allocSize b BUFSZ)
    | none => "bad-op"
  | ["resp", n, s] =>
    match n.toNat?, Hex.decode s with
    | some n, some s =>
      let r := callN BUFSZ n s
      let res := String.ofList (r.1.map fun b => if b then '0' else '1')
      s!"res={if res.isEmpty then "-" else res} left={r.2.length}"
    | _, _ => "bad-op"
  | ["cstatics"] =>
    s!"defs={commaJoin clientStatics} forbidden={commaJoin clientProcessWideCalls} " ++
      s!"expandonly={commaJoin clientExpandOnlyCalls}"
  | ["norm", cwd, s] =>
    match pathOfHex cwd, Hex.decode s with
    | some cwd, some s => hexOfPath (lexNorm cwd s)
    | _, _ => "bad-op"
  | _ => "bad-op"

def main (_args : List String) : IO UInt32 := do
  let stdin ← IO.getStdin
  Driver.forLines stdin () (fun _ l => ((), handle l))
  return 0

end Driver.PcpDrv
