import PdshVerif.Base.Hex
import PdshVerif.Exec.Format
import PdshVerif.Exec.EndToEnd
import PdshVerif.Exec.Ssh
import PdshVerif.Exec.Spec
import PdshVerif.Exec.XrcmdSpec
import PdshVerif.Exec.XrcmdErr
import PdshVerif.Gen.Dsh
import PdshVerif.Opt.Rcmd
import PdshVerif.Opt.RcmdSpec
import PdshVerif.Opt.RcmdUser
import PdshVerif.Gen.Modopt
import PdshVerif.Opt.Exclude
import PdshVerif.Hostlist.Probed
import Driver.Util

/-!
  engine `rcmd` (property C09)

  `pdshmodel rcmd model <variant>`   variant = unchanged | repaired | d10 | d11 (which repairs are on)
     fmt  HOST USER RANK MEM             -> ok HEX | null | ub
     args HOST USER RANK PATH TAIL ARG*  -> ok A0 A1 ... | ub
     req  PORT|none LUSER RUSER CMD      -> HEX of the wire request
     writes PORT|none LUSER RUSER CMD    -> HEX of xrcmd's write(2) calls, concatenated
     execv HOST USER RANK TAIL CMD WORD* -> ok PATH A0 A1 ... | ub   (execcmd + pipecmd: WORDs = the
                                            remote command words, none = interactive mode, CMD = opt->cmd)
     reg  loaded=L env=S|~ R=S|~ l=S|~ luser=S T=L W=TEXT/L/L ...   (S hex, L = hex+hex+..., W = word
          text / first-level names / final names; RCMD_RANK_LIST comes from Gen)
                                         -> fatal | ok TYPE|HOST|USER|RANK ...   (TYPE `~` = no module)
     xr ERRCH LUSER RUSER CMD BUSY CONNS SLEEPS POLL ACC REPLY  (xrcmd's connection set-up in a scripted
          world, see harness/xrcmd_harness.c)  -> ok|fail EVENT*
  `pdshmodel rcmd spec`  the same lines answered by the specification; additionally
     xrobs ERRCH LUSER RUSER CMD ok|fail EVENT*   -> ok | viol   (Exec/XrcmdSpec.lean `meets`)
-/
namespace Driver.RcmdDrv
open PdshVerif PdshVerif.Exec

def hx (s : List Char) : String := Hex.encodeChars s

def optHx : Option (List Char) → String
  | none => "null"
  | some s => hx s

def variantOf : String → Option Variant
  | "unchanged" => some unchanged
  | "repaired" => some repaired
  | "d10" => some ⟨true, false⟩
  | "d11" => some ⟨false, true⟩
  | _ => none

def decodeAll : List String → Option (List (List Char))
  | [] => some []
  | s :: rest => do
    let a ← Hex.decodeToChars s
    let r ← decodeAll rest
    pure (a :: r)

/-! registry lines -/
open PdshVerif.Opt.Rcmd in
def parseList (s : String) : Option (List Str) :=
  if s = "" then some [] else decodeAll (s.splitOn "+")

def parseOpt (s : String) : Option (Option (List Char)) :=
  if s = "~" then some none else (Hex.decodeToChars s).map some

structure RegCase where
  cfg : Opt.Rcmd.Cfg
  words : List Opt.Rcmd.Word
  targets : List (List Char)
  earlierL : List (List Char) := []     -- ls=: the -l options before the last one, in order

def parseWord (s : String) : Option Opt.Rcmd.Word :=
  match s.splitOn "/" with
  | [t, a, b] => do
    let t ← Hex.decodeToChars t
    let a ← parseList a
    let b ← parseList b
    pure ⟨t, a, b⟩
  | _ => none

def parseReg : List String → RegCase → Option RegCase
  | [], c => some c
  | tok :: rest, c =>
    match tok.splitOn "=" with
    | [k, v] =>
      let c' : Option RegCase :=
        if k = "loaded" then (parseList v).map fun l => { c with cfg := { c.cfg with loaded := l } }
        else if k = "env" then (parseOpt v).map fun o => { c with cfg := { c.cfg with envType := o } }
        else if k = "R" then (parseOpt v).map fun o => { c with cfg := { c.cfg with optR := o } }
        else if k = "l" then (parseOpt v).map fun o => { c with cfg := { c.cfg with optL := o } }
        else if k = "ls" then (parseList v).map fun l => { c with earlierL := l }
        else if k = "luser" then (Hex.decodeToChars v).map fun u => { c with cfg := { c.cfg with luser := u } }
        else if k = "T" then (parseList v).map fun l => { c with targets := l }
        else if k = "W" then (parseWord v).map fun w => { c with words := c.words ++ [w] }
        else none
      match c' with
      | some c' => parseReg rest c'
      | none => none
    | _ => none

def emptyCase : RegCase :=
  ⟨⟨[], Gen.MO_RCMD_RANK_LIST.map String.toList, none, none, none, []⟩, [], [], []⟩

def showLines (ls : List Opt.Rcmd.Line) : String :=
  "ok" ++ String.join (ls.map fun l =>
    " " ++ (match l.rtype with | some t => hx t | none => "~") ++ "|" ++ hx l.host ++ "|" ++ hx l.user ++
    "|" ++ toString l.rank)

def regModel (re : Bool) (toks : List String) : String :=
  match parseReg toks emptyCase with
  | none => "bad-op"
  | some c =>
    match Opt.Rcmd.runCheckedAll (some Gen.MO_LOGIN_NAME_MAX) re c.cfg c.earlierL c.words c.targets with
    | .fatal => "fatal"
    | .lines ls => showLines ls

/-! the same run computed FROM THE COMMAND LINE: the final target list is what C02's model of opt.c + hostlist.c
    (`Opt.Exclude.cliFinal`: every -w / -x optarg as typed, split at commas, annotations stripped by
    get_host_rcmd_type, pushed, exclusions applied, re-expanded) goes on with, and the names a word registers are
    what the same model yields for that word alone -- no host expansion comes from the check any more.
      regcli loaded=L env=S|~ R=S|~ l=S|~ luser=S E=w:OPTARG E=x:OPTARG ...   (E in command-line order) -/
structure CliCase where
  cfg : Opt.Rcmd.Cfg
  evs : List Opt.Exclude.Ev
  earlierL : List (List Char) := []

def parseCli : List String → CliCase → Option CliCase
  | [], c => some c
  | tok :: rest, c =>
    match tok.splitOn "=" with
    | [k, v] =>
      let c' : Option CliCase :=
        if k = "loaded" then (parseList v).map fun l => { c with cfg := { c.cfg with loaded := l } }
        else if k = "env" then (parseOpt v).map fun o => { c with cfg := { c.cfg with envType := o } }
        else if k = "R" then (parseOpt v).map fun o => { c with cfg := { c.cfg with optR := o } }
        else if k = "l" then (parseOpt v).map fun o => { c with cfg := { c.cfg with optL := o } }
        else if k = "ls" then (parseList v).map fun l => { c with earlierL := l }
        else if k = "luser" then (Hex.decodeToChars v).map fun u => { c with cfg := { c.cfg with luser := u } }
        else if k = "E" then
          match v.splitOn ":" with
          | ["w", a] => (Hex.decodeToChars a).map fun a => { c with evs := c.evs ++ [.w a] }
          | ["x", a] => (Hex.decodeToChars a).map fun a => { c with evs := c.evs ++ [.x a] }
          | _ => none
        else none
      match c' with
      | some c' => parseCli rest c'
      | none => none
    | _ => none

def regCli (toks : List String) : String :=
  match parseCli toks ⟨⟨[], Gen.MO_RCMD_RANK_LIST.map String.toList, none, none, none, []⟩, [], []⟩ with
  | none => "bad-op"
  | some c =>
    let hcfg : Hostlist.Cfg := { Hostlist.Cfg.probed with fixPushLoop := true, fix2Br := true }
    let xenv : Opt.Exclude.Env := { files := [], rematch := fun _ _ => none, badre := fun _ => false }
    -- the comma words of the -w options, in order, as wcoll_arg_process gets them
    let wtexts := (c.evs.flatMap fun e => match e with | .w _ => Opt.Exclude.evWords e | .x _ => [])
    let names (w : List Char) : Option (List (List Char)) :=
      -- the word alone through the same path (get_host_rcmd_type strips the annotation exactly once)
      match Opt.Exclude.cliFinal hcfg xenv [.w w] with
      | .ok hs => some hs
      | _ => none
    match wtexts.mapM (fun w => (names w).map fun ns => (⟨w, ns, ns⟩ : Opt.Rcmd.Word)) with
    | none => "fatal"
    | some words =>
      match Opt.Exclude.cliFinal hcfg xenv c.evs with
      | .ok targets =>
        match Opt.Rcmd.runCheckedAll (some Gen.MO_LOGIN_NAME_MAX) false c.cfg c.earlierL words targets with
        | .fatal => "fatal"
        | .lines ls => showLines ls
      | .nohosts => "fatal"
      | .fatal _ => "fatal"
      | _ => "outside"

/-- the specification says nothing about malformed words or unknown module names (the property is
    about runs that take place): `nodomain` -/
def regSpec (toks : List String) : String :=
  match parseReg toks emptyCase with
  | none => "bad-op"
  | some c =>
    let wordsOk := c.words.all fun w =>
      match Opt.Rcmd.Spec.parse w.text with
      | some p => (match p.rtype with | some t => c.cfg.loaded.contains t | none => true)
      | none => false
    let dfl := Opt.Rcmd.Spec.defaultType c.cfg
    let ls := Opt.Rcmd.Spec.expectedLines c.cfg c.words c.targets
    if !wordsOk then "nodomain"
    else if Opt.Rcmd.userTooLong Gen.MO_LOGIN_NAME_MAX c.cfg c.words then "nodomain"
    else if c.earlierL.any (fun u => decide (u.length > Gen.MO_LOGIN_NAME_MAX)) then "nodomain"
    else if (match dfl with | some d => !c.cfg.loaded.contains d | none => false) then "nodomain"
    else if ls.any (·.rtype.isNone) then "nodomain"
    else showLines ls

/-! xrcmd's connection set-up (Exec/Xrcmd.lean) with a scripted world, same protocol as harness/xrcmd_harness.c -/
section xr
open PdshVerif.Exec.Xrcmd

def showConn : Conn → String
  | .ok => "o" | .addrInUse => "a" | .refused => "r" | .other => "x"

def showEv : Ev → String
  | .bind p => s!"b{p}"
  | .connect p r => s!"c{p}:" ++ showConn r
  | .close p => s!"x{p}"
  | .sleep n => s!"s{n}"
  | .listen p => s!"l{p}"
  | .write bs => "w" ++ hx bs
  | .accept src => s!"a{src}"
  | .closeErr => "X"

/-- the scripted privsep_rresvport of the harness: the first port from `start` downwards, not below
    IPPORT_RESERVED/2, that is not in the busy list -/
def resvOf (busy : List Nat) (start : Nat) : Option Nat :=
  if start ≥ 2048 then none
  else ((List.range (start + 1 - IPPORT_RESERVED / 2)).map (start - ·)).find? (fun p => !busy.contains p)

def parseConns (s : String) : Option (List Conn) :=
  if s = "-" then some []
  else s.toList.mapM fun c =>
    if c = 'o' then some Conn.ok else if c = 'a' then some .addrInUse else if c = 'r' then some .refused
    else if c = 'x' then some .other else none

def parseNats (s : String) : Option (List Nat) :=
  if s = "-" then some [] else (s.splitOn ",").mapM String.toNat?

def parseEv (t : String) : Option Ev :=
  let rest := (t.drop 1).toString
  match t.toList.head? with
  | some 'b' => rest.toNat?.map .bind
  | some 'c' =>
    match rest.splitOn ":" with
    | [p, r] => do
      let p ← p.toNat?
      let r ← (if r = "o" then some Conn.ok else if r = "a" then some .addrInUse else if r = "r" then some .refused
               else if r = "x" then some .other else none)
      pure (.connect p r)
    | _ => none
  | some 'x' => rest.toNat?.map .close
  | some 's' => rest.toNat?.map .sleep
  | some 'l' => rest.toNat?.map .listen
  | some 'w' => (Hex.decodeToChars rest).map .write
  | some 'a' => rest.toNat?.map .accept
  | some 'X' => if rest = "" then some .closeErr else none
  | _ => none

/-- xr ERRCH LUSER RUSER CMD BUSY CONNS SLEEPS POLL ACC REPLY -/
def xrModel : List String → String
  | [e, l, r, c, busy, conns, sl, po, acc, reply] =>
    match Hex.decodeToChars l, Hex.decodeToChars r, Hex.decodeToChars c, parseNats busy, parseConns conns with
    | some l, some r, some c, some busy, some conns =>
      let acc : Option (Option Nat) := if acc = "~" then some none else acc.toNat?.map some
      let reply : Option (Option (List Char)) := if reply = "~" then some none else (Hex.decodeToChars reply).map some
      match acc, reply with
      | some acc, some reply =>
        -- a script that runs out answers EHOSTUNREACH, like the harness
        let w : World := ⟨resvOf busy, conns ++ [.other], sl = "1", po = "1", acc, reply⟩
        let res := xrcmd w (e = "1") l r c
        " ".intercalate ((if res.ok then "ok" else "fail") :: (mergeWrites res.evs).map showEv)
      | _, _ => "bad-op"
    | _, _, _, _, _ => "bad-op"
  | _ => "bad-op"

/-- xrobs ERRCH LUSER RUSER CMD ok|fail EVENT* : the observation judged by Exec/XrcmdSpec.lean -/
def xrSpec : List String → String
  | e :: l :: r :: c :: res :: evs =>
    match Hex.decodeToChars l, Hex.decodeToChars r, Hex.decodeToChars c,
          (evs.filter (fun t => !t.startsWith "leak")).mapM parseEv with
    | some l, some r, some c, some evs =>
      if Spec.meets (e = "1") l r c (res = "ok") evs then "ok" else "viol"
    | _, _, _, _ => "bad-op"
  | _ => "bad-op"
end xr

def stepModel (v : Variant) (re : Bool) (sshEsc : Bool) (line : String) : String :=
  match Driver.words line with
  | ["fmt", h, u, r, m] =>
    match Hex.decodeToChars h, Hex.decodeToChars u, r.toNat?, Hex.decodeToChars m with
    | some h, some u, some r, some m =>
      match formatArg v ⟨h, u, r⟩ m with
      | .ok none => "null"
      | .ok (some s) => "ok " ++ hx s
      | .ub => "ub"
    | _, _, _, _ => "bad-op"
  | "args" :: h :: u :: r :: p :: t :: rest =>
    match Hex.decodeToChars h, Hex.decodeToChars u, r.toNat?, Hex.decodeToChars p, Hex.decodeToChars t,
          decodeAll rest with
    | some h, some u, some r, some p, some t, some argv =>
      match cmdArgs v ⟨h, u, r⟩ p argv t with
      | some l => "ok " ++ " ".intercalate (l.map optHx)
      | none => "ub"
    | _, _, _, _, _, _ => "bad-op"
  | ["req", port, l, r, c] =>
    match Hex.decodeToChars l, Hex.decodeToChars r, Hex.decodeToChars c with
    | some l, some r, some c =>
      let p : Option (Option Nat) := if port = "none" then some none else port.toNat?.map some
      match p with
      | some p => hx (rshRequest p l r c)
      | none => "bad-op"
    | _, _, _ => "bad-op"
  | ["writes", port, l, r, c] =>
    match Hex.decodeToChars l, Hex.decodeToChars r, Hex.decodeToChars c with
    | some l, some r, some c =>
      let p : Option (Option Nat) := if port = "none" then some none else port.toNat?.map some
      match p with
      | some p => hx (xrcmdWrites p l r c).flatten
      | none => "bad-op"
    | _, _, _ => "bad-op"
  | "execv" :: h :: u :: r :: t :: c :: rest =>
    match Hex.decodeToChars h, Hex.decodeToChars u, r.toNat?, Hex.decodeToChars t, Hex.decodeToChars c,
          decodeAll rest with
    | some h, some u, some r, some t, some c, some ws =>
      match execCall v ⟨h, u, r⟩ ws c t with
      | some call => "ok " ++ hx call.path ++ " " ++ " ".intercalate (call.argv.map hx)
      | none => "ub"
    | _, _, _, _, _, _ => "bad-op"
  | "ssh" :: h :: lu :: ru :: r :: pcp :: ap :: ar :: dp :: c :: rest =>
    -- ssh HOST LUSER RUSER RANK PCP(0|1) APPEND|~ ARGS|~ DSHPATH|~ CMD WORD*  -> ok A0 A1 ... | ub
    match Hex.decodeToChars h, Hex.decodeToChars lu, Hex.decodeToChars ru, r.toNat?, parseOpt ap, parseOpt ar,
          parseOpt dp, Hex.decodeToChars c, decodeAll rest with
    | some h, some lu, some ru, some r, some ap, some ar, some dp, some c, some ws =>
      match Ssh.sshCall v sshEsc ⟨h, ru, r⟩ ap ar dp lu (pcp = "1") ws c [] with
      | some a => "ok " ++ " ".intercalate (a.map hx)
      | none => "ub"
    | _, _, _, _, _, _, _, _, _ => "bad-op"
  | "reg" :: rest => regModel re rest
  | "regcli" :: rest => regCli rest
  | "xr" :: rest => xrModel rest
  | "xe" :: bs :: rest =>
    -- xe REPLYHEX [old]: the text xrcmd hands to err() when the peer refuses (Exec/XrcmdErr.lean, buffer of
    -- Gen.LINEBUFSIZE bytes); `old` = the copy loop before e2d5199
    match (if bs = "-" then some [] else Hex.decodeToChars bs) with
    | some (c :: tail) =>
      if c = nul then "err ~"
      else
        match XrcmdErr.errText (!rest.contains "old") Gen.LINEBUFSIZE c tail with
        | some t => "err " ++ hx (t.takeWhile (· ≠ nul))
        | none => "ub"
    | some [] => "err ~"
    | none => "bad-op"
  | _ => "bad-op"

def stepSpec (line : String) : String :=
  match Driver.words line with
  | ["fmt", h, u, r, m] =>
    match Hex.decodeToChars h, Hex.decodeToChars u, r.toNat?, Hex.decodeToChars m with
    | some h, some u, some r, some m =>
      -- the argument is the C string at the start of MEM
      if m.contains nul then "ok " ++ hx (Spec.expected ⟨h, u, r⟩ (m.takeWhile (· ≠ nul)))
      else "nodomain"
    | _, _, _, _ => "bad-op"
  | "args" :: h :: u :: r :: p :: _ :: rest =>
    match Hex.decodeToChars h, Hex.decodeToChars u, r.toNat?, Hex.decodeToChars p, decodeAll rest with
    | some h, some u, some r, some p, some argv =>
      "ok " ++ " ".intercalate ((Spec.expectedArgv ⟨h, u, r⟩ p argv).map hx)
    | _, _, _, _, _ => "bad-op"
  | ["parse", bs] =>
    match Hex.decodeToChars bs with
    | some bs =>
      match Spec.parseRequest bs with
      | some (p, l, r, c) => s!"ok {hx p} {hx l} {hx r} {hx c}"
      | none => "malformed"
    | none => "bad-op"
  | "reg" :: rest => regSpec rest
  | "xrobs" :: rest => xrSpec rest
  | _ => "bad-op"

def main (args : List String) : IO UInt32 := do
  let stdin ← IO.getStdin
  match args with
  | "model" :: v :: flags =>
    -- reexpand = the repair of F09-2BR (Opt.Rcmd.reExpand); sshesc = the proposed repair of F09-SSHPCT
    -- (findings/C09-sshpct.patch, Exec.Ssh.escapePct)
    match variantOf v with
    | some v =>
      if flags.all (fun f => f = "reexpand" || f = "sshesc") then
        Driver.forLines stdin () (fun _ l => ((), stepModel v (flags.contains "reexpand") (flags.contains "sshesc") l))
        return 0
      else
        IO.eprintln "flags: reexpand sshesc"; return 2
    | none => IO.eprintln "variant: unchanged|repaired|d10|d11"; return 2
  | ["spec"] => Driver.forLines stdin () (fun _ l => ((), stepSpec l)); return 0
  | _ => IO.eprintln "usage: pdshmodel rcmd model <variant> | spec"; return 2

end Driver.RcmdDrv
