import PdshVerif.Base.Hex
import PdshVerif.Hostlist.Print
import PdshVerif.Hostlist.PrintRangeMove
import PdshVerif.Hostlist.PrintPolicy
import PdshVerif.Hostlist.PrintSpec
import PdshVerif.Hostlist.Parse
import PdshVerif.Hostlist.Probed
import Driver.Util

/-! line protocol of the `print` engine (property C14; the C side is the `p*` ops of
    harness/hl_harness.c):   `pdshmodel print model unchanged|fixed [unchanged|fixed]`
    (first switch: D14, hostlist_deranged_string; second: D2/F14-XLOOP, list_push_hostlist; the parser
    used by `pback` is the probed variant `Cfg.probed` of Hostlist/Probed.lean; optional third switch:
    F14-RANGEMOVE, the record bookkeeping of hostlist_shift_range / hostlist_pop_range)

      list NHOSTS NRANGES PRE:LO:HI:WIDTH:SINGLE ...   the current list, as `dump` prints it   -> ok N
      ptext r|d            reference call with a buffer that is large enough   -> RET HEX [= | spec:HEX]
      psweep r|d NMAX      one call per n = 1..NMAX (NMAX = +K: reference length + K):
                           n results `RET:K:p|X<hex>[:i+i+..]`  (K = position of the first NUL inside
                           [0,n) or `x`; p = the bytes before it are a prefix of the reference text;
                           last field = stores outside [0,n), −1 = below the buffer)
      pexact r|d NMAX      which n make an exact-size heap allocation overflow -> none | crash n:kind,..
      pback r|d            parse the reference text back: same COUNT | diff .. | null:ERRNO:FATAL | ub:..
      pcli q|Q [CAP]       the "-- Target nodes --" line of opt_list for a display capacity of CAP bytes (the caller's
                           buffer policy as OBSERVED on the real pdsh; default 1024, the literal of the code as found)
      pxlist               list_push_hostlist: the text, or `diverge`
      pranges s|p|n        hostlist_shift_range / hostlist_pop_range / hostlist_next_range until NULL: HEX|HEX|.. or none
      pranges S|P          the first two on the records AS GIVEN (joinable neighbours unjoined): .. [!ub]
-/
namespace Driver.PrintDrv
open PdshVerif PdshVerif.Hostlist PdshVerif.Hostlist.Print

def FILL : Char := Char.ofNat 0xA5

structure St where
  fixed : Bool
  xfixed : Bool
  rs : List HRange
  rmfixed : Bool := false

def parseRec (s : String) : Option HRange :=
  match s.splitOn ":" with
  | [p, lo, hi, w, sg] => do
    let pre ← Hex.decodeToChars p
    let lo ← lo.toNat?
    let hi ← hi.toNat?
    let w ← w.toNat?
    pure ⟨pre, lo, hi, w, sg == "1"⟩
  | _ => none

def run (st : St) (kind : String) (n : Nat) : Buf × Res :=
  if kind == "r" then rangedStringL n st.rs else derangedStringL st.fixed n st.rs

def retStr : Res → String
  | .ok k => toString k
  | .trunc => "-1"

/-- cells up to the first NUL inside `[0, n)`; `none` position = no NUL -/
def content (b : Buf) (n : Nat) : List Char × Option Nat :=
  let cells := (b.cells n FILL).toList
  let pre := cells.takeWhile (· ≠ NUL)
  (pre, if pre.length < n then some pre.length else none)

/-- the reference call: sizes 64, 128, .. until the call reports a length inside the buffer -/
def reference (st : St) (kind : String) : Nat → Nat → Nat × Buf × Res
  | 0, n => (n, run st kind n)
  | f + 1, n =>
    match run st kind n with
    | (b, .ok k) => if k < n then (n, b, .ok k) else reference st kind f (2 * n)
    | (_, .trunc) => reference st kind f (2 * n)

def refText (st : St) (kind : String) : Res × List Char :=
  match reference st kind 30 64 with
  | (n, b, r) => (r, (content b n).1)

def dedupSorted (xs : List Nat) : List Nat :=
  (xs.toArray.qsort (· < ·)).toList.eraseDups

def oobField (b : Buf) (n : Nat) : String :=
  let xs := (dedupSorted (b.oob n)).map toString
  let xs := if b.neg then "-1" :: xs else xs
  if xs.isEmpty then "" else ":" ++ "+".intercalate xs

def sweepOne (st : St) (kind : String) (ref : List Char) (n : Nat) : String :=
  match run st kind n with
  | (b, r) =>
    let (pre, k) := content b n
    let ks := match k with | some k => toString k | none => "x"
    let flag := if pre.isPrefixOf ref then "p" else "X" ++ Hex.encodeChars pre
    s!"{retStr r}:{ks}:{flag}" ++ oobField b n

def nmaxOf (s : String) (reflen : Nat) : Option Nat :=
  if s.startsWith "+" then (s.drop 1).toString.toNat?.map (· + reflen) else s.toNat?

def specText (st : St) (kind : String) : List Char :=
  if kind == "r" then PrintSpec.rangedTextL st.rs else PrintSpec.joinComma (st.rs.flatMap HRange.hosts)

def errnoClass (e : Nat) : String :=
  if e = 0 then "0" else if e = EINVAL then "EINVAL" else if e = ERANGE then "ERANGE" else s!"E{e}"

def fatalClass : Fatal → String
  | .none => "-"
  | .invalidRange => "invalid"
  | .tooMany => "toomany"

def firstDiff : List Str → List Str → Nat → Option Nat
  | [], [], _ => none
  | a :: as, b :: bs, i => if a = b then firstDiff as bs (i + 1) else some i
  | _, _, i => some i

def step (st : St) (line : String) : St × String :=
  match Driver.words line with
  | "list" :: _ :: _ :: recs =>
    match recs.mapM parseRec with
    | some rs => ({ st with rs := rs }, s!"ok {rs.length}")
    | none => (st, "bad-op")
  | ["ptext", kind] =>
    let (r, t) := refText st kind
    let sp := specText st kind
    (st, s!"{retStr r} {Hex.encodeChars t} " ++ (if sp = t then "=" else "spec:" ++ Hex.encodeChars sp))
  | ["psweep", kind, nm] =>
    let (_, t) := refText st kind
    match nmaxOf nm t.length with
    | some nmax => (st, " ".intercalate ((List.range' 1 nmax).map (sweepOne st kind t)))
    | none => (st, "bad-op")
  | ["pexact", kind, nm] =>
    let (_, t) := refText st kind
    match nmaxOf nm t.length with
    | some nmax =>
      let bad := (List.range' 1 nmax).filter fun n =>
        match run st kind n with
        | (b, _) => b.neg || !(b.oob n).isEmpty
      -- the harness stops after 48 reports; a report at the last size leaves nothing to resume
      let shown := bad.take 48
      let more := shown.length == 48 && shown.getLast? != some nmax
      (st, if bad.isEmpty then "none"
           else "crash " ++ ",".intercalate (shown.map fun n => s!"{n}:heap-buffer-overflow") ++
             (if more then ",more" else ""))
    | none => (st, "bad-op")
  | ["pback", kind] =>
    let (r, t) := refText st kind
    match r with
    | .trunc => (st, "no-reference")
    | .ok _ =>
      match create Cfg.probed t with
      | .null e f => (st, s!"null:{errnoClass e}:{fatalClass f}")
      | .ub w => (st, "ub:" ++ (w.replace " " "_"))
      | .diverge => (st, "diverge")
      | .ok h =>
        let want := st.rs.flatMap HRange.hosts
        match firstDiff h.hosts want 0 with
        | none => (st, s!"same {want.length}")
        | some i => (st, s!"diff {i} {h.hosts.length} {want.length}")
  | ["pranges", "n"] | ["pranges", "N"] =>
    -- hostlist_next_range on a fresh iterator until NULL (the list itself, nothing is moved)
    let outs := (nextRangeCalls (st.rs.length + 1) st.rs).map fun b =>
      let oob := b.oob RANGEBUF
      Hex.encodeChars (content b RANGEBUF).1 ++ (if oob.isEmpty then "" else "!oob")
    (st, if outs.isEmpty then "none" else "|".intercalate outs)
  | ["pranges", "S"] | ["pranges", "P"] =>
    -- the same two with their record bookkeeping, on the records as given (F14-RANGEMOVE)
    let isS := (Driver.words line)[1]? == some "S"
    let (calls, ub) := if isS then shiftRangeRun st.rmfixed (st.rs.length + 1) st.rs
      else popRangeRun st.rmfixed (st.rs.length + 1) st.rs
    let size := if isS then SHIFTRANGEBUF else RANGEBUF
    let outs := calls.map fun c =>
      let oob := c.2.oob size
      Hex.encodeChars (content c.2 size).1 ++ (if oob.isEmpty then "" else "!oob")
    (st, (if outs.isEmpty then "none" else "|".intercalate outs) ++ (if ub then "!ub" else ""))
  | ["pranges", which] =>
    -- hostlist_shift_range / hostlist_pop_range until NULL: the strings they return, `|`-separated
    -- on the list re-built with hostlist_push_range (joinable neighbours joined), as the harness does
    let rs0 := (st.rs.foldl pushRange HL.new).ranges.toList
    let calls := if which == "s" then shiftRangeCalls (rs0.length + 1) rs0 else popRangeCalls (rs0.length + 1) rs0
    let size := if which == "s" then SHIFTRANGEBUF else RANGEBUF
    let outs := calls.map fun c =>
      let oob := c.2.oob size
      Hex.encodeChars (content c.2 size).1 ++ (if oob.isEmpty then "" else "!oob")
    (st, if outs.isEmpty then "none" else "|".intercalate outs)
  | ["pcli", which] =>
    match optListN WCOLL_STR st.fixed (which == "Q") ⟨st.rs.toArray, 0⟩ with
    | (b, some s) => (st, Hex.encodeChars s ++ oobField b WCOLL_STR)
    | (b, none) => (st, "no-nul" ++ oobField b WCOLL_STR)
  | ["pcli", which, capS] =>
    match capS.toNat? with
    | some cap =>
      match optListN cap st.fixed (which == "Q") ⟨st.rs.toArray, 0⟩ with
      | (b, some s) => (st, Hex.encodeChars s ++ oobField b cap)
      | (b, none) => (st, "no-nul" ++ oobField b cap)
    | none => (st, "bad-op")
  | ["pxlist"] =>
    -- repaired list_push_hostlist: doubling until the text fits (fix b20e58e: no ceiling)
    if st.xfixed then
      match listPushGrow ⟨st.rs.toArray, 0⟩ 64 XLIST_BUF with
      | some (_, s) => (st, Hex.encodeChars s)
      | none => (st, "diverge")
    else
      match listPushHostlist false ⟨st.rs.toArray, 0⟩ with
      | (_, some s) => (st, Hex.encodeChars s)
      | (_, none) => (st, "diverge")
  | _ => (st, "bad-op")

def main (args : List String) : IO UInt32 := do
  let stdin ← IO.getStdin
  let ok (v : String) : Bool := v == "unchanged" || v == "fixed"
  match args with
  | ["model", v] =>
    if ok v then
      Driver.forLines stdin ({ fixed := v == "fixed", xfixed := false, rs := [] } : St) step
      return 0
    else
      IO.eprintln "usage: pdshmodel print model unchanged|fixed [unchanged|fixed]"; return 2
  | ["model", v, x] =>
    if ok v && ok x then
      Driver.forLines stdin ({ fixed := v == "fixed", xfixed := x == "fixed", rs := [] } : St) step
      return 0
    else
      IO.eprintln "usage: pdshmodel print model unchanged|fixed [unchanged|fixed]"; return 2
  | ["model", v, x, r] =>
    if ok v && ok x && ok r then
      Driver.forLines stdin ({ fixed := v == "fixed", xfixed := x == "fixed", rs := [], rmfixed := r == "fixed" } : St) step
      return 0
    else
      IO.eprintln "usage: pdshmodel print model unchanged|fixed [unchanged|fixed [unchanged|fixed]]"; return 2
  | _ => IO.eprintln "usage: pdshmodel print model unchanged|fixed [unchanged|fixed]"; return 2

end Driver.PrintDrv
