import Driver.CbufDrv
import Driver.HlDrv
import Driver.FanDrv
import Driver.RelayDrv
import Driver.TimedDrv
import Driver.ExitDrv
import Driver.RcmdDrv
import Driver.WcollDrv
import Driver.PcpDrv
import Driver.ModDrv
import Driver.OptDrv
import Driver.DshbakDrv
import Driver.SigDrv
import Driver.PrintDrv

/-- `pdshmodel <engine> <args...>`: one engine per model area; each reads protocol lines on stdin -/
def main (args : List String) : IO UInt32 := do
  match args with
  | "cbuf" :: rest => Driver.CbufDrv.main rest
  | "hl" :: rest => Driver.HlDrv.main rest
  | "fan" :: rest => Driver.FanDrv.main rest
  | "relay" :: rest => Driver.RelayDrv.main rest
  | "timed" :: rest => Driver.TimedDrv.main rest
  | "exit" :: rest => Driver.ExitDrv.main rest
  | "rcmd" :: rest => Driver.RcmdDrv.main rest
  | "wcoll" :: rest => Driver.WcollDrv.main rest
  | "pcp" :: rest => Driver.PcpDrv.main rest
  | "mod" :: rest => Driver.ModDrv.main rest
  | "opt" :: rest => Driver.OptDrv.main rest
  | "dshbak" :: rest => Driver.DshbakDrv.main rest
  | "sig" :: rest => Driver.SigDrv.main rest
  | "print" :: rest => Driver.PrintDrv.main rest
  | _ => IO.eprintln "usage: pdshmodel <engine> ..."; return 2
