import Driver.CbufDrv

def main (args : List String) : IO UInt32 := do
  match args with
  | "cbuf" :: rest => Driver.CbufDrv.main rest
  | _ => IO.eprintln "usage: pdshmodel <engine> ..."; return 2
