/-
  hostlist.c: iteration without mutation (`hostlist_iterator_create`, `_iterator_advance`,
  `hostlist_next`), `hostrange_shift`/`hostlist_shift`, `_hostrange_string`/`hostlist_nth`.
  The interaction of live iterators with edits (stale `i->hr`, `hostlist_shift_iterators`) is the
  subject of the edit model (C16) and is added there on top of these definitions.

  DEFECT SWITCHES (fields of `cfg`): D17 `iterSuffix` (suffix[16]); D24 `nthName` (buf[MAXHOSTNAMELEN+16]).
-/
import PdshVerif.Hostlist.Parse

namespace PdshVerif.Hostlist
open PdshVerif.Gen

/-- `struct hostlist_iterator` (idx, depth); `i->hr` is `ranges[idx]` as long as the list is not
    edited while the iterator lives -/
structure Iter where
  idx : Nat
  depth : Int
  deriving Repr, DecidableEq, Inhabited

/-- `hostlist_iterator_create` -/
def Iter.new : Iter := ⟨0, -1⟩

/-- `_iterator_advance`: `++depth > hr->hi - hr->lo` is an `unsigned long` comparison; depth is
    ≥ -1 at entry, so the incremented `int` converts to `unsigned long` unchanged (`toNat`) -/
def iterAdvance (h : HL) (it : Iter) : Iter :=
  match h.ranges[it.idx]? with
  | none => it                                        -- idx > nranges - 1
  | some r =>
    if (it.depth + 1).toNat > subU64 r.hi r.lo then ⟨it.idx + 1, 0⟩ else ⟨it.idx, it.depth + 1⟩

/-- DEFECT D17: `char suffix[16]; snprintf(suffix, 15, "%0*lu", width, lo + depth)` keeps the
    first 14 characters of the formatted number only.   Repaired: the buffer is sized from the
    width (at least 20 digits). -/
def iterSuffix (cfg : Cfg) (s : Str) : Str := if cfg.fixIterSuffix then s else s.take 14

/-- `hostlist_next` -/
def iterNext (cfg : Cfg) (h : HL) (it : Iter) : Option Str × Iter :=
  let it' := iterAdvance h it
  match h.ranges[it'.idx]? with
  | none => (none, it')
  | some r =>
    let suffix := if r.single then []
      else iterSuffix cfg (fmtPad r.width (addU64 r.lo it'.depth.toNat))
    (some (r.pre ++ suffix), it')

/-- `while ((host = hostlist_next(i)))`, at most `limit` names -/
def iterLoop (cfg : Cfg) (h : HL) : Nat → Iter → List Str
  | 0, _ => []
  | n + 1, it =>
    match iterNext cfg h it with
    | (none, _) => []
    | (some x, it') => x :: iterLoop cfg h n it'

/-- the names a fresh iterator yields (what `dsh()` walks), cut off after `limit` names -/
def iterAll (cfg : Cfg) (h : HL) (limit : Nat) : List Str := iterLoop cfg h limit Iter.new

/-! ### shift -/
/-- `hostrange_shift`: malloc(strlen(prefix) + width + 16), snprintf into it -/
def hostrangeShift (r : HRange) : Option Str × HRange :=
  if r.single then (some r.pre, { r with lo := addU64 r.lo 1 })
  else if r.count > 0 then
    (some ((r.pre ++ fmtPad r.width r.lo).take (r.pre.length + r.width + 15)),
     { r with lo := addU64 r.lo 1 })
  else (none, r)

/-- `hostlist_shift` dereferences `hl->hr[0]` when `nhosts > 0`; with no range record left that
    is a NULL dereference (assert / SIGSEGV).  Unreachable for `HL.Good` lists, but REACHABLE from
    `create`: DEFECT D25, a range ending at 2^64-1 is "empty" for `hostrange_empty` after its first
    shift and is deleted with hosts still counted. -/
def shiftCrashes (h : HL) : Bool := h.nhosts > 0 && h.ranges.size = 0

/-- `hostlist_shift` on the range array seen as a list (head = `hl->hr[0]`) and the counter;
    only meaningful when there is a record or `nhosts ≤ 0` (see `shiftCrashes`) -/
def shiftL (rs : List HRange) (nhosts : Int) : Option Str × List HRange × Int :=
  if nhosts > 0 then
    match rs with
    | [] => (none, rs, nhosts)
    | r :: rest =>
      match hostrangeShift r with
      | (host, r') =>
        if r'.empty then (host, rest, nhosts - 1)          -- hostlist_delete_range(hl, 0)
        else (host, r' :: rest, nhosts - 1)
  else (none, rs, nhosts)

/-- `hostlist_shift` (no live iterators) -/
def shift (h : HL) : Option Str × HL :=
  match shiftL h.ranges.toList h.nhosts with
  | (host, rs, n) => (host, ⟨rs.toArray, n⟩)

/-- `while ((host = hostlist_shift(hl)))`, at most `limit` names; `none` = the loop crashed -/
def shiftLoopL : Nat → List HRange → Int → Option (List Str × List HRange × Int)
  | 0, rs, nh => some ([], rs, nh)
  | n + 1, rs, nh =>
    if nh > 0 && rs.isEmpty then none                      -- shiftCrashes
    else
      match shiftL rs nh with
      | (none, rs', nh') => some ([], rs', nh')
      | (some x, rs', nh') =>
        match shiftLoopL n rs' nh' with
        | some (xs, rs'', nh'') => some (x :: xs, rs'', nh'')
        | none => none

def shiftLoop (limit : Nat) (h : HL) : Option (List Str × HL) :=
  (shiftLoopL limit h.ranges.toList h.nhosts).map fun (xs, rs, n) => (xs, ⟨rs.toArray, n⟩)

def shiftAll (h : HL) (limit : Nat) : Option (List Str) := (shiftLoop limit h).map (·.1)

/-! ### nth -/
/-- `MAXHOSTNAMELEN` (sys/param.h: 64) + 15: size handed to `snprintf` in `_hostrange_string` -/
def NTHBUF : Nat := 79

/-- DEFECT D24 (`_hostrange_string`, used by `hostlist_nth` only; no caller inside pdsh):
    `char buf[MAXHOSTNAMELEN+16]; len = snprintf(buf, 79, "%s", prefix);
     snprintf(buf+len, 79-len, "%0*lu", ...)` — names are cut to 78 characters, and for a range
    record whose prefix has ≥ 80 characters `79 - len` wraps to a huge `size_t` and the number is
    written past the array (`none`).   Repaired: a buffer sized from prefix and width. -/
def nthName (cfg : Cfg) (r : HRange) (depth : Nat) : Option Str :=
  if cfg.fixNth then some (if r.single then r.pre else r.pre ++ fmtPad r.width (addU64 r.lo depth))
  else if r.single then some (r.pre.take (NTHBUF - 1))
  else if r.pre.length > NTHBUF then none
  else some ((r.pre ++ fmtPad r.width (addU64 r.lo depth)).take (NTHBUF - 1))

/-- `hostlist_nth(hl, n)` for `n ≥ 0`: `int num_in_range = hostrange_count(..)`;
    `none` = NULL, `some none` = the write past `buf` -/
def nthLoop (cfg : Cfg) : List HRange → Nat → Nat → Option (Option Str)
  | [], _, _ => none
  | r :: rs, n, count =>
    let num := r.count                      -- ≤ 16384 or 0 (wrapped) for parsed records
    if n + 1 ≤ num + count then some (nthName cfg r (n - count))
    else nthLoop cfg rs n (count + num)

def nth (cfg : Cfg) (h : HL) (n : Nat) : Option (Option Str) := nthLoop cfg h.ranges.toList n 0

end PdshVerif.Hostlist
