/-
  `hostlist_uniq` neither loses nor invents a name (C16) — as long as `hostrange_cmp` orders the
  low bounds correctly (repaired D26, or every low bound below 2^31).
-/
import PdshVerif.Hostlist.LemmasPop

namespace PdshVerif.Hostlist
open PdshVerif.Gen

/-! ### the comparator -/
theorem strcmpSign_eq_zero : ∀ (a b : Str), strcmpSign a b = 0 → a = b
  | [], [], _ => rfl
  | [], _ :: _, h => by simp [strcmpSign] at h
  | _ :: _, [], h => by simp [strcmpSign] at h
  | a :: as, b :: bs, h => by
    unfold strcmpSign at h
    by_cases hab : a = b
    · simp only [hab, ↓reduceIte] at h
      rw [hab, strcmpSign_eq_zero as bs h]
    · simp only [hab, ↓reduceIte] at h
      split at h <;> simp at h

theorem prefixCmp_zero {a b : HRange} (h : prefixCmp a b = 0) : a.pre = b.pre ∧ a.single = b.single := by
  unfold prefixCmp at h
  simp only at h
  by_cases hc : strcmpSign a.pre b.pre = 0
  · simp only [hc, ↓reduceIte] at h
    refine ⟨strcmpSign_eq_zero _ _ hc, ?_⟩
    cases ha : a.single <;> cases hb : b.single <;> simp_all
  · simp only [hc, ↓reduceIte] at h

/-- the low bounds are ordered correctly: repaired comparator, or both below 2^31 -/
def CmpOk (cfg : Cfg) (a b : Nat) : Prop := cfg.fixCmpTrunc = true ∨ (a < 2147483648 ∧ b < 2147483648)

theorem loCmp_le {cfg : Cfg} {a b : Nat} (hok : CmpOk cfg a b) (h : loCmp cfg a b ≤ 0) : a ≤ b := by
  unfold loCmp at h
  by_cases hf : cfg.fixCmpTrunc = true
  · simp only [hf, ↓reduceIte] at h
    by_cases h1 : a < b
    · omega
    · by_cases h2 : a = b
      · omega
      · simp [h1, h2] at h
  · rcases hok with hf' | ⟨ha, hb⟩
    · exact absurd hf' hf
    · simp only [hf, Bool.false_eq_true, ↓reduceIte] at h
      by_cases hle : a ≤ b
      · exact hle
      · exfalso
        have hs : subU64 a b = a - b := subU64_of_le (by omega) (by simp [U64]; omega)
        rw [hs] at h
        unfold toInt32 at h
        have hm : (a - b) % 4294967296 = a - b := Nat.mod_eq_of_lt (by omega)
        simp only [hm] at h
        have hlt : a - b < 2147483648 := by omega
        simp only [hlt, ↓reduceIte] at h
        omega

/-- what `uniqLoop` knows about a pair it hands to `hostrange_join` -/
theorem cmp_le_lo {cfg : Cfg} {a b : HRange} (hok : CmpOk cfg a.lo b.lo) (h : ¬ hostrangeCmp cfg a b > 0)
    (hp : prefixCmp a b = 0) (hw : (widthCombine a b).1 = true) : a.lo ≤ b.lo := by
  unfold hostrangeCmp at h
  simp only [hp, ↓reduceIte, hw] at h
  exact loCmp_le hok (by omega)

/-! ### `hostrange_join` -/
theorem mem_hosts_range {r : HRange} (hs : r.single = false) (x : Str) :
    x ∈ r.hosts ↔ ∃ k, r.lo ≤ k ∧ k ≤ r.hi ∧ r.lo ≤ r.hi ∧ x = r.pre ++ fmtPad r.width k := by
  simp only [HRange.hosts, hs, Bool.false_eq_true, ↓reduceIte, List.mem_map, List.mem_range'_1]
  constructor
  · rintro ⟨k, ⟨h1, h2⟩, rfl⟩
    exact ⟨k, h1, by omega, by omega, rfl⟩
  · rintro ⟨k, h1, h2, h3, rfl⟩
    exact ⟨k, ⟨h1, by omega⟩, rfl⟩

/-- `hostrange_join` on two good records with `h1.lo ≤ h2.lo` whenever it gets that far: no join
    leaves both denotations alone, a join makes the first record denote the union -/
theorem hostrangeJoin_spec {a b : HRange} (ha : a.Good) (hb : b.Good)
    (hlo : prefixCmp a b = 0 → (widthCombine a b).1 = true → a.lo ≤ b.lo) :
    match hostrangeJoin a b with
    | (none, a', b') => a'.hosts = a.hosts ∧ b'.hosts = b.hosts ∧ a'.Good ∧ b'.Good ∧ a'.lo = a.lo ∧ b'.lo = b.lo
    | (some _, a', _) => (∀ x, x ∈ a'.hosts ↔ x ∈ a.hosts ∨ x ∈ b.hosts) ∧ a'.Good ∧ a'.lo = a.lo := by
  unfold hostrangeJoin
  by_cases hp : prefixCmp a b = 0
  · simp only [hp, ↓reduceIte]
    obtain ⟨hpre, hsing⟩ := prefixCmp_zero hp
    generalize hw : widthCombine a b = w
    obtain ⟨ok, w1, w2⟩ := w
    cases ok with
    | false => exact ⟨rfl, rfl, ha, hb, rfl, rfl⟩
    | true =>
      simp only
      have hle := hlo hp (by rw [hw])
      obtain ⟨h1, h2, h3⟩ := widthEquiv_sound hw
      rcases Bool.eq_false_or_eq_true a.single with has | has
      · have hbs : b.single = true := by rw [← hsing]; exact has
        have hcond : (a.single && b.single) = true := by simp [has, hbs]
        simp only [hcond, ↓reduceIte]
        refine ⟨fun x => ?_, ⟨fun _ => ha.1 has, fun h => absurd (show a.single = false from h) (by simp [has])⟩, trivial⟩
        simp [HRange.hosts, has, hbs, hpre]
      · have hbs : b.single = false := by rw [← hsing]; exact has
        obtain ⟨ale, alt⟩ := ha.2 has
        obtain ⟨ble, blt⟩ := hb.2 hbs
        have hcond : (a.single && b.single) = false := by simp [has]
        simp only [hcond, Bool.false_eq_true, ↓reduceIte]
        -- the width rewrite alone changes no name
        have hawid : ({ a with width := w1 } : HRange).hosts = a.hosts := by
          simp only [HRange.hosts, has, Bool.false_eq_true, ↓reduceIte]
          apply List.map_congr_left
          intro k hk
          simp at hk
          rw [h1 k (by omega)]
        have hbwid : ({ b with width := w2 } : HRange).hosts = b.hosts := by
          simp only [HRange.hosts, hbs, Bool.false_eq_true, ↓reduceIte]
          apply List.map_congr_left
          intro k hk
          simp at hk
          rw [h2 k (by omega)]
        have hagood : ({ a with width := w1 } : HRange).Good :=
          ⟨fun h => by simp [has] at h, fun _ => ⟨ale, alt⟩⟩
        have hbgood : ({ b with width := w2 } : HRange).Good :=
          ⟨fun h => by simp [hbs] at h, fun _ => ⟨ble, blt⟩⟩
        -- membership in the grown record
        have hgrow : ∀ x, x ∈ ({ a with width := w1, hi := b.hi } : HRange).hosts ↔
            ∃ k, a.lo ≤ k ∧ k ≤ b.hi ∧ x = a.pre ++ fmtPad w1 k := by
          intro x
          rw [mem_hosts_range (by simpa using has)]
          constructor
          · rintro ⟨k, h1, h2, _, rfl⟩; exact ⟨k, h1, h2, rfl⟩
          · rintro ⟨k, h1, h2, rfl⟩; exact ⟨k, h1, h2, by simp only; omega, rfl⟩
        have hmema : ∀ x, x ∈ a.hosts ↔ ∃ k, a.lo ≤ k ∧ k ≤ a.hi ∧ x = a.pre ++ fmtPad w1 k := by
          intro x
          rw [mem_hosts_range has]
          constructor
          · rintro ⟨k, h1', h2', _, rfl⟩; exact ⟨k, h1', h2', by rw [h1 k h1']⟩
          · rintro ⟨k, h1', h2', rfl⟩; exact ⟨k, h1', h2', ale, by rw [h1 k h1']⟩
        have hmemb : ∀ x, x ∈ b.hosts ↔ ∃ k, b.lo ≤ k ∧ k ≤ b.hi ∧ x = a.pre ++ fmtPad w1 k := by
          intro x
          rw [mem_hosts_range hbs]
          constructor
          · rintro ⟨k, h1', h2', _, rfl⟩; exact ⟨k, h1', h2', by rw [hpre, h3, h2 k h1']⟩
          · rintro ⟨k, h1', h2', rfl⟩; exact ⟨k, h1', h2', ble, by rw [hpre, h3, h2 k h1']⟩
        have hgrowgood : ({ a with width := w1, hi := b.hi } : HRange).Good :=
          ⟨fun h => by simp [has] at h, fun _ => ⟨by simp only; omega, blt⟩⟩
        by_cases hadj : a.hi = subU64 b.lo 1
        · simp only [hadj, ↓reduceIte]
          have hblo : b.lo = a.hi + 1 := by
            by_cases h0 : b.lo = 0
            · rw [h0, subU64_zero_one] at hadj; omega
            · have hu : ULONG_MAX + 1 = U64 := by decide
              rw [subU64_of_le (by omega) (by omega)] at hadj; omega
          refine ⟨fun x => ?_, hgrowgood, trivial⟩
          rw [hgrow, hmema, hmemb]
          constructor
          · rintro ⟨k, h1', h2', rfl⟩
            by_cases hk : k ≤ a.hi
            · exact Or.inl ⟨k, h1', hk, rfl⟩
            · exact Or.inr ⟨k, by omega, h2', rfl⟩
          · rintro (⟨k, h1', h2', rfl⟩ | ⟨k, h1', h2', rfl⟩)
            · exact ⟨k, h1', by omega, rfl⟩
            · exact ⟨k, by omega, h2', rfl⟩
        · simp only [hadj, ↓reduceIte]
          by_cases hov : a.hi ≥ b.lo
          · simp only [hov, ↓reduceIte]
            by_cases hlt : a.hi < b.hi
            · simp only [hlt, ↓reduceIte]
              refine ⟨fun x => ?_, hgrowgood, trivial⟩
              rw [hgrow, hmema, hmemb]
              constructor
              · rintro ⟨k, h1', h2', rfl⟩
                by_cases hk : k ≤ a.hi
                · exact Or.inl ⟨k, h1', hk, rfl⟩
                · exact Or.inr ⟨k, by omega, h2', rfl⟩
              · rintro (⟨k, h1', h2', rfl⟩ | ⟨k, h1', h2', rfl⟩)
                · exact ⟨k, h1', by omega, rfl⟩
                · exact ⟨k, by omega, h2', rfl⟩
            · simp only [hlt, ↓reduceIte]
              refine ⟨fun x => ?_, hagood, trivial⟩
              rw [hawid, hmema, hmemb]
              constructor
              · intro h; exact Or.inl h
              · rintro (h | ⟨k, h1', h2', rfl⟩)
                · exact h
                · exact ⟨k, by omega, by omega, rfl⟩
          · simp only [hov, ↓reduceIte]
            exact ⟨hawid, hbwid, hagood, hbgood, trivial, trivial⟩
  · rw [if_neg hp]
    exact ⟨rfl, rfl, ha, hb, rfl, rfl⟩

/-! ### sorting is a permutation -/
theorem insertSorted_perm (cfg : Cfg) (x : RObj) : ∀ l : List RObj, (insertSorted cfg x l).Perm (x :: l)
  | [] => by simp [insertSorted]
  | y :: ys => by
    unfold insertSorted
    split
    · exact ((insertSorted_perm cfg x ys).cons y).trans (List.Perm.swap x y ys)
    · exact List.Perm.refl _

theorem foldl_insertSorted_perm (cfg : Cfg) : ∀ (l acc : List RObj),
    (l.foldl (fun acc x => insertSorted cfg x acc) acc).Perm (l.reverse ++ acc)
  | [], acc => by simp
  | x :: xs, acc => by
    simp only [List.foldl_cons, List.reverse_cons, List.append_assoc, List.singleton_append]
    exact (foldl_insertSorted_perm cfg xs _).trans ((insertSorted_perm cfg x acc).append_left _)

theorem sortRanges_perm (cfg : Cfg) (rs : List RObj) : (sortRanges cfg rs).Perm rs := by
  unfold sortRanges
  have := foldl_insertSorted_perm cfg rs []
  simp only [List.append_nil] at this
  exact this.trans (List.reverse_perm rs)

/-! ### positions -/
theorem split_two {α : Type} : ∀ (rs : List α) (j : Nat) (a b : α), rs[j]? = some a → rs[j + 1]? = some b →
    rs = rs.take j ++ a :: b :: rs.drop (j + 2)
  | [], _, _, _, h, _ => by simp at h
  | x :: xs, 0, a, b, h1, h2 => by
    simp only [List.getElem?_cons_zero, Option.some.injEq] at h1
    cases xs with
    | nil => simp at h2
    | cons y ys =>
      simp only [Nat.zero_add, List.getElem?_cons_succ, List.getElem?_cons_zero, Option.some.injEq] at h2
      simp [h1, h2]
  | x :: xs, j + 1, a, b, h1, h2 => by
    simp only [List.getElem?_cons_succ] at h1 h2
    have := split_two xs j a b h1 h2
    simp only [List.take_succ_cons, List.cons_append, List.drop_succ_cons, List.cons.injEq, true_and]
    exact this

theorem map_modify_set {α β : Type} (g : α → β) (f : α → α) (v : β) (hv : ∀ o, g (f o) = v) :
    ∀ (l : List α) (i : Nat), (l.modify i f).map g = (l.map g).set i v
  | [], _ => by simp
  | x :: xs, 0 => by simp [hv]
  | x :: xs, i + 1 => by simp [map_modify_set g f v hv xs i]

theorem setAt_ranges (e : EL) (i : Nat) (r : HRange) : (e.setAt i r).ranges = e.ranges.set i r := by
  unfold EL.setAt EL.ranges
  exact map_modify_set (fun o : RObj => o.r) (fun o : RObj => { o with r := r }) r (fun _ => rfl) e.rs i

theorem set_two {α : Type} (A : List α) (a b a' b' : α) (B : List α) :
    ((A ++ a :: b :: B).set A.length a').set (A.length + 1) b' = A ++ a' :: b' :: B := by
  simp [List.set_append]

/-! ### the loop -/
/-- what the loop keeps: good records, correctly comparable low bounds, the same set of names -/
def UniqInv (cfg : Cfg) (names : List Str) (rs : List HRange) : Prop :=
  (∀ r ∈ rs, r.Good) ∧ (cfg.fixCmpTrunc = true ∨ ∀ r ∈ rs, r.lo < 2147483648) ∧
  ∀ x, x ∈ hostsL rs ↔ x ∈ names

theorem uniqLoop_inv (cfg : Cfg) (names : List Str) : ∀ (fuel : Nat) (e : EL) (i : Nat) (e' : EL),
    UniqInv cfg names e.ranges → uniqLoop cfg fuel e i = some e' → UniqInv cfg names e'.ranges
  | 0, e, _, e', hinv, h => by
    simp only [uniqLoop, Option.some.injEq] at h; rw [← h]; exact hinv
  | fuel + 1, e, i, e', hinv, h => by
    unfold uniqLoop at h
    have hget : ∀ k : Nat, e.rs[k]? = none ∨ ∃ o : RObj, e.rs[k]? = some o ∧ e.ranges[k]? = some o.r := by
      intro k
      cases hk : e.rs[k]? with
      | none => exact Or.inl rfl
      | some o => exact Or.inr ⟨o, rfl, by simp [EL.ranges, hk]⟩
    rcases hget (i - 1) with h1 | ⟨a, h1, h1r⟩
    · simp only [h1, Option.some.injEq] at h; rw [← h]; exact hinv
    rcases hget i with h2 | ⟨b, h2, h2r⟩
    · simp only [h1, h2, Option.some.injEq] at h; rw [← h]; exact hinv
    simp only [h1, h2] at h
    by_cases hi0 : i = 0
    · simp only [hi0, ↓reduceIte, Option.some.injEq] at h; rw [← h]; exact hinv
    simp only [hi0, ↓reduceIte] at h
    by_cases hc : hostrangeCmp cfg a.r b.r > 0
    · simp [hc] at h
    simp only [hc, ↓reduceIte] at h
    obtain ⟨hgood, hbound, hnames⟩ := hinv
    -- the pair sits at positions i-1, i
    have hi : i - 1 + 1 = i := by omega
    have hsplit := split_two e.ranges (i - 1) a.r b.r h1r (by rw [hi]; exact h2r)
    generalize hA : e.ranges.take (i - 1) = A at hsplit
    generalize hB : e.ranges.drop (i - 1 + 2) = B at hsplit
    have hAlen : A.length = i - 1 := by
      rw [← hA, List.length_take]
      have : i - 1 < e.ranges.length := by
        rcases List.getElem?_eq_some_iff.mp h1r with ⟨hlt, _⟩; exact hlt
      omega
    have hag : a.r.Good := hgood _ (by rw [hsplit]; simp)
    have hbg : b.r.Good := hgood _ (by rw [hsplit]; simp)
    have hok : CmpOk cfg a.r.lo b.r.lo := by
      rcases hbound with hf | hb
      · exact Or.inl hf
      · exact Or.inr ⟨hb _ (by rw [hsplit]; simp), hb _ (by rw [hsplit]; simp)⟩
    have hjoin := hostrangeJoin_spec hag hbg (fun hp hw => cmp_le_lo hok hc hp hw)
    have hset : ∀ a' b', ((e.setAt (i - 1) a').setAt i b').ranges = A ++ a' :: b' :: B := by
      intro a' b'
      rw [setAt_ranges, setAt_ranges, hsplit]
      have := set_two A a.r b.r a' b' B
      rw [hAlen, hi] at this
      exact this
    generalize hj : hostrangeJoin a.r b.r = j at h hjoin
    obtain ⟨res, a', b'⟩ := j
    cases res with
    | none =>
      simp only at h hjoin
      obtain ⟨ha', hb', hag', hbg', hal, hbl⟩ := hjoin
      refine uniqLoop_inv cfg names fuel _ _ e' ⟨?_, ?_, ?_⟩ h
      · rw [hset]
        intro q hq
        simp only [List.mem_append, List.mem_cons] at hq
        rcases hq with hq | rfl | rfl | hq
        · exact hgood q (by rw [hsplit]; simp [hq])
        · exact hag'
        · exact hbg'
        · exact hgood q (by rw [hsplit]; simp [hq])
      · rcases hbound with hf | hb
        · exact Or.inl hf
        · right
          rw [hset]
          intro q hq
          simp only [List.mem_append, List.mem_cons] at hq
          rcases hq with hq | rfl | rfl | hq
          · exact hb q (by rw [hsplit]; simp [hq])
          · rw [hal]; exact hb _ (by rw [hsplit]; simp)
          · rw [hbl]; exact hb _ (by rw [hsplit]; simp)
          · exact hb q (by rw [hsplit]; simp [hq])
      · intro x
        rw [← hnames x, hset, hsplit]
        simp only [hostsL, List.flatMap_append, List.flatMap_cons, ha', hb']
    | some nd =>
      simp only at h hjoin
      obtain ⟨hmem, hag', hal⟩ := hjoin
      have hdel : (deleteRange cfg ((e.setAt (i - 1) a').setAt i b') i).ranges = A ++ a' :: B := by
        rw [(deleteRange_ranges cfg _ i).1, hset]
        have : i = (A ++ [a']).length := by simp [hAlen]; omega
        have e1 : A ++ a' :: b' :: B = (A ++ [a']) ++ b' :: B := by simp
        rw [e1, this, eraseIdx_mid]; simp
      refine uniqLoop_inv cfg names fuel _ _ e' ⟨?_, ?_, ?_⟩ h
      · show ∀ r ∈ (deleteRange cfg ((e.setAt (i - 1) a').setAt i b') i).ranges, r.Good
        rw [hdel]
        intro q hq
        simp only [List.mem_append, List.mem_cons] at hq
        rcases hq with hq | rfl | hq
        · exact hgood q (by rw [hsplit]; simp [hq])
        · exact hag'
        · exact hgood q (by rw [hsplit]; simp [hq])
      · rcases hbound with hf | hb
        · exact Or.inl hf
        · right
          show ∀ r ∈ (deleteRange cfg ((e.setAt (i - 1) a').setAt i b') i).ranges, _
          rw [hdel]
          intro q hq
          simp only [List.mem_append, List.mem_cons] at hq
          rcases hq with hq | rfl | hq
          · exact hb q (by rw [hsplit]; simp [hq])
          · rw [hal]; exact hb _ (by rw [hsplit]; simp)
          · exact hb q (by rw [hsplit]; simp [hq])
      · intro x
        show x ∈ hostsL (deleteRange cfg ((e.setAt (i - 1) a').setAt i b') i).ranges ↔ _
        rw [← hnames x, hdel, hsplit]
        simp only [hostsL, List.flatMap_append, List.flatMap_cons, List.mem_append, hmem x]
        constructor
        · rintro (h | (h | h) | h)
          · exact Or.inl h
          · exact Or.inr (Or.inl h)
          · exact Or.inr (Or.inr (Or.inl h))
          · exact Or.inr (Or.inr (Or.inr h))
        · rintro (h | h | h | h)
          · exact Or.inl h
          · exact Or.inr (Or.inl (Or.inl h))
          · exact Or.inr (Or.inl (Or.inr h))
          · exact Or.inr (Or.inr h)

/-- UNIQ: `hostlist_uniq` neither loses nor invents a name, provided `hostrange_cmp` orders the low
    bounds as numbers (repaired D26, or every low bound below 2^31) -/
theorem uniqE_names (cfg : Cfg) (e e' : EL) (hg : ∀ r ∈ e.ranges, r.Good)
    (hb : cfg.fixCmpTrunc = true ∨ ∀ r ∈ e.ranges, r.lo < 2147483648) (h : uniqE cfg e = some e') :
    (∀ x, x ∈ e'.hosts ↔ x ∈ e.hosts) ∧ ∀ r ∈ e'.ranges, r.Good := by
  unfold uniqE at h
  by_cases hlen : e.rs.length ≤ 1 ∧ cfg.fixUniqReset = false
  · simp only [hlen, and_self, ↓reduceIte, Option.some.injEq] at h
    rw [← h]; exact ⟨fun _ => Iff.rfl, hg⟩
  · simp only [hlen, ↓reduceIte] at h
    cases hl : uniqLoop cfg (2 * e.rs.length + 2) { e with rs := sortRanges cfg e.rs } 1 with
    | none => simp [hl] at h
    | some e1 =>
      simp only [hl, Option.some.injEq] at h
      have hperm : (sortRanges cfg e.rs).Perm e.rs := sortRanges_perm cfg e.rs
      have hpr : (EL.ranges { e with rs := sortRanges cfg e.rs }).Perm e.ranges := hperm.map _
      have hinv : UniqInv cfg e.hosts (EL.ranges { e with rs := sortRanges cfg e.rs }) := by
        refine ⟨fun r hr => hg r (hpr.mem_iff.mp hr), ?_, fun x => ?_⟩
        · rcases hb with hf | hb
          · exact Or.inl hf
          · exact Or.inr fun r hr => hb r (hpr.mem_iff.mp hr)
        · simp only [hostsL, EL.hosts, List.mem_flatMap]
          constructor
          · rintro ⟨r, hr, hx⟩; exact ⟨r, hpr.mem_iff.mp hr, hx⟩
          · rintro ⟨r, hr, hx⟩; exact ⟨r, hpr.mem_iff.mpr hr, hx⟩
      obtain ⟨hg1, _, hn1⟩ := uniqLoop_inv cfg e.hosts _ _ 1 e1 hinv hl
      have hr : e'.ranges = e1.ranges := by rw [← h]; rfl
      exact ⟨fun x => by show x ∈ hostsL e'.ranges ↔ _; rw [hr]; exact hn1 x, by rw [hr]; exact hg1⟩

end PdshVerif.Hostlist
