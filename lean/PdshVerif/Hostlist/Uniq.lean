/-
  hostlist.c: `hostrange_cmp`, `hostrange_join`, `_attempt_range_join`, `hostlist_uniq`.
  `qsort` is "some permutation sorted by the comparator"; the executable model uses a stable
  insertion sort (glibc's merge sort is stable too; where the comparator is not a consistent order
  the check compares multisets only).  The comparator's in-place width rewrite
  (`hostrange_width_combine`) is not applied while sorting: it never changes a printed name
  (`widthEquiv_sound`), only which later pairs count as width-compatible.
-/
import PdshVerif.Hostlist.Edit

namespace PdshVerif.Hostlist
open PdshVerif.Gen

/-- `(int)` of an `unsigned long` difference -/
def toInt32 (n : Nat) : Int :=
  let m := n % 4294967296
  if m < 2147483648 then m else (m : Int) - 4294967296

/-- `strcmp` on byte strings: sign of the first difference -/
def strcmpSign : Str → Str → Int
  | [], [] => 0
  | [], _ :: _ => -1
  | _ :: _, [] => 1
  | a :: as, b :: bs => if a = b then strcmpSign as bs else if a.toNat < b.toNat then -1 else 1

/-- `hostrange_prefix_cmp` -/
def prefixCmp (a b : HRange) : Int :=
  let c := strcmpSign a.pre b.pre
  if c = 0 then (if b.single then 1 else 0) - (if a.single then 1 else 0) else c

/-- the low bounds compared: DEFECT D26, `h1->lo - h2->lo` is an `unsigned long` difference returned
    as `int`: low bounds 2^31 or more apart compare the wrong way round (or "equal"), the records
    are sorted / accepted in the wrong order and `hostrange_join` (which assumes h1.lo ≤ h2.lo)
    swallows the second record: `x[0-5],x[2147483653]` loses x0 … x5 in `hostlist_uniq`.
    Repaired: `(h1->lo > h2->lo) - (h1->lo < h2->lo)`. -/
def loCmp (cfg : Cfg) (a b : Nat) : Int :=
  if cfg.fixCmpTrunc then (if a < b then -1 else if a = b then 0 else 1)
  else toInt32 (subU64 a b)

/-- `hostrange_cmp`: prefix, then (compatible widths) low bound, else width -/
def hostrangeCmp (cfg : Cfg) (a b : HRange) : Int :=
  let c := prefixCmp a b
  if c = 0 then
    (if (widthCombine a b).1 then loCmp cfg a.lo b.lo else (a.width : Int) - b.width)
  else c

/-- stable insertion: `x` goes behind every element that does not compare greater -/
def insertSorted (cfg : Cfg) (x : RObj) : List RObj → List RObj
  | [] => [x]
  | y :: ys => if hostrangeCmp cfg y.r x.r ≤ 0 then y :: insertSorted cfg x ys else x :: y :: ys

def sortRanges (cfg : Cfg) (rs : List RObj) : List RObj := rs.foldl (fun acc x => insertSorted cfg x acc) []

/-- `hostrange_join(h1, h2)`: `none` = -1 (no join), otherwise the number of duplicated hosts;
    and both records afterwards (`hostrange_width_combine` may rewrite either width even when no
    join follows; a join changes `h1->hi`) -/
def hostrangeJoin (h1 h2 : HRange) : Option Int × HRange × HRange :=
  if prefixCmp h1 h2 = 0 then
    match widthCombine h1 h2 with
    | (true, w1, w2) =>
      let a := { h1 with width := w1 }
      let b := { h2 with width := w2 }
      if h1.single && h2.single then (some 1, a, b)
      else if h1.hi = subU64 h2.lo 1 then (some 0, { a with hi := h2.hi }, b)
      else if h1.hi ≥ h2.lo then
        (if h1.hi < h2.hi then (some (toInt32 (addU64 (subU64 h1.hi h2.lo) 1)), { a with hi := h2.hi }, b)
         else (some (toInt32 h2.count), a, b))
      else (none, a, b)
    | (false, _, _) => (none, h1, h2)
  else (none, h1, h2)

/-- the loop of `hostlist_uniq`: `i` runs over the array, a successful join deletes record `i`;
    `none` = the `assert(hostrange_cmp(h1, h2) <= 0)` of `hostrange_join` fails (harness flavour
    with assertions; the shipped build goes on with the precondition violated) -/
def uniqLoop (cfg : Cfg) : Nat → EL → Nat → Option EL
  | 0, e, _ => some e
  | fuel + 1, e, i =>
    match e.rs[i - 1]?, e.rs[i]? with
    | some a, some b =>
      if i = 0 then some e
      else if hostrangeCmp cfg a.r b.r > 0 then none
      else
        match hostrangeJoin a.r b.r with
        | (some ndup, a', b') =>
          let e1 := deleteRange cfg ((e.setAt (i - 1) a').setAt i b') i
          uniqLoop cfg fuel { e1 with nhosts := e1.nhosts - ndup } i
        | (none, a', b') => uniqLoop cfg fuel ((e.setAt (i - 1) a').setAt i b') (i + 1)
    | _, _ => some e

/-- `hostlist_uniq`.  FINDING F16-UNIQ-NORESET: as found, a list of at most one range record is left
    alone by an early return — iterators included, which every other call resets.  Repaired: no
    early return (sorting and joining one record does nothing; the iterators are reset). -/
def uniqE (cfg : Cfg) (e : EL) : Option EL :=
  if e.rs.length ≤ 1 ∧ cfg.fixUniqReset = false then some e
  else
    match uniqLoop cfg (2 * e.rs.length + 2) { e with rs := sortRanges cfg e.rs } 1 with
    | none => none
    | some e1 => some { e1 with its := e1.its.map fun (k, _) => (k, e1.resetIt) }

end PdshVerif.Hostlist
