/-
  Lemmas for the REPAIRED variants of the parser (cfg switches as hypotheses): non-numeric range
  items fail (D16), unbalanced tokens fail (D22 + D16), no call diverges or reads an unterminated
  buffer (D15/D25 + D18).
-/
import PdshVerif.Hostlist.LemmasCreate

namespace PdshVerif.Hostlist
open PdshVerif.Gen

/-! ### `cutAt` / `splitAll` characterisations -/
theorem cutAt_spec (c : Char) : ∀ (s : Str),
    (∃ a, cutAt c s = (a, none) ∧ s = a ∧ c ∉ a) ∨
    (∃ a b, cutAt c s = (a, some b) ∧ s = a ++ c :: b ∧ c ∉ a)
  | [] => Or.inl ⟨[], rfl, rfl, by simp⟩
  | x :: xs => by
    by_cases hx : x = c
    · right; exact ⟨[], xs, by simp [cutAt, hx], by simp [hx], by simp⟩
    · rcases cutAt_spec c xs with ⟨a, h1, h2, h3⟩ | ⟨a, b, h1, h2, h3⟩
      · left
        refine ⟨x :: a, by simp [cutAt, hx, h1], by rw [h2], ?_⟩
        simp only [List.mem_cons, not_or]; exact ⟨fun e => hx e.symm, h3⟩
      · right
        refine ⟨x :: a, b, by simp [cutAt, hx, h1], by rw [h2]; rfl, ?_⟩
        simp only [List.mem_cons, not_or]; exact ⟨fun e => hx e.symm, h3⟩

theorem mem_splitAll {c x : Char} (hxc : x ≠ c) : ∀ (s : Str), x ∈ s → ∃ it ∈ splitAll c s, x ∈ it
  | [], h => by simp at h
  | y :: ys, h => by
    by_cases hy : y = c
    · have hx : x ∈ ys := by
        rcases List.mem_cons.mp h with e | e
        · exact absurd (e.trans hy) hxc
        · exact e
      obtain ⟨it, hit, hm⟩ := mem_splitAll hxc ys hx
      exact ⟨it, by simp [splitAll, hy, hit], hm⟩
    · simp only [splitAll, hy, ↓reduceIte]
      rcases List.mem_cons.mp h with e | e
      · cases hsp : splitAll c ys with
        | nil => exact ⟨[y], by simp, by simp [e]⟩
        | cons p ps => exact ⟨y :: p, by simp, by simp [e]⟩
      · obtain ⟨it, hit, hm⟩ := mem_splitAll hxc ys e
        cases hsp : splitAll c ys with
        | nil => rw [hsp] at hit; simp at hit
        | cons p ps =>
          rw [hsp] at hit
          rcases List.mem_cons.mp hit with rfl | hit
          · exact ⟨y :: it, by simp, by simp [hm]⟩
          · exact ⟨it, by simp [hit], hm⟩

/-! ### D16 repaired: a range item is `digits` or `digits-digits`, or it fails -/
/-- the item is a non-empty digit string, optionally followed by `-` and another one -/
def numericItem (s : Str) : Bool :=
  match cutAt '-' s with
  | (lo, none) => !lo.isEmpty && lo.all isDigit
  | (lo, some hi) => !lo.isEmpty && lo.all isDigit && !hi.isEmpty && hi.all isDigit

theorem strtoul_nil : (strtoul []).converted = false := by decide

theorem nonnumeric_fails (cfg : Cfg) (hfix : cfg.fixDigits = true) (e : Nat) (s : Str)
    (h : numericItem s = false) : parseSingleRange cfg e s = .fail EINVAL .invalidRange := by
  unfold numericItem at h
  unfold parseSingleRange
  generalize cutAt '-' s = c at h ⊢
  obtain ⟨lo, p⟩ := c
  simp only
  split
  · rfl
  · split
    · rfl
    · rename_i hb
      -- the bound texts passed the digit test: the low text must then be empty
      have hlo : lo = [] := by
        cases p with
        | none =>
          simp only [boundsOk, loTextOk, hfix, Bool.not_true, Bool.false_or, Bool.not_eq_true] at hb
          simp only at h
          cases lo with
          | nil => rfl
          | cons c cs =>
            simp only [List.isEmpty_cons, Bool.not_false, Bool.true_and] at h
            simp [h] at hb
        | some hi =>
          simp only [boundsOk, loTextOk, hiTextOk, hfix, Bool.not_true, Bool.false_or,
            Bool.not_eq_true] at hb
          simp only at h
          cases lo with
          | nil => rfl
          | cons c cs =>
            simp only [List.isEmpty_cons, Bool.not_false, Bool.true_and] at h
            have h1 : (c :: cs).all isDigit = true := by
              cases hh : (c :: cs).all isDigit with
              | true => rfl
              | false => simp [hh] at hb
            have h2 : (!hi.isEmpty && hi.all isDigit) = true := by
              cases hh : (!hi.isEmpty && hi.all isDigit) with
              | true => rfl
              | false => simp [hh] at hb
            simp only [Bool.and_eq_true] at h2
            simp [h1, h2.1, h2.2] at h
      subst hlo
      simp [strtoul_nil]

/-! ### a failing item makes the whole range list fail -/
theorem parseRangeItems_fail (cfg : Cfg) : ∀ (items : List Str) (count e : Nat) (acc : Array SR),
    (∃ it ∈ items, ∀ e, ∃ e' f, parseSingleRange cfg e it = .fail e' f) →
    ∃ e' f, parseRangeItems cfg items count e acc = .fail e' f
  | [], _, _, _, h => by obtain ⟨it, hit, _⟩ := h; simp at hit
  | x :: xs, count, e, acc, h => by
    unfold parseRangeItems
    split
    · exact ⟨e, .none, rfl⟩
    · cases hp : parseSingleRange cfg e x with
      | fail e' f => exact ⟨e', f, rfl⟩
      | ok r e' =>
        simp only
        obtain ⟨it, hit, hf⟩ := h
        rcases List.mem_cons.mp hit with rfl | hit
        · obtain ⟨e'', f, hff⟩ := hf e
          rw [hp] at hff; simp at hff
        · exact parseRangeItems_fail cfg xs (count + 1) e' (acc.push r) ⟨it, hit, hf⟩

theorem item_with_bracket_fails (cfg : Cfg) (hfix : cfg.fixDigits = true) {it : Str} (h : '[' ∈ it) :
    ∀ e, ∃ e' f, parseSingleRange cfg e it = .fail e' f := by
  intro e
  refine ⟨EINVAL, .invalidRange, nonnumeric_fails cfg hfix e it ?_⟩
  unfold numericItem
  have hnd : isDigit '[' = false := by decide
  rcases cutAt_spec '-' it with ⟨a, h1, h2, _⟩ | ⟨a, b, h1, h2, _⟩
  · rw [h1]
    simp only
    have : a.all isDigit = false := by
      rw [← h2]
      cases hh : it.all isDigit with
      | false => rfl
      | true => simp only [List.all_eq_true] at hh; have := hh _ h; rw [hnd] at this; simp at this
    simp [this]
  · rw [h1]
    simp only
    rw [h2] at h
    rcases List.mem_append.mp h with hm | hm
    · have : a.all isDigit = false := by
        cases hh : a.all isDigit with
        | false => rfl
        | true => simp only [List.all_eq_true] at hh; have := hh _ hm; rw [hnd] at this; simp at this
      simp [this]
    · have hm' : '[' ∈ b := by
        rcases List.mem_cons.mp hm with e | e
        · exact absurd e (by decide)
        · exact e
      have : b.all isDigit = false := by
        cases hh : b.all isDigit with
        | false => rfl
        | true => simp only [List.all_eq_true] at hh; have := hh _ hm'; rw [hnd] at this; simp at this
      simp [this]

/-! ### D22 (+ D16) repaired: an unbalanced token fails -/
theorem unbalanced_token_fails (cfg : Cfg) (hbal : cfg.fixSuffixBal = true) (hdig : cfg.fixDigits = true)
    (st : PSt) (tok : Str) (h : bracketsBalanced 0 tok = false) :
    ∃ e f, pushTok cfg st tok = .null e f := by
  unfold pushTok
  rcases cutAt_spec '[' tok with ⟨a, h1, h2, h3⟩ | ⟨pfx, p, h1, h2, h3⟩
  · rw [h1]
    simp only
    split
    · exact ⟨_, _, rfl⟩
    · rename_i hc
      -- no bracket at all: the token is balanced
      exfalso
      have hno : ']' ∉ tok := by simpa using hc
      have := Neutral.noBrackets (s := tok) (by rw [h2]; exact h3) hno 0 []
      simp only [List.append_nil] at this
      rw [this] at h
      simp [bracketsBalanced] at h
  · rw [h1]
    simp only
    rcases cutAt_spec ']' p with ⟨b, g1, g2, g3⟩ | ⟨body, sfx, g1, g2, g3⟩
    · rw [g1]; exact ⟨_, _, rfl⟩
    · rw [g1]
      simp only
      split
      · exact ⟨_, _, rfl⟩
      · rename_i hs
        simp only [suffixOk, hbal, Bool.not_true, Bool.false_or, Bool.not_eq_true', Bool.not_eq_false,
          Bool.and_eq_true, Bool.not_eq_true'] at hs
        have hpc : ']' ∉ pfx := by simpa using hs.1
        have hsb := hs.2
        -- the first group's text must contain a `[`, otherwise the token would be balanced
        have hopen : '[' ∈ body := by
          apply Classical.byContradiction
          intro hno
          have hn := ((Neutral.noBrackets h3 hpc).append (Neutral.group hno g3)) 0 sfx
          have e : tok = (pfx ++ ('[' :: body ++ [']'])) ++ sfx := by
            rw [h2, g2]; simp
          rw [e, hn, hsb] at h
          exact absurd h (by decide)
        obtain ⟨it, hit, hm⟩ := mem_splitAll (c := ',') (x := '[') (by decide) body hopen
        obtain ⟨e', f, hf⟩ := parseRangeItems_fail cfg (splitAll ',' body) 0 st.errno #[]
          ⟨it, hit, item_with_bracket_fails cfg hdig hm⟩
        unfold parseRangeList
        rw [hf]
        exact ⟨_, _, rfl⟩

/-! ### D15/D25 + D18 repaired: every call returns -/
theorem parseRangeItems_ok_hi (cfg : Cfg) (hfix : cfg.fixUlongMax = true) : ∀ (items : List Str)
    (count e : Nat) (acc rs : Array SR) (e' : Nat),
    parseRangeItems cfg items count e acc = .ok rs e' → (∀ r ∈ acc.toList, r.hi ≠ ULONG_MAX) →
    ∀ r ∈ rs.toList, r.hi ≠ ULONG_MAX
  | [], _, _, acc, rs, e', h, ha => by
    simp only [parseRangeItems, PRL.ok.injEq] at h
    rw [← h.1]; exact ha
  | x :: xs, count, e, acc, rs, e', h, ha => by
    unfold parseRangeItems at h
    split at h
    · simp at h
    · cases hp : parseSingleRange cfg e x with
      | fail _ _ => rw [hp] at h; simp at h
      | ok r1 e1 =>
        rw [hp] at h
        simp only at h
        have hmx := (parseSingleRange_ok hp).2.2.2.2
        have hr1 : r1.hi ≠ ULONG_MAX := by
          intro he
          simp [ulongMaxRejected, hfix, he] at hmx
        refine parseRangeItems_ok_hi cfg hfix xs (count + 1) e1 (acc.push r1) rs e' h ?_
        intro r hr
        simp only [Array.toList_push, List.mem_append, List.mem_singleton] at hr
        rcases hr with hr | rfl
        · exact ha r hr
        · exact hr1

theorem pushRangeListWithSuffix_returns (cfg : Cfg) (pfx sfx : Str) : ∀ (rs : List SR) (h : HL),
    (∀ r ∈ rs, r.hi ≠ ULONG_MAX) → ∃ h', pushRangeListWithSuffix cfg h pfx sfx rs = .ok h'
  | [], h, _ => ⟨h, rfl⟩
  | r :: rs, h, hr => by
    have h1 : r.hi ≠ ULONG_MAX := hr r (by simp)
    simp only [pushRangeListWithSuffix, pushSuffixRange, h1, ↓reduceIte]
    exact pushRangeListWithSuffix_returns cfg pfx sfx rs _ (fun x hx => hr x (by simp [hx]))

/-- in the repaired variant one token either extends the list or fails with an errno -/
theorem pushTok_returns (cfg : Cfg) (h1 : cfg.fixUlongMax = true) (h2 : cfg.fixCurTok = true)
    (st : PSt) (tok : Str) :
    (∃ st', pushTok cfg st tok = .ok st') ∨ (∃ e f, pushTok cfg st tok = .null e f) := by
  unfold pushTok
  split
  · split
    · split
      · right; exact ⟨_, _, rfl⟩
      · cases hp : parseRangeList cfg st.errno _ with
        | fail e f => right; exact ⟨_, _, rfl⟩
        | ok rs e =>
          simp only
          split
          · left; exact ⟨_, rfl⟩
          · have hhi := parseRangeItems_ok_hi cfg h1 _ 0 st.errno #[] rs e hp (by simp)
            obtain ⟨h', hh⟩ := pushRangeListWithSuffix_returns cfg _ _ rs.toList st.hl hhi
            rw [hh]
            left; exact ⟨_, rfl⟩
    · right; exact ⟨_, _, rfl⟩
  · split
    · right; exact ⟨_, _, rfl⟩
    · simp only [curTok, h2, Bool.true_or, ↓reduceIte]
      left; exact ⟨_, rfl⟩

theorem createToks_returns (cfg : Cfg) (h1 : cfg.fixUlongMax = true) (h2 : cfg.fixCurTok = true) :
    ∀ (toks : List Str) (st : PSt),
    (∃ st', createToks cfg st toks = .ok st') ∨ (∃ e f, createToks cfg st toks = .null e f)
  | [], st => Or.inl ⟨st, rfl⟩
  | t :: ts, st => by
    unfold createToks
    rcases pushTok_returns cfg h1 h2 st t with ⟨st', hs⟩ | ⟨e, f, hs⟩
    · rw [hs]; exact createToks_returns cfg h1 h2 ts st'
    · rw [hs]; right; exact ⟨e, f, rfl⟩

end PdshVerif.Hostlist
