/-
  C16: `hostlist_find` under live iterators (it may rewrite a record's width in place, nothing an iterator
  can see), and from it `hostlist_delete_host` with any number of live iterators.
-/
import PdshVerif.Hostlist.EditMultiDelete
import PdshVerif.Hostlist.LemmasFindFirst

namespace PdshVerif.Hostlist
open PdshVerif.Gen

/-- record by record `hostlist_find` leaves the denoted hosts alone -/
theorem findLoop_records (name : Str) (hn : Hostname) (hof : HnOf name hn)
    (hpl : hostPrefixLen name ≤ hn.pre.length) : ∀ (rs : List HRange) (count : Nat), (∀ r ∈ rs, r.Good) →
    (findLoop name hn rs count).2.map (·.hosts) = rs.map (·.hosts) ∧ (∀ r ∈ (findLoop name hn rs count).2, r.Good)
  | [], _, _ => by simp [findLoop]
  | r :: rest, count, hg => by
    have hgr := hg r (by simp)
    have hgrest : ∀ x ∈ rest, x.Good := fun x hx => hg x (by simp [hx])
    unfold findLoop
    generalize hw : hnWithin (name.length + 1) r name hn = w
    obtain ⟨res, r1⟩ := w
    cases res with
    | some off =>
      obtain ⟨_, _, hh, hg1⟩ := hnWithin_sound _ r name hn off r1 hgr hof hpl hw
      refine ⟨by simp [hh], ?_⟩
      intro x hx
      rcases List.mem_cons.mp hx with rfl | hx
      · exact hg1
      · exact hgrest x hx
    | none =>
      have hr1 : r1 = r := hnWithin_none name _ r hn r1 hw
      subst hr1
      obtain ⟨ih1, ih2⟩ := findLoop_records name hn hof hpl rest (count + r1.count) hgrest
      simp only
      refine ⟨by simp [ih1], ?_⟩
      intro x hx
      rcases List.mem_cons.mp hx with rfl | hx
      · exact hgr
      · exact ih2 x hx

theorem findRanges_records (rs : List HRange) (name : Str) (hg : ∀ r ∈ rs, r.Good) :
    (findRanges rs name).2.map (·.hosts) = rs.map (·.hosts) ∧ (∀ r ∈ (findRanges rs name).2, r.Good) :=
  findLoop_records name (hostnameCreate name) (hostnameCreate_hnOf name)
    (by rw [hostnameCreate_eq_at]
        exact hostnameCreateAt_pre_len name _ (Nat.le_refl _) (hostPrefix_split name).1) rs 0 hg

theorem remaining_congr (L L' : List HRange) (h : L'.map (·.hosts) = L.map (·.hosts)) (i k : Nat) :
    remaining L' i k = remaining L i k := by
  unfold remaining
  have h1 : (L'[i]?).map (·.hosts) = (L[i]?).map (·.hosts) := by
    rw [← List.getElem?_map, ← List.getElem?_map, h]
  have h2 : (L'.drop (i + 1)).flatMap HRange.hosts = (L.drop (i + 1)).flatMap HRange.hosts := by
    rw [List.flatMap_def, List.flatMap_def, List.map_drop, List.map_drop]
    exact congrArg (fun z => (List.drop (i + 1) z).flatten) h
  rw [h2]
  cases h3 : L'[i]? <;> cases h4 : L[i]? <;> simp [h3, h4] at h1 ⊢
  exact congrArg (List.drop k) h1

theorem findE_ranges (e : EL) (x : Str) : (findE e x).2.ranges = (findRanges e.ranges x).2 := by
  unfold findE
  generalize hf : findRanges e.ranges x = fr
  obtain ⟨res, rs'⟩ := fr
  simp only
  have hlen : e.rs.length = rs'.length := by
    have := findLoop_length x (hostnameCreate x) e.ranges 0
    unfold findRanges at hf
    rw [hf] at this
    simp only [EL.ranges, List.length_map] at this
    exact this.symm
  exact zip_set_r e.rs rs' hlen

theorem findE_idsmap (e : EL) (x : Str) : (findE e x).2.rs.map (·.id) = e.rs.map (·.id) := by
  unfold findE
  generalize hf : findRanges e.ranges x = fr
  obtain ⟨res, rs'⟩ := fr
  simp only
  have hlen : e.rs.length = rs'.length := by
    have := findLoop_length x (hostnameCreate x) e.ranges 0
    unfold findRanges at hf
    rw [hf] at this
    simp only [EL.ranges, List.length_map] at this
    exact this.symm
  exact zip_set_id e.rs rs' hlen

theorem findE_fields (e : EL) (x : Str) :
    (findE e x).2.its = e.its ∧ (findE e x).2.nhosts = e.nhosts ∧ (findE e x).2.nextId = e.nextId := by
  unfold findE
  generalize findRanges e.ranges x = fr
  obtain ⟨res, rs'⟩ := fr
  exact ⟨rfl, rfl, rfl⟩

/-- FIND with the iterator live: nothing the iterator or the plain list can see changes -/
theorem find_refines (cfg : Cfg) (hfs : cfg.fixIterSuffix = true) (e : EL) (p : EditSpec.PL) (c : Nat) (f : Bool)
    (h : Ref cfg e p c f) (x : Str) : Ref cfg (findE e x).2 p c f := by
  obtain ⟨hrec, hgood⟩ := findRanges_records e.ranges x h.good.1
  have hr := findE_ranges e x
  obtain ⟨hits, hnh, hnx⟩ := findE_fields e x
  have hids := findE_idsmap e x
  have hmap : (findE e x).2.ranges.map (·.hosts) = e.ranges.map (·.hosts) := by rw [hr]; exact hrec
  have hhosts : (findE e x).2.hosts = e.hosts := by
    show (findE e x).2.ranges.flatMap HRange.hosts = e.ranges.flatMap HRange.hosts
    rw [List.flatMap_def, List.flatMap_def, hmap]
  obtain ⟨i, k, hc, hrem, hfr⟩ := h.pos
  refine ⟨?_, ⟨by rw [hr]; exact hgood, by rw [hnh, hhosts]; exact h.good.2⟩, fun _ _ => Or.inl hfs,
    by rw [hhosts]; exact h.hosts, h.cur, h.le, i, k, ?_, ?_, ?_⟩
  · refine ⟨by rw [hids]; exact h.ids.1, ?_⟩
    intro o ho
    have : o.id ∈ (findE e x).2.rs.map (·.id) := List.mem_map.mpr ⟨o, ho, rfl⟩
    rw [hids] at this
    obtain ⟨o', ho', he⟩ := List.mem_map.mp this
    rw [hnx, ← he]; exact h.ids.2 o' ho'
  · unfold Coh at hc ⊢
    rw [hits, hc, hrAt_of_ids e (findE e x).2 hids i]
  · rw [remaining_congr e.ranges (findE e x).2.ranges hmap]; exact hrem
  · intro hf
    obtain ⟨r, hr1, hk1, hk2⟩ := hfr hf
    have h1 : ((findE e x).2.ranges[i]?).map (·.hosts) = (e.ranges[i]?).map (·.hosts) := by
      rw [← List.getElem?_map, ← List.getElem?_map, hmap]
    rw [hr1] at h1
    cases h2 : (findE e x).2.ranges[i]? with
    | none => rw [h2] at h1; simp at h1
    | some r2 =>
      rw [h2] at h1
      simp only [Option.map_some, Option.some.injEq] at h1
      exact ⟨r2, rfl, hk1, by rw [h1]; exact hk2⟩

theorem findE_withIts (e : EL) (x : Str) (l : List (Nat × ItSt)) :
    findE (e.withIts l) x = ((findE e x).1, (findE e x).2.withIts l) := by
  have hr : (e.withIts l).ranges = e.ranges := rfl
  unfold findE
  rw [hr]
  generalize findRanges e.ranges x = fr
  obtain ⟨res, rs'⟩ := fr
  rfl

/-- FIND with any number of live iterators: the answer is the plain list's (first position of the name,
    for a SMALL name) and no iterator moves -/
theorem find_refinesM (cfg : Cfg) (hfs : cfg.fixIterSuffix = true) (e : EL) (p : EditSpec.PL) (fr : Nat → Bool)
    (h : RefM cfg e p fr) (x : Str) :
    RefM cfg (findE e x).2 p fr ∧ (SmallName x → (findE e x).1 = EditSpec.find p x) := by
  have hproj : ∀ it, (findE e x).2.withIts [(0, it)] = (findE (e.withIts [(0, it)]) x).2 := by
    intro it; rw [findE_withIts]
  obtain ⟨hits, _, _⟩ := findE_fields e x
  have hreset : (findE e x).2.resetIt = e.resetIt := by
    unfold EL.resetIt
    rw [show ((0 : Int)) = ((0 : Nat) : Int) from rfl, hrAt_of_ids e (findE e x).2 (findE_idsmap e x) 0]
  refine ⟨⟨?_, by rw [hits]; exact h.keys, ?_⟩, ?_⟩
  · rw [hreset, hproj]
    exact find_refines cfg hfs _ _ _ _ h.base x
  · rw [hits]
    refine All2.imp ?_ h.each
    intro a b ⟨hk, hr⟩
    refine ⟨hk, ?_⟩
    rw [hproj]
    exact find_refines cfg hfs _ _ _ _ hr x
  · intro hsm
    have hb := h.base
    have hg : ∀ r ∈ e.ranges, r.Good := hb.good.1
    have hh : hostsL e.ranges = p.names := hb.hosts
    have := findRanges_eq_idxOf e.ranges x hg hsm
    unfold findE
    generalize hf : findRanges e.ranges x = frs at this
    obtain ⟨res, rs'⟩ := frs
    simp only at this ⊢
    rw [this, hh]
    unfold EditSpec.find
    simp only
    by_cases hm : x ∈ p.names
    · simp [hm, List.idxOf_lt_length_iff.mpr hm]
    · have : ¬ List.idxOf x p.names < p.names.length := by
        rw [List.idxOf_lt_length_iff]; exact hm
      simp [hm, this]

end PdshVerif.Hostlist
