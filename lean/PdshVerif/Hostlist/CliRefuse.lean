/-
  opt.c SINCE d1c94df (the repaired tree, /repo HEAD): `wcoll_arg_process` and `wcoll_expand` look at
  what `hostlist_push` returns -- a target word that yields no host (its parse fails without a
  diagnostic of its own: unbalanced brackets, more than MAX_RANGES ranges; or it denotes nothing)
  ends pdsh with `invalid host expression "WORD"`, exit 1, instead of being left out
  (F15-CLI-WORD-DROPPED; the code as found is `Cli.lean`'s `cliTargets`).

      if (hostlist_push (opt->wcoll, hosts) == 0 && *hosts != '\0') errx (...);     wcoll_arg_process
      if (hostlist_push (opt->wcoll, hosts) == 0) errx (...);                        wcoll_expand

  `hostlist_push` returns `new->nhosts` of the list `hostlist_create(hosts)` built, 0 for NULL.
-/
import PdshVerif.Hostlist.Cli

namespace PdshVerif.Hostlist

/-- what the `-w ARG` path of the repaired opt.c ends in -/
inductive CliR where
  /-- the working collective -/
  | targets (h : HL)
  /-- `errx ("%p: invalid host expression \"%s\"\n", word)`: exit 1, the word quoted -/
  | refused (word : Str)
  /-- `lsd_fatal_error` (= `errx`) inside hostlist.c: "Invalid range" / "Too many hosts" -/
  | fatal (errno : Nat) (f : Fatal)
  | ub (what : String)
  | diverge
  /-- a comma-word outside the modelled domain (`plainWord`) -/
  | unsupported
  deriving DecidableEq

/-- `hostlist_push(hl, hosts)` WITH its return value (`new->nhosts`, 0 for a NULL list) -/
def hlPushR (cfg : Cfg) (h : HL) (s : Str) : Outcome (Int × HL) :=
  match create cfg s with
  | .ok n => .ok (n.nhosts, pushList h n)
  | .null e f => if f = Fatal.none then .ok (0, h) else .null e f
  | .ub w => .ub w
  | .diverge => .diverge

/-- `wcoll_expand` of the repaired opt.c (same loop, same fuel as `wcollExpandLoop`) -/
def wcollExpandLoopR (cfg : Cfg) : Nat → List HRange → Int → HL → CliR
  | 0, _, _, new => .targets new
  | f + 1, rs, nh, new =>
    if nh > 0 && rs.isEmpty then .ub "hostlist_shift: no range record" else
    match shiftL rs nh with
    | (none, _, _) => .targets new
    | (some host, rs', nh') =>
      match hlPushR cfg new host with
      | .ok (rv, new') => if rv = 0 then .refused host else wcollExpandLoopR cfg f rs' nh' new'
      | .null e f => .fatal e f
      | .ub w => .ub w
      | .diverge => .diverge

def wcollExpandR (cfg : Cfg) (h : HL) : CliR :=
  wcollExpandLoopR cfg (h.nhosts.toNat + 1) h.ranges.toList h.nhosts HL.new

/-- `wcoll_args_process` of the repaired opt.c restricted to plain words -/
def cliPushWordsR (cfg : Cfg) (h : HL) : List Str → Outcome (Option HL) ⊕ Str
  | [] => .inl (.ok (some h))
  | w :: ws =>
    if !plainWord w then .inl (.ok none)
    else
      match hlPushR cfg h (w.dropWhile isSpace) with
      | .ok (rv, h') =>
        if rv = 0 && !(w.dropWhile isSpace).isEmpty then .inr (w.dropWhile isSpace)
        else cliPushWordsR cfg h' ws
      | .null e f => .inl (.null e f)
      | .ub s => .inl (.ub s)
      | .diverge => .inl .diverge

/-- the outcome of `-w arg` in the repaired tree (before `opt_verify`) -/
def cliTargetsR (cfg : Cfg) (arg : Str) : CliR :=
  match cliPushWordsR cfg HL.new (tokens [','] arg) with
  | .inr w => .refused w
  | .inl (.ok (some h)) => wcollExpandR cfg h
  | .inl (.ok none) => .unsupported
  | .inl (.null e f) => .fatal e f
  | .inl (.ub s) => .ub s
  | .inl .diverge => .diverge

/-- a word is refused only for one of the two reasons: `hostlist_create` returns NULL without a
    diagnostic, or the list it returns is empty -/
def YieldsNothing (cfg : Cfg) (w : Str) : Prop :=
  (∃ e, create cfg w = .null e Fatal.none) ∨ (∃ n, create cfg w = .ok n ∧ n.nhosts = 0)

theorem hlPushR_ok {cfg : Cfg} {h : HL} {s : Str} {rv : Int} {h' : HL}
    (e : hlPushR cfg h s = .ok (rv, h')) : hlPush cfg h s = .ok h' ∧ (rv = 0 → YieldsNothing cfg s) := by
  unfold hlPushR at e
  unfold hlPush YieldsNothing
  cases hc : create cfg s with
  | ok n =>
    rw [hc] at e
    simp only [Outcome.ok.injEq, Prod.mk.injEq] at e
    refine ⟨by simp [e.2], fun h0 => Or.inr ⟨n, rfl, ?_⟩⟩
    rw [e.1]; exact h0
  | null er f =>
    rw [hc] at e
    by_cases hf : f = Fatal.none
    · simp only [hf, if_true, Outcome.ok.injEq, Prod.mk.injEq] at e
      subst hf
      exact ⟨by simp [e.2], fun _ => Or.inl ⟨er, rfl⟩⟩
    · simp [hf] at e
  | ub w => rw [hc] at e; simp at e
  | diverge => rw [hc] at e; simp at e

theorem hlPushR_null {cfg : Cfg} {h : HL} {s : Str} {er : Nat} {f : Fatal}
    (e : hlPushR cfg h s = .null er f) : hlPush cfg h s = .null er f := by
  unfold hlPushR at e
  unfold hlPush
  cases hc : create cfg s with
  | ok n => rw [hc] at e; simp at e
  | null er' f' =>
    rw [hc] at e
    by_cases hf : f' = Fatal.none
    · simp [hf] at e
    · simp only [hf, if_false, Outcome.null.injEq] at e ⊢; exact e
  | ub w => rw [hc] at e; simp at e
  | diverge => rw [hc] at e; simp at e

/-- FIRST LEVEL: where the repaired `wcoll_args_process` goes through, it builds the list of the code
    as found; where it stops, the quoted word is not empty and yields nothing -/
theorem cliPushWordsR_spec (cfg : Cfg) (ws : List Str) (h : HL) :
    (∀ o, cliPushWordsR cfg h ws = .inl (.ok o) → cliPushWords cfg h ws = .ok o) ∧
    (∀ w, cliPushWordsR cfg h ws = .inr w → w ≠ [] ∧ YieldsNothing cfg w) := by
  induction ws generalizing h with
  | nil =>
    constructor
    · intro o e; simpa [cliPushWordsR, cliPushWords] using e
    · intro w e; simp [cliPushWordsR] at e
  | cons w ws ih =>
    unfold cliPushWordsR cliPushWords
    by_cases hp : plainWord w = true
    · simp only [hp, Bool.not_true, Bool.false_eq_true, if_false]
      cases hr : hlPushR cfg h (w.dropWhile isSpace) with
      | ok p =>
        obtain ⟨rv, h'⟩ := p
        have hk := hlPushR_ok hr
        rw [hk.1]
        by_cases hz : (rv = 0 && !(List.dropWhile isSpace w).isEmpty) = true
        · simp only [hz, if_true]
          constructor
          · intro o e; cases e
          · intro w' e
            cases e
            simp only [Bool.and_eq_true, decide_eq_true_eq, Bool.not_eq_true', List.isEmpty_eq_false_iff] at hz
            exact ⟨hz.2, hk.2 hz.1⟩
        · simp only [hz]
          exact ih h'
      | null er f =>
        rw [hlPushR_null hr]
        constructor
        · intro o e; cases e
        · intro w' e; cases e
      | ub s =>
        constructor
        · intro o e; cases e
        · intro w' e; cases e
      | diverge =>
        constructor
        · intro o e; cases e
        · intro w' e; cases e
    · simp only [hp, Bool.not_false, if_true]
      constructor
      · intro o e; simpa using e
      · intro w' e; cases e

/-- SECOND LEVEL (`wcoll_expand`) -/
theorem wcollExpandLoopR_spec (cfg : Cfg) (f : Nat) (rs : List HRange) (nh : Int) (new : HL) :
    (∀ h, wcollExpandLoopR cfg f rs nh new = .targets h → wcollExpandLoop cfg f rs nh new = .ok h) ∧
    (∀ w, wcollExpandLoopR cfg f rs nh new = .refused w → YieldsNothing cfg w) := by
  induction f generalizing rs nh new with
  | zero =>
    constructor
    · intro h e; simpa [wcollExpandLoopR, wcollExpandLoop] using e
    · intro w e; simp [wcollExpandLoopR] at e
  | succ f ih =>
    unfold wcollExpandLoopR wcollExpandLoop
    by_cases hu : (nh > 0 && rs.isEmpty) = true
    · simp only [hu, if_true]
      constructor
      · intro h e; cases e
      · intro w e; cases e
    · simp only [hu]
      rcases hs : shiftL rs nh with ⟨x, rs', nh'⟩
      cases x with
      | none =>
        constructor
        · intro h e; simpa using e
        · intro w e; cases e
      | some host =>
        simp only
        cases hr : hlPushR cfg new host with
        | ok p =>
          obtain ⟨rv, new'⟩ := p
          have hk := hlPushR_ok hr
          rw [hk.1]
          by_cases hz : rv = 0
          · simp only [hz, if_true]
            constructor
            · intro h e; cases e
            · intro w e; cases e; exact hk.2 hz
          · simp only [hz]
            exact ih rs' nh' new'
        | null er fa =>
          constructor
          · intro h e; cases e
          · intro w e; cases e
        | ub s =>
          constructor
          · intro h e; cases e
          · intro w e; cases e
        | diverge =>
          constructor
          · intro h e; cases e
          · intro w e; cases e

/-- THE REPAIRED `-w` PATH AGAINST THE CODE AS FOUND, for every argument text and every variant of
    hostlist.c: when the repaired opt.c arrives at a working collective, it is the one the code as found
    arrives at (so every theorem about `cliTargets` -- C01.cli_text, cli_targets -- speaks about it);
    when it refuses, the word it quotes yields nothing on its own (its parse fails without a diagnostic
    or it denotes no host) -- no argument is refused for a word that names a host. -/
theorem cliTargetsR_spec (cfg : Cfg) (arg : Str) :
    (∀ h, cliTargetsR cfg arg = .targets h → cliTargets cfg arg = .ok (some h)) ∧
    (∀ w, cliTargetsR cfg arg = .refused w → YieldsNothing cfg w) := by
  unfold cliTargetsR cliTargets
  have h1 := cliPushWordsR_spec cfg (tokens [','] arg) HL.new
  cases hc : cliPushWordsR cfg HL.new (tokens [','] arg) with
  | inr w =>
    constructor
    · intro h e; cases e
    · intro w' e; cases e; exact (h1.2 w hc).2
  | inl o =>
    cases o with
    | ok oh =>
      rw [h1.1 oh hc]
      cases oh with
      | none =>
        constructor
        · intro h e; cases e
        · intro w e; cases e
      | some h0 =>
        have h2 := wcollExpandLoopR_spec cfg (h0.nhosts.toNat + 1) h0.ranges.toList h0.nhosts HL.new
        simp only [wcollExpandR, wcollExpand]
        constructor
        · intro h e; rw [h2.1 h e]
        · intro w e; exact h2.2 w e
    | null e f =>
      constructor
      · intro h e; cases e
      · intro w e; cases e
    | ub s =>
      constructor
      · intro h e; cases e
      · intro w e; cases e
    | diverge =>
      constructor
      · intro h e; cases e
      · intro w e; cases e

/-- non-vacuity, both directions (named witnesses): the repaired path refuses `b,a[1` quoting `a[1`
    (the code as found goes on with `b`: C15.cli_drops_failed_word), and accepts `b,a[1-2]` -/
example : cliTargetsR Cfg.repaired "b,a[1".toList = .refused "a[1".toList := by decide
example : (match cliTargetsR Cfg.repaired "b,a[1-2]".toList with
    | .targets h => some h.hosts | _ => none) = some ["b".toList, "a1".toList, "a2".toList] := by decide

end PdshVerif.Hostlist
