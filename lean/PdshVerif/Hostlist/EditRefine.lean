/-
  C16 `edit_refines`: the editable host list with ONE live iterator refines the plain list of names
  with one cursor (Hostlist/EditSpec.lean), for the repaired `hostlist_remove` (D19).
  Open findings stay outside: a push while the iterator stands at the end (F16-ENDPUSH) and
  delete-by-name/position under a live iterator (F16-DELETE-UNDER-ITERATOR).
-/
import PdshVerif.Hostlist.LemmasIterEdit
import PdshVerif.Hostlist.EditSpec

namespace PdshVerif.Hostlist
open PdshVerif.Gen

/-- the abstraction relation: the list denotes the names, the iterator of slot 0 stands in front of
    `names.drop c`; `fresh`: its last operation was a `hostlist_next` that handed out a host (the
    contract of `hostlist_remove`) -/
structure Ref (cfg : Cfg) (e : EL) (p : EditSpec.PL) (c : Nat) (fresh : Bool) : Prop where
  ids : e.IdsOk
  good : e.Good
  full : ∀ q ∈ e.ranges, q.PrintsFull cfg
  hosts : e.hosts = p.names
  cur : p.cur = [(0, c)]
  le : c ≤ p.names.length
  pos : ∃ i k, Coh e i k ∧ remaining e.ranges i k = p.names.drop c ∧
    (fresh = true → ∃ r, e.ranges[i]? = some r ∧ 1 ≤ k ∧ k ≤ r.hosts.length)

theorem getCur_one (p : EditSpec.PL) (c : Nat) (h : p.cur = [(0, c)]) : EditSpec.getCur p 0 = some c := by
  unfold EditSpec.getCur; rw [h]; simp

/-- the denoted hosts, cut at the iterator's position -/
theorem hosts_cut (L : List HRange) (i k : Nat) (r : HRange) (hr : L[i]? = some r) :
    hostsL L = hostsL (L.take i) ++ r.hosts.take k ++ remaining L i k := by
  obtain ⟨A, B, hL, hA⟩ : ∃ A B, L = A ++ r :: B ∧ A.length = i :=
    ⟨L.take i, L.drop (i + 1), split_one L i r hr, by
      rw [List.length_take]; have := (List.getElem?_eq_some_iff.mp hr).1; omega⟩
  subst hL; subst hA
  rw [remaining_mid, List.take_left' rfl, hostsL_append, hostsL_cons]
  simp only [List.append_assoc]
  congr 1
  rw [← List.append_assoc, List.take_append_drop]

/-- NEXT: `hostlist_next` answers what the plain list's cursor answers and moves like it -/
theorem next_refines (cfg : Cfg) (e : EL) (p : EditSpec.PL) (c : Nat) (fresh : Bool) (h : Ref cfg e p c fresh) :
    ∃ a p' e' c', EditSpec.itNext p 0 = some (a, p') ∧ itNext cfg e 0 = .ok (a, e') ∧
      Ref cfg e' p' c' a.isSome := by
  obtain ⟨i, k, hc, hrem, _⟩ := h.pos
  have hgc := getCur_one p c h.cur
  rcases itNext_spec cfg e h.ids h.good.1 h.full i k hc with
    ⟨hr0, i0, k0, hr00, hnx⟩ | ⟨x, xs, i', k', r', hr0, hnx, hrem', hr', hk1, hk', hx⟩
  · -- the end of the list
    have hdrop : p.names.drop c = [] := by rw [← hrem, hr0]
    have hlen : p.names.length ≤ c := List.drop_eq_nil_iff.mp hdrop
    have hnone : p.names[c]? = none := by simp [hlen]
    refine ⟨none, p, _, c, ?_, hnx, ?_⟩
    · unfold EditSpec.itNext; rw [hgc]; simp [hnone]
    · exact ⟨h.ids, h.good, h.full, h.hosts, h.cur, h.le, i0, k0, rfl, by
        show remaining e.ranges i0 k0 = _; rw [hr00, hdrop], by intro hf; simp at hf⟩
  · -- a host is handed out
    have hdrop : p.names.drop c = x :: xs := by rw [← hrem, hr0]
    have hclt : c < p.names.length := by
      by_cases hlt : c < p.names.length
      · exact hlt
      · have : p.names.drop c = [] := List.drop_eq_nil_iff.mpr (by omega)
        rw [this] at hdrop; simp at hdrop
    have hget : p.names[c]? = some x := by
      have := List.drop_eq_getElem_cons hclt
      rw [this] at hdrop
      simp only [List.cons.injEq] at hdrop
      rw [List.getElem?_eq_getElem hclt, hdrop.1]
    have hdrop1 : p.names.drop (c + 1) = xs := by
      have := List.drop_eq_getElem_cons hclt
      rw [this] at hdrop
      simp only [List.cons.injEq] at hdrop
      exact hdrop.2
    refine ⟨some x, EditSpec.setCur p 0 (c + 1), _, c + 1, ?_, hnx, ?_⟩
    · unfold EditSpec.itNext; rw [hgc]; simp [hget]
    · have hsc : (EditSpec.setCur p 0 (c + 1)).cur = [(0, c + 1)] ∧ (EditSpec.setCur p 0 (c + 1)).names = p.names := by
        unfold EditSpec.setCur; rw [h.cur]; simp
      refine ⟨h.ids, h.good, h.full, by rw [hsc.2]; exact h.hosts, hsc.1, by rw [hsc.2]; omega, i', k', rfl, ?_, ?_⟩
      · show remaining e.ranges i' k' = _
        rw [hsc.2, hrem', hdrop1]
      · intro _; exact ⟨r', hr', hk1, hk'⟩

/-- REMOVE (repaired D19): `hostlist_remove` after a `hostlist_next` that handed out a host deletes
    exactly that list position, and the iterator goes on with what was left -/
theorem remove_refines (cfg : Cfg) (hfix : cfg.fixRemoveDepth = true) (e : EL) (p : EditSpec.PL) (c : Nat)
    (h : Ref cfg e p c true) (hc1 : 1 ≤ c) :
    ∃ p' e', EditSpec.itRemove p 0 = some p' ∧ itRemove cfg e 0 = .ok e' ∧ Ref cfg e' p' (c - 1) false := by
  obtain ⟨i, k, hc, hrem, hfr⟩ := h.pos
  obtain ⟨r, hr, hk1, hk⟩ := hfr rfl
  obtain ⟨e2, i2, k2, hrmv, hid2, hg2, hf2, hc2, _, hrem2, hh2⟩ :=
    itRemove_spec cfg hfix (·.PrintsFull cfg) (fun _ _ hp hw hh hs => narrow_of_le hp hw hh hs) e h.ids h.good h.full
      i k hc r hr hk1 hk
  have hgc := getCur_one p c h.cur
  obtain ⟨c', rfl⟩ : ∃ c', c = c' + 1 := ⟨c - 1, by omega⟩
  -- names = B ++ x :: rest with |B| = c'
  have hcut := hosts_cut e.ranges i k r hr
  have hn : p.names = (hostsL (e.ranges.take i) ++ r.hosts.take k) ++ p.names.drop (c' + 1) := by
    rw [← hrem, ← hcut]; exact h.hosts.symm
  have hlenB : (hostsL (e.ranges.take i) ++ r.hosts.take k).length = c' + 1 := by
    have h1 := congrArg List.length hn
    simp only [List.length_append, List.length_drop] at h1 ⊢
    have := h.le
    omega
  have htk : r.hosts.take k = r.hosts.take (k - 1) ++ [r.hosts[k - 1]'(by omega)] := by
    have : k = (k - 1) + 1 := by omega
    conv => lhs; rw [this]
    rw [List.take_add_one, List.getElem?_eq_getElem (by omega)]
    rfl
  have hlenB' : (hostsL (e.ranges.take i) ++ r.hosts.take (k - 1)).length = c' := by
    rw [htk] at hlenB
    simp only [List.length_append, List.length_singleton] at hlenB ⊢
    omega
  have herase : p.names.eraseIdx c' = (hostsL (e.ranges.take i) ++ r.hosts.take (k - 1)) ++ p.names.drop (c' + 1) := by
    conv => lhs; rw [hn, htk]
    rw [← List.append_assoc, List.append_assoc _ [_] _]
    simp only [List.singleton_append]
    rw [← hlenB', eraseIdx_mid]
  refine ⟨p.delPos c', e2, ?_, hrmv, ?_⟩
  · unfold EditSpec.itRemove; rw [hgc]
  · have hnames : (p.delPos c').names = p.names.eraseIdx c' := rfl
    have hcur : (p.delPos c').cur = [(0, c')] := by
      unfold EditSpec.PL.delPos; rw [h.cur]; simp
    refine ⟨hid2, hg2, hf2, ?_, by simpa using hcur, ?_, i2, k2, hc2, ?_, by intro hf; simp at hf⟩
    · rw [hnames, herase, hh2, hrem]
    · rw [hnames, List.length_eraseIdx]
      have := h.le
      split <;> omega
    · rw [hnames, herase, hrem2, hrem]
      simp only [Nat.add_sub_cancel]
      rw [← hlenB', List.drop_left]

/-- RESET: `hostlist_iterator_reset` -/
theorem reset_refines (cfg : Cfg) (e : EL) (p : EditSpec.PL) (c : Nat) (fresh : Bool) (h : Ref cfg e p c fresh) :
    Ref cfg (itReset e 0) (EditSpec.itReset p 0) 0 false := by
  obtain ⟨i, k, hc, _, _⟩ := h.pos
  have hsc : (EditSpec.itReset p 0).cur = [(0, 0)] ∧ (EditSpec.itReset p 0).names = p.names := by
    unfold EditSpec.itReset EditSpec.setCur; rw [h.cur]; simp
  have hrs : (itReset e 0).rs = e.rs := rfl
  refine ⟨h.ids, h.good, h.full, by rw [hsc.2]; exact h.hosts, hsc.1, Nat.zero_le _, 0, 0, ?_, ?_, by intro hf; simp at hf⟩
  · unfold Coh itReset
    rw [hc.setIt]
    rfl
  · show remaining e.ranges 0 0 = _
    rw [remaining_zero, hsc.2, List.drop_zero]
    exact h.hosts

end PdshVerif.Hostlist
