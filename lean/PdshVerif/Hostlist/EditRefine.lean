/-
  C16 `edit_refines`: the editable host list with ONE live iterator refines the plain list of names
  with one cursor (Hostlist/EditSpec.lean), for the repaired `hostlist_remove` (D19).
  Open findings stay outside: a push while the iterator stands at the end (F16-ENDPUSH) and
  delete-by-name/position under a live iterator (F16-DELETE-UNDER-ITERATOR).
-/
import PdshVerif.Hostlist.LemmasInv
import PdshVerif.Hostlist.EditSpec

namespace PdshVerif.Hostlist
open PdshVerif.Gen

/-- the abstraction relation: the list denotes the names, the iterator of slot 0 stands in front of
    `names.drop c`; `fresh`: its last operation was a `hostlist_next` that handed out a host (the
    contract of `hostlist_remove`) -/
structure Ref (cfg : Cfg) (e : EL) (p : EditSpec.PL) (c : Nat) (fresh : Bool) : Prop where
  ids : e.IdsOk
  good : e.Good
  full : ∀ q ∈ e.ranges, q.PrintsFull cfg
  hosts : e.hosts = p.names
  cur : p.cur = [(0, c)]
  le : c ≤ p.names.length
  pos : ∃ i k, Coh e i k ∧ remaining e.ranges i k = p.names.drop c ∧
    (fresh = true → ∃ r, e.ranges[i]? = some r ∧ 1 ≤ k ∧ k ≤ r.hosts.length)

theorem getCur_one (p : EditSpec.PL) (c : Nat) (h : p.cur = [(0, c)]) : EditSpec.getCur p 0 = some c := by
  unfold EditSpec.getCur; rw [h]; simp

/-- the denoted hosts, cut at the iterator's position -/
theorem hosts_cut (L : List HRange) (i k : Nat) (r : HRange) (hr : L[i]? = some r) :
    hostsL L = hostsL (L.take i) ++ r.hosts.take k ++ remaining L i k := by
  obtain ⟨A, B, hL, hA⟩ : ∃ A B, L = A ++ r :: B ∧ A.length = i :=
    ⟨L.take i, L.drop (i + 1), split_one L i r hr, by
      rw [List.length_take]; have := (List.getElem?_eq_some_iff.mp hr).1; omega⟩
  subst hL; subst hA
  rw [remaining_mid, List.take_left' rfl, hostsL_append, hostsL_cons]
  simp only [List.append_assoc]
  congr 1
  rw [← List.append_assoc, List.take_append_drop]

/-- NEXT: `hostlist_next` answers what the plain list's cursor answers and moves like it -/
theorem next_refines (cfg : Cfg) (e : EL) (p : EditSpec.PL) (c : Nat) (fresh : Bool) (h : Ref cfg e p c fresh) :
    ∃ a p' e' c', EditSpec.itNext p 0 = some (a, p') ∧ itNext cfg e 0 = .ok (a, e') ∧
      Ref cfg e' p' c' a.isSome := by
  obtain ⟨i, k, hc, hrem, _⟩ := h.pos
  have hgc := getCur_one p c h.cur
  rcases itNext_spec cfg e h.ids h.good.1 h.full i k hc with
    ⟨hr0, i0, k0, hr00, hnx⟩ | ⟨x, xs, i', k', r', hr0, hnx, hrem', hr', hk1, hk', hx⟩
  · -- the end of the list
    have hdrop : p.names.drop c = [] := by rw [← hrem, hr0]
    have hlen : p.names.length ≤ c := List.drop_eq_nil_iff.mp hdrop
    have hnone : p.names[c]? = none := by simp [hlen]
    refine ⟨none, p, _, c, ?_, hnx, ?_⟩
    · unfold EditSpec.itNext; rw [hgc]; simp [hnone]
    · exact ⟨h.ids, h.good, h.full, h.hosts, h.cur, h.le, i0, k0, rfl, by
        show remaining e.ranges i0 k0 = _; rw [hr00, hdrop], by intro hf; simp at hf⟩
  · -- a host is handed out
    have hdrop : p.names.drop c = x :: xs := by rw [← hrem, hr0]
    have hclt : c < p.names.length := by
      by_cases hlt : c < p.names.length
      · exact hlt
      · have : p.names.drop c = [] := List.drop_eq_nil_iff.mpr (by omega)
        rw [this] at hdrop; simp at hdrop
    have hget : p.names[c]? = some x := by
      have := List.drop_eq_getElem_cons hclt
      rw [this] at hdrop
      simp only [List.cons.injEq] at hdrop
      rw [List.getElem?_eq_getElem hclt, hdrop.1]
    have hdrop1 : p.names.drop (c + 1) = xs := by
      have := List.drop_eq_getElem_cons hclt
      rw [this] at hdrop
      simp only [List.cons.injEq] at hdrop
      exact hdrop.2
    refine ⟨some x, EditSpec.setCur p 0 (c + 1), _, c + 1, ?_, hnx, ?_⟩
    · unfold EditSpec.itNext; rw [hgc]; simp [hget]
    · have hsc : (EditSpec.setCur p 0 (c + 1)).cur = [(0, c + 1)] ∧ (EditSpec.setCur p 0 (c + 1)).names = p.names := by
        unfold EditSpec.setCur; rw [h.cur]; simp
      refine ⟨h.ids, h.good, h.full, by rw [hsc.2]; exact h.hosts, hsc.1, by rw [hsc.2]; omega, i', k', rfl, ?_, ?_⟩
      · show remaining e.ranges i' k' = _
        rw [hsc.2, hrem', hdrop1]
      · intro _; exact ⟨r', hr', hk1, hk'⟩

/-- REMOVE (repaired D19): `hostlist_remove` after a `hostlist_next` that handed out a host deletes
    exactly that list position, and the iterator goes on with what was left -/
theorem remove_refines (cfg : Cfg) (hfix : cfg.fixRemoveDepth = true) (e : EL) (p : EditSpec.PL) (c : Nat)
    (h : Ref cfg e p c true) (hc1 : 1 ≤ c) :
    ∃ p' e', EditSpec.itRemove p 0 = some p' ∧ itRemove cfg e 0 = .ok e' ∧ Ref cfg e' p' (c - 1) false := by
  obtain ⟨i, k, hc, hrem, hfr⟩ := h.pos
  obtain ⟨r, hr, hk1, hk⟩ := hfr rfl
  obtain ⟨e2, i2, k2, hrmv, hid2, hg2, hf2, hc2, _, hrem2, hh2⟩ :=
    itRemove_spec cfg hfix (·.PrintsFull cfg) (fun _ _ hp hw hh hs => narrow_of_le hp hw hh hs) e h.ids h.good h.full
      i k hc r hr hk1 hk
  have hgc := getCur_one p c h.cur
  obtain ⟨c', rfl⟩ : ∃ c', c = c' + 1 := ⟨c - 1, by omega⟩
  -- names = B ++ x :: rest with |B| = c'
  have hcut := hosts_cut e.ranges i k r hr
  have hn : p.names = (hostsL (e.ranges.take i) ++ r.hosts.take k) ++ p.names.drop (c' + 1) := by
    rw [← hrem, ← hcut]; exact h.hosts.symm
  have hlenB : (hostsL (e.ranges.take i) ++ r.hosts.take k).length = c' + 1 := by
    have h1 := congrArg List.length hn
    simp only [List.length_append, List.length_drop] at h1 ⊢
    have := h.le
    omega
  have htk : r.hosts.take k = r.hosts.take (k - 1) ++ [r.hosts[k - 1]'(by omega)] := by
    have : k = (k - 1) + 1 := by omega
    conv => lhs; rw [this]
    rw [List.take_add_one, List.getElem?_eq_getElem (by omega)]
    rfl
  have hlenB' : (hostsL (e.ranges.take i) ++ r.hosts.take (k - 1)).length = c' := by
    rw [htk] at hlenB
    simp only [List.length_append, List.length_singleton] at hlenB ⊢
    omega
  have herase : p.names.eraseIdx c' = (hostsL (e.ranges.take i) ++ r.hosts.take (k - 1)) ++ p.names.drop (c' + 1) := by
    conv => lhs; rw [hn, htk]
    rw [← List.append_assoc, List.append_assoc _ [_] _]
    simp only [List.singleton_append]
    rw [← hlenB', eraseIdx_mid]
  refine ⟨p.delPos c', e2, ?_, hrmv, ?_⟩
  · unfold EditSpec.itRemove; rw [hgc]
  · have hnames : (p.delPos c').names = p.names.eraseIdx c' := rfl
    have hcur : (p.delPos c').cur = [(0, c')] := by
      unfold EditSpec.PL.delPos; rw [h.cur]; simp
    refine ⟨hid2, hg2, hf2, ?_, by simpa using hcur, ?_, i2, k2, hc2, ?_, by intro hf; simp at hf⟩
    · rw [hnames, herase, hh2, hrem]
    · rw [hnames, List.length_eraseIdx]
      have := h.le
      split <;> omega
    · rw [hnames, herase, hrem2, hrem]
      simp only [Nat.add_sub_cancel]
      rw [← hlenB', List.drop_left]

/-- RESET: `hostlist_iterator_reset` -/
theorem reset_refines (cfg : Cfg) (e : EL) (p : EditSpec.PL) (c : Nat) (fresh : Bool) (h : Ref cfg e p c fresh) :
    Ref cfg (itReset e 0) (EditSpec.itReset p 0) 0 false := by
  obtain ⟨i, k, hc, _, _⟩ := h.pos
  have hsc : (EditSpec.itReset p 0).cur = [(0, 0)] ∧ (EditSpec.itReset p 0).names = p.names := by
    unfold EditSpec.itReset EditSpec.setCur; rw [h.cur]; simp
  have hrs : (itReset e 0).rs = e.rs := rfl
  refine ⟨h.ids, h.good, h.full, by rw [hsc.2]; exact h.hosts, hsc.1, Nat.zero_le _, 0, 0, ?_, ?_, by intro hf; simp at hf⟩
  · unfold Coh itReset
    rw [hc.setIt]
    rfl
  · show remaining e.ranges 0 0 = _
    rw [remaining_zero, hsc.2, List.drop_zero]
    exact h.hosts

/-! ### `hostlist_shift` with the iterator live -/
theorem remaining_succ (a : HRange) (L : List HRange) (i k : Nat) :
    remaining (a :: L) (i + 1) k = remaining L i k := by
  unfold remaining
  simp

theorem hrAt_succ (o : RObj) (rest : List RObj) (nh nh' : Int) (nx nx' : Nat) (its its' : List (Nat × ItSt)) (i : Nat) :
    EL.hrAt ⟨o :: rest, nh, nx, its⟩ ((i + 1 : Nat) : Int) = EL.hrAt ⟨rest, nh', nx', its'⟩ (i : Int) := by
  rw [hrAt_nat, hrAt_nat]
  simp

/-- the iterator after `hostlist_shift`, record 0 keeps hosts -/
theorem shiftE_keep (cfg : Cfg) (o : RObj) (rest : List RObj) (nh : Int) (nx : Nat) (it : ItSt) (x : Str) (r' : HRange)
    (hpos : nh > 0) (hsh : hostrangeShift o.r = (some x, r')) (hne : r'.empty = false) :
    shiftE cfg ⟨o :: rest, nh, nx, [(0, it)]⟩ =
      .ok (some x, ⟨{ o with r := r' } :: rest, nh - 1, nx,
        [(0, if it.idx = 0 ∧ it.depth ≥ 0 then { it with depth := it.depth - 1 } else it)]⟩) := by
  unfold shiftE
  simp only [hpos, ↓reduceIte, hsh, hne, Bool.false_eq_true, shiftIterators, List.map_cons, List.map_nil]
  congr 4
  by_cases h1 : it.idx = 0
  · by_cases h2 : it.depth ≥ 0
    · have h3 : it.depth > -1 := by omega
      simp [h1, h2, h3]
    · simp [h1, h2]
  · simp [h1]

/-- the iterator after `hostlist_shift`, record 0 goes away (repaired `hostlist_delete_range`) -/
theorem shiftE_gone (cfg : Cfg) (hfix : cfg.fixRemoveDepth = true) (o : RObj) (rest : List RObj) (nh : Int) (nx : Nat)
    (it : ItSt) (x : Str) (r' : HRange) (hpos : nh > 0) (hsh : hostrangeShift o.r = (some x, r')) (he : r'.empty = true) :
    shiftE cfg ⟨o :: rest, nh, nx, [(0, it)]⟩ =
      .ok (some x, ⟨rest, nh - 1, nx,
        [(0, if it.idx > 0 then { it with idx := it.idx - 1, hr := EL.hrAt ⟨rest, nh - 1, nx, [(0, it)]⟩ (it.idx - 1) }
             else if it.idx = 0 then EL.resetIt ⟨rest, nh - 1, nx, [(0, it)]⟩ else it)]⟩) := by
  unfold shiftE
  simp only [hpos, ↓reduceIte, hsh, he, deleteRange, hfix, Bool.not_true, Bool.false_eq_true, List.eraseIdx_zero,
    List.tail_cons, List.map_cons, List.map_nil]
  congr 4
  by_cases h1 : it.idx > 0
  · simp [h1]
  · by_cases h2 : it.idx = 0
    · simp [h2]
    · simp [h1, h2]

theorem hostrangeShift_fields {r r' : HRange} {x : Str} (h : hostrangeShift r = (some x, r')) :
    r'.width = r.width ∧ r'.hi = r.hi ∧ r'.single = r.single := by
  unfold hostrangeShift at h
  split at h
  · simp only [Prod.mk.injEq] at h; rw [← h.2]; exact ⟨rfl, rfl, rfl⟩
  · split at h
    · simp only [Prod.mk.injEq] at h; rw [← h.2]; exact ⟨rfl, rfl, rfl⟩
    · simp at h

theorem remaining_length_le (L : List HRange) (i k : Nat) : (remaining L i k).length ≤ (hostsL L).length := by
  cases hr : L[i]? with
  | none => rw [remaining_none hr]; simp
  | some r =>
    have := congrArg List.length (hosts_cut L i k r hr)
    simp only [List.length_append] at this
    omega

/-- a cursor is determined by what is left -/
theorem cur_of_drop (names : List Str) (c : Nat) (hle : c ≤ names.length) (rem : List Str) (h : names.drop c = rem) :
    c = names.length - rem.length := by
  have := congrArg List.length h
  simp only [List.length_drop] at this
  omega

theorem coh_mk (rs : List RObj) (nh : Int) (nx : Nat) (i k : Nat) (idx depth : Int) (hr : Option Nat)
    (h1 : idx = (i : Int)) (h2 : depth = (k : Int) - 1) (h3 : hr = (rs[i]?).map (·.id)) :
    Coh ⟨rs, nh, nx, [(0, ⟨idx, depth, hr⟩)]⟩ i k := by
  subst h1 h2 h3
  unfold Coh
  simp only
  rw [hrAt_nat]

/-- SHIFT: `hostlist_shift` with the iterator live answers the first name, the list loses it, and the
    iterator still stands in front of what it had left (`ShiftFits`: numbers fit the buffer
    `hostrange_shift` allocates) -/
theorem shift_refines (cfg : Cfg) (hfix : cfg.fixRemoveDepth = true) (e : EL) (p : EditSpec.PL) (c : Nat) (fresh : Bool)
    (h : Ref cfg e p c fresh) (hf : ∀ r ∈ e.ranges, r.ShiftFits) :
    ∃ e', shiftE cfg e = .ok ((EditSpec.shift p).1, e') ∧
      Ref cfg e' (EditSpec.shift p).2 (if p.names = [] then c else c - 1) false := by
  obtain ⟨i, k, hc, hrem, _⟩ := h.pos
  obtain ⟨rs, nh, nx, its⟩ := e
  have hits : its = [(0, ⟨(i : Int), (k : Int) - 1, EL.hrAt ⟨rs, nh, nx, its⟩ (i : Int)⟩)] := hc
  cases rs with
  | nil =>
    have hn0 : p.names = [] := by rw [← h.hosts]; rfl
    have hnh : nh = 0 := by have := h.good.2; simpa [EL.hosts, EL.ranges] using this
    refine ⟨⟨[], nh, nx, its⟩, ?_, ?_⟩
    · unfold shiftE EditSpec.shift
      simp [hnh, hn0]
    · have : EditSpec.shift p = (none, p) := by unfold EditSpec.shift; simp [hn0]
      rw [this]
      simp only [hn0, ↓reduceIte]
      exact ⟨h.ids, h.good, h.full, h.hosts, h.cur, h.le, i, k, hc, hrem, by intro hf'; simp at hf'⟩
  | cons o rest =>
    have hog : o.r.Good := h.good.1 o.r (by simp [EL.ranges])
    have hof : o.r.ShiftFits := hf o.r (by simp [EL.ranges])
    obtain ⟨x, r', hsh, hcase⟩ := hostrangeShift_spec hog hof
    obtain ⟨fw, fh, fs⟩ := hostrangeShift_fields hsh
    have hnames : p.names = o.r.hosts ++ hostsL (rest.map (·.r)) := by
      rw [← h.hosts]; simp [EL.hosts, EL.ranges, hostsL]
    have hranges : EL.ranges ⟨o :: rest, nh, nx, its⟩ = o.r :: rest.map (·.r) := by simp [EL.ranges]
    have hpos : nh > 0 := by
      have := h.good.2
      have hp := hog.hosts_pos
      simp only [EL.hosts, EL.ranges, List.map_cons, List.flatMap_cons, List.length_append] at this
      omega
    have hnd : ((o :: rest).map (·.id)).Nodup ∧ ∀ y ∈ o :: rest, y.id < nx := h.ids
    rw [hranges] at hrem
    -- the first name and the plain list's answer
    have hxhead : ∃ tl, p.names = x :: tl ∧ EditSpec.shift p = (some x, p.delPos 0) := by
      rcases hcase with ⟨_, hx⟩ | ⟨_, _, _, hx⟩
      · refine ⟨hostsL (rest.map (·.r)), by rw [hnames, hx]; rfl, ?_⟩
        unfold EditSpec.shift; rw [hnames, hx]; rfl
      · refine ⟨r'.hosts ++ hostsL (rest.map (·.r)), by rw [hnames, hx]; rfl, ?_⟩
        unfold EditSpec.shift; rw [hnames, hx]; rfl
    obtain ⟨tl, hntl, hspec⟩ := hxhead
    have hne : p.names ≠ [] := by rw [hntl]; simp
    rw [hspec]
    simp only [hne, ↓reduceIte]
    have hdn : (p.delPos 0).names = tl := by
      show p.names.eraseIdx 0 = tl; rw [hntl]; rfl
    have hdc : (p.delPos 0).cur = [(0, c - 1)] := by
      unfold EditSpec.PL.delPos; rw [h.cur]
      by_cases hc0 : c > 0
      · simp [hc0]
      · have : c = 0 := by omega
        simp [this]
    have hlen : p.names.length = tl.length + 1 := by rw [hntl]; rfl
    have hcle : c - 1 ≤ tl.length := by have := h.le; omega
    -- whenever something in front of the cursor exists, the cursor is ≥ 1 and what is left stays
    have hkeep : ∀ rem : List Str, p.names.drop c = rem → rem.length ≤ tl.length → tl.drop (c - 1) = rem := by
      intro rem hr hl
      have hc' := cur_of_drop p.names c h.le rem hr
      have hc1 : 1 ≤ c := by omega
      rw [← hr, hntl]
      have : c = (c - 1) + 1 := by omega
      conv => rhs; rw [this]
      rfl
    rw [hits]
    rcases hcase with ⟨he, hx⟩ | ⟨hnee, hg', hf', hx⟩
    · -- record 0 goes away
      rw [shiftE_gone cfg hfix o rest nh nx _ x r' hpos hsh he]
      have htl : tl = hostsL (rest.map (·.r)) := by
        have := hnames; rw [hntl, hx] at this; simpa using this
      have hids' := ids_erase [] rest o nx (by simpa using hnd)
      have hgood' : EL.Good ⟨rest, nh - 1, nx, []⟩ := by
        refine ⟨fun q hq => h.good.1 q (by simp [EL.ranges] at hq ⊢; exact Or.inr hq), ?_⟩
        have := h.good.2
        simp only [EL.hosts, EL.ranges, List.map_cons, List.flatMap_cons, List.length_append, hx, List.length_singleton] at this ⊢
        omega
      cases i with
      | zero =>
        simp only [show ¬ (((0 : Nat) : Int) > 0) from by omega, show (((0 : Nat) : Int) = 0) from rfl, ↓reduceIte]
        refine ⟨_, rfl, ⟨by simpa [EL.IdsOk] using hids', ⟨hgood'.1, hgood'.2⟩,
          fun q hq => h.full q (by simp [EL.ranges] at hq ⊢; exact Or.inr hq),
          by rw [hdn, htl]; rfl, hdc, by rw [hdn]; exact hcle, 0, 0, ?_, ?_, by intro hf'; simp at hf'⟩⟩
        · exact coh_mk rest (nh - 1) nx 0 0 _ _ _ rfl (by omega) (by
            show EL.hrAt _ ((0 : Nat) : Int) = _
            rw [hrAt_nat])
        · show remaining (rest.map (·.r)) 0 0 = _
          rw [remaining_zero, hdn]
          -- what was left: x (if not yet handed out) and the rest
          have hr0 : remaining (o.r :: rest.map (·.r)) 0 k = o.r.hosts.drop k ++ hostsL (rest.map (·.r)) :=
            remaining_mid [] o.r _ k
          rw [hr0, hx] at hrem
          by_cases hk0 : k = 0
          · subst hk0
            have hc0 := cur_of_drop p.names c h.le _ hrem.symm
            simp only [List.drop_zero, List.length_append, List.length_singleton] at hc0
            have : c = 0 := by rw [hlen, htl] at hc0; omega
            subst this
            simp [htl, hostsL]
          · have hdk : ([x] : List Str).drop k = [] := List.drop_eq_nil_iff.mpr (by simp; omega)
            rw [hdk, List.nil_append] at hrem
            have := hkeep _ hrem.symm (by rw [htl]; exact Nat.le_refl _)
            rw [this]; rfl
      | succ i' =>
        have hgt : (((i' + 1 : Nat) : Int) > 0) := by omega
        simp only [hgt, ↓reduceIte]
        refine ⟨_, rfl, ⟨by simpa [EL.IdsOk] using hids', ⟨hgood'.1, hgood'.2⟩,
          fun q hq => h.full q (by simp [EL.ranges] at hq ⊢; exact Or.inr hq),
          by rw [hdn, htl]; rfl, hdc, by rw [hdn]; exact hcle, i', k, ?_, ?_, by intro hf'; simp at hf'⟩⟩
        · exact coh_mk rest (nh - 1) nx i' k _ _ _ (by omega) rfl (by
            have : (((i' + 1 : Nat) : Int) - 1) = (i' : Int) := by omega
            rw [this, hrAt_nat])
        · show remaining (rest.map (·.r)) i' k = _
          rw [remaining_succ] at hrem
          rw [hdn]
          exact (hkeep _ hrem.symm (by rw [htl]; exact remaining_length_le _ _ _)).symm
    · -- record 0 keeps hosts
      rw [shiftE_keep cfg o rest nh nx _ x r' hpos hsh hnee]
      have htl : tl = r'.hosts ++ hostsL (rest.map (·.r)) := by
        have := hnames; rw [hntl, hx] at this; simpa using this
      have hids' := ids_shrink [] rest o r' nx (by simpa using hnd)
      have hgoodr : ∀ q ∈ r' :: rest.map (·.r), q.Good := by
        intro q hq
        rcases List.mem_cons.mp hq with rfl | hq
        · exact hg'
        · exact h.good.1 q (by simp [EL.ranges] at hq ⊢; exact Or.inr hq)
      have hfull' : ∀ q ∈ r' :: rest.map (·.r), q.PrintsFull cfg := by
        intro q hq
        rcases List.mem_cons.mp hq with rfl | hq
        · exact narrow_of_le (h.full o.r (by simp [EL.ranges])) fw (by omega) fs
        · exact h.full q (by simp [EL.ranges] at hq ⊢; exact Or.inr hq)
      have hnh' : (nh - 1 : Int) = ((r'.hosts ++ hostsL (rest.map (·.r))).length : Int) := by
        have := h.good.2
        simp only [EL.hosts, EL.ranges, List.map_cons, List.flatMap_cons, List.length_append, hx, List.length_cons] at this
        simp only [List.length_append, hostsL]
        omega
      have hr0 : ∀ kk, remaining (o.r :: rest.map (·.r)) 0 kk = o.r.hosts.drop kk ++ hostsL (rest.map (·.r)) :=
        fun kk => remaining_mid [] o.r _ kk
      have hr0' : ∀ kk, remaining (r' :: rest.map (·.r)) 0 kk = r'.hosts.drop kk ++ hostsL (rest.map (·.r)) :=
        fun kk => remaining_mid [] r' _ kk
      have hbase : ∀ (it : ItSt),
          EL.IdsOk ⟨{ o with r := r' } :: rest, nh - 1, nx, [(0, it)]⟩ ∧
          EL.Good ⟨{ o with r := r' } :: rest, nh - 1, nx, [(0, it)]⟩ ∧
          (∀ q ∈ EL.ranges ⟨{ o with r := r' } :: rest, nh - 1, nx, [(0, it)]⟩, q.PrintsFull cfg) ∧
          EL.hosts ⟨{ o with r := r' } :: rest, nh - 1, nx, [(0, it)]⟩ = (p.delPos 0).names := by
        intro it
        refine ⟨by simpa [EL.IdsOk] using hids', ⟨by simpa [EL.ranges] using hgoodr, ?_⟩,
          by simpa [EL.ranges] using hfull', ?_⟩
        · show (nh - 1 : Int) = _
          rw [hnh']; simp [EL.hosts, EL.ranges, hostsL]
        · rw [hdn, htl]; simp [EL.hosts, EL.ranges, hostsL]
      cases i with
      | zero =>
        by_cases hk0 : k = 0
        · subst hk0
          have hcond : ¬ ((((0 : Nat) : Int) = 0) ∧ (((0 : Nat) : Int) - 1 ≥ 0)) := by omega
          simp only [hcond, ↓reduceIte]
          obtain ⟨b1, b2, b3, b4⟩ := hbase ⟨((0 : Nat) : Int), ((0 : Nat) : Int) - 1, EL.hrAt ⟨o :: rest, nh, nx, its⟩ ((0 : Nat) : Int)⟩
          refine ⟨_, rfl, ⟨b1, b2, b3, b4, hdc, by rw [hdn]; exact hcle, 0, 0, ?_, ?_, by intro hf'; simp at hf'⟩⟩
          · exact coh_mk _ (nh - 1) nx 0 0 _ _ _ rfl rfl (by
              show EL.hrAt _ ((0 : Nat) : Int) = _
              rw [hrAt_nat]; simp)
          · show remaining (r' :: rest.map (·.r)) 0 0 = _
            rw [hr0', hdn]
            rw [hr0, hx] at hrem
            have hc0 := cur_of_drop p.names c h.le _ hrem.symm
            simp only [List.drop_zero, List.length_append, List.length_cons] at hc0
            have : c = 0 := by rw [hlen, htl] at hc0; simp only [List.length_append] at hc0; omega
            subst this
            simp [htl]
        · have hcond : ((((0 : Nat) : Int) = 0) ∧ ((k : Int) - 1 ≥ 0)) := by omega
          simp only [hcond, and_self, ↓reduceIte]
          obtain ⟨b1, b2, b3, b4⟩ := hbase ⟨((0 : Nat) : Int), (k : Int) - 1 - 1, EL.hrAt ⟨o :: rest, nh, nx, its⟩ ((0 : Nat) : Int)⟩
          refine ⟨_, rfl, ⟨b1, b2, b3, b4, hdc, by rw [hdn]; exact hcle, 0, k - 1, ?_, ?_, by intro hf'; simp at hf'⟩⟩
          · exact coh_mk _ (nh - 1) nx 0 (k - 1) _ _ _ rfl (by omega) (by
              show EL.hrAt _ ((0 : Nat) : Int) = _
              rw [hrAt_nat]; simp)
          · show remaining (r' :: rest.map (·.r)) 0 (k - 1) = _
            rw [hr0', hdn]
            rw [hr0, hx] at hrem
            have hdk : (x :: r'.hosts).drop k = r'.hosts.drop (k - 1) := by
              have : k = (k - 1) + 1 := by omega
              conv => lhs; rw [this]
              rfl
            rw [hdk] at hrem
            exact (hkeep _ hrem.symm (by rw [htl]; simp only [List.length_append, List.length_drop]; omega)).symm
      | succ i' =>
        have hcond : ¬ ((((i' + 1 : Nat) : Int) = 0) ∧ ((k : Int) - 1 ≥ 0)) := by omega
        simp only [hcond, ↓reduceIte]
        obtain ⟨b1, b2, b3, b4⟩ := hbase ⟨((i' + 1 : Nat) : Int), (k : Int) - 1, EL.hrAt ⟨o :: rest, nh, nx, its⟩ ((i' + 1 : Nat) : Int)⟩
        refine ⟨_, rfl, ⟨b1, b2, b3, b4, hdc, by rw [hdn]; exact hcle, i' + 1, k, ?_, ?_, by intro hf'; simp at hf'⟩⟩
        · exact coh_mk _ (nh - 1) nx (i' + 1) k _ _ _ rfl rfl (by rw [hrAt_nat]; simp)
        · show remaining (r' :: rest.map (·.r)) (i' + 1) k = _
          rw [remaining_succ] at hrem ⊢
          rw [hdn]
          exact (hkeep _ hrem.symm (by
            rw [htl]; simp only [List.length_append]
            have := remaining_length_le (rest.map (·.r)) i' k
            omega)).symm

/-! ### `hostlist_push_range` while the iterator has something left -/
theorem remaining_append (L S : List HRange) (i k : Nat) (hi : i < L.length) :
    remaining (L ++ S) i k = remaining L i k ++ hostsL S := by
  unfold remaining
  rw [List.getElem?_append_left hi, List.drop_append_of_le_length (by omega)]
  simp [hostsL]

/-- the identities before the push stay where they are -/
theorem pushRangeE_ids_prefix (e : EL) (r : HRange) :
    ∃ suffix, (pushRangeE e r).rs.map (·.id) = e.rs.map (·.id) ++ suffix := by
  unfold pushRangeE
  simp only
  cases hl : e.rs.getLast? with
  | none => exact ⟨[e.nextId], by simp⟩
  | some t =>
    simp only
    split
    · generalize widthCombine t.r r = w
      obtain ⟨ok, wt, wr⟩ := w
      cases ok with
      | false => exact ⟨[e.nextId], by simp⟩
      | true =>
        simp only
        have hne : e.rs ≠ [] := by intro h; simp [h] at hl
        have hgl : e.rs.getLast hne = t := by
          rw [List.getLast?_eq_some_getLast hne] at hl; exact Option.some.inj hl
        have hsplit : e.rs = e.rs.dropLast ++ [t] := by
          have := List.dropLast_concat_getLast hne
          rw [hgl] at this; exact this.symm
        refine ⟨[], ?_⟩
        conv => rhs; rw [hsplit]
        simp
    · exact ⟨[e.nextId], by simp⟩

/-- PUSH (the iterator has not reached the end): the new hosts are appended, the iterator goes on
    where it was and will reach them — whether the record is appended or joined to the last one
    (D17 repaired, so that joined records print in full) -/
theorem push_refines (cfg : Cfg) (hfs : cfg.fixIterSuffix = true) (e : EL) (p : EditSpec.PL) (c : Nat) (fresh : Bool)
    (h : Ref cfg e p c fresh) (r : HRange) (hr : r.Good) (hnotend : c < p.names.length) :
    Ref cfg (pushRangeE e r) { p with names := p.names ++ r.hosts } c false := by
  obtain ⟨i, k, hc, hrem, _⟩ := h.pos
  obtain ⟨hg', hh'⟩ := pushRangeE_hosts e r h.good hr
  obtain ⟨k1, k2⟩ := pushRangeE_keeps e r
  -- the iterator's record exists
  have hdne : p.names.drop c ≠ [] := by
    intro h0; have := List.drop_eq_nil_iff.mp h0; omega
  have hilt : i < e.ranges.length := by
    by_cases hlt : i < e.ranges.length
    · exact hlt
    · have : e.ranges[i]? = none := by simp; omega
      rw [remaining_none this] at hrem
      exact absurd hrem.symm hdne
  have hilt' : i < e.rs.length := by simpa [EL.ranges] using hilt
  -- the cached pointer still names record i
  have hhr : (pushRangeE e r).hrAt (i : Int) = e.hrAt (i : Int) := by
    obtain ⟨sfx, hs⟩ := pushRangeE_ids_prefix e r
    rw [hrAt_nat, hrAt_nat, ← List.getElem?_map, ← List.getElem?_map, hs,
      List.getElem?_append_left (by simpa using hilt')]
  refine ⟨k1 h.ids, hg', fun _ _ => Or.inl hfs, by rw [hh', h.hosts], h.cur,
    by simp only [List.length_append]; have := h.le; omega, i, k, ?_, ?_, by intro hf; simp at hf⟩
  · unfold Coh
    rw [k2, hhr]
    exact hc
  · -- what is left grows by the new hosts
    show remaining (pushRangeE e r).ranges i k = (p.names ++ r.hosts).drop c
    rw [List.drop_append_of_le_length h.le, ← hrem]
    have hrs : (pushRangeE e r).ranges = (pushRange e.toHL r).ranges.toList := by
      rw [← pushRangeE_toHL]; simp [EL.toHL]
    have hold : e.toHL.ranges.toList = e.ranges := by simp [EL.toHL]
    rcases pushRange_ranges e.toHL r with happ | ⟨t, wt, wr, hgl, hp, hlo, hw, hmer⟩
    · rw [hrs, happ, hold]
      rw [remaining_append _ _ _ _ hilt]
      simp [hostsL]
    · rw [hrs, hmer, hold]
      rw [hold] at hgl
      obtain ⟨D, hD⟩ := List.getLast?_eq_some_iff.mp hgl
      have htm : t ∈ e.ranges := by rw [hD]; simp
      obtain ⟨hch, _⟩ := coalesce_hosts (h.good.1 t htm) hr hp hlo hw
      rw [hD, List.dropLast_concat]
      by_cases hiD : i < D.length
      · rw [remaining_append _ _ _ _ hiD, remaining_append _ _ _ _ hiD]
        simp [hostsL, hch]
      · have hiD' : i = D.length := by rw [hD] at hilt; simp at hilt; omega
        subst hiD'
        have e1 : D ++ [({ t with hi := r.hi, width := wt } : HRange)] = D ++ ({ t with hi := r.hi, width := wt } : HRange) :: [] := rfl
        have e2 : D ++ [t] = D ++ t :: [] := rfl
        rw [e1, e2, remaining_mid, remaining_mid, hch]
        -- something of t is left, so k is inside t
        have hkt : k ≤ t.hosts.length := by
          by_cases hle : k ≤ t.hosts.length
          · exact hle
          · exfalso
            rw [hD, e2, remaining_mid] at hrem
            have : t.hosts.drop k = [] := List.drop_eq_nil_iff.mpr (by omega)
            rw [this] at hrem
            simp [hostsL] at hrem
            omega
        rw [List.drop_append_of_le_length hkt]
        simp [hostsL]

/-! ### `hostlist_pop` with the iterator live (repaired D20) -/
theorem hostrangePop_fields {r r' : HRange} {x : Str} (h : hostrangePop r = (some x, r')) (hg : r.Good)
    (hne : r'.empty = false) : r'.width = r.width ∧ r'.hi ≤ r.hi ∧ r'.single = r.single := by
  have hu : ULONG_MAX + 1 = U64 := by decide
  unfold hostrangePop at h
  split at h
  · simp only [Prod.mk.injEq] at h; rw [← h.2]; exact ⟨rfl, Nat.le_refl _, rfl⟩
  · rename_i hs
    have hs' : r.single = false := by simpa using hs
    obtain ⟨h1, h2⟩ := hg.2 hs'
    split at h
    · simp only [Prod.mk.injEq] at h
      rw [← h.2] at hne ⊢
      refine ⟨rfl, ?_, rfl⟩
      simp only at hne ⊢
      by_cases h0 : r.hi = 0
      · exfalso
        rw [h0] at hne
        simp [HRange.empty, subU64_zero_one] at hne
      · rw [subU64_of_le (by omega) (by omega)]; omega
    · simp at h

theorem popE_keep (cfg : Cfg) (D : List RObj) (o : RObj) (nh : Int) (nx : Nat) (its : List (Nat × ItSt)) (x : Str)
    (r' : HRange) (hpos : nh > 0) (hp : hostrangePop o.r = (some x, r')) (hne : r'.empty = false) :
    popE cfg ⟨D ++ [o], nh, nx, its⟩ = .ok (some x, ⟨D ++ [{ o with r := r' }], nh - 1, nx,
      popIts cfg ⟨D ++ [{ o with r := r' }], nh - 1, nx, its⟩ r'⟩) := by
  unfold popE
  simp only [hpos, ↓reduceIte, List.getLast?_append, List.getLast?_singleton, Option.some_or, hp, hne,
    Bool.false_eq_true, List.dropLast_concat]

/-- the one iterator after a pop that shortened the last record: as found it is not touched; repaired
    (F16-ENDPUSH) it steps back when it stood on the popped host -/
theorem popIts_one (cfg : Cfg) (rs : List RObj) (nh : Int) (nx i k : Nat) (hr : Option Nat) (r' : HRange) :
    ∃ kk : Nat, popIts cfg ⟨rs, nh, nx, [(0, ⟨(i : Int), (k : Int) - 1, hr⟩)]⟩ r'
        = [(0, ⟨(i : Int), (kk : Int) - 1, hr⟩)] ∧
      (kk = k ∨ ((i : Int) = (rs.length : Int) - 1 ∧ subU64 r'.hi r'.lo + 1 ≤ kk ∧ kk + 1 = k)) := by
  unfold popIts
  rcases Bool.eq_false_or_eq_true cfg.fixEndPush with hfx | hfx
  · simp only [hfx, ↓reduceIte, shiftIterators, List.map_cons, List.map_nil]
    by_cases hcond : ((i : Int) = (rs.length : Int) - 1) ∧ ((k : Int) - 1 ≥ ((subU64 r'.hi r'.lo + 1 : Nat) : Int))
    · refine ⟨k - 1, ?_, Or.inr ⟨hcond.1, by omega, by omega⟩⟩
      have h1 : ((k : Int) - 1 > -1) := by omega
      simp only [hcond.1, hcond.2, h1, decide_true, Bool.and_self, ↓reduceIte]
      congr 3
      omega
    · refine ⟨k, ?_, Or.inl rfl⟩
      have : (decide ((i : Int) = (rs.length : Int) - 1) && decide ((k : Int) - 1 ≥ ((subU64 r'.hi r'.lo + 1 : Nat) : Int))) = false := by
        refine Bool.eq_false_iff.mpr (fun h => hcond ?_)
        have h' := Bool.and_eq_true_iff.mp h
        exact ⟨of_decide_eq_true h'.1, of_decide_eq_true h'.2⟩
      simp only [this, Bool.false_eq_true, ↓reduceIte]
  · exact ⟨k, by simp [hfx], Or.inl rfl⟩

theorem popE_gone (cfg : Cfg) (hfix : cfg.fixPopIter = true) (D : List RObj) (o : RObj) (nh : Int) (nx : Nat)
    (its : List (Nat × ItSt)) (x : Str) (r' : HRange) (hpos : nh > 0) (hp : hostrangePop o.r = (some x, r'))
    (he : r'.empty = true) :
    popE cfg ⟨D ++ [o], nh, nx, its⟩ =
      .ok (some x, deleteRange cfg ⟨D ++ [{ o with r := r' }], nh - 1, nx, its⟩ D.length) := by
  unfold popE
  simp only [hpos, ↓reduceIte, List.getLast?_append, List.getLast?_singleton, Option.some_or, hp, he, hfix,
    List.dropLast_concat, List.length_append, List.length_singleton, Nat.add_sub_cancel]

theorem dropLast_drop (l : List Str) (c : Nat) : l.dropLast.drop c = (l.drop c).dropLast := by
  induction l generalizing c with
  | nil => simp
  | cons a l ih =>
    cases c with
    | zero => simp
    | succ c =>
      cases l with
      | nil => simp
      | cons b l => simp only [List.dropLast_cons₂, List.drop_succ_cons]; exact ih c

/-- the cursor after a pop, and what it has left -/
theorem pop_cursor (names : List Str) (x : Str) (B : List Str) (hn : names = B ++ [x]) (c : Nat) (hle : c ≤ names.length) :
    B.drop (if c = names.length then c - 1 else c) = (names.drop c).dropLast := by
  subst hn
  by_cases hc : c = (B ++ [x]).length
  · simp only [hc, ↓reduceIte]
    simp
  · simp only [hc, ↓reduceIte]
    rw [← dropLast_drop, List.dropLast_concat]

theorem hrAt_of_ids (e e' : EL) (h : e'.rs.map (·.id) = e.rs.map (·.id)) (j : Nat) :
    e'.hrAt (j : Int) = e.hrAt (j : Int) := by
  rw [hrAt_nat, hrAt_nat, ← List.getElem?_map, ← List.getElem?_map, h]

/-- `hostlist_delete_range` (repaired) with the one iterator: the four cases -/
theorem deleteRange_lt (cfg : Cfg) (hfix : cfg.fixRemoveDepth = true) (rs : List RObj) (nh : Int) (nx : Nat) (it : ItSt)
    (n : Nat) (h : it.idx < (n : Int)) :
    deleteRange cfg ⟨rs, nh, nx, [(0, it)]⟩ n = ⟨rs.eraseIdx n, nh, nx, [(0, it)]⟩ := by
  unfold deleteRange
  have h1 : ¬ (it.idx > (n : Int)) := by omega
  have h2 : ¬ (it.idx = (n : Int)) := by omega
  simp only [hfix, Bool.not_true, Bool.false_eq_true, ↓reduceIte, List.map_cons, List.map_nil]
  rw [if_neg h1, if_neg h2]

theorem deleteRange_gt (cfg : Cfg) (hfix : cfg.fixRemoveDepth = true) (rs : List RObj) (nh : Int) (nx : Nat) (it : ItSt)
    (n : Nat) (h : it.idx > (n : Int)) :
    deleteRange cfg ⟨rs, nh, nx, [(0, it)]⟩ n =
      ⟨rs.eraseIdx n, nh, nx,
        [(0, ⟨it.idx - 1, it.depth, EL.hrAt ⟨rs.eraseIdx n, nh, nx, [(0, it)]⟩ (it.idx - 1)⟩)]⟩ := by
  unfold deleteRange
  simp only [hfix, Bool.not_true, Bool.false_eq_true, ↓reduceIte, List.map_cons, List.map_nil]
  rw [if_pos h]

theorem deleteRange_eq0 (cfg : Cfg) (hfix : cfg.fixRemoveDepth = true) (rs : List RObj) (nh : Int) (nx : Nat) (it : ItSt)
    (h : it.idx = 0) :
    deleteRange cfg ⟨rs, nh, nx, [(0, it)]⟩ 0 =
      ⟨rs.eraseIdx 0, nh, nx, [(0, EL.resetIt ⟨rs.eraseIdx 0, nh, nx, [(0, it)]⟩)]⟩ := by
  unfold deleteRange
  have h1 : ¬ (it.idx > ((0 : Nat) : Int)) := by omega
  have h2 : it.idx = ((0 : Nat) : Int) := by omega
  simp only [hfix, Bool.not_true, Bool.false_eq_true, ↓reduceIte, List.map_cons, List.map_nil]
  rw [if_neg h1, if_pos h2]

theorem deleteRange_eqS (cfg : Cfg) (hfix : cfg.fixRemoveDepth = true) (rs : List RObj) (nh : Int) (nx : Nat) (it : ItSt)
    (m : Nat) (pv : RObj) (h : it.idx = ((m + 1 : Nat) : Int)) (hpv : (rs.eraseIdx (m + 1))[m]? = some pv) :
    deleteRange cfg ⟨rs, nh, nx, [(0, it)]⟩ (m + 1) =
      ⟨rs.eraseIdx (m + 1), nh, nx, [(0, ⟨it.idx - 1, (subU64 pv.r.hi pv.r.lo : Nat), some pv.id⟩)]⟩ := by
  unfold deleteRange
  have h1 : ¬ (it.idx > ((m + 1 : Nat) : Int)) := by omega
  simp only [hfix, Bool.not_true, Bool.false_eq_true, ↓reduceIte, List.map_cons, List.map_nil]
  rw [if_neg h1, if_pos h]
  simp only [Nat.add_sub_cancel, hpv]

/-- POP (repaired D20): `hostlist_pop` with the iterator live answers the last name, the list loses
    it, and the iterator keeps what it had left minus that host — also when it stood on it -/
theorem pop_refines (cfg : Cfg) (hD19 : cfg.fixRemoveDepth = true) (hD20 : cfg.fixPopIter = true) (e : EL)
    (p : EditSpec.PL) (c : Nat) (fresh : Bool) (h : Ref cfg e p c fresh) (hf : ∀ r ∈ e.ranges, r.ShiftFits) :
    ∃ e', popE cfg e = .ok ((EditSpec.pop p).1, e') ∧
      Ref cfg e' (EditSpec.pop p).2
        (if p.names = [] then c else if c = p.names.length then c - 1 else c) false := by
  obtain ⟨i, k, hc, hrem, _⟩ := h.pos
  obtain ⟨e0, hpop0, hh0, hg0, _⟩ := popE_hosts cfg e h.good hf
  obtain ⟨rs, nh, nx, its⟩ := e
  have hits : its = [(0, ⟨(i : Int), (k : Int) - 1, EL.hrAt ⟨rs, nh, nx, its⟩ (i : Int)⟩)] := hc
  rcases List.eq_nil_or_concat rs with hnil | ⟨D, o, hD⟩
  · -- the empty list
    subst hnil
    have hn0 : p.names = [] := by rw [← h.hosts]; rfl
    have hnh : nh = 0 := by have := h.good.2; simpa [EL.hosts, EL.ranges] using this
    refine ⟨⟨[], nh, nx, its⟩, ?_, ?_⟩
    · unfold popE EditSpec.pop
      simp [hnh, hn0]
    · have : EditSpec.pop p = (none, p) := by unfold EditSpec.pop; simp [hn0]
      rw [this]
      simp only [hn0, ↓reduceIte]
      exact ⟨h.ids, h.good, h.full, h.hosts, h.cur, h.le, i, k, hc, hrem, by intro hf'; simp at hf'⟩
  · rw [List.concat_eq_append] at hD
    subst hD
    have hog : o.r.Good := h.good.1 o.r (by simp [EL.ranges])
    have hof : o.r.ShiftFits := hf o.r (by simp [EL.ranges])
    obtain ⟨x, r', hp, hcase⟩ := hostrangePop_spec hog hof
    have hranges : EL.ranges ⟨D ++ [o], nh, nx, its⟩ = D.map (·.r) ++ [o.r] := by simp [EL.ranges]
    have hDl : (D.map (·.r)).length = D.length := by simp
    have hnames : p.names = hostsL (D.map (·.r)) ++ o.r.hosts := by
      rw [← h.hosts]
      show hostsL (EL.ranges _) = _
      rw [hranges, hostsL_append]; simp [hostsL]
    have hpos : nh > 0 := by
      have h2 : nh = ((EL.hosts ⟨D ++ [o], nh, nx, its⟩).length : Int) := h.good.2
      have hpp := hog.hosts_pos
      have h1 : (EL.hosts ⟨D ++ [o], nh, nx, its⟩).length = (hostsL (D.map (·.r))).length + o.r.hosts.length := by
        rw [h.hosts, hnames]; simp
      omega
    have hnd : ((D ++ o :: []).map (·.id)).Nodup ∧ ∀ y ∈ D ++ o :: [], y.id < nx := h.ids
    rw [hranges] at hrem
    -- the plain list's side
    have hB : ∃ B, p.names = B ++ [x] := by
      rcases hcase with ⟨_, hx⟩ | ⟨_, _, _, hx⟩
      · exact ⟨hostsL (D.map (·.r)), by rw [hnames, hx]⟩
      · exact ⟨hostsL (D.map (·.r)) ++ r'.hosts, by rw [hnames, hx, List.append_assoc]⟩
    obtain ⟨B, hBn⟩ := hB
    have hne : p.names ≠ [] := by rw [hBn]; simp
    have hlast : p.names.getLast? = some x := by rw [hBn]; simp
    have hspec : EditSpec.pop p = (some x, p.delPos (p.names.length - 1)) := by
      unfold EditSpec.pop; rw [hlast]
    have hlen : p.names.length = B.length + 1 := by rw [hBn]; simp
    have hdn : (p.delPos (p.names.length - 1)).names = B := by
      show p.names.eraseIdx (p.names.length - 1) = B
      rw [hBn]
      have : (B ++ [x]).length - 1 = B.length := by simp
      rw [this, eraseIdx_mid]; simp
    have hdc : (p.delPos (p.names.length - 1)).cur =
        [(0, if c = p.names.length then c - 1 else c)] := by
      unfold EditSpec.PL.delPos; rw [h.cur]
      have := h.le
      by_cases hcl : c = p.names.length
      · have : c > p.names.length - 1 := by omega
        subst hcl
        simp only [List.map_cons, List.map_nil, this, ↓reduceIte]
      · have : ¬ c > p.names.length - 1 := by omega
        simp [hcl, this]
    have hc'le : (if c = p.names.length then c - 1 else c) ≤ B.length := by
      have := h.le
      split <;> omega
    have hcursor := pop_cursor p.names x B hBn c h.le
    rw [hspec]
    simp only [hne, ↓reduceIte]
    -- the model's side: the same computation `popE_hosts` speaks about
    have hhosts0 : e0.hosts = B := by
      rw [hh0, h.hosts, hBn]; simp
    rw [hits] at hpop0 ⊢
    rcases hcase with ⟨he, hx⟩ | ⟨hnee, hg', hf', hx⟩
    · -- the last record goes away
      have hcomp := popE_gone cfg hD20 D o nh nx [(0, ⟨(i : Int), (k : Int) - 1, EL.hrAt ⟨D ++ [o], nh, nx, its⟩ (i : Int)⟩)] x r' hpos hp he
      rw [hcomp] at hpop0 ⊢
      have herase : (D ++ [({ o with r := r' } : RObj)]).eraseIdx D.length = D := by
        rw [eraseIdx_mid]; simp
      have hids' := ids_erase D [] o nx hnd
      have hBD : B = hostsL (D.map (·.r)) := by
        have := hnames; rw [hBn, hx] at this
        exact List.append_cancel_right this
      have hfull' : ∀ q ∈ D.map (·.r), q.PrintsFull cfg := fun q hq => h.full q (by rw [hranges]; simp [hq])
      have hbase : ∀ (it : Nat × ItSt), e0 = ⟨D, nh - 1, nx, [it]⟩ →
          EL.IdsOk ⟨D, nh - 1, nx, [it]⟩ ∧ EL.Good ⟨D, nh - 1, nx, [it]⟩ ∧
          (∀ q ∈ EL.ranges ⟨D, nh - 1, nx, [it]⟩, q.PrintsFull cfg) ∧
          EL.hosts ⟨D, nh - 1, nx, [it]⟩ = (p.delPos (p.names.length - 1)).names := by
        intro it he0
        refine ⟨by simpa [EL.IdsOk] using hids', by rw [← he0]; exact hg0, by simpa [EL.ranges] using hfull', ?_⟩
        rw [← he0, hhosts0, hdn]
      have hremD : ∀ j kk, j < D.length → remaining (D.map (·.r) ++ [o.r]) j kk = remaining (D.map (·.r)) j kk ++ [x] := by
        intro j kk hj
        rw [remaining_append _ _ _ _ (by rw [hDl]; exact hj)]
        simp [hostsL, hx]
      by_cases hilt : i < D.length
      · -- the iterator stands before the record that goes away
        rw [deleteRange_lt cfg hD19 _ _ _ _ _ (by show (i : Int) < (D.length : Int); omega), herase] at hpop0 ⊢
        simp only [Except.ok.injEq, Prod.mk.injEq] at hpop0
        obtain ⟨b1, b2, b3, b4⟩ := hbase _ hpop0.2.symm
        refine ⟨_, rfl, ⟨b1, b2, b3, b4, hdc, by rw [hdn]; exact hc'le, i, k, ?_, ?_, by intro hf'; simp at hf'⟩⟩
        · exact coh_mk D (nh - 1) nx i k _ _ _ rfl rfl (by
            rw [hrAt_nat]
            simp [List.getElem?_append_left hilt])
        · show remaining (D.map (·.r)) i k = _
          rw [hdn, hcursor, ← hrem, hremD i k hilt, List.dropLast_concat]
      · by_cases hieq : i = D.length
        · subst hieq
          -- what the iterator had left was at most x
          have hold : (remaining (D.map (·.r) ++ [o.r]) D.length k).dropLast = [] := by
            have e2 : D.map (·.r) ++ [o.r] = D.map (·.r) ++ o.r :: [] := rfl
            rw [e2, ← hDl, remaining_mid, hx]
            cases k with
            | zero => simp [hostsL]
            | succ k => simp [hostsL]
          rcases List.eq_nil_or_concat D with hDn | ⟨D0, pv, hD0⟩
          · subst hDn
            simp only [List.length_nil] at hpop0 ⊢ herase
            rw [deleteRange_eq0 cfg hD19 _ _ _ _ (by rfl), herase] at hpop0 ⊢
            simp only [Except.ok.injEq, Prod.mk.injEq] at hpop0
            obtain ⟨b1, b2, b3, b4⟩ := hbase _ hpop0.2.symm
            refine ⟨_, rfl, ⟨b1, b2, b3, b4, hdc, by rw [hdn]; exact hc'le, 0, 0, ?_, ?_, by intro hf'; simp at hf'⟩⟩
            · exact coh_mk [] (nh - 1) nx 0 0 _ _ _ rfl (by simp) (by simp [EL.hrAt])
            · show remaining (([] : List RObj).map (·.r)) 0 0 = _
              rw [hdn, hcursor, ← hrem]
              simp only [List.map_nil, List.length_nil] at hold ⊢
              rw [hold]
              exact remaining_none (by simp)
          · rw [List.concat_eq_append] at hD0
            subst hD0
            have hnz : (D0 ++ [pv]).length = D0.length + 1 := by simp
            rw [hnz] at hpop0 herase ⊢
            have hprev' : ((D0 ++ [pv] ++ [({ o with r := r' } : RObj)]).eraseIdx (D0.length + 1))[D0.length]? = some pv := by
              rw [herase]; simp
            rw [deleteRange_eqS cfg hD19 _ _ _ _ D0.length pv (by rfl) hprev', herase] at hpop0 ⊢
            simp only [Except.ok.injEq, Prod.mk.injEq] at hpop0
            obtain ⟨b1, b2, b3, b4⟩ := hbase _ hpop0.2.symm
            have hpg : pv.r.Good := h.good.1 pv.r (by rw [hranges]; simp)
            refine ⟨_, rfl, ⟨b1, b2, b3, b4, hdc, by rw [hdn]; exact hc'le, D0.length, pv.r.hosts.length, ?_, ?_,
              by intro hf'; simp at hf'⟩⟩
            · exact coh_mk (D0 ++ [pv]) (nh - 1) nx D0.length pv.r.hosts.length _ _ _
                (by show ((D0.length + 1 : Nat) : Int) - 1 = (D0.length : Int); omega)
                (by have := hpg.span; omega) (by simp)
            · show remaining ((D0 ++ [pv]).map (·.r)) D0.length pv.r.hosts.length = _
              rw [hdn, hcursor, ← hrem, hold]
              have e3 : (D0 ++ [pv]).map (·.r) = D0.map (·.r) ++ pv.r :: [] := by simp
              have hl0 : (D0.map (·.r)).length = D0.length := by simp
              rw [e3, ← hl0, remaining_mid]
              simp [hostsL]
        · -- the iterator had already left the list
          have hgt : i > D.length := by omega
          rw [deleteRange_gt cfg hD19 _ _ _ _ _ (by show (i : Int) > (D.length : Int); omega), herase] at hpop0 ⊢
          simp only [Except.ok.injEq, Prod.mk.injEq] at hpop0
          obtain ⟨b1, b2, b3, b4⟩ := hbase _ hpop0.2.symm
          refine ⟨_, rfl, ⟨b1, b2, b3, b4, hdc, by rw [hdn]; exact hc'le, i - 1, k, ?_, ?_, by intro hf'; simp at hf'⟩⟩
          · exact coh_mk D (nh - 1) nx (i - 1) k _ _ _ (by show (i : Int) - 1 = ((i - 1 : Nat) : Int); omega) rfl (by
              have : ((i : Int) - 1) = ((i - 1 : Nat) : Int) := by omega
              rw [this, hrAt_nat])
          · show remaining (D.map (·.r)) (i - 1) k = _
            have hn1 : (D.map (·.r))[i - 1]? = none := by simp; omega
            have hn2 : (D.map (·.r) ++ [o.r])[i]? = none := by simp; omega
            rw [hdn, hcursor, ← hrem, remaining_none hn1, remaining_none hn2]
            rfl
    · -- the last record keeps hosts: the iterator is not touched (repaired F16-ENDPUSH: it steps back
      -- when it stood on the popped host)
      have hcomp := popE_keep cfg D o nh nx [(0, ⟨(i : Int), (k : Int) - 1, EL.hrAt ⟨D ++ [o], nh, nx, its⟩ (i : Int)⟩)] x r' hpos hp hnee
      rw [hcomp] at hpop0 ⊢
      obtain ⟨kk, hkk, hcs⟩ := popIts_one cfg (D ++ [{ o with r := r' }]) (nh - 1) nx i k
        (EL.hrAt ⟨D ++ [o], nh, nx, its⟩ (i : Int)) r'
      rw [hkk] at hpop0 ⊢
      simp only [Except.ok.injEq, Prod.mk.injEq] at hpop0
      obtain ⟨fw, fh, fs⟩ := hostrangePop_fields hp hog hnee
      have hids' := ids_shrink D [] o r' nx hnd
      have hfull' : ∀ q ∈ D.map (·.r) ++ [r'], q.PrintsFull cfg := by
        intro q hq
        simp only [List.mem_append, List.mem_singleton] at hq
        rcases hq with hq | rfl
        · exact h.full q (by rw [hranges]; simp [hq])
        · exact narrow_of_le (h.full o.r (by rw [hranges]; simp)) fw fh fs
      refine ⟨_, rfl, ⟨by simpa [EL.IdsOk] using hids', by rw [hpop0.2]; exact hg0,
        by simpa [EL.ranges] using hfull', by rw [hpop0.2, hhosts0, hdn], hdc, by rw [hdn]; exact hc'le,
        i, kk, ?_, ?_, by intro hf'; simp at hf'⟩⟩
      · exact coh_mk (D ++ [{ o with r := r' }]) (nh - 1) nx i kk (i : Int) ((kk : Int) - 1)
          (EL.hrAt ⟨D ++ [o], nh, nx, its⟩ (i : Int)) rfl rfl (by
          rw [hrAt_nat, ← List.getElem?_map, ← List.getElem?_map]
          simp)
      · show remaining ((D ++ [({ o with r := r' } : RObj)]).map (·.r)) i kk = _
        have e4 : (D ++ [({ o with r := r' } : RObj)]).map (·.r) = D.map (·.r) ++ [r'] := by simp
        rw [e4, hdn, hcursor, ← hrem]
        rcases hcs with hkeq | ⟨hil, hk1, hk2⟩
        case inr =>
          -- it stood on (or behind) the popped host: nothing is left before and after
          have hieq : i = D.length := by
            have : ((D ++ [({ o with r := r' } : RObj)]).length : Int) = (D.length : Int) + 1 := by simp
            omega
          subst hieq
          have hsp := hg'.span
          have e5 : D.map (·.r) ++ [r'] = D.map (·.r) ++ r' :: [] := rfl
          have e6 : D.map (·.r) ++ [o.r] = D.map (·.r) ++ o.r :: [] := rfl
          rw [e5, e6, ← hDl, remaining_mid, remaining_mid, hx]
          simp only [hostsL, List.flatMap_nil, List.append_nil]
          have d1 : r'.hosts.drop kk = [] := List.drop_eq_nil_iff.mpr (by omega)
          have d2 : (r'.hosts ++ [x]).drop k = [] := List.drop_eq_nil_iff.mpr (by simp; omega)
          rw [d1, d2]; rfl
        rw [hkeq]
        by_cases hilt : i < D.length
        · rw [remaining_append _ _ _ _ (by rw [hDl]; exact hilt), remaining_append _ _ _ _ (by rw [hDl]; exact hilt)]
          simp only [hostsL, List.flatMap_cons, List.flatMap_nil, List.append_nil, hx]
          rw [← List.append_assoc, List.dropLast_concat]
        · by_cases hieq : i = D.length
          · subst hieq
            have e5 : D.map (·.r) ++ [r'] = D.map (·.r) ++ r' :: [] := rfl
            have e6 : D.map (·.r) ++ [o.r] = D.map (·.r) ++ o.r :: [] := rfl
            rw [e5, e6, ← hDl, remaining_mid, remaining_mid, hx]
            simp only [hostsL, List.flatMap_nil, List.append_nil]
            by_cases hk : k ≤ r'.hosts.length
            · rw [List.drop_append_of_le_length hk, List.dropLast_concat]
            · have d1 : r'.hosts.drop k = [] := List.drop_eq_nil_iff.mpr (by omega)
              have d2 : (r'.hosts ++ [x]).drop k = [] := List.drop_eq_nil_iff.mpr (by simp; omega)
              rw [d1, d2]; rfl
          · have hn1 : (D.map (·.r) ++ [r'])[i]? = none := by simp; omega
            have hn2 : (D.map (·.r) ++ [o.r])[i]? = none := by simp; omega
            rw [remaining_none hn1, remaining_none hn2]; rfl

/-- NEW: `hostlist_iterator_create` on a list without iterators -/
theorem new_refines (cfg : Cfg) (e : EL) (hid : e.IdsOk) (hg : e.Good) (hf : ∀ q ∈ e.ranges, q.PrintsFull cfg)
    (hits : e.its = []) : Ref cfg (itNew e 0) (EditSpec.itNew ⟨e.hosts, []⟩ 0) 0 false := by
  refine ⟨hid, hg, hf, rfl, rfl, Nat.zero_le _, 0, 0, coh_new e hits, ?_, by intro h; simp at h⟩
  show remaining e.ranges 0 0 = _
  rw [remaining_zero]
  rfl

end PdshVerif.Hostlist
