/-
  Helper lemmas for C14, part 2: `hostrange_to_string` and `hostlist_deranged_string`
  (repaired truncation test) against the expanded text.
-/
import PdshVerif.Hostlist.PrintLemmas
import PdshVerif.Hostlist.PrintSpec
import PdshVerif.Hostlist.Lemmas

namespace PdshVerif.Hostlist.Print
open PdshVerif.Hostlist

/-- every piece followed by a comma -/
def commaAll (l : List Str) : Str := l.flatMap (· ++ [','])

@[simp] theorem commaAll_nil : commaAll [] = [] := rfl
@[simp] theorem commaAll_cons (x : Str) (l : List Str) : commaAll (x :: l) = x ++ ',' :: commaAll l := by
  simp [commaAll]
theorem commaAll_append (a b : List Str) : commaAll (a ++ b) = commaAll a ++ commaAll b := by
  simp [commaAll]

theorem commaAll_eq_joinComma : ∀ (l : List Str), l ≠ [] → commaAll l = PrintSpec.joinComma l ++ [',']
  | [], h => absurd rfl h
  | [x], _ => by simp [PrintSpec.joinComma]
  | x :: y :: rest, _ => by
    rw [commaAll_cons, commaAll_eq_joinComma (y :: rest) (by simp), PrintSpec.joinComma]
    simp

theorem joinComma_length (l : List Str) (h : l ≠ []) :
    (PrintSpec.joinComma l).length + 1 = (commaAll l).length := by
  rw [commaAll_eq_joinComma l h]; simp

theorem snprintfAt_eq (b : Buf) (p m : Nat) (t : Str) :
    snprintfAt b p m t = ((snprintfAt b p m t).1, t.length) := by
  rw [← snprintfAt_ret b p m t]

theorem guardSub_le {n len : Nat} (h : len ≤ n) : guardSub n len = n - len := by
  simp [guardSub, h]

/-- the name of host number `i` of a range record -/
def hostText (r : HRange) (i : Nat) : Str := r.pre ++ fmtPad r.width i

/-! ### `hostrange_to_string` -/
theorem toStringLoop_spec (r : HRange) (off n : Nat) : ∀ (is : List Nat) (b : Buf) (len : Nat), len ≤ n →
    Wrote b (toStringLoop r off n is b len).1 (off + len) (off + n) (commaAll (is.map (hostText r))) ∧
    (len + (commaAll (is.map (hostText r))).length ≤ n →
      (toStringLoop r off n is b len).2 = (len + (commaAll (is.map (hostText r))).length, false)) ∧
    (n < len + (commaAll (is.map (hostText r))).length → (toStringLoop r off n is b len).2 = (n, true))
  | [], b, len, _ => by
    simp only [toStringLoop, List.map_nil, commaAll_nil, List.length_nil, Nat.add_zero]
    exact ⟨Wrote.refl _ _ _, by simp, fun h => by omega⟩
  | i :: is, b, len, hlen => by
    have hw := snprintfAt_wrote b (off + len) (guardSub n len) (off + n) (hostText r i)
      (by rw [guardSub_le hlen]; omega)
    simp only [toStringLoop, List.map_cons, commaAll_cons]
    rw [show r.pre ++ fmtPad r.width i = hostText r i from rfl, snprintfAt_eq]
    simp only [guardSub_le hlen] at hw ⊢
    by_cases hc : (hostText r i).length ≥ n - len
    · simp only [hc, ↓reduceIte, List.length_append, List.length_cons]
      refine ⟨hw.full _ (by omega), fun h => by omega, by simp⟩
    · simp only [hc, ↓reduceIte, List.length_append, List.length_cons]
      have hlen' : len + (hostText r i).length + 1 ≤ n := by omega
      obtain ⟨ih1, ih2, ih3⟩ := toStringLoop_spec r off n is
        ((snprintfAt b (off + len) (n - len) (hostText r i)).1.put (off + len + (hostText r i).length) ',')
        (len + (hostText r i).length + 1) hlen'
      have h1 := hw.put_end ',' (by omega)
      have e : off + len + (hostText r i ++ [',']).length = off + (len + (hostText r i).length + 1) := by
        simp only [List.length_append, List.length_cons, List.length_nil]; omega
      have h2 := h1.trans (T2 := commaAll (is.map (hostText r))) (by rw [e]; exact ih1)
      refine ⟨by simpa only [List.append_assoc, List.singleton_append] using h2, fun h => ?_, fun h => ?_⟩
      · rw [ih2 (by omega)]; simp only [Prod.mk.injEq, and_true]; omega
      · rw [ih3 (by omega)]

/-- text of one range record in the expanded form -/
def rangeText (r : HRange) : Str := PrintSpec.joinComma r.hosts

theorem Good.hosts_ne_nil {r : HRange} (hg : r.Good) : r.hosts ≠ [] := by
  unfold HRange.hosts
  split
  · simp
  · rename_i hs
    have := hg.2 (by simpa using hs)
    simp only [ne_eq, List.map_eq_nil_iff, List.range'_eq_nil_iff]
    omega

theorem hosts_nonsingle {r : HRange} (hs : r.single = false) :
    r.hosts = (List.range' r.lo (r.hi + 1 - r.lo)).map (hostText r) := by
  simp [HRange.hosts, hs, hostText]

theorem hostrangeToString_spec (b : Buf) (p m N : Nat) (r : HRange) (hg : r.Good) (hm : m = N - p)
    (hm1 : 1 ≤ m) :
    Wrote b (hostrangeToString b p m r).1 p N (rangeText r) ∧
    (p + (rangeText r).length < N → (hostrangeToString b p m r).2 = some (rangeText r).length) ∧
    (N ≤ p + (rangeText r).length →
      (hostrangeToString b p m r).2 = if r.single then some (rangeText r).length else none) := by
  have hN : p + m = N := by omega
  have hm0 : ¬ m = 0 := by omega
  by_cases hs : r.single = true
  · have ht : rangeText r = r.pre := by simp [rangeText, HRange.hosts, hs, PrintSpec.joinComma]
    simp only [hostrangeToString, hm0, ↓reduceIte, hs, ht]
    rw [snprintfAt_eq]
    exact ⟨snprintfAt_wrote b p m N r.pre hm, fun _ => rfl, fun _ => rfl⟩
  · have hs' : r.single = false := by simpa using hs
    have hne := Good.hosts_ne_nil hg
    have hTC : commaAll r.hosts = rangeText r ++ [','] := commaAll_eq_joinComma _ hne
    rw [hosts_nonsingle hs'] at hTC
    obtain ⟨l1, l2, l3⟩ := toStringLoop_spec r p m (List.range' r.lo (r.hi + 1 - r.lo)) b 0 (Nat.zero_le _)
    rw [hTC, hN] at l1
    rw [hTC] at l2 l3
    simp only [List.length_append, List.length_cons, List.length_nil, Nat.zero_add, Nat.add_zero] at l1 l2 l3
    simp only [hostrangeToString, hm0, ↓reduceIte, hs', Bool.false_eq_true]
    by_cases hfit : (rangeText r).length + 1 ≤ m
    · have e := l2 hfit
      rw [show toStringLoop r p m (List.range' r.lo (r.hi + 1 - r.lo)) b 0 =
        ((toStringLoop r p m (List.range' r.lo (r.hi + 1 - r.lo)) b 0).1, (rangeText r).length + 1, false) from by
          rw [← e]]
      simp only [Nat.add_one_ne_zero, ↓reduceIte, Nat.add_sub_cancel]
      refine ⟨?_, by simp, fun h => by omega⟩
      have := l1.prefix.put_after (p + (rangeText r).length) NUL (Nat.le_refl _) (by omega)
      rwa [show p + ((rangeText r).length + 1) - 1 = p + (rangeText r).length from by omega]
    · have e := l3 (by omega)
      rw [show toStringLoop r p m (List.range' r.lo (r.hi + 1 - r.lo)) b 0 =
        ((toStringLoop r p m (List.range' r.lo (r.hi + 1 - r.lo)) b 0).1, m, true) from by rw [← e]]
      simp only
      refine ⟨?_, fun h => by omega, by simp⟩
      have := l1.prefix.put_last NUL (by omega)
      rwa [show N - 1 = p + m - 1 from by omega] at this

/-! ### `hostlist_deranged_string`, repaired truncation test -/
/-- the expanded text with a comma after every range record -/
def derangedTC (rs : List HRange) : Str := commaAll (rs.map rangeText)

theorem derangedLoop_spec (n : Nat) : ∀ (rs : List HRange) (b : Buf) (len : Nat), len ≤ n →
    (∀ r ∈ rs, r.Good) →
    Wrote b (derangedLoop true n rs b len).1 len n (derangedTC rs) ∧
    (len + (derangedTC rs).length ≤ n →
      (derangedLoop true n rs b len).2 = (len + (derangedTC rs).length, false)) ∧
    (n < len + (derangedTC rs).length → (derangedLoop true n rs b len).2 = (n, true))
  | [], b, len, _, _ => by
    simp only [derangedLoop, derangedTC, List.map_nil, commaAll_nil, List.length_nil, Nat.add_zero]
    exact ⟨Wrote.refl _ _ _, by simp, fun h => by omega⟩
  | r :: rs, b, len, hlen, hg => by
    have hgr : r.Good := hg r (by simp)
    have hgs : ∀ x ∈ rs, x.Good := fun x hx => hg x (by simp [hx])
    simp only [derangedLoop, derangedTC, List.map_cons, commaAll_cons, guardSub_le hlen,
      List.length_append, List.length_cons]
    by_cases hm0 : n - len = 0
    · -- no room at all: `hostrange_to_string` returns 0 and `0 >= 0` reports truncation
      simp only [hm0, hostrangeToString, ↓reduceIte, derangedTrunc, ge_iff_le, Nat.le_refl, decide_true]
      exact ⟨Wrote.of_empty_window b _ (by omega), fun h => by omega, by simp⟩
    · obtain ⟨s1, s2, s3⟩ := hostrangeToString_spec b len (n - len) n r hgr rfl (by omega)
      by_cases hfit : len + (rangeText r).length < n
      · have e := s2 hfit
        rw [show hostrangeToString b len (n - len) r = ((hostrangeToString b len (n - len) r).1,
          some (rangeText r).length) from by rw [← e]]
        have hnt : derangedTrunc true (rangeText r).length (n - len) = false := by
          simp only [derangedTrunc, ↓reduceIte, ge_iff_le, decide_eq_false_iff_not]; omega
        simp only [hnt, Bool.false_eq_true, ↓reduceIte]
        obtain ⟨ih1, ih2, ih3⟩ := derangedLoop_spec n rs
          ((hostrangeToString b len (n - len) r).1.put (len + (rangeText r).length) ',')
          (len + (rangeText r).length + 1) (by omega) hgs
        have h1 := s1.put_end ',' hfit
        have e2 : len + (rangeText r ++ [',']).length = len + (rangeText r).length + 1 := by
          simp only [List.length_append, List.length_cons, List.length_nil]; omega
        have h2 := h1.trans (T2 := derangedTC rs) (by rw [e2]; exact ih1)
        refine ⟨by simpa only [List.append_assoc, List.singleton_append, derangedTC] using h2, fun h => ?_, fun h => ?_⟩
        · rw [ih2 (by unfold derangedTC at *; omega)]
          simp only [Prod.mk.injEq, and_true]; unfold derangedTC; omega
        · rw [ih3 (by unfold derangedTC at *; omega)]
      · have e := s3 (by omega)
        by_cases hs : r.single = true
        · simp only [hs, ↓reduceIte] at e
          rw [show hostrangeToString b len (n - len) r = ((hostrangeToString b len (n - len) r).1,
            some (rangeText r).length) from by rw [← e]]
          have hnt : derangedTrunc true (rangeText r).length (n - len) = true := by
            simp only [derangedTrunc, ↓reduceIte, ge_iff_le, decide_eq_true_eq]; omega
          simp only [hnt, ↓reduceIte]
          exact ⟨s1.full _ (by omega), fun h => by omega, by simp⟩
        · simp only [hs, Bool.false_eq_true, ↓reduceIte] at e
          rw [show hostrangeToString b len (n - len) r = ((hostrangeToString b len (n - len) r).1, none) from by
            rw [← e]]
          simp only
          exact ⟨s1.full _ (by omega), fun h => by omega, by simp⟩

theorem derangedTC_eq : ∀ (rs : List HRange), (∀ r ∈ rs, r.Good) →
    derangedTC rs = commaAll (rs.flatMap HRange.hosts)
  | [], _ => rfl
  | r :: rs, hg => by
    have ih := derangedTC_eq rs (fun x hx => hg x (by simp [hx]))
    unfold derangedTC at ih ⊢
    rw [List.map_cons, commaAll_cons, List.flatMap_cons, commaAll_append, ih,
      commaAll_eq_joinComma _ (Good.hosts_ne_nil (hg r (by simp)))]
    simp [rangeText]

/-- the expanded text of a record list: all denoted hosts joined by commas -/
def derangedT (rs : List HRange) : Str := PrintSpec.joinComma (rs.flatMap HRange.hosts)

/-- `hostlist_deranged_string` with the repaired test, any list of well-formed records, any n ≥ 1 -/
theorem derangedStringL_spec (n : Nat) (hn : 1 ≤ n) (rs : List HRange) (hg : ∀ r ∈ rs, r.Good) :
    Wrote Buf.empty (derangedStringL true n rs).1 0 n (derangedT rs) ∧
    ((derangedT rs).length < n → (derangedStringL true n rs).2 = .ok (derangedT rs).length ∧
      (derangedStringL true n rs).1.mem (derangedT rs).length = some NUL) ∧
    (n ≤ (derangedT rs).length → (derangedStringL true n rs).2 = .trunc ∧
      (derangedStringL true n rs).1.mem (n - 1) = some NUL) := by
  obtain ⟨l1, l2, l3⟩ := derangedLoop_spec n rs Buf.empty 0 (Nat.zero_le _) hg
  rw [derangedTC_eq rs hg] at l1 l2 l3
  simp only [Nat.zero_add] at l2 l3
  by_cases he : rs.flatMap HRange.hosts = []
  · -- the empty list
    have hT : derangedT rs = [] := by simp [derangedT, he, PrintSpec.joinComma]
    rw [he] at l2
    have e := l2 (by simp)
    simp only [commaAll_nil, List.length_nil] at e
    rw [hT]
    simp only [derangedStringL]
    rw [show derangedLoop true n rs Buf.empty 0 = ((derangedLoop true n rs Buf.empty 0).1, 0, false) from by
      rw [← e]]
    have hn0 : (0 == n) = false := by simp; omega
    simp only [Nat.lt_irrefl, ↓reduceIte, hn0, Bool.or_self, Bool.false_eq_true, List.length_nil, mem_put]
    rw [he] at l1
    refine ⟨?_, by simp, fun h => by omega⟩
    have := l1.put_after 0 NUL (by simp) (by omega)
    simpa using this
  · have hTC : commaAll (rs.flatMap HRange.hosts) = derangedT rs ++ [','] := commaAll_eq_joinComma _ he
    rw [hTC] at l1 l2 l3
    simp only [List.length_append, List.length_cons, List.length_nil, Nat.zero_add] at l2 l3
    simp only [derangedStringL]
    by_cases hfit : (derangedT rs).length + 1 ≤ n
    · have e := l2 hfit
      rw [show derangedLoop true n rs Buf.empty 0 =
        ((derangedLoop true n rs Buf.empty 0).1, (derangedT rs).length + 1, false) from by rw [← e]]
      have hne : ((derangedT rs).length == n) = false := by simp; omega
      simp only [Nat.zero_lt_succ, ↓reduceIte, Nat.add_sub_cancel, hne, Bool.or_self, Bool.false_eq_true, mem_put]
      refine ⟨?_, by simp, fun h => by omega⟩
      have := l1.prefix.put_after (0 + (derangedT rs).length) NUL (Nat.le_refl _) (by omega)
      simpa using this
    · have e := l3 (by omega)
      rw [show derangedLoop true n rs Buf.empty 0 = ((derangedLoop true n rs Buf.empty 0).1, n, true) from by
        rw [← e]]
      have hpos : n > 0 := by omega
      simp only [hpos, ↓reduceIte, Bool.true_or, mem_put]
      exact ⟨l1.prefix.put_last NUL (by omega), fun h => by omega, by simp⟩

end PdshVerif.Hostlist.Print
