/-
  C16 `edit_refines`, the operation TEXT level: `hostlist_push(hl, "expr")` with a live iterator =
  the parser (C01: the list `hostlist_create` builds denotes the mathematical expansion) followed by
  one `hostlist_push_range` per record (`push_refines`).
-/
import PdshVerif.Hostlist.EditRefine
import PdshVerif.Hostlist.LemmasExpand

namespace PdshVerif.Hostlist
open PdshVerif.Gen

/-- a sequence of `hostlist_push_range` while the iterator has something left -/
theorem pushRanges_refines (cfg : Cfg) (hfs : cfg.fixIterSuffix = true) : ∀ (rs : List HRange) (e : EL)
    (p : EditSpec.PL) (c : Nat) (fresh : Bool), Ref cfg e p c fresh → (∀ r ∈ rs, r.Good) → c < p.names.length →
    Ref cfg (rs.foldl pushRangeE e) { p with names := p.names ++ hostsL rs } c false
  | [], e, p, c, fresh, h, _, _ => by
    simp only [List.foldl_nil, hostsL, List.flatMap_nil, List.append_nil]
    exact ⟨h.ids, h.good, h.full, h.hosts, h.cur, h.le, by
      obtain ⟨i, k, hc, hrem, _⟩ := h.pos
      exact ⟨i, k, hc, hrem, by intro hf; simp at hf⟩⟩
  | r :: rs, e, p, c, fresh, h, hg, hlt => by
    have h1 := push_refines cfg hfs e p c fresh h r (hg r (by simp)) hlt
    have h2 := pushRanges_refines cfg hfs rs (pushRangeE e r) { p with names := p.names ++ r.hosts } c false h1
      (fun x hx => hg x (by simp [hx])) (by simp only [List.length_append]; omega)
    simp only [List.foldl_cons]
    have : p.names ++ hostsL (r :: rs) = (p.names ++ r.hosts) ++ hostsL rs := by
      simp [hostsL, List.append_assoc]
    rw [this]
    exact h2

/-- `hostlist_push(hl, s)` for a text the parser accepts -/
theorem pushE_refines (cfg : Cfg) (hfs : cfg.fixIterSuffix = true) (e : EL) (p : EditSpec.PL) (c : Nat)
    (fresh : Bool) (h : Ref cfg e p c fresh) (s : Str) (t : HL) (hc : create cfg s = .ok t) (hg : t.Good)
    (hlt : c < p.names.length) :
    pushE cfg e s = .ok (t.nhosts, .none, pushListE e t) ∧
      Ref cfg (pushListE e t) { p with names := p.names ++ t.hosts } c false := by
  refine ⟨by unfold pushE; rw [hc], ?_⟩
  unfold pushListE
  exact pushRanges_refines cfg hfs t.ranges.toList e p c fresh h hg.1 hlt

/-- `hostlist_create` on the text of a well-formed expression (C01 `create_render`) -/
theorem create_text (cfg : Cfg) (lead : Str) (items : List (Spec.Word × Str))
    (hl : lead.all Spec.sepChar = true) (hok : Spec.sepsOK items = true)
    (hw : ∀ p ∈ items, p.1.WF = true) (hd : ∀ p ∈ items, wordDom cfg p.1) :
    ∃ t, create cfg (Spec.render lead items) = .ok t ∧ t.Good ∧ t.hosts = Spec.expand₁ (items.map (·.1)) := by
  obtain ⟨st, h1, h2, h3⟩ := createToks_words cfg (items.map (·.1)) ⟨HL.new, 0⟩
    (fun w hw' => by obtain ⟨p, hp, rfl⟩ := List.mem_map.mp hw'; exact hw p hp)
    (fun w hw' => by obtain ⟨p, hp, rfl⟩ := List.mem_map.mp hw'; exact hd p hp) HL.new_good
  rw [HL.new_hosts, List.nil_append] at h3
  refine ⟨st.hl, ?_, h2, h3⟩
  unfold create createFrom
  rw [tokens_render items lead hl hok hw]
  have : (items.map fun p => Spec.renderWord p.1) = (items.map (·.1)).map Spec.renderWord := by
    rw [List.map_map]; rfl
  rw [this, h1]

/-- PUSH of an expression TEXT with the iterator live -/
theorem push_text_refines (cfg : Cfg) (hfs : cfg.fixIterSuffix = true) (e : EL) (p : EditSpec.PL) (c : Nat)
    (fresh : Bool) (h : Ref cfg e p c fresh) (hlt : c < p.names.length)
    (lead : Str) (items : List (Spec.Word × Str))
    (hl : lead.all Spec.sepChar = true) (hok : Spec.sepsOK items = true)
    (hw : ∀ q ∈ items, q.1.WF = true) (hd : ∀ q ∈ items, wordDom cfg q.1) :
    ∃ e', pushE cfg e (Spec.render lead items) =
        .ok (((Spec.expand₁ (items.map (·.1))).length : Int), .none, e') ∧
      Ref cfg e' { p with names := p.names ++ Spec.expand₁ (items.map (·.1)) } c false := by
  obtain ⟨t, hc, hg, hh⟩ := create_text cfg lead items hl hok hw hd
  obtain ⟨h1, h2⟩ := pushE_refines cfg hfs e p c fresh h _ t hc hg hlt
  refine ⟨pushListE e t, ?_, by rw [← hh]; exact h2⟩
  rw [h1, hg.2, hh]

end PdshVerif.Hostlist
