/-
  Shared hostlist foundations (model of /repo/src/common/hostlist.c): types, C integer
  arithmetic, number formatting, the denotation `hosts`.

  Conventions (DESIGN.md section 3):
  * C strings are `List Char` whose code points are the byte values 1..255 (no NUL).
  * `unsigned long` is 64 bit; values are kept as `Nat < 2^64` and every C operation that can
    wrap is written with `subU64`/`addU64`.
  * `hostrange_t *hr` array = `Array HRange` (tail push/pop O(1), as in C).
  * DEFECT SWITCHES: every place where the unchanged code deviates from the property text is ONE
    field of `Cfg` and ONE definition marked `DEFECT Dnn` that reads it (Parse.lean, Iter.lean).
-/
import PdshVerif.Gen.Hostlist

namespace PdshVerif.Hostlist
open PdshVerif.Gen

abbrev Str := List Char

/-! ### which variant of the code is modelled

  Every place where the unchanged code deviates from the property text is ONE switch.  The model
  takes the switches as a parameter `cfg`; the theorems are stated for all `cfg` (with the
  switches they need as hypotheses) and are therefore independent of /repo.  The driver runs the
  model with `Cfg.probed` (Hostlist/Probed.lean), read off the real code on every run by the
  behavioural probes of harness/consts/hostlist.c. -/
structure Cfg where
  /-- D15/D25: `_parse_single_range` refuses a bound of 2^64-1 (= every clamped number) -/
  fixUlongMax : Bool
  /-- D16: range bounds must be digit strings -/
  fixDigits : Bool
  /-- D17: `hostlist_next` prints the whole number -/
  fixIterSuffix : Bool
  /-- D18: the token itself (not the `cur_tok` copy) is pushed for bracket-less words -/
  fixCurTok : Bool
  /-- D22: brackets before / after the first pair of a token must balance -/
  fixSuffixBal : Bool
  /-- D23: names on the suffix path are not cut to 4095 bytes -/
  fixHostBuf : Bool
  /-- D24: `_hostrange_string` (`hostlist_nth`) prints the whole name -/
  fixNth : Bool
  /-- D19: `hostlist_delete_range` puts an iterator that stood on the deleted record on the LAST
      host of the previous record (instead of keeping its depth) -/
  fixRemoveDepth : Bool := false
  /-- D20: `hostlist_pop` deletes an emptied record through `hostlist_delete_range` (iterators are
      re-based) instead of freeing it behind their back -/
  fixPopIter : Bool := false
  /-- D26: `hostrange_cmp` compares the low bounds as numbers instead of returning their
      `unsigned long` difference cut to `int` -/
  fixCmpTrunc : Bool := false
  /-- D1: `hostlist_delete` erases EVERY occurrence of each listed name (not the first only) -/
  fixDeleteAll : Bool := false
  /-- D2 (opt.c `list_push_hostlist`): the buffer doubling loop really doubles -/
  fixPushLoop : Bool := false
  /-- F16-ENDPUSH: an iterator that has nothing left STAYS on the last host it handed out (and
      `hostlist_next` looks its record up by position), so hosts pushed later come next;
      `hostlist_pop` steps iterators that stood on the popped host back -/
  fixEndPush : Bool := false
  /-- F16-UNIQ-NORESET: `hostlist_uniq` / `hostlist_sort` reset the iterators also when the list has
      at most one range record (no early return) -/
  fixUniqReset : Bool := false
  /-- F16-DELETE-UNDER-ITERATOR / F16-MULTI: when a host is deleted out of a record that stays
      (`hostlist_delete_nth`, `hostlist_remove`), every iterator in that record is kept on the host
      it handed out last (`hostlist_host_deleted`) -/
  fixIterDelete : Bool := false
  /-- F02-2BR (opt.c `opt_args`): the working collective is re-expanded (second pair of brackets)
      BEFORE the exclusions and filters act on it, and `wcoll_apply_excluded` hands every first-level
      name of an exclusion argument to `hostlist_delete`, which expands its second pair -/
  fix2Br : Bool := false
  deriving DecidableEq, Repr, Inhabited

/-- the code as found -/
def Cfg.unchanged : Cfg :=
  { fixUlongMax := false, fixDigits := false, fixIterSuffix := false, fixCurTok := false,
    fixSuffixBal := false, fixHostBuf := false, fixNth := false, fixRemoveDepth := false,
    fixPopIter := false, fixCmpTrunc := false, fixDeleteAll := false, fixPushLoop := false,
    fixEndPush := false, fixUniqReset := false,
    fixIterDelete := false, fix2Br := false }
/-- the code with findings/C01.patch, C15.patch (and D24 of C16.patch) applied -/
def Cfg.repaired : Cfg :=
  { fixUlongMax := true, fixDigits := true, fixIterSuffix := true, fixCurTok := true,
    fixSuffixBal := true, fixHostBuf := true, fixNth := true, fixRemoveDepth := true,
    fixPopIter := true, fixCmpTrunc := true, fixDeleteAll := true, fixPushLoop := true,
    fixEndPush := true, fixUniqReset := true,
    fixIterDelete := true, fix2Br := true }

/-! ### `unsigned long` -/
def U64 : Nat := 18446744073709551616
def ULONG_MAX : Nat := 18446744073709551615
/-- `a - b` in `unsigned long` (for `a, b < 2^64`) -/
def subU64 (a b : Nat) : Nat := (a + U64 - b) % U64
/-- `a + b` in `unsigned long` -/
def addU64 (a b : Nat) : Nat := (a + b) % U64

/-! ### errno values and diagnostics (only their classes are observable) -/
def EINVAL : Nat := 22
def ERANGE : Nat := 34

/-- which `_error()` diagnostic was handed to `lsd_fatal_error` (pdsh: `errx`, exit 1) -/
inductive Fatal where
  | none | invalidRange | tooMany
  deriving DecidableEq, Repr, Inhabited

/-! ### character classes (C locale) -/
def isDigit (c : Char) : Bool := '0' ≤ c && c ≤ '9'
/-- `isspace` in the C locale: SP, \t \n \v \f \r -/
def isSpace (c : Char) : Bool := c = ' ' || (9 ≤ c.toNat && c.toNat ≤ 13)

/-! ### decimal formatting: `snprintf("%0*lu", width, n)` -/
/-- number of decimal digits (the loop of `_zero_padded`: `n = 1; while (num /= 10) n++`) -/
def ndig (n : Nat) : Nat := (Nat.toDigits 10 n).length
/-- `"%0*lu"`: zero padded to at least `w` characters, never truncated -/
def fmtPad (w n : Nat) : Str := List.replicate (w - ndig n) '0' ++ Nat.toDigits 10 n

/-! ### range records -/
/-- `struct hostrange_components`; for `single` records lo = hi = 0, width = 0 at creation -/
structure HRange where
  pre : Str
  lo : Nat
  hi : Nat
  width : Nat
  single : Bool
  deriving DecidableEq, Repr, Inhabited

/-- `hostrange_create_single` -/
def HRange.mkSingle (name : Str) : HRange := ⟨name, 0, 0, 0, true⟩
/-- `hostrange_create` -/
def HRange.mk' (pre : Str) (lo hi width : Nat) : HRange := ⟨pre, lo, hi, width, false⟩

/-- `hostrange_count` (unsigned long, wraps to 0 for 0..2^64-1) -/
def HRange.count (r : HRange) : Nat := if r.single then 1 else addU64 (subU64 r.hi r.lo) 1

/-- `hostrange_empty` -/
def HRange.empty (r : HRange) : Bool := r.hi < r.lo || r.hi = ULONG_MAX

/-- the host names a range record DENOTES (mathematical reading, no machine limits) -/
def HRange.hosts (r : HRange) : List Str :=
  if r.single then [r.pre]
  else (List.range' r.lo (r.hi + 1 - r.lo)).map fun k => r.pre ++ fmtPad r.width k

/-- `struct hostlist` without the iterator list (iterators: Iter.lean / the edit model of C16).
    `nhosts` is the C `int` counter kept by the code (NOT derived from `ranges`). -/
structure HL where
  ranges : Array HRange
  nhosts : Int
  deriving DecidableEq, Repr, Inhabited

/-- `hostlist_new` -/
def HL.new : HL := ⟨#[], 0⟩

/-- the host sequence a list denotes -/
def HL.hosts (h : HL) : List Str := h.ranges.toList.flatMap HRange.hosts

/-- `hostlist_count` -/
def HL.count (h : HL) : Int := h.nhosts
/-- `hostlist_nranges` -/
def HL.nranges (h : HL) : Nat := h.ranges.size

/-! ### well-formedness of records as the parser creates them (used by the lemmas) -/
/-- a record is "good": singles are (0,0,0); real ranges have lo ≤ hi < 2^64-1 -/
def HRange.Good (r : HRange) : Prop :=
  (r.single = true → r.lo = 0 ∧ r.hi = 0) ∧ (r.single = false → r.lo ≤ r.hi ∧ r.hi < ULONG_MAX)

instance (r : HRange) : Decidable r.Good := by unfold HRange.Good; exact inferInstance

/-- every record good and the counter equals the number of denoted hosts -/
def HL.Good (h : HL) : Prop := (∀ r ∈ h.ranges.toList, r.Good) ∧ h.nhosts = h.hosts.length

instance (h : HL) : Decidable h.Good := by unfold HL.Good; exact inferInstance

/-! ### small string helpers shared by the parser files -/
/-- `strchr(s, c)` + cut: text before the first `c` and, if `c` occurs, the text after it -/
def cutAt (c : Char) : Str → Str × Option Str
  | [] => ([], none)
  | x :: xs => if x = c then ([], some xs) else
    match cutAt c xs with
    | (a, b) => (x :: a, b)

/-- all pieces between occurrences of `c` (always at least one piece) -/
def splitAll (c : Char) : Str → List Str
  | [] => [[]]
  | x :: xs =>
    if x = c then [] :: splitAll c xs
    else match splitAll c xs with
      | [] => [[x]]
      | p :: ps => (x :: p) :: ps

end PdshVerif.Hostlist
