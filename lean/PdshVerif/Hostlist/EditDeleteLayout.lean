/-
  `hostlist_delete_nth(hl, n)` computed on a list laid out as A ++ o :: B with position n inside o
  (offset j): the three shapes — the record goes away, it shrinks at an end, it is split — and what
  each does to ONE iterator in an arbitrary state (F16-DELETE-UNDER-ITERATOR / F16-MULTI repaired:
  `hostlist_host_deleted`).  Also the cursor of an iterator as a NUMBER (`offL`).
-/
import PdshVerif.Hostlist.EditMultiUniq

namespace PdshVerif.Hostlist
open PdshVerif.Gen

/-! ### the cursor as a number -/
/-- hosts in front of position (record i, k names given) -/
def offL (L : List HRange) (i k : Nat) : Nat :=
  (hostsL (L.take i)).length + (match L[i]? with | some r => min k r.hosts.length | none => 0)

theorem remaining_eq_drop (L : List HRange) (i k : Nat) : remaining L i k = (hostsL L).drop (offL L i k) := by
  unfold offL
  cases hr : L[i]? with
  | none =>
    rw [remaining_none hr]
    have hlen : L.length ≤ i := by simpa using hr
    rw [List.take_of_length_le hlen]
    simp
  | some r =>
    have hcut := hosts_cut L i k r hr
    simp only
    conv => rhs; rw [hcut]
    rw [← List.length_take, ← List.length_append, List.drop_left]

theorem offL_le (L : List HRange) (i k : Nat) : offL L i k ≤ (hostsL L).length := by
  unfold offL
  cases hr : L[i]? with
  | none =>
    have hlen : L.length ≤ i := by simpa using hr
    rw [List.take_of_length_le hlen]
    simp
  | some r =>
    have hcut := congrArg List.length (hosts_cut L i k r hr)
    simp only [List.length_append, List.length_take] at hcut
    simp only
    omega

/-- the iterator stands in front of `names.drop c` exactly when `c` hosts lie in front of it -/
theorem remaining_iff_off (L : List HRange) (i k c : Nat) (hle : c ≤ (hostsL L).length) :
    remaining L i k = (hostsL L).drop c ↔ offL L i k = c := by
  rw [remaining_eq_drop]
  constructor
  · intro h
    have := congrArg List.length h
    simp only [List.length_drop] at this
    have := offL_le L i k
    omega
  · intro h; rw [h]

/-! ### where position n lies -/
theorem locate_layout : ∀ (rs : List RObj) (n : Nat), n < (hostsL (rs.map (·.r))).length →
    ∃ A o B j, rs = A ++ o :: B ∧ n = (hostsL (A.map (·.r))).length + j ∧ j < o.r.hosts.length
  | [], n, h => by simp [hostsL] at h
  | o :: rest, n, h => by
    by_cases hlt : n < o.r.hosts.length
    · exact ⟨[], o, rest, n, rfl, by simp [hostsL], hlt⟩
    · have h' : n - o.r.hosts.length < (hostsL (rest.map (·.r))).length := by
        simp only [List.map_cons, hostsL_cons, List.length_append] at h
        omega
      obtain ⟨A, o', B, j, h1, h2, h3⟩ := locate_layout rest (n - o.r.hosts.length) h'
      refine ⟨o :: A, o', B, j, by rw [h1]; rfl, ?_, h3⟩
      simp only [List.map_cons, hostsL_cons, List.length_append]
      omega

theorem deleteNthRs_skip (fresh : Nat) : ∀ (A : List RObj) (T : List RObj) (i count m : Nat), (∀ a ∈ A, a.r.Good) →
    deleteNthRs fresh (A ++ T) (count + (hostsL (A.map (·.r))).length + m) i count =
      ((A ++ (deleteNthRs fresh T (count + (hostsL (A.map (·.r))).length + m) (i + A.length)
          (count + (hostsL (A.map (·.r))).length)).1),
        (deleteNthRs fresh T (count + (hostsL (A.map (·.r))).length + m) (i + A.length)
          (count + (hostsL (A.map (·.r))).length)).2)
  | [], T, i, count, m, _ => by simp [hostsL]
  | a :: A, T, i, count, m, hg => by
    have hga : a.r.Good := hg a (by simp)
    have hcnt : a.r.count = a.r.hosts.length := hga.count_eq
    have hlen : (hostsL ((a :: A).map (·.r))).length = a.r.hosts.length + (hostsL (A.map (·.r))).length := by
      simp [hostsL_cons]
    have hcond : ¬ (count + (hostsL ((a :: A).map (·.r))).length + m + 1 ≤ a.r.count + count) := by
      rw [hlen, hcnt]; omega
    have ih := deleteNthRs_skip fresh A T (i + 1) (count + a.r.count) m (fun x hx => hg x (by simp [hx]))
    have e1 : count + a.r.count + (hostsL (A.map (·.r))).length = count + (hostsL ((a :: A).map (·.r))).length := by
      rw [hlen, hcnt]; omega
    have e2 : i + 1 + A.length = i + (a :: A).length := by simp; omega
    rw [e1, e2] at ih
    show deleteNthRs fresh (a :: (A ++ T)) _ i count = _
    rw [deleteNthRs]
    simp only [hcond, ↓reduceIte, ih]
    rfl

theorem locateNth_skip : ∀ (A T : List RObj) (i m : Nat), (∀ a ∈ A, a.r.Good) →
    locateNth (A ++ T) ((hostsL (A.map (·.r))).length + m) i = locateNth T m (i + A.length)
  | [], T, i, m, _ => by simp [hostsL]
  | a :: A, T, i, m, hg => by
    have hga : a.r.Good := hg a (by simp)
    have hcnt : a.r.count = a.r.hosts.length := hga.count_eq
    have hlen : (hostsL ((a :: A).map (·.r))).length = a.r.hosts.length + (hostsL (A.map (·.r))).length := by
      simp [hostsL_cons]
    have hcond : ¬ ((hostsL ((a :: A).map (·.r))).length + m + 1 ≤ a.r.count) := by rw [hlen, hcnt]; omega
    have ih := locateNth_skip A T (i + 1) m (fun x hx => hg x (by simp [hx]))
    show locateNth (a :: (A ++ T)) _ i = _
    rw [locateNth]
    simp only [hcond, ↓reduceIte]
    have e1 : (hostsL ((a :: A).map (·.r))).length + m - a.r.count = (hostsL (A.map (·.r))).length + m := by
      rw [hlen, hcnt]; omega
    have e2 : i + 1 + A.length = i + (a :: A).length := by simp; omega
    rw [e1, ih, e2]

end PdshVerif.Hostlist
