/-
  C16 `sort_refinesM`: the WHOLE `hostlist_sort` (`qsort`, reset, `hostlist_coalesce`, `hostlist_collapse`) with
  any number of live iterators refines the plain list's `sort`: the same names with the same multiplicities,
  every cursor back at 0.
-/
import PdshVerif.Hostlist.EditSortIts
import PdshVerif.Hostlist.EditSortRefine

namespace PdshVerif.Hostlist
open PdshVerif.Gen

theorem sort_refinesM (cfg : Cfg) (hfs : cfg.fixIterSuffix = true) (e : EL) (p : EditSpec.PL) (fr : Nat → Bool)
    (h : RefM cfg e p fr) (e' : EL) (hs : sortE cfg e = .ok e') :
    EditSpec.sort p e'.hosts = some ⟨e'.hosts, p.cur.map fun (k, _) => (k, 0)⟩ ∧
      RefM cfg e' ⟨e'.hosts, p.cur.map fun (k, _) => (k, 0)⟩ (fun _ => false) := by
  have hb := h.base
  have hgood : e.Good := hb.good
  have hids : e.IdsOk := hb.ids
  have hhosts : e.hosts = p.names := hb.hosts
  obtain ⟨hperm, hnh, hg'⟩ := sortE_hosts cfg e e' hgood hs
  -- the iterators: reset after qsort, untouched afterwards
  obtain ⟨_, _, hkeys1, hreset1⟩ := sortReset_spec cfg e
  have hprs : (sortReset cfg e).rs.Perm e.rs := sortRanges_perm cfg e.rs
  have hinv1 : SortInv (sortReset cfg e) :=
    ⟨⟨(hprs.map _).nodup_iff.mpr hids.1, fun o ho => hids.2 o (hprs.mem_iff.mp ho)⟩, hreset1⟩
  have hk : Keeps0 (sortReset cfg e) e' := by
    unfold sortE at hs
    simp only at hs
    cases hc : coalesceLoop (sortFuel (sortReset cfg e)) (sortReset cfg e) ((sortReset cfg e).rs.length - 1) with
    | error w => rw [hc] at hs; simp at hs
    | ok e2 =>
      rw [hc] at hs
      simp only [Except.ok.injEq] at hs
      have k1 := coalesceLoop_keeps0 _ _ _ e2 hinv1 hc
      have k2 := collapseLoop_keeps0 cfg (e2.rs.length - 1) e2 (k1.inv hinv1)
      rw [hs] at k2
      exact k1.trans k2
  have hinv' := hk.inv hinv1
  have hkeys : e.its.map (·.1) = p.cur.map (·.1) := All2.keys (fun a b hab => hab.1) h.each
  have hkeys' : e'.its.map (·.1) = e.its.map (·.1) := by rw [hk.its]; exact hkeys1
  refine ⟨?_, ?_⟩
  · unfold EditSpec.sort
    have hok : EditSpec.sortOk p e'.hosts = true := by
      unfold EditSpec.sortOk
      rw [← hhosts]
      simp only [Bool.and_eq_true, beq_iff_eq, List.all_eq_true]
      exact ⟨hperm.length_eq, fun x _ => hperm.count_eq x⟩
    rw [hok]
    rfl
  · have hb' : Ref cfg (e'.withIts [(0, e'.resetIt)]) ⟨e'.hosts, [(0, 0)]⟩ 0 false := by
      refine ⟨hinv'.1, hg', fun _ _ => Or.inl hfs, rfl, rfl, Nat.zero_le _, 0, 0, ?_, ?_, by intro hf; simp at hf⟩
      · unfold Coh
        rfl
      · show remaining e'.ranges 0 0 = _
        rw [remaining_zero]
        rfl
    refine ⟨hb', by rw [hkeys']; exact h.keys, ?_⟩
    apply all2_of_keys
    · rw [hkeys', hkeys, List.map_map]
      apply List.map_congr_left
      intro ⟨k, c⟩ _
      rfl
    · intro a ha b hb2
      obtain ⟨q, _, hq⟩ := List.mem_map.mp hb2
      have hb0 : b.2 = 0 := by rw [← hq]
      rw [hinv'.2 a ha, hb0]
      exact hb'

end PdshVerif.Hostlist
