/-
  Helper lemmas for C14, part 6: which characters a printed text can hold (punctuation of host
  expressions, digits, characters of the records' name texts) - hence no NUL when no name has one.
-/
import PdshVerif.Hostlist.PrintVerdict
import PdshVerif.Hostlist.LemmasDigits

namespace PdshVerif.Hostlist.Print
open PdshVerif.Hostlist

/-- no name text contains the terminator (the convention for C strings, Basic.lean) -/
def NoNul (rs : List HRange) : Prop := ∀ r ∈ rs, NUL ∉ r.pre

/-- punctuation of host expressions, a digit, or a character of some record's name text -/
def OkChar (rs : List HRange) (c : Char) : Prop :=
  c = ',' ∨ c = '[' ∨ c = ']' ∨ c = '-' ∨ isDigit c = true ∨ ∃ r ∈ rs, c ∈ r.pre

theorem OkChar.mono {rs rs' : List HRange} {c : Char} (h : OkChar rs c) (hs : ∀ r ∈ rs, r ∈ rs') : OkChar rs' c := by
  rcases h with h | h | h | h | h | ⟨r, hr, hc⟩
  · exact Or.inl h
  · exact Or.inr (Or.inl h)
  · exact Or.inr (Or.inr (Or.inl h))
  · exact Or.inr (Or.inr (Or.inr (Or.inl h)))
  · exact Or.inr (Or.inr (Or.inr (Or.inr (Or.inl h))))
  · exact Or.inr (Or.inr (Or.inr (Or.inr (Or.inr ⟨r, hs r hr, hc⟩))))

theorem OkChar.not_nul {rs : List HRange} (hz : NoNul rs) {c : Char} (h : OkChar rs c) : c ≠ NUL := by
  rcases h with h | h | h | h | h | ⟨r, hr, hc⟩
  · rw [h]; decide
  · rw [h]; decide
  · rw [h]; decide
  · rw [h]; decide
  · intro e; rw [e] at h; exact absurd h (by decide)
  · intro e; rw [e] at hc; exact hz r hr hc

theorem mem_joinComma {c : Char} : ∀ {l : List Str}, c ∈ PrintSpec.joinComma l → c = ',' ∨ ∃ x ∈ l, c ∈ x
  | [], h => by simp [PrintSpec.joinComma] at h
  | [x], h => by simp only [PrintSpec.joinComma] at h; exact Or.inr ⟨x, by simp, h⟩
  | x :: y :: rest, h => by
    simp only [PrintSpec.joinComma, List.mem_append, List.mem_cons] at h
    rcases h with h | h | h
    · exact Or.inr ⟨x, by simp, h⟩
    · exact Or.inl h
    · rcases mem_joinComma h with h | ⟨z, hz, hc⟩
      · exact Or.inl h
      · exact Or.inr ⟨z, List.mem_cons_of_mem _ hz, hc⟩

theorem mem_numText {r : HRange} {c : Char} (h : c ∈ numText r) : c = '-' ∨ isDigit c = true := by
  unfold numText at h
  split at h
  · simp at h
  · simp only [PrintSpec.item, List.mem_append] at h
    rcases h with h | h
    · exact Or.inr (fmtPad_allDigits _ _ c h)
    · split at h
      · rcases List.mem_cons.mp h with h | h
        · exact Or.inl h
        · exact Or.inr (fmtPad_allDigits _ _ c h)
      · simp at h

theorem mem_loopText {bn : Bool} {run : List HRange} {c : Char} (h : c ∈ loopText bn run) :
    c = ',' ∨ c = '-' ∨ isDigit c = true := by
  simp only [loopText, List.mem_flatMap, List.mem_append] at h
  obtain ⟨r, _, h | h⟩ := h
  · exact Or.inr (mem_numText h)
  · split at h
    · simp at h; exact Or.inl h
    · simp at h

theorem mem_groupTextM {cur : HRange} {rest : List HRange} {c : Char} (h : c ∈ groupTextM cur rest) :
    OkChar [cur] c := by
  unfold groupTextM at h
  split at h
  · simp only [List.mem_append, List.mem_cons, List.not_mem_nil, or_false] at h
    rcases h with (h | h | h) | h
    · exact Or.inr (Or.inr (Or.inr (Or.inr (Or.inr ⟨cur, by simp, h⟩))))
    · exact Or.inr (Or.inl h)
    · rcases mem_loopText (List.dropLast_subset _ h) with h | h | h
      · exact Or.inl h
      · exact Or.inr (Or.inr (Or.inr (Or.inl h)))
      · exact Or.inr (Or.inr (Or.inr (Or.inr (Or.inl h))))
    · exact Or.inr (Or.inr (Or.inl h))
  · simp only [List.mem_append] at h
    rcases h with h | h
    · exact Or.inr (Or.inr (Or.inr (Or.inr (Or.inr ⟨cur, by simp, h⟩))))
    · rcases mem_loopText h with h | h | h
      · exact Or.inl h
      · exact Or.inr (Or.inr (Or.inr (Or.inl h)))
      · exact Or.inr (Or.inr (Or.inr (Or.inr (Or.inl h))))

theorem mem_rangedTextM {c : Char} : ∀ (f len : Nat) (rs : List HRange), c ∈ rangedTextM f len rs → OkChar rs c
  | 0, _, _, h => by simp [rangedTextM] at h
  | _ + 1, _, [], h => by simp [rangedTextM] at h
  | f + 1, len, cur :: rest, h => by
    have hsub : ∀ r ∈ loopRem cur rest, r ∈ cur :: rest :=
      fun r hr => List.mem_cons_of_mem _ (loopRem_subset rest cur r hr)
    simp only [rangedTextM] at h
    split at h
    · simp only [List.mem_append, List.mem_cons] at h
      rcases h with h | h | h
      · exact (mem_groupTextM h).mono (by simp)
      · exact Or.inl h
      · exact (mem_rangedTextM f _ _ h).mono hsub
    · simp only [List.mem_append] at h
      rcases h with h | h
      · exact (mem_groupTextM h).mono (by simp)
      · exact (mem_rangedTextM f _ _ h).mono hsub

/-- the compressed text holds no NUL -/
theorem rangedTextM_no_nul {rs : List HRange} (hz : NoNul rs) (f len : Nat) : NUL ∉ rangedTextM f len rs :=
  fun h => (mem_rangedTextM f len rs h).not_nul hz rfl

/-- the expanded text holds no NUL -/
theorem derangedT_no_nul {rs : List HRange} (hz : NoNul rs) : NUL ∉ derangedT rs := by
  intro h
  rcases mem_joinComma h with h | ⟨x, hx, hc⟩
  · exact absurd h (by decide)
  · simp only [List.mem_flatMap] at hx
    obtain ⟨r, hr, hxr⟩ := hx
    unfold HRange.hosts at hxr
    split at hxr
    · simp only [List.mem_cons, List.not_mem_nil, or_false] at hxr
      rw [hxr] at hc
      exact hz r hr hc
    · simp only [List.mem_map] at hxr
      obtain ⟨k, _, rfl⟩ := hxr
      rcases List.mem_append.mp hc with hc | hc
      · exact hz r hr hc
      · exact absurd (fmtPad_allDigits _ _ _ hc) (by decide)

end PdshVerif.Hostlist.Print
