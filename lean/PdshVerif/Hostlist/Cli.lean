/-
  The path of a `-w EXPR` argument through pdsh as far as C01/C15 need it:
  split.c `list_split(",", arg)`, opt.c `wcoll_arg_process` (plain target words only),
  hostlist.c `hostlist_push`, opt.c `wcoll_expand` (second-bracket re-expansion).
  In pdsh `lsd_fatal_error` is `errx`: an "Invalid range"/"Too many hosts" diagnostic ends the
  process with status 1; a NULL from `hostlist_create` WITHOUT diagnostic (unbalanced brackets,
  too many ranges) is silently ignored by `hostlist_push`.
-/
import PdshVerif.Hostlist.Iter

namespace PdshVerif.Hostlist

/-- `hostlist_push(hl, hosts)`: `.null _ f` here means: the process exited in `lsd_fatal_error` -/
def hlPush (cfg : Cfg) (h : HL) (s : Str) : Outcome HL :=
  match create cfg s with
  | .ok n => .ok (pushList h n)
  | .null e f => if f = Fatal.none then .ok h else .null e f
  | .ub w => .ub w
  | .diverge => .diverge

/-- `wcoll_expand`: `while ((hosts = hostlist_shift(hl))) hostlist_push(new, hosts)`;
    every successful shift decrements `nhosts`, so `fuel = nhosts + 1` rounds suffice.
    (`old` is carried as the list of its range records and its counter, see `shiftL`.) -/
def wcollExpandLoop (cfg : Cfg) : Nat → List HRange → Int → HL → Outcome HL
  | 0, _, _, new => .ok new
  | f + 1, rs, nh, new =>
    if nh > 0 && rs.isEmpty then .ub "hostlist_shift: no range record" else
    match shiftL rs nh with
    | (none, _, _) => .ok new
    | (some host, rs', nh') =>
      match hlPush cfg new host with
      | .ok new' => wcollExpandLoop cfg f rs' nh' new'
      | o => o

def wcollExpand (cfg : Cfg) (h : HL) : Outcome HL :=
  wcollExpandLoop cfg (h.nhosts.toNat + 1) h.ranges.toList h.nhosts HL.new

/-- is this comma-word a plain target word for `wcoll_arg_process` (no `-x`-style exclusion, no
    `^file`, no `/regex/`, no `rcmd_type:` / `user@` part)?  Other words are outside C01/C15. -/
def plainWord (w : Str) : Bool :=
  match w.dropWhile isSpace with
  | [] => true
  | c :: _ => !(w.head? = some '-') && c ≠ '^' && c ≠ '/' && !w.contains ':' && !w.contains '@'

/-- `wcoll_args_process` restricted to plain words: `.ok none` = a word outside the modelled
    domain was met -/
def cliPushWords (cfg : Cfg) (h : HL) : List Str → Outcome (Option HL)
  | [] => .ok (some h)
  | w :: ws =>
    if !plainWord w then .ok none
    else
      match hlPush cfg h (w.dropWhile isSpace) with
      | .ok h' => cliPushWords cfg h' ws
      | .null e f => .null e f
      | .ub s => .ub s
      | .diverge => .diverge

/-- the working collective pdsh ends up with for `-w arg` (before `opt_verify`) -/
def cliTargets (cfg : Cfg) (arg : Str) : Outcome (Option HL) :=
  match cliPushWords cfg HL.new (tokens [','] arg) with
  | .ok (some h) =>
    match wcollExpand cfg h with
    | .ok h' => .ok (some h')
    | .null e f => .null e f
    | .ub s => .ub s
    | .diverge => .diverge
  | o => o

end PdshVerif.Hostlist
