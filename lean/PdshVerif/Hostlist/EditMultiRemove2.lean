/-
  C16 `remove_refinesM`: `hostlist_remove` through iterator k with any number of OTHER live iterators.
-/
import PdshVerif.Hostlist.EditMultiRemove

namespace PdshVerif.Hostlist
open PdshVerif.Gen

theorem setIt_single (e : EL) (it X : ItSt) : (e.withIts [(0, it)]).setIt 0 X = e.withIts [(0, X)] := by
  simp [EL.setIt, EL.withIts]

theorem remove_refinesM (cfg : Cfg) (hfs : cfg.fixIterSuffix = true) (hD19 : cfg.fixRemoveDepth = true)
    (hID : cfg.fixIterDelete = true) (e : EL) (p : EditSpec.PL) (fr : Nat → Bool) (h : RefM cfg e p fr)
    (k : Nat) (hk : k ∈ e.its.map (·.1)) (hfresh : fr k = true) :
    ∃ p' e', EditSpec.itRemove p k = some p' ∧ itRemove cfg e k = .ok e' ∧ RefM cfg e' p' (fun _ => false) := by
  obtain ⟨q, hq, hqk⟩ := List.mem_map.mp hk
  obtain ⟨kk, it⟩ := q
  simp only at hqk
  subst hqk
  have hgi : e.getIt kk = some it := by
    unfold EL.getIt; rw [find_key_of_mem e.its h.keys (kk, it) hq]; rfl
  obtain ⟨b, hb, hkb, hrb⟩ := All2.exists_right h.each (kk, it) hq
  obtain ⟨kb, c⟩ := b
  simp only at hkb hrb
  subst hkb
  rw [hfresh] at hrb
  have hkeys : e.its.map (·.1) = p.cur.map (·.1) := All2.keys (fun a b hab => hab.1) h.each
  have hnc : (p.cur.map (·.1)).Nodup := by rw [← hkeys]; exact h.keys
  have hgc : EditSpec.getCur p kk = some c := by
    unfold EditSpec.getCur; rw [find_key_of_mem p.cur hnc (kk, c) hb]; rfl
  -- where iterator kk stands
  obtain ⟨i, kq, hc, hrem, hfr⟩ := hrb.pos
  obtain ⟨r, hri, hk1, hk2⟩ := hfr rfl
  have hhosts : hostsL e.ranges = p.names := hrb.hosts
  have hoff : offL e.ranges i kq = c := by
    rw [← remaining_iff_off e.ranges i kq c (by rw [hhosts]; exact hrb.le), hhosts]; exact hrem
  have hit : it = ⟨(i : Int), (kq : Int) - 1, e.hrAt (i : Int)⟩ := by
    have : [(0, it)] = [(0, (⟨(i : Int), (kq : Int) - 1, e.hrAt (i : Int)⟩ : ItSt))] := hc
    simpa using this
  -- lay the list out around that record
  obtain ⟨o, hro, hor⟩ : ∃ o, e.rs[i]? = some o ∧ o.r = r := by
    rw [ranges_getElem?] at hri
    have hri : (e.rs[i]?).map (·.r) = some r := hri
    cases ho : e.rs[i]? with
    | none => rw [ho] at hri; simp at hri
    | some o => rw [ho] at hri; simp at hri; exact ⟨o, rfl, hri⟩
  obtain ⟨rs, nh, nx, its⟩ := e
  obtain ⟨A, B, hrs, hAl⟩ : ∃ A B, rs = A ++ o :: B ∧ A.length = i :=
    ⟨rs.take i, rs.drop (i + 1), split_one rs i o hro, by
      rw [List.length_take]; have := (List.getElem?_eq_some_iff.mp hro).1; simp only at this; omega⟩
  subst hrs
  subst hAl
  subst hor
  have hids : EL.IdsOk ⟨A ++ o :: B, nh, nx, its⟩ := hrb.ids
  have hgood : EL.Good ⟨A ++ o :: B, nh, nx, its⟩ := hrb.good
  have hgA : ∀ a ∈ A, a.r.Good := fun a ha => hgood.1 a.r (by
    simp only [EL.ranges, List.map_append, List.mem_append, List.mem_map]; exact Or.inl ⟨a, ha, rfl⟩)
  have hgo : o.r.Good := hgood.1 o.r (by simp [EL.ranges])
  have hhr : EL.hrAt ⟨A ++ o :: B, nh, nx, its⟩ (A.length : Int) = some o.id := hrAt_mid A B o nh nx its
  rw [hhr] at hit
  have hc' : c = (hostsL (A.map (·.r))).length + kq := by
    rw [← hoff]
    have := offL_append_right (A.map (·.r)) (o.r :: B.map (·.r)) 0 kq
    simp only [List.length_map, Nat.add_zero, offL_cons_zero] at this
    have hL : EL.ranges ⟨A ++ o :: B, nh, nx, its⟩ = A.map (·.r) ++ o.r :: B.map (·.r) := by simp [EL.ranges]
    rw [hL, this]; omega
  have hc1 : 1 ≤ c := by omega
  have hle : c ≤ p.names.length := hrb.le
  have hn : c - 1 < p.names.length := by omega
  have hnn : (hostsL (A.map (·.r))).length + (kq - 1) = c - 1 := by omega
  -- the list and the other iterators: `hostlist_delete_nth` of position c - 1
  have hD : RefM cfg (deleteNthE cfg ⟨A ++ o :: B, nh, nx, its⟩ (c - 1)) (p.delPos (c - 1)) (fun _ => false) :=
    deleteNth_refinesM cfg hfs hD19 hID _ p fr h (c - 1) hn
  obtain ⟨G, hG⟩ := itRemove_vs_delete cfg A B o nh nx kq hk1 hk2 hids.1 hgA hgo
  have hrm := hG its kk (by rw [hgi, hit])
  rw [hnn] at hrm
  -- the plain list
  have hspec : EditSpec.itRemove p kk = some (p.delPos (c - 1)) := by
    unfold EditSpec.itRemove; rw [hgc]
    obtain ⟨c0, rfl⟩ : ∃ c0, c = c0 + 1 := ⟨c - 1, by omega⟩
    rfl
  refine ⟨p.delPos (c - 1), _, hspec, hrm, ?_⟩
  cases G with
  | none => exact hD
  | some X =>
    simp only
    -- iterator kk itself: the one-iterator theorem, on the same records
    obtain ⟨p1', e1', hs1, hr1, hR1⟩ := remove_refines cfg hD19 _ _ c hrb hc1
    have hrm1 := hG [(0, it)] 0 (by rw [hit]; simp [EL.getIt])
    rw [hnn] at hrm1
    have hproj : EL.withIts ⟨A ++ o :: B, nh, nx, its⟩ [(0, it)] = ⟨A ++ o :: B, nh, nx, [(0, it)]⟩ := rfl
    rw [hproj, hrm1] at hr1
    simp only [Except.ok.injEq] at hr1
    obtain ⟨F, hF⟩ := unif_deleteNthE cfg (c - 1) ⟨A ++ o :: B, nh, nx, its⟩
    have hF1 := hF [(0, it)]
    have hFm := hF its
    simp only [EL.withIts] at hF1 hFm
    have hD0 : ∀ m, EL.withIts (deleteNthE cfg ⟨A ++ o :: B, nh, nx, its⟩ (c - 1)) m =
        EL.withIts (deleteNthE cfg ⟨A ++ o :: B, nh, nx, []⟩ (c - 1)) m := by
      intro m; rw [hFm]; rfl
    have he1 : e1' = (deleteNthE cfg ⟨A ++ o :: B, nh, nx, its⟩ (c - 1)).withIts [(0, X)] := by
      rw [← hr1, hF1, hD0]
      simp [EL.setIt, EL.withIts, liftIt]
    have hp1 : p1' = ⟨p.names.eraseIdx (c - 1), [(0, c - 1)]⟩ := by
      have : EditSpec.itRemove ⟨p.names, [(0, c)]⟩ 0 = some (EditSpec.PL.delPos ⟨p.names, [(0, c)]⟩ (c - 1)) := by
        unfold EditSpec.itRemove
        obtain ⟨c0, rfl⟩ : ∃ c0, c = c0 + 1 := ⟨c - 1, by omega⟩
        simp [EditSpec.getCur]
      rw [this] at hs1
      simp only [Option.some.injEq] at hs1
      rw [← hs1]
      unfold EditSpec.PL.delPos
      have : c > c - 1 := by omega
      simp [this]
    rw [he1, hp1] at hR1
    -- put it into the relation for the deleted list
    have hpn : (p.delPos (c - 1)).names = p.names.eraseIdx (c - 1) := rfl
    have hmem : (kk, c - 1) ∈ (p.delPos (c - 1)).cur := by
      unfold EditSpec.PL.delPos
      simp only
      refine List.mem_map.mpr ⟨(kk, c), hb, ?_⟩
      have : c > c - 1 := by omega
      simp [this]
    have hkeysD : (deleteNthE cfg ⟨A ++ o :: B, nh, nx, its⟩ (c - 1)).its.map (·.1) = (p.delPos (c - 1)).cur.map (·.1) :=
      All2.keys (fun a b hab => hab.1) hD.each
    have hncD : ((p.delPos (c - 1)).cur.map (·.1)).Nodup := by rw [← hkeysD]; exact hD.keys
    have hup := each_update cfg _ _ _ hD kk X (c - 1) false (by rw [hpn]; exact hR1)
    rw [map_upd_self _ hncD kk (c - 1) hmem] at hup
    refine ⟨hD.base, by rw [setIt_keys]; exact hD.keys, ?_⟩
    refine All2.imp ?_ hup
    intro a b ⟨h1, h2⟩
    refine ⟨h1, ?_⟩
    have : (if a.1 = kk then false else false) = false := by split <;> rfl
    rw [this] at h2
    exact h2

end PdshVerif.Hostlist
