/-
  `hostlist_sort` as a whole keeps the multiset of hosts, the counter and the well-formedness of the records.
-/
import PdshVerif.Hostlist.EditSortHosts2

namespace PdshVerif.Hostlist
open PdshVerif.Gen

theorem coalesceLoop_hosts : ∀ (f : Nat) (e : EL) (i : Nat) (e' : EL), (∀ r ∈ e.ranges, r.Good) →
    coalesceLoop f e i = .ok e' → e'.hosts.Perm e.hosts ∧ e'.nhosts = e.nhosts ∧ ∀ r ∈ e'.ranges, r.Good
  | 0, _, _, _, _, h => by simp [coalesceLoop] at h
  | f + 1, e, i, e', hg, h => by
    unfold coalesceLoop at h
    by_cases hi : i = 0
    · simp only [hi, ↓reduceIte, Except.ok.injEq] at h
      subst h
      exact ⟨List.Perm.refl _, rfl, hg⟩
    · simp only [hi, ↓reduceIte] at h
      cases hc : coalesceAt e i with
      | error w => rw [hc] at h; simp at h
      | ok res =>
        rw [hc] at h
        cases res with
        | none => exact coalesceLoop_hosts f e (i - 1) e' hg h
        | some e1 =>
          obtain ⟨p1, n1, g1⟩ := coalesceAt_hosts e i e1 hg hc
          obtain ⟨p2, n2, g2⟩ := coalesceLoop_hosts f e1 (e1.rs.length - 1) e' g1 h
          exact ⟨p2.trans p1, by rw [n2, n1], g2⟩

theorem collapseLoop_hosts (cfg : Cfg) : ∀ (i : Nat) (e : EL), (∀ r ∈ e.ranges, r.Good) →
    (collapseLoop cfg i e).hosts = e.hosts ∧ (collapseLoop cfg i e).nhosts = e.nhosts ∧
      ∀ r ∈ (collapseLoop cfg i e).ranges, r.Good
  | 0, e, hg => ⟨rfl, rfl, hg⟩
  | i + 1, e, hg => by
    unfold collapseLoop
    cases h1 : e.rs[i]? with
    | none => simp only; exact collapseLoop_hosts cfg i e hg
    | some a =>
      cases h2 : e.rs[i + 1]? with
      | none => simp only; exact collapseLoop_hosts cfg i e hg
      | some b =>
        simp only
        by_cases hc : (prefixCmp a.r b.r = 0 && a.r.hi == subU64 b.r.lo 1) = true
        · rw [if_pos hc]
          simp only [Bool.and_eq_true, decide_eq_true_eq, beq_iff_eq] at hc
          obtain ⟨hp, hhi⟩ := hc
          cases hw : widthCombine a.r b.r with
          | mk ok rest =>
            obtain ⟨wa, wb⟩ := rest
            cases ok with
            | false => simp only; exact collapseLoop_hosts cfg i e hg
            | true =>
              simp only
              have h1r : e.ranges[i]? = some a.r := by rw [ranges_getElem?, h1]; rfl
              have h2r : e.ranges[i + 1]? = some b.r := by rw [ranges_getElem?, h2]; rfl
              have hsplit := split_two e.ranges i a.r b.r h1r h2r
              generalize hP : e.ranges.take i = P at hsplit
              generalize hR : e.ranges.drop (i + 2) = R at hsplit
              have hPlen : P.length = i := by
                rw [← hP, List.length_take]
                have : i < e.ranges.length := (List.getElem?_eq_some_iff.mp h1r).1
                omega
              have hag : a.r.Good := hg _ (by rw [hsplit]; simp)
              have hbg : b.r.Good := hg _ (by rw [hsplit]; simp)
              obtain ⟨hpre, hsing⟩ := prefixCmp_zero hp
              have hpe : prefixCmpEq a.r b.r = true := by simp [prefixCmpEq, hpre, hsing]
              obtain ⟨hh, hgood⟩ := coalesce_hosts hag hbg hpe hhi hw
              have hrng : (deleteRange cfg (e.setAt i { a.r with width := wa, hi := b.r.hi }) (i + 1)).ranges =
                  P ++ ({ a.r with width := wa, hi := b.r.hi } : HRange) :: R := by
                rw [(deleteRange_ranges cfg _ (i + 1)).1, setAt_ranges, hsplit, ← hPlen]
                rw [List.set_append_right _ _ (Nat.le_refl _), Nat.sub_self, List.set_cons_zero]
                have : P ++ ({ a.r with width := wa, hi := b.r.hi } : HRange) :: b.r :: R =
                    (P ++ [({ a.r with width := wa, hi := b.r.hi } : HRange)]) ++ b.r :: R := by simp
                rw [this]
                have hl : (P ++ [({ a.r with width := wa, hi := b.r.hi } : HRange)]).length = P.length + 1 := by simp
                rw [← hl, eraseIdx_mid]
                simp
              have hg1 : ∀ r ∈ (deleteRange cfg (e.setAt i { a.r with width := wa, hi := b.r.hi }) (i + 1)).ranges, r.Good := by
                intro r hr
                rw [hrng] at hr
                rcases List.mem_append.mp hr with hx | hx
                · exact hg r (by rw [hsplit]; simp [hx])
                · rcases List.mem_cons.mp hx with hx | hx
                  · rw [hx]; exact hgood
                  · exact hg r (by rw [hsplit]; simp [hx])
              obtain ⟨q1, q2, q3⟩ := collapseLoop_hosts cfg i _ hg1
              refine ⟨?_, ?_, q3⟩
              · rw [q1]
                show hostsL (deleteRange cfg _ (i + 1)).ranges = hostsL e.ranges
                rw [hrng, hsplit]
                simp only [hostsL_append, hostsL_cons]
                rw [hh, List.append_assoc]
              · rw [q2, (deleteRange_ranges cfg _ (i + 1)).2]
                rfl
        · rw [if_neg hc]
          exact collapseLoop_hosts cfg i e hg

/-- `hostlist_sort`: the same hosts with the same multiplicities, the counter untouched, records well formed -/
theorem sortE_hosts (cfg : Cfg) (e e' : EL) (hg : e.Good) (h : sortE cfg e = .ok e') :
    e'.hosts.Perm e.hosts ∧ e'.nhosts = e.nhosts ∧ e'.Good := by
  unfold sortE at h
  simp only at h
  obtain ⟨hperm, hnh, _, _⟩ := sortReset_spec cfg e
  have hg0 : ∀ r ∈ (sortReset cfg e).ranges, r.Good := by
    intro r hr
    have hprs : (sortReset cfg e).rs.Perm e.rs := sortRanges_perm cfg e.rs
    exact hg.1 r (((hprs.map (·.r)).mem_iff).mp hr)
  cases hc : coalesceLoop (sortFuel (sortReset cfg e)) (sortReset cfg e) ((sortReset cfg e).rs.length - 1) with
  | error w => rw [hc] at h; simp at h
  | ok e2 =>
    rw [hc] at h
    simp only [Except.ok.injEq] at h
    obtain ⟨p1, n1, g1⟩ := coalesceLoop_hosts _ _ _ e2 hg0 hc
    obtain ⟨q1, q2, q3⟩ := collapseLoop_hosts cfg (e2.rs.length - 1) e2 g1
    rw [h] at q1 q2 q3
    have hp : e'.hosts.Perm e.hosts := by rw [q1]; exact p1.trans hperm
    refine ⟨hp, by rw [q2, n1, hnh], q3, ?_⟩
    rw [q2, n1, hnh, hg.2, hp.length_eq]

end PdshVerif.Hostlist
