/-
  Shared hostlist lemmas: padding/width facts, `widthEquiv_sound`, `pushRange_hosts`,
  preservation of `HL.Good`, counting.
-/
import PdshVerif.Hostlist.Push

namespace PdshVerif.Hostlist
open PdshVerif.Gen

/-! ### digits and padding -/
theorem ndig_pos (n : Nat) : 0 < ndig n := Nat.length_toDigits_pos

theorem ndig_mono {n k : Nat} (h : n ≤ k) : ndig n ≤ ndig k := by
  unfold ndig
  have hk : 0 < (Nat.toDigits 10 k).length := Nat.length_toDigits_pos
  rw [Nat.length_toDigits_le_iff (by decide) hk]
  have := (Nat.length_toDigits_le_iff (b := 10) (n := k) (k := (Nat.toDigits 10 k).length)
    (by decide) hk).mp (Nat.le_refl _)
  omega

theorem fmtPad_length (w n : Nat) : (fmtPad w n).length = max w (ndig n) := by
  unfold fmtPad ndig
  simp only [List.length_append, List.length_replicate]
  omega

theorem fmtPad_eq_of_pad_eq {w w' k : Nat} (h : zeroPadded k w = zeroPadded k w') :
    fmtPad w k = fmtPad w' k := by
  unfold fmtPad; unfold zeroPadded at h
  have : w - ndig k = w' - ndig k := by
    split at h <;> split at h <;> omega
  rw [this]

/-- padding of k ≥ n is equal under two widths whenever the padding of n is -/
theorem pad_eq_mono {n k w w' : Nat} (hnk : n ≤ k) (h : zeroPadded n w = zeroPadded n w') :
    zeroPadded k w = zeroPadded k w' := by
  have := ndig_mono hnk
  unfold zeroPadded at *
  split at h <;> split at h <;> (repeat' split) <;> omega

/-- `_width_equiv`: when it answers "compatible" the two widths are made equal and the rewrite
    does not change the printed form of ANY number ≥ n under the first width nor of any number
    ≥ m under the second (so no host name of either range changes) -/
theorem widthEquiv_sound {n wn m wm wn' wm' : Nat} (h : widthEquiv n wn m wm = (true, wn', wm')) :
    (∀ k, n ≤ k → fmtPad wn' k = fmtPad wn k) ∧ (∀ k, m ≤ k → fmtPad wm' k = fmtPad wm k) ∧
      wn' = wm' := by
  unfold widthEquiv at h
  simp only at h
  split at h
  · simp at h
  · split at h
    · split at h
      · rename_i h1 h2 h3
        simp at h; obtain ⟨rfl, rfl⟩ := h
        refine ⟨fun _ _ => rfl, fun k hk => ?_, rfl⟩
        apply fmtPad_eq_of_pad_eq
        exact (pad_eq_mono hk (by simpa using h3)).symm
      · simp at h
    · rename_i h1 h2
      simp at h; obtain ⟨rfl, rfl⟩ := h
      refine ⟨fun k hk => ?_, fun _ _ => rfl, rfl⟩
      apply fmtPad_eq_of_pad_eq
      exact (pad_eq_mono hk (by simpa using h2)).symm

/-- equal widths are always compatible and stay what they are -/
theorem widthEquiv_same (n m w : Nat) : widthEquiv n w m w = (true, w, w) := by
  simp [widthEquiv]

/-! ### unsigned arithmetic under the `Good` bounds -/
theorem subU64_of_le {a b : Nat} (h : b ≤ a) (ha : a < U64) : subU64 a b = a - b := by
  unfold subU64
  have : a + U64 - b = (a - b) + U64 := by omega
  rw [this, Nat.add_mod_right, Nat.mod_eq_of_lt (by omega)]

theorem subU64_zero_one : subU64 0 1 = ULONG_MAX := by decide

theorem HRange.Good.count_eq {r : HRange} (h : r.Good) : r.count = r.hosts.length := by
  unfold HRange.count HRange.hosts
  cases hs : r.single with
  | true => simp
  | false =>
    obtain ⟨hle, hlt⟩ := h.2 hs
    have hu : ULONG_MAX + 1 = U64 := by decide
    simp only [Bool.false_eq_true, ↓reduceIte, List.length_map, List.length_range']
    rw [subU64_of_le hle (by omega)]
    unfold addU64
    rw [Nat.mod_eq_of_lt (by omega)]
    omega

/-! ### `hostlist_push_range` keeps the denoted sequence -/
theorem range'_split (a b c : Nat) (h1 : a ≤ b + 1) (h2 : b ≤ c) :
    List.range' a (c + 1 - a) =
      List.range' a (b + 1 - a) ++ List.range' (b + 1) (c + 1 - (b + 1)) := by
  have e1 : c + 1 - a = (b + 1 - a) + (c + 1 - (b + 1)) := by omega
  have e2 : List.range' (b + 1) (c + 1 - (b + 1)) =
      List.range' (a + (b + 1 - a)) (c + 1 - (b + 1)) := by
    congr 1; omega
  rw [e1, e2, List.range'_append_1]

/-- what `pushRange` does to the array, as a list statement -/
theorem pushRange_ranges (h : HL) (r : HRange) :
    (pushRange h r).ranges.toList = h.ranges.toList ++ [r] ∨
    ∃ t wt wr, h.ranges.toList.getLast? = some t ∧ prefixCmpEq t r = true ∧
      t.hi = subU64 r.lo 1 ∧ widthCombine t r = (true, wt, wr) ∧
      (pushRange h r).ranges.toList = h.ranges.toList.dropLast ++ [{ t with hi := r.hi, width := wt }] := by
  unfold pushRange
  cases hb : h.ranges.back? with
  | none => simp
  | some t =>
    have hgl : h.ranges.toList.getLast? = some t := by
      rw [← hb]; simp [Array.back?, List.getLast?_eq_getElem?]
    simp only
    split
    · rename_i hc
      simp only [Bool.and_eq_true, beq_iff_eq] at hc
      generalize hw : widthCombine t r = w
      obtain ⟨ok, wt, wr⟩ := w
      cases ok with
      | false => simp
      | true =>
        right
        exact ⟨t, wt, wr, hgl, hc.1, hc.2, hw, by simp⟩
    · simp

theorem pushRange_nhosts (h : HL) (r : HRange) : (pushRange h r).nhosts = h.nhosts + r.count := by
  unfold pushRange
  cases h.ranges.back? with
  | none => rfl
  | some t =>
    simp only
    split
    · generalize widthCombine t r = w
      obtain ⟨ok, wt, wr⟩ := w
      cases ok <;> rfl
    · rfl

/-- the coalesced record denotes the hosts of the tail followed by the hosts of the pushed one -/
theorem coalesce_hosts {t r : HRange} {wt wr : Nat} (ht : t.Good) (hr : r.Good)
    (hp : prefixCmpEq t r = true) (hlo : t.hi = subU64 r.lo 1)
    (hw : widthCombine t r = (true, wt, wr)) :
    ({ t with hi := r.hi, width := wt } : HRange).hosts = t.hosts ++ r.hosts ∧
    ({ t with hi := r.hi, width := wt } : HRange).Good := by
  simp only [prefixCmpEq, Bool.and_eq_true, beq_iff_eq] at hp
  obtain ⟨hpre, hs⟩ := hp
  have hu : ULONG_MAX + 1 = U64 := by decide
  cases hts : t.single with
  | true =>
    -- two single records are never joined: tail.hi = 0 but lo - 1 wraps to 2^64-1
    have hrs : r.single = true := by rw [← hs]; exact hts
    have h1 := ht.1 hts
    have h2 := hr.1 hrs
    rw [h2.1, subU64_zero_one] at hlo
    rw [h1.2] at hlo
    exact absurd hlo (by decide)
  | false =>
    have hrs : r.single = false := by rw [← hs]; exact hts
    obtain ⟨tle, tlt⟩ := ht.2 hts
    obtain ⟨rle, rlt⟩ := hr.2 hrs
    have hrlo : r.lo = t.hi + 1 := by
      by_cases h0 : r.lo = 0
      · rw [h0, subU64_zero_one] at hlo; omega
      · rw [subU64_of_le (by omega) (by omega)] at hlo; omega
    obtain ⟨h1, h2, h3⟩ := widthEquiv_sound hw
    constructor
    · simp only [HRange.hosts, hts, hrs, Bool.false_eq_true, ↓reduceIte]
      rw [range'_split t.lo t.hi r.hi (by omega) (by omega), List.map_append]
      congr 1
      · apply List.map_congr_left
        intro k hk
        simp at hk
        rw [h1 k (by omega)]
      · rw [← hrlo]
        apply List.map_congr_left
        intro k hk
        simp at hk
        rw [hpre, h3, h2 k (by omega)]
    · constructor
      · intro hsing; simp at hsing
      · intro _; exact ⟨by simp; omega, by simpa using rlt⟩

/-- CENTRAL LEMMA (C01, C02, C14, C16): pushing a range record, with or without tail
    coalescing and width rewriting, appends exactly the hosts of that record -/
theorem pushRange_hosts (h : HL) (r : HRange) (hg : ∀ t ∈ h.ranges.toList, t.Good) (hr : r.Good) :
    (pushRange h r).hosts = h.hosts ++ r.hosts := by
  unfold HL.hosts
  rcases pushRange_ranges h r with he | ⟨t, wt, wr, hgl, hp, hlo, hw, he⟩
  · rw [he]; simp
  · rw [he]
    obtain ⟨ys, hys⟩ := List.getLast?_eq_some_iff.mp hgl
    have htm : t ∈ h.ranges.toList := by rw [hys]; simp
    have := (coalesce_hosts (hg t htm) hr hp hlo hw).1
    rw [hys]
    simp only [List.dropLast_concat, List.flatMap_append, List.flatMap_cons, List.flatMap_nil,
      List.append_nil, List.append_assoc]
    rw [this]

theorem pushRange_good_ranges (h : HL) (r : HRange) (hg : ∀ t ∈ h.ranges.toList, t.Good)
    (hr : r.Good) : ∀ t ∈ (pushRange h r).ranges.toList, t.Good := by
  rcases pushRange_ranges h r with he | ⟨t, wt, wr, hgl, hp, hlo, hw, he⟩
  · rw [he]; intro x hx
    simp only [List.mem_append, List.mem_singleton] at hx
    rcases hx with hx | hx
    · exact hg x hx
    · rw [hx]; exact hr
  · rw [he]
    obtain ⟨ys, hys⟩ := List.getLast?_eq_some_iff.mp hgl
    have htm : t ∈ h.ranges.toList := by rw [hys]; simp
    intro x hx
    rw [hys] at hx
    simp only [List.dropLast_concat, List.mem_append, List.mem_singleton] at hx
    rcases hx with hx | hx
    · exact hg x (by rw [hys]; simp [hx])
    · rw [hx]; exact (coalesce_hosts (hg t htm) hr hp hlo hw).2

/-- `HL.Good` (records good, counter = number of denoted hosts) is an invariant of push -/
theorem pushRange_good (h : HL) (r : HRange) (hg : h.Good) (hr : r.Good) : (pushRange h r).Good := by
  refine ⟨pushRange_good_ranges h r hg.1 hr, ?_⟩
  rw [pushRange_nhosts, pushRange_hosts h r hg.1 hr, hg.2, hr.count_eq]
  simp

theorem HL.new_good : HL.new.Good := by
  constructor
  · intro r hr; simp [HL.new] at hr
  · simp [HL.new, HL.hosts]

theorem HL.new_hosts : HL.new.hosts = [] := by simp [HL.new, HL.hosts]

/-- folding pushes over good records appends their hosts in order -/
theorem foldl_pushRange (rs : List HRange) (h : HL) (hg : h.Good) (hrs : ∀ r ∈ rs, r.Good) :
    (rs.foldl pushRange h).Good ∧ (rs.foldl pushRange h).hosts = h.hosts ++ rs.flatMap HRange.hosts := by
  induction rs generalizing h with
  | nil => simp [hg]
  | cons r rs ih =>
    have hr := hrs r (by simp)
    have := ih (pushRange h r) (pushRange_good h r hg hr) (fun x hx => hrs x (by simp [hx]))
    simp only [List.foldl_cons, List.flatMap_cons]
    rw [this.2, pushRange_hosts h r hg.1 hr]
    exact ⟨this.1, by simp⟩

/-- `hostlist_push_list` -/
theorem pushList_hosts (h1 h2 : HL) (g1 : h1.Good) (g2 : h2.Good) :
    (pushList h1 h2).Good ∧ (pushList h1 h2).hosts = h1.hosts ++ h2.hosts := by
  unfold pushList
  have := foldl_pushRange h2.ranges.toList h1 g1 g2.1
  exact ⟨this.1, by rw [this.2]; rfl⟩

end PdshVerif.Hostlist
