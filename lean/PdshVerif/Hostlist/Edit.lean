/-
  hostlist.c as an EDITABLE list with live iterators (C16):
  `hostlist_push` on a live list, `hostlist_shift`/`hostlist_pop` (`hostrange_shift/pop`),
  `hostlist_find`, `hostlist_delete_nth` / `hostrange_delete_host` / `hostlist_insert_range` /
  `hostlist_delete_range`, `hostlist_delete_host`, `hostlist_delete`, iterators
  (`hostlist_iterator_create/reset/destroy`, `_iterator_advance`, `hostlist_next`,
  `hostlist_remove`, `hostlist_shift_iterators`), `hostlist_nth`, `hostlist_count`.

  Range records are heap OBJECTS: the array holds pointers, operations mutate records in place,
  and an iterator caches a pointer `i->hr`.  The model gives every record an identity (`id`);
  an iterator caches an id (`none` = NULL).  Dereferencing an id that is no longer in the array
  (the record was freed) or NULL is `.error` — undefined behaviour of the C code (ASan:
  heap-use-after-free / SEGV), which is how the missing fix-ups of `hostlist_pop` (D20) show.

  DEFECT SWITCHES (fields of `Cfg`): D19 `deleteRange`, D20 `popE`, D24 `nthName`.
-/
import PdshVerif.Hostlist.Find
import PdshVerif.Hostlist.Cli

namespace PdshVerif.Hostlist
open PdshVerif.Gen

/-- a range record on the heap -/
structure RObj where
  id : Nat
  r : HRange
  deriving Repr, DecidableEq, Inhabited

/-- `struct hostlist_iterator` -/
structure ItSt where
  idx : Int
  depth : Int
  hr : Option Nat          -- cached `i->hr`: id of a record, `none` = NULL
  deriving Repr, DecidableEq, Inhabited

/-- `struct hostlist` with its iterator chain (iterators are named by the harness slot) -/
structure EL where
  rs : List RObj
  nhosts : Int
  nextId : Nat
  its : List (Nat × ItSt)
  deriving Repr, DecidableEq, Inhabited

/-- undefined behaviour of the C code is an error value -/
abbrev EM := Except String

def EL.new : EL := ⟨[], 0, 0, []⟩
def EL.ranges (e : EL) : List HRange := e.rs.map (·.r)
def EL.toHL (e : EL) : HL := ⟨e.ranges.toArray, e.nhosts⟩
/-- the hosts the list denotes -/
def EL.hosts (e : EL) : List Str := e.ranges.flatMap HRange.hosts
def EL.nranges (e : EL) : Nat := e.rs.length

/-- `hl->hr[i]` as a pointer: the record's id, NULL beyond `nranges` (the array is NULL-padded) -/
def EL.hrAt (e : EL) (i : Int) : Option Nat :=
  if i < 0 then none else (e.rs[i.toNat]?).map (·.id)

/-- `*ptr` -/
def EL.deref (e : EL) : Option Nat → EM RObj
  | none => .error "NULL range pointer dereferenced"
  | some id =>
    match e.rs.find? (·.id == id) with
    | some o => .ok o
    | none => .error "freed range record dereferenced"

def EL.setObj (e : EL) (id : Nat) (r : HRange) : EL :=
  { e with rs := e.rs.map fun o => if o.id == id then { o with r := r } else o }

/-- `*hl->hr[i] = r` -/
def EL.setAt (e : EL) (i : Nat) (r : HRange) : EL :=
  { e with rs := e.rs.modify i fun o => { o with r := r } }

/-! ### push -/
/-- `hostlist_push_range(hl, hr)`: tail coalescing mutates the tail RECORD in place; otherwise a
    copy of `hr` is appended as a new record -/
def pushRangeE (e : EL) (r : HRange) : EL :=
  let n := e.nhosts + r.count
  let fresh : EL := { e with rs := e.rs ++ [⟨e.nextId, r⟩], nextId := e.nextId + 1, nhosts := n }
  match e.rs.getLast? with
  | none => fresh
  | some t =>
    if prefixCmpEq t.r r && t.r.hi == subU64 r.lo 1 then
      match widthCombine t.r r with
      | (true, wt, _) =>
        { e with rs := e.rs.dropLast ++ [{ t with r := { t.r with hi := r.hi, width := wt } }], nhosts := n }
      | (false, _, _) => fresh
    else fresh

/-- `hostlist_push_list(h1, h2)` -/
def pushListE (e : EL) (h : HL) : EL := h.ranges.toList.foldl pushRangeE e

/-- `hostlist_push(hl, hosts)`: return value (hosts of the parsed expression, 0 when it is
    refused), the diagnostic, the list -/
def pushE (cfg : Cfg) (e : EL) (s : Str) : EM (Int × Fatal × EL) :=
  match create cfg s with
  | .ok n => .ok (n.nhosts, .none, pushListE e n)
  | .null _ f => .ok (0, f, e)
  | .ub w => .error w
  | .diverge => .error "diverge"

/-! ### iterator fix-ups -/
/-- `hostlist_iterator_reset` -/
def EL.resetIt (e : EL) : ItSt := ⟨0, -1, e.hrAt 0⟩

/-- `hostlist_shift_iterators(hl, idx, depth, n)`, evaluated on the array AFTER the change -/
def shiftIterators (e : EL) (idx depth n : Int) : EL :=
  { e with its := e.its.map fun (k, it) =>
      if n = 0 then
        (if it.idx = idx && it.depth ≥ depth then
           (k, { it with depth := if it.depth > -1 then it.depth - 1 else -1 })
         else (k, it))
      else if it.idx ≥ idx then
        (if it.idx - n ≥ 0 then (k, { it with idx := it.idx - n, hr := e.hrAt (it.idx - n) })
         else (k, e.resetIt))
      else (k, it) }

/-- `hostlist_delete_range(hl, n)` (the record is freed).
    DEFECT D19: `hostlist_shift_iterators(hl, n, 0, 1)` moves an iterator that stood on the deleted
    record to the PREVIOUS record but keeps its depth: it then walks the rest of that record again
    (`a[1-3],b,c`: after `hostlist_remove` of `b` the iterator yields a2, a3 before c).
    Repaired: such an iterator is put on the last host of the previous record. -/
def deleteRange (cfg : Cfg) (e : EL) (n : Nat) : EL :=
  let e1 : EL := { e with rs := e.rs.eraseIdx n }
  if !cfg.fixRemoveDepth then shiftIterators e1 n 0 1
  else
    { e1 with its := e1.its.map fun (k, it) =>
        if it.idx > n then (k, { it with idx := it.idx - 1, hr := e1.hrAt (it.idx - 1) })
        else if it.idx = n then
          (match n, e1.rs[n - 1]? with
           | 0, _ => (k, e1.resetIt)
           | _, some o => (k, ⟨it.idx - 1, (subU64 o.r.hi o.r.lo : Nat), some o.id⟩)
           | _, none => (k, e1.resetIt))
        else (k, it) }

/-- `hostlist_insert_range(hl, hr, n)` (a copy of `hr` becomes a new record) -/
def insertRange (e : EL) (r : HRange) (n : Nat) : EL :=
  if n > e.rs.length then e
  else
    let e1 : EL := { e with rs := (e.rs.take n) ++ ⟨e.nextId, r⟩ :: (e.rs.drop n), nextId := e.nextId + 1 }
    { e1 with its := e1.its.map fun (k, it) =>
        if it.idx ≥ n then (k, { it with idx := it.idx + 1, hr := e1.hrAt (it.idx + 1) }) else (k, it) }

/-! ### shift / pop -/
/-- `hostlist_shift` with live iterators -/
def shiftE (cfg : Cfg) (e : EL) : EM (Option Str × EL) :=
  if e.nhosts > 0 then
    match e.rs with
    | [] => .error "hostlist_shift: hl->hr[0] is NULL"
    | o :: rest =>
      match hostrangeShift o.r with
      | (host, r') =>
        let e1 : EL := { e with rs := { o with r := r' } :: rest, nhosts := e.nhosts - 1 }
        if r'.empty then .ok (host, deleteRange cfg e1 0) else .ok (host, shiftIterators e1 0 0 0)
  else .ok (none, e)

/-- `hostrange_pop` -/
def hostrangePop (r : HRange) : Option Str × HRange :=
  if r.single then (some r.pre, { r with lo := addU64 r.lo 1 })
  else if r.count > 0 then
    (some ((r.pre ++ fmtPad r.width r.hi).take (r.pre.length + r.width + 15)),
     { r with hi := subU64 r.hi 1 })
  else (none, r)

/-- the iterators after `hostlist_pop` shortened the last record to `r'` (F16-ENDPUSH repaired:
    `hostlist_shift_iterators(hl, hl->nranges - 1, hr->hi - hr->lo + 1, 0)`) -/
def popIts (cfg : Cfg) (e1 : EL) (r' : HRange) : List (Nat × ItSt) :=
  if cfg.fixEndPush then
    (shiftIterators e1 ((e1.rs.length : Int) - 1) ((subU64 r'.hi r'.lo + 1 : Nat) : Int) 0).its
  else e1.its

/-- DEFECT D20: `hostlist_pop` frees an emptied last record without telling the iterators: one
    that points at it keeps a dangling `i->hr` (`x,y`: iterate to y, pop, push z, next reads the
    freed record).   Repaired: the record is deleted through `hostlist_delete_range`.
    This is `hostlist_pop`. -/
def popE (cfg : Cfg) (e : EL) : EM (Option Str × EL) :=
  if e.nhosts > 0 then
    match e.rs.getLast? with
    | none => .error "hostlist_pop: hl->hr[-1]"
    | some o =>
      match hostrangePop o.r with
      | (host, r') =>
        if r'.empty then
          (if cfg.fixPopIter then
             .ok (host, deleteRange cfg { e with rs := e.rs.dropLast ++ [{ o with r := r' }], nhosts := e.nhosts - 1 }
                          (e.rs.length - 1))
           else .ok (host, { e with rs := e.rs.dropLast, nhosts := e.nhosts - 1 }))
        else
          let e1 : EL := { e with rs := e.rs.dropLast ++ [{ o with r := r' }], nhosts := e.nhosts - 1 }
          -- F16-ENDPUSH repaired: iterators that stood on the popped host step back
          .ok (host, { e1 with its := popIts cfg e1 r' })
  else .ok (none, e)

/-! ### find / delete -/
/-- `hostlist_find` (a width may be rewritten in place) -/
def findE (e : EL) (name : Str) : Option Nat × EL :=
  match findRanges e.ranges name with
  | (res, rs') => (res, { e with rs := (e.rs.zip rs').map fun (o, r) => { o with r := r } })

/-- `hostrange_delete_host(hr, n)`: the shrunk record and, when the record is split, the upper
    part (a new record) -/
def hostrangeDeleteHost (r : HRange) (n : Nat) : HRange × Option HRange :=
  if n = r.lo then ({ r with lo := addU64 r.lo 1 }, none)
  else if n = r.hi then ({ r with hi := subU64 r.hi 1 }, none)
  else ({ r with hi := subU64 n 1 }, some { r with lo := addU64 n 1 })

/-- what `hostlist_delete_nth` did to the array (the iterators are re-based accordingly) -/
inductive Change where
  | none
  | deleted (i : Nat)        -- `hostlist_delete_range(hl, i)`
  | inserted (i : Nat)       -- `hostlist_insert_range(hl, new, i)`
  deriving Repr, DecidableEq

/-- the loop of `hostlist_delete_nth(hl, n)` for 0 ≤ n < count on the record array: the record that
    holds position n loses that host — it shrinks at an end, is split (the upper part becomes a new
    record `fresh`), or goes away when it held one host -/
def deleteNthRs (fresh : Nat) : List RObj → Nat → Nat → Nat → List RObj × Change
  | [], _, _, _ => ([], .none)
  | o :: rest, n, i, count =>
    let num := o.r.count                      -- `int num_in_range = hostrange_count(hl->hr[i])`
    if n + 1 ≤ num + count then
      if o.r.single then (rest, .deleted i)
      else
        match hostrangeDeleteHost o.r (addU64 o.r.lo (n - count)) with
        | (r', some up) => ({ o with r := r' } :: ⟨fresh, up⟩ :: rest, .inserted (i + 1))
        | (r', none) => if r'.empty then (rest, .deleted i) else ({ o with r := r' } :: rest, .none)
    else
      match deleteNthRs fresh rest n (i + 1) (count + num) with
      | (rs', c) => (o :: rs', c)

/-- `hostlist_host_deleted(hl, idx, j, split)` on one iterator (F16-DELETE-UNDER-ITERATOR / F16-MULTI
    repaired; as found nothing of the kind happens): host number `j` of record `idx` went away and,
    if `split`, the hosts behind it now form record `idx + 1` -/
def delOne (cfg : Cfg) (e : EL) (idx j : Int) (split : Bool) (it : ItSt) : ItSt :=
  if cfg.fixIterDelete && it.idx = idx && it.depth ≥ j then
    (if split && it.depth > j then ⟨it.idx + 1, it.depth - (j + 1), e.hrAt (it.idx + 1)⟩
     else { it with depth := it.depth - 1 })
  else it

def delIts (cfg : Cfg) (e : EL) (idx j : Int) (split : Bool) : EL :=
  { e with its := e.its.map fun (k, it) => (k, delOne cfg e idx j split it) }

/-- the record that holds position n, and n's offset in it (`i`, `n - count` of `hostlist_delete_nth`) -/
def locateNth : List RObj → Nat → Nat → Nat × Nat
  | [], n, i => (i, n)
  | o :: rest, n, i => if n + 1 ≤ o.r.count then (i, n) else locateNth rest (n - o.r.count) (i + 1)

/-- `hostlist_delete_nth` up to the fix-up of iterators INSIDE the record that shrinks or is split -/
def deleteNthE0 (cfg : Cfg) (e : EL) (n : Nat) : EL :=
  match deleteNthRs e.nextId e.rs n 0 0 with
  | (_, .deleted i) => let e1 := deleteRange cfg e i; { e1 with nhosts := e1.nhosts - 1 }
  | (rs', .inserted i) =>
    -- the lower part was shrunk in place, then `hostlist_insert_range` (its iterator fix-up included)
    let e0 : EL := { e with rs := (rs'.take i) ++ rs'.drop (i + 1) }
    let e1 := insertRange e0 ((rs'[i]?.map (·.r)).getD default) i
    { e1 with nhosts := e1.nhosts - 1 }
  | (rs', .none) => { e with rs := rs', nhosts := e.nhosts - 1 }

/-- `hostlist_delete_nth`.
    FINDING F16-DELETE-UNDER-ITERATOR: as found, a record is shrunk or split without a word to the
    iterators standing in it (they skip or revisit hosts).  Repaired: `hostlist_host_deleted`. -/
def deleteNthE (cfg : Cfg) (e : EL) (n : Nat) : EL :=
  let e' := deleteNthE0 cfg e n
  match (deleteNthRs e.nextId e.rs n 0 0).2, locateNth e.rs n 0 with
  | .deleted _, _ => e'
  | .inserted _, (idx, j) => delIts cfg e' idx j true
  | .none, (idx, j) => delIts cfg e' idx j false

/-- `hostlist_delete_host` -/
def deleteHostE (cfg : Cfg) (e : EL) (name : Str) : Int × EL :=
  match findE e name with
  | (some n, e1) => (1, deleteNthE cfg e1 n)
  | (none, e1) => (0, e1)

/-- D1 repaired: `while (hostlist_delete_host(hl, hostname)) n++;` — every occurrence goes -/
def deleteAllE (cfg : Cfg) : Nat → EL → Str → Int × EL
  | 0, e, _ => (0, e)
  | f + 1, e, x =>
    match deleteHostE cfg e x with
    | (1, e') => let (k, e'') := deleteAllE cfg f e' x; (k + 1, e'')
    | (_, e') => (0, e')

/-- DEFECT D1: `hostlist_delete` calls `hostlist_delete_host` ONCE per listed name, and that erases
    the first occurrence only: a host named twice by the target list survives its exclusion
    (`foo[1-3],foo[2-4]` minus `foo[2-3]` keeps foo2, foo3).  Repaired: loop until not found. -/
def deleteNameE (cfg : Cfg) (e : EL) (x : Str) : Int × EL :=
  if cfg.fixDeleteAll then deleteAllE cfg (e.nhosts.toNat + 1) e x else deleteHostE cfg e x

/-- the names `hostlist_pop` hands out until NULL (on the temporary list of `hostlist_delete`) -/
def popAll (cfg : Cfg) : Nat → EL → EM (List Str)
  | 0, _ => .ok []
  | f + 1, t =>
    match popE cfg t with
    | .error w => .error w
    | .ok (none, _) => .ok []
    | .ok (some x, t') =>
      match popAll cfg f t' with
      | .ok xs => .ok (x :: xs)
      | .error w => .error w

/-- `hostlist_delete(hl, hosts)`: one `hostlist_delete_host` per name of the expression, in pop
    order; returns the number of names found -/
def deleteE (cfg : Cfg) (e : EL) (s : Str) : EM (Int × Fatal × EL) :=
  match create cfg s with
  | .null _ f => .ok (0, f, e)
  | .ub w => .error w
  | .diverge => .error "diverge"
  | .ok t =>
    match popAll cfg (t.nhosts.toNat + 1) (pushListE EL.new t) with
    | .error w => .error w
    | .ok names =>
      let (n, e') := names.foldl (fun (acc : Int × EL) x =>
        match deleteNameE cfg acc.2 x with
        | (k, e2) => (acc.1 + k, e2)) (0, e)
      .ok (n, .none, e')

/-! ### iterators -/
def EL.getIt (e : EL) (k : Nat) : Option ItSt := (e.its.find? (·.1 == k)).map (·.2)
def EL.setIt (e : EL) (k : Nat) (it : ItSt) : EL :=
  { e with its := e.its.map fun p => if p.1 == k then (k, it) else p }

/-- `hostlist_iterator_create` in slot `k` -/
def itNew (e : EL) (k : Nat) : EL := { e with its := (k, e.resetIt) :: e.its }
/-- `hostlist_iterator_destroy` -/
def itFree (e : EL) (k : Nat) : EL := { e with its := e.its.filter (·.1 != k) }
/-- `hostlist_iterator_reset` -/
def itReset (e : EL) (k : Nat) : EL := e.setIt k e.resetIt

/-- `_iterator_advance`: is there a next host, and the iterator then.
    FINDING F16-ENDPUSH: the code as found works on the CACHED record `i->hr` and, at the end, leaves
    the iterator past the last record (`idx = nranges`, `hr = NULL`): a host pushed afterwards is
    read through the NULL pointer when it makes a new record, and is never seen when it joins the
    last record.  Repaired: the record is looked up by position, and an iterator with nothing left
    stays on the last host it handed out. -/
def itAdvance (cfg : Cfg) (e : EL) (it : ItSt) : EM (Bool × ItSt) :=
  if it.idx > (e.rs.length : Int) - 1 then .ok (false, it)
  else if cfg.fixEndPush then
    match e.deref (e.hrAt it.idx) with
    | .error w => .error w
    | .ok o =>
      if (it.depth + 1).toNat > subU64 o.r.hi o.r.lo then
        (if it.idx = (e.rs.length : Int) - 1 then .ok (false, { it with hr := some o.id })
         else .ok (true, ⟨it.idx + 1, 0, e.hrAt (it.idx + 1)⟩))
      else .ok (true, { it with depth := it.depth + 1, hr := some o.id })
  else
    match e.deref it.hr with
    | .error w => .error w
    | .ok o =>
      if (it.depth + 1).toNat > subU64 o.r.hi o.r.lo then
        .ok (decide (¬ (it.idx + 1 > (e.rs.length : Int) - 1)), ⟨it.idx + 1, 0, e.hrAt (it.idx + 1)⟩)
      else .ok (true, { it with depth := it.depth + 1 })

/-- `hostlist_next(i)` -/
def itNext (cfg : Cfg) (e : EL) (k : Nat) : EM (Option Str × EL) :=
  match e.getIt k with
  | none => .error "no such iterator"
  | some it =>
    match itAdvance cfg e it with
    | .error w => .error w
    | .ok (has, it') =>
      let e' := e.setIt k it'
      if !has then .ok (none, e')
      else
        match e.deref it'.hr with
        | .error w => .error w
        | .ok o =>
          let suffix := if o.r.single then []
            else iterSuffix cfg (fmtPad o.r.width (addU64 o.r.lo it'.depth.toNat))
          .ok (some (o.r.pre ++ suffix), e')

/-- `hostlist_remove(i)`: remove the host the iterator stands on -/
def itRemove (cfg : Cfg) (e : EL) (k : Nat) : EM EL :=
  match e.getIt k with
  | none => .error "no such iterator"
  | some it =>
    match e.deref it.hr with
    | .error w => .error w
    | .ok o =>
      if it.depth < 0 || o.r.single && it.depth > 0
          || !o.r.single && it.depth.toNat > subU64 o.r.hi o.r.lo then
        .error "hostlist_remove: iterator does not stand on a host (assert in hostrange_delete_host)"
      else
        match hostrangeDeleteHost o.r (addU64 o.r.lo it.depth.toNat) with
        | (r', some up) =>
          let e1 := insertRange (e.setObj o.id r') up (it.idx + 1).toNat
          -- F16-MULTI repaired: the OTHER iterators of this record follow (`hostlist_host_deleted`)
          let e2 := (delIts cfg e1 it.idx it.depth true).setIt k ⟨it.idx + 1, -1, e1.hrAt (it.idx + 1)⟩
          .ok { e2 with nhosts := e2.nhosts - 1 }
        | (r', none) =>
          let e1 := e.setObj o.id r'
          if r'.empty then
            let e2 := deleteRange cfg e1 it.idx.toNat
            .ok { e2 with nhosts := e2.nhosts - 1 }
          else
            let e2 := (delIts cfg e1 it.idx it.depth false).setIt k { it with depth := it.depth - 1 }
            .ok { e2 with nhosts := e2.nhosts - 1 }

/-! ### nth / count -/
def nthE (cfg : Cfg) (e : EL) (n : Nat) : Option (Option Str) := nthLoop cfg e.ranges n 0
def EL.count (e : EL) : Int := e.nhosts

end PdshVerif.Hostlist
