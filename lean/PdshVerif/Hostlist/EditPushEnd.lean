/-
  C16: a push while the iterator stands AT THE END.  With F16-ENDPUSH repaired an iterator that ran out
  stays INSIDE the list (`Inside`: on a record that exists, not beyond its hosts — it stays on the last
  host it handed out), and from there a push refines the plain list like any other: the iterator will
  reach the new hosts.  (As found, the iterator was left at `idx = nranges`, `hr = NULL`: `endpush_witness`.)
-/
import PdshVerif.Hostlist.EditMultiRemove2

namespace PdshVerif.Hostlist
open PdshVerif.Gen

/-- the iterator of slot 0 stands on a record that exists and not beyond its hosts -/
def Inside (e : EL) : Prop := ∃ i k r, Coh e i k ∧ e.ranges[i]? = some r ∧ k ≤ r.hosts.length

/-- PUSH from anywhere inside the list, the end included -/
theorem push_refines_inside (cfg : Cfg) (hfs : cfg.fixIterSuffix = true) (e : EL) (p : EditSpec.PL) (c : Nat) (fresh : Bool)
    (h : Ref cfg e p c fresh) (hin : Inside e) (r : HRange) (hr : r.Good) :
    Ref cfg (pushRangeE e r) { p with names := p.names ++ r.hosts } c false ∧ Inside (pushRangeE e r) := by
  obtain ⟨i, k, hc, hrem, _⟩ := h.pos
  obtain ⟨i2, k2, ri, hc2, hri, hki⟩ := hin
  obtain ⟨hii, hkk⟩ := coh_unique hc2 hc
  subst hii; subst hkk
  obtain ⟨hg', hh'⟩ := pushRangeE_hosts e r h.good hr
  obtain ⟨k1, k2'⟩ := pushRangeE_keeps e r
  have hilt : i2 < e.ranges.length := (List.getElem?_eq_some_iff.mp hri).1
  have hilt' : i2 < e.rs.length := by simpa [EL.ranges] using hilt
  have hhr : (pushRangeE e r).hrAt (i2 : Int) = e.hrAt (i2 : Int) := by
    obtain ⟨sfx, hs⟩ := pushRangeE_ids_prefix e r
    rw [hrAt_nat, hrAt_nat, ← List.getElem?_map, ← List.getElem?_map, hs,
      List.getElem?_append_left (by simpa using hilt')]
  have hcoh : Coh (pushRangeE e r) i2 k2 := by
    unfold Coh
    rw [k2', hhr]
    exact hc
  have hrs : (pushRangeE e r).ranges = (pushRange e.toHL r).ranges.toList := by
    rw [← pushRangeE_toHL]; simp [EL.toHL]
  have hold : e.toHL.ranges.toList = e.ranges := by simp [EL.toHL]
  -- what is left grows by the new hosts, and the iterator's record is still there
  have hkey : remaining (pushRangeE e r).ranges i2 k2 = remaining e.ranges i2 k2 ++ r.hosts ∧
      ∃ r', (pushRangeE e r).ranges[i2]? = some r' ∧ k2 ≤ r'.hosts.length := by
    rcases pushRange_ranges e.toHL r with happ | ⟨t, wt, wr, hgl, hp, hlo, hw, hmer⟩
    · rw [hrs, happ, hold]
      refine ⟨?_, ri, by rw [List.getElem?_append_left hilt]; exact hri, hki⟩
      rw [remaining_append _ _ _ _ hilt]
      simp [hostsL]
    · rw [hrs, hmer, hold]
      rw [hold] at hgl
      obtain ⟨D, hD⟩ := List.getLast?_eq_some_iff.mp hgl
      have htm : t ∈ e.ranges := by rw [hD]; simp
      obtain ⟨hch, _⟩ := coalesce_hosts (h.good.1 t htm) hr hp hlo hw
      rw [hD, List.dropLast_concat]
      by_cases hiD : i2 < D.length
      · refine ⟨?_, ri, ?_, hki⟩
        · rw [remaining_append _ _ _ _ hiD, remaining_append _ _ _ _ hiD]
          simp [hostsL, hch]
        · rw [List.getElem?_append_left hiD]
          rw [hD, List.getElem?_append_left hiD] at hri
          exact hri
      · have hiD' : i2 = D.length := by rw [hD] at hilt; simp at hilt; omega
        subst hiD'
        have hrit : ri = t := by
          rw [hD] at hri
          simpa using hri.symm
        subst hrit
        have e1 : D ++ [({ ri with hi := r.hi, width := wt } : HRange)] = D ++ ({ ri with hi := r.hi, width := wt } : HRange) :: [] := rfl
        have e2 : D ++ [ri] = D ++ ri :: [] := rfl
        refine ⟨?_, { ri with hi := r.hi, width := wt }, by simp, by rw [hch, List.length_append]; omega⟩
        rw [e1, e2, remaining_mid, remaining_mid, hch, List.drop_append_of_le_length hki]
        simp [hostsL]
  obtain ⟨hrem', r', hr', hk'⟩ := hkey
  refine ⟨⟨k1 h.ids, hg', fun _ _ => Or.inl hfs, by rw [hh', h.hosts], h.cur,
    by simp only [List.length_append]; have := h.le; omega, i2, k2, hcoh, ?_, by intro hf; simp at hf⟩,
    i2, k2, r', hcoh, hr', hk'⟩
  show remaining (pushRangeE e r).ranges i2 k2 = (p.names ++ r.hosts).drop c
  rw [List.drop_append_of_le_length h.le, ← hrem, hrem']

/-- F16-ENDPUSH repaired: `hostlist_next` keeps the iterator inside the list — also when it answers NULL -/
theorem next_keeps_inside (cfg : Cfg) (hfx : cfg.fixEndPush = true) (e : EL) (p : EditSpec.PL) (c : Nat) (fresh : Bool)
    (h : Ref cfg e p c fresh) (hin : Inside e) (a : Option Str) (e' : EL) (hn : itNext cfg e 0 = .ok (a, e')) :
    Inside e' := by
  obtain ⟨i, k, r, hc, hri, hk⟩ := hin
  cases a with
  | none =>
    obtain ⟨hc', hrs⟩ := itNext_none_pos cfg hfx e h.ids i k hc e' hn
    have : e'.ranges = e.ranges := by simp [EL.ranges, hrs]
    exact ⟨i, k, r, hc', by rw [this]; exact hri, hk⟩
  | some x =>
    rcases itNext_spec cfg e h.ids h.good.1 h.full i k hc with
      ⟨_, i0, k0, _, hnx⟩ | ⟨x', xs, i', k', r', _, hnx, _, hr', _, hk', _⟩
    · rw [hnx] at hn; simp at hn
    · rw [hnx] at hn
      simp only [Except.ok.injEq, Prod.mk.injEq] at hn
      rw [← hn.2]
      exact ⟨i', k', r', rfl, hr', hk'⟩

/-- a fresh or reset iterator on a list that is not empty stands inside it -/
theorem inside_of_reset (e : EL) (hne : e.rs ≠ []) (hc : Coh e 0 0) : Inside e := by
  cases hrs : e.rs with
  | nil => exact absurd hrs hne
  | cons o rest => exact ⟨0, 0, o.r, hc, by simp [EL.ranges, hrs], Nat.zero_le _⟩

/-- `hostlist_remove` (repaired D19) leaves the iterator inside the list — unless the list is empty now -/
theorem remove_keeps_inside (cfg : Cfg) (hfix : cfg.fixRemoveDepth = true) (e : EL) (p : EditSpec.PL) (c : Nat)
    (h : Ref cfg e p c true) (e' : EL) (hr : itRemove cfg e 0 = .ok e') : Inside e' ∨ e'.ranges = [] := by
  obtain ⟨i, k, hc, _, hfr⟩ := h.pos
  obtain ⟨r, hri, hk1, hk⟩ := hfr rfl
  obtain ⟨e2, i2, k2, hrmv, _, _, _, hc2, _, _, _, hat⟩ :=
    itRemove_spec_pos cfg hfix (·.PrintsFull cfg) (fun _ _ hp hw hh hs => narrow_of_le hp hw hh hs) e h.ids h.good h.full
      i k hc r hri hk1 hk
  rw [hrmv] at hr
  simp only [Except.ok.injEq] at hr
  subst hr
  rcases hat with ⟨h0, _, _⟩ | ⟨r2, hr2, hk2⟩
  · exact Or.inr h0
  · exact Or.inl ⟨i2, k2, r2, hc2, hr2, hk2⟩

end PdshVerif.Hostlist
