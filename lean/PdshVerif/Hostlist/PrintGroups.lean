/-
  Helper lemmas for C14, part 4: the text the model prints (`rangedTextM`, defined along the
  control flow of the C code) is the compressed rendering of the specification
  (`PrintSpec.rangedTextL`: group, then render), for every list of well-formed records in which no
  single host has the empty name.
-/
import PdshVerif.Hostlist.PrintRanged

namespace PdshVerif.Hostlist.Print
open PdshVerif.Hostlist

/-- no single-host record has the empty name (then every group prints at least one byte, and the
    C code's "comma only when len > 0" never matters) -/
def NoEmptyName (rs : List HRange) : Prop := ∀ r ∈ rs, r.single = true → r.pre ≠ []

theorem withinRange_eq_joins (a b : HRange) : withinRange b a = PrintSpec.joins a (some b) := by
  simp only [withinRange, PrintSpec.joins]
  rw [Bool.eq_iff_iff]
  simp only [Bool.and_eq_true, beq_iff_eq, Bool.not_eq_true']
  constructor
  · rintro ⟨⟨h1, h2⟩, h3⟩; exact ⟨⟨h3, h2⟩, h1.symm⟩
  · rintro ⟨⟨h1, h2⟩, h3⟩; exact ⟨⟨h3.symm, h2⟩, h1⟩

theorem loopRun_head (cur : HRange) (rest : List HRange) : (loopRun cur rest).head? = some cur := by
  cases rest with
  | nil => rfl
  | cons r' rest' => simp only [loopRun]; split <;> rfl

/-- grouping, one group at a time -/
theorem groups_cons : ∀ (rest : List HRange) (cur : HRange),
    PrintSpec.groups (cur :: rest) = loopRun cur rest :: PrintSpec.groups (loopRem cur rest)
  | [], cur => by simp [PrintSpec.groups, loopRun, loopRem]
  | r' :: rest', cur => by
    have ih := groups_cons rest' r'
    rw [PrintSpec.groups, ih]
    simp only [loopRun_head, ← withinRange_eq_joins]
    by_cases hw : withinRange r' cur = true
    · simp [hw, loopRun, loopRem]
    · have hw' : withinRange r' cur = false := by simpa using hw
      simp [hw', loopRun, loopRem, ih]

theorem groups_eq_nil {rs : List HRange} : PrintSpec.groups rs = [] ↔ rs = [] := by
  cases rs with
  | nil => simp [PrintSpec.groups]
  | cons r rs => simp [groups_cons]

theorem loopRem_subset : ∀ (rest : List HRange) (cur : HRange) (x : HRange), x ∈ loopRem cur rest → x ∈ rest
  | [], _, x, h => by simp [loopRem] at h
  | r' :: rest', cur, x, h => by
    simp only [loopRem] at h
    split at h
    · exact List.mem_cons_of_mem _ (loopRem_subset rest' r' x h)
    · exact h

theorem loopRun_subset : ∀ (rest : List HRange) (cur : HRange) (x : HRange), x ∈ loopRun cur rest →
    x = cur ∨ x ∈ rest
  | [], cur, x, h => by simp [loopRun] at h; exact Or.inl h
  | r' :: rest', cur, x, h => by
    simp only [loopRun] at h
    split at h
    · rcases List.mem_cons.mp h with h | h
      · exact Or.inl h
      · rcases loopRun_subset rest' r' x h with h | h
        · exact Or.inr (by simp [h])
        · exact Or.inr (List.mem_cons_of_mem _ h)
    · simp at h; exact Or.inl h

/-- a group that starts with a range record holds range records only -/
theorem loopRun_nonsingle : ∀ (rest : List HRange) (cur : HRange), cur.single = false →
    ∀ x ∈ loopRun cur rest, x.single = false
  | [], cur, hs, x, h => by simp [loopRun] at h; rw [h]; exact hs
  | r' :: rest', cur, hs, x, h => by
    simp only [loopRun] at h
    split at h
    · rename_i hw
      rcases List.mem_cons.mp h with h | h
      · rw [h]; exact hs
      · have : r'.single = false := by
          simp only [withinRange, Bool.and_eq_true, Bool.not_eq_true'] at hw
          exact hw.1.2
        exact loopRun_nonsingle rest' r' this x h
    · simp at h; rw [h]; exact hs

/-- a single host is a group of its own -/
theorem loopRun_single (cur : HRange) (rest : List HRange) (hs : cur.single = true) : loopRun cur rest = [cur] := by
  cases rest with
  | nil => rfl
  | cons r' rest' =>
    have : withinRange r' cur = false := by simp [withinRange, hs]
    simp [loopRun, this]

theorem count_gt_one {r : HRange} (hg : r.Good) (hs : r.single = false) : decide (r.count > 1) = decide (r.lo < r.hi) := by
  have h1 := HRange.Good.count_eq hg
  have h2 := hg.2 hs
  rw [hosts_nonsingle hs] at h1
  simp only [List.length_map, List.length_range'] at h1
  rw [h1]
  rw [Bool.eq_iff_iff]
  simp only [decide_eq_true_eq]
  omega

/-- the text of one group: control-flow form = specification form -/
theorem groupText_eq (cur : HRange) (rest : List HRange) (hg : cur.Good) :
    PrintSpec.groupText (loopRun cur rest) = groupTextM cur rest := by
  by_cases hs : cur.single = true
  · have hbn : isBracketNeeded cur rest.head? = false := by
      cases rest with
      | nil => simp [isBracketNeeded, HRange.count, hs]
      | cons r' rest' => simp [isBracketNeeded, HRange.count, hs, withinRange]
    simp [PrintSpec.groupText, groupTextM, hs, hbn, loopText, numText, loopRun_single cur rest hs]
  · have hs' : cur.single = false := by simpa using hs
    have hall := loopRun_nonsingle rest cur hs'
    have hmap : (loopRun cur rest).map numText = (loopRun cur rest).map PrintSpec.item := by
      apply List.map_congr_left
      intro x hx
      simp [numText, hall x hx]
    obtain ⟨g, hg'⟩ : ∃ g, loopRun cur rest = cur :: g := by
      cases rest with
      | nil => exact ⟨[], rfl⟩
      | cons r' rest' => simp only [loopRun]; split <;> simp
    -- brackets are needed iff the group has a second record or the first stands for several hosts
    have hbn : isBracketNeeded cur rest.head? = !(g.isEmpty && decide (cur.lo = cur.hi)) := by
      have hlo := hg.2 hs'
      cases rest with
      | nil =>
        simp only [loopRun, List.cons.injEq, true_and] at hg'
        subst hg'
        simp only [isBracketNeeded, List.head?_nil, Bool.or_false, count_gt_one hg hs', List.isEmpty_nil,
          Bool.true_and]
        rw [Bool.eq_iff_iff]; simp; omega
      | cons r' rest' =>
        simp only [isBracketNeeded, List.head?_cons, count_gt_one hg hs']
        have hsym : withinRange cur r' = withinRange r' cur := by
          simp only [withinRange]; rw [Bool.eq_iff_iff]
          simp only [Bool.and_eq_true, beq_iff_eq, Bool.not_eq_true']
          constructor <;> rintro ⟨⟨h1, h2⟩, h3⟩ <;> exact ⟨⟨h1.symm, h3⟩, h2⟩
        rw [hsym]
        simp only [loopRun] at hg'
        by_cases hw : withinRange r' cur = true
        · simp only [hw, ↓reduceIte, List.cons.injEq, true_and] at hg'
          subst hg'
          have : (loopRun r' rest').isEmpty = false := by
            have := loopRun_ne_nil r' rest'
            cases h : loopRun r' rest' with
            | nil => exact absurd h this
            | cons _ _ => rfl
          simp [hw, this]
        · have hw' : withinRange r' cur = false := by simpa using hw
          simp only [hw', Bool.false_eq_true, ↓reduceIte, List.cons.injEq, true_and] at hg'
          subst hg'
          simp only [hw', Bool.or_false, List.isEmpty_nil, Bool.true_and]
          rw [Bool.eq_iff_iff]; simp; omega
    simp only [groupTextM, hbn]
    rw [hg'] at hmap ⊢
    simp only [PrintSpec.groupText, hs', Bool.false_eq_true, ↓reduceIte]
    by_cases hc : (g.isEmpty && decide (cur.lo = cur.hi)) = true
    · have hge : g = [] := by
        simp only [Bool.and_eq_true, List.isEmpty_iff] at hc; exact hc.1
      subst hge
      have hc2 : cur.lo = cur.hi := by simpa using hc
      simp [hc2, loopText, numText, hs']
    · have hc' : (g.isEmpty && decide (cur.lo = cur.hi)) = false := by simpa using hc
      simp only [hc', Bool.not_false, ↓reduceIte]
      rw [loopText_true_eq, hmap, commaAll_eq_joinComma _ (by simp), List.dropLast_concat]
      simp

theorem fmtPad_ne_nil (w n : Nat) : fmtPad w n ≠ [] := by
  intro h
  have := congrArg List.length h
  rw [fmtPad_length] at this
  have := ndig_pos n
  simp only [List.length_nil] at *
  omega

/-- every group prints at least one byte -/
theorem groupTextM_ne_nil (cur : HRange) (rest : List HRange) (hne : cur.single = true → cur.pre ≠ []) :
    groupTextM cur rest ≠ [] := by
  unfold groupTextM
  split
  · simp
  · by_cases hs : cur.single = true
    · simp [hne hs]
    · have hs' : cur.single = false := by simpa using hs
      obtain ⟨g, hg'⟩ : ∃ g, loopRun cur rest = cur :: g := by
        cases rest with
        | nil => exact ⟨[], rfl⟩
        | cons r' rest' => simp only [loopRun]; split <;> simp
      simp [hg', loopText, numText, hs', PrintSpec.item, fmtPad_ne_nil]

theorem rangedTextM_nil (f len : Nat) : rangedTextM f len [] = [] := by
  cases f <;> rfl

/-- the text the model prints is the specification's compressed rendering -/
theorem rangedTextM_eq : ∀ (f len : Nat) (rs : List HRange), rs.length ≤ f → (∀ r ∈ rs, r.Good) →
    NoEmptyName rs → rangedTextM f len rs = PrintSpec.rangedTextL rs
  | 0, len, rs, hf, _, _ => by
    have : rs = [] := by simpa using hf
    subst this
    simp [rangedTextM, PrintSpec.rangedTextL, PrintSpec.groups, PrintSpec.joinComma]
  | f + 1, len, [], _, _, _ => by
    simp [rangedTextM, PrintSpec.rangedTextL, PrintSpec.groups, PrintSpec.joinComma]
  | f + 1, len, cur :: rest, hf, hg, hne => by
    have hG := groupTextM_ne_nil cur rest (hne cur (by simp))
    have hGpos : (groupTextM cur rest).length > 0 := List.length_pos_iff.mpr hG
    have hsub := loopRem_subset rest cur
    have hlen := loopRem_length_le rest cur
    simp only [List.length_cons] at hf
    have ih := rangedTextM_eq f (len + (groupTextM cur rest).length + 1) (loopRem cur rest) (by omega)
      (fun r hr => hg r (List.mem_cons_of_mem _ (hsub r hr)))
      (fun r hr => hne r (List.mem_cons_of_mem _ (hsub r hr)))
    have hd : decide (len + (groupTextM cur rest).length > 0) = true := by simp; omega
    simp only [rangedTextM, hd, Bool.true_and]
    simp only [PrintSpec.rangedTextL, groups_cons, List.map_cons, groupText_eq cur rest (hg cur (by simp))]
    cases hrem : loopRem cur rest with
    | nil =>
      simp [PrintSpec.groups, PrintSpec.joinComma, rangedTextM_nil]
    | cons x xs =>
      rw [hrem] at ih
      simp only [List.isEmpty_cons, Bool.not_false, ↓reduceIte, ih]
      obtain ⟨g0, gs, hgs⟩ : ∃ g0 gs, PrintSpec.groups (x :: xs) = g0 :: gs := by
        rw [groups_cons]; exact ⟨_, _, rfl⟩
      simp only [PrintSpec.rangedTextL, hgs, List.map_cons, PrintSpec.joinComma]

end PdshVerif.Hostlist.Print
