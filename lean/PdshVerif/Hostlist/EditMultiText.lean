/-
  C16, any number of live iterators, operation TEXT level: `hostlist_push(hl, "expr")` = the parser (C01)
  followed by one `hostlist_push_range` per record (`push_refinesM`).
-/
import PdshVerif.Hostlist.EditSortRefine

namespace PdshVerif.Hostlist
open PdshVerif.Gen

theorem Ref.unfresh {cfg : Cfg} {e : EL} {p : EditSpec.PL} {c : Nat} {f : Bool} (h : Ref cfg e p c f) :
    Ref cfg e p c false := by
  obtain ⟨i, k, hc, hrem, _⟩ := h.pos
  exact ⟨h.ids, h.good, h.full, h.hosts, h.cur, h.le, i, k, hc, hrem, by intro hf; simp at hf⟩

theorem RefM.unfresh {cfg : Cfg} {e : EL} {p : EditSpec.PL} {fr : Nat → Bool} (h : RefM cfg e p fr) :
    RefM cfg e p (fun _ => false) :=
  ⟨h.base, h.keys, All2.imp (fun _ _ hab => ⟨hab.1, hab.2.unfresh⟩) h.each⟩

/-- a sequence of `hostlist_push_range` while no iterator stands at the end -/
theorem pushRanges_refinesM (cfg : Cfg) (hfs : cfg.fixIterSuffix = true) : ∀ (rs : List HRange) (e : EL)
    (p : EditSpec.PL) (fr : Nat → Bool), RefM cfg e p fr → (∀ r ∈ rs, r.Good) →
    (∀ b ∈ p.cur, b.2 < p.names.length) →
    RefM cfg (rs.foldl pushRangeE e) { p with names := p.names ++ hostsL rs } (fun _ => false)
  | [], e, p, fr, h, _, _ => by
    simp only [List.foldl_nil, hostsL, List.flatMap_nil, List.append_nil]
    exact h.unfresh
  | r :: rs, e, p, fr, h, hg, hlt => by
    have h1 := push_refinesM cfg hfs e p fr h r (hg r (by simp)) hlt
    have h2 := pushRanges_refinesM cfg hfs rs (pushRangeE e r) { p with names := p.names ++ r.hosts } _ h1
      (fun x hx => hg x (by simp [hx]))
      (fun b hb => by have := hlt b hb; simp only [List.length_append]; omega)
    simp only [List.foldl_cons]
    have : p.names ++ hostsL (r :: rs) = (p.names ++ r.hosts) ++ hostsL rs := by
      simp [hostsL, List.append_assoc]
    rw [this]
    exact h2

/-- PUSH of an expression TEXT with any number of live iterators, none of them at the end: the answer is the
    number of hosts of the mathematical expansion, the list grows by exactly these names and every
    iterator will reach them -/
theorem push_text_refinesM (cfg : Cfg) (hfs : cfg.fixIterSuffix = true) (e : EL) (p : EditSpec.PL) (fr : Nat → Bool)
    (h : RefM cfg e p fr) (hlt : ∀ b ∈ p.cur, b.2 < p.names.length)
    (lead : Str) (items : List (Spec.Word × Str))
    (hl : lead.all Spec.sepChar = true) (hok : Spec.sepsOK items = true)
    (hw : ∀ q ∈ items, q.1.WF = true) (hd : ∀ q ∈ items, wordDom cfg q.1) :
    ∃ e', pushE cfg e (Spec.render lead items) =
        .ok (((Spec.expand₁ (items.map (·.1))).length : Int), .none, e') ∧
      RefM cfg e' { p with names := p.names ++ Spec.expand₁ (items.map (·.1)) } (fun _ => false) := by
  obtain ⟨t, hc, hg, hh⟩ := create_text cfg lead items hl hok hw hd
  refine ⟨pushListE e t, ?_, ?_⟩
  · unfold pushE; rw [hc]; simp only; rw [hg.2, hh]
  · rw [← hh]
    unfold pushListE
    exact pushRanges_refinesM cfg hfs t.ranges.toList e p fr h hg.1 hlt

end PdshVerif.Hostlist
