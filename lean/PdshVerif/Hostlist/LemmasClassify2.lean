/-
  THE SECOND LEVEL FOR EVERY BYTE STRING: `hostlist_create(text)` followed by opt.c `wcoll_expand`
  (every host shifted out and pushed again as an expression of its own) against
  `Spec.classify`'s second level — `expand_text`: when the spec finds no problem at either level
  and no bound reaches 2^64-1, the working collective denotes exactly `hosts₂`.

  Route: every token is scanned as one piece (`IsTok`); a first-level name of an accepted token —
  prefix + numeral + the rest — is again one token and balanced (`name_isTok`), so
  `hostlist_create(name)` is ONE `pushTok`, which the first-level theorem (`pushTok_spec`,
  `tokOk_iff_spec`) reads against the spec's `readWord`; the shift loop hands the names out in
  order (`shiftL_spec`; `ShiftFits` from `create_shiftFits`).
-/
import PdshVerif.Hostlist.LemmasClassify
import PdshVerif.Hostlist.LemmasShiftFits
import PdshVerif.Hostlist.LemmasExpand
import PdshVerif.Hostlist.LemmasCli

namespace PdshVerif.Hostlist
open PdshVerif.Gen

/-! ### tokens are scanned as one piece -/
/-- a text `_next_tok` hands out whole: not empty, no leading separator, the scan runs to its end -/
def IsTok (t : Str) : Prop :=
  (∃ c cs, t = c :: cs ∧ isSep hlSep c = false) ∧ scanTok hlSep 0 t = (t, [])

theorem scanTok_idem (sep : Str) : ∀ (s : Str) (lvl : Int),
    scanTok sep lvl (scanTok sep lvl s).1 = ((scanTok sep lvl s).1, [])
  | [], _ => rfl
  | c :: cs, lvl => by
    by_cases hc : (decide (lvl ≠ 0) || !isSep sep c) = true
    · have ih := scanTok_idem sep cs (if c = '[' then lvl + 1 else if c = ']' then lvl - 1 else lvl)
      have e : scanTok sep lvl (c :: cs) =
          (c :: (scanTok sep (if c = '[' then lvl + 1 else if c = ']' then lvl - 1 else lvl) cs).1,
           (scanTok sep (if c = '[' then lvl + 1 else if c = ']' then lvl - 1 else lvl) cs).2) := by
        rw [scanTok]; simp only [hc, ↓reduceIte]
      rw [e]
      simp only
      rw [scanTok]
      simp only [hc, ↓reduceIte, ih]
    · have e : scanTok sep lvl (c :: cs) = ([], c :: cs) := by
        rw [scanTok]; simp only [hc, Bool.false_eq_true, ↓reduceIte]
      rw [e]; rfl

theorem tokens_isTok : ∀ (n : Nat) (s : Str), s.length ≤ n → ∀ t ∈ tokens hlSep s, IsTok t
  | 0, s, hn, t, ht => by
    have : s = [] := List.length_eq_zero_iff.mp (by omega)
    subst this
    rw [tokens_nil] at ht; simp at ht
  | n + 1, s, hn, t, ht => by
    rw [tokens_unfold] at ht
    cases hnt : nextTok hlSep s with
    | none => rw [hnt] at ht; simp at ht
    | some p =>
      obtain ⟨t0, r⟩ := p
      rw [hnt] at ht
      have ⟨hne, hl⟩ := nextTok_some hnt
      have hpos : 0 < t0.length := List.length_pos_iff.mpr hne
      rcases List.mem_cons.mp ht with rfl | ht
      · unfold nextTok at hnt
        split at hnt
        · cases hnt
        · rename_i s1 hs1
          have hidem := scanTok_idem hlSep (s.dropWhile (isSep hlSep)) 0
          generalize hq : scanTok hlSep 0 (s.dropWhile (isSep hlSep)) = q at hnt hidem
          obtain ⟨a, b⟩ := q
          simp only [Option.some.injEq, Prod.mk.injEq] at hnt
          obtain ⟨rfl, _⟩ := hnt
          simp only at hidem
          refine ⟨?_, hidem⟩
          -- the first character of the token is the first non-separator of the text
          cases hd : s.dropWhile (isSep hlSep) with
          | nil => exact absurd hd (by intro h; exact hs1 h)
          | cons c cs =>
            have hc : isSep hlSep c = false := by
              have := dropWhile_head_not (p := isSep hlSep) hd
              simpa using this
            rw [hd] at hq
            rw [scanTok] at hq
            simp only [hc, Bool.not_false, Bool.or_true, ↓reduceIte, Prod.mk.injEq] at hq
            exact ⟨c, _, hq.1.symm, hc⟩
      · exact tokens_isTok n r (by omega) t ht

theorem tokens_of_isTok {t : Str} (h : IsTok t) : tokens hlSep t = [t] := by
  obtain ⟨⟨c, cs, rfl, hc⟩, hs⟩ := h
  rw [tokens_unfold]
  have hd : (c :: cs).dropWhile (isSep hlSep) = c :: cs := by simp [List.dropWhile, hc]
  have : nextTok hlSep (c :: cs) = some (c :: cs, []) := by
    unfold nextTok
    rw [hd]
    simp only [hs, List.dropWhile_nil]
  rw [this]
  simp only [tokens_nil]

/-- a scan that runs over bracket-less text at level 0 meets no separator in it -/
theorem scan_whole_pfx : ∀ (a rest : Str), '[' ∉ a → ']' ∉ a →
    scanTok hlSep 0 (a ++ rest) = (a ++ rest, []) →
    (∀ c ∈ a, isSep hlSep c = false) ∧ scanTok hlSep 0 rest = (rest, [])
  | [], rest, _, _, h => ⟨by simp, h⟩
  | c :: a, rest, ho, hc, h => by
    have h1 : c ≠ '[' := fun e => ho (by simp [e])
    have h2 : c ≠ ']' := fun e => hc (by simp [e])
    by_cases hs : isSep hlSep c = true
    · simp [scanTok, hs] at h
    · have hs' : isSep hlSep c = false := by simpa using hs
      rw [List.cons_append, scanTok] at h
      simp only [hs', Bool.not_false, Bool.or_true, ↓reduceIte, h1, h2, Prod.mk.injEq, List.cons.injEq,
        true_and] at h
      have ih := scan_whole_pfx a rest (fun hm => ho (List.mem_cons_of_mem _ hm))
        (fun hm => hc (List.mem_cons_of_mem _ hm)) (Prod.ext h.1 h.2)
      refine ⟨?_, ih.2⟩
      intro x hx
      rcases List.mem_cons.mp hx with rfl | hx
      · exact hs'
      · exact ih.1 x hx

theorem textChar_of {c : Char} (h1 : isSep hlSep c = false) (h2 : c ≠ '[') (h3 : c ≠ ']') :
    Spec.textChar c = true := by
  rw [isSep_hlSep] at h1
  unfold Spec.sepChar at h1
  simp only [Bool.or_eq_false_iff, decide_eq_false_iff_not] at h1
  unfold Spec.textChar
  simp [h1.1.1, h1.1.2, h1.2, h2, h3]

/-- FIRST-LEVEL NAMES ARE TOKENS AGAIN: replace the first group of a token by a numeral — the
    result is scanned as one piece, and what follows the group keeps its balance -/
theorem name_isTok {pfx body sfx num : Str} (ht : IsTok (pfx ++ '[' :: (body ++ ']' :: sfx)))
    (h1 : '[' ∉ pfx) (h1c : ']' ∉ pfx) (h2 : ']' ∉ body) (h3 : '[' ∉ body)
    (hnum : num ≠ [] ∧ num.all Spec.textChar = true) : IsTok (pfx ++ num ++ sfx) := by
  obtain ⟨_, hs⟩ := ht
  obtain ⟨k1, k2⟩ := scan_whole_pfx pfx _ h1 h1c hs
  -- behind the group the scan of the token runs to the end of `sfx`
  have hg := ScanPfx.group h3 h2 sfx
  have e : '[' :: (body ++ ']' :: sfx) = ('[' :: body ++ [']']) ++ sfx := by simp
  rw [e, hg] at k2
  simp only [Prod.mk.injEq] at k2
  have hsfx : scanTok hlSep 0 sfx = (sfx, []) :=
    Prod.ext (List.append_cancel_left k2.1) k2.2
  have htp : pfx.all Spec.textChar = true := by
    rw [List.all_eq_true]
    intro c hc
    exact textChar_of (k1 c hc) (fun e => h1 (e ▸ hc)) (fun e => h1c (e ▸ hc))
  have hscan := (ScanPfx.text htp).append (ScanPfx.text hnum.2) sfx
  rw [hsfx] at hscan
  refine ⟨?_, hscan⟩
  -- head: the first character of pfx ++ num is a text character
  have hall : (pfx ++ num).all Spec.textChar = true := by
    rw [List.all_append, htp, hnum.2]; rfl
  cases hpn : pfx ++ num with
  | nil =>
    have := congrArg List.length hpn
    simp only [List.length_append, List.length_nil] at this
    have : num = [] := List.length_eq_zero_iff.mp (by omega)
    exact absurd this hnum.1
  | cons c cs =>
    rw [hpn] at hall
    simp only [List.all_cons, Bool.and_eq_true] at hall
    exact ⟨c, cs ++ sfx, by simp, (textChar_facts hall.1).1⟩

/-- the names the spec's item reader gives are non-empty digit strings -/
theorem itemNames_text (it : Str) : ∀ n ∈ Spec.itemNames it, n ≠ [] ∧ n.all Spec.textChar = true := by
  intro n hn
  unfold Spec.itemNames at hn
  split at hn
  · simp at hn
  · obtain ⟨k, _, rfl⟩ := List.mem_map.mp hn
    exact pad_text _ k

/-- every first-level name of an accepted token is one token, balanced -/
theorem readWord_names_tok (w : Str) (hw : IsTok w) (hok : tokOk w) :
    ∀ n ∈ (Spec.readWord w).2, IsTok n ∧ bracketsBalanced 0 n = true := by
  have hb := hok.1
  by_cases ho : '[' ∈ w
  · obtain ⟨pfx, body, sfx, rfl, h1, hpc, h2, c1, c2⟩ := balanced_tok_split hb ho
    have hfg : firstGroup (pfx ++ '[' :: (body ++ ']' :: sfx)) = some body := by
      unfold firstGroup; rw [c1]; simp only; rw [c2]
    obtain ⟨_, k2⟩ := hok.2 body hfg
    have h3 := items_no_open k2
    have hps := ((tokOk_iff_spec _ hb).mp hok).1
    rw [readWord_br_fst pfx body sfx h1 h2 h3] at hps
    rw [readWord_br_snd pfx body sfx h1 h2 h3 hps]
    have hbal : bracketsBalanced 0 sfx = true := by
      have hn := ((Neutral.noBrackets h1 hpc).append (Neutral.group h3 h2)) 0 sfx
      have e : pfx ++ '[' :: (body ++ ']' :: sfx) = (pfx ++ ('[' :: body ++ [']'])) ++ sfx := by simp
      rw [e, hn] at hb; exact hb
    intro n hn
    obtain ⟨num, hnum, rfl⟩ := List.mem_map.mp hn
    obtain ⟨it, _, hnit⟩ := List.mem_flatMap.mp hnum
    have hnt := itemNames_text it num hnit
    refine ⟨name_isTok hw h1 hpc h2 h3 hnt, ?_⟩
    have ⟨no1, no2⟩ : '[' ∉ num ∧ ']' ∉ num := textChar_no hnt.2
    have hn := ((Neutral.noBrackets h1 hpc).append (Neutral.noBrackets no1 no2)) 0 sfx
    rw [hn]; exact hbal
  · rw [readWord_plain ho]
    intro n hn
    simp only [List.mem_singleton] at hn
    subst hn
    exact ⟨hw, hb⟩

/-! ### `hostlist_push(new, name)` for a name that is one token -/
theorem hlPush_tok (cfg : Cfg) (h15 : cfg.fixUlongMax = true) (h16 : cfg.fixDigits = true)
    (h18 : cfg.fixCurTok = true) (h22 : cfg.fixSuffixBal = true) (h23 : cfg.fixHostBuf = true)
    (acc : HL) (hg : acc.Good) (n : Str) (hn : IsTok n) (hok : tokOk n) :
    ∃ acc', hlPush cfg acc n = .ok acc' ∧ acc'.Good ∧ acc'.hosts = acc.hosts ++ (Spec.readWord n).2 := by
  obtain ⟨st', e1, g1, hh1⟩ := createToks_spec cfg h15 h16 h18 h22 h23 [n] ⟨HL.new, 0⟩ HL.new_good
    (fun t ht => by simp only [List.mem_singleton] at ht; rw [ht]; exact hok)
  have hc : create cfg n = .ok st'.hl := by
    unfold create createFrom
    rw [tokens_of_isTok hn, e1]
  obtain ⟨p1, p2⟩ := pushList_hosts acc st'.hl hg g1
  refine ⟨pushList acc st'.hl, by unfold hlPush; rw [hc], p1, ?_⟩
  rw [p2, hh1, HL.new_hosts]
  simp

/-- the loop of `wcoll_expand` over a list of names each of which `hostlist_push` turns into `f name` -/
theorem wcollExpandLoop_names (cfg : Cfg) (f : Str → List Str) : ∀ (fuel : Nat) (rs : List HRange) (nh : Int)
    (new : HL), (∀ r ∈ rs, r.Good) → (∀ r ∈ rs, r.ShiftFits) → nh = (hostsL rs).length → new.Good →
    (hostsL rs).length < fuel →
    (∀ n ∈ hostsL rs, ∀ acc : HL, acc.Good →
      ∃ acc', hlPush cfg acc n = .ok acc' ∧ acc'.Good ∧ acc'.hosts = acc.hosts ++ f n) →
    ∃ h', wcollExpandLoop cfg fuel rs nh new = .ok h' ∧ h'.Good ∧
      h'.hosts = new.hosts ++ (hostsL rs).flatMap f
  | 0, _, _, _, _, _, _, _, hlt, _ => by omega
  | fuel + 1, rs, nh, new, hg, hf, hn, hng, hlt, hpush => by
    unfold wcollExpandLoop
    rcases shiftL_spec hg hf hn with ⟨hnil, hsh⟩ | ⟨x, rs', hsh, hhosts, hg', hf'⟩
    · subst hnil
      have hn0 : nh = 0 := by simpa [hostsL] using hn
      subst hn0
      simp only [hsh]
      exact ⟨new, by simp, hng, by simp [hostsL]⟩
    · have hne : rs ≠ [] := by
        intro h0; rw [h0] at hhosts; simp [hostsL] at hhosts
      have hcr : (decide (nh > 0) && rs.isEmpty) = false := by
        cases rs with
        | nil => exact absurd rfl hne
        | cons _ _ => simp
      simp only [hcr, Bool.false_eq_true, ↓reduceIte, hsh]
      obtain ⟨acc', hp, hag, hah⟩ := hpush x (by rw [hhosts]; simp) new hng
      rw [hp]
      simp only
      have hn' : nh - 1 = (hostsL rs').length := by
        rw [hhosts] at hn; simp only [List.length_cons] at hn; omega
      obtain ⟨h', hl, hg2, hh2⟩ := wcollExpandLoop_names cfg f fuel rs' (nh - 1) acc' hg' hf' hn' hag
        (by rw [hhosts] at hlt; simp only [List.length_cons] at hlt; omega)
        (fun n hn acc ha => hpush n (by rw [hhosts]; simp [hn]) acc ha)
      refine ⟨h', hl, hg2, ?_⟩
      rw [hh2, hah, hhosts]
      simp

/-! ### the spec's second level -/
/-- the verdict of `Spec.classify` on a text it finds no first-level problem in -/
theorem classify_level2 (s : Str) (hb : Spec.balanced 0 s = true) (h0 : (Spec.classify s).problems = []) :
    ((Spec.classify s).problems₂ = [] ↔ ∀ n ∈ (Spec.classify s).hosts₁, (Spec.readWord n).1 = []) ∧
    ((Spec.classify s).problems₂ = [] →
      (Spec.classify s).hosts₂ = (Spec.classify s).hosts₁.flatMap fun n => (Spec.readWord n).2) ∧
    ((Spec.classify s).note64 = false → ∀ n ∈ (Spec.classify s).hosts₁, Spec.wordNote64 n = false) ∧
    ((Spec.classify s).note64 = false → note64₁ s = false) := by
  have hw := (classify_balanced s hb).1.mp h0
  have he : (List.flatMap (fun x => x.1) (List.map Spec.readWord (Spec.splitWords 0 [] s))).isEmpty = true := by
    simp only [List.isEmpty_iff, List.flatMap_eq_nil_iff, List.mem_map, forall_exists_index, and_imp,
      forall_apply_eq_imp_iff₂]
    exact hw
  unfold Spec.classify note64₁
  simp only [hb, Bool.not_true, Bool.false_eq_true, ↓reduceIte, eraseDups_isEmpty, he]
  refine ⟨?_, ?_, ?_, ?_⟩
  · constructor
    · intro h n hn
      have h' : (List.flatMap (fun x => x.1) (List.map Spec.readWord
          (List.flatMap (fun x => x.2) (List.map Spec.readWord (Spec.splitWords 0 [] s))))).eraseDups.isEmpty = true := by
        rw [h]; rfl
      rw [eraseDups_isEmpty] at h'
      simp only [List.isEmpty_iff, List.flatMap_eq_nil_iff, List.mem_map, forall_exists_index, and_imp,
        forall_apply_eq_imp_iff₂] at h'
      exact h' n hn
    · intro h
      have : (List.flatMap (fun x => x.1) (List.map Spec.readWord
          (List.flatMap (fun x => x.2) (List.map Spec.readWord (Spec.splitWords 0 [] s))))) = [] := by
        simp only [List.flatMap_eq_nil_iff, List.mem_map, forall_exists_index, and_imp,
          forall_apply_eq_imp_iff₂]
        exact h
      rw [this]; rfl
  · intro h
    have h' : (List.flatMap (fun x => x.1) (List.map Spec.readWord
        (List.flatMap (fun x => x.2) (List.map Spec.readWord (Spec.splitWords 0 [] s))))).eraseDups.isEmpty = true := by
      rw [h]; rfl
    rw [eraseDups_isEmpty] at h'
    simp only [List.flatMap_map] at h' ⊢
    simp only [h', ↓reduceIte]
  · intro h n hn
    simp only [Bool.or_eq_false_iff, List.any_eq_false] at h
    simpa using h.2 n hn
  · intro h
    simp only [Bool.or_eq_false_iff] at h
    exact h.1

/-- `wcoll_expand` on ANY well-formed list that denotes the spec's first-level expansion of `s`
    (whichever way it was assembled) yields the spec's full expansion -/
theorem expand_hosts₁ (cfg : Cfg) (h15 : cfg.fixUlongMax = true) (h16 : cfg.fixDigits = true)
    (h18 : cfg.fixCurTok = true) (h22 : cfg.fixSuffixBal = true) (h23 : cfg.fixHostBuf = true)
    (s : Str) (hb : Spec.balanced 0 s = true) (h0 : (Spec.classify s).problems = [])
    (hall : ∀ t ∈ tokens hlSep s, tokOk t)
    (hp2 : (Spec.classify s).problems₂ = []) (h64 : (Spec.classify s).note64 = false)
    (h : HL) (hg : h.Good) (hsf : ∀ r ∈ h.ranges.toList, r.ShiftFits)
    (hh : h.hosts = (Spec.classify s).hosts₁) :
    ∃ h', wcollExpand cfg h = .ok h' ∧ h'.Good ∧ h'.hosts = (Spec.classify s).hosts₂ := by
  obtain ⟨l1, l2, l3, _⟩ := classify_level2 s hb h0
  have hnp := l1.mp hp2
  have hn64 := l3 h64
  have htoks := tokens_isTok s.length s (Nat.le_refl _)
  have hnames : ∀ n ∈ (Spec.classify s).hosts₁, IsTok n ∧ bracketsBalanced 0 n = true := by
    rw [(classify_balanced s hb).2 h0, splitWords_eq_tokens s hb]
    intro n hn
    obtain ⟨w, hw, hnw⟩ := List.mem_flatMap.mp hn
    exact readWord_names_tok w (htoks w hw) (hall w hw) n hnw
  have hpush : ∀ n ∈ hostsL h.ranges.toList, ∀ acc : HL, acc.Good →
      ∃ acc', hlPush cfg acc n = .ok acc' ∧ acc'.Good ∧ acc'.hosts = acc.hosts ++ (Spec.readWord n).2 := by
    intro n hn acc ha
    have hn' : n ∈ (Spec.classify s).hosts₁ := by rw [← hh]; exact hn
    obtain ⟨t1, t2⟩ := hnames n hn'
    exact hlPush_tok cfg h15 h16 h18 h22 h23 acc ha n t1
      ((tokOk_iff_spec n t2).mpr ⟨hnp n hn', hn64 n hn'⟩)
  obtain ⟨h', e1, g1, hh1⟩ := wcollExpandLoop_names cfg (fun n => (Spec.readWord n).2)
    (h.nhosts.toNat + 1) h.ranges.toList h.nhosts HL.new hg.1 hsf hg.2 HL.new_good
    (by have := hg.2; unfold HL.hosts at this; unfold hostsL; omega) hpush
  refine ⟨h', e1, g1, ?_⟩
  rw [hh1, HL.new_hosts, List.nil_append, l2 hp2]
  have : hostsL h.ranges.toList = (Spec.classify s).hosts₁ := hh
  rw [this]

theorem balanced_of_no_problem {s : Str} (h0 : (Spec.classify s).problems = []) :
    Spec.balanced 0 s = true := by
  cases hbb : Spec.balanced 0 s with
  | true => rfl
  | false =>
    have hp : (Spec.classify s).problems = [.unbalanced] := by
      unfold Spec.classify; simp [hbb]
    rw [hp] at h0; cases h0

/-- THE SECOND LEVEL, EVERY BYTE STRING (repaired variant; text of at most 10^15/16384 bytes):
    whatever text `hostlist_create` accepted — if the spec finds no problem in its first-level
    names either and no bound of a range within the limits reaches 2^64-1, `wcoll_expand` turns
    the list into one that denotes exactly the spec's full expansion `hosts₂` -/
theorem expand_text (cfg : Cfg) (h15 : cfg.fixUlongMax = true) (h16 : cfg.fixDigits = true)
    (h18 : cfg.fixCurTok = true) (h22 : cfg.fixSuffixBal = true) (h23 : cfg.fixHostBuf = true)
    (s : Str) (h : HL) (hc : create cfg s = .ok h) (hlen : MAX_RANGE * s.length ≤ 10 ^ 15)
    (hp2 : (Spec.classify s).problems₂ = []) (h64 : (Spec.classify s).note64 = false) :
    ∃ h', wcollExpand cfg h = .ok h' ∧ h'.Good ∧ h'.hosts = (Spec.classify s).hosts₂ := by
  have hcl := (create_iff_classify cfg h15 h16 h18 h22 s).mp ⟨h, hc⟩
  obtain ⟨hg, hh, _⟩ := create_hosts_classify cfg h15 h16 h18 h22 h23 s h hc
  exact expand_hosts₁ cfg h15 h16 h18 h22 h23 s (balanced_of_no_problem hcl.1) hcl.1
    ((create_ok_iff cfg h15 h16 h18 h22 s).mp ⟨h, hc⟩) hp2 h64 h hg
    (create_shiftFits cfg h15 h16 s h hc hlen) hh

/-! ### the `-w ARG` path for every argument: `list_split`, `wcoll_arg_process`, `hostlist_push`
    per comma-word, `wcoll_expand` -/
theorem tokens_dropSpace : ∀ (cw : Str), (∀ c ∈ cw, isSpace c = true → isSep hlSep c = true) →
    tokens hlSep (cw.dropWhile isSpace) = tokens hlSep cw
  | [], _ => rfl
  | c :: cs, h => by
    by_cases hsp : isSpace c = true
    · rw [List.dropWhile_cons_of_pos hsp, tokens_dropSep hlSep c cs (h c (by simp) hsp)]
      exact tokens_dropSpace cs (fun x hx => h x (by simp [hx]))
    · rw [List.dropWhile_cons_of_neg hsp]

/-- `hostlist_create` on a text all of whose tokens are accepted -/
theorem create_of_tokOk (cfg : Cfg) (h15 : cfg.fixUlongMax = true) (h16 : cfg.fixDigits = true)
    (h18 : cfg.fixCurTok = true) (h22 : cfg.fixSuffixBal = true) (h23 : cfg.fixHostBuf = true)
    (s : Str) (hall : ∀ t ∈ tokens hlSep s, tokOk t) :
    ∃ n, create cfg s = .ok n ∧ n.Good ∧ n.hosts = (tokens hlSep s).flatMap fun w => (Spec.readWord w).2 := by
  obtain ⟨st', e1, g1, hh1⟩ := createToks_spec cfg h15 h16 h18 h22 h23 (tokens hlSep s) ⟨HL.new, 0⟩
    HL.new_good hall
  refine ⟨st'.hl, by unfold create createFrom; rw [e1], g1, ?_⟩
  rw [hh1, HL.new_hosts, List.nil_append]

theorem cliPushWords_text (cfg : Cfg) (h15 : cfg.fixUlongMax = true) (h16 : cfg.fixDigits = true)
    (h18 : cfg.fixCurTok = true) (h22 : cfg.fixSuffixBal = true) (h23 : cfg.fixHostBuf = true) :
    ∀ (cws : List Str) (h : HL), h.Good →
    (∀ cw ∈ cws, plainWord cw = true ∧ tokens hlSep (cw.dropWhile isSpace) = tokens hlSep cw ∧
      ∀ t ∈ tokens hlSep cw, tokOk t) →
    ∃ h', cliPushWords cfg h cws = .ok (some h') ∧ h'.Good ∧
      h'.hosts = h.hosts ++ (cws.flatMap (tokens hlSep)).flatMap fun w => (Spec.readWord w).2
  | [], h, hg, _ => ⟨h, rfl, hg, by simp⟩
  | cw :: cws, h, hg, hall => by
    obtain ⟨hpl, hdt, htok⟩ := hall cw (by simp)
    obtain ⟨n, hc, gn, hn⟩ := create_of_tokOk cfg h15 h16 h18 h22 h23 (cw.dropWhile isSpace)
      (by rw [hdt]; exact htok)
    obtain ⟨p1, p2⟩ := pushList_hosts h n hg gn
    obtain ⟨h', e, g', hh'⟩ := cliPushWords_text cfg h15 h16 h18 h22 h23 cws (pushList h n) p1
      (fun x hx => hall x (by simp [hx]))
    refine ⟨h', ?_, g', ?_⟩
    · unfold cliPushWords
      simp only [hpl, Bool.not_true, Bool.false_eq_true, ↓reduceIte, hlPush, hc, e]
    · rw [hh', p2, hn, hdt]
      simp

/-- THE WHOLE `-w ARG` PATH, EVERY ARGUMENT (repaired variant).  `hpl`: every comma-word is a plain
    target word (no `:` `@`, not starting with `-` `^` `/` — other options' syntax); `hsp`: the only
    white space in the argument is blank / tab (what `hostlist_create` separates at).  If the
    independent reader finds no problem at either level and no bound reaches 2^64-1, the working
    collective pdsh ends up with denotes exactly the spec's full expansion `hosts₂` of the text. -/
theorem cliTargets_text (cfg : Cfg) (h15 : cfg.fixUlongMax = true) (h16 : cfg.fixDigits = true)
    (h18 : cfg.fixCurTok = true) (h22 : cfg.fixSuffixBal = true) (h23 : cfg.fixHostBuf = true)
    (arg : Str) (hpl : ∀ cw ∈ tokens [','] arg, plainWord cw = true)
    (hsp : ∀ c ∈ arg, isSpace c = true → isSep hlSep c = true)
    (hlen : MAX_RANGE * arg.length ≤ 10 ^ 15)
    (h0 : (Spec.classify arg).problems = []) (hp2 : (Spec.classify arg).problems₂ = [])
    (h64 : (Spec.classify arg).note64 = false) :
    ∃ h', cliTargets cfg arg = .ok (some h') ∧ h'.Good ∧ h'.hosts = (Spec.classify arg).hosts₂ := by
  have hb := balanced_of_no_problem h0
  obtain ⟨_, _, _, l4⟩ := classify_level2 arg hb h0
  obtain ⟨H, hc⟩ := (create_iff_classify cfg h15 h16 h18 h22 arg).mpr ⟨h0, l4 h64⟩
  have hall := (create_ok_iff cfg h15 h16 h18 h22 arg).mp ⟨H, hc⟩
  have hsplit := split_then_tokens arg
  have hchars := tokens_chars [','] arg.length arg (Nat.le_refl _)
  obtain ⟨h, e, hg, hh⟩ := cliPushWords_text cfg h15 h16 h18 h22 h23 (tokens [','] arg) HL.new HL.new_good
    (fun cw hcw => ⟨hpl cw hcw,
      tokens_dropSpace cw (fun c hc => hsp c (hchars cw hcw c hc)),
      fun t ht => hall t (by rw [← hsplit]; exact List.mem_flatMap.mpr ⟨cw, hcw, ht⟩)⟩)
  rw [hsplit, HL.new_hosts, List.nil_append] at hh
  have hh1 : h.hosts = (Spec.classify arg).hosts₁ := by
    rw [hh, (classify_balanced arg hb).2 h0, splitWords_eq_tokens arg hb]
  obtain ⟨_, hsf⟩ := cli_shiftFits cfg h15 h16 arg h e hlen
  obtain ⟨h', e', g', hh'⟩ := expand_hosts₁ cfg h15 h16 h18 h22 h23 arg hb h0 hall hp2 h64 h hg hsf hh1
  refine ⟨h', ?_, g', hh'⟩
  unfold cliTargets
  rw [e]
  simp only [e']

end PdshVerif.Hostlist
