/-
  ONE iterator watches `hostlist_delete_nth`: the shape "the record is split in two"
  (`hostlist_insert_range` re-bases the iterators behind, `hostlist_host_deleted` the ones inside).
-/
import PdshVerif.Hostlist.EditDeleteObs2

namespace PdshVerif.Hostlist
open PdshVerif.Gen

/-- `hostlist_insert_range` right behind record |A|, one iterator in any state -/
theorem insertRange_one (A B : List RObj) (o' : RObj) (nh : Int) (nx : Nat) (it : ItSt) (up : HRange) :
    insertRange ⟨A ++ o' :: B, nh, nx, [(0, it)]⟩ up (A.length + 1) =
      ⟨A ++ o' :: ⟨nx, up⟩ :: B, nh, nx + 1,
        [(0, if it.idx ≥ ((A.length + 1 : Nat) : Int) then
               { it with idx := it.idx + 1,
                         hr := EL.hrAt ⟨A ++ o' :: ⟨nx, up⟩ :: B, nh, nx + 1, [(0, it)]⟩ (it.idx + 1) }
             else it)]⟩ := by
  unfold insertRange
  have hlen : ¬ (A.length + 1 > (A ++ o' :: B).length) := by simp
  have e : A ++ o' :: B = (A ++ [o']) ++ B := by simp
  have htake : (A ++ o' :: B).take (A.length + 1) = A ++ [o'] := by
    rw [e, List.take_left' (by simp)]
  have hdrop : (A ++ o' :: B).drop (A.length + 1) = B := by
    rw [e, List.drop_left' (by simp)]
  simp only [hlen, ↓reduceIte, htake, hdrop, List.map_cons, List.map_nil, List.append_assoc,
    List.cons_append, List.nil_append]
  congr 2
  split <;> rfl

/-! ### shape P: the record is split -/
theorem obs_split (cfg : Cfg) (hID : cfg.fixIterDelete = true) (A : List RObj) (o : RObj) (B : List RObj) (nh : Int)
    (nx : Nat) (i k j : Nat) (r' up : HRange) (hj : j < o.r.hosts.length) (hl : r'.hosts.length = j)
    (hu : up.hosts.length + j + 1 = o.r.hosts.length) :
    let it : ItSt := ⟨(i : Int), (k : Int) - 1, EL.hrAt ⟨A ++ o :: B, nh, nx, []⟩ (i : Int)⟩
    let e : EL := ⟨A ++ o :: B, nh, nx, [(0, it)]⟩
    let e1 : EL := insertRange ⟨A ++ { o with r := r' } :: B, nh, nx, [(0, it)]⟩ up (A.length + 1)
    let e' : EL := delIts cfg { e1 with nhosts := e1.nhosts - 1 } A.length j true
    let n := (hostsL (A.map (·.r))).length + j
    ∃ i' k', Coh e' i' k' ∧
      offL e'.ranges i' k' = (if offL e.ranges i k > n then offL e.ranges i k - 1 else offL e.ranges i k) := by
  intro it e e1 e' n
  have hL : e.ranges = A.map (·.r) ++ o.r :: B.map (·.r) := by simp [e, EL.ranges]
  have hlenA : (A.map (·.r)).length = A.length := by simp
  have he1 := insertRange_one A B { o with r := r' } nh nx it up
  -- the array and the iterator after `hostlist_insert_range`
  obtain ⟨it1, hit1, hE1⟩ : ∃ it1 : ItSt,
      (it1 = if it.idx ≥ ((A.length + 1 : Nat) : Int) then
               { it with idx := it.idx + 1,
                         hr := EL.hrAt ⟨A ++ { o with r := r' } :: ⟨nx, up⟩ :: B, nh, nx + 1, [(0, it)]⟩ (it.idx + 1) }
             else it) ∧
      e1 = ⟨A ++ { o with r := r' } :: ⟨nx, up⟩ :: B, nh, nx + 1, [(0, it1)]⟩ := ⟨_, rfl, he1⟩
  have hL' : e'.ranges = A.map (·.r) ++ r' :: up :: B.map (·.r) := by
    show EL.ranges (delIts cfg { e1 with nhosts := e1.nhosts - 1 } _ _ _) = _
    rw [hE1]; simp [delIts, EL.ranges]
  have hcoh : ∀ (it2 : ItSt) (i2 k2 : Nat),
      delOne cfg ⟨A ++ { o with r := r' } :: ⟨nx, up⟩ :: B, nh - 1, nx + 1, [(0, it1)]⟩ A.length j true it1 = it2 →
      it2.idx = (i2 : Int) → it2.depth = (k2 : Int) - 1 →
      it2.hr = ((A ++ ({ o with r := r' } : RObj) :: (⟨nx, up⟩ : RObj) :: B)[i2]?).map (·.id) → Coh e' i2 k2 := by
    intro it2 i2 k2 h1 h2 h3 h4
    have : e' = ⟨A ++ { o with r := r' } :: ⟨nx, up⟩ :: B, nh - 1, nx + 1, [(0, it2)]⟩ := by
      show delIts cfg { e1 with nhosts := e1.nhosts - 1 } _ _ _ = _
      rw [hE1]
      unfold delIts
      simp only [List.map_cons, List.map_nil, h1]
    rw [this]
    exact coh_of _ _ _ i2 k2 it2 h2 h3 h4
  rcases Nat.lt_trichotomy i A.length with hlt | heq | hgt
  · have h1 : it1 = it := by
      rw [hit1, if_neg (by simp only [it]; omega)]
    have hd : delOne cfg ⟨A ++ { o with r := r' } :: ⟨nx, up⟩ :: B, nh - 1, nx + 1, [(0, it1)]⟩ A.length j true it1 = it := by
      rw [h1]; exact delOne_miss _ _ _ _ _ _ (by intro ⟨h, _⟩; simp only [it] at h; omega)
    refine ⟨i, k, hcoh it i k hd rfl rfl ?_, ?_⟩
    · show EL.hrAt ⟨A ++ o :: B, nh, nx, []⟩ (i : Int) = _
      rw [hrAt_app_lt A (o :: B) nh nx [] i hlt, List.getElem?_append_left hlt]
    · rw [hL', hL, offL_append_left _ _ i k (by omega), offL_append_left _ _ i k (by omega)]
      have := offL_le (A.map (·.r)) i k
      have hn : ¬ offL (A.map (·.r)) i k > n := by show ¬ _ > (hostsL (A.map (·.r))).length + j; omega
      rw [if_neg hn]
  · subst heq
    have h1 : it1 = it := by
      rw [hit1, if_neg (by simp only [it]; omega)]
    have e0 := offL_append_right (A.map (·.r)) (o.r :: B.map (·.r)) 0
    have e2 := offL_append_right (A.map (·.r)) (r' :: up :: B.map (·.r)) 0
    have e3 := offL_append_right (A.map (·.r)) (r' :: up :: B.map (·.r)) 1
    simp only [hlenA, Nat.add_zero, offL_cons_zero] at e0 e2
    rw [hlenA] at e3
    have e3' : ∀ kk, offL (A.map (·.r) ++ r' :: up :: B.map (·.r)) (A.length + 1) kk =
        (hostsL (A.map (·.r))).length + (r'.hosts.length + min kk up.hosts.length) := by
      intro kk; rw [e3 kk, show (1 : Nat) = 0 + 1 from rfl, offL_cons_succ, offL_cons_zero]
    have hhr0 : it.hr = ((A ++ ({ o with r := r' } : RObj) :: (⟨nx, up⟩ : RObj) :: B)[A.length]?).map (·.id) := by
      show EL.hrAt ⟨A ++ o :: B, nh, nx, []⟩ (A.length : Int) = _
      rw [hrAt_mid]; simp
    by_cases hkj : k ≤ j
    · have hd : delOne cfg ⟨A ++ { o with r := r' } :: ⟨nx, up⟩ :: B, nh - 1, nx + 1, [(0, it1)]⟩ A.length j true it1 = it := by
        rw [h1]; exact delOne_miss _ _ _ _ _ _ (by intro ⟨_, h⟩; simp only [it] at h; omega)
      refine ⟨A.length, k, hcoh it A.length k hd rfl rfl hhr0, ?_⟩
      rw [hL', hL, e0 k, e2 k]
      have hn : ¬ (hostsL (A.map (·.r))).length + min k o.r.hosts.length > n := by
        show ¬ _ > (hostsL (A.map (·.r))).length + j; omega
      rw [if_neg hn]; omega
    · by_cases hk1 : k = j + 1
      · have hd : delOne cfg ⟨A ++ { o with r := r' } :: ⟨nx, up⟩ :: B, nh - 1, nx + 1, [(0, it1)]⟩ A.length j true it1 =
            { it with depth := it.depth - 1 } := by
          rw [h1]
          exact delOne_back cfg hID _ _ _ _ _ rfl (by simp only [it]; omega) (Or.inr (by simp only [it]; omega))
        refine ⟨A.length, j, hcoh _ A.length j hd rfl (by simp only [it]; omega) hhr0, ?_⟩
        rw [hL', hL, e0 k, e2 j]
        have hn : (hostsL (A.map (·.r))).length + min k o.r.hosts.length > n := by
          show _ > (hostsL (A.map (·.r))).length + j; omega
        rw [if_pos hn]; omega
      · have hd : delOne cfg ⟨A ++ { o with r := r' } :: ⟨nx, up⟩ :: B, nh - 1, nx + 1, [(0, it1)]⟩ A.length j true it1 =
            ⟨it.idx + 1, it.depth - ((j : Int) + 1),
              EL.hrAt ⟨A ++ { o with r := r' } :: ⟨nx, up⟩ :: B, nh - 1, nx + 1, [(0, it1)]⟩ (it.idx + 1)⟩ := by
          rw [h1]
          exact delOne_over cfg hID _ _ _ _ rfl (by simp only [it]; omega)
        refine ⟨A.length + 1, k - j - 1, hcoh _ (A.length + 1) (k - j - 1) hd (by simp only [it]; omega)
          (by simp only [it]; omega) ?_, ?_⟩
        · simp only [it]
          rw [show ((A.length : Int) + 1) = ((A.length + 1 : Nat) : Int) from by omega, hrAt_nat]
        · rw [hL', hL, e0 k, e3' (k - j - 1)]
          have hn : (hostsL (A.map (·.r))).length + min k o.r.hosts.length > n := by
            show _ > (hostsL (A.map (·.r))).length + j; omega
          rw [if_pos hn]; omega
  · obtain ⟨m, rfl⟩ : ∃ m, i = A.length + 1 + m := ⟨i - A.length - 1, by omega⟩
    have h1 : it1 = ⟨it.idx + 1, it.depth,
        EL.hrAt ⟨A ++ { o with r := r' } :: ⟨nx, up⟩ :: B, nh, nx + 1, [(0, it)]⟩ (it.idx + 1)⟩ := by
      rw [hit1, if_pos (by simp only [it]; omega)]
    have hd : delOne cfg ⟨A ++ { o with r := r' } :: ⟨nx, up⟩ :: B, nh - 1, nx + 1, [(0, it1)]⟩ A.length j true it1 = it1 :=
      delOne_miss _ _ _ _ _ _ (by intro ⟨h, _⟩; rw [h1] at h; simp only [it] at h; omega)
    refine ⟨A.length + 1 + m + 1, k, hcoh it1 (A.length + 1 + m + 1) k hd (by rw [h1]; simp only [it]; omega)
      (by rw [h1]) ?_, ?_⟩
    · rw [h1]
      simp only [it]
      rw [show (((A.length + 1 + m : Nat) : Int) + 1) = ((A.length + 1 + m + 1 : Nat) : Int) from by omega, hrAt_nat]
    · have e0 := offL_append_right (A.map (·.r)) (o.r :: B.map (·.r)) (m + 1) k
      have e2 := offL_append_right (A.map (·.r)) (r' :: up :: B.map (·.r)) (m + 1 + 1) k
      rw [hlenA] at e0 e2
      rw [hL', hL, show A.length + 1 + m = A.length + (m + 1) from by omega,
        show A.length + (m + 1) + 1 = A.length + (m + 1 + 1) from by omega, e0, e2, offL_cons_succ, offL_cons_succ,
        offL_cons_succ]
      have hn : (hostsL (A.map (·.r))).length + (o.r.hosts.length + offL (B.map (·.r)) m k) > n := by
        show _ > (hostsL (A.map (·.r))).length + j; omega
      rw [if_pos hn]; omega

end PdshVerif.Hostlist
