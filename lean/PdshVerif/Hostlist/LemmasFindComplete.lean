/-
  `hostlist_find` is COMPLETE for names whose whole trailing digit run is a valid host suffix
  (≤ MAX_HOST_SUFFIX = 2^25): a name the list denotes is found — through zero padding, widths wider
  than the record's and prefixes that end in digits (the recursion of `hostrange_hn_within`).
  With soundness (LemmasFind) this gives the deletion laws C02 rests on.
-/
import PdshVerif.Hostlist.LemmasFind
import PdshVerif.Hostlist.LemmasUniq

namespace PdshVerif.Hostlist
open PdshVerif.Gen

theorem dval_drop_le : ∀ (s : Str) (j : Nat), dval (s.drop j) ≤ dval s
  | s, 0 => by simp
  | [], j + 1 => by simp
  | c :: cs, j + 1 => by
    simp only [List.drop_succ_cons]
    have := dval_drop_le cs j
    rw [dval_cons]; omega

/-- the whole trailing digit run of the name, read as a number, is a valid host suffix -/
def SmallName (name : Str) : Prop := dval (name.drop (hostPrefixLen name)) ≤ MAX_HOST_SUFFIX

theorem hostPrefixLen_append_digits (a b : Str) (hb : allDigits b) : hostPrefixLen (a ++ b) ≤ a.length := by
  unfold hostPrefixLen
  rw [List.reverse_append]
  have : ((b.reverse ++ a.reverse).takeWhile isDigit) = b.reverse ++ a.reverse.takeWhile isDigit :=
    List.takeWhile_append_of_pos (by intro c hc; exact hb c (List.mem_reverse.mp hc))
  rw [this]
  simp only [List.length_append, List.length_reverse]
  omega

/-- cutting a small name anywhere inside its trailing digit run gives a hostname with a suffix -/
theorem hostnameCreateAt_small (name : Str) (p : Nat) (hp : hostPrefixLen name ≤ p) (hlt : p < name.length)
    (hs : SmallName name) :
    ∃ e, hostnameCreateAt name p = ⟨name.take p, dval (name.drop p), some (name.drop p), e⟩ := by
  obtain ⟨hle, hdig, hlen⟩ := hostPrefix_split name
  have hd : allDigits (name.drop p) := by
    intro c hcm
    have : name.drop p = (name.drop (hostPrefixLen name)).drop (p - hostPrefixLen name) := by
      rw [List.drop_drop]; congr 1; omega
    rw [this] at hcm
    exact hdig c (List.mem_of_mem_drop hcm)
  have hnn : name.drop p ≠ [] := by
    intro h0
    have : name.length ≤ p := List.drop_eq_nil_iff.mp h0
    omega
  have hv : dval (name.drop p) ≤ MAX_HOST_SUFFIX := by
    have : name.drop p = (name.drop (hostPrefixLen name)).drop (p - hostPrefixLen name) := by
      rw [List.drop_drop]; congr 1; omega
    rw [this]
    exact Nat.le_trans (dval_drop_le _ _) hs
  have hmx : MAX_HOST_SUFFIX < ULONG_MAX := by decide
  have hst := strtoul_digits hd hnn (by omega)
  unfold hostnameCreateAt
  have hne : p ≠ name.length := by omega
  simp only [hne, ↓reduceIte, hst, List.isEmpty_nil, Bool.true_and, decide_eq_true_eq, hv]
  exact ⟨_, rfl⟩

/-- `_width_equiv` accepts the width a number of the record is printed with -/
theorem widthEquiv_fmt (lo w k : Nat) : (widthEquiv lo w k (max w (ndig k))).1 = true := by
  by_cases h : ndig k ≤ w
  · rw [Nat.max_eq_left h, widthEquiv_same]
  · have hm : max w (ndig k) = ndig k := Nat.max_eq_right (by omega)
    rw [hm]
    unfold widthEquiv
    have h1 : zeroPadded k (ndig k) = 0 := by simp [zeroPadded]
    have h2 : zeroPadded k w = 0 := by
      unfold zeroPadded
      have : ¬ w > ndig k := by omega
      simp [this]
    simp only [h1, h2, bne_self_eq_false, Bool.and_false, Bool.false_eq_true, ↓reduceIte, beq_self_eq_true]
    split <;> rfl

theorem lastIsDigit_of (s : Str) (hne : s ≠ []) (h : isDigit (s.getLast hne) = true) : lastIsDigit s = true := by
  unfold lastIsDigit
  rw [List.getLast?_eq_some_getLast hne]
  exact h

/-- COMPLETENESS of `hostrange_hn_within` on the record that denotes the name -/
theorem hnWithin_complete (r : HRange) (hg : r.Good) (hs : r.single = false) (k : Nat) (hlo : r.lo ≤ k)
    (hhi : k ≤ r.hi) (name : Str) (hname : name = r.pre ++ fmtPad r.width k) (hsm : SmallName name) :
    ∀ (n p : Nat), p + n = r.pre.length → hostPrefixLen name ≤ p → ∀ fuel, n < fuel →
      ∃ off r', hnWithin fuel r name (hostnameCreateAt name p) = (some off, r') := by
  have hfl : (fmtPad r.width k).length = max r.width (ndig k) := fmtPad_length _ _
  have hfpos : 0 < (fmtPad r.width k).length := by rw [hfl]; have := ndig_pos k; omega
  have hnl : name.length = r.pre.length + (fmtPad r.width k).length := by rw [hname]; simp
  intro n
  induction n with
  | zero =>
    intro p hp hpl fuel hf
    obtain ⟨f, rfl⟩ : ∃ f, fuel = f + 1 := ⟨fuel - 1, by omega⟩
    have hpe : p = r.pre.length := by omega
    obtain ⟨e, hc⟩ := hostnameCreateAt_small name p hpl (by omega) hsm
    have htake : name.take p = r.pre := by rw [hname, hpe]; simp
    have hdrop : name.drop p = fmtPad r.width k := by rw [hname, hpe]; simp
    unfold hnWithin
    rw [hc]
    simp only [hs, Bool.false_eq_true, ↓reduceIte, htake, hdrop, List.take_length, ne_eq, not_true_eq_false,
      dval_fmtPad]
    have hrec : hnRecurse r ⟨r.pre, k, some (fmtPad r.width k), e⟩ (fmtPad r.width k) = false := by
      simp [hnRecurse]
    have hmatch : hnMatch r ⟨r.pre, k, some (fmtPad r.width k), e⟩ = true := by
      simp [hnMatch, hlo, hhi]
    simp only [hrec, Bool.false_eq_true, ↓reduceIte, hmatch]
    have hw := widthEquiv_fmt r.lo r.width k
    rw [hfl]
    generalize widthEquiv r.lo r.width k (max r.width (ndig k)) = w at hw
    obtain ⟨ok, wn, wm⟩ := w
    simp only at hw
    subst hw
    exact ⟨_, _, rfl⟩
  | succ n ih =>
    intro p hp hpl fuel hf
    obtain ⟨f, rfl⟩ : ∃ f, fuel = f + 1 := ⟨fuel - 1, by omega⟩
    have hplt : p < r.pre.length := by omega
    obtain ⟨e, hc⟩ := hostnameCreateAt_small name p hpl (by omega) hsm
    have htake : name.take p = r.pre.take p := by
      rw [hname, List.take_append_of_le_length (by omega)]
    have htl : (name.take p).length = p := by rw [List.length_take]; omega
    have hdl : (name.drop p).length = name.length - p := List.length_drop
    -- the record's prefix ends in a digit: its last character lies in the name's trailing digit run
    have hpne : r.pre ≠ [] := by intro h0; rw [h0] at hplt; simp at hplt
    have hlast : lastIsDigit r.pre = true := by
      apply lastIsDigit_of r.pre hpne
      obtain ⟨_, hdig, _⟩ := hostPrefix_split name
      apply hdig
      have hidx : r.pre.length - 1 < name.length := by omega
      have hget : r.pre.getLast hpne = name[r.pre.length - 1]'hidx := by
        rw [List.getLast_eq_getElem]
        simp only [hname]
        rw [List.getElem_append_left (by omega)]
      rw [hget]
      have : name[r.pre.length - 1]'hidx = (name.drop (hostPrefixLen name))[r.pre.length - 1 - hostPrefixLen name]'(by
          rw [List.length_drop]; omega) := by
        rw [List.getElem_drop]; congr 1; omega
      rw [this]
      exact List.getElem_mem _
    have hhead : r.pre[p]? = (name.drop p).head? := by
      rw [List.head?_drop, hname, List.getElem?_append_left hplt]
    unfold hnWithin
    rw [hc]
    simp only [hs, Bool.false_eq_true, ↓reduceIte, htl, htake, ne_eq, not_true_eq_false]
    have hrec : hnRecurse r ⟨r.pre.take p, dval (name.drop p), some (name.drop p), e⟩ (name.drop p) = true := by
      simp only [hnRecurse, List.length_take, Bool.and_eq_true, decide_eq_true_eq, hlast, and_true]
      refine ⟨⟨by omega, by rw [hdl]; omega⟩, ?_⟩
      have : min p r.pre.length = p := by omega
      rw [this]; exact hhead
    simp only [hrec, ↓reduceIte, List.length_take]
    have : min p r.pre.length = p := by omega
    rw [this]
    simp only [eq_self, not_true_eq_false, ↓reduceIte]
    exact ih (p + 1) (by omega) (by omega) f (by omega)

/-- a failed search means the record does not denote the name -/
theorem hnWithin_none_not_mem (r : HRange) (hg : r.Good) (name : Str) (hsm : SmallName name) (r1 : HRange)
    (h : hnWithin (name.length + 1) r name (hostnameCreate name) = (none, r1)) : name ∉ r.hosts := by
  intro hmem
  cases hs : r.single with
  | true =>
    have : r.hosts = [r.pre] := by simp [HRange.hosts, hs]
    rw [this] at hmem
    simp only [List.mem_singleton] at hmem
    unfold hnWithin at h
    simp [hs, hmem] at h
  | false =>
    obtain ⟨k, hlo, hhi, _, hname⟩ := (mem_hosts_range hs name).mp hmem
    have hpl : hostPrefixLen name ≤ r.pre.length := by
      rw [hname]; exact hostPrefixLen_append_digits _ _ (fmtPad_allDigits _ _)
    have hnl : r.pre.length ≤ name.length := by rw [hname]; simp
    obtain ⟨off, r', hw⟩ := hnWithin_complete r hg hs k hlo hhi name hname hsm
      (r.pre.length - hostPrefixLen name) (hostPrefixLen name) (by omega) (Nat.le_refl _) (name.length + 1) (by omega)
    rw [← hostnameCreate_eq_at] at hw
    rw [hw] at h
    simp at h

/-- COMPLETENESS of `hostlist_find` on the record list -/
theorem findLoop_none_not_mem (name : Str) (hsm : SmallName name) : ∀ (rs : List HRange) (count : Nat) (rs' : List HRange),
    (∀ r ∈ rs, r.Good) → findLoop name (hostnameCreate name) rs count = (none, rs') → name ∉ hostsL rs
  | [], _, _, _, _ => by simp [hostsL]
  | r :: rest, count, rs', hg, h => by
    unfold findLoop at h
    generalize hw : hnWithin (name.length + 1) r name (hostnameCreate name) = w at h
    obtain ⟨res, r1⟩ := w
    cases res with
    | some off => simp at h
    | none =>
      simp only at h
      generalize hrec : findLoop name (hostnameCreate name) rest (count + r.count) = rec at h
      obtain ⟨res2, rs2⟩ := rec
      simp only [Prod.mk.injEq] at h
      obtain ⟨rfl, _⟩ := h
      have h1 := hnWithin_none_not_mem r (hg r (by simp)) name hsm r1 hw
      have h2 := findLoop_none_not_mem name hsm rest _ rs2 (fun x hx => hg x (by simp [hx])) hrec
      simp only [hostsL, List.flatMap_cons, List.mem_append, not_or]
      exact ⟨h1, h2⟩

theorem findLoop_length (name : Str) (hn : Hostname) : ∀ (rs : List HRange) (count : Nat),
    (findLoop name hn rs count).2.length = rs.length
  | [], _ => rfl
  | r :: rest, count => by
    unfold findLoop
    generalize hnWithin (name.length + 1) r name hn = w
    obtain ⟨res, r1⟩ := w
    cases res with
    | some off => simp
    | none =>
      simp only
      have := findLoop_length name hn rest (count + r.count)
      generalize findLoop name hn rest (count + r.count) = rec at this
      obtain ⟨res2, rs2⟩ := rec
      simpa using this

end PdshVerif.Hostlist
