/-
  C16 `edit_refines`: `hostlist_uniq` with the iterator live — the list afterwards is an admissible
  result of duplicate removal for the plain list, and the iterator starts over.
-/
import PdshVerif.Hostlist.EditRefine
import PdshVerif.Hostlist.LemmasUniqCount

namespace PdshVerif.Hostlist
open PdshVerif.Gen

/-- the iterators of the list keep their slots through the loop of `hostlist_uniq` -/
theorem deleteRange_keys (cfg : Cfg) (e : EL) (n : Nat) : (deleteRange cfg e n).its.map (·.1) = e.its.map (·.1) := by
  unfold deleteRange
  simp only
  split
  · simp only [shiftIterators, List.map_map]
    apply List.map_congr_left
    intro p _
    obtain ⟨k, it⟩ := p
    simp only [Function.comp]
    split
    · split <;> rfl
    · split
      · split <;> rfl
      · rfl
  · simp only [List.map_map]
    apply List.map_congr_left
    intro p _
    obtain ⟨k, it⟩ := p
    simp only [Function.comp]
    split
    · rfl
    · split
      · split <;> rfl
      · rfl

theorem uniqLoop_keys (cfg : Cfg) : ∀ (fuel : Nat) (e : EL) (i : Nat) (e' : EL),
    uniqLoop cfg fuel e i = some e' → e'.its.map (·.1) = e.its.map (·.1)
  | 0, e, _, e', h => by
    simp only [uniqLoop, Option.some.injEq] at h; rw [← h]
  | fuel + 1, e, i, e', h => by
    unfold uniqLoop at h
    split at h
    · split at h
      · simp only [Option.some.injEq] at h; rw [← h]
      · split at h
        · simp at h
        · split at h
          · have := uniqLoop_keys cfg fuel _ _ e' h
            rw [this]
            show (deleteRange cfg _ _).its.map (·.1) = _
            rw [deleteRange_keys]
            rfl
          · have := uniqLoop_keys cfg fuel _ _ e' h
            rw [this]
            rfl
    · simp only [Option.some.injEq] at h; rw [← h]

/-- `hostlist_uniq` as a whole: the record list stays good, the counter right, the identities
    distinct -/
theorem uniqE_keep (cfg : Cfg) (e e' : EL) (hg : e.Good) (hid : e.IdsOk)
    (hb : cfg.fixCmpTrunc = true ∨ ∀ r ∈ e.ranges, r.lo < 2147483648) (hsm : e.hosts.length < 2147483648)
    (h : uniqE cfg e = some e') : e'.Good ∧ e'.IdsOk := by
  unfold uniqE at h
  by_cases hlen : e.rs.length ≤ 1 ∧ cfg.fixUniqReset = false
  · simp only [hlen, and_self, ↓reduceIte, Option.some.injEq] at h
    rw [← h]; exact ⟨hg, hid⟩
  · simp only [hlen, ↓reduceIte] at h
    cases hl : uniqLoop cfg (2 * e.rs.length + 2) { e with rs := sortRanges cfg e.rs } 1 with
    | none => simp [hl] at h
    | some e1 =>
      simp only [hl, Option.some.injEq] at h
      have hperm : (sortRanges cfg e.rs).Perm e.rs := sortRanges_perm cfg e.rs
      have hpr : (EL.ranges { e with rs := sortRanges cfg e.rs }).Perm e.ranges := hperm.map _
      have hph : (EL.hosts { e with rs := sortRanges cfg e.rs }).Perm e.hosts := by
        show (List.flatMap HRange.hosts _).Perm (List.flatMap HRange.hosts _)
        exact hpr.flatMap_right _
      have hk0 : UniqKeep cfg { e with rs := sortRanges cfg e.rs } := by
        refine ⟨⟨fun r hr => hg.1 r (hpr.mem_iff.mp hr), ?_, fun x => Iff.rfl⟩, ?_, ?_, ?_⟩
        · rcases hb with hf | hb
          · exact Or.inl hf
          · exact Or.inr fun r hr => hb r (hpr.mem_iff.mp hr)
        · show e.nhosts = _
          rw [hph.length_eq]; exact hg.2
        · rw [hph.length_eq]; exact hsm
        · refine ⟨(hperm.map _).nodup_iff.mpr hid.1, ?_⟩
          intro o ho
          exact hid.2 o (hperm.mem_iff.mp ho)
      obtain ⟨⟨hg1, _, _⟩, hc1, _, hid1⟩ := uniqLoop_keep cfg _ _ 1 e1 hk0 hl
      rw [← h]
      exact ⟨⟨hg1, hc1⟩, hid1⟩

/-- UNIQ with the iterator live -/
theorem uniq_refines (cfg : Cfg) (hfs : cfg.fixIterSuffix = true) (e : EL) (p : EditSpec.PL) (c : Nat) (fresh : Bool)
    (h : Ref cfg e p c fresh)
    (hb : cfg.fixCmpTrunc = true ∨ ∀ r ∈ e.ranges, r.lo < 2147483648) (hsm : e.hosts.length < 2147483648)
    (hreset : cfg.fixUniqReset = true ∨ 2 ≤ e.rs.length)
    (e' : EL) (hu : uniqE cfg e = some e') (hnd : e'.hosts.Nodup) :
    EditSpec.uniq p e'.hosts = some ⟨e'.hosts, [(0, 0)]⟩ ∧ Ref cfg e' ⟨e'.hosts, [(0, 0)]⟩ 0 false := by
  obtain ⟨hmem, _⟩ := uniqE_names cfg e e' h.good.1 hb hu
  obtain ⟨hg', hid'⟩ := uniqE_keep cfg e e' h.good h.ids hb hsm hu
  refine ⟨?_, ?_⟩
  · unfold EditSpec.uniq
    have hok : EditSpec.uniqOk p e'.hosts = true := by
      unfold EditSpec.uniqOk
      simp only [Bool.and_eq_true, decide_eq_true_eq, List.all_eq_true]
      refine ⟨⟨hnd, fun x hx => ?_⟩, fun x hx => ?_⟩
      · rw [← h.hosts]; exact (hmem x).mp hx
      · rw [← h.hosts] at hx; exact (hmem x).mpr hx
    rw [hok, h.cur]
    simp
  · -- the iterator was reset
    obtain ⟨i, k, hc, _, _⟩ := h.pos
    have hits : e'.its = [(0, e'.resetIt)] := by
      unfold uniqE at hu
      have hlen : ¬ (e.rs.length ≤ 1 ∧ cfg.fixUniqReset = false) := by
        rintro ⟨h1, h2⟩
        rcases hreset with h3 | h3
        · rw [h3] at h2; simp at h2
        · omega
      simp only [hlen, ↓reduceIte] at hu
      cases hl : uniqLoop cfg (2 * e.rs.length + 2) { e with rs := sortRanges cfg e.rs } 1 with
      | none => simp [hl] at hu
      | some e1 =>
        simp only [hl, Option.some.injEq] at hu
        have hkeys := uniqLoop_keys cfg _ _ 1 e1 hl
        have hk1 : e1.its.map (·.1) = [0] := by
          rw [hkeys]; show e.its.map (·.1) = _; rw [hc]; rfl
        rw [← hu]
        cases hi1 : e1.its with
        | nil => rw [hi1] at hk1; simp at hk1
        | cons q qs =>
          rw [hi1] at hk1
          simp only [List.map_cons, List.cons.injEq, List.map_eq_nil_iff] at hk1
          obtain ⟨hq, hqs⟩ := hk1
          subst hqs
          obtain ⟨k0, it0⟩ := q
          simp only at hq
          subst hq
          rfl
    refine ⟨hid', hg', fun _ _ => Or.inl hfs, rfl, rfl, Nat.zero_le _, 0, 0, ?_, ?_, by intro hf; simp at hf⟩
    · unfold Coh
      rw [hits]
      rfl
    · show remaining e'.ranges 0 0 = _
      rw [remaining_zero]
      rfl

end PdshVerif.Hostlist
