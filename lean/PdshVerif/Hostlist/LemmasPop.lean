/-
  `hostlist_pop` on the editable list (C16): the last denoted host leaves, the rest stays.
-/
import PdshVerif.Hostlist.LemmasDelete

namespace PdshVerif.Hostlist
open PdshVerif.Gen

/-- one `hostrange_pop` + `hostrange_empty` on a good record -/
theorem hostrangePop_spec {r : HRange} (hg : r.Good) (hf : r.ShiftFits) :
    ∃ x r', hostrangePop r = (some x, r') ∧
      ((r'.empty = true ∧ r.hosts = [x]) ∨
       (r'.empty = false ∧ r'.Good ∧ r'.ShiftFits ∧ r.hosts = r'.hosts ++ [x])) := by
  have hu : ULONG_MAX + 1 = U64 := by decide
  have hum : ULONG_MAX = 18446744073709551615 := rfl
  cases hs : r.single with
  | true =>
    obtain ⟨h1, h2⟩ := hg.1 hs
    refine ⟨r.pre, { r with lo := addU64 r.lo 1 }, by simp [hostrangePop, hs], Or.inl ⟨?_, by simp [HRange.hosts, hs]⟩⟩
    simp [HRange.empty, h1, h2, addU64, U64]
  | false =>
    obtain ⟨h1, h2⟩ := hg.2 hs
    have hfit := hf hs
    have hcount : r.count > 0 := by
      rw [hg.count_eq]; exact hg.hosts_pos
    have htake : (r.pre ++ fmtPad r.width r.hi).take (r.pre.length + r.width + 15) = r.pre ++ fmtPad r.width r.hi := by
      apply List.take_of_length_le
      simp only [List.length_append, fmtPad_length]
      omega
    refine ⟨r.pre ++ fmtPad r.width r.hi, { r with hi := subU64 r.hi 1 }, ?_, ?_⟩
    · simp [hostrangePop, hs, hcount, htake]
    · have hh : r.hosts = (List.range' r.lo (r.hi + 1 - r.lo)).map fun k => r.pre ++ fmtPad r.width k := by
        simp [HRange.hosts, hs]
      by_cases heq : r.hi = r.lo
      · left
        constructor
        · by_cases h0 : r.lo = 0
          · simp [HRange.empty, heq, h0, subU64, U64, hum]
          · have : subU64 r.lo 1 = r.lo - 1 := by
              unfold subU64
              rw [show r.lo + U64 - 1 = (r.lo - 1) + U64 by omega, Nat.add_mod_right]
              exact Nat.mod_eq_of_lt (by omega)
            simp only [HRange.empty, heq, this, Bool.or_eq_true, decide_eq_true_eq]
            left; omega
        · rw [hh, heq]; simp
      · right
        have hlt : r.lo < r.hi := by omega
        have hsub : subU64 r.hi 1 = r.hi - 1 := by
          unfold subU64
          rw [show r.hi + U64 - 1 = (r.hi - 1) + U64 by omega, Nat.add_mod_right]
          exact Nat.mod_eq_of_lt (by omega)
        rw [hsub]
        refine ⟨?_, ?_, ?_, ?_⟩
        · simp only [HRange.empty, Bool.or_eq_false_iff, decide_eq_false_iff_not]
          constructor <;> omega
        · exact ⟨fun h => by simp [hs] at h, fun _ => ⟨by simp only; omega, by simp only; omega⟩⟩
        · intro _
          have := ndig_mono (show r.hi - 1 ≤ r.hi by omega)
          simp only
          omega
        · rw [hh]
          have : r.hi + 1 - r.lo = (r.hi - 1 + 1 - r.lo) + 1 := by omega
          rw [this, List.range'_1_concat]
          have hlast : r.lo + (r.hi - 1 + 1 - r.lo) = r.hi := by omega
          simp [HRange.hosts, hs, hlast]

theorem hostsL_append (a b : List HRange) : hostsL (a ++ b) = hostsL a ++ hostsL b := by
  simp [hostsL]

/-- POP: `hostlist_pop` hands out the last denoted host and leaves the rest, with any number of live
    iterators, in every variant (D20 is about what the ITERATORS see afterwards, not the list) -/
theorem popE_hosts (cfg : Cfg) (e : EL) (hg : e.Good) (hf : ∀ r ∈ e.ranges, r.ShiftFits) :
    ∃ e', popE cfg e = .ok (e.hosts.getLast?, e') ∧ e'.hosts = e.hosts.dropLast ∧ e'.Good ∧
      ∀ r ∈ e'.ranges, r.ShiftFits := by
  unfold popE
  have hhosts : e.hosts = hostsL e.ranges := rfl
  cases hl : e.rs.getLast? with
  | none =>
    have hnil : e.rs = [] := List.getLast?_eq_none_iff.mp hl
    have h0 : e.nhosts = 0 := by
      have := hg.2; simpa [EL.hosts, EL.ranges, hnil] using this
    refine ⟨e, ?_, ?_, hg, hf⟩
    · simp [h0, EL.hosts, EL.ranges, hnil]
    · simp [EL.hosts, EL.ranges, hnil]
  | some o =>
    have hne : e.rs ≠ [] := by intro h; simp [h] at hl
    have hgl : e.rs.getLast hne = o := by
      rw [List.getLast?_eq_some_getLast hne] at hl; exact Option.some.inj hl
    have hsplit : e.rs = e.rs.dropLast ++ [o] := by
      have := List.dropLast_concat_getLast hne
      rw [hgl] at this; exact this.symm
    have hranges : e.ranges = (e.rs.dropLast.map (·.r)) ++ [o.r] := by
      unfold EL.ranges; rw [hsplit]; simp
    have hog : o.r.Good := hg.1 o.r (by rw [hranges]; simp)
    have hof : o.r.ShiftFits := hf o.r (by rw [hranges]; simp)
    have hAg : ∀ r ∈ e.rs.dropLast.map (·.r), r.Good := fun r hr => hg.1 r (by rw [hranges]; exact List.mem_append_left _ hr)
    have hAf : ∀ r ∈ e.rs.dropLast.map (·.r), r.ShiftFits := fun r hr => hf r (by rw [hranges]; exact List.mem_append_left _ hr)
    obtain ⟨x, r', hp, hcase⟩ := hostrangePop_spec hog hof
    have hhosts' : e.hosts = hostsL (e.rs.dropLast.map (·.r)) ++ o.r.hosts := by
      rw [hhosts, hranges, hostsL_append]; simp [hostsL]
    have hpos : e.nhosts > 0 := by
      have := hog.hosts_pos
      have h2 := hg.2
      rw [hhosts'] at h2
      simp only [List.length_append] at h2
      omega
    simp only [hpos, ↓reduceIte, hp]
    rcases hcase with ⟨hemp, hx⟩ | ⟨hemp, hg', hf', hx⟩
    · simp only [hemp, ↓reduceIte]
      have hlast : e.hosts.getLast? = some x := by rw [hhosts', hx]; simp
      have hdrop : e.hosts.dropLast = hostsL (e.rs.dropLast.map (·.r)) := by rw [hhosts', hx]; simp
      have hlen : (e.nhosts - 1 : Int) = (hostsL (e.rs.dropLast.map (·.r))).length := by
        have h2 := hg.2
        rw [hhosts', hx] at h2
        simp only [List.length_append, List.length_singleton] at h2
        omega
      by_cases hfix : cfg.fixPopIter = true
      · simp only [hfix, ↓reduceIte]
        have hd := deleteRange_ranges cfg { e with rs := e.rs.dropLast ++ [{ o with r := r' }], nhosts := e.nhosts - 1 }
          (e.rs.length - 1)
        have hr : (deleteRange cfg { e with rs := e.rs.dropLast ++ [{ o with r := r' }], nhosts := e.nhosts - 1 }
            (e.rs.length - 1)).ranges = e.rs.dropLast.map (·.r) := by
          rw [hd.1]
          simp only [EL.ranges, List.map_append, List.map_cons, List.map_nil]
          have : e.rs.length - 1 = (e.rs.dropLast.map (·.r)).length := by simp
          rw [this, eraseIdx_mid]; simp
        refine ⟨_, by rw [hlast], ?_, ⟨?_, ?_⟩, ?_⟩
        · rw [hdrop]; show hostsL (deleteRange _ _ _).ranges = _; rw [hr]
        · rw [hr]; exact hAg
        · rw [hd.2]; show _ = ((hostsL (deleteRange _ _ _).ranges).length : Int); rw [hr]; exact hlen
        · rw [hr]; exact hAf
      · simp only [hfix, Bool.false_eq_true, ↓reduceIte]
        refine ⟨_, by rw [hlast], ?_, ⟨?_, ?_⟩, ?_⟩
        · rw [hdrop]; rfl
        · exact hAg
        · exact hlen
        · exact hAf
    · simp only [hemp, Bool.false_eq_true, ↓reduceIte]
      have hlast : e.hosts.getLast? = some x := by rw [hhosts', hx]; simp
      have hdrop : e.hosts.dropLast = hostsL (e.rs.dropLast.map (·.r)) ++ r'.hosts := by
        rw [hhosts', hx, ← List.append_assoc, List.dropLast_concat]
      refine ⟨_, by rw [hlast], ?_, ⟨?_, ?_⟩, ?_⟩
      · rw [hdrop]; simp [EL.hosts, EL.ranges, hostsL]
      · intro q hq
        simp only [EL.ranges, List.map_append, List.map_cons, List.map_nil, List.mem_append, List.mem_singleton] at hq
        rcases hq with hq | rfl
        · exact hAg q hq
        · exact hg'
      · have h2 := hg.2
        rw [hhosts', hx] at h2
        simp only [List.length_append, List.length_singleton] at h2
        simp only [EL.hosts, EL.ranges, List.map_append, List.map_cons, List.map_nil, List.flatMap_append,
          List.flatMap_cons, List.flatMap_nil, List.append_nil, List.length_append]
        simp only [hostsL] at h2
        omega
      · intro q hq
        simp only [EL.ranges, List.map_append, List.map_cons, List.map_nil, List.mem_append, List.mem_singleton] at hq
        rcases hq with hq | rfl
        · exact hAf q hq
        · exact hf'

/-- `while ((hostname = hostlist_pop(hltmp)))` hands out the denoted hosts, last first -/
theorem popAll_spec (cfg : Cfg) : ∀ (f : Nat) (t : EL), t.Good → (∀ r ∈ t.ranges, r.ShiftFits) → t.hosts.length < f →
    popAll cfg f t = .ok t.hosts.reverse
  | 0, _, _, _, h => by omega
  | f + 1, t, hg, hf, hlen => by
    obtain ⟨t', hp, hh, hg', hf'⟩ := popE_hosts cfg t hg hf
    unfold popAll
    rw [hp]
    cases hl : t.hosts.getLast? with
    | none =>
      have : t.hosts = [] := List.getLast?_eq_none_iff.mp hl
      simp [this]
    | some x =>
      simp only
      have hne : t.hosts ≠ [] := by intro h0; simp [h0] at hl
      have hsplit : t.hosts = t.hosts.dropLast ++ [x] := by
        have := List.dropLast_concat_getLast hne
        rw [List.getLast?_eq_some_getLast hne] at hl
        rw [Option.some.inj hl] at this
        exact this.symm
      have hlen' : t'.hosts.length < f := by
        have hpos := List.length_pos_iff.mpr hne
        rw [hh, List.length_dropLast]; omega
      rw [popAll_spec cfg f t' hg' hf' hlen']
      simp only
      rw [hh]
      conv => rhs; rw [hsplit]
      simp

end PdshVerif.Hostlist
