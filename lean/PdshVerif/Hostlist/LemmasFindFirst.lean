/-
  `hostlist_find` returns the FIRST position of the name (C16 `find_eq_idxOf`): soundness +
  completeness (small names) + the names of one record are pairwise different.
-/
import PdshVerif.Hostlist.LemmasFindComplete

namespace PdshVerif.Hostlist
open PdshVerif.Gen

theorem idxOf_of_first : ∀ (l : List Str) (i : Nat) (x : Str), l[i]? = some x → (∀ j, j < i → l[j]? ≠ some x) →
    l.idxOf x = i
  | [], _, _, h, _ => by simp at h
  | a :: l, 0, x, h, _ => by
    simp only [List.getElem?_cons_zero, Option.some.injEq] at h
    simp [h, List.idxOf_cons]
  | a :: l, i + 1, x, h, hf => by
    simp only [List.getElem?_cons_succ] at h
    have hne : a ≠ x := by
      intro heq
      exact hf 0 (by omega) (by simp [heq])
    have ih := idxOf_of_first l i x h (fun j hj => by
      have := hf (j + 1) (by omega)
      simpa using this)
    rw [List.idxOf_cons]
    have : (a == x) = false := by simpa using hne
    simp [this, ih]

/-- the names of one record are pairwise different -/
theorem hosts_inj {r : HRange} (hg : r.Good) {j k : Nat} (hj : j < r.hosts.length) (hk : k < r.hosts.length)
    (h : r.hosts[j] = r.hosts[k]) : j = k := by
  have hl := hg.hosts_length
  cases hs : r.single with
  | true =>
    simp only [hs, ↓reduceIte] at hl
    omega
  | false =>
    have hh : r.hosts = (List.range' r.lo (r.hi + 1 - r.lo)).map fun n => r.pre ++ fmtPad r.width n := by
      simp [HRange.hosts, hs]
    simp only [hh, List.getElem_map, List.getElem_range', Nat.one_mul] at h
    have h2 := List.append_cancel_left h
    have := congrArg dval h2
    rw [dval_fmtPad, dval_fmtPad] at this
    omega

/-- nothing before the reported position carries the name -/
theorem findLoop_first (name : Str) (hsm : SmallName name) : ∀ (rs : List HRange) (count i : Nat) (rs' : List HRange),
    (∀ r ∈ rs, r.Good) → findLoop name (hostnameCreate name) rs count = (some i, rs') →
    ∀ j, j < i - count → (hostsL rs)[j]? ≠ some name
  | [], _, _, _, _, h => by simp [findLoop] at h
  | r :: rest, count, i, rs', hg, h => by
    have hgr := hg r (by simp)
    have hgrest : ∀ x ∈ rest, x.Good := fun x hx => hg x (by simp [hx])
    unfold findLoop at h
    generalize hw : hnWithin (name.length + 1) r name (hostnameCreate name) = w at h
    obtain ⟨res, r1⟩ := w
    cases res with
    | some off =>
      simp only [Prod.mk.injEq, Option.some.injEq] at h
      obtain ⟨rfl, _⟩ := h
      obtain ⟨hk, hget, _, _⟩ := hnWithin_sound _ r name _ off r1 hgr (hostnameCreate_hnOf name)
        (by rw [hostnameCreate_eq_at]
            exact hostnameCreateAt_pre_len name _ (Nat.le_refl _) (hostPrefix_split name).1) hw
      intro j hj hjn
      have hj' : j < off := by omega
      have hjl : j < r.hosts.length := by omega
      simp only [hostsL, List.flatMap_cons] at hjn
      rw [List.getElem?_append_left hjl] at hjn
      have e1 : r.hosts[j] = name := by
        rw [List.getElem?_eq_getElem hjl] at hjn; exact Option.some.inj hjn
      have e2 : r.hosts[off] = name := by
        rw [List.getElem?_eq_getElem hk] at hget; exact Option.some.inj hget
      have := hosts_inj hgr hjl hk (by rw [e1, e2])
      omega
    | none =>
      simp only at h
      generalize hrec : findLoop name (hostnameCreate name) rest (count + r.count) = rec at h
      obtain ⟨res2, rs2⟩ := rec
      simp only [Prod.mk.injEq] at h
      obtain ⟨rfl, _⟩ := h
      have hnot := hnWithin_none_not_mem r hgr name hsm r1 hw
      have ih := findLoop_first name hsm rest (count + r.count) i rs2 hgrest hrec
      have hcnt := hgr.count_eq
      intro j hj hjn
      simp only [hostsL, List.flatMap_cons] at hjn
      by_cases hjl : j < r.hosts.length
      · rw [List.getElem?_append_left hjl] at hjn
        apply hnot
        rw [List.getElem?_eq_getElem hjl] at hjn
        rw [← Option.some.inj hjn]
        exact List.getElem_mem _
      · rw [List.getElem?_append_right (by omega)] at hjn
        exact ih (j - r.hosts.length) (by omega) hjn

/-- FIND = FIRST POSITION: on good records and for a small name, `hostlist_find` answers the first
    index at which the denoted list holds exactly that name, or -1 when it is not there -/
theorem findRanges_eq_idxOf (rs : List HRange) (name : Str) (hg : ∀ r ∈ rs, r.Good) (hsm : SmallName name) :
    (findRanges rs name).1 = if name ∈ hostsL rs then some ((hostsL rs).idxOf name) else none := by
  generalize hf : findRanges rs name = fr
  obtain ⟨res, rs'⟩ := fr
  simp only
  unfold findRanges at hf
  cases res with
  | none =>
    have := findLoop_none_not_mem name hsm rs 0 rs' hg hf
    simp [this]
  | some i =>
    obtain ⟨_, hget, _, _⟩ := findLoop_sound name (hostnameCreate name) (hostnameCreate_hnOf name)
      (by rw [hostnameCreate_eq_at]
          exact hostnameCreateAt_pre_len name _ (Nat.le_refl _) (hostPrefix_split name).1)
      rs 0 i rs' hg hf
    simp only [Nat.sub_zero] at hget
    have hfirst := findLoop_first name hsm rs 0 i rs' hg hf
    simp only [Nat.sub_zero] at hfirst
    have hmem : name ∈ hostsL rs := List.mem_of_getElem? hget
    simp only [hmem, ↓reduceIte, Option.some.injEq]
    exact (idxOf_of_first (hostsL rs) i name hget hfirst).symm

end PdshVerif.Hostlist
