/-
  DISCHARGING `ShiftFits` (the hypothesis `shift_all`, `wcoll_expand₂`, `text_expand₂`,
  `cli_targets` of C01 carried): `hostrange_shift` prints a name into
  `malloc(strlen(prefix) + width + 16)`, so the number must have at most width+15 digits.

  Every record the parser builds is TIGHT: its width is at least the number of digits of its low
  bound (the width IS the length of the low bound as typed; coalescing keeps the tail's low bound
  and takes one of the two widths, both ≥ the digits of that low bound) — `create_tight`,
  `cliPushWords_inv`.  A tight, well-formed record violates `ShiftFits` only if it spans more than
  10^15 numbers (`shiftFits_of_tight`); a record spans fewer numbers than its list has hosts, and a
  text of n bytes yields at most 16384·n hosts (`create_count_le`).  Hence:

    * `create_shiftFits`, `cli_shiftFits`: for every text of at most 10^15/16384 ≈ 6.1·10^10 bytes
      `ShiftFits` HOLDS of everything `hostlist_create` / the `-w` path builds (a command-line
      argument is at most 128 KiB, a WCOLL line 2 KiB);
    * `shiftFits_violation_needs`: precisely which inputs violate it — only a list with ONE
      coalesced record over more than 10^15 consecutive numbers, i.e. a chain of more than
      6·10^10 maximal ranges `p[a-b],p[b+1-c],…` (> 10^12 bytes of text): not constructible on the
      real code; `shiftFits_needed` shows on the model what would happen (name cut short).
-/
import PdshVerif.Hostlist.LemmasGood
import PdshVerif.Hostlist.LemmasAccept

namespace PdshVerif.Hostlist
open PdshVerif.Gen

/-- the width of a range record covers the digits of its low bound -/
def HRange.Tight (r : HRange) : Prop := r.single = false → ndig r.lo ≤ r.width

instance (r : HRange) : Decidable r.Tight := by unfold HRange.Tight; exact inferInstance

def HL.Tight (h : HL) : Prop := ∀ r ∈ h.ranges.toList, r.Tight

theorem ndig_le_iff {n k : Nat} (hk : 0 < k) : ndig n ≤ k ↔ n < 10 ^ k :=
  Nat.length_toDigits_le_iff (by omega) hk

theorem HL.new_tight : HL.new.Tight := by
  intro r hr; simp [HL.new] at hr

theorem mkSingle_tight (n : Str) : (HRange.mkSingle n).Tight := by
  intro hs; simp [HRange.mkSingle] at hs

theorem mkSingle_good (n : Str) : (HRange.mkSingle n).Good :=
  ⟨fun _ => ⟨rfl, rfl⟩, fun hs => by simp [HRange.mkSingle] at hs⟩

/-- `_width_equiv` hands back one of the two widths -/
theorem widthEquiv_fst {n wn m wm wn' wm' : Nat} (h : widthEquiv n wn m wm = (true, wn', wm')) :
    wn' = wn ∨ wn' = wm := by
  unfold widthEquiv at h
  simp only at h
  split at h
  · cases h
  · split at h
    · split at h
      · simp only [Prod.mk.injEq, true_and] at h; exact Or.inl h.1.symm
      · cases h
    · simp only [Prod.mk.injEq, true_and] at h; exact Or.inr h.1.symm

/-- tail coalescing keeps records tight -/
theorem pushRange_tight (h : HL) (r : HRange) (hg : ∀ t ∈ h.ranges.toList, t.Good) (hr : r.Good)
    (ht : h.Tight) (hrt : r.Tight) : (pushRange h r).Tight := by
  unfold HL.Tight
  rcases pushRange_ranges h r with he | ⟨t, wt, wr, hgl, hp, hlo, hw, he⟩
  · rw [he]; intro x hx
    simp only [List.mem_append, List.mem_singleton] at hx
    rcases hx with hx | hx
    · exact ht x hx
    · rw [hx]; exact hrt
  · rw [he]
    obtain ⟨ys, hys⟩ := List.getLast?_eq_some_iff.mp hgl
    have htm : t ∈ h.ranges.toList := by rw [hys]; simp
    intro x hx
    rw [hys] at hx
    simp only [List.dropLast_concat, List.mem_append, List.mem_singleton] at hx
    rcases hx with hx | hx
    · exact ht x (by rw [hys]; simp [hx])
    · rw [hx]
      intro hs
      simp only at hs ⊢
      simp only [prefixCmpEq, Bool.and_eq_true, beq_iff_eq] at hp
      have hrs : r.single = false := by rw [← hp.2]; exact hs
      rcases widthEquiv_fst hw with e | e
      · rw [e]; exact ht t htm hs
      · rw [e]
        obtain ⟨tle, tlt⟩ := (hg t htm).2 hs
        obtain ⟨rle, rlt⟩ := hr.2 hrs
        have hu : ULONG_MAX + 1 = U64 := by decide
        have hrlo : r.lo = t.hi + 1 := by
          by_cases h0 : r.lo = 0
          · rw [h0, subU64_zero_one] at hlo; omega
          · rw [subU64_of_le (by omega) (by omega)] at hlo; omega
        exact Nat.le_trans (ndig_mono (by omega)) (hrt hrs)

theorem foldl_pushRange_tight (rs : List HRange) (h : HL) (hg : h.Good) (ht : h.Tight)
    (hrs : ∀ r ∈ rs, r.Good ∧ r.Tight) : (rs.foldl pushRange h).Tight := by
  induction rs generalizing h with
  | nil => exact ht
  | cons r rs ih =>
    obtain ⟨g, t⟩ := hrs r (by simp)
    exact ih (pushRange h r) (pushRange_good h r hg g) (pushRange_tight h r hg.1 g ht t)
      (fun x hx => hrs x (by simp [hx]))

/-! ### a tight record violates `ShiftFits` only by spanning more than 10^15 numbers -/
theorem shiftFits_of_tight {r : HRange} (hg : r.Good) (ht : r.Tight)
    (hspan : r.hi - r.lo < 10 ^ 15) : r.ShiftFits := by
  intro hs
  have hw := ht hs
  obtain ⟨hle, _⟩ := hg.2 hs
  have hwpos : 0 < r.width := by have := ndig_pos r.lo; omega
  have hlo : r.lo < 10 ^ r.width := (ndig_le_iff hwpos).mp hw
  have h10 : (10 : Nat) ^ 15 = 1000000000000000 := by decide
  have hA : 10 ^ 1 ≤ 10 ^ r.width := Nat.pow_le_pow_right (by omega) hwpos
  apply (ndig_le_iff (by omega)).mpr
  rw [Nat.pow_add, h10]
  rw [h10] at hspan
  simp only [Nat.pow_one] at hA
  omega

theorem length_le_flatMap {α β : Type} (f : α → List β) : ∀ (l : List α) (x : α), x ∈ l →
    (f x).length ≤ (l.flatMap f).length
  | [], _, h => by simp at h
  | y :: ys, x, h => by
    simp only [List.flatMap_cons, List.length_append]
    rcases List.mem_cons.mp h with rfl | h
    · omega
    · have := length_le_flatMap f ys x h; omega

/-- a record spans fewer numbers than its list denotes hosts -/
theorem span_lt_hosts {h : HL} (hg : h.Good) {r : HRange} (hr : r ∈ h.ranges.toList)
    (hs : r.single = false) : r.hi - r.lo < h.hosts.length := by
  have h1 := length_le_flatMap HRange.hosts h.ranges.toList r hr
  have h2 : r.hosts.length = r.hi + 1 - r.lo := by simp [HRange.hosts, hs]
  obtain ⟨hle, _⟩ := (hg.1 r hr).2 hs
  unfold HL.hosts
  omega

/-- `ShiftFits` of every record of a well-formed tight list of at most 10^15 hosts -/
theorem shiftFits_of_good_tight (h : HL) (hg : h.Good) (ht : h.Tight) (hn : h.hosts.length ≤ 10 ^ 15) :
    ∀ r ∈ h.ranges.toList, r.ShiftFits := by
  intro r hr
  by_cases hs : r.single = false
  · exact shiftFits_of_tight (hg.1 r hr) (ht r hr) (by have := span_lt_hosts hg hr hs; omega)
  · intro hs'; exact absurd hs' hs

/-- PRECISELY WHICH LISTS VIOLATE IT: a well-formed tight list with a record that does not fit
    `hostrange_shift`'s buffer holds ONE record spanning at least 10^15 numbers (so the list
    denotes more than 10^15 hosts) -/
theorem shiftFits_violation_needs (h : HL) (hg : h.Good) (ht : h.Tight) (r : HRange)
    (hr : r ∈ h.ranges.toList) (hv : ¬ r.ShiftFits) :
    r.single = false ∧ 10 ^ 15 ≤ r.hi - r.lo ∧ 10 ^ 15 < h.hosts.length := by
  have hs : r.single = false := by
    cases hsb : r.single with
    | false => rfl
    | true => exact absurd (fun hs' => by rw [hsb] at hs'; cases hs') hv
  have hsp : 10 ^ 15 ≤ r.hi - r.lo := by
    apply Classical.byContradiction
    intro hc
    exact hv (shiftFits_of_tight (hg.1 r hr) (ht r hr) (by omega))
  exact ⟨hs, hsp, by have := span_lt_hosts hg hr hs; omega⟩

/-- the hypothesis is not idle: the record `a[9999999999999999-10000000000000000]` of width 1
    (what is left of a coalesced `a[9-10000000000000000]` after 10^16-10 shifts; unreachable on
    the real code) is well formed, does not fit, and `hostlist_shift` hands out its second name
    cut to 17 characters -/
theorem shiftFits_needed :
    (HRange.mk' ['a'] 9999999999999999 10000000000000000 1).Good ∧
    ¬ (HRange.mk' ['a'] 9999999999999999 10000000000000000 1).ShiftFits ∧
    shiftAll ⟨#[HRange.mk' ['a'] 9999999999999999 10000000000000000 1], 2⟩ 2 =
      some ["a9999999999999999".toList, "a1000000000000000".toList] := by
  decide

/-! ### everything the parser builds is tight (D15/D25 and D16 repaired) -/
theorem digits_tight {a : Str} (hd : allDigits a) (hne : a ≠ []) : ndig (dval a) ≤ a.length :=
  ndig_le_of_lt_pow (List.length_pos_iff.mpr hne) (dval_lt hd)

theorem numeric_tight {s : Str} (h : numericItem s = true) : ndig (itemLo s) ≤ itemWidth s := by
  unfold numericItem at h
  unfold itemLo itemWidth
  generalize cutAt '-' s = q at h ⊢
  obtain ⟨a, b⟩ := q
  have ha : (!a.isEmpty && a.all isDigit) = true := by
    cases b with
    | none => exact h
    | some hi =>
      simp only [Bool.and_eq_true] at h ⊢
      exact h.1.1
  simp only [Bool.and_eq_true, Bool.not_eq_true', List.isEmpty_eq_false_iff, List.all_eq_true] at ha
  exact digits_tight ha.2 ha.1

theorem hostRecord_tight (n : Str) : (hostRecord n).Tight := by
  unfold hostRecord
  rcases hostnameCreate_cases n with hnone | ⟨suf, e, hc, _, hdig, hsne, _⟩
  · simp only [hnone]; exact mkSingle_tight n
  · simp only [hc]
    intro _
    exact digits_tight hdig hsne

theorem pushRangeList_tight (pfx : Str) (rs : List SR) (h : HL) (hg : h.Good) (ht : h.Tight)
    (hr : ∀ r ∈ rs, (r.lo ≤ r.hi ∧ r.hi < ULONG_MAX) ∧ ndig r.lo ≤ r.width) :
    (pushRangeList h pfx rs).Tight := by
  have e : pushRangeList h pfx rs =
      (rs.map fun r => HRange.mk' pfx r.lo r.hi r.width).foldl pushRange h := by
    unfold pushRangeList; rw [List.foldl_map]
  rw [e]
  refine foldl_pushRange_tight _ h hg ht ?_
  intro x hx
  obtain ⟨r, hrm, rfl⟩ := List.mem_map.mp hx
  exact ⟨⟨fun hs => by simp [HRange.mk'] at hs, fun _ => (hr r hrm).1⟩, fun _ => (hr r hrm).2⟩

theorem foldl_pushSingles_tight (names : List Str) (h : HL) (hg : h.Good) (ht : h.Tight) :
    (names.foldl (fun h n => pushRange h (HRange.mkSingle n)) h).Tight := by
  have e : names.foldl (fun h n => pushRange h (HRange.mkSingle n)) h =
      (names.map HRange.mkSingle).foldl pushRange h := by rw [List.foldl_map]
  rw [e]
  refine foldl_pushRange_tight _ h hg ht ?_
  intro x hx
  obtain ⟨n, _, rfl⟩ := List.mem_map.mp hx
  exact ⟨mkSingle_good n, mkSingle_tight n⟩

theorem pushRangeListWithSuffix_tight (cfg : Cfg) (pfx sfx : Str) : ∀ (rs : List SR) (h h' : HL),
    h.Good → h.Tight → pushRangeListWithSuffix cfg h pfx sfx rs = .ok h' → h'.Tight
  | [], h, h', _, ht, hp => by
    simp only [pushRangeListWithSuffix, Outcome.ok.injEq] at hp
    subst hp; exact ht
  | r :: rs, h, h', hg, ht, hp => by
    unfold pushRangeListWithSuffix at hp
    unfold pushSuffixRange at hp
    by_cases hmax : r.hi = ULONG_MAX
    · simp [hmax] at hp
    · simp only [hmax, ↓reduceIte] at hp
      have e : (List.range' r.lo (r.hi + 1 - r.lo)).foldl
            (fun h j => pushRange h (HRange.mkSingle (suffixedName cfg pfx sfx r.width j))) h =
          ((List.range' r.lo (r.hi + 1 - r.lo)).map (suffixedName cfg pfx sfx r.width)).foldl
            (fun h n => pushRange h (HRange.mkSingle n)) h := by
        rw [List.foldl_map]
      rw [e] at hp
      exact pushRangeListWithSuffix_tight cfg pfx sfx rs _ h' (foldl_pushSingles _ h hg).1
        (foldl_pushSingles_tight _ h hg ht) hp

theorem parseRangeList_tight (cfg : Cfg) (h15 : cfg.fixUlongMax = true) (h16 : cfg.fixDigits = true)
    (e : Nat) (body : Str) (rs : Array SR) (e' : Nat) (h : parseRangeList cfg e body = .ok rs e') :
    ∀ r ∈ rs.toList, ndig r.lo ≤ r.width :=
  parseRangeItems_all cfg (fun r => ndig r.lo ≤ r.width)
    (fun e s r e' hp => by
      obtain ⟨hn, _, _, _, rfl, _⟩ := (item_ok_iff cfg h15 h16 e s r e').mp hp
      exact numeric_tight hn)
    _ 0 e #[] rs e' h (by simp)

/-- one token keeps the list tight -/
theorem pushTok_tight (cfg : Cfg) (h15 : cfg.fixUlongMax = true) (h16 : cfg.fixDigits = true)
    (st st' : PSt) (tok : Str) (hg : st.hl.Good) (ht : st.hl.Tight)
    (h : pushTok cfg st tok = .ok st') : st'.hl.Tight := by
  unfold pushTok at h
  split at h
  · split at h
    · split at h
      · cases h
      · cases hp : parseRangeList cfg st.errno _ with
        | fail e f => rw [hp] at h; cases h
        | ok rs e =>
          rw [hp] at h
          simp only at h
          have hsm := parseRangeList_small cfg _ _ _ _ hp
          have hhi := parseRangeItems_ok_hi cfg h15 _ 0 st.errno #[] rs e hp (by simp)
          have htt := parseRangeList_tight cfg h15 h16 _ _ _ _ hp
          split at h
          · simp only [Outcome.ok.injEq] at h
            subst h
            refine pushRangeList_tight _ _ _ hg ht ?_
            intro r hr
            have := hhi r hr
            exact ⟨⟨(hsm r hr).1, by have := (hsm r hr).2.1; omega⟩, htt r hr⟩
          · cases hq : pushRangeListWithSuffix cfg st.hl _ _ rs.toList with
            | ok h' =>
              rw [hq] at h
              simp only [Outcome.ok.injEq] at h
              subst h
              exact pushRangeListWithSuffix_tight cfg _ _ _ _ _ hg ht hq
            | null _ _ => rw [hq] at h; cases h
            | ub _ => rw [hq] at h; cases h
            | diverge => rw [hq] at h; cases h
    · cases h
  · split at h
    · cases h
    · split at h
      · cases h
      · simp only [Outcome.ok.injEq] at h
        subst h
        exact pushRange_tight _ _ hg.1 (hostRecord_spec _).1 ht (hostRecord_tight _)

theorem createToks_tight (cfg : Cfg) (h15 : cfg.fixUlongMax = true) (h16 : cfg.fixDigits = true) :
    ∀ (toks : List Str) (st st' : PSt), st.hl.Good → st.hl.Tight →
    createToks cfg st toks = .ok st' → st'.hl.Tight
  | [], st, st', _, ht, h => by
    simp only [createToks, Outcome.ok.injEq] at h
    subst h; exact ht
  | t :: ts, st, st', hg, ht, h => by
    unfold createToks at h
    cases hp : pushTok cfg st t with
    | ok st1 =>
      rw [hp] at h
      exact createToks_tight cfg h15 h16 ts st1 st' (pushTok_good cfg h15 st st1 t hg hp)
        (pushTok_tight cfg h15 h16 st st1 t hg ht hp) h
    | null _ _ => rw [hp] at h; cases h
    | ub _ => rw [hp] at h; cases h
    | diverge => rw [hp] at h; cases h

/-- EVERY accepted text yields a tight list -/
theorem create_tight (cfg : Cfg) (h15 : cfg.fixUlongMax = true) (h16 : cfg.fixDigits = true)
    (s : Str) (h : HL) (hc : create cfg s = .ok h) : h.Tight := by
  unfold create createFrom at hc
  cases hq : createToks cfg ⟨HL.new, 0⟩ (tokens hlSep s) with
  | ok st =>
    rw [hq] at hc
    simp only [Outcome.ok.injEq] at hc
    subst hc
    exact createToks_tight cfg h15 h16 _ _ _ HL.new_good HL.new_tight hq
  | null _ _ => rw [hq] at hc; cases hc
  | ub _ => rw [hq] at hc; cases hc
  | diverge => rw [hq] at hc; cases hc

/-- `ShiftFits` DISCHARGED for `hostlist_create`: every text of at most 10^15/16384 bytes -/
theorem create_shiftFits (cfg : Cfg) (h15 : cfg.fixUlongMax = true) (h16 : cfg.fixDigits = true)
    (s : Str) (h : HL) (hc : create cfg s = .ok h) (hlen : MAX_RANGE * s.length ≤ 10 ^ 15) :
    ∀ r ∈ h.ranges.toList, r.ShiftFits := by
  have hg := create_good cfg h15 s h hc
  have hcnt := create_count_le cfg s h hc
  refine shiftFits_of_good_tight h hg (create_tight cfg h15 h16 s h hc) ?_
  have := hg.2
  unfold HL.count at hcnt
  omega

/-! ### the `-w` path: `hostlist_push` of every comma-word -/
theorem pushList_tight (h1 h2 : HL) (g1 : h1.Good) (t1 : h1.Tight) (g2 : h2.Good) (t2 : h2.Tight) :
    (pushList h1 h2).Tight := by
  unfold pushList
  exact foldl_pushRange_tight h2.ranges.toList h1 g1 t1 (fun r hr => ⟨g2.1 r hr, t2 r hr⟩)

theorem dropWhile_length_le' {α : Type} (p : α → Bool) (l : List α) :
    (l.dropWhile p).length ≤ l.length := dropWhile_length_le p l

/-- `hostlist_push(hl, text)` keeps the list well formed and tight and adds at most
    16384 · |text| hosts -/
theorem hlPush_inv (cfg : Cfg) (h15 : cfg.fixUlongMax = true) (h16 : cfg.fixDigits = true)
    (h h' : HL) (s : Str) (hg : h.Good) (ht : h.Tight) (hp : hlPush cfg h s = .ok h') :
    h'.Good ∧ h'.Tight ∧ h'.hosts.length ≤ h.hosts.length + MAX_RANGE * s.length := by
  unfold hlPush at hp
  cases hc : create cfg s with
  | ok n =>
    rw [hc] at hp
    simp only [Outcome.ok.injEq] at hp
    subst hp
    have gn := create_good cfg h15 s n hc
    have tn := create_tight cfg h15 h16 s n hc
    have cn := create_count_le cfg s n hc
    obtain ⟨g, hh⟩ := pushList_hosts h n hg gn
    refine ⟨g, pushList_tight h n hg ht gn tn, ?_⟩
    rw [hh, List.length_append]
    have := gn.2
    unfold HL.count at cn
    omega
  | null e f =>
    rw [hc] at hp
    simp only at hp
    split at hp
    · simp only [Outcome.ok.injEq] at hp
      subst hp
      exact ⟨hg, ht, by omega⟩
    · cases hp
  | ub w => rw [hc] at hp; cases hp
  | diverge => rw [hc] at hp; cases hp

theorem cliPushWords_inv (cfg : Cfg) (h15 : cfg.fixUlongMax = true) (h16 : cfg.fixDigits = true) :
    ∀ (ws : List Str) (h h' : HL), h.Good → h.Tight → cliPushWords cfg h ws = .ok (some h') →
    h'.Good ∧ h'.Tight ∧ h'.hosts.length ≤ h.hosts.length + MAX_RANGE * (ws.map List.length).sum
  | [], h, h', hg, ht, hp => by
    simp only [cliPushWords, Outcome.ok.injEq, Option.some.injEq] at hp
    subst hp
    exact ⟨hg, ht, by simp⟩
  | w :: ws, h, h', hg, ht, hp => by
    unfold cliPushWords at hp
    split at hp
    · cases hp
    · cases hq : hlPush cfg h (w.dropWhile isSpace) with
      | ok h1 =>
        rw [hq] at hp
        simp only at hp
        obtain ⟨g1, t1, l1⟩ := hlPush_inv cfg h15 h16 h h1 _ hg ht hq
        obtain ⟨g2, t2, l2⟩ := cliPushWords_inv cfg h15 h16 ws h1 h' g1 t1 hp
        refine ⟨g2, t2, ?_⟩
        have := dropWhile_length_le isSpace w
        have hm : MAX_RANGE * (w.dropWhile isSpace).length ≤ MAX_RANGE * w.length :=
          Nat.mul_le_mul_left _ this
        simp only [List.map_cons, List.sum_cons, Nat.mul_add]
        omega
      | null _ _ => rw [hq] at hp; cases hp
      | ub _ => rw [hq] at hp; cases hp
      | diverge => rw [hq] at hp; cases hp

/-- `ShiftFits` DISCHARGED for the `-w` path: for every argument of at most 10^15/16384 bytes the
    working collective `wcoll_expand` is about to shift fits `hostrange_shift`'s buffers -/
theorem cli_shiftFits (cfg : Cfg) (h15 : cfg.fixUlongMax = true) (h16 : cfg.fixDigits = true)
    (arg : Str) (h : HL) (hp : cliPushWords cfg HL.new (tokens [','] arg) = .ok (some h))
    (hlen : MAX_RANGE * arg.length ≤ 10 ^ 15) : h.Good ∧ ∀ r ∈ h.ranges.toList, r.ShiftFits := by
  obtain ⟨g, t, l⟩ := cliPushWords_inv cfg h15 h16 _ HL.new h HL.new_good HL.new_tight hp
  refine ⟨g, shiftFits_of_good_tight h g t ?_⟩
  have hl := (tokensFuel_lengths [','] (arg.length + 1) arg).2
  have hm : MAX_RANGE * ((tokens [','] arg).map List.length).sum ≤ MAX_RANGE * arg.length :=
    Nat.mul_le_mul_left _ hl
  rw [HL.new_hosts] at l
  simp only [List.length_nil, Nat.zero_add] at l
  omega

end PdshVerif.Hostlist
