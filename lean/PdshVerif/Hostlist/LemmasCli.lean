/-
  C01, the whole `-w ARG` path: split.c `list_split(",", arg)` → opt.c `wcoll_arg_process` (plain
  target words) → `hostlist_push` of every comma-word → opt.c `wcoll_expand`, composed with the
  string-level parser theorem: for the TEXT of a well-formed expression the working collective
  denotes `expand₂` (`cliTargets_render`).
-/
import PdshVerif.Hostlist.LemmasSplit
import PdshVerif.Hostlist.LemmasExpand
import PdshVerif.Hostlist.LemmasTok

namespace PdshVerif.Hostlist
open PdshVerif.Gen

/-! ### list algebra -/
theorem flatten_eq_map_split {α β : Type} (f : α → β) : ∀ (L : List (List β)) (M : List α),
    L.flatten = M.map f → ∃ Ms : List (List α), Ms.flatten = M ∧ L = Ms.map (List.map f)
  | [], M, h => by
    simp only [List.flatten_nil] at h
    have : M = [] := by cases M with | nil => rfl | cons a as => simp at h
    exact ⟨[], by simp [this], rfl⟩
  | l :: L, M, h => by
    simp only [List.flatten_cons] at h
    obtain ⟨M1, M2, rfl, h1, h2⟩ := List.map_eq_append_iff.mp h.symm
    obtain ⟨Ms, g1, g2⟩ := flatten_eq_map_split f L M2 h2.symm
    exact ⟨M1 :: Ms, by simp [g1], by simp [h1, g2]⟩

/-! ### characters of tokens -/
theorem mem_of_mem_dropWhile {α : Type} {p : α → Bool} : ∀ {l : List α} {x : α}, x ∈ l.dropWhile p → x ∈ l
  | [], _, h => by simp at h
  | a :: as, x, h => by
    by_cases ha : p a = true
    · rw [List.dropWhile_cons_of_pos ha] at h; exact List.mem_cons_of_mem _ (mem_of_mem_dropWhile h)
    · rw [List.dropWhile_cons_of_neg ha] at h; exact h

theorem nextTok_chars {sep s t r : Str} (h : nextTok sep s = some (t, r)) :
    (∀ c ∈ t, c ∈ s) ∧ (∀ c ∈ r, c ∈ s) := by
  unfold nextTok at h
  split at h
  · cases h
  · have happ := scanTok_append sep (s.dropWhile (isSep sep)) 0
    generalize scanTok sep 0 (s.dropWhile (isSep sep)) = q at h happ
    obtain ⟨a, b⟩ := q
    simp only [Option.some.injEq, Prod.mk.injEq] at h
    obtain ⟨rfl, rfl⟩ := h
    simp only at happ
    constructor
    · intro c hc
      exact mem_of_mem_dropWhile (by rw [← happ]; exact List.mem_append_left _ hc)
    · intro c hc
      exact mem_of_mem_dropWhile (by rw [← happ]; exact List.mem_append_right _ (mem_of_mem_dropWhile hc))

theorem tokens_chars (sep : Str) : ∀ (n : Nat) (s : Str), s.length ≤ n → ∀ t ∈ tokens sep s, ∀ c ∈ t, c ∈ s
  | 0, s, hn, t, ht, c, hc => by
    have : s = [] := List.length_eq_zero_iff.mp (by omega)
    subst this; rw [tokens_nil] at ht; cases ht
  | n + 1, s, hn, t, ht, c, hc => by
    rw [tokens_unfold] at ht
    cases hnt : nextTok sep s with
    | none => rw [hnt] at ht; cases ht
    | some p =>
      obtain ⟨t1, r⟩ := p
      rw [hnt] at ht
      simp only [List.mem_cons] at ht
      have ⟨hne, hl⟩ := nextTok_some hnt
      have hpos : 0 < t1.length := List.length_pos_iff.mpr hne
      obtain ⟨h1, h2⟩ := nextTok_chars hnt
      rcases ht with rfl | ht
      · exact h1 c hc
      · exact h2 c (tokens_chars sep n r (by omega) t ht c hc)

/-! ### the first token starts with the first non-separator -/
theorem tokens_head_cons (sep : Str) (c : Char) (cs : Str) (h : isSep sep c = false) :
    ∃ t ts, tokens sep (c :: cs) = (c :: t) :: ts := by
  rw [tokens_unfold, nextTok_cons sep c cs h]
  simp only
  have : (scanTok sep 0 (c :: cs)).1 = c :: (scanTok sep
      (if c = '[' then (0 : Int) + 1 else if c = ']' then 0 - 1 else 0) cs).1 := by
    simp [scanTok, h]
  rw [this]
  exact ⟨_, _, rfl⟩

/-- a word the command line hands to `hostlist_push` as it stands: its text names no `rcmd_type:`
    / `user@` part and does not start with white space or one of `-` `^` `/` -/
def cliWord (w : Spec.Word) : Prop :=
  ':' ∉ Spec.renderWord w ∧ '@' ∉ Spec.renderWord w ∧
    ∀ c ∈ (Spec.renderWord w).head?, isSpace c = false ∧ c ≠ '-' ∧ c ≠ '^' ∧ c ≠ '/'

/-- heads of a comma-word whose first token starts "harmlessly" (`Q c`): `dropWhile isspace` only
    removes separators, so the tokens stay and both heads are separators, spaces or `Q` -/
theorem dropSpace_tokens (Q : Char → Prop) : ∀ (cw : Str),
    (∀ t ts c, tokens hlSep cw = t :: ts → t.head? = some c → isSpace c = false ∧ Q c) →
    tokens hlSep (cw.dropWhile isSpace) = tokens hlSep cw ∧
    (∀ c, (cw.dropWhile isSpace).head? = some c → isSep hlSep c = true ∨ Q c) ∧
    (∀ c, cw.head? = some c → isSep hlSep c = true ∨ isSpace c = true ∨ Q c)
  | [], _ => by simp
  | c :: cs, h => by
    by_cases hsp : isSpace c = true
    · by_cases hse : isSep hlSep c = true
      · have ht := tokens_dropSep hlSep c cs hse
        obtain ⟨i1, i2, _⟩ := dropSpace_tokens Q cs (by rw [← ht]; exact h)
        rw [List.dropWhile_cons_of_pos hsp, ht]
        exact ⟨i1, i2, fun x hx => by simp at hx; subst hx; exact Or.inl hse⟩
      · exfalso
        obtain ⟨t, ts, ht⟩ := tokens_head_cons hlSep c cs (by simpa using hse)
        have := (h _ _ c ht rfl).1
        rw [this] at hsp; cases hsp
    · rw [List.dropWhile_cons_of_neg hsp]
      refine ⟨rfl, ?_, ?_⟩ <;>
      · intro x hx
        simp only [List.head?_cons, Option.some.injEq] at hx
        subst hx
        by_cases hse : isSep hlSep c = true
        · exact Or.inl hse
        · obtain ⟨t, ts, ht⟩ := tokens_head_cons hlSep c cs (by simpa using hse)
          first
            | exact Or.inr (h _ _ c ht rfl).2
            | exact Or.inr (Or.inr (h _ _ c ht rfl).2)

/-! ### one comma-word -/
theorem expand₁_append (a b : Spec.Expr) : Spec.expand₁ (a ++ b) = Spec.expand₁ a ++ Spec.expand₁ b := by
  simp [Spec.expand₁]

theorem cli_one (cfg : Cfg) (h : HL) (hg : h.Good) (cw : Str) (ws : List Spec.Word)
    (htok : tokens hlSep cw = ws.map Spec.renderWord)
    (hw : ∀ w ∈ ws, w.WF = true) (hd : ∀ w ∈ ws, wordDom cfg w) (hcl : ∀ w ∈ ws, cliWord w)
    (hc1 : ':' ∉ cw) (hc2 : '@' ∉ cw) :
    plainWord cw = true ∧
      ∃ h', hlPush cfg h (cw.dropWhile isSpace) = .ok h' ∧ h'.Good ∧
        h'.hosts = h.hosts ++ Spec.expand₁ ws := by
  -- the first token is the text of the first word
  have hfirst : ∀ t ts c, tokens hlSep cw = t :: ts → t.head? = some c →
      isSpace c = false ∧ (c ≠ '-' ∧ c ≠ '^' ∧ c ≠ '/') := by
    intro t ts c ht hh
    rw [htok] at ht
    cases ws with
    | nil => cases ht
    | cons w ws' =>
      simp only [List.map_cons, List.cons.injEq] at ht
      have := (hcl w (by simp)).2.2 c (by rw [ht.1]; simpa using hh)
      exact ⟨this.1, this.2⟩
  obtain ⟨d1, d2, d3⟩ := dropSpace_tokens (fun c => c ≠ '-' ∧ c ≠ '^' ∧ c ≠ '/') cw hfirst
  constructor
  · unfold plainWord
    cases hdw : cw.dropWhile isSpace with
    | nil => rfl
    | cons c rest =>
      have hcQ := d2 c (by rw [hdw]; rfl)
      have hc : c ≠ '^' ∧ c ≠ '/' := by
        rcases hcQ with hs | hq
        · constructor <;> (intro e; rw [e] at hs; revert hs; decide)
        · exact hq.2
      have hhead : ¬ cw.head? = some '-' := by
        intro hh
        rcases d3 '-' hh with hs | hs | hq
        · revert hs; decide
        · revert hs; decide
        · exact hq.1 rfl
      simp [hhead, hc.1, hc.2, hc1, hc2]
  · obtain ⟨st, s1, s2, s3⟩ := createToks_words cfg ws ⟨HL.new, 0⟩ hw hd HL.new_good
    rw [HL.new_hosts, List.nil_append] at s3
    have hcr : create cfg (cw.dropWhile isSpace) = .ok st.hl := by
      unfold create createFrom
      rw [d1, htok, s1]
    obtain ⟨p1, p2⟩ := pushList_hosts h st.hl hg s2
    refine ⟨pushList h st.hl, ?_, p1, by rw [p2, s3]⟩
    unfold hlPush
    rw [hcr]

/-! ### all comma-words -/
theorem cliPushWords_words (cfg : Cfg) : ∀ (cws : List Str) (Ws : List (List Spec.Word)) (h : HL),
    h.Good → cws.map (tokens hlSep) = Ws.map (List.map Spec.renderWord) →
    (∀ ws ∈ Ws, ∀ w ∈ ws, w.WF = true ∧ wordDom cfg w ∧ cliWord w) →
    (∀ cw ∈ cws, ':' ∉ cw ∧ '@' ∉ cw) →
    ∃ h', cliPushWords cfg h cws = .ok (some h') ∧ h'.Good ∧
      h'.hosts = h.hosts ++ Spec.expand₁ Ws.flatten
  | [], Ws, h, hg, hm, _, _ => by
    have : Ws = [] := by cases Ws with | nil => rfl | cons a as => simp at hm
    subst this
    exact ⟨h, rfl, hg, by simp [Spec.expand₁]⟩
  | cw :: cws, Ws, h, hg, hm, hall, hch => by
    cases Ws with
    | nil => simp at hm
    | cons ws Ws' =>
      simp only [List.map_cons, List.cons.injEq] at hm
      obtain ⟨hp, h1, hp1, hg1, hh1⟩ := (fun x => x) (cli_one cfg h hg cw ws hm.1
        (fun w hw => (hall ws (by simp) w hw).1) (fun w hw => (hall ws (by simp) w hw).2.1)
        (fun w hw => (hall ws (by simp) w hw).2.2) (hch cw (by simp)).1 (hch cw (by simp)).2)
      obtain ⟨h2, hp2, hg2, hh2⟩ := cliPushWords_words cfg cws Ws' h1 hg1 hm.2
        (fun ws' hws => hall ws' (by simp [hws])) (fun c hc => hch c (by simp [hc]))
      refine ⟨h2, ?_, hg2, ?_⟩
      · simp only [cliPushWords, hp, Bool.not_true, Bool.false_eq_true, ↓reduceIte, hp1]
        exact hp2
      · rw [hh2, hh1, List.flatten_cons, expand₁_append, List.append_assoc]

/-! ### the text of a well-formed expression -/
theorem sepsOK_all : ∀ (items : List (Spec.Word × Str)), Spec.sepsOK items = true →
    ∀ p ∈ items, p.2.all Spec.sepChar = true
  | [], _, p, hp => by cases hp
  | [(w, s)], h, p, hp => by
    simp only [List.mem_singleton] at hp; subst hp
    simpa [Spec.sepsOK] using h
  | (w, s) :: q :: rest, h, p, hp => by
    simp only [Spec.sepsOK, Bool.and_eq_true] at h
    rcases List.mem_cons.mp hp with rfl | hp
    · exact h.1.2
    · exact sepsOK_all (q :: rest) h.2 p hp

theorem render_chars (lead : Str) (items : List (Spec.Word × Str)) (x : Char)
    (hx : Spec.sepChar x = false) (hl : lead.all Spec.sepChar = true) (hok : Spec.sepsOK items = true)
    (hw : ∀ p ∈ items, x ∉ Spec.renderWord p.1) : x ∉ Spec.render lead items := by
  intro hm
  unfold Spec.render at hm
  rcases List.mem_append.mp hm with hm | hm
  · have := (List.all_eq_true.mp hl) x hm
    rw [hx] at this; cases this
  · obtain ⟨p, hp, hxp⟩ := List.mem_flatMap.mp hm
    rcases List.mem_append.mp hxp with h1 | h1
    · exact hw p hp h1
    · have := (List.all_eq_true.mp (sepsOK_all items hok p hp)) x h1
      rw [hx] at this; cases this

/-- FIRST LEVEL of the command line: `list_split(",", arg)` + `hostlist_push` of every comma-word
    on the text of a well-formed expression builds a list that denotes `expand₁` -/
theorem cliPushWords_render (cfg : Cfg) (lead : Str) (items : List (Spec.Word × Str))
    (hl : lead.all Spec.sepChar = true) (hok : Spec.sepsOK items = true)
    (hw : ∀ p ∈ items, p.1.WF = true) (hd : ∀ p ∈ items, wordDom cfg p.1)
    (hcl : ∀ p ∈ items, cliWord p.1) :
    ∃ h, cliPushWords cfg HL.new (tokens [','] (Spec.render lead items)) = .ok (some h) ∧ h.Good ∧
      h.hosts = Spec.expand₁ (items.map (·.1)) := by
  have hsplit := split_then_tokens (Spec.render lead items)
  rw [tokens_render items lead hl hok hw, List.flatMap_def] at hsplit
  have hmap : (items.map fun p => Spec.renderWord p.1) = (items.map (·.1)).map Spec.renderWord := by
    rw [List.map_map]; rfl
  rw [hmap] at hsplit
  obtain ⟨Ws, hflat, hWs⟩ := flatten_eq_map_split Spec.renderWord _ _ hsplit
  have hmem : ∀ ws ∈ Ws, ∀ w ∈ ws, ∃ p ∈ items, p.1 = w := by
    intro ws hws w hw'
    have : w ∈ Ws.flatten := List.mem_flatten.mpr ⟨ws, hws, hw'⟩
    rw [hflat] at this
    obtain ⟨p, hp, rfl⟩ := List.mem_map.mp this
    exact ⟨p, hp, rfl⟩
  have hc1 : ':' ∉ Spec.render lead items :=
    render_chars lead items ':' (by decide) hl hok (fun p hp => (hcl p hp).1)
  have hc2 : '@' ∉ Spec.render lead items :=
    render_chars lead items '@' (by decide) hl hok (fun p hp => (hcl p hp).2.1)
  obtain ⟨h', g1, g2, g3⟩ := cliPushWords_words cfg (tokens [','] (Spec.render lead items)) Ws HL.new
    HL.new_good hWs
    (fun ws hws w hw' => by
      obtain ⟨p, hp, rfl⟩ := hmem ws hws w hw'
      exact ⟨hw p hp, hd p hp, hcl p hp⟩)
    (fun cw hcw => ⟨fun hm => hc1 (tokens_chars [','] _ _ (Nat.le_refl _) cw hcw _ hm),
                    fun hm => hc2 (tokens_chars [','] _ _ (Nat.le_refl _) cw hcw _ hm)⟩)
  refine ⟨h', g1, g2, ?_⟩
  rw [g3, HL.new_hosts, List.nil_append, hflat]

/-- THE WHOLE `-w ARG` PATH on the text of a well-formed expression: the working collective pdsh
    ends up with denotes exactly `expand₂` (`hf`: numbers fit the buffer `hostrange_shift`
    allocates, as in `text_expand₂`) -/
theorem cliTargets_render (cfg : Cfg) (lead : Str) (items : List (Spec.Word × Str))
    (hl : lead.all Spec.sepChar = true) (hok : Spec.sepsOK items = true)
    (hw : ∀ p ∈ items, p.1.WF = true) (hd : ∀ p ∈ items, wordDom cfg p.1)
    (hcl : ∀ p ∈ items, cliWord p.1)
    (hd2 : ∀ p ∈ items, ∀ w' ∈ reword p.1, wordDom cfg w')
    (hf : ∀ h, cliPushWords cfg HL.new (tokens [','] (Spec.render lead items)) = .ok (some h) →
      ∀ r ∈ h.ranges.toList, r.ShiftFits) :
    ∃ h', cliTargets cfg (Spec.render lead items) = .ok (some h') ∧ h'.Good ∧
      h'.hosts = Spec.expand₂ (items.map (·.1)) := by
  obtain ⟨h, g1, g2, g3⟩ := cliPushWords_render cfg lead items hl hok hw hd hcl
  have hwf : Spec.WF (items.map (·.1)) = true := by
    unfold Spec.WF
    simp only [List.all_map, List.all_eq_true]
    intro p hp; exact hw p hp
  obtain ⟨h', e1, e2, e3⟩ := wcollExpand_expand₂ cfg (items.map (·.1)) hwf
    (fun w hw' w' hw'' => by obtain ⟨p, hp, rfl⟩ := List.mem_map.mp hw'; exact hd2 p hp w' hw'')
    h g2 (hf h g1) g3
  refine ⟨h', ?_, e2, e3⟩
  unfold cliTargets
  rw [g1]
  simp only [e1]

end PdshVerif.Hostlist
