/-
  C16, any number of live iterators: `hostlist_shift`, `hostlist_pop`, `hostlist_push_range` refine the
  plain list with one cursor per iterator (lifted from the one-iterator theorems through `RefM.lift`).
-/
import PdshVerif.Hostlist.EditMultiOps

namespace PdshVerif.Hostlist
open PdshVerif.Gen

theorem unif_pushRangeE (r : HRange) : Unif (fun e => pushRangeE e r) := by
  intro e
  refine ⟨id, fun l => ?_⟩
  show pushRangeE (e.withIts l) r = (pushRangeE (e.withIts []) r).withIts (l.map (liftIt id))
  rw [pushRangeE_withIts, pushRangeE_withIts, map_liftIt_id]
  rfl

theorem shift_ans (names : List Str) (cur cur' : List (Nat × Nat)) :
    (EditSpec.shift ⟨names, cur⟩).1 = (EditSpec.shift ⟨names, cur'⟩).1 := by
  unfold EditSpec.shift; cases names <;> rfl

theorem pop_ans (names : List Str) (cur cur' : List (Nat × Nat)) :
    (EditSpec.pop ⟨names, cur⟩).1 = (EditSpec.pop ⟨names, cur'⟩).1 := by
  unfold EditSpec.pop; simp only; cases names.getLast? <;> rfl

theorem unifS_shift : UnifS (fun q => (EditSpec.shift q).2) := by
  intro names
  cases names with
  | nil => exact ⟨[], id, fun cur => by simp [EditSpec.shift, map_liftCur_id]⟩
  | cons x t =>
    obtain ⟨n', g, hg⟩ := unifS_delPos 0 (x :: t)
    exact ⟨n', g, fun cur => by simp only [EditSpec.shift]; exact hg cur⟩

theorem unifS_pop : UnifS (fun q => (EditSpec.pop q).2) := by
  intro names
  cases hl : names.getLast? with
  | none => exact ⟨names, id, fun cur => by simp [EditSpec.pop, hl, map_liftCur_id]⟩
  | some x =>
    obtain ⟨n', g, hg⟩ := unifS_delPos (names.length - 1) names
    exact ⟨n', g, fun cur => by simp only [EditSpec.pop, hl]; exact hg cur⟩

/-- SHIFT with any number of live iterators: the first name is handed out and every iterator keeps
    what it had left -/
theorem shift_refinesM (cfg : Cfg) (hfix : cfg.fixRemoveDepth = true) (e : EL) (p : EditSpec.PL) (fr : Nat → Bool)
    (h : RefM cfg e p fr) (hf : ∀ r ∈ e.ranges, r.ShiftFits) :
    ∃ e', shiftE cfg e = .ok ((EditSpec.shift p).1, e') ∧ RefM cfg e' (EditSpec.shift p).2 (fun _ => false) := by
  refine RefM.lift (shiftE cfg) (unifM_shiftE cfg) (fun q => (EditSpec.shift q).2) unifS_shift (EditSpec.shift p).1
    (fun _ => True) e p fr ?_ trivial (fun _ _ => trivial) h
  intro it c f _ hr
  obtain ⟨e', h1, h2⟩ := shift_refines cfg hfix _ _ c f hr hf
  rw [shift_ans p.names [(0, c)] p.cur] at h1
  exact ⟨e', _, h1, h2⟩

/-- POP with any number of live iterators (repaired D19, D20): the last name is handed out; an iterator
    that stood behind it stands at the end afterwards -/
theorem pop_refinesM (cfg : Cfg) (hD19 : cfg.fixRemoveDepth = true) (hD20 : cfg.fixPopIter = true) (e : EL)
    (p : EditSpec.PL) (fr : Nat → Bool) (h : RefM cfg e p fr) (hf : ∀ r ∈ e.ranges, r.ShiftFits) :
    ∃ e', popE cfg e = .ok ((EditSpec.pop p).1, e') ∧ RefM cfg e' (EditSpec.pop p).2 (fun _ => false) := by
  refine RefM.lift (popE cfg) (unifM_popE cfg) (fun q => (EditSpec.pop q).2) unifS_pop (EditSpec.pop p).1
    (fun _ => True) e p fr ?_ trivial (fun _ _ => trivial) h
  intro it c f _ hr
  obtain ⟨e', h1, h2⟩ := pop_refines cfg hD19 hD20 _ _ c f hr hf
  rw [pop_ans p.names [(0, c)] p.cur] at h1
  exact ⟨e', _, h1, h2⟩

theorem all2_nil_right {α β : Type} {R : α → β → Prop} {l : List α} (h : All2 R l []) : l = [] := by
  cases h; rfl

/-- PUSH with any number of live iterators, none of them at the end: every iterator will reach the new
    hosts -/
theorem push_refinesM (cfg : Cfg) (hfs : cfg.fixIterSuffix = true) (e : EL) (p : EditSpec.PL) (fr : Nat → Bool)
    (h : RefM cfg e p fr) (r : HRange) (hr : r.Good) (hnotend : ∀ b ∈ p.cur, b.2 < p.names.length) :
    RefM cfg (pushRangeE e r) { p with names := p.names ++ r.hosts } (fun _ => false) := by
  by_cases hne : 0 < p.names.length
  · have hS : UnifS (fun q : EditSpec.PL => { q with names := q.names ++ r.hosts }) :=
      fun names => ⟨names ++ r.hosts, id, fun cur => by rw [map_liftCur_id]⟩
    obtain ⟨e', h1, h2⟩ := RefM.lift (fun x => (.ok ((), pushRangeE x r) : EM (Unit × EL))) ((unif_pushRangeE r).toM ())
      (fun q : EditSpec.PL => { q with names := q.names ++ r.hosts }) hS () (fun c => c < p.names.length) e p fr
      (fun it c f hc hr' => ⟨_, c, rfl, push_refines cfg hfs _ _ c f hr' r hr hc⟩) hne hnotend h
    simp only [Except.ok.injEq, Prod.mk.injEq, true_and] at h1
    rw [h1]; exact h2
  · -- an empty list: no iterator can be "not at the end"
    have hcur : p.cur = [] := by
      cases hc : p.cur with
      | nil => rfl
      | cons b t => have := hnotend b (by rw [hc]; simp); omega
    have hits : e.its = [] := by have := h.each; rw [hcur] at this; exact all2_nil_right this
    have hb := h.base
    have hid : e.IdsOk := hb.ids
    have hg : e.Good := hb.good
    have hh : e.hosts = p.names := hb.hosts
    obtain ⟨hg', hh'⟩ := pushRangeE_hosts e r hg hr
    obtain ⟨k1, k2⟩ := pushRangeE_keeps e r
    have hits' : (pushRangeE e r).its = [] := by rw [k2, hits]
    have hnew := new_refines cfg (pushRangeE e r) (k1 hid) hg' (fun _ _ => Or.inl hfs) hits'
    refine ⟨?_, by rw [hits']; exact List.nodup_nil, by rw [hits', hcur]; exact .nil⟩
    have e1 : itNew (pushRangeE e r) 0 = (pushRangeE e r).withIts [(0, (pushRangeE e r).resetIt)] := by
      unfold itNew; rw [hits']; rfl
    have e2 : EditSpec.itNew ⟨(pushRangeE e r).hosts, []⟩ 0 = ⟨p.names ++ r.hosts, [(0, 0)]⟩ := by
      unfold EditSpec.itNew; rw [hh', hh]
    rw [e1, e2] at hnew
    exact hnew

end PdshVerif.Hostlist
