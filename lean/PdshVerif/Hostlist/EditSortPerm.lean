/-
  `hostlist_coalesce`, the arithmetic: two neighbours [A..B], [C..D] with A ≤ C < B are rewritten as
  [A..C], one-host records for the overlap C..M (M = min B D; each number once more above C and once more
  below M), [M..max B D] — the same numbers with the same multiplicities.
-/
import PdshVerif.Hostlist.EditSort

namespace PdshVerif.Hostlist
open PdshVerif.Gen

/-- the copies of `x` the `while (new->lo <= new->hi)` loop of `hostlist_coalesce` inserts -/
def dupF (C M x : Nat) : List Nat := (if x > C then [x] else []) ++ (if x < M then [x] else [])

theorem count_range' (x : Nat) : ∀ (n s : Nat), (List.range' s n).count x = if s ≤ x ∧ x < s + n then 1 else 0
  | 0, s => by simp
  | n + 1, s => by
    rw [List.range'_succ, List.count_cons, count_range' x n (s + 1)]
    by_cases h1 : s = x
    · subst h1
      have : ¬ (s + 1 ≤ s ∧ s < s + 1 + n) := by omega
      simp [this]
    · have hb : (s == x) = false := by simpa using h1
      simp only [hb, Bool.false_eq_true, ↓reduceIte, Nat.add_zero]
      by_cases h2 : s + 1 ≤ x ∧ x < s + 1 + n
      · have : s ≤ x ∧ x < s + (n + 1) := by omega
        simp [h2, this]
      · have : ¬ (s ≤ x ∧ x < s + (n + 1)) := by omega
        simp [h2, this]

theorem count_dupF (C M x y : Nat) :
    (dupF C M y).count x = if y = x then (if x > C then 1 else 0) + (if x < M then 1 else 0) else 0 := by
  unfold dupF
  by_cases h : y = x
  · subst h
    by_cases h1 : y > C <;> by_cases h2 : y < M <;> simp [h1, h2]
  · have hb : (y == x) = false := by simpa using h
    by_cases h1 : y > C <;> by_cases h2 : y < M <;> simp [h1, h2, h, hb, List.count_cons]

theorem count_flatMap_dupF (C M x : Nat) : ∀ (n s : Nat),
    ((List.range' s n).flatMap (dupF C M)).count x =
      if s ≤ x ∧ x < s + n then (if x > C then 1 else 0) + (if x < M then 1 else 0) else 0
  | 0, s => by
    have : ¬ (s ≤ x ∧ x < s + 0) := by omega
    rw [if_neg this]
    rfl
  | n + 1, s => by
    rw [List.range'_succ, List.flatMap_cons, List.count_append, count_dupF, count_flatMap_dupF C M x n (s + 1)]
    by_cases h1 : s = x
    · subst h1
      have : ¬ (s + 1 ≤ s ∧ s < s + 1 + n) := by omega
      have h3 : s ≤ s ∧ s < s + (n + 1) := by omega
      simp [this, h3]
    · by_cases h2 : s + 1 ≤ x ∧ x < s + 1 + n
      · have : s ≤ x ∧ x < s + (n + 1) := by omega
        simp [h1, h2, this]
      · have : ¬ (s ≤ x ∧ x < s + (n + 1)) := by omega
        simp [h1, h2, this]

/-- the numbers before and after one round of `hostlist_coalesce` -/
theorem coalesce_numbers_perm (A B C D M X : Nat) (hAC : A ≤ C) (hCB : C < B) (hCD : C ≤ D)
    (hM : M = if D < B then D else B) (hX : X = if M < B then B else D) :
    (List.range' A (C + 1 - A) ++ (List.range' C (M + 1 - C)).flatMap (dupF C M) ++ List.range' M (X + 1 - M)).Perm
      (List.range' A (B + 1 - A) ++ List.range' C (D + 1 - C)) := by
  rw [List.perm_iff_count]
  intro x
  simp only [List.count_append, count_range', count_flatMap_dupF]
  by_cases hDB : D < B
  · simp only [hDB, ↓reduceIte] at hM
    subst hM
    simp only [hDB, ↓reduceIte] at hX
    subst hX
    repeat' split
    all_goals omega
  · simp only [hDB, ↓reduceIte] at hM
    subst hM
    simp only [Nat.lt_irrefl, ↓reduceIte] at hX
    subst hX
    repeat' split
    all_goals omega

end PdshVerif.Hostlist
