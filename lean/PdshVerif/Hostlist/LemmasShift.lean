/-
  `hostlist_shift` until NULL on a good list hands out exactly the denoted hosts, in order.
-/
import PdshVerif.Hostlist.LemmasIter

namespace PdshVerif.Hostlist
open PdshVerif.Gen

/-- `hostrange_shift` prints into `malloc(strlen(prefix) + width + 16)`: every number of the record
    fits (always true for records made by the parser: width ≥ digits of lo, hi < lo + 16384) -/
def HRange.ShiftFits (r : HRange) : Prop := r.single = false → ndig r.hi ≤ r.width + 15

instance (r : HRange) : Decidable r.ShiftFits := by unfold HRange.ShiftFits; exact inferInstance

def hostsL (rs : List HRange) : List Str := rs.flatMap HRange.hosts

/-- one `hostrange_shift` + `hostrange_empty` on a good record -/
theorem hostrangeShift_spec {r : HRange} (hg : r.Good) (hf : r.ShiftFits) :
    ∃ x r', hostrangeShift r = (some x, r') ∧
      ((r'.empty = true ∧ r.hosts = [x]) ∨
       (r'.empty = false ∧ r'.Good ∧ r'.ShiftFits ∧ r.hosts = x :: r'.hosts)) := by
  have hu : ULONG_MAX + 1 = U64 := by decide
  have hum : ULONG_MAX = 18446744073709551615 := rfl
  cases hs : r.single with
  | true =>
    obtain ⟨h1, h2⟩ := hg.1 hs
    refine ⟨r.pre, { r with lo := addU64 r.lo 1 }, by simp [hostrangeShift, hs], Or.inl ⟨?_, by simp [HRange.hosts, hs]⟩⟩
    simp [HRange.empty, h1, h2, addU64, U64]
  | false =>
    obtain ⟨h1, h2⟩ := hg.2 hs
    have hfit := hf hs
    have hcount : r.count > 0 := by
      rw [hg.count_eq]; exact hg.hosts_pos
    have hadd : addU64 r.lo 1 = r.lo + 1 := by
      unfold addU64; exact Nat.mod_eq_of_lt (by omega)
    have htake : (r.pre ++ fmtPad r.width r.lo).take (r.pre.length + r.width + 15) = r.pre ++ fmtPad r.width r.lo := by
      apply List.take_of_length_le
      simp only [List.length_append, fmtPad_length]
      have := ndig_mono h1
      omega
    refine ⟨r.pre ++ fmtPad r.width r.lo, { r with lo := r.lo + 1 }, ?_, ?_⟩
    · simp [hostrangeShift, hs, hcount, hadd, htake]
    · have hh : r.hosts = (List.range' r.lo (r.hi + 1 - r.lo)).map fun k => r.pre ++ fmtPad r.width k := by
        simp [HRange.hosts, hs]
      by_cases heq : r.hi = r.lo
      · left
        constructor
        · simp [HRange.empty, heq]
        · rw [hh, heq]; simp
      · right
        have hlt : r.lo < r.hi := by omega
        refine ⟨?_, ?_, ?_, ?_⟩
        · simp only [HRange.empty, Bool.or_eq_false_iff, decide_eq_false_iff_not]
          constructor <;> omega
        · exact ⟨fun h => by simp [hs] at h, fun _ => ⟨by simp only; omega, h2⟩⟩
        · intro _; exact hfit
        · rw [hh]
          have : r.hi + 1 - r.lo = (r.hi + 1 - (r.lo + 1)) + 1 := by omega
          rw [this, List.range'_succ]
          simp [HRange.hosts, hs]

/-- one `hostlist_shift` on a good, non-empty list -/
theorem shiftL_spec {rs : List HRange} {nh : Int} (hg : ∀ r ∈ rs, r.Good) (hf : ∀ r ∈ rs, r.ShiftFits)
    (hn : nh = (hostsL rs).length) :
    (rs = [] ∧ shiftL rs nh = (none, rs, nh)) ∨
    ∃ x rs', shiftL rs nh = (some x, rs', nh - 1) ∧ hostsL rs = x :: hostsL rs' ∧
      (∀ r ∈ rs', r.Good) ∧ (∀ r ∈ rs', r.ShiftFits) := by
  cases rs with
  | nil =>
    left
    simp [hostsL] at hn
    simp [shiftL, hn]
  | cons r rest =>
    right
    have hpos : nh > 0 := by
      have := (hg r (by simp)).hosts_pos
      simp only [hostsL, List.flatMap_cons, List.length_append] at hn
      omega
    obtain ⟨x, r', hsh, hcase⟩ := hostrangeShift_spec (hg r (by simp)) (hf r (by simp))
    rcases hcase with ⟨hemp, hhosts⟩ | ⟨hemp, hg', hf', hhosts⟩
    · refine ⟨x, rest, by simp [shiftL, hpos, hsh, hemp], by simp [hostsL, hhosts],
        fun q hq => hg q (by simp [hq]), fun q hq => hf q (by simp [hq])⟩
    · refine ⟨x, r' :: rest, by simp [shiftL, hpos, hsh, hemp], by simp [hostsL, hhosts], ?_, ?_⟩
      · intro q hq
        rcases List.mem_cons.mp hq with rfl | hq
        · exact hg'
        · exact hg q (by simp [hq])
      · intro q hq
        rcases List.mem_cons.mp hq with rfl | hq
        · exact hf'
        · exact hf q (by simp [hq])

/-- `while ((host = hostlist_shift(hl)))` never crashes on a good list and yields its hosts -/
theorem shiftLoopL_spec (n : Nat) : ∀ (rs : List HRange) (nh : Int), (∀ r ∈ rs, r.Good) →
    (∀ r ∈ rs, r.ShiftFits) → nh = (hostsL rs).length →
    ∃ rs' nh', shiftLoopL n rs nh = some ((hostsL rs).take n, rs', nh') := by
  induction n with
  | zero => intro rs nh _ _ _; exact ⟨rs, nh, by simp [shiftLoopL]⟩
  | succ n ih =>
    intro rs nh hg hf hn
    rcases shiftL_spec hg hf hn with ⟨rfl, hsh⟩ | ⟨x, rs', hsh, hhosts, hg', hf'⟩
    · simp only [hostsL, List.flatMap_nil, List.length_nil] at hn
      refine ⟨[], nh, ?_⟩
      have hn0 : nh = 0 := by simpa using hn
      subst hn0
      simp [shiftLoopL, shiftL, hostsL]
    · have hne : rs ≠ [] := by
        intro h0; rw [h0] at hhosts; simp [hostsL] at hhosts
      have hcr : (decide (nh > 0) && rs.isEmpty) = false := by
        cases rs with
        | nil => exact absurd rfl hne
        | cons _ _ => simp
      have hn' : nh - 1 = (hostsL rs').length := by
        rw [hhosts] at hn; simp only [List.length_cons] at hn; omega
      obtain ⟨rs'', nh'', hrec⟩ := ih rs' (nh - 1) hg' hf' hn'
      refine ⟨rs'', nh'', ?_⟩
      simp only [shiftLoopL, hcr, Bool.false_eq_true, ↓reduceIte, hsh, hrec, hhosts, List.take_succ_cons]

/-- SHIFT.  `hostlist_shift` until NULL (what `wcoll_expand` does) on a good list yields exactly
    the denoted hosts, in order, and does not crash -/
theorem shiftAll_eq (h : HL) (hg : h.Good) (hf : ∀ r ∈ h.ranges.toList, r.ShiftFits) (n : Nat) :
    shiftAll h n = some (h.hosts.take n) := by
  obtain ⟨rs', nh', hl⟩ := shiftLoopL_spec n h.ranges.toList h.nhosts hg.1 hf hg.2
  simp [shiftAll, shiftLoop, hl, hostsL, HL.hosts]

end PdshVerif.Hostlist
