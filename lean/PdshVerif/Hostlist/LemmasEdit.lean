/-
  Lemmas about the editable list (C16): projection to the plain range list, push, delete by
  position, shift, pop.
-/
import PdshVerif.Hostlist.Lemmas
import PdshVerif.Hostlist.LemmasShift
import PdshVerif.Hostlist.Uniq

namespace PdshVerif.Hostlist
open PdshVerif.Gen

/-- records good, counter = number of denoted hosts -/
def EL.Good (e : EL) : Prop := (∀ r ∈ e.ranges, r.Good) ∧ e.nhosts = e.hosts.length

theorem EL.toHL_hosts (e : EL) : e.toHL.hosts = e.hosts := by
  simp [EL.toHL, HL.hosts, EL.hosts]

theorem EL.good_iff (e : EL) : e.Good ↔ e.toHL.Good := by
  unfold EL.Good HL.Good
  rw [EL.toHL_hosts]
  simp [EL.toHL]

theorem getLast?_map_r (rs : List RObj) : (rs.map (·.r)).getLast? = rs.getLast?.map (·.r) := by
  simp [List.getLast?_map]

/-- the editable push is the plain push on the projection -/
theorem pushRangeE_toHL (e : EL) (r : HRange) : (pushRangeE e r).toHL = pushRange e.toHL r := by
  unfold pushRangeE pushRange
  have hb : e.toHL.ranges.back? = e.rs.getLast?.map (·.r) := by
    simp [EL.toHL, EL.ranges, Array.back?, List.getLast?_eq_getElem?]
  rw [hb]
  cases hl : e.rs.getLast? with
  | none =>
    simp [EL.toHL, EL.ranges]
  | some t =>
    simp only [Option.map_some]
    split
    · rename_i hc
      generalize hw : widthCombine t.r r = w
      obtain ⟨ok, wt, wr⟩ := w
      cases ok with
      | false => simp [EL.toHL, EL.ranges]
      | true =>
        simp only [EL.toHL, EL.ranges, List.map_append, List.map_cons, List.map_nil, List.map_dropLast,
          Array.pop, HL.mk.injEq, and_true]
        apply Array.ext'
        simp
    · simp [EL.toHL, EL.ranges]

theorem pushRangeE_hosts (e : EL) (r : HRange) (hg : e.Good) (hr : r.Good) :
    (pushRangeE e r).Good ∧ (pushRangeE e r).hosts = e.hosts ++ r.hosts := by
  have hg' := (EL.good_iff e).mp hg
  constructor
  · rw [EL.good_iff, pushRangeE_toHL]
    exact pushRange_good _ _ hg' hr
  · rw [← EL.toHL_hosts, pushRangeE_toHL, pushRange_hosts _ _ hg'.1 hr, EL.toHL_hosts]

end PdshVerif.Hostlist
