/-
  The callers of the printing functions, POLICY-FREE (C14).  The property fixes what
  `hostlist_ranged_string` / `hostlist_deranged_string` do with the size they are given; HOW BIG a
  caller's buffer is, and whether the caller retries with a bigger one, is the caller's policy.

  * `optListN n`: `opt_list` (`pdsh -q` / `-Q`) printing into a buffer of `n` bytes (as found: the
    literal `char wcoll_str[1024]`, `optList = optListN 1024`);
  * `callerGrow`: ANY retry policy — a sequence of sizes tried in turn while truncation is reported (a
    fixed buffer is the one-element sequence).  Every attempt stays inside the size it was given
    (`callerGrow_in_bounds`), and what is finally printed is what ONE call with the DISPLAY CAPACITY
    — the first size that holds the text, else the last size — prints (`callerGrow_eq`): the capacity
    is the only thing of the policy that can be observed, and the check reads it off the real `pdsh`;
  * `listPushGrow`: `list_push_hostlist` as /repo has it now (fix b20e58e): doubling without a
    ceiling until the text fits.
-/
import PdshVerif.Hostlist.PrintCallers

namespace PdshVerif.Hostlist.Print
open PdshVerif.Hostlist

/-- one call of the printing function chosen by `-q` (compressed) / `-Q` (expanded) -/
def printCall (fixed expand : Bool) (h : HL) (n : Nat) : Buf × Res :=
  if expand then derangedString fixed n h else rangedString n h

/-- what `opt_list` prints from a buffer of `n` bytes: the text, `[truncated]` appended when the call
    reported truncation -/
def shown (n : Nat) : Buf × Res → Buf × Option Str
  | (b, .trunc) => (b, (b.text n).map (· ++ "[truncated]".toList))
  | (b, .ok _) => (b, b.text n)

/-- `opt_list` with a display buffer of `n` bytes -/
def optListN (n : Nat) (fixed expand : Bool) (h : HL) : Buf × Option Str := shown n (printCall fixed expand h n)

theorem optList_eq (fixed expand : Bool) (h : HL) : optList fixed expand h = optListN WCOLL_STR fixed expand h := by
  unfold optList optListN shown printCall
  cases expand <;> simp only [Bool.false_eq_true, ↓reduceIte] <;> split <;> simp_all

/-- a caller that retries with the next size for as long as truncation is reported: the attempts made
    (size, buffer, verdict), first to last -/
def callerGrow (call : Nat → Buf × Res) : Nat → List Nat → List (Nat × Buf × Res)
  | n, [] => [(n, call n)]
  | n, m :: rest =>
    match call n with
    | (b, .ok k) => [(n, b, .ok k)]
    | (b, .trunc) => (n, b, .trunc) :: callerGrow call m rest

/-- the display capacity of a policy for a given call: the first size at which no truncation is
    reported, else the last size -/
def capacity (call : Nat → Buf × Res) : Nat → List Nat → Nat
  | n, [] => n
  | n, m :: rest =>
    match (call n).2 with
    | .ok _ => n
    | .trunc => capacity call m rest

theorem callerGrow_ne_nil (call : Nat → Buf × Res) : ∀ (n : Nat) (rest : List Nat), callerGrow call n rest ≠ []
  | _, [] => by simp [callerGrow]
  | n, m :: rest => by
    unfold callerGrow
    split <;> simp

/-- the LAST attempt of any policy is the one call made with the display capacity -/
theorem callerGrow_eq (call : Nat → Buf × Res) : ∀ (n : Nat) (rest : List Nat),
    (callerGrow call n rest).getLast? = some (capacity call n rest, call (capacity call n rest))
  | n, [] => by simp [callerGrow, capacity]
  | n, m :: rest => by
    unfold callerGrow capacity
    cases hc : call n with
    | mk b r =>
      cases r with
      | ok k => simp [hc]
      | trunc =>
        simp only
        rw [List.getLast?_cons_of_ne_nil (callerGrow_ne_nil call m rest)]
        exact callerGrow_eq call m rest
where
  List.getLast?_cons_of_ne_nil {α : Type} {a : α} {l : List α} (h : l ≠ []) : (a :: l).getLast? = l.getLast? := by
    cases l with
    | nil => exact absurd rfl h
    | cons b t => simp [List.getLast?_cons_cons]

/-- every attempt was made with one of the sizes of the policy -/
theorem callerGrow_sizes (call : Nat → Buf × Res) : ∀ (n : Nat) (rest : List Nat) (a : Nat × Buf × Res),
    a ∈ callerGrow call n rest → a.1 ∈ n :: rest ∧ (a.2.1, a.2.2) = call a.1
  | n, [], a, ha => by
    simp only [callerGrow, List.mem_singleton] at ha
    subst ha; simp
  | n, m :: rest, a, ha => by
    unfold callerGrow at ha
    cases hc : call n with
    | mk b r =>
      rw [hc] at ha
      cases r with
      | ok k =>
        simp only [List.mem_singleton] at ha
        subst ha; simp [hc]
      | trunc =>
        simp only [List.mem_cons] at ha
        rcases ha with rfl | ha
        · simp [hc]
        · obtain ⟨h1, h2⟩ := callerGrow_sizes call m rest a ha
          exact ⟨List.mem_cons_of_mem _ h1, h2⟩

/-- the `n - 1` / doubling loop of `list_push_hostlist` WITHOUT a ceiling (fix b20e58e): grow until the
    text fits; `fuel` rounds (`none`: not within the rounds given — never, see `listPushGrow_text`) -/
def listPushGrow (h : HL) : Nat → Nat → Option (Buf × Str)
  | 0, _ => none
  | f + 1, n =>
    match rangedString (n - 1) h with
    | (b, .ok _) => (b.text (n - 1)).map fun s => (b, s)
    | (_, .trunc) => listPushGrow h f (2 * n)

end PdshVerif.Hostlist.Print
