/-
  Helper lemmas for C14, part 5: from the relation `Wrote` to the observables of
  `PrintSpec.Verdict` (indices written, the C string the caller reads, the return value).
-/
import PdshVerif.Hostlist.PrintGroups

namespace PdshVerif.Hostlist.Print
open PdshVerif.Hostlist

/-- what the caller observes of one call -/
def obsOf (x : Buf × Res) (n : Nat) : PrintSpec.Obs :=
  ⟨match x.2 with | .ok k => some k | .trunc => none, x.1.log.map (·.1), x.1.text n⟩

/-- reading the C string: the first `k` cells hold `T`'s first `k` characters (none of them NUL),
    cell `k` holds the terminator -/
theorem cstr_spec (b : Buf) (T : Str) (k : Nat) (hk : k ≤ T.length)
    (hcells : ∀ j (hj : j < T.length), j < k → b.mem j = some T[j])
    (hnn : ∀ c ∈ T.take k, c ≠ NUL) (hnul : b.mem k = some NUL) :
    ∀ (fuel i : Nat), i ≤ k → k < i + fuel → b.cstr fuel i = some ((T.take k).drop i)
  | 0, i, h1, h2 => by omega
  | fuel + 1, i, h1, h2 => by
    have hlen : (T.take k).length = k := by rw [List.length_take]; omega
    by_cases hik : i = k
    · rw [hik]
      simp only [Buf.cstr, hnul, ↓reduceIte]
      rw [List.drop_of_length_le (by rw [hlen]; exact Nat.le_refl _)]
    · have hi : i < k := by omega
      have hiT : i < T.length := by omega
      have hmem : T[i] ∈ T.take k := by
        rw [List.mem_take_iff_getElem]
        exact ⟨i, by omega, rfl⟩
      have hne := hnn _ hmem
      have e : (T.take k).drop i = T[i] :: (T.take k).drop (i + 1) := by
        rw [List.drop_eq_getElem_cons (by omega), List.getElem_take]
      simp only [Buf.cstr, hcells i hiT hi, hne, ↓reduceIte]
      rw [cstr_spec b T k hk hcells hnn hnul fuel (i + 1) (by omega) (by omega), e]
      rfl

/-- the outcome of a call, as the specification judges it -/
theorem verdict_of_wrote {x : Buf × Res} {n : Nat} {T : Str} (hn : 1 ≤ n)
    (hw : Wrote Buf.empty x.1 0 n T)
    (hfit : T.length < n → x.2 = .ok T.length ∧ x.1.mem T.length = some NUL)
    (hcut : n ≤ T.length → x.2 = .trunc ∧ x.1.mem (n - 1) = some NUL)
    (hz : NUL ∉ T) : PrintSpec.Verdict T n (obsOf x n) := by
  obtain ⟨W, hl, hW⟩ := hw.log
  have hcells : ∀ j (hj : j < T.length), j + 1 < n → x.1.mem j = some T[j] := by
    intro j hj hr
    have := hw.text j hj (by omega)
    simpa using this
  refine ⟨?_, ?_⟩
  · intro i hi
    simp only [obsOf, List.mem_map] at hi
    obtain ⟨w, hw', rfl⟩ := hi
    rw [hl] at hw'
    simp only [Buf.empty, List.append_nil] at hw'
    exact (hW w hw').2
  · by_cases hf : T.length < n
    · obtain ⟨e1, e2⟩ := hfit hf
      have hs := cstr_spec x.1 T T.length (Nat.le_refl _) (fun j hj _ => hcells j hj (by omega))
        (fun c hc => by rw [List.take_length] at hc; exact fun h => hz (h ▸ hc)) e2 n 0 (Nat.zero_le _) (by omega)
      rw [List.take_length, List.drop_zero] at hs
      refine ⟨T, hs, fun _ => ⟨by simp [obsOf, e1], rfl⟩, fun h => absurd hf h⟩
    · have hge : n ≤ T.length := by omega
      obtain ⟨e1, e2⟩ := hcut hge
      have hs := cstr_spec x.1 T (n - 1) (by omega) (fun j hj hjn => hcells j hj (by omega))
        (fun c hc => fun h => hz (h ▸ List.mem_of_mem_take hc)) e2 n 0 (Nat.zero_le _) (by omega)
      rw [List.drop_zero] at hs
      refine ⟨T.take (n - 1), hs, fun h => absurd h hf, fun _ => ⟨by simp [obsOf, e1], ?_, List.take_prefix _ _⟩⟩
      rw [List.length_take]; omega

end PdshVerif.Hostlist.Print
