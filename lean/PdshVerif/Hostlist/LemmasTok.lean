/-
  String-level tokenizer lemma (C01): `_next_tok` called until NULL on the rendering of a
  well-formed expression (any separator runs) returns exactly the rendered words.
-/
import PdshVerif.Hostlist.LemmasCreate

namespace PdshVerif.Hostlist
open PdshVerif.Gen

theorem isSep_hlSep (c : Char) : isSep hlSep c = Spec.sepChar c := by
  unfold isSep hlSep Spec.sepChar
  simp only [List.contains_cons, List.contains_nil, Bool.or_false]
  by_cases h1 : c = ',' <;> by_cases h2 : c = ' ' <;> by_cases h3 : c = '\t' <;>
    simp [h1, h2, h3]

theorem textChar_facts {c : Char} (h : Spec.textChar c = true) :
    isSep hlSep c = false ∧ c ≠ '[' ∧ c ≠ ']' := by
  rw [isSep_hlSep]
  unfold Spec.textChar at h
  unfold Spec.sepChar
  simp only [Bool.and_eq_true, ne_eq, decide_eq_true_eq] at h
  simp [h.1.1.1.1, h.1.1.1.2, h.1.1.2, h.1.2, h.2]

/-- the token scan runs over `w` at level 0 and continues behind it at level 0 -/
def ScanPfx (w : Str) : Prop :=
  ∀ rest, scanTok hlSep 0 (w ++ rest) = (w ++ (scanTok hlSep 0 rest).1, (scanTok hlSep 0 rest).2)

theorem ScanPfx.nil : ScanPfx [] := fun _ => rfl

theorem ScanPfx.append {a b : Str} (ha : ScanPfx a) (hb : ScanPfx b) : ScanPfx (a ++ b) := by
  intro rest
  rw [List.append_assoc, ha (b ++ rest), hb rest, List.append_assoc]

theorem ScanPfx.text : ∀ {s : Str}, s.all Spec.textChar = true → ScanPfx s
  | [], _ => ScanPfx.nil
  | c :: cs, h => by
    simp only [List.all_cons, Bool.and_eq_true] at h
    obtain ⟨hs, ho, hc⟩ := textChar_facts h.1
    have ih := ScanPfx.text h.2
    intro rest
    simp only [List.cons_append, scanTok, hs, ho, hc, ↓reduceIte, Bool.not_false, Bool.or_true,
      ih rest]

/-- inside a bracket group (level 1) everything up to the closing bracket is consumed -/
theorem scan_body : ∀ (body rest : Str), '[' ∉ body → ']' ∉ body →
    scanTok hlSep 1 (body ++ ']' :: rest) =
      (body ++ ']' :: (scanTok hlSep 0 rest).1, (scanTok hlSep 0 rest).2)
  | [], rest, _, _ => by
    simp [scanTok]
  | c :: cs, rest, ho, hc => by
    have h1 : c ≠ '[' := fun e => ho (by simp [e])
    have h2 : c ≠ ']' := fun e => hc (by simp [e])
    have ih := scan_body cs rest (fun hm => ho (List.mem_cons_of_mem _ hm))
      (fun hm => hc (List.mem_cons_of_mem _ hm))
    simp [scanTok, h1, h2, ih]

theorem ScanPfx.group {body : Str} (ho : '[' ∉ body) (hc : ']' ∉ body) :
    ScanPfx ('[' :: body ++ [']']) := by
  intro rest
  have hs : isSep hlSep '[' = false := by decide
  have := scan_body body rest ho hc
  simp only [List.cons_append, List.append_assoc, List.nil_append, scanTok, hs, Bool.not_false,
    Bool.or_true, ↓reduceIte]
  simp only [Int.zero_add, this]

theorem ScanPfx.renderGroup {g : List Spec.Range} (hg : Spec.groupWF g = true) :
    ScanPfx (Spec.renderGroup g) := by
  unfold Spec.groupWF at hg
  simp only [Bool.and_eq_true, List.all_eq_true] at hg
  have hall := hg.2
  unfold Spec.renderGroup
  apply ScanPfx.group
  · exact joinComma_no_open _ (fun it hit => by
      obtain ⟨r, hr, rfl⟩ := List.mem_map.mp hit
      exact renderRange_no_open (hall r hr))
  · exact joinComma_no_close _ (fun it hit => by
      obtain ⟨r, hr, rfl⟩ := List.mem_map.mp hit
      exact renderRange_no_close (hall r hr))

/-- a rendered well-formed word is scanned as one piece and is not empty; its first character
    is not a separator -/
theorem renderWord_scan {w : Spec.Word} (hw : w.WF = true) :
    ScanPfx (Spec.renderWord w) ∧ ∃ c cs, Spec.renderWord w = c :: cs ∧ isSep hlSep c = false := by
  cases w with
  | plain n =>
    simp only [Spec.Word.WF, Bool.and_eq_true, Bool.not_eq_true', List.isEmpty_eq_false_iff] at hw
    refine ⟨ScanPfx.text hw.2, ?_⟩
    cases n with
    | nil => exact absurd rfl hw.1
    | cons c cs =>
      have := hw.2
      simp only [List.all_cons, Bool.and_eq_true] at this
      exact ⟨c, cs, rfl, (textChar_facts this.1).1⟩
  | br pre g1 mid g2 =>
    simp only [Spec.Word.WF, Bool.and_eq_true] at hw
    obtain ⟨⟨⟨hpre, hg1⟩, hmid⟩, hg2⟩ := hw
    have htail : ScanPfx (Spec.renderTail g2) := by
      cases g2 with
      | none => exact ScanPfx.nil
      | some gp =>
        obtain ⟨g, post⟩ := gp
        simp only [Bool.and_eq_true] at hg2
        exact (ScanPfx.renderGroup hg2.1).append (ScanPfx.text hg2.2)
    refine ⟨?_, ?_⟩
    · unfold Spec.renderWord
      exact (((ScanPfx.text hpre).append (ScanPfx.renderGroup hg1)).append (ScanPfx.text hmid)).append htail
    · cases pre with
      | nil =>
        exact ⟨'[', (Spec.joinComma (g1.map Spec.renderRange) ++ [']']) ++ mid ++ Spec.renderTail g2,
          by simp [Spec.renderWord, Spec.renderGroup], by decide⟩
      | cons c cs =>
        simp only [List.all_cons, Bool.and_eq_true] at hpre
        exact ⟨c, cs ++ Spec.renderGroup g1 ++ mid ++ Spec.renderTail g2, by simp [Spec.renderWord],
          (textChar_facts hpre.1).1⟩

theorem dropWhile_sep_run {s : Str} (hs : s.all Spec.sepChar = true) (rest : Str) :
    (s ++ rest).dropWhile (isSep hlSep) = rest.dropWhile (isSep hlSep) := by
  induction s with
  | nil => rfl
  | cons c cs ih =>
    simp only [List.all_cons, Bool.and_eq_true] at hs
    have : isSep hlSep c = true := by rw [isSep_hlSep]; exact hs.1
    simp only [List.cons_append, List.dropWhile_cons_of_pos this, ih hs.2]

theorem dropWhile_stop {c : Char} {cs : Str} (h : isSep hlSep c = false) :
    (c :: cs).dropWhile (isSep hlSep) = c :: cs := by
  simp [List.dropWhile, h]

theorem scan_stop (rest : Str) (h : rest = [] ∨ ∃ c r, rest = c :: r ∧ isSep hlSep c = true) :
    scanTok hlSep 0 rest = ([], rest) := by
  rcases h with rfl | ⟨c, r, rfl, hc⟩
  · rfl
  · simp [scanTok, hc]

/-- what follows a word in a rendering: its separator run and the remaining words -/
theorem render_tail_facts (w0 : Spec.Word) (s : Str) (rest : List (Spec.Word × Str))
    (hok : Spec.sepsOK ((w0, s) :: rest) = true) (hw : ∀ p ∈ rest, p.1.WF = true) :
    (s ++ rest.flatMap fun p => Spec.renderWord p.1 ++ p.2) = Spec.render s rest ∧
    (Spec.render s rest = [] ∨ ∃ c r, Spec.render s rest = c :: r ∧ isSep hlSep c = true) ∧
    (Spec.render s rest).dropWhile (isSep hlSep) = Spec.render [] rest := by
  refine ⟨rfl, ?_, ?_⟩
  · cases rest with
    | nil =>
      simp only [Spec.sepsOK] at hok
      cases s with
      | nil => left; simp [Spec.render]
      | cons c cs =>
        right
        simp only [List.all_cons, Bool.and_eq_true] at hok
        exact ⟨c, cs, by simp [Spec.render], by rw [isSep_hlSep]; exact hok.1⟩
    | cons p ps =>
      simp only [Spec.sepsOK, Bool.and_eq_true, Bool.not_eq_true', List.isEmpty_eq_false_iff] at hok
      cases s with
      | nil => exact absurd rfl hok.1.1
      | cons c cs =>
        right
        have := hok.1.2
        simp only [List.all_cons, Bool.and_eq_true] at this
        exact ⟨c, cs ++ (p :: ps).flatMap (fun p => Spec.renderWord p.1 ++ p.2), rfl,
          by rw [isSep_hlSep]; exact this.1⟩
  · have hs : s.all Spec.sepChar = true := by
      cases rest with
      | nil => simpa [Spec.sepsOK] using hok
      | cons p ps =>
        simp only [Spec.sepsOK, Bool.and_eq_true] at hok
        exact hok.1.2
    unfold Spec.render
    rw [dropWhile_sep_run hs]
    cases rest with
    | nil => simp
    | cons p ps =>
      obtain ⟨_, c, cs, hc, hsep⟩ := renderWord_scan (hw p (by simp))
      simp only [List.flatMap_cons, List.nil_append, hc, List.cons_append]
      exact dropWhile_stop hsep

/-- STRING-LEVEL TOKENIZER LEMMA: on the rendering of well-formed words with arbitrary separator
    runs, `_next_tok` until NULL returns exactly the rendered words (any sufficient fuel) -/
theorem tokensFuel_render : ∀ (items : List (Spec.Word × Str)) (lead : Str) (fuel : Nat),
    lead.all Spec.sepChar = true → Spec.sepsOK items = true → (∀ p ∈ items, p.1.WF = true) →
    items.length < fuel →
    tokensFuel hlSep fuel (Spec.render lead items) = items.map fun p => Spec.renderWord p.1
  | [], lead, fuel, hl, _, _, hf => by
    cases fuel with
    | zero => omega
    | succ f =>
      have : (Spec.render lead []).dropWhile (isSep hlSep) = [] := by
        have := dropWhile_sep_run hl []
        simpa [Spec.render] using this
      simp [tokensFuel, nextTok, this]
  | (w, s) :: rest, lead, fuel, hl, hok, hw, hf => by
    cases fuel with
    | zero => omega
    | succ f =>
      obtain ⟨hscan, c, cs, hc, hsep⟩ := renderWord_scan (hw (w, s) (by simp))
      have hwrest : ∀ p ∈ rest, p.1.WF = true := fun p hp => hw p (by simp [hp])
      obtain ⟨_, hstop, hdrop⟩ := render_tail_facts w s rest hok hwrest
      have hokrest : Spec.sepsOK rest = true := by
        cases rest with
        | nil => rfl
        | cons p ps =>
          simp only [Spec.sepsOK, Bool.and_eq_true] at hok
          exact hok.2
      have hrender : Spec.render lead ((w, s) :: rest) = lead ++ (Spec.renderWord w ++ Spec.render s rest) := by
        simp [Spec.render, List.append_assoc]
      have hdw : (Spec.render lead ((w, s) :: rest)).dropWhile (isSep hlSep) =
          Spec.renderWord w ++ Spec.render s rest := by
        rw [hrender, dropWhile_sep_run hl, hc, List.cons_append]
        exact dropWhile_stop hsep
      have hsc := hscan (Spec.render s rest)
      rw [scan_stop _ hstop] at hsc
      simp only [List.append_nil] at hsc
      have hnt : nextTok hlSep (Spec.render lead ((w, s) :: rest)) =
          some (Spec.renderWord w, Spec.render [] rest) := by
        unfold nextTok
        rw [hdw]
        have hne : Spec.renderWord w ++ Spec.render s rest = c :: (cs ++ Spec.render s rest) := by
          rw [hc]; rfl
        rw [hne]
        simp only
        rw [← hne, hsc, hdrop]
      simp only [tokensFuel, hnt, List.map_cons]
      rw [tokensFuel_render rest [] f (by simp) hokrest hwrest (by simp only [List.length_cons] at hf; omega)]

theorem render_length_ge (lead : Str) (items : List (Spec.Word × Str)) (hw : ∀ p ∈ items, p.1.WF = true) :
    items.length ≤ (Spec.render lead items).length := by
  unfold Spec.render
  induction items with
  | nil => simp
  | cons p ps ih =>
    obtain ⟨_, c, cs, hc, _⟩ := renderWord_scan (hw p (by simp))
    have := ih (fun q hq => hw q (by simp [hq]))
    simp only [List.flatMap_cons, List.length_append, List.length_cons, hc] at this ⊢
    omega

/-- `tokens` (fuel = length + 1) on a rendering -/
theorem tokens_render (items : List (Spec.Word × Str)) (lead : Str)
    (hl : lead.all Spec.sepChar = true) (hok : Spec.sepsOK items = true)
    (hw : ∀ p ∈ items, p.1.WF = true) :
    tokens hlSep (Spec.render lead items) = items.map fun p => Spec.renderWord p.1 := by
  unfold tokens
  exact tokensFuel_render items lead _ hl hok hw (by have := render_length_ge lead items hw; omega)

end PdshVerif.Hostlist
