/-
  Delete by position (C16): `hostlist_delete_nth` removes exactly list position n of the denoted
  hosts, whatever it does to the records (shrink at an end, split, drop) and to the iterators.
-/
import PdshVerif.Hostlist.LemmasEdit

namespace PdshVerif.Hostlist
open PdshVerif.Gen

/-- the record-level effect of `hostlist_delete_nth` on the plain range list -/
def deleteNthR : List HRange → Nat → Nat → List HRange
  | [], _, _ => []
  | r :: rest, n, count =>
    if n + 1 ≤ r.count + count then
      if r.single then rest
      else
        match hostrangeDeleteHost r (addU64 r.lo (n - count)) with
        | (r', some up) => r' :: up :: rest
        | (r', none) => if r'.empty then rest else r' :: rest
    else r :: deleteNthR rest n (count + r.count)

theorem deleteNthRs_ranges (fresh : Nat) : ∀ (rs : List RObj) (n i count : Nat),
    (deleteNthRs fresh rs n i count).1.map (·.r) = deleteNthR (rs.map (·.r)) n count
  | [], _, _, _ => rfl
  | o :: rest, n, i, count => by
    simp only [deleteNthRs, List.map_cons, deleteNthR]
    split
    · split
      · rfl
      · generalize hostrangeDeleteHost o.r (addU64 o.r.lo (n - count)) = d
        obtain ⟨r', up⟩ := d
        cases up with
        | some u => rfl
        | none => simp only; split <;> rfl
    · have ih := deleteNthRs_ranges fresh rest n (i + 1) (count + o.r.count)
      generalize deleteNthRs fresh rest n (i + 1) (count + o.r.count) = res at ih ⊢
      obtain ⟨rs', c⟩ := res
      simp only [List.map_cons] at ih ⊢
      rw [ih]

theorem eraseIdx_mid {α : Type} (A : List α) (x : α) (B : List α) :
    (A ++ x :: B).eraseIdx A.length = A ++ B := by
  rw [List.eraseIdx_append_of_length_le (Nat.le_refl _)]; simp

/-! ### one record -/
/-- deleting the host at offset k of a good range record -/
theorem hostrangeDeleteHost_spec {r : HRange} (hg : r.Good) (hs : r.single = false) {k : Nat}
    (hk : k < r.hosts.length) :
    match hostrangeDeleteHost r (addU64 r.lo k) with
    | (r', some up) => r'.Good ∧ up.Good ∧ r'.empty = false ∧ r'.hosts ++ up.hosts = r.hosts.eraseIdx k
    | (r', none) => (r'.empty = true ∧ r.hosts.eraseIdx k = []) ∨
                    (r'.empty = false ∧ r'.Good ∧ r'.hosts = r.hosts.eraseIdx k) := by
  have hu : ULONG_MAX + 1 = U64 := by decide
  have hum : ULONG_MAX = 18446744073709551615 := rfl
  obtain ⟨h1, h2⟩ := hg.2 hs
  have hl := hg.hosts_length
  rw [hs] at hl
  simp only [Bool.false_eq_true, ↓reduceIte] at hl
  have ha : addU64 r.lo k = r.lo + k := by unfold addU64; exact Nat.mod_eq_of_lt (by omega)
  have hh : ∀ (lo hi : Nat), ({ r with lo := lo, hi := hi } : HRange).hosts =
      (List.range' lo (hi + 1 - lo)).map fun j => r.pre ++ fmtPad r.width j := by
    intro lo hi; simp [HRange.hosts, hs]
  have hr : r.hosts = (List.range' r.lo (r.hi + 1 - r.lo)).map fun j => r.pre ++ fmtPad r.width j := by
    simp [HRange.hosts, hs]
  unfold hostrangeDeleteHost
  rw [ha]
  by_cases hk0 : k = 0
  · -- lowest host: lo++
    subst hk0
    simp only [Nat.add_zero, ↓reduceIte]
    have hadd : addU64 r.lo 1 = r.lo + 1 := by unfold addU64; exact Nat.mod_eq_of_lt (by omega)
    rw [hadd]
    by_cases heq : r.lo = r.hi
    · left
      constructor
      · simp [HRange.empty, heq]
      · rw [hr, heq]; simp
    · right
      refine ⟨?_, ⟨fun h => by simp [hs] at h, fun _ => ⟨by simp only; omega, h2⟩⟩, ?_⟩
      · simp only [HRange.empty, Bool.or_eq_false_iff, decide_eq_false_iff_not]
        constructor <;> omega
      · have := hh (r.lo + 1) r.hi
        rw [show ({ r with lo := r.lo + 1 } : HRange) = { r with lo := r.lo + 1, hi := r.hi } from rfl, this, hr]
        have e : r.hi + 1 - r.lo = (r.hi + 1 - (r.lo + 1)) + 1 := by omega
        rw [e, List.range'_succ]
        simp
  · have hne : ¬ r.lo + k = r.lo := by omega
    simp only [hne, ↓reduceIte]
    by_cases hkl : r.lo + k = r.hi
    · -- highest host: hi--
      simp only [hkl, ↓reduceIte]
      have hsub : subU64 r.hi 1 = r.hi - 1 := subU64_of_le (by omega) (by omega)
      rw [hsub]
      right
      refine ⟨?_, ⟨fun h => by simp [hs] at h, fun _ => ⟨by simp only; omega, by simp only; omega⟩⟩, ?_⟩
      · simp only [HRange.empty, Bool.or_eq_false_iff, decide_eq_false_iff_not]
        constructor <;> omega
      · have := hh r.lo (r.hi - 1)
        rw [show ({ r with hi := r.hi - 1 } : HRange) = { r with lo := r.lo, hi := r.hi - 1 } from rfl, this, hr]
        have e : r.hi + 1 - r.lo = (r.hi - 1 + 1 - r.lo) + 1 := by omega
        rw [e, List.range'_concat, List.map_append]
        have hkk : k = (List.map (fun j => r.pre ++ fmtPad r.width j) (List.range' r.lo (r.hi - 1 + 1 - r.lo))).length := by
          simp; omega
        rw [hkk, List.eraseIdx_append_of_length_le (Nat.le_refl _)]
        simp
    · -- in the middle: split
      simp only [hkl, ↓reduceIte]
      have hsub : subU64 (r.lo + k) 1 = r.lo + k - 1 := subU64_of_le (by omega) (by omega)
      have hadd : addU64 (r.lo + k) 1 = r.lo + k + 1 := by unfold addU64; exact Nat.mod_eq_of_lt (by omega)
      rw [hsub, hadd]
      refine ⟨⟨fun h => by simp [hs] at h, fun _ => ⟨by simp only; omega, by simp only; omega⟩⟩,
        ⟨fun h => by simp [hs] at h, fun _ => ⟨by simp only; omega, h2⟩⟩, ?_, ?_⟩
      · simp only [HRange.empty, Bool.or_eq_false_iff, decide_eq_false_iff_not]
        constructor <;> omega
      · have e1 := hh r.lo (r.lo + k - 1)
        have e2 := hh (r.lo + k + 1) r.hi
        rw [show ({ r with hi := r.lo + k - 1 } : HRange) = { r with lo := r.lo, hi := r.lo + k - 1 } from rfl,
          show ({ r with lo := r.lo + k + 1 } : HRange) = { r with lo := r.lo + k + 1, hi := r.hi } from rfl,
          e1, e2, hr]
        have hsplit : List.range' r.lo (r.hi + 1 - r.lo) =
            List.range' r.lo k ++ (r.lo + k) :: List.range' (r.lo + k + 1) (r.hi + 1 - (r.lo + k + 1)) := by
          have e : r.hi + 1 - r.lo = k + ((r.hi + 1 - (r.lo + k + 1)) + 1) := by omega
          rw [e, ← List.range'_append_1, List.range'_succ]
        rw [hsplit, List.map_append, List.map_cons]
        have e3 : r.lo + k - 1 + 1 - r.lo = k := by omega
        have hm := eraseIdx_mid (List.map (fun j => r.pre ++ fmtPad r.width j) (List.range' r.lo k))
          (r.pre ++ fmtPad r.width (r.lo + k))
          (List.map (fun j => r.pre ++ fmtPad r.width j) (List.range' (r.lo + k + 1) (r.hi + 1 - (r.lo + k + 1))))
        simp only [List.length_map, List.length_range'] at hm
        rw [e3, hm]

/-! ### the list -/
/-- DELETE BY POSITION on the plain range list: the denoted hosts lose exactly position n -/
theorem deleteNthR_hosts : ∀ (rs : List HRange) (n count : Nat), (∀ r ∈ rs, r.Good) → count ≤ n →
    n - count < (hostsL rs).length →
    (∀ r ∈ deleteNthR rs n count, r.Good) ∧
    hostsL (deleteNthR rs n count) = (hostsL rs).eraseIdx (n - count)
  | [], _, _, _, _, hlt => by simp [hostsL] at hlt
  | r :: rest, n, count, hg, hc, hlt => by
    have hgr := hg r (by simp)
    have hgrest : ∀ x ∈ rest, x.Good := fun x hx => hg x (by simp [hx])
    have hcnt := hgr.count_eq
    simp only [deleteNthR]
    simp only [hostsL, List.flatMap_cons, List.length_append] at hlt ⊢
    split
    · rename_i hin
      have hk : n - count < r.hosts.length := by omega
      cases hs : r.single with
      | true =>
        have h1 : r.hosts = [r.pre] := by simp [HRange.hosts, hs]
        simp only [↓reduceIte]
        refine ⟨hgrest, ?_⟩
        rw [h1] at hk ⊢
        simp only [List.length_cons, List.length_nil, Nat.zero_add, Nat.lt_one_iff] at hk
        rw [hk]; simp
      | false =>
        simp only [Bool.false_eq_true, ↓reduceIte]
        have hspec := hostrangeDeleteHost_spec hgr hs hk
        generalize hostrangeDeleteHost r (addU64 r.lo (n - count)) = d at hspec ⊢
        obtain ⟨r', up⟩ := d
        cases up with
        | some u =>
          simp only at hspec ⊢
          obtain ⟨g1, g2, _, hh⟩ := hspec
          refine ⟨?_, ?_⟩
          · intro x hx
            simp only [List.mem_cons] at hx
            rcases hx with rfl | rfl | hx
            · exact g1
            · exact g2
            · exact hgrest x hx
          · simp only [List.flatMap_cons]
            rw [← List.append_assoc, hh, List.eraseIdx_append_of_lt_length hk]
        | none =>
          simp only at hspec ⊢
          rcases hspec with ⟨he, hh⟩ | ⟨he, g1, hh⟩
          · simp only [he, ↓reduceIte]
            refine ⟨hgrest, ?_⟩
            rw [List.eraseIdx_append_of_lt_length hk, hh]; simp
          · simp only [he, Bool.false_eq_true, ↓reduceIte]
            refine ⟨?_, ?_⟩
            · intro x hx
              rcases List.mem_cons.mp hx with rfl | hx
              · exact g1
              · exact hgrest x hx
            · simp only [List.flatMap_cons]
              rw [hh, List.eraseIdx_append_of_lt_length hk]
    · rename_i hout
      have hlen : r.hosts.length ≤ n - count := by omega
      have hfl : (hostsL rest).length = (List.flatMap HRange.hosts rest).length := rfl
      have ih := deleteNthR_hosts rest n (count + r.count) hgrest (by omega) (by omega)
      refine ⟨?_, ?_⟩
      · intro x hx
        rcases List.mem_cons.mp hx with rfl | hx
        · exact hgr
        · exact ih.1 x hx
      · simp only [List.flatMap_cons]
        have : hostsL (deleteNthR rest n (count + r.count)) = List.flatMap HRange.hosts (deleteNthR rest n (count + r.count)) := rfl
        rw [← this, ih.2, List.eraseIdx_append_of_length_le hlen]
        congr 2
        omega

/-! ### the editable list: iterators and record identities play no part in the denotation -/
theorem map_eraseIdx' {α β : Type} (f : α → β) : ∀ (l : List α) (n : Nat),
    (l.eraseIdx n).map f = (l.map f).eraseIdx n
  | [], _ => by simp
  | _ :: _, 0 => by simp
  | a :: l, n + 1 => by simp [map_eraseIdx' f l n]

theorem deleteRange_ranges (cfg : Cfg) (e : EL) (n : Nat) :
    (deleteRange cfg e n).ranges = e.ranges.eraseIdx n ∧ (deleteRange cfg e n).nhosts = e.nhosts := by
  unfold deleteRange
  simp only
  split <;> simp [shiftIterators, EL.ranges, map_eraseIdx']

theorem insertRange_ranges (e : EL) (r : HRange) (n : Nat) (hn : n ≤ e.rs.length) :
    (insertRange e r n).ranges = e.ranges.take n ++ r :: e.ranges.drop n ∧
    (insertRange e r n).nhosts = e.nhosts := by
  unfold insertRange
  have : ¬ n > e.rs.length := by omega
  simp [this, EL.ranges, List.map_take, List.map_drop]


/-- where `deleteNthRs` reports a deletion, the result is the array without that record -/
theorem deleteNthRs_deleted (fresh : Nat) : ∀ (rs : List RObj) (n i count j : Nat),
    (deleteNthRs fresh rs n i count).2 = .deleted j →
    i ≤ j ∧ (deleteNthRs fresh rs n i count).1 = rs.eraseIdx (j - i)
  | [], _, _, _, _, h => by simp [deleteNthRs] at h
  | o :: rest, n, i, count, j, h => by
    simp only [deleteNthRs] at h ⊢
    split at h
    · split at h
      · simp only [Change.deleted.injEq] at h; subst h
        rename_i h1 h2
        simp [h1, h2]
      · rename_i h1 h2
        simp only [h1, h2, ↓reduceIte, Bool.false_eq_true]
        generalize hostrangeDeleteHost o.r (addU64 o.r.lo (n - count)) = d at h ⊢
        obtain ⟨r', up⟩ := d
        cases up with
        | some u => simp at h
        | none =>
          simp only at h ⊢
          split at h
          · rename_i he
            simp only [Change.deleted.injEq] at h; subst h
            simp [he]
          · simp at h
    · rename_i h1
      simp only [h1, ↓reduceIte]
      generalize hres : deleteNthRs fresh rest n (i + 1) (count + o.r.count) = res at h ⊢
      obtain ⟨rs', c⟩ := res
      simp only at h ⊢
      have ih := deleteNthRs_deleted fresh rest n (i + 1) (count + o.r.count) j (by rw [hres]; exact h)
      rw [hres] at ih
      refine ⟨by omega, ?_⟩
      have : j - i = (j - (i + 1)) + 1 := by omega
      rw [this]
      have ih2 : rs' = rest.eraseIdx (j - (i + 1)) := ih.2
      simp [ih2]

/-- where it reports an insertion, the new record sits at that index of the result -/
theorem deleteNthRs_inserted (fresh : Nat) : ∀ (rs : List RObj) (n i count j : Nat),
    (deleteNthRs fresh rs n i count).2 = .inserted j →
    i < j ∧ j - i < (deleteNthRs fresh rs n i count).1.length
  | [], _, _, _, _, h => by simp [deleteNthRs] at h
  | o :: rest, n, i, count, j, h => by
    simp only [deleteNthRs] at h ⊢
    split at h
    · split at h
      · simp at h
      · rename_i h1 h2
        simp only [h1, h2, ↓reduceIte, Bool.false_eq_true]
        generalize hostrangeDeleteHost o.r (addU64 o.r.lo (n - count)) = d at h ⊢
        obtain ⟨r', up⟩ := d
        cases up with
        | some u =>
          simp only [Change.inserted.injEq] at h; subst h
          simp
        | none =>
          simp only at h
          split at h <;> simp at h
    · rename_i h1
      simp only [h1, ↓reduceIte]
      generalize hres : deleteNthRs fresh rest n (i + 1) (count + o.r.count) = res at h ⊢
      obtain ⟨rs', c⟩ := res
      simp only at h ⊢
      have ih := deleteNthRs_inserted fresh rest n (i + 1) (count + o.r.count) j (by rw [hres]; exact h)
      rw [hres] at ih
      have ih2 : j - (i + 1) < rs'.length := ih.2
      simp only [List.length_cons]
      omega

theorem take_drop_reinsert {α : Type} (l : List α) (j : Nat) (x : α) (hx : l[j]? = some x) :
    (l.take j ++ l.drop (j + 1)).take j ++ x :: (l.take j ++ l.drop (j + 1)).drop j = l := by
  have hj : j < l.length := by
    rcases List.getElem?_eq_some_iff.mp hx with ⟨h, _⟩; exact h
  have hlen : (l.take j).length = j := by simp; omega
  rw [List.take_append_of_le_length (by omega), List.take_take, Nat.min_self,
    List.drop_append_of_le_length (by omega)]
  have : List.drop j (List.take j l) = [] := by
    apply List.drop_eq_nil_of_le; omega
  rw [this, List.nil_append]
  have hget : l[j] = x := by
    rcases List.getElem?_eq_some_iff.mp hx with ⟨_, h⟩; exact h
  conv => rhs; rw [← List.take_append_drop j l, List.drop_eq_getElem_cons hj, hget]

/-- the record list after `hostlist_delete_nth`, whatever happens to iterators -/
theorem deleteNthE_fields (cfg : Cfg) (e : EL) (n : Nat) :
    (deleteNthE cfg e n).rs = (deleteNthE0 cfg e n).rs ∧ (deleteNthE cfg e n).nhosts = (deleteNthE0 cfg e n).nhosts ∧
    (deleteNthE cfg e n).nextId = (deleteNthE0 cfg e n).nextId ∧
    ((deleteNthE0 cfg e n).its = [] → (deleteNthE cfg e n).its = []) := by
  unfold deleteNthE
  simp only
  split <;> simp_all [delIts]

theorem deleteNthE0_ranges (cfg : Cfg) (e : EL) (n : Nat) :
    (deleteNthE0 cfg e n).ranges = deleteNthR e.ranges n 0 ∧ (deleteNthE0 cfg e n).nhosts = e.nhosts - 1 := by
  have hr := deleteNthRs_ranges e.nextId e.rs n 0 0
  have hrg : List.map (fun x => x.r) e.rs = e.ranges := rfl
  rw [hrg] at hr
  unfold deleteNthE0
  generalize hres : deleteNthRs e.nextId e.rs n 0 0 = res at hr
  obtain ⟨rs', c⟩ := res
  cases c with
  | none => exact ⟨by simpa [EL.ranges] using hr, rfl⟩
  | deleted i =>
    have hd := deleteNthRs_deleted e.nextId e.rs n 0 0 i (by rw [hres])
    rw [hres] at hd
    simp only at hd hr ⊢
    have := deleteRange_ranges cfg e i
    refine ⟨?_, by simp [this.2]⟩
    rw [show ({ deleteRange cfg e i with nhosts := (deleteRange cfg e i).nhosts - 1 } : EL).ranges =
      (deleteRange cfg e i).ranges from rfl, this.1, ← hr, hd.2]
    simp [EL.ranges, map_eraseIdx']
  | inserted i =>
    have hi := deleteNthRs_inserted e.nextId e.rs n 0 0 i (by rw [hres])
    rw [hres] at hi
    simp only at hi hr ⊢
    obtain ⟨x, hx⟩ : ∃ x, rs'[i]? = some x := by
      have : i < rs'.length := by omega
      exact ⟨rs'[i], by simp [this]⟩
    have hlen : i ≤ (rs'.take i ++ rs'.drop (i + 1)).length := by
      simp; omega
    have hins := insertRange_ranges { e with rs := rs'.take i ++ rs'.drop (i + 1) } x.r i hlen
    simp only [hx, Option.map_some, Option.getD_some]
    refine ⟨?_, by simp [hins.2]⟩
    rw [show ∀ (q : EL), ({ q with nhosts := q.nhosts - 1 } : EL).ranges = q.ranges from fun _ => rfl, hins.1, ← hr]
    have hrr : ({ e with rs := rs'.take i ++ rs'.drop (i + 1) } : EL).ranges =
        (rs'.take i ++ rs'.drop (i + 1)).map (·.r) := rfl
    rw [hrr, ← List.map_take, ← List.map_drop, ← List.map_cons, ← List.map_append]
    rw [take_drop_reinsert rs' i x hx]

theorem deleteNthE_ranges (cfg : Cfg) (e : EL) (n : Nat) :
    (deleteNthE cfg e n).ranges = deleteNthR e.ranges n 0 ∧ (deleteNthE cfg e n).nhosts = e.nhosts - 1 := by
  obtain ⟨h1, h2, _, _⟩ := deleteNthE_fields cfg e n
  have h0 := deleteNthE0_ranges cfg e n
  exact ⟨by show (deleteNthE cfg e n).rs.map (·.r) = _; rw [h1]; exact h0.1, by rw [h2]; exact h0.2⟩

/-- DELETE BY POSITION (`hostlist_delete_nth`): the list denotes the old hosts without position n,
    the counter follows, the records stay good — with any number of live iterators -/
theorem deleteNthE_hosts (cfg : Cfg) (e : EL) (n : Nat) (hg : e.Good) (hn : n < e.hosts.length) :
    (deleteNthE cfg e n).Good ∧ (deleteNthE cfg e n).hosts = e.hosts.eraseIdx n := by
  have hr := deleteNthE_ranges cfg e n
  have hd := deleteNthR_hosts e.ranges n 0 hg.1 (Nat.zero_le _) (by simpa [hostsL, EL.hosts] using hn)
  simp only [Nat.sub_zero] at hd
  have hh : (deleteNthE cfg e n).hosts = e.hosts.eraseIdx n := by
    unfold EL.hosts
    rw [hr.1]
    exact hd.2
  refine ⟨⟨by rw [hr.1]; exact hd.1, ?_⟩, hh⟩
  rw [hr.2, hh, hg.2, List.length_eraseIdx]
  simp only [hn, ↓reduceIte]
  omega

/-- `hostlist_shift` with live iterators acts on the record list like the plain `shiftL` -/
theorem shiftE_ranges (cfg : Cfg) (e : EL) (hne : ¬(e.nhosts > 0 ∧ e.rs = [])) :
    ∃ x e', shiftE cfg e = .ok (x, e') ∧ (x, e'.ranges, e'.nhosts) = shiftL e.ranges e.nhosts := by
  unfold shiftE shiftL
  by_cases hn : e.nhosts > 0
  · simp only [hn, ↓reduceIte]
    cases hrs : e.rs with
    | nil => exact absurd ⟨hn, hrs⟩ hne
    | cons o rest =>
      simp only [EL.ranges, hrs, List.map_cons]
      generalize hostrangeShift o.r = sh
      obtain ⟨host, r'⟩ := sh
      simp only
      by_cases he : r'.empty = true
      · simp only [he, ↓reduceIte]
        have := deleteRange_ranges cfg { e with rs := { o with r := r' } :: rest, nhosts := e.nhosts - 1 } 0
        have h1 := this.1
        have h2 := this.2
        simp only [EL.ranges, List.map_cons, List.eraseIdx_zero, List.tail_cons] at h1
        exact ⟨_, _, rfl, by simp only [EL.ranges, Prod.mk.injEq, true_and]; exact ⟨h1, h2⟩⟩
      · simp only [he, Bool.false_eq_true, ↓reduceIte]
        exact ⟨_, _, rfl, by simp [shiftIterators]⟩
  · simp only [hn, ↓reduceIte]
    exact ⟨_, _, rfl, rfl⟩

/-- SHIFT: `hostlist_shift` hands out the first denoted host and leaves the rest, with any number of
    live iterators, in every variant -/
theorem shiftE_hosts (cfg : Cfg) (e : EL) (hg : e.Good) (hf : ∀ r ∈ e.ranges, r.ShiftFits) :
    ∃ e', shiftE cfg e = .ok (e.hosts.head?, e') ∧ e'.hosts = e.hosts.tail ∧ e'.Good := by
  have hne : ¬(e.nhosts > 0 ∧ e.rs = []) := by
    rintro ⟨h1, h2⟩
    have := hg.2
    simp [EL.hosts, EL.ranges, h2] at this
    omega
  obtain ⟨x, e', he, hs⟩ := shiftE_ranges cfg e hne
  rcases shiftL_spec (rs := e.ranges) (nh := e.nhosts) hg.1 hf (by simpa [hostsL, EL.hosts] using hg.2) with
    ⟨hnil, hsh⟩ | ⟨y, rs', hsh, hhosts, hg', _⟩
  · rw [hsh] at hs
    simp only [Prod.mk.injEq] at hs
    refine ⟨e', ?_, ?_, ?_⟩
    · rw [he, hs.1]; simp [EL.hosts, hnil]
    · simp [EL.hosts, hs.2.1, hnil]
    · exact ⟨by rw [hs.2.1, hnil]; simp, by rw [hs.2.2]; simp [EL.hosts, hs.2.1, hnil]; simpa [EL.hosts, hnil] using hg.2⟩
  · rw [hsh] at hs
    simp only [Prod.mk.injEq] at hs
    have hh : e.hosts = y :: hostsL rs' := hhosts
    refine ⟨e', ?_, ?_, ?_⟩
    · rw [he, hs.1, hh]; rfl
    · unfold EL.hosts; rw [hs.2.1]; rw [show List.flatMap HRange.hosts e.ranges = e.hosts from rfl, hh]; rfl
    · refine ⟨by rw [hs.2.1]; exact hg', ?_⟩
      rw [hs.2.2]
      have : e'.hosts = hostsL rs' := by unfold EL.hosts; rw [hs.2.1]; rfl
      rw [this, hg.2, hh]
      simp

end PdshVerif.Hostlist
